(** * Proofs/Btor2RtNamed.v — the reader follows the writer WITH its name bookkeeping.

    [Btor2SerNames.serialize_named_v] (the writer model that the correspondence check compares token by
    token with serialize.rs) differs from the nameless [Btor2Ser.serialize] by
      (i)  optional trailing name tokens on declaration, node and output/bad/constraint lines,
      (ii) trailing alias lines [<id> uext <sort> <target> 0 <name>] between the bad states and the
           next lines (they take ids, so the ids of the next section are shifted).
    The invariant [Inv] of Btor2RtSim (sort ids and cached expression ids of the writer denote, in the
    reader's maps, the sort and the translation of the expression) does not mention names, so the
    simulation is re-established step by step:
      - a name token only feeds [p_used] / [p_symnames] ([Btor2RtTail]), and the names the reader
        chooses for the symbols are absorbed by the symbol map [m] exactly as in the nameless proof;
      - an alias line binds a NEW id to the translation of its target (an extension by 0 bits is the
        operand, arrays included for the readers [Cur] and [Fix]; [Fix2] refuses an array operand, so
        for [Fix2] the writer must not print array aliases: [alias_ok]).  The new id is not in the
        writer's expression cache, hence nothing refers to it afterwards.
    Result: [serialize_named_parse_raw], the statement of [Btor2RtSys.serialize_parse_raw] for the
    named writer, and from it [roundtrip_sem_named] / [roundtrip_sem_named_fix]. *)
From Coq Require Import List Lia Bool String Ascii NArith FMapPositive.
From Patronus Require Import Expr ExprLemmas ExprEqb Eval SysClosed Btor2Parse Btor2Ser Btor2SerNames Btor2ExprFacts Btor2ParseProofs
     Btor2Sound Btor2SerProofs Btor2RoundTripSpec Btor2RtExpr Btor2RtLines Btor2RtSim Btor2RtSys Btor2RtTail Btor2Names Btor2RoundTrip.
Import ListNotations.
Open Scope string_scope.
Open Scope list_scope.
Open Scope N_scope.

Local Opaque num.

(** ** node lines are long enough for their operator *)
Lemma node_line_tail_safe id sort e cs l :
  node_line id sort e cs = POk l -> List.length cs = List.length (children e) -> tail_safe l = true.
Proof.
  intros H Hlen. destruct e; cbn [children List.length] in Hlen;
    repeat (destruct cs as [|? cs]; try discriminate Hlen); cbn [node_line op_name] in H; try discriminate H;
    try (inversion H; subst l; reflexivity).
  destruct (v =? 0); [inversion H; subst l; reflexivity|].
  destruct (v =? 1); [inversion H; subst l; reflexivity|].
  destruct (v =? 2 ^ w - 1); inversion H; subst l; reflexivity.
Qed.

Lemma core_rest a b : core_eq a b -> rest_eq a b.
Proof. intros (H1 & H2 & H3 & H4 & H5 & H6 & H7 & H8). repeat split; assumption. Qed.

(** ** replacing the last emitted line by the same line with a tail *)
Lemma fold_last v l : forall s err ps',
  parse_fold_v v true [l] s err = POk (ps', false) -> err = false /\ parse_line_v v true s l = POk ps'.
Proof.
  intros s err ps' H. cbn [parse_fold_v] in H. destruct (parse_line_v v true s l) as [s1| |k]; inversion H; subst; auto.
Qed.

Lemma run_last v st l ps' :
  run v (emit st l) = POk (ps', false) -> exists ps, run v st = POk (ps, false) /\ parse_line_v v true ps l = POk ps'.
Proof.
  unfold run. cbn [emit w_lines rev]. rewrite parse_fold_v_app.
  destruct (parse_fold_v v true (rev (w_lines st)) p_empty false) as [[s err]| |]; try discriminate.
  intros H. apply fold_last in H. destruct H as [-> H]. exists s. auto.
Qed.

Lemma inv_retail v m st3 l tl e id ps' :
  Inv v m (reg_expr (emit st3 l) e id) ps' -> tail_safe l = true ->
  exists ps'', Inv v m (reg_expr (emit st3 (l ++ tl)) e id) ps'' /\ core_eq ps' ps''.
Proof.
  intros [Hrun Hm Hs He] Hsafe.
  assert (Hrun' : run v (emit st3 l) = POk (ps', false)) by exact Hrun.
  apply run_last in Hrun'. destruct Hrun' as (ps & Hp & Hl).
  destruct (parse_line_v_tail v true ps l tl ps' Hsafe Hl) as (ps'' & Hl' & Hc).
  exists ps''. split; [|exact Hc]. destruct Hc as (C1 & C2 & C3 & _). constructor.
  - change (run v (emit st3 (l ++ tl)) = POk (ps'', false)). apply (run_emit v st3 _ ps); assumption.
  - exact Hm.
  - intros t i H. cbn [reg_expr emit w_sorts w_next] in *. rewrite <- C1. apply Hs. exact H.
  - intros x i H. cbn [reg_expr emit w_exprs w_next] in *. rewrite <- C3. apply He. exact H.
Qed.

(** ** expression trees of the named writer *)
Definition finish_emit_n (cx : nctx) (e : expr) (st1 : wstate) (cs : list N) : pres (wstate * N) :=
  let '(st2, sort) := sort_id st1 (type_of e) in
  let '(st3, id) := new_id st2 in
  l <- node_line id sort e cs ;;
  POk (reg_expr (emit st3 (l ++ node_tail cx e)) e id, id).

Fixpoint emit_list_n (cx : nctx) (l : list expr) (st : wstate) : pres (wstate * list N) :=
  match l with
  | [] => POk (st, [])
  | x :: l' =>
      r <- emit_expr_n cx x st ;; let '(st1, a) := r in
      r2 <- emit_list_n cx l' st1 ;; let '(st2, cs) := r2 in POk (st2, a :: cs)
  end.

Lemma emit_expr_n_unfold cx e st : emit_expr_n cx e st =
  match find_expr e (w_exprs st) with
  | Some id => POk (st, id)
  | None => if is_symbol e then PPanic PWrongKind
            else r <- emit_list_n cx (children e) st ;; let '(st1, cs) := r in finish_emit_n cx e st1 cs
  end.
Proof.
  destruct e; cbn [emit_expr_n]; destruct (find_expr _ _); try reflexivity; cbn [is_symbol children emit_list_n];
    repeat match goal with
           | |- context[emit_expr_n cx ?x ?s] => destruct (emit_expr_n cx x s) as [[? ?]| |]; cbn [pbind]; try reflexivity
           end.
Qed.

Lemma forall2_len {A B} (R : A -> B -> Prop) l1 l2 : Forall2 R l1 l2 -> List.length l1 = List.length l2.
Proof. induction 1; cbn [List.length]; congruence. Qed.

Lemma finish_sim_n v m cx e st1 ps1 cs st' id :
  Inv v m st1 ps1 -> is_symbol e = false -> wt e = true -> efits e = true ->
  find_expr e (w_exprs st1) = None ->
  Forall2 (fun c i => find_expr c (w_exprs st1) = Some i) (children e) cs ->
  finish_emit_n cx e st1 cs = POk (st', id) -> w_next st' <= BOUND ->
  exists ps', Inv v m st' ps' /\ rest_eq ps1 ps' /\ find_expr e (w_exprs st') = Some id /\ mono st1 st'.
Proof.
  intros Hinv Es Hwt Hf Hnone Hcs H Hb. unfold finish_emit_n in H.
  destruct (sort_id st1 (type_of e)) as [st2 sort] eqn:Esort. cbn [new_id] in H.
  destruct (node_line (w_next st2) sort e cs) as [l| |] eqn:El; cbn [pbind] in H; try discriminate.
  inversion H; subst st' id. clear H.
  set (st3 := mkW (w_next st2 + 1) (w_sorts st2) (w_exprs st2) (w_lines st2)) in *.
  assert (H0 : finish_emit e st1 cs = POk (reg_expr (emit st3 l) e (w_next st2), w_next st2)).
  { unfold finish_emit. rewrite Esort. cbn [new_id]. rewrite El. reflexivity. }
  destruct (finish_sim v m e st1 ps1 cs _ _ Hinv Es Hwt Hf Hnone Hcs H0 Hb) as (ps0 & Hinv0 & Hr0 & Hfe & Hmo).
  assert (Hsafe : tail_safe l = true).
  { apply (node_line_tail_safe _ _ _ _ _ El). symmetry. apply (forall2_len _ _ _ Hcs). }
  destruct (inv_retail v m st3 l (node_tail cx e) e (w_next st2) ps0 Hinv0 Hsafe) as (ps' & Hinv' & Hc).
  exists ps'. split; [exact Hinv'|]. split; [eapply rest_eq_trans; [exact Hr0|apply core_rest; exact Hc]|].
  split; [exact Hfe|exact Hmo].
Qed.

Definition esim_n (v : code_variant) (m : smap) (cx : nctx) (e : expr) : Prop :=
  forall st st' id ps,
    Inv v m st ps -> wt e = true -> efits e = true ->
    emit_expr_n cx e st = POk (st', id) -> w_next st' <= BOUND ->
    exists ps', Inv v m st' ps' /\ rest_eq ps ps' /\ find_expr e (w_exprs st') = Some id /\ mono st st' /\
                fresh_small st st' (esize e).

Lemma emit_expr_n_next cx : forall e s s' i, emit_expr_n cx e s = POk (s', i) -> w_next s <= w_next s'.
Proof.
  apply (expr_ind_children (fun e => forall s s' i, emit_expr_n cx e s = POk (s', i) -> w_next s <= w_next s')).
  intros e IH s s' i H. rewrite emit_expr_n_unfold in H. destruct (find_expr e (w_exprs s)); [inversion H; lia|].
  destruct (is_symbol e); [discriminate|].
  destruct (emit_list_n cx (children e) s) as [[s1 cs]| |] eqn:El; cbn [pbind] in H; try discriminate.
  assert (H1 : w_next s <= w_next s1).
  { clear H. revert s s1 cs El. induction IH as [|c l Hc _ IHl]; intros s s1 cs El; cbn [emit_list_n] in El.
    - inversion El; lia.
    - destruct (emit_expr_n cx c s) as [[sa a]| |] eqn:Ec; cbn [pbind] in El; try discriminate.
      destruct (emit_list_n cx l sa) as [[sb cs']| |] eqn:El'; cbn [pbind] in El; try discriminate.
      inversion El; subst. specialize (Hc _ _ _ Ec). specialize (IHl _ _ _ El'). lia. }
  unfold finish_emit_n in H. destruct (sort_id s1 (type_of e)) as [s2 sort] eqn:Es. cbn [new_id] in H.
  destruct (node_line _ _ _ _); cbn [pbind] in H; try discriminate. inversion H; subst. cbn.
  pose proof (sort_id_mono_next _ _ _ _ Es). lia.
Qed.

Lemma emit_list_n_next cx l : forall s s' cs, emit_list_n cx l s = POk (s', cs) -> w_next s <= w_next s'.
Proof.
  induction l as [|c l IH]; intros s s' cs H; cbn [emit_list_n] in H.
  - inversion H; lia.
  - destruct (emit_expr_n cx c s) as [[sa a]| |] eqn:Ec; cbn [pbind] in H; try discriminate.
    destruct (emit_list_n cx l sa) as [[sb cs']| |] eqn:El'; cbn [pbind] in H; try discriminate.
    inversion H; subst. apply emit_expr_n_next in Ec. apply IH in El'. lia.
Qed.

Lemma emit_list_sim_n v m cx l : Forall (esim_n v m cx) l -> forall st st1 cs ps,
  Inv v m st ps -> Forall (fun c => wt c = true) l -> Forall (fun c => efits c = true) l ->
  emit_list_n cx l st = POk (st1, cs) -> w_next st1 <= BOUND ->
  exists ps1, Inv v m st1 ps1 /\ rest_eq ps ps1 /\
              Forall2 (fun c i => find_expr c (w_exprs st1) = Some i) l cs /\ mono st st1 /\
              fresh_small st st1 (max_size l).
Proof.
  induction 1 as [|x l Hx Hl IH]; intros st st1 cs ps Hinv Hwt Hf H Hb; cbn [emit_list_n] in H.
  - inversion H; subst. exists ps. split; [exact Hinv|]. split; [apply rest_eq_refl|]. split; [constructor|].
    split; [apply mono_refl|]. intros e0 i0 H0. left. exact H0.
  - apply Forall_cons_iff in Hwt. destruct Hwt as [Hwx Hwl]. apply Forall_cons_iff in Hf. destruct Hf as [Hfx Hfl].
    destruct (emit_expr_n cx x st) as [[sa a]| |] eqn:Ex; cbn [pbind] in H; try discriminate.
    destruct (emit_list_n cx l sa) as [[sb cs']| |] eqn:El; cbn [pbind] in H; try discriminate.
    inversion H; subst st1 cs. clear H.
    assert (Hba : w_next sa <= BOUND) by (apply emit_list_n_next in El; lia).
    destruct (Hx st sa a ps Hinv Hwx Hfx Ex Hba) as (psa & Hinva & Hra & Hfa & Hmoa & Hsa).
    destruct (IH sa sb cs' psa Hinva Hwl Hfl El Hb) as (psb & Hinvb & Hrb & Hfb & Hmob & Hsb).
    exists psb. split; [exact Hinvb|]. split; [eapply rest_eq_trans; eauto|]. split.
    + constructor; [apply Hmob; exact Hfa|exact Hfb].
    + split; [eapply mono_trans; eauto|].
      intros e0 i0 H0. cbn [max_size]. destruct (Hsb _ _ H0) as [H1|H1]; [|right; lia].
      destruct (Hsa _ _ H1) as [H2|H2]; [left; exact H2|right; lia].
Qed.

Theorem emit_expr_n_sim v m cx : forall e, esim_n v m cx e.
Proof.
  apply expr_ind_children. intros e IH st st' id ps Hinv Hwt Hf H Hb.
  rewrite emit_expr_n_unfold in H. destruct (find_expr e (w_exprs st)) as [i|] eqn:E.
  - inversion H; subst st' id. exists ps. split; [exact Hinv|]. split; [apply rest_eq_refl|]. split; [exact E|].
    split; [apply mono_refl|]. intros e0 i0 H0. left. exact H0.
  - destruct (is_symbol e) eqn:Es; [discriminate|].
    destruct (emit_list_n cx (children e) st) as [[s1 cs]| |] eqn:El; cbn [pbind] in H; try discriminate.
    assert (Hb1 : w_next s1 <= BOUND).
    { unfold finish_emit_n in H. destruct (sort_id s1 (type_of e)) as [s2 sort] eqn:Esort. cbn [new_id] in H.
      destruct (node_line _ _ _ _); cbn [pbind] in H; try discriminate. inversion H; subst. cbn [reg_expr emit w_next] in Hb.
      pose proof (sort_id_mono_next _ _ _ _ Esort). lia. }
    assert (Hwc : Forall (fun c => wt c = true) (children e)).
    { apply Forall_forall. intros c Hc. apply (wt_child e); auto. }
    assert (Hfc : Forall (fun c => efits c = true) (children e)).
    { apply Forall_forall. intros c Hc. apply (efits_child e); auto. }
    destruct (emit_list_sim_n v m cx (children e) IH st s1 cs ps Hinv Hwc Hfc El Hb1) as (ps1 & Hinv1 & Hr1 & Hcs & Hmo1 & Hsm1).
    assert (Hnone : find_expr e (w_exprs s1) = None).
    { destruct (find_expr e (w_exprs s1)) as [i|] eqn:E1; [|reflexivity]. exfalso.
      destruct (Hsm1 _ _ E1) as [H1|H1]; [congruence|]. pose proof (max_size_children e). lia. }
    destruct (finish_sim_n v m cx e s1 ps1 cs st' id Hinv1 Es Hwt Hf Hnone Hcs H Hb) as (ps' & Hinv' & Hr' & Hfe & Hmo').
    exists ps'. split; [exact Hinv'|]. split; [eapply rest_eq_trans; eauto|]. split; [exact Hfe|].
    split; [eapply mono_trans; eauto|].
    intros e0 i0 H0.
    unfold finish_emit_n in H. destruct (sort_id s1 (type_of e)) as [s2 sort] eqn:Esort. cbn [new_id] in H.
    destruct (node_line _ _ _ _); cbn [pbind] in H; try discriminate. inversion H; subst st' id. clear H.
    cbn [reg_expr emit w_exprs find_expr] in H0. destruct (expr_eqb e0 e) eqn:Ee.
    + apply expr_eqb_eq in Ee. subst e0. right. lia.
    + assert (He2 : w_exprs s2 = w_exprs s1).
      { destruct (sort_id_sim v m s1 ps1 (type_of e) s2 sort Hinv1 (efits_ty e Hf) (wt_pos e Hwt) Esort) as (? & _ & _ & _ & _ & _ & He2); [|exact He2].
        cbn [reg_expr emit w_next] in Hb. lia. }
      rewrite He2 in H0. destruct (Hsm1 _ _ H0) as [H1|H1]; [left; exact H1|right]. pose proof (max_size_children e). lia.
Qed.

(** one id per line *)
Lemma cnt_finish_n cx e st cs st' id : finish_emit_n cx e st cs = POk (st', id) -> cnt st -> cnt st'.
Proof.
  unfold finish_emit_n. destruct (sort_id st (type_of e)) as [s2 sort] eqn:Es. cbn [new_id].
  destruct (node_line _ _ _ _); cbn [pbind]; intros H Hc; try discriminate. inversion H; subst.
  apply (cnt_sort_id _ _ _ _ Es) in Hc. unfold cnt in *. cbn [reg_expr emit w_next w_lines List.length]. lia.
Qed.

Lemma cnt_emit_expr_n cx : forall e st st' id, emit_expr_n cx e st = POk (st', id) -> cnt st -> cnt st'.
Proof.
  apply (expr_ind_children (fun e => forall st st' id, emit_expr_n cx e st = POk (st', id) -> cnt st -> cnt st')).
  intros e IH st st' id H Hc. rewrite emit_expr_n_unfold in H. destruct (find_expr e (w_exprs st)); [inversion H; subst; exact Hc|].
  destruct (is_symbol e); [discriminate|].
  destruct (emit_list_n cx (children e) st) as [[s1 cs]| |] eqn:El; cbn [pbind] in H; try discriminate.
  apply (cnt_finish_n _ _ _ _ _ _ H). clear H. revert st s1 cs El Hc.
  induction IH as [|c l Hcc _ IHl]; intros st s1 cs El Hc; cbn [emit_list_n] in El.
  - inversion El; subst; exact Hc.
  - destruct (emit_expr_n cx c st) as [[sa a]| |] eqn:Ec; cbn [pbind] in El; try discriminate.
    destruct (emit_list_n cx l sa) as [[sb cs']| |] eqn:El'; cbn [pbind] in El; try discriminate.
    inversion El; subst. eapply IHl; eauto.
Qed.

(** ** declaration and property lines with a name token *)
Lemma input_line_n ps id sort t tl : id <= U32MAX -> sort <= U32MAX ->
  PM.find (key sort) (p_types ps) = Some t -> ty_pos t ->
  exists ps' n, parse_line true ps ([num id; "input"; num sort] ++ tl) = POk ps' /\
                core_eq ps' (set_signal (add_input ps (mk_sym n t)) id (mk_sym n t)).
Proof.
  intros Hi Hs Ft Hp. cbn [app]. unfold parse_line. rewrite (line_id_num id Hi). cbn.
  unfold parse_input. cbn [tokn nth]. rewrite (get_tpe_num ps sort _ Hs Ft). cbn [pbind].
  unfold label_name, add_unique. rewrite (b_symbol_mk _ t Hp). cbn [pbind].
  eexists. eexists. split; [reflexivity|].
  match goal with |- context[mk_sym ?n t] => destruct (mk_sym_props n t Hp) as (Hsym & _ & _) end.
  unfold note_name. rewrite Hsym. repeat split.
Qed.

Lemma state_line_n ps id sort t tl : id <= U32MAX -> sort <= U32MAX ->
  PM.find (key sort) (p_types ps) = Some t -> ty_pos t ->
  exists ps' n, parse_line true ps ([num id; "state"; num sort] ++ tl) = POk ps' /\
                core_eq ps' (set_signal (add_state ps id {| st_sym := mk_sym n t; st_init := None; st_next := None |}) id (mk_sym n t)).
Proof.
  intros Hi Hs Ft Hp. cbn [app]. unfold parse_line. rewrite (line_id_num id Hi). cbn.
  unfold parse_state. cbn [tokn nth]. rewrite (get_tpe_num ps sort _ Hs Ft). cbn [pbind].
  unfold label_name, add_unique. rewrite (b_symbol_mk _ t Hp). cbn [pbind].
  eexists. eexists. split; [reflexivity|].
  match goal with |- context[mk_sym ?n t] => destruct (mk_sym_props n t Hp) as (Hsym & _ & _) end.
  unfold note_name. rewrite Hsym. repeat split.
Qed.

Lemma decl_pre_n ps id sort t kind tl : kind = "input" \/ kind = "state" -> sort <= U32MAX ->
  PM.find (key sort) (p_types ps) = Some t -> ty_pos t -> all_pre ps ([num id; kind; num sort] ++ tl) = true.
Proof.
  intros Hk Hs Ft Hp. unfold all_pre, line_fix_pre, line_pre, zero_sort_line, prop_bool, ext_bv.
  destruct Hk as [-> | ->]; cbn; rewrite (sort_of_num ps sort _ Hs Ft); destruct t as [w|? ?]; try reflexivity;
    cbn [ty_pos] in Hp; destruct (N.eqb_spec w 0); try lia; reflexivity.
Qed.

Lemma prop_pre_n ps id body v kind tl : body <= U32MAX -> PM.find (key body) (p_signals ps) = Some v ->
  kind = "output" \/ ((kind = "bad" \/ kind = "constraint") /\ type_of v = TBV 1) ->
  all_pre ps ([num id; kind; num body] ++ tl) = true.
Proof.
  intros Hb Fv Hk. unfold all_pre, line_fix_pre, line_pre, zero_sort_line, prop_bool, ext_bv.
  destruct Hk as [-> | [[-> | ->] Ht]]; cbn; rewrite (neg_ok_num ps body Hb); try reflexivity;
    rewrite (opnd_ty_num ps body v Hb Fv), Ht; reflexivity.
Qed.

Lemma prop_line_n v k ps id body x tl : id <= U32MAX -> body <= U32MAX ->
  PM.find (key body) (p_signals ps) = Some x ->
  (is_fix v = true -> k = KOut \/ type_of x = TBV 1) ->
  exists ps', parse_line_v v true ps ([num id; kstr k; num body] ++ tl) = POk ps' /\
              p_types ps' = p_types ps /\ p_signals ps' = p_signals ps /\ decl_eq ps ps' /\
              klist k ps' = klist k ps ++ [x] /\ (forall k', k' <> k -> klist k' ps' = klist k' ps).
Proof.
  intros Hi Hb Fv Hbool.
  assert (Hpre : is_fix v = true -> all_pre ps ([num id; kstr k; num body] ++ tl) = true).
  { intros Hv. apply (prop_pre_n ps id body x); auto. destruct (Hbool Hv) as [->|Ht]; [left; reflexivity|].
    destruct k; [left; reflexivity|right; split; [right; reflexivity|exact Ht]|right; split; [left; reflexivity|exact Ht]]. }
  unfold parse_line_v. rewrite (vp v ps _ Hpre). clear Hpre Hbool.
  destruct k; cbn [kstr app]; unfold parse_line; rewrite (line_id_num id Hi); cbn;
    unfold parse_prop; cbn [tokn nth]; rewrite (get_expr_num ps body _ Hb Fv); cbn;
    (eexists; split; [reflexivity|]); unfold note_name; destruct (is_symbol x);
    cbn [p_types p_signals klist p_outputs p_bads p_constraints add_output add_bad add_constraint set_used];
    (split; [reflexivity|]); (split; [reflexivity|]); (split; [repeat split|]);
    (split; [rewrite ?map_app; reflexivity|]); intros k' Hk'; destruct k'; try reflexivity; congruence.
Qed.

(** ** inputs *)
Lemma emit_input_n_sim v m cx st ps i ins sts sids :
  Inv v m st ps -> Sh m ps ins sts sids -> no_props ps ->
  is_symbol i = true -> wt i = true -> efits i = true -> ~ In i (sm_dom m) ->
  w_next (emit_input_n cx st i) <= BOUND ->
  exists sv ps', Inv v ((i, sv) :: m) (emit_input_n cx st i) ps' /\ Sh ((i, sv) :: m) ps' (ins ++ [i]) sts sids /\ no_props ps' /\
                w_next st <= w_next (emit_input_n cx st i).
Proof.
  intros Hinv Hsh Hnp Hsym Hwt Hf Hn Hb. unfold emit_input_n in *.
  destruct (sort_id st (type_of i)) as [st1 sort] eqn:Es. cbn [new_id] in *.
  set (tl := name_tok (decl_name (match symbol_name i with Some n => n | None => EmptyString end) (n_labels cx))) in *.
  cbn [reg_expr emit w_next] in Hb.
  destruct (sort_id_sim v m st ps (type_of i) st1 sort Hinv (efits_ty i Hf) (wt_pos i Hwt) Es ltac:(lia))
    as (ps1 & Hinv1 & Hr1 & Hsg1 & Hfs & Hmo1 & He1).
  destruct (i_sorts _ _ _ _ Hinv1 _ _ Hfs) as [Hls Hts]. unfold BOUND in *.
  destruct (input_line_n ps1 (w_next st1) sort (type_of i) tl ltac:(lia) ltac:(lia) Hts (wt_pos i Hwt)) as (ps' & n & Hl & Hce).
  set (sv := mk_sym n (type_of i)) in *.
  destruct (mk_sym_props n (type_of i) (wt_pos i Hwt)) as (Hv1 & Hv2 & Hv3). fold sv in Hv1, Hv2, Hv3.
  exists sv, ps'.
  pose proof (inv_extend v m st1 ps1 i sv Hinv1 Hn Hv1 Hv2 Hv3) as Hinv1'.
  assert (Hnone : find_expr i (w_exprs st1) = None) by (apply (not_cached v m st1 ps1); auto).
  destruct Hce as (C1 & C2 & C3 & C4 & C5 & C6 & C7 & C8). cbn [set_signal add_input p_types p_statemap p_signals p_inputs p_states p_outputs p_bads p_constraints] in *.
  assert (Htr : tr ((i, sv) :: m) i = sv).
  { destruct i; cbn [is_symbol] in Hsym; try discriminate; cbn [tr]; apply sm_app_cons_same. }
  assert (Hlv : parse_line_v v true ps1 ([num (w_next st1); "input"; num sort] ++ tl) = POk ps').
  { apply plv; [intros _; apply (decl_pre_n ps1 _ sort (type_of i)); auto; [lia|apply wt_pos; exact Hwt]|exact Hl]. }
  destruct (inv_reg_expr' v ((i, sv) :: m) st1 ps1 ([num (w_next st1); "input"; num sort] ++ tl) i ps' Hinv1') as [Hinv' Hmono]; auto.
  { rewrite (syms_symbol i Hsym). intros x [<-|[]]. left. reflexivity. }
  { rewrite Htr. exact C3. }
  split; [exact Hinv'|]. split; [|split].
  - pose proof (rest_eq_sh _ _ _ _ _ _ Hr1 Hsh) as Hsh1. destruct (sh_extend m ps1 ins sts sids i sv Hsh1 Hn) as [Hx1 Hx2].
    destruct Hsh1 as [A B C D E F]. constructor.
    + intros s. cbn [sm_dom map fst]. rewrite !in_app_iff. cbn [In].
      specialize (A s). rewrite in_app_iff in A. change (map fst m) with (sm_dom m). tauto.
    + rewrite C4, B, map_app, Hx1. cbn [map]. rewrite sm_app_cons_same. reflexivity.
    + rewrite C5, C, Hx2. reflexivity.
    + intros j sid H. rewrite C2. auto.
    + exact E.
    + intros s e Hs He. intros x Hx. right. apply (F s e Hs He). exact Hx.
  - apply (rest_eq_no_props _ _ Hr1) in Hnp. destruct Hnp as (N1 & N2 & N3). repeat split; congruence.
  - destruct Hmo1 as [Hm1 _]. cbn [reg_expr emit w_next]. lia.
Qed.

Lemma emit_input_n_next cx st i : w_next st <= w_next (emit_input_n cx st i).
Proof.
  unfold emit_input_n. destruct (sort_id st (type_of i)) as [st1 sort] eqn:Es. cbn [new_id reg_expr emit w_next].
  pose proof (sort_id_mono_next _ _ _ _ Es). lia.
Qed.

Lemma inputs_n_next cx l : forall st, w_next st <= w_next (fold_left (emit_input_n cx) l st).
Proof.
  induction l as [|i l IH]; intros st; cbn [fold_left]; [lia|].
  pose proof (emit_input_n_next cx st i). pose proof (IH (emit_input_n cx st i)). lia.
Qed.

Lemma inputs_n_sim v cx : forall l m st ps ins,
  Inv v m st ps -> Sh m ps ins [] [] -> no_props ps ->
  Forall sym_ok l -> NoDup (ins ++ l) ->
  w_next (fold_left (emit_input_n cx) l st) <= BOUND ->
  exists m' ps', Inv v m' (fold_left (emit_input_n cx) l st) ps' /\ Sh m' ps' (ins ++ l) [] [] /\ no_props ps'.
Proof.
  induction l as [|i l IH]; intros m st ps ins Hinv Hsh Hnp Hok Hnd Hb; cbn [fold_left] in *.
  - exists m, ps. rewrite app_nil_r. auto.
  - apply Forall_cons_iff in Hok. destruct Hok as [(Hs & Hw & Hf) Hok].
    assert (Hn : ~ In i (sm_dom m)).
    { intros Hin. apply (sh_dom _ _ _ _ _ Hsh) in Hin. cbn [map] in Hin. rewrite app_nil_r in Hin.
      apply NoDup_remove_2 in Hnd. apply Hnd. apply in_or_app. left. exact Hin. }
    pose proof (inputs_n_next cx l (emit_input_n cx st i)) as Hmn.
    destruct (emit_input_n_sim v m cx st ps i ins [] [] Hinv Hsh Hnp Hs Hw Hf Hn ltac:(lia)) as (sv & ps1 & Hinv1 & Hsh1 & Hnp1 & _).
    destruct (IH _ _ _ _ Hinv1 Hsh1 Hnp1 Hok) as (m' & ps' & H1 & H2 & H3).
    + rewrite <- app_assoc. exact Hnd.
    + exact Hb.
    + exists m', ps'. rewrite <- app_assoc in H2. auto.
Qed.

(** ** states *)
Definition emit_state_init_n (cx : nctx) (st : wstate) (s : state) (init : expr) : pres (wstate * N) :=
  match type_of (st_sym s), init with
  | TArr _ _, ArrayConstant e _ _ => emit_expr_n cx e st
  | _, _ => emit_expr_n cx init st
  end.

Definition state_name (cx : nctx) (s : state) : string :=
  if is_alias cx (st_sym s) then EmptyString
  else decl_name (match symbol_name (st_sym s) with Some n => n | None => EmptyString end) (n_labels cx).

Lemma emit_state_n_eq cx st s : emit_state_n cx st s =
  let '(st1, sort) := sort_id st (type_of (st_sym s)) in
  r <- match st_init s with
       | Some init => r <- emit_state_init_n cx st1 s init ;; let '(st2, iid) := r in POk (st2, Some iid)
       | None => POk (st1, None)
       end ;;
  let '(st2, init_id) := r in
  let '(st3, sid) := new_id st2 in
  let st4 := reg_expr (emit st3 ([num sid; "state"; num sort] ++ name_tok (state_name cx s))) (st_sym s) sid in
  match init_id with
  | Some iid =>
      let '(st5, lid) := new_id st4 in
      POk (emit st5 [num lid; "init"; num sort; num sid; num iid], sid)
  | None => POk (st4, sid)
  end.
Proof. reflexivity. Qed.

Lemma emit_state_n_sim v m cx st ps s ins sts sids st' sid :
  Inv v m st ps -> Sh m ps ins sts sids -> no_props ps ->
  state_ok s = true -> state_fits s -> ~ In (st_sym s) (sm_dom m) ->
  Forall (fun i => i < w_next st) sids ->
  emit_state_n cx st s = POk (st', sid) -> w_next st' <= BOUND ->
  exists sv ps', Inv v ((st_sym s, sv) :: m) st' ps' /\ Sh ((st_sym s, sv) :: m) ps' ins (sts ++ [s]) (sids ++ [sid]) /\
                no_props ps' /\ Forall (fun i => i < w_next st') (sids ++ [sid]).
Proof.
  intros Hinv Hsh Hnp Hok (Hfsym & Hfinit & _) Hn Hsids H Hb.
  unfold state_ok in Hok. repeat (apply andb_true_iff in Hok; destruct Hok as [Hok ?]).
  rename H0 into Hnextok, H1 into Hinitok, H2 into Hwsym. rename Hok into Hsym.
  rewrite emit_state_n_eq in H. destruct (sort_id st (type_of (st_sym s))) as [st1 sort] eqn:Es.
  set (tl := name_tok (state_name cx s)) in *.
  set (t := type_of (st_sym s)) in *.
  (* the init tree *)
  assert (Hphase : exists st2 ps2 oiid,
            (match st_init s with
             | Some init => r <- emit_state_init_n cx st1 s init ;; let '(st2, iid) := r in POk (st2, Some iid)
             | None => POk (st1, None)
             end) = POk (st2, oiid) /\
            (w_next st2 <= BOUND ->
             Inv v m st2 ps2 /\ rest_eq ps ps2 /\ find_sort t (w_sorts st2) = Some sort /\ w_next st <= w_next st2 /\
             match st_init s, oiid with
             | Some init, Some iid =>
                 let e0 := match t, init with TArr _ _, ArrayConstant e _ _ => e | _, _ => init end in
                 find_expr e0 (w_exprs st2) = Some iid /\ wt e0 = true
             | None, None => True
             | _, _ => False
             end)).
  { destruct (st_init s) as [init|] eqn:Ei.
    - destruct (emit_state_init_n cx st1 s init) as [[st2 iid]| |] eqn:Eii; cbn [pbind] in H; try discriminate.
      exists st2. cbn [pbind].
      assert (Hwi : wt init = true /\ type_of init = t).
      { apply andb_true_iff in Hinitok. destruct Hinitok as [A B]. apply ty_eqb_eq in B. auto. }
      destruct Hwi as [Hwi Hti].
      set (e0 := match t, init with TArr _ _, ArrayConstant e _ _ => e | _, _ => init end).
      assert (He0 : emit_expr_n cx e0 st1 = POk (st2, iid)).
      { unfold emit_state_init_n in Eii. fold t in Eii. subst e0. destruct t; [exact Eii|]. destruct init; exact Eii. }
      assert (Hw0 : wt e0 = true /\ efits e0 = true).
      { specialize (Hfinit init eq_refl). subst e0. destruct t; [auto|]. destruct init; auto.
        split; [apply wt_aconst in Hwi; tauto|]. apply (efits_child (ArrayConstant init iw0 dw0)); [exact Hfinit|left; reflexivity]. }
      destruct Hw0 as [Hw0 Hf0].
      assert (exists ps2, w_next st2 <= BOUND -> Inv v m st2 ps2 /\ rest_eq ps ps2 /\ find_sort t (w_sorts st2) = Some sort /\
                          w_next st <= w_next st2 /\ find_expr e0 (w_exprs st2) = Some iid) as (ps2 & Hps2).
      { destruct (N.le_gt_cases (w_next st2) BOUND) as [Hle|Hgt].
        - pose proof (emit_expr_n_next _ _ _ _ _ He0) as Hmn.
          destruct (sort_id_sim v m st ps t st1 sort Hinv (efits_ty _ Hfsym) (wt_pos _ Hwsym) Es ltac:(lia)) as (ps1 & Hinv1 & Hr1 & _ & Hfs & Hmo1 & _).
          destruct (emit_expr_n_sim v m cx e0 st1 st2 iid ps1 Hinv1 Hw0 Hf0 He0 Hle) as (ps2 & Hinv2 & Hr2 & Hfe & Hmo2 & _).
          exists ps2. intros _. split; [exact Hinv2|]. split; [eapply rest_eq_trans; eauto|]. split; [apply Hmo2; exact Hfs|].
          split; [destruct Hmo1, Hmo2; lia|exact Hfe].
        - exists ps. intros Hle. lia. }
      exists ps2, (Some iid). split; [reflexivity|]. intros Hle. destruct (Hps2 Hle) as (A & B & C & D & E).
      split; [exact A|]. split; [exact B|]. split; [exact C|]. split; [exact D|]. split; [exact E|exact Hw0].
    - exists st1.
      assert (exists ps1, w_next st1 <= BOUND -> Inv v m st1 ps1 /\ rest_eq ps ps1 /\ find_sort t (w_sorts st1) = Some sort /\ w_next st <= w_next st1)
        as (ps1 & Hps1).
      { destruct (N.le_gt_cases (w_next st1) BOUND) as [Hle|Hgt].
        - destruct (sort_id_sim v m st ps t st1 sort Hinv (efits_ty _ Hfsym) (wt_pos _ Hwsym) Es Hle) as (ps1 & Hinv1 & Hr1 & _ & Hfs & Hmo1 & _).
          exists ps1. intros _. destruct Hmo1. auto.
        - exists ps. intros Hle. lia. }
      exists ps1, None. split; [reflexivity|]. intros Hle. destruct (Hps1 Hle) as (A & B & C & D).
      split; [exact A|]. split; [exact B|]. split; [exact C|]. split; [exact D|exact I]. }
  destruct Hphase as (st2 & ps2 & oiid & Hrw & Hfacts). rewrite Hrw in H. cbn [pbind new_id] in H.
  (* the state line *)
  assert (Hb2 : w_next st2 + 1 <= BOUND).
  { destruct oiid; inversion H; subst; cbn [reg_expr emit w_next] in Hb; lia. }
  destruct (Hfacts ltac:(lia)) as (Hinv2 & Hr2 & Hfs & Hmn2 & Hinit). clear Hfacts.
  destruct (i_sorts _ _ _ _ Hinv2 _ _ Hfs) as [Hls Hts]. unfold BOUND in *.
  assert (Hpos : ty_pos t) by (apply (wt_pos _ Hwsym)).
  destruct (state_line_n ps2 (w_next st2) sort t tl ltac:(lia) ltac:(lia) Hts Hpos) as (ps3 & n & Hl3 & Hce).
  set (sv := mk_sym n t) in *. destruct (mk_sym_props n t Hpos) as (Hv1 & Hv2 & Hv3). fold sv in Hv1, Hv2, Hv3.
  pose proof (inv_extend v m st2 ps2 (st_sym s) sv Hinv2 Hn Hv1 Hv2 Hv3) as Hinv2'.
  assert (Hnone : find_expr (st_sym s) (w_exprs st2) = None) by (apply (not_cached v m st2 ps2); auto).
  destruct Hce as (C1 & C2 & C3 & C4 & C5 & C6 & C7 & C8).
  cbn [set_signal add_state p_types p_statemap p_signals p_inputs p_states p_outputs p_bads p_constraints] in *.
  set (m' := (st_sym s, sv) :: m) in *.
  assert (Htr : tr m' (st_sym s) = sv).
  { destruct (st_sym s); cbn [is_symbol] in Hsym; try discriminate; cbn [tr]; apply sm_app_cons_same. }
  assert (Hl3v : parse_line_v v true ps2 ([num (w_next st2); "state"; num sort] ++ tl) = POk ps3).
  { apply plv; [intros _; apply (decl_pre_n ps2 _ sort t); auto; lia|exact Hl3]. }
  destruct (inv_reg_expr' v m' st2 ps2 ([num (w_next st2); "state"; num sort] ++ tl) (st_sym s) ps3 Hinv2') as [Hinv3 Hmono3]; auto.
  { rewrite (syms_symbol _ Hsym). intros x [<-|[]]. left. reflexivity. }
  { rewrite Htr. exact C3. }
  set (st3 := reg_expr (emit (fst (new_id st2)) ([num (w_next st2); "state"; num sort] ++ tl)) (st_sym s) (w_next st2)) in *.
  pose proof (rest_eq_sh _ _ _ _ _ _ Hr2 Hsh) as Hsh2. destruct (sh_extend m ps2 ins sts sids (st_sym s) sv Hsh2 Hn) as [Hx1 Hx2].
  fold m' in Hx1, Hx2.
  pose proof (rest_eq_no_props _ _ Hr2 Hnp) as Hnp2.
  assert (Hnp3 : no_props ps3) by (destruct Hnp2 as (N1 & N2 & N3); repeat split; congruence).
  assert (Hlen : List.length (p_states ps2) = List.length sts).
  { rewrite (sh_states _ _ _ _ _ Hsh2), map_length. reflexivity. }
  assert (Hst3 : p_states ps3 = map (trs m' false) sts ++ [{| st_sym := sv; st_init := None; st_next := None |}]).
  { rewrite C5, (sh_states _ _ _ _ _ Hsh2), Hx2. reflexivity. }
  assert (Hids3 : forall j i, nth_error (sids ++ [w_next st2]) j = Some i -> PM.find (key i) (p_statemap ps3) = Some j).
  { intros j i Hj. rewrite C2. apply nth_error_snoc in Hj. destruct Hj as [Hj|[-> ->]].
    - rewrite PM.gso; [apply (sh_ids _ _ _ _ _ Hsh2 _ _ Hj)|]. apply key_neq.
      assert (Hin : In i sids) by (eapply nth_error_In; eauto). rewrite Forall_forall in Hsids. specialize (Hsids _ Hin). lia.
    - rewrite PM.gss. f_equal. rewrite Hlen. symmetry. apply (sh_len _ _ _ _ _ Hsh). }
  assert (Hdom' : forall x, In x (sm_dom m') <-> In x (ins ++ map st_sym (sts ++ [s]))).
  { intros x. unfold m'. cbn [sm_dom map fst]. rewrite map_app, !in_app_iff. cbn [map In].
    pose proof (sh_dom _ _ _ _ _ Hsh x) as A. rewrite in_app_iff in A. change (map fst m) with (sm_dom m). tauto. }
  destruct oiid as [iid|]; destruct (st_init s) as [init|] eqn:Ei; try contradiction.
  - (* with an init line *)
    cbn [new_id] in H. inversion H; subst st' sid. clear H. fold st3 in Hb. cbn [emit w_next] in Hb.
    assert (Hb3 : w_next st3 = w_next st2 + 1) by reflexivity.
    destruct Hinit as [Hfe Hw0].
    set (e0 := match t, init with TArr _ _, ArrayConstant e _ _ => e | _, _ => init end) in *.
    assert (Hfe3 : find_expr e0 (w_exprs st3) = Some iid) by (apply Hmono3; exact Hfe).
    destruct (i_exprs _ _ _ _ Hinv3 _ _ Hfe3) as (Hlti & Hsi & Hinci).
    destruct (i_sorts _ _ _ _ Hinv3 t sort ltac:(apply Hmono3; exact Hfs)) as [_ Hts3].
    assert (Hwi : wt init = true /\ type_of init = t).
    { apply andb_true_iff in Hinitok. destruct Hinitok as [A B]. apply ty_eqb_eq in B. auto. }
    destruct Hwi as [Hwi Hti].
    pose proof (i_map _ _ _ _ Hinv3) as Hm'.
    assert (Hiv : init_value t (tr m' e0) = tr m' init) by (apply init_value_tr; auto).
    assert (Hl4 : parse_line true ps3 [num (w_next st3); "init"; num sort; num (w_next st2); num iid] =
                  POk (set_states ps3 (update_nth (List.length sts) (set_init (init_value t (tr m' e0))) (p_states ps3)))).
    { apply (init_line ps3 (w_next st3) sort (w_next st2) iid t (List.length sts) (tr m' e0)); try lia; auto.
      - apply Hids3. rewrite nth_error_app2 by (rewrite (sh_len _ _ _ _ _ Hsh); lia).
        rewrite (sh_len _ _ _ _ _ Hsh), Nat.sub_diag. reflexivity.
      - rewrite Hst3. rewrite <- (map_length (trs m' false) sts) at 1. rewrite nth_last. exact Hv2.
      - rewrite Hiv. rewrite (tr_type m' init Hm' Hwi). exact Hti. }
    eexists sv, _. split; [|split; [|split]].
    + destruct Hinv3 as [Hrun3 Hm3 Hs3 He3]. constructor.
      * apply (run_emit v _ _ ps3); [exact Hrun3|]. apply plv; [intros _; apply init_next_pre; [left; reflexivity|lia]|exact Hl4].
      * exact Hm3.
      * intros t0 id0 H0. cbn [emit new_id fst w_sorts w_next] in *. destruct (Hs3 _ _ H0). split; [lia|assumption].
      * intros x id0 H0. cbn [emit new_id fst w_exprs w_next] in *. destruct (He3 _ _ H0) as (A & B & C). split; [lia|auto].
    + constructor.
      * exact Hdom'.
      * cbn [set_states p_inputs]. rewrite C4, (sh_inputs _ _ _ _ _ Hsh2). symmetry. exact Hx1.
      * cbn [set_states p_states]. rewrite Hst3. rewrite <- (map_length (trs m' false) sts) at 1.
        rewrite update_nth_last, map_app. cbn [map]. f_equal. f_equal. unfold set_init, trs. cbn [st_sym st_init st_next].
        rewrite Ei. cbn [option_map]. rewrite Hiv. unfold m'. rewrite sm_app_cons_same. reflexivity.
      * intros j i Hj. cbn [set_states p_statemap]. apply Hids3. exact Hj.
      * rewrite !app_length. cbn [List.length]. rewrite (sh_len _ _ _ _ _ Hsh). reflexivity.
      * intros s0 e Hs0 He0. apply in_app_iff in Hs0. destruct Hs0 as [Hs0|[<-|[]]].
        -- intros x Hx. right. apply (sh_init _ _ _ _ _ Hsh s0 e Hs0 He0). exact Hx.
        -- rewrite Ei in He0. inversion He0; subst e. clear - Hinci Hti. subst e0.
           destruct t; [exact Hinci|]. destruct init; exact Hinci.
    + destruct Hnp3 as (N1 & N2 & N3). repeat split; assumption.
    + apply Forall_app. split.
      * eapply Forall_impl; [|exact Hsids]. intros a Ha. cbn beta in *. cbn [emit new_id fst w_next]. lia.
      * constructor; [cbn [emit new_id fst w_next]; lia|constructor].
  - (* without init *)
    inversion H; subst st' sid. clear H. fold st3 in Hb.
    exists sv, ps3. split; [exact Hinv3|]. split; [|split].
    + constructor.
      * exact Hdom'.
      * rewrite C4, (sh_inputs _ _ _ _ _ Hsh2). symmetry. exact Hx1.
      * rewrite Hst3, map_app. cbn [map]. f_equal. f_equal. unfold trs. rewrite Ei. cbn [option_map st_sym].
        unfold m'. rewrite sm_app_cons_same. reflexivity.
      * exact Hids3.
      * rewrite !app_length. cbn [List.length]. rewrite (sh_len _ _ _ _ _ Hsh). reflexivity.
      * intros s0 e Hs0 He0. apply in_app_iff in Hs0. destruct Hs0 as [Hs0|[<-|[]]].
        -- intros x Hx. right. apply (sh_init _ _ _ _ _ Hsh s0 e Hs0 He0). exact Hx.
        -- rewrite Ei in He0. discriminate.
    + exact Hnp3.
    + apply Forall_app. split.
      * eapply Forall_impl; [|exact Hsids]. intros a Ha. cbn beta in *. cbn [reg_expr emit new_id fst w_next]. lia.
      * constructor; [cbn [reg_expr emit new_id fst w_next]; lia|constructor].
Qed.

Lemma emit_state_n_next cx st s st' sid : emit_state_n cx st s = POk (st', sid) -> w_next st <= w_next st'.
Proof.
  rewrite emit_state_n_eq. destruct (sort_id st (type_of (st_sym s))) as [st1 sort] eqn:Es.
  pose proof (sort_id_mono_next _ _ _ _ Es) as H1.
  destruct (st_init s) as [init|].
  - destruct (emit_state_init_n cx st1 s init) as [[st2 iid]| |] eqn:Ei; cbn [pbind]; try discriminate.
    assert (H2 : w_next st1 <= w_next st2).
    { unfold emit_state_init_n in Ei. destruct (type_of (st_sym s)); [|destruct init]; apply emit_expr_n_next in Ei; exact Ei. }
    cbn [new_id]. intros H. inversion H; subst. cbn [emit reg_expr w_next]. lia.
  - cbn [pbind new_id]. intros H. inversion H; subst. cbn [emit reg_expr w_next]. lia.
Qed.

Lemma emit_states_n_next cx l : forall st st' ids, emit_states_n cx st l = POk (st', ids) -> w_next st <= w_next st'.
Proof.
  induction l as [|s l IH]; intros st st' ids H; cbn [emit_states_n] in H.
  - inversion H; lia.
  - destruct (emit_state_n cx st s) as [[st1 sid]| |] eqn:E1; cbn [pbind] in H; try discriminate.
    destruct (emit_states_n cx st1 l) as [[st2 ids']| |] eqn:E2; cbn [pbind] in H; try discriminate.
    inversion H; subst. apply emit_state_n_next in E1. apply IH in E2. lia.
Qed.

Lemma states_n_sim v cx : forall l m st ps ins sts sids st' ids,
  Inv v m st ps -> Sh m ps ins sts sids -> no_props ps ->
  Forall st_ok l -> NoDup (ins ++ map st_sym sts ++ map st_sym l) ->
  Forall (fun i => i < w_next st) sids ->
  emit_states_n cx st l = POk (st', ids) -> w_next st' <= BOUND ->
  exists m' ps', Inv v m' st' ps' /\ Sh m' ps' ins (sts ++ l) (sids ++ ids) /\ no_props ps' /\
                 Forall (fun i => i < w_next st') (sids ++ ids).
Proof.
  induction l as [|s l IH]; intros m st ps ins sts sids st' ids Hinv Hsh Hnp Hok Hnd Hsids H Hb; cbn [emit_states_n] in H.
  - inversion H; subst. exists m, ps. rewrite !app_nil_r.
    split; [exact Hinv|]. split; [exact Hsh|]. split; [exact Hnp|exact Hsids].
  - destruct (emit_state_n cx st s) as [[st1 sid]| |] eqn:E1; cbn [pbind] in H; try discriminate.
    destruct (emit_states_n cx st1 l) as [[st2 ids']| |] eqn:E2; cbn [pbind] in H; try discriminate.
    inversion H; subst st' ids. clear H.
    apply Forall_cons_iff in Hok. destruct Hok as [[Hso Hsf] Hok].
    assert (Hn : ~ In (st_sym s) (sm_dom m)).
    { intros Hin. apply (sh_dom _ _ _ _ _ Hsh) in Hin. cbn [map] in Hnd. rewrite app_assoc in Hnd.
      apply NoDup_remove_2 in Hnd. apply Hnd. apply in_or_app. left. exact Hin. }
    pose proof (emit_states_n_next _ _ _ _ _ E2) as Hmn.
    destruct (emit_state_n_sim v m cx st ps s ins sts sids st1 sid Hinv Hsh Hnp Hso Hsf Hn Hsids E1 ltac:(lia))
      as (sv & ps1 & Hinv1 & Hsh1 & Hnp1 & Hsids1).
    assert (Hnd' : NoDup (ins ++ map st_sym (sts ++ [s]) ++ map st_sym l)).
    { rewrite map_app. cbn [map]. rewrite <- !app_assoc. cbn [app]. exact Hnd. }
    destruct (IH _ _ _ _ _ _ _ _ Hinv1 Hsh1 Hnp1 Hok Hnd' Hsids1 E2 Hb) as (m' & ps' & A & B & C & D).
    exists m', ps'.
    replace (sts ++ s :: l) with ((sts ++ [s]) ++ l) by (rewrite <- app_assoc; reflexivity).
    replace (sids ++ sid :: ids') with ((sids ++ [sid]) ++ ids') by (rewrite <- app_assoc; reflexivity).
    split; [exact A|]. split; [exact B|]. split; [exact C|exact D].
Qed.

(** ** outputs, constraints, bad states *)
Lemma emit_props_n_next cx kind l : forall lbls st st', emit_props_n cx kind st l lbls = POk st' -> w_next st <= w_next st'.
Proof.
  induction l as [|e l IH]; intros lbls st st' H; cbn [emit_props_n] in H.
  - inversion H; lia.
  - destruct lbls as [|n ns]; [inversion H; lia|].
    destruct (emit_expr_n cx e st) as [[st1 body]| |] eqn:E; cbn [pbind new_id] in H; try discriminate.
    apply emit_expr_n_next in E. apply IH in H. cbn [emit w_next] in H. lia.
Qed.

Lemma props_n_sim v k m cx : forall l lbls st ps st',
  Inv v m st ps -> Forall expr_ok l -> List.length lbls = List.length l ->
  (is_fix v = true -> k = KOut \/ Forall (fun e => type_of e = TBV 1) l) ->
  emit_props_n cx (kstr k) st l lbls = POk st' -> w_next st' <= BOUND ->
  exists ps', Inv v m st' ps' /\ decl_eq ps ps' /\ klist k ps' = klist k ps ++ map (tr m) l /\
              (forall k', k' <> k -> klist k' ps' = klist k' ps).
Proof.
  induction l as [|e l IH]; intros lbls st ps st' Hinv Hok Hlen Hbool H Hb; cbn [emit_props_n] in H.
  - inversion H; subst. exists ps. split; [exact Hinv|]. split; [repeat split|]. split; [cbn [map]; rewrite app_nil_r; reflexivity|auto].
  - destruct lbls as [|n ns]; [discriminate Hlen|]. cbn [List.length] in Hlen. apply Nat.succ_inj in Hlen.
    apply Forall_cons_iff in Hok. destruct Hok as [[Hw Hf] Hok].
    destruct (emit_expr_n cx e st) as [[st1 body]| |] eqn:E; cbn [pbind new_id] in H; try discriminate.
    pose proof (emit_props_n_next _ _ _ _ _ _ H) as Hmn. cbn [emit w_next] in Hmn.
    destruct (emit_expr_n_sim v m cx e st st1 body ps Hinv Hw Hf E ltac:(lia)) as (ps1 & Hinv1 & Hr1 & Hfe & Hmo1 & _).
    destruct (i_exprs _ _ _ _ Hinv1 _ _ Hfe) as (Hlt & Hsg & _). unfold BOUND in *.
    assert (Hb1 : is_fix v = true -> k = KOut \/ type_of (tr m e) = TBV 1).
    { intros Hv. destruct (Hbool Hv) as [->|Hall]; [left; reflexivity|right]. apply Forall_cons_iff in Hall. destruct Hall as [Ht _].
      rewrite (tr_type m e (i_map _ _ _ _ Hinv) Hw). exact Ht. }
    assert (Hb2 : is_fix v = true -> k = KOut \/ Forall (fun e => type_of e = TBV 1) l).
    { intros Hv. destruct (Hbool Hv) as [->|Hall]; [left; reflexivity|right]. apply Forall_cons_iff in Hall. tauto. }
    destruct (prop_line_n v k ps1 (w_next st1) body (tr m e) (name_tok n) ltac:(lia) ltac:(lia) Hsg Hb1) as (ps2 & Hl & C1 & C2 & C3 & C4 & C5).
    pose proof (inv_plain_line v m st1 ps1 _ ps2 Hinv1 Hl C1 C2) as Hinv2.
    destruct (IH ns _ ps2 st' Hinv2 Hok Hlen Hb2 H Hb) as (ps' & A & B & C & D).
    exists ps'. split; [exact A|]. split; [eapply decl_eq_trans; [apply rest_eq_decl; exact Hr1|]; eapply decl_eq_trans; eauto|]. split.
    + rewrite C, C4, <- (rest_eq_klist _ _ k Hr1), <- app_assoc. reflexivity.
    + intros k' Hk. rewrite (D k' Hk), (C5 k' Hk). symmetry. apply rest_eq_klist. exact Hr1.
Qed.

(** ** next lines *)
Lemma emit_nexts_n_next cx l : forall ids st st', emit_nexts_n cx st l ids = POk st' -> w_next st <= w_next st'.
Proof.
  induction l as [|s l IH]; intros ids st st' H; cbn [emit_nexts_n] in H; [inversion H; lia|].
  destruct ids as [|sid ids]; [inversion H; lia|].
  destruct (st_next s) as [nx|]; [|apply IH in H; exact H].
  destruct (sort_id st (type_of (st_sym s))) as [st1 sort] eqn:Es.
  destruct (emit_expr_n cx nx st1) as [[st2 nid]| |] eqn:E; cbn [pbind new_id] in H; try discriminate.
  apply sort_id_mono_next in Es. apply emit_expr_n_next in E. apply IH in H. cbn [emit w_next] in H. lia.
Qed.

Lemma nexts_n_sim v m cx : forall l2 ids2 l1 ids1 st ps st',
  Inv v m st ps ->
  p_states ps = map (trs m true) l1 ++ map (trs m false) l2 ->
  (forall j sid, nth_error (ids1 ++ ids2) j = Some sid -> PM.find (key sid) (p_statemap ps) = Some j) ->
  List.length ids1 = List.length l1 -> List.length ids2 = List.length l2 ->
  Forall (fun i => i < w_next st) (ids1 ++ ids2) ->
  Forall st_ok l2 ->
  emit_nexts_n cx st l2 ids2 = POk st' -> w_next st' <= BOUND ->
  exists ps', Inv v m st' ps' /\ p_states ps' = map (trs m true) (l1 ++ l2) /\ props_eq ps ps'.
Proof.
  induction l2 as [|s l2 IH]; intros ids2 l1 ids1 st ps st' Hinv Hst Hids Hl1 Hl2 Hlt Hok H Hb; cbn [emit_nexts_n] in H.
  - inversion H; subst. exists ps. split; [exact Hinv|]. split; [|repeat split]. rewrite Hst, app_nil_r. cbn [map]. rewrite app_nil_r. reflexivity.
  - destruct ids2 as [|sid ids2]; [discriminate|]. cbn [List.length] in Hl2. apply Nat.succ_inj in Hl2.
    apply Forall_cons_iff in Hok. destruct Hok as [[Hso Hsf] Hok].
    assert (Hassoc1 : (ids1 ++ [sid]) ++ ids2 = ids1 ++ sid :: ids2) by (rewrite <- app_assoc; reflexivity).
    assert (Hassoc2 : (l1 ++ [s]) ++ l2 = l1 ++ s :: l2) by (rewrite <- app_assoc; reflexivity).
    assert (Hlen' : List.length (ids1 ++ [sid]) = List.length (l1 ++ [s])) by (rewrite !app_length; cbn [List.length]; lia).
    destruct (st_next s) as [nx|] eqn:En.
    + destruct (sort_id st (type_of (st_sym s))) as [st1 sort] eqn:Es.
      destruct (emit_expr_n cx nx st1) as [[st2 nid]| |] eqn:E; cbn [pbind new_id] in H; try discriminate.
      pose proof (emit_nexts_n_next _ _ _ _ _ H) as Hmn. cbn [emit w_next] in Hmn.
      pose proof (emit_expr_n_next _ _ _ _ _ E) as Hmn2.
      unfold state_ok in Hso. repeat (apply andb_true_iff in Hso; destruct Hso as [Hso ?]).
      rename H0 into Hnextok, H1 into Hinitok, H2 into Hwsym. rename Hso into Hsym.
      rewrite En in Hnextok. apply andb_true_iff in Hnextok. destruct Hnextok as [Hwnx Htnx]. apply ty_eqb_eq in Htnx.
      destruct Hsf as (Hfsym & _ & Hfnx). specialize (Hfnx nx En).
      destruct (sort_id_sim v m st ps (type_of (st_sym s)) st1 sort Hinv (efits_ty _ Hfsym) (wt_pos _ Hwsym) Es ltac:(lia))
        as (ps1 & Hinv1 & Hr1 & _ & Hfs & Hmo1 & _).
      destruct (emit_expr_n_sim v m cx nx st1 st2 nid ps1 Hinv1 Hwnx Hfnx E ltac:(lia)) as (ps2 & Hinv2 & Hr2 & Hfe & Hmo2 & _).
      destruct (i_exprs _ _ _ _ Hinv2 _ _ Hfe) as (Hltn & Hsgn & _).
      destruct (i_sorts _ _ _ _ Hinv2 _ _ (proj1 (proj2 Hmo2) _ _ Hfs)) as (Hlts & Hts).
      pose proof (i_map _ _ _ _ Hinv) as Hm.
      pose proof (rest_eq_trans _ _ _ Hr1 Hr2) as Hr12. destruct Hr12 as (R1 & R2 & R3 & R4 & R5 & R6).
      assert (Hsid : sid < w_next st).
      { rewrite Forall_forall in Hlt. apply Hlt. apply in_or_app. right. left. reflexivity. }
      assert (Hmo12 : w_next st <= w_next st2) by (destruct Hmo1, Hmo2; lia).
      unfold BOUND in *.
      assert (Hl : parse_line true ps2 [num (w_next st2); "next"; num sort; num sid; num nid] =
                   POk (set_states ps2 (update_nth (List.length l1) (set_next (tr m nx)) (p_states ps2)))).
      { apply (next_line ps2 (w_next st2) sort sid nid (type_of (st_sym s)) (List.length l1) (tr m nx)); try lia; auto.
        - rewrite <- R1. apply Hids. rewrite <- Hl1. apply nth_error_mid.
        - rewrite <- R3, Hst. cbn [map]. rewrite <- (map_length (trs m true) l1). rewrite nth_mid. cbn [trs st_sym].
          apply sm_app_type. exact Hm.
        - rewrite (tr_type m nx Hm Hwnx). exact Htnx. }
      assert (Hlv : parse_line_v v true ps2 [num (w_next st2); "next"; num sort; num sid; num nid] =
                    POk (set_states ps2 (update_nth (List.length l1) (set_next (tr m nx)) (p_states ps2)))).
      { apply plv; [intros _; apply init_next_pre; [right; reflexivity|lia]|exact Hl]. }
      pose proof (inv_plain_line v m st2 ps2 _ _ Hinv2 Hlv eq_refl eq_refl) as Hinv3.
      destruct (IH ids2 (l1 ++ [s]) (ids1 ++ [sid]) _ _ st' Hinv3) as (ps' & A & B & C); auto.
      * cbn [set_states p_states]. rewrite <- R3, Hst. cbn [map]. rewrite <- (map_length (trs m true) l1) at 1.
        rewrite update_nth_mid, map_app. cbn [map]. rewrite <- app_assoc. cbn [app]. f_equal. f_equal.
        unfold set_next, trs. cbn [st_sym st_init st_next]. rewrite En. reflexivity.
      * intros j i Hj. cbn [set_states p_statemap]. rewrite <- R1. apply Hids. rewrite <- Hassoc1. exact Hj.
      * rewrite Hassoc1. eapply Forall_impl; [|exact Hlt]. intros a Ha. cbn beta in *. cbn [emit new_id fst w_next]. lia.
      * exists ps'. split; [exact A|]. split; [rewrite <- Hassoc2; exact B|].
        eapply props_eq_trans; [|exact C]. cbn [set_states]. repeat split; cbn; congruence.
    + destruct (IH ids2 (l1 ++ [s]) (ids1 ++ [sid]) st ps st' Hinv) as (ps' & A & B & C); auto.
      * rewrite Hst, map_app. cbn [map]. rewrite <- app_assoc. cbn [app]. f_equal. f_equal. unfold trs. rewrite En. reflexivity.
      * intros j i Hj. apply Hids. rewrite <- Hassoc1. exact Hj.
      * rewrite Hassoc1. exact Hlt.
      * exists ps'. split; [exact A|]. split; [rewrite <- Hassoc2; exact B|exact C].
Qed.

(** ** alias lines *)
Definition alias_step (cx : nctx) (st0 : wstate) (t : expr * N) : wstate :=
  let '(e, tid) := t in
  let name := canonical_name (n_names cx) e in
  match name with
  | EmptyString => st0
  | _ =>
      let '(st1, sort) := sort_id st0 (type_of e) in
      let '(st2, lid) := new_id st1 in
      emit st2 [num lid; "uext"; num sort; num tid; "0"; name]
  end.

Definition alias_targets (cx : nctx) (st : wstate) : list (expr * N) :=
  fold_right insert_by_id []
    (flat_map (fun e => match find_expr e (w_exprs st) with Some id => [(e, id)] | None => [] end) (n_alias cx)).

Lemma emit_aliases_eq cx st : emit_aliases cx st = fold_left (alias_step cx) (alias_targets cx st) st.
Proof. reflexivity. Qed.

Lemma inv_extra_line v m st ps l ps' x :
  Inv v m st ps -> parse_line_v v true ps l = POk ps' -> p_types ps' = p_types ps ->
  p_signals ps' = PM.add (key (w_next st)) x (p_signals ps) ->
  Inv v m (emit (fst (new_id st)) l) ps'.
Proof.
  intros [Hrun Hm Hs He] Hl Ht Hsg. constructor.
  - apply (run_emit v _ l ps); [exact Hrun|exact Hl].
  - exact Hm.
  - intros t0 id0 H0. cbn [emit new_id fst w_sorts w_next] in *. destruct (Hs _ _ H0). split; [lia|]. rewrite Ht. assumption.
  - intros y id0 H0. cbn [emit new_id fst w_exprs w_next] in *. destruct (He _ _ H0) as (A & B & C). split; [lia|].
    split; [|exact C]. rewrite Hsg, PM.gso; [exact B|]. apply key_neq. lia.
Qed.

Lemma alias_line ps lid sort tid x name : lid <= U32MAX -> sort <= U32MAX -> tid <= U32MAX ->
  PM.find (key sort) (p_types ps) = Some (type_of x) -> PM.find (key tid) (p_signals ps) = Some x ->
  wt x = true -> node_fits x = true ->
  exists ps', parse_line true ps [num lid; "uext"; num sort; num tid; "0"; name] = POk ps' /\
              core_eq ps' (set_signal ps lid x).
Proof.
  intros Hl Hs Ht Fs Fx Hwt Hfit.
  rewrite (parse_line_unfold true ps _ (num lid) "uext" [num sort; num tid; "0"; name] eq_refl).
  rewrite (line_id_num lid Hl). change (un_table "uext") with (Some UUext). cbv iota beta.
  unfold parse_unary, require. cbn [List.length Nat.ltb Nat.leb pbind tokn nth].
  rewrite (get_tpe_num ps sort _ Hs Fs). cbn [pbind]. rewrite (get_expr_num ps tid _ Ht Fx). cbn [pbind].
  unfold lower_unary, require. cbn [List.length Nat.ltb Nat.leb pbind tokn nth].
  change (parse_width "0") with (Some 0). cbn [of_opt pbind]. unfold b_ext. cbn [N.eqb pbind].
  rewrite (check_ok x (type_of x) Hwt Hfit eq_refl). cbn [pbind].
  eexists. split; [reflexivity|]. apply core_eq_sym. apply finish_node_core1.
Qed.

Lemma alias_pre v ps lid sort tid x name : tid <= U32MAX ->
  PM.find (key tid) (p_signals ps) = Some x -> ty_fits (type_of x) = true ->
  (v = Fix2 -> is_bv_ty (type_of x) = true) ->
  variant_pre v ps [num lid; "uext"; num sort; num tid; "0"; name] = true.
Proof.
  intros Ht Fx Hfit Hbv.
  assert (Hlp : line_pre ps [num lid; "uext"; num sort; num tid; "0"; name] = true).
  { unfold line_pre. cbn [tokn nth]. change (un_table "uext") with (Some UUext). cbv iota beta.
    rewrite (neg_ok_num ps tid Ht), (opnd_ty_num ps tid x Ht Fx). cbn [andb].
    unfold unary_pre. cbn [tokn nth]. change (parse_width "0") with (Some 0).
    destruct (type_of x) as [w|iw dw]; [|reflexivity]. cbn [ty_fits] in Hfit. rewrite N.add_0_r. exact Hfit. }
  assert (Hz : zero_sort_line [num lid; "uext"; num sort; num tid; "0"; name] = false) by reflexivity.
  assert (Hp : prop_bool ps [num lid; "uext"; num sort; num tid; "0"; name] = true) by reflexivity.
  destruct v; cbn [variant_pre]; [reflexivity| |]; unfold line_fix_pre; rewrite Hlp, Hz, Hp; [reflexivity|].
  unfold ext_bv. cbn [tokn nth]. change (seq "uext" "uext" || seq "uext" "sext") with true. cbv iota.
  rewrite (opnd_ty_num ps tid x Ht Fx). rewrite (Hbv eq_refl). reflexivity.
Qed.

Definition target_ok (v : code_variant) (st : wstate) (t : expr * N) : Prop :=
  find_expr (fst t) (w_exprs st) = Some (snd t) /\ wt (fst t) = true /\ efits (fst t) = true /\
  (v = Fix2 -> is_bv_ty (type_of (fst t)) = true).

Lemma alias_step_next cx st t : w_next st <= w_next (alias_step cx st t).
Proof.
  destruct t as [e tid]. unfold alias_step. destruct (canonical_name (n_names cx) e); [lia|].
  destruct (sort_id st (type_of e)) as [st1 sort] eqn:Es. cbn [new_id emit w_next].
  pose proof (sort_id_mono_next _ _ _ _ Es). lia.
Qed.

Lemma alias_step_sim v m cx st ps t :
  Inv v m st ps -> target_ok v st t -> w_next (alias_step cx st t) <= BOUND ->
  exists ps', Inv v m (alias_step cx st t) ps' /\ rest_eq ps ps' /\ w_exprs (alias_step cx st t) = w_exprs st.
Proof.
  destruct t as [e tid]. intros Hinv (Hfe & Hwt & Hf & Hbv) Hb. cbn [fst snd] in *. unfold alias_step in *.
  destruct (canonical_name (n_names cx) e) as [|c0 s0] eqn:En.
  { exists ps. split; [exact Hinv|]. split; [apply rest_eq_refl|reflexivity]. }
  destruct (sort_id st (type_of e)) as [st1 sort] eqn:Es. cbn [new_id] in *. cbn [emit w_next] in Hb.
  destruct (sort_id_sim v m st ps (type_of e) st1 sort Hinv (efits_ty e Hf) (wt_pos e Hwt) Es ltac:(lia))
    as (ps1 & Hinv1 & Hr1 & Hsg1 & Hfs & Hmo1 & He1).
  destruct (i_sorts _ _ _ _ Hinv1 _ _ Hfs) as [Hls Hts].
  assert (Hfe1 : find_expr e (w_exprs st1) = Some tid) by (rewrite He1; exact Hfe).
  destruct (i_exprs _ _ _ _ Hinv1 _ _ Hfe1) as (Hlt & Hsg & _).
  pose proof (i_map _ _ _ _ Hinv) as Hm.
  pose proof (tr_type m e Hm Hwt) as Hty. pose proof (tr_wt m e Hm Hwt) as Hwx.
  pose proof (tr_efits m Hm e Hwt Hf) as Hfx.
  unfold BOUND in *.
  rewrite <- Hty in Hts.
  destruct (alias_line ps1 (w_next st1) sort tid (tr m e) (String c0 s0) ltac:(lia) ltac:(lia) ltac:(lia) Hts Hsg Hwx
              (efits_node _ Hwx Hfx)) as (ps' & Hl & Hc).
  assert (Hlv : parse_line_v v true ps1 [num (w_next st1); "uext"; num sort; num tid; "0"; String c0 s0] = POk ps').
  { unfold parse_line_v. rewrite (alias_pre v ps1 _ sort tid (tr m e)); auto; [lia|apply efits_ty; exact Hfx|].
    intros Hv. rewrite Hty. auto. }
  destruct Hc as (C1 & C2 & C3 & C4 & C5 & C6 & C7 & C8).
  cbn [set_signal p_types p_statemap p_signals p_inputs p_states p_outputs p_bads p_constraints] in *.
  exists ps'. split; [apply (inv_extra_line v m st1 ps1 _ ps' (tr m e) Hinv1 Hlv C1 C3)|]. split.
  - eapply rest_eq_trans; [exact Hr1|]. repeat split; congruence.
  - cbn [emit w_exprs]. exact He1.
Qed.

Lemma aliases_sim v m cx : forall targets st ps,
  Inv v m st ps -> Forall (target_ok v st) targets ->
  w_next (fold_left (alias_step cx) targets st) <= BOUND ->
  exists ps', Inv v m (fold_left (alias_step cx) targets st) ps' /\ rest_eq ps ps' /\
              w_exprs (fold_left (alias_step cx) targets st) = w_exprs st.
Proof.
  induction targets as [|t l IH]; intros st ps Hinv Hall Hb; cbn [fold_left] in *.
  - exists ps. split; [exact Hinv|]. split; [apply rest_eq_refl|reflexivity].
  - apply Forall_cons_iff in Hall. destruct Hall as [Ht Hall].
    assert (Hmn : forall l0 s0, w_next s0 <= w_next (fold_left (alias_step cx) l0 s0)).
    { induction l0 as [|t0 l0 IH0]; intros s0; cbn [fold_left]; [lia|].
      pose proof (alias_step_next cx s0 t0). pose proof (IH0 (alias_step cx s0 t0)). lia. }
    pose proof (Hmn l (alias_step cx st t)) as Hm1.
    destruct (alias_step_sim v m cx st ps t Hinv Ht ltac:(lia)) as (ps1 & Hinv1 & Hr1 & He1).
    destruct (IH _ ps1 Hinv1) as (ps' & A & B & C).
    + eapply Forall_impl; [|exact Hall]. intros a (P1 & P2 & P3 & P4). unfold target_ok. rewrite He1. auto.
    + exact Hb.
    + exists ps'. split; [exact A|]. split; [eapply rest_eq_trans; eauto|congruence].
Qed.

Lemma aliases_next cx : forall l s0, w_next s0 <= w_next (fold_left (alias_step cx) l s0).
Proof.
  induction l as [|t0 l0 IH0]; intros s0; cbn [fold_left]; [lia|].
  pose proof (alias_step_next cx s0 t0). pose proof (IH0 (alias_step cx s0 t0)). lia.
Qed.

(** the targets are cached expressions among the outputs, constraints and bad states *)
Lemma insert_by_id_in x y l : In x (insert_by_id y l) -> x = y \/ In x l.
Proof.
  induction l as [|z l IH]; cbn [insert_by_id]; [intros [<-|[]]; auto|].
  destruct (snd y <=? snd z); cbn [In]; intros H; [destruct H as [<-|H]; auto|].
  destruct H as [<-|H]; [right; left; reflexivity|]. destruct (IH H); auto.
Qed.

Lemma sorted_in l x : In x (fold_right insert_by_id [] l) -> In x l.
Proof.
  induction l as [|y l IH]; cbn [fold_right]; [auto|]. intros H. apply insert_by_id_in in H. destruct H as [->|H]; [left; reflexivity|right; auto].
Qed.

Lemma alias_targets_spec cx st e id : In (e, id) (alias_targets cx st) ->
  In e (n_alias cx) /\ find_expr e (w_exprs st) = Some id.
Proof.
  intros H. apply sorted_in in H. apply in_flat_map in H. destruct H as (e0 & He0 & H).
  destruct (find_expr e0 (w_exprs st)) as [i|] eqn:E; [|contradiction]. destruct H as [H|[]]. inversion H; subst. auto.
Qed.

Lemma dedup_in : forall l seen e, In e (dedup_exprs l seen) -> In e l.
Proof.
  induction l as [|x l IH]; intros seen e; cbn [dedup_exprs]; [auto|].
  destruct (existsb (expr_eqb x) seen); [intros H; right; eapply IH; eauto|].
  intros [<-|H]; [left; reflexivity|right; eapply IH; eauto].
Qed.

Lemma alias_needed_spec wv nm sy lb e : In e (alias_needed wv nm sy lb) ->
  In e (map snd (s_outputs sy) ++ s_constraints sy ++ s_bads sy) /\
  (w_no_array_alias wv = true -> is_bv_ty (type_of e) = true).
Proof.
  unfold alias_needed. intros H. apply filter_In in H. destruct H as [Hin Hf]. split.
  - apply dedup_in in Hin. apply in_map_iff in Hin. destruct Hin as ([e0 n] & <- & Hin). cbn [fst].
    apply in_app_or in Hin. destruct Hin as [Hin|Hin]; [apply in_combine_l in Hin; apply in_or_app; left; exact Hin|].
    apply in_app_or in Hin. destruct Hin as [Hin|Hin]; apply in_combine_l in Hin; apply in_or_app; right; apply in_or_app; auto.
  - intros Hw. rewrite Hw in Hf. cbn [andb] in Hf. destruct (is_bv_ty (type_of e)); [reflexivity|discriminate Hf].
Qed.

(** ** one id per line, through the system section *)
Lemma cnt_emit_input_n cx st i : cnt st -> cnt (emit_input_n cx st i).
Proof.
  unfold emit_input_n. destruct (sort_id st (type_of i)) as [st1 sort] eqn:Es. intros Hc.
  apply (cnt_sort_id _ _ _ _ Es) in Hc. unfold cnt in *. cbn [new_id reg_expr emit w_next w_lines List.length]. lia.
Qed.

Lemma cnt_inputs_n cx l : forall st, cnt st -> cnt (fold_left (emit_input_n cx) l st).
Proof. induction l as [|i l IH]; intros st Hc; cbn [fold_left]; [exact Hc|]. apply IH. apply cnt_emit_input_n. exact Hc. Qed.

Lemma cnt_emit_state_n cx st s st' sid : emit_state_n cx st s = POk (st', sid) -> cnt st -> cnt st'.
Proof.
  rewrite emit_state_n_eq. destruct (sort_id st (type_of (st_sym s))) as [st1 sort] eqn:Es. intros H Hc.
  apply (cnt_sort_id _ _ _ _ Es) in Hc.
  destruct (st_init s) as [init|].
  - destruct (emit_state_init_n cx st1 s init) as [[st2 iid]| |] eqn:Ei; cbn [pbind] in H; try discriminate.
    assert (Hc2 : cnt st2).
    { unfold emit_state_init_n in Ei. destruct (type_of (st_sym s)); [|destruct init]; apply (cnt_emit_expr_n _ _ _ _ _ Ei); exact Hc. }
    cbn [new_id] in H. inversion H; subst. unfold cnt in *. cbn [emit reg_expr w_next w_lines List.length]. lia.
  - cbn [pbind new_id] in H. inversion H; subst. unfold cnt in *. cbn [emit reg_expr w_next w_lines List.length]. lia.
Qed.

Lemma cnt_emit_states_n cx l : forall st st' ids, emit_states_n cx st l = POk (st', ids) -> cnt st -> cnt st'.
Proof.
  induction l as [|s l IH]; intros st st' ids H Hc; cbn [emit_states_n] in H.
  - inversion H; subst; exact Hc.
  - destruct (emit_state_n cx st s) as [[st1 sid]| |] eqn:E1; cbn [pbind] in H; try discriminate.
    destruct (emit_states_n cx st1 l) as [[st2 ids']| |] eqn:E2; cbn [pbind] in H; try discriminate.
    inversion H; subst. eapply IH; [exact E2|]. eapply cnt_emit_state_n; eauto.
Qed.

Lemma cnt_props_n cx kind l : forall lbls st st', emit_props_n cx kind st l lbls = POk st' -> cnt st -> cnt st'.
Proof.
  induction l as [|e l IH]; intros lbls st st' H Hc; cbn [emit_props_n] in H.
  - inversion H; subst; exact Hc.
  - destruct lbls as [|n ns]; [inversion H; subst; exact Hc|].
    destruct (emit_expr_n cx e st) as [[st1 body]| |] eqn:E; cbn [pbind new_id] in H; try discriminate.
    apply (IH _ _ _ H). apply (cnt_emit_expr_n _ _ _ _ _ E) in Hc. unfold cnt in *. cbn [emit w_next w_lines List.length]. lia.
Qed.

Lemma cnt_nexts_n cx l : forall ids st st', emit_nexts_n cx st l ids = POk st' -> cnt st -> cnt st'.
Proof.
  induction l as [|s l IH]; intros ids st st' H Hc; cbn [emit_nexts_n] in H; [inversion H; subst; exact Hc|].
  destruct ids as [|sid ids]; [inversion H; subst; exact Hc|].
  destruct (st_next s) as [nx|]; [|eapply IH; eauto].
  destruct (sort_id st (type_of (st_sym s))) as [st1 sort] eqn:Es.
  destruct (emit_expr_n cx nx st1) as [[st2 nid]| |] eqn:E; cbn [pbind new_id] in H; try discriminate.
  apply (IH _ _ _ H). apply (cnt_sort_id _ _ _ _ Es) in Hc. apply (cnt_emit_expr_n _ _ _ _ _ E) in Hc.
  unfold cnt in *. cbn [emit w_next w_lines List.length]. lia.
Qed.

Lemma cnt_alias_step cx st t : cnt st -> cnt (alias_step cx st t).
Proof.
  destruct t as [e tid]. unfold alias_step. destruct (canonical_name (n_names cx) e); [auto|].
  destruct (sort_id st (type_of e)) as [st1 sort] eqn:Es. intros Hc. apply (cnt_sort_id _ _ _ _ Es) in Hc.
  unfold cnt in *. cbn [new_id emit w_next w_lines List.length]. lia.
Qed.

Lemma cnt_aliases cx : forall l st, cnt st -> cnt (fold_left (alias_step cx) l st).
Proof. induction l as [|t l IH]; intros st Hc; cbn [fold_left]; [exact Hc|]. apply IH. apply cnt_alias_step. exact Hc. Qed.

Lemma emit_states_n_len cx l : forall st st' ids, emit_states_n cx st l = POk (st', ids) -> List.length ids = List.length l.
Proof.
  induction l as [|s l IH]; intros st st' ids H; cbn [emit_states_n] in H.
  - inversion H; reflexivity.
  - destruct (emit_state_n cx st s) as [[st1 sid]| |] eqn:E1; cbn [pbind] in H; try discriminate.
    destruct (emit_states_n cx st1 l) as [[st2 ids']| |] eqn:E2; cbn [pbind] in H; try discriminate.
    inversion H; subst. cbn [List.length]. f_equal. eapply IH; eauto.
Qed.

(** ** the label lists have the lengths of the lists they label *)
Lemma uniq_all_len : forall bs used, List.length (fst (uniq_all bs used)) = List.length bs.
Proof.
  induction bs as [|b bs IH]; intros used; cbn [uniq_all]; [reflexivity|].
  specialize (IH (unique_name b used :: used)). destruct (uniq_all bs (unique_name b used :: used)) as [ns u'].
  cbn [fst List.length] in *. congruence.
Qed.

Lemma label_bases_len wv sy nm d : forall l after, List.length (label_bases wv sy nm d l after) = List.length l.
Proof. induction l as [|e l IH]; intros after; cbn [label_bases List.length]; [reflexivity|]. rewrite IH. reflexivity. Qed.

Lemma compute_labels_len wv nm sy :
  let lb := compute_labels wv nm sy in
  List.length (l_outputs lb) = List.length (map snd (s_outputs sy)) /\
  List.length (l_constraints lb) = List.length (s_constraints sy) /\
  List.length (l_bads lb) = List.length (s_bads sy).
Proof.
  unfold compute_labels.
  pose proof (uniq_all_len (map fst (s_outputs sy)) reserved_names) as H1.
  destruct (uniq_all (map fst (s_outputs sy)) reserved_names) as [o u1].
  pose proof (uniq_all_len (label_bases wv sy nm "_constraint" (s_constraints sy) (s_bads sy)) u1) as H2.
  destruct (uniq_all (label_bases wv sy nm "_constraint" (s_constraints sy) (s_bads sy)) u1) as [c u2].
  pose proof (uniq_all_len (label_bases wv sy nm "_bad" (s_bads sy) []) u2) as H3.
  destruct (uniq_all (label_bases wv sy nm "_bad" (s_bads sy) []) u2) as [b u3].
  cbn [fst l_outputs l_constraints l_bads] in *. rewrite label_bases_len in H2, H3. rewrite !map_length in *. auto.
Qed.

(** ** the whole text *)
(** [Fix2] (patches/0009) refuses an array operand of [uext]; the writer variant must then not print
    array aliases (patches/0008, [w_no_array_alias]) *)
Definition alias_ok (v : code_variant) (wv : writer_variant) : Prop := v = Fix2 -> w_no_array_alias wv = true.

Theorem serialize_named_parse_raw v wv sy nm lines :
  sys_ok_weak sy = true -> (is_fix v = true -> props_1bit sy = true) -> alias_ok v wv ->
  NoDup (declared sy) -> sys_fits sy = true ->
  serialize_named_v wv sy nm = POk lines -> N.of_nat (List.length lines) <= U32MAX ->
  exists m ps, map_ok m /\ parse_fold_v v true lines p_empty false = POk (ps, false) /\
    p_inputs ps = map (sm_app m) (s_inputs sy) /\
    p_states ps = map (trs m true) (s_states sy) /\
    map snd (p_outputs ps) = map (tr m) (map snd (s_outputs sy)) /\
    p_bads ps = map (tr m) (s_bads sy) /\ p_constraints ps = map (tr m) (s_constraints sy).
Proof.
  intros Hok H1bit Hal Hnd Hfit H Hlen. unfold serialize_named_v in H. cbv zeta in H.
  set (lb := compute_labels wv nm sy) in *.
  set (cx := {| n_names := nm; n_labels := all_labels lb; n_alias := alias_needed wv nm sy lb |}) in *.
  set (st1 := fold_left (emit_input_n cx) (s_inputs sy) w_empty) in *.
  destruct (emit_states_n cx st1 (s_states sy)) as [[st2 ids]| |] eqn:E2; cbn [pbind] in H; try discriminate.
  destruct (emit_props_n cx "output" st2 (map snd (s_outputs sy)) (l_outputs lb)) as [st3| |] eqn:E3; cbn [pbind] in H; try discriminate.
  destruct (emit_props_n cx "constraint" st3 (s_constraints sy) (l_constraints lb)) as [st4| |] eqn:E4; cbn [pbind] in H; try discriminate.
  destruct (emit_props_n cx "bad" st4 (s_bads sy) (l_bads lb)) as [st5| |] eqn:E5; cbn [pbind] in H; try discriminate.
  rewrite emit_aliases_eq in H. set (st6 := fold_left (alias_step cx) (alias_targets cx st5) st5) in *.
  destruct (emit_nexts_n cx st6 (s_states sy) ids) as [st7| |] eqn:E7; cbn [pbind] in H; try discriminate.
  inversion H; subst lines. clear H. rewrite rev_length in Hlen.
  destruct (compute_labels_len wv nm sy) as (Lo & Lc & Lb). fold lb in Lo, Lc, Lb.
  (* counters *)
  assert (Hc0 : cnt w_empty) by (unfold cnt; cbn; lia).
  pose proof (cnt_inputs_n cx (s_inputs sy) _ Hc0) as Hc1. fold st1 in Hc1.
  pose proof (cnt_emit_states_n _ _ _ _ _ E2 Hc1) as Hc2. pose proof (cnt_props_n _ _ _ _ _ _ E3 Hc2) as Hc3.
  pose proof (cnt_props_n _ _ _ _ _ _ E4 Hc3) as Hc4. pose proof (cnt_props_n _ _ _ _ _ _ E5 Hc4) as Hc5.
  pose proof (cnt_aliases cx (alias_targets cx st5) _ Hc5) as Hc6. fold st6 in Hc6.
  pose proof (cnt_nexts_n _ _ _ _ _ E7 Hc6) as Hc7.
  assert (Hb7 : w_next st7 <= BOUND) by (unfold cnt in Hc7; unfold BOUND; lia).
  pose proof (emit_nexts_n_next _ _ _ _ _ E7) as N7. pose proof (aliases_next cx (alias_targets cx st5) st5) as N6. fold st6 in N6.
  pose proof (emit_props_n_next _ _ _ _ _ _ E5) as N5.
  pose proof (emit_props_n_next _ _ _ _ _ _ E4) as N4. pose proof (emit_props_n_next _ _ _ _ _ _ E3) as N3.
  pose proof (emit_states_n_next _ _ _ _ _ E2) as N2.
  (* well-formedness, piecewise *)
  unfold sys_ok_weak in Hok.
  apply andb_true_iff in Hok. destruct Hok as [Hok Hokc]. apply andb_true_iff in Hok. destruct Hok as [Hok Hokb].
  apply andb_true_iff in Hok. destruct Hok as [Hok Hoko]. apply andb_true_iff in Hok. destruct Hok as [Hoki Hoks].
  unfold sys_fits, all_exprs in Hfit. rewrite !forallb_app in Hfit.
  apply andb_true_iff in Hfit. destruct Hfit as [Hfi Hfit]. apply andb_true_iff in Hfit. destruct Hfit as [Hfo Hfit].
  apply andb_true_iff in Hfit. destruct Hfit as [Hfb Hfit]. apply andb_true_iff in Hfit. destruct Hfit as [Hfc Hfs].
  rewrite forallb_forall in Hoki, Hoks, Hoko, Hokb, Hokc, Hfi, Hfo, Hfb, Hfc, Hfs.
  assert (Hins : Forall sym_ok (s_inputs sy)).
  { apply Forall_forall. intros i Hi. specialize (Hoki _ Hi). apply andb_true_iff in Hoki. destruct Hoki. repeat split; auto. }
  assert (Hsts : Forall st_ok (s_states sy)).
  { apply Forall_forall. intros s Hs. split; [apply Hoks; exact Hs|].
    assert (Hall : forall e, In e (st_sym s :: (match st_init s with Some e => [e] | None => [] end)
                                  ++ (match st_next s with Some e => [e] | None => [] end)) -> efits e = true).
    { intros e He. apply Hfs. apply in_flat_map. exists s. split; assumption. }
    repeat split.
    - apply Hall. left. reflexivity.
    - intros e He. apply Hall. right. apply in_or_app. left. rewrite He. left. reflexivity.
    - intros e He. apply Hall. right. apply in_or_app. right. rewrite He. left. reflexivity. }
  assert (Houts : Forall expr_ok (map snd (s_outputs sy))).
  { apply Forall_forall. intros e He. apply in_map_iff in He. destruct He as (o & <- & Ho). split; [apply Hoko; exact Ho|].
    apply Hfo. apply in_map. exact Ho. }
  assert (Hcons : Forall expr_ok (s_constraints sy)) by (apply Forall_forall; intros e He; split; auto).
  assert (Hbads : Forall expr_ok (s_bads sy)) by (apply Forall_forall; intros e He; split; auto).
  (* inputs *)
  destruct (inputs_n_sim v cx (s_inputs sy) [] w_empty p_empty [] (inv_init v) sh_init' ltac:(repeat split) Hins) as (m1 & ps1 & Hinv1 & Hsh1 & Hnp1).
  { cbn [app]. unfold declared in Hnd. apply nodup_app_l in Hnd. exact Hnd. }
  { fold st1. lia. }
  fold st1 in Hinv1. cbn [app] in Hsh1.
  (* states *)
  destruct (states_n_sim v cx (s_states sy) m1 st1 ps1 (s_inputs sy) [] [] st2 ids Hinv1 Hsh1 Hnp1 Hsts) as (m & ps2 & Hinv2 & Hsh2 & Hnp2 & Hids2); auto.
  { lia. }
  cbn [app] in Hsh2, Hids2.
  (* outputs, constraints, bads *)
  assert (H1c : is_fix v = true -> KCon = KOut \/ Forall (fun e => type_of e = TBV 1) (s_constraints sy)).
  { intros Hv. right. specialize (H1bit Hv). unfold props_1bit in H1bit. rewrite forallb_app in H1bit.
    apply andb_true_iff in H1bit. destruct H1bit as [_ Hc]. rewrite forallb_forall in Hc. apply Forall_forall.
    intros e He. apply ty_eqb_eq. apply Hc. exact He. }
  assert (H1b : is_fix v = true -> KBad = KOut \/ Forall (fun e => type_of e = TBV 1) (s_bads sy)).
  { intros Hv. right. specialize (H1bit Hv). unfold props_1bit in H1bit. rewrite forallb_app in H1bit.
    apply andb_true_iff in H1bit. destruct H1bit as [Hc _]. rewrite forallb_forall in Hc. apply Forall_forall.
    intros e He. apply ty_eqb_eq. apply Hc. exact He. }
  destruct (props_n_sim v KOut m cx _ _ st2 ps2 st3 Hinv2 Houts Lo ltac:(intros _; left; reflexivity) E3 ltac:(lia)) as (ps3 & Hinv3 & Hd3 & Hk3 & Ho3).
  destruct (props_n_sim v KCon m cx _ _ st3 ps3 st4 Hinv3 Hcons Lc H1c E4 ltac:(lia)) as (ps4 & Hinv4 & Hd4 & Hk4 & Ho4).
  destruct (props_n_sim v KBad m cx _ _ st4 ps4 st5 Hinv4 Hbads Lb H1b E5 ltac:(lia)) as (ps5 & Hinv5 & Hd5 & Hk5 & Ho5).
  pose proof (decl_eq_trans _ _ _ Hd3 (decl_eq_trans _ _ _ Hd4 Hd5)) as (D1 & D2 & D3).
  (* alias lines *)
  assert (Htg : Forall (target_ok v st5) (alias_targets cx st5)).
  { apply Forall_forall. intros [e id] Hin. apply alias_targets_spec in Hin. destruct Hin as [Hin Hfe].
    cbn [n_alias cx] in Hin. apply alias_needed_spec in Hin. destruct Hin as [Hin Hbv].
    assert (Hex : expr_ok e).
    { apply in_app_or in Hin. destruct Hin as [Hin|Hin]; [rewrite Forall_forall in Houts; auto|].
      apply in_app_or in Hin. destruct Hin as [Hin|Hin]; [rewrite Forall_forall in Hcons; auto|rewrite Forall_forall in Hbads; auto]. }
    destruct Hex as [Hw Hf]. unfold target_ok. cbn [fst snd]. split; [exact Hfe|]. split; [exact Hw|]. split; [exact Hf|].
    intros Hv. apply Hbv. apply Hal. exact Hv. }
  destruct (aliases_sim v m cx (alias_targets cx st5) st5 ps5 Hinv5 Htg) as (ps6 & Hinv6 & Hr6 & He6).
  { fold st6. lia. }
  fold st6 in Hinv6, He6. destruct Hr6 as (R1 & R2 & R3 & R4 & R5 & R6).
  (* nexts *)
  destruct (nexts_n_sim v m cx (s_states sy) ids [] [] st6 ps6 st7 Hinv6) as (ps7 & Hinv7 & Hst7 & P1 & P2 & P3 & P4 & P5); auto.
  { cbn [map app]. rewrite <- R3, <- D3. apply (sh_states _ _ _ _ _ Hsh2). }
  { cbn [app]. intros j sid Hj. rewrite <- R1, <- D1. apply (sh_ids _ _ _ _ _ Hsh2 _ _ Hj). }
  { apply (emit_states_n_len _ _ _ _ _ E2). }
  { cbn [app]. eapply Forall_impl; [|exact Hids2]. intros a Ha. cbn beta in *. lia. }
  cbn [app] in Hst7.
  exists m, ps7. split; [apply (i_map _ _ _ _ Hinv7)|]. split; [exact (i_run _ _ _ _ Hinv7)|].
  destruct Hnp2 as (Q1 & Q2 & Q3).
  split; [rewrite <- P1, <- R2, <- D2; apply (sh_inputs _ _ _ _ _ Hsh2)|]. split; [exact Hst7|]. split; [|split].
  - rewrite <- P3, <- R4. change (map snd (p_outputs ps5)) with (klist KOut ps5).
    rewrite (Ho5 KOut ltac:(discriminate)), (Ho4 KOut ltac:(discriminate)), Hk3. cbn [klist]. rewrite Q1. reflexivity.
  - rewrite <- P4, <- R5. change (p_bads ps5) with (klist KBad ps5). rewrite Hk5, (Ho4 KBad ltac:(discriminate)), (Ho3 KBad ltac:(discriminate)).
    cbn [klist]. rewrite Q2. reflexivity.
  - rewrite <- P5, <- R6. change (p_constraints ps5) with (klist KCon ps5). rewrite (Ho5 KCon ltac:(discriminate)), Hk4, (Ho3 KCon ltac:(discriminate)).
    cbn [klist]. rewrite Q3. reflexivity.
Qed.

(** ** from the reader's raw state to the round-trip statement (the second half of
    [Btor2RoundTrip.roundtrip_sem_v], which only uses the conclusion of [serialize_parse_raw]) *)
Lemma rt_from_raw v sy lines m ps :
  sys_ok_weak sy = true -> map_ok m ->
  parse_fold_v v true lines p_empty false = POk (ps, false) ->
  p_inputs ps = map (sm_app m) (s_inputs sy) ->
  p_states ps = map (trs m true) (s_states sy) ->
  map snd (p_outputs ps) = map (tr m) (map snd (s_outputs sy)) ->
  p_bads ps = map (tr m) (s_bads sy) -> p_constraints ps = map (tr m) (s_constraints sy) ->
  exists sy' tau pull, parse_lines_v v true lines = POk sy' /\ rt_agrees sy sy' tau pull.
Proof.
  intros Hok Hm Hrun Hin Hst Hout Hbad Hcon.
  set (ren := renames_of ps).
  exists (demote (rename_sys ren (sys_of_pstate ps))), (the_tau ren m), (the_pull ren m).
  split. { unfold parse_lines_v, parse_raw_v. rewrite Hrun. reflexivity. }
  unfold sys_ok_weak in Hok.
  apply andb_true_iff in Hok. destruct Hok as [Hok Hokc]. apply andb_true_iff in Hok. destruct Hok as [Hok Hokb].
  apply andb_true_iff in Hok. destruct Hok as [Hok Hoko]. apply andb_true_iff in Hok. destruct Hok as [Hoki Hoks].
  rewrite forallb_forall in Hoki, Hoks, Hoko, Hokb, Hokc.
  rewrite rename_sys_all. cbn [sys_of_pstate s_inputs s_states s_outputs s_bads s_constraints].
  rewrite Hin, Hst, Hbad, Hcon.
  assert (Hsym_in : forall i, In i (s_inputs sy) -> is_symbol i = true).
  { intros i Hi. specialize (Hoki _ Hi). apply andb_true_iff in Hoki. tauto. }
  assert (Hsym_st : forall s, In s (s_states sy) -> is_symbol (st_sym s) = true).
  { intros s Hs. specialize (Hoks _ Hs). unfold state_ok in Hoks. repeat (apply andb_true_iff in Hoks; destruct Hoks as [Hoks ?]). exact Hoks. }
  assert (Htau_sym : forall s, is_symbol s = true -> rename ren (sm_app m s) = the_tau ren m s).
  { intros s Hs. apply rename_of_symbol. apply sm_app_symbol; auto. }
  constructor.
  - apply the_tau_keeping. exact Hm.
  - intros rho' s Hs. apply the_pull_spec; auto.
  - intros rho' Hrho. unfold the_pull. apply env_pull_wf; [apply sm_app_keeping; exact Hm|].
    apply env_pull_wf; [apply rename_sym_keeping|exact Hrho].
  - cbn [demote s_inputs s_states]. rewrite map_app, !map_map.
    rewrite (filter_map_comm (fun s => rename_state ren (trs m true s)) is_plain is_plain) by apply (tstate_plain ren m).
    rewrite !map_map. f_equal.
    + apply map_ext_in. intros i Hi. apply Htau_sym. auto.
    + apply map_ext_in. intros s Hs. apply filter_In in Hs. destruct Hs as [Hs _]. cbn [rename_state trs st_sym]. apply Htau_sym. auto.
  - cbn [demote s_states]. rewrite map_map.
    rewrite (filter_map_comm (fun s => rename_state ren (trs m true s)) (fun s => negb (is_plain s)) (fun s => negb (is_plain s)))
      by (intros x; f_equal; apply (tstate_plain ren m)).
    rewrite !map_map. apply map_ext_in. intros s Hs. apply filter_In in Hs. destruct Hs as [Hs _].
    cbn [rename_state trs st_sym]. apply Htau_sym. auto.
  - intros rho' Hrho. cbn [demote s_states s_outputs s_bads s_constraints].
    split; [|split; [|split]].
    + rewrite map_map.
      rewrite (filter_map_comm (fun s => rename_state ren (trs m true s)) (fun s => negb (is_plain s)) (fun s => negb (is_plain s)))
        by (intros x; f_equal; apply (tstate_plain ren m)).
      assert (Hall : forall l, (forall s, In s l -> In s (s_states sy)) ->
                Forall2 (state_eqv (the_pull ren m rho') rho') l (map (fun s => rename_state ren (trs m true s)) l)).
      { induction l as [|s l IH]; intros Hl; cbn [map]; constructor.
        - specialize (Hoks s (Hl s (or_introl eq_refl))). unfold state_ok in Hoks.
          repeat (apply andb_true_iff in Hoks; destruct Hoks as [Hoks ?]).
          unfold state_eqv, rename_state, trs. cbn [st_init st_next]. split.
          + destruct (st_init s) as [e|]; cbn [option_map opt_rel]; [|exact I].
            apply andb_true_iff in H0. destruct H0 as [Hw _]. apply the_eqv; auto.
          + destruct (st_next s) as [e|]; cbn [option_map opt_rel]; [|exact I].
            apply andb_true_iff in H. destruct H as [Hw _]. apply the_eqv; auto.
        - apply IH. intros s0 Hs0. apply Hl. right. exact Hs0. }
      apply Hall. intros s Hs. apply filter_In in Hs. tauto.
    + assert (Hlen2 : map snd (map (fun o => (fst o, rename ren (snd o))) (p_outputs ps)) =
                      map (rename ren) (map (tr m) (map snd (s_outputs sy)))).
      { rewrite map_map. cbn [snd]. rewrite <- Hout, map_map. reflexivity. }
      revert Hlen2. generalize (map (fun o => (fst o, rename ren (snd o))) (p_outputs ps)). generalize Hoko. clear Hout.
      induction (s_outputs sy) as [|o l IH]; intros Hoko' l' H; destruct l' as [|o' l']; cbn [map] in H; try discriminate; constructor.
      * inversion H. rewrite H1. apply the_eqv; auto. apply Hoko'. left. reflexivity.
      * inversion H. apply IH; try assumption; try (intros x Hx; apply Hoko'; right; exact Hx).
    + assert (Hall : forall l, (forall e, In e l -> wt e = true) ->
                Forall2 (eqv (the_pull ren m rho') rho') l (map (rename ren) (map (tr m) l))).
      { induction l as [|e l IH]; intros Hl; cbn [map]; constructor.
        - apply the_eqv; auto. apply Hl. left. reflexivity.
        - apply IH. intros e0 He0. apply Hl. right. exact He0. }
      apply Hall. exact Hokb.
    + assert (Hall : forall l, (forall e, In e l -> wt e = true) ->
                Forall2 (eqv (the_pull ren m rho') rho') l (map (rename ren) (map (tr m) l))).
      { induction l as [|e l IH]; intros Hl; cbn [map]; constructor.
        - apply the_eqv; auto. apply Hl. left. reflexivity.
        - apply IH. intros e0 He0. apply Hl. right. exact He0. }
      apply Hall. exact Hokc.
Qed.

Theorem roundtrip_sem_named_v v wv sy nm lines :
  sys_ok_weak sy = true -> (is_fix v = true -> props_1bit sy = true) -> alias_ok v wv ->
  NoDup (declared sy) -> sys_fits sy = true ->
  serialize_named_v wv sy nm = POk lines -> N.of_nat (List.length lines) <= U32MAX ->
  exists sy' tau pull, parse_lines_v v true lines = POk sy' /\ rt_agrees sy sy' tau pull.
Proof.
  intros Hok H1bit Hal Hnd Hfit Hser Hlen.
  destruct (serialize_named_parse_raw v wv sy nm lines Hok H1bit Hal Hnd Hfit Hser Hlen)
    as (m & ps & Hm & Hrun & Hin & Hst & Hout & Hbad & Hcon).
  apply (rt_from_raw v sy lines m ps); assumption.
Qed.

(** the reader without the checks of the repair series, debug and release builds; any writer variant, any name table *)
Theorem roundtrip_sem_named wv sy nm lines :
  sys_ok_weak sy = true -> NoDup (declared sy) -> sys_fits sy = true ->
  serialize_named_v wv sy nm = POk lines -> N.of_nat (List.length lines) <= U32MAX ->
  exists sy' tau pull, (forall dbg, parse_lines dbg lines = POk sy') /\ rt_agrees sy sy' tau pull.
Proof.
  intros Hok Hnd Hfit Hser Hlen.
  destruct (roundtrip_sem_named_v Cur wv sy nm lines Hok ltac:(discriminate) ltac:(intros Hv; discriminate Hv) Hnd Hfit Hser Hlen)
    as (sy' & tau & pull & Hp & Hr).
  rewrite parse_lines_v_cur in Hp. exists sy', tau, pull. split; [|exact Hr].
  intros [|]; [exact Hp|]. rewrite Btor2Refine.release_equals_debug; [exact Hp|]. rewrite Hp. intros k. discriminate.
Qed.

(** the reader of /repo ([Fix]) and the prepared [Fix2] (which needs a writer that prints no array alias) *)
Theorem roundtrip_sem_named_fix v wv sy nm lines :
  is_fix v = true -> alias_ok v wv ->
  sys_ok sy = true -> NoDup (declared sy) -> sys_fits sy = true ->
  serialize_named_v wv sy nm = POk lines -> N.of_nat (List.length lines) <= U32MAX ->
  exists sy' tau pull, (forall dbg, parse_lines_v v dbg lines = POk sy') /\ rt_agrees sy sy' tau pull.
Proof.
  intros Hv Hal Hok Hnd Hfit Hser Hlen. rewrite sys_ok_split in Hok. apply andb_true_iff in Hok. destruct Hok as [Hw H1].
  destruct (roundtrip_sem_named_v v wv sy nm lines Hw ltac:(intros _; exact H1) Hal Hnd Hfit Hser Hlen) as (sy' & tau & pull & Hp & Hr).
  exists sy', tau, pull. split; [|exact Hr].
  intros [|]; [exact Hp|]. rewrite (parse_lines_v_ref v lines); [exact Hp|]. rewrite Hp. intros k. discriminate.
Qed.
