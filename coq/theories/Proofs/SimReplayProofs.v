(** * Proofs/SimReplayProofs.v — snapshots are independent copies: no later
    operation changes a saved snapshot, [Restore i] brings back exactly the store
    of the i-th [Snapshot], and a continuation replayed after the restore
    produces the observations it produced the first time.  Also: [step_count]
    counts the [Step] operations executed (it is neither restored nor reset). *)
From Coq Require Import Lia.
From Patronus Require Import Sim.
Open Scope N_scope.

Ltac inv_exec He :=
  cbn [exec] in He;
  repeat match type of He with
         | bind ?x _ = _ => destruct x eqn:?; cbn [bind] in He; try discriminate He
         | match ?x with _ => _ end = _ => destruct x eqn:?; try discriminate He
         end;
  inversion He; subst; clear He.

(** ** snapshots only grow, by appending *)
Lemma exec_snaps sy s o s' b : exec sy s o = Done (s', b) ->
  exists ext, snaps s' = snaps s ++ ext.
Proof.
  intros He. destruct o; inv_exec He; cbn [snaps];
    try (exists []; now rewrite app_nil_r).
  eexists. reflexivity.
Qed.

Lemma run_snaps sy : forall h s s' outs, run sy s h = Done (s', outs) ->
  exists ext, snaps s' = snaps s ++ ext.
Proof.
  induction h as [|o r IH]; intros s s' outs Hr; cbn [run] in Hr.
  - inversion Hr; subst. exists []. now rewrite app_nil_r.
  - destruct (exec sy s o) as [[s1 b]| |] eqn:He; cbn [bind] in Hr; try discriminate Hr.
    destruct (run sy s1 r) as [[s2 bs]| |] eqn:Hr2; cbn [bind] in Hr; try discriminate Hr.
    inversion Hr; subst. destruct (exec_snaps _ _ _ _ _ He) as [e1 H1].
    destruct (IH _ _ _ Hr2) as [e2 H2]. exists (e1 ++ e2). now rewrite H2, H1, app_assoc.
Qed.

(** ** the step count *)
Definition is_step (o : op) : bool := match o with OStep => true | _ => false end.

Fixpoint count_steps (h : list op) : nat :=
  match h with [] => O | o :: r => ((if is_step o then 1 else 0) + count_steps r)%nat end.

Lemma exec_steps sy s o s' b : exec sy s o = Done (s', b) ->
  steps s' = steps s + (if is_step o then 1 else 0).
Proof. intros He. destruct o; inv_exec He; cbn [steps is_step]; lia. Qed.

Theorem step_count_lemma sy : forall h s s' outs, run sy s h = Done (s', outs) ->
  steps s' = steps s + N.of_nat (count_steps h).
Proof.
  induction h as [|o r IH]; intros s s' outs Hr; cbn [run] in Hr.
  - inversion Hr; subst. cbn [count_steps]. lia.
  - destruct (exec sy s o) as [[s1 b]| |] eqn:He; cbn [bind] in Hr; try discriminate Hr.
    destruct (run sy s1 r) as [[s2 bs]| |] eqn:Hr2; cbn [bind] in Hr; try discriminate Hr.
    inversion Hr; subst. rewrite (IH _ _ _ Hr2), (exec_steps _ _ _ _ _ He). cbn [count_steps].
    destruct (is_step o); lia.
Qed.

(** ** replay *)
(** observations agree: the same values are read; numbers (step counts,
    snapshot ids) are not compared - they are shifted, see [step_count_lemma]
    and [shift_op] *)
Definition obs_sim (b1 b2 : obs) : Prop :=
  match b1, b2 with
  | ONone, ONone => True
  | OVal v1, OVal v2 => v1 = v2
  | ONum _, ONum _ => True
  | _, _ => False
  end.

(** [s2] holds the same values as [s1] but has [mid] more snapshots *)
Definition replay_rel (pre mid post : list store) (s1 s2 : sim) : Prop :=
  data s1 = data s2 /\ snaps s1 = pre ++ post /\ snaps s2 = pre ++ mid ++ post.

Definition same_outcome (pre mid : list store) (r1 r2 : outcome (sim * obs)) : Prop :=
  match r1 with
  | Done (s1', b1) => exists s2' b2 post', r2 = Done (s2', b2) /\ obs_sim b1 b2 /\
                                          replay_rel pre mid post' s1' s2'
  | Crash => r2 = Crash
  | Unmodelled => r2 = Unmodelled
  end.

Lemma nth_error_shift {A} (pre mid post : list A) i :
  (length pre <= i)%nat ->
  nth_error (pre ++ mid ++ post) (i + length mid) = nth_error (pre ++ post) i.
Proof.
  intros Hi. rewrite !nth_error_app2 by lia. f_equal. lia.
Qed.

Lemma exec_replay sy pre mid post s1 s2 o :
  replay_rel pre mid post s1 s2 ->
  same_outcome pre mid (exec sy s1 o)
    (exec sy s2 (shift_op (N.of_nat (length pre)) (N.of_nat (length mid)) o)).
Proof.
  intros (Hd & H1 & H2). destruct o as [k|sym w v| |e| | |i]; cbn [shift_op exec same_outcome].
  - (* init *)
    destruct (alloc k 0 (decls sy) []) as [st| |]; cbn [bind]; try reflexivity.
    destruct (run_inits (s_states sy) st) as [st'| |]; cbn [bind]; try reflexivity.
    eexists. eexists. exists post. split; [reflexivity|]. split; [exact I|]. now split.
  - (* set *)
    rewrite <- Hd. destruct (update sym (SBV w v) (data s1)) as [st| |]; cbn [bind]; try reflexivity.
    eexists. eexists. exists post. split; [reflexivity|]. split; [exact I|]. now split.
  - (* step *)
    rewrite <- Hd. destruct (next_values (s_states sy) (data s1)) as [vs| |]; cbn [bind]; try reflexivity.
    destruct (commit (s_states sy) vs (data s1)) as [st| |]; cbn [bind]; try reflexivity.
    eexists. eexists. exists post. split; [reflexivity|]. split; [exact I|]. now split.
  - (* get *)
    rewrite <- Hd. destruct (eval_store (data s1) e) as [v| |]; cbn [bind]; try reflexivity.
    eexists. eexists. exists post. split; [reflexivity|]. split; [reflexivity|]. now split.
  - (* count *)
    eexists. eexists. exists post. split; [reflexivity|]. split; [exact I|]. now split.
  - (* snapshot *)
    eexists. eexists. exists (post ++ [data s1]). split; [reflexivity|]. split; [exact I|].
    split; [exact Hd|]. cbn [snaps]. rewrite H1, H2, <- Hd, <- !app_assoc. now split.
  - (* restore *)
    destruct (i <? N.of_nat (length pre)) eqn:Hlt; cbn [exec].
    + apply N.ltb_lt in Hlt. rewrite H1, H2, !nth_error_app1 by lia.
      destruct (nth_error pre (N.to_nat i)) as [st|]; [|reflexivity].
      eexists. eexists. exists post. split; [reflexivity|]. split; [exact I|]. now split.
    + apply N.ltb_ge in Hlt. rewrite H1, H2.
      replace (N.to_nat (i + N.of_nat (length mid))) with (N.to_nat i + length mid)%nat by lia.
      rewrite nth_error_shift by lia.
      destruct (nth_error (pre ++ post) (N.to_nat i)) as [st|]; [|reflexivity].
      eexists. eexists. exists post. split; [reflexivity|]. split; [exact I|]. now split.
Qed.

Lemma run_replay sy pre mid : forall h post s1 s2,
  replay_rel pre mid post s1 s2 ->
  match run sy s1 h with
  | Done (s1', outs1) =>
      exists s2' outs2 post',
        run sy s2 (map (shift_op (N.of_nat (length pre)) (N.of_nat (length mid))) h) = Done (s2', outs2) /\
        Forall2 obs_sim outs1 outs2 /\ replay_rel pre mid post' s1' s2'
  | Crash => run sy s2 (map (shift_op (N.of_nat (length pre)) (N.of_nat (length mid))) h) = Crash
  | Unmodelled => run sy s2 (map (shift_op (N.of_nat (length pre)) (N.of_nat (length mid))) h) = Unmodelled
  end.
Proof.
  induction h as [|o r IH]; intros post s1 s2 Hrel; cbn [run map].
  - exists s2, [], post. split; [reflexivity|]. split; [constructor|assumption].
  - pose proof (exec_replay sy pre mid post s1 s2 o Hrel) as He.
    destruct (exec sy s1 o) as [[s1' b1]| |]; cbn [same_outcome bind] in *.
    + destruct He as (s2' & b2 & post' & He2 & Hb & Hrel'). rewrite He2. cbn [bind].
      specialize (IH post' s1' s2' Hrel').
      destruct (run sy s1' r) as [[s1'' outs1]| |]; cbn [bind].
      * destruct IH as (s2'' & outs2 & post'' & Hr2 & Houts & Hrel''). rewrite Hr2. cbn [bind].
        exists s2'', (b2 :: outs2), post''. split; [reflexivity|]. split; [now constructor|assumption].
      * now rewrite IH.
      * now rewrite IH.
    + now rewrite He.
    + now rewrite He.
Qed.

(** ** the theorem: snapshot, anything, restore, replay *)
Theorem restore_replays_lemma sy s0 h h2 sA outsA sB outsB :
  run sy s0 (OSnapshot :: h) = Done (sA, outsA) ->       (* take a snapshot, continue with [h] *)
  run sy sA h2 = Done (sB, outsB) ->                      (* then anything: steps, inits, more snapshots ... *)
  let id := N.of_nat (length (snaps s0)) in
  let delta := N.of_nat (length (snaps sB)) - (id + 1) in
  hd ONone outsA = ONum id /\
  exists s2,
    exec sy sB (ORestore id) = Done (s2, ONone) /\       (* restoring it succeeds, *)
    data s2 = data s0 /\                                  (* brings back exactly the values of then, *)
    steps s2 = steps sB /\ snaps s2 = snaps sB /\         (* leaves count and snapshots alone, *)
    exists sC outsC,                                      (* and the replayed continuation *)
      run sy s2 (map (shift_op (id + 1) delta) h) = Done (sC, outsC) /\
      Forall2 obs_sim (tl outsA) outsC /\                 (* reads what it read the first time *)
      data sC = data sA.                                  (* and ends with the same values *)
Proof.
  intros Hr1 Hr2 id delta. cbn [run exec bind] in Hr1.
  set (s1 := {| data := data s0; snaps := snaps s0 ++ [data s0]; steps := steps s0 |}) in *.
  destruct (run sy s1 h) as [[sA' outs']| |] eqn:Hh; cbn [bind] in Hr1; try discriminate Hr1.
  inversion Hr1; subst sA' outsA. clear Hr1. cbn [hd tl]. split; [reflexivity|].
  destruct (run_snaps _ _ _ _ _ Hh) as [e1 He1]. destruct (run_snaps _ _ _ _ _ Hr2) as [e2 He2].
  change (snaps s1) with (snaps s0 ++ [data s0]) in He1.
  assert (HsB : snaps sB = (snaps s0 ++ [data s0]) ++ (e1 ++ e2) ++ []).
  { rewrite He2, He1, app_nil_r. now rewrite <- !app_assoc. }
  assert (Hnth : nth_error (snaps sB) (N.to_nat id) = Some (data s0)).
  { rewrite HsB. unfold id. rewrite Nat2N.id, <- !app_assoc.
    rewrite nth_error_app2 by lia. now rewrite Nat.sub_diag. }
  cbn [exec]. rewrite Hnth.
  eexists. split; [reflexivity|]. cbn [data steps snaps]. repeat (split; [reflexivity|]).
  set (s2 := {| data := data s0; snaps := snaps sB; steps := steps sB |}).
  assert (Hrel : replay_rel (snaps s0 ++ [data s0]) (e1 ++ e2) [] s1 s2).
  { split; [reflexivity|]. split; [cbn [snaps]; now rewrite app_nil_r|exact HsB]. }
  pose proof (run_replay sy _ _ h [] s1 s2 Hrel) as Hrep. rewrite Hh in Hrep.
  destruct Hrep as (sC & outsC & post' & Hrun & Houts & (Hd & _ & _)).
  exists sC, outsC.
  replace (id + 1) with (N.of_nat (length (snaps s0 ++ [data s0]))) by (rewrite app_length; cbn [length]; lia).
  replace delta with (N.of_nat (length (e1 ++ e2))).
  - split; [exact Hrun|]. split; [exact Houts|now symmetry].
  - unfold delta, id. rewrite HsB, !app_length. cbn [length]. lia.
Qed.
