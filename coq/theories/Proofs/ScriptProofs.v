(** * Proofs/ScriptProofs.v — generic facts about definition scripts (Spec/Script.v):
    a script accepted by the strict checker introduces every name once; evaluating
    it from a valuation that is right on the declared constants yields the
    intended valuation [tau] on every name, provided [tau] satisfies every
    definition ([eval_script_sound]). *)
From Coq Require Import List Bool Lia.
From Patronus Require Import Script SysExec Analysis McBasics.
Import ListNotations.
Open Scope N_scope.

Lemma mk_sym_is_symbol n t : is_symbol (mk_sym n t) = true.
Proof. destruct t; reflexivity. Qed.

Lemma mk_sym_type n t : type_of (mk_sym n t) = t.
Proof. destruct t; reflexivity. Qed.

Lemma mk_sym_inj n t n' t' : mk_sym n t = mk_sym n' t' -> n = n' /\ t = t'.
Proof. destruct t, t'; cbn [mk_sym]; intros H; inversion H; auto. Qed.

Lemma mk_sym_neq n t n' t' : n <> n' -> mk_sym n t <> mk_sym n' t'.
Proof. intros Hn H. apply mk_sym_inj in H. tauto. Qed.

(** ** contexts *)
Lemma script_check_app d xs ys :
  script_check d (xs ++ ys) = script_check d xs && script_check (script_decls d xs) ys.
Proof.
  revert d. induction xs as [|c r IH]; intros d; cbn [app script_check script_decls fold_left]; [reflexivity|].
  rewrite IH. unfold script_decls. now rewrite andb_assoc.
Qed.

Lemma script_decls_app d xs ys : script_decls d (xs ++ ys) = script_decls (script_decls d xs) ys.
Proof. unfold script_decls. apply fold_left_app. Qed.

Lemma script_decls_cons d c r : script_decls d (c :: r) = script_decls ((cmd_name c, cmd_ty c) :: d) r.
Proof. reflexivity. Qed.

Lemma lookup_cons n n' t d : lookup n ((n', t) :: d) = if String.eqb n' n then Some t else lookup n d.
Proof. reflexivity. Qed.

Lemma declared_false_lookup n d : declared n d = false <-> lookup n d = None.
Proof. unfold declared. destruct (lookup n d); split; congruence. Qed.

(** a name of an accepted script is not in the initial context *)
Lemma script_check_fresh d cs c :
  script_check d cs = true -> In c cs -> declared (cmd_name c) d = false.
Proof.
  revert d. induction cs as [|c0 r IH]; intros d Hc Hin; [destruct Hin|].
  cbn [script_check] in Hc. apply andb_true_iff in Hc. destruct Hc as [Hc0 Hr].
  destruct Hin as [->|Hin].
  - destruct c; cbn [cmd_ok cmd_name] in *; repeat (apply andb_true_iff in Hc0; destruct Hc0 as [Hc0 ?]);
      now apply negb_true_iff in Hc0.
  - specialize (IH _ Hr Hin). apply declared_false_lookup in IH. rewrite lookup_cons in IH.
    apply declared_false_lookup. destruct (String.eqb (cmd_name c0) (cmd_name c)); [discriminate|assumption].
Qed.

(** the names of an accepted script are pairwise distinct *)
Lemma script_check_nodup d cs : script_check d cs = true -> NoDup (map cmd_name cs).
Proof.
  revert d. induction cs as [|c r IH]; intros d Hc; [constructor|].
  cbn [script_check] in Hc. apply andb_true_iff in Hc. destruct Hc as [Hc0 Hr].
  cbn [map]. constructor; [|now apply (IH _ Hr)].
  intros Hin. apply in_map_iff in Hin. destruct Hin as (c' & Hn & Hin).
  pose proof (script_check_fresh _ _ _ Hr Hin) as Hf. apply declared_false_lookup in Hf.
  rewrite lookup_cons, Hn, String.eqb_refl in Hf. discriminate.
Qed.

(** ** evaluation *)
(** [s] and [t] agree on every name of the context, at its sort *)
Definition agree_ctx (d : decls) (s t : env) : Prop :=
  forall n ty, lookup n d = Some ty -> agree_on (mk_sym n ty) s t.

Lemma syms_ok_symbols d e x :
  syms_ok d e = true -> In x (symbols_of e) -> exists n ty, x = mk_sym n ty /\ lookup n d = Some ty.
Proof.
  induction e; cbn [syms_ok symbols_of]; intros H Hin;
    repeat match goal with
           | H : _ && _ = true |- _ => apply andb_true_iff in H; destruct H
           end;
    repeat (rewrite in_app_iff in Hin);
    try (destruct Hin as [Hin|Hin]; [|destruct Hin]);
    try (now destruct Hin);
    try (repeat match goal with H : _ \/ _ |- _ => destruct H end; eauto; fail).
  - subst. unfold sym_ok in H. destruct (lookup name d) as [t'|] eqn:E; [|discriminate].
    apply ty_eqb_eq in H. subst. exists name, (TBV w). auto.
  - subst. unfold sym_ok in H. destruct (lookup name d) as [t'|] eqn:E; [|discriminate].
    apply ty_eqb_eq in H. subst. exists name, (TArr iw dw). auto.
Qed.

Lemma syms_ok_coincide d e s t : syms_ok d e = true -> agree_ctx d s t -> same_val s e t e.
Proof.
  intros Hok Hag. apply coincidence. intros x Hin.
  destruct (syms_ok_symbols _ _ _ Hok Hin) as (n & ty & -> & Hl). now apply Hag.
Qed.

(** [tau] satisfies every definition of the script *)
Definition satisfies (tau : env) (cs : list cmd) : Prop :=
  forall n t b, In (DefineFun n t b) cs -> same_val tau (mk_sym n t) tau b.

Lemma same_val_agree n ty s t : same_val s (mk_sym n ty) t (mk_sym n ty) <-> agree_on (mk_sym n ty) s t.
Proof.
  destruct ty; cbn [mk_sym agree_on]; unfold same_val; cbn [ebv earr]; split; intros H;
    try tauto; try (split; auto; fail); try (destruct H; auto; fail).
Qed.

Lemma assign_sym_val rho n t src b : same_val (assign rho (mk_sym n t) src b) (mk_sym n t) src b \/ True.
Proof. right; exact I. Qed.

Lemma agree_on_assign_same n ty rho src b tau :
  ty_eqb (type_of b) ty = true -> wt b = true ->
  same_val src b tau b -> same_val tau (mk_sym n ty) tau b ->
  agree_on (mk_sym n ty) (assign rho (mk_sym n ty) src b) tau.
Proof.
  intros _ _ [Hb Ha] [Hb' Ha']. destruct ty; cbn [mk_sym agree_on].
  - rewrite assign_bv_same. cbn [mk_sym ebv] in Hb'. congruence.
  - intros i. rewrite assign_arr_same. cbn [mk_sym earr] in Ha'. now rewrite Ha, Ha'.
Qed.

Theorem eval_script_sound tau : forall cs d sigma,
  script_check d cs = true ->
  agree_ctx d sigma tau ->
  (forall n t, In (DeclareConst n t) cs -> agree_on (mk_sym n t) sigma tau) ->
  satisfies tau cs ->
  agree_ctx (script_decls d cs) (script_eval sigma cs) tau.
Proof.
  induction cs as [|c r IH]; intros d sigma Hc Hag Hdecl Hsat; [exact Hag|].
  pose proof Hc as Hc0. cbn [script_check] in Hc. apply andb_true_iff in Hc. destruct Hc as [Hok Hr].
  rewrite script_decls_cons.
  destruct c as [n t|n t b]; cbn [script_eval cmd_name cmd_ty] in *.
  - apply IH; [assumption| | |].
    + intros m ty Hl. rewrite lookup_cons in Hl. destruct (String.eqb_spec n m) as [->|Hne].
      * inversion Hl; subst. apply Hdecl. now left.
      * now apply Hag.
    + intros m ty Hin. apply Hdecl. now right.
    + intros m ty b Hin. apply Hsat. now right.
  - cbn [cmd_ok] in Hok. repeat (apply andb_true_iff in Hok; destruct Hok as [Hok ?]).
    assert (Hb : same_val sigma b tau b) by (eapply syms_ok_coincide; eassumption).
    apply IH; [assumption| | |].
    + intros m ty Hl. rewrite lookup_cons in Hl. destruct (String.eqb_spec n m) as [->|Hne].
      * inversion Hl; subst. apply agree_on_assign_same; try assumption. apply Hsat. now left.
      * eapply agree_on_trans; [|now apply Hag].
        apply assign_other; [apply mk_sym_is_symbol|]. apply mk_sym_neq. congruence.
    + intros m ty Hin.
      assert (Hf : declared m ((n, t) :: d) = false)
        by (apply (script_check_fresh _ _ (DeclareConst m ty) Hr Hin)).
      apply declared_false_lookup in Hf. rewrite lookup_cons in Hf.
      destruct (String.eqb_spec n m) as [->|Hne]; [discriminate|].
      eapply agree_on_trans; [|apply Hdecl; now right].
      apply assign_other; [apply mk_sym_is_symbol|]. apply mk_sym_neq. congruence.
    + intros m ty b' Hin. apply Hsat. now right.
Qed.

(** what is in the context stays there *)
Lemma lookup_preserved n t : forall r d,
  script_check d r = true -> lookup n d = Some t -> lookup n (script_decls d r) = Some t.
Proof.
  induction r as [|c1 r IH]; intros d Hr Hl; [exact Hl|].
  cbn [script_check] in Hr. apply andb_true_iff in Hr. destruct Hr as [Hc1 Hr].
  rewrite script_decls_cons. apply IH; [assumption|]. rewrite lookup_cons.
  destruct (String.eqb_spec (cmd_name c1) n) as [E|]; [|assumption].
  exfalso. assert (H : declared (cmd_name c1) d = false).
  { destruct c1; cbn [cmd_ok cmd_name] in *; repeat (apply andb_true_iff in Hc1; destruct Hc1 as [Hc1 ?]);
      now apply negb_true_iff in Hc1. }
  apply declared_false_lookup in H. rewrite E, Hl in H. discriminate.
Qed.

(** every name of the script is in the final context, with its sort *)
Lemma script_decls_lookup : forall cs d c,
  script_check d cs = true -> In c cs -> lookup (cmd_name c) (script_decls d cs) = Some (cmd_ty c).
Proof.
  induction cs as [|c0 r IH]; intros d c Hc Hin; [destruct Hin|].
  cbn [script_check] in Hc. apply andb_true_iff in Hc. destruct Hc as [Hc0 Hr].
  rewrite script_decls_cons. destruct Hin as [->|Hin]; [|now apply IH].
  apply lookup_preserved; [assumption|]. now rewrite lookup_cons, String.eqb_refl.
Qed.

(** the conclusion of [eval_script_sound] for one command of the script *)
Corollary eval_script_sound_cmd tau cs sigma c :
  script_check [] cs = true ->
  (forall n t, In (DeclareConst n t) cs -> agree_on (mk_sym n t) sigma tau) ->
  satisfies tau cs ->
  In c cs ->
  agree_on (mk_sym (cmd_name c) (cmd_ty c)) (script_eval sigma cs) tau.
Proof.
  intros Hc Hd Hs Hin.
  apply (eval_script_sound tau cs [] sigma Hc); try assumption.
  - intros n ty Hl. discriminate.
  - now apply script_decls_lookup.
Qed.
