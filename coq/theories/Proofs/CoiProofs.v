(** * Proofs/CoiProofs.v — lemmas for property C17 (cone of influence).

    1. structural equality [expr_eqb] decides equality;
    2. [subexprs], induction over [children];
    3. [eval_ext]: the value of an expression depends only on the symbols occurring in it;
    4. the state map / input set lookups of the model against list membership;
    5. the worklist: invariants, result = reachability closure, fuel suffices;
    6. the semantics: [init_seq], [next_env], [run_from] preserve agreement on the reachable
       symbols; sufficiency of the three cones; perturbation forms. *)
From Coq Require Import Lia.
From Patronus Require Import Coi.
Open Scope N_scope.

(** ** 1. [expr_eqb] *)
Lemma expr_eqb_refl x : expr_eqb x x = true.
Proof.
  induction x; cbn [expr_eqb];
    rewrite ?IHx, ?IHx1, ?IHx2, ?IHx3, ?String.eqb_refl, ?N.eqb_refl; reflexivity.
Qed.

Lemma expr_eqb_eq x : forall y, expr_eqb x y = true -> x = y.
Proof.
  induction x; intros y H; destruct y; cbn [expr_eqb] in H; try discriminate H;
    repeat (apply andb_prop in H; let H' := fresh "H" in destruct H as [H H']);
    repeat match goal with
           | H0 : String.eqb _ _ = true |- _ => apply String.eqb_eq in H0
           | H0 : (_ =? _) = true |- _ => apply N.eqb_eq in H0
           | IH : forall y, expr_eqb ?a y = true -> ?a = y, H0 : expr_eqb ?a _ = true |- _ => apply IH in H0
           end; subst; reflexivity.
Qed.

Lemma expr_eqb_iff x y : expr_eqb x y = true <-> x = y.
Proof. split; [apply expr_eqb_eq | intros ->; apply expr_eqb_refl]. Qed.

Lemma expr_eqb_false x y : expr_eqb x y = false <-> x <> y.
Proof.
  split.
  - intros H E. subst. rewrite expr_eqb_refl in H. discriminate.
  - intros H. destruct (expr_eqb x y) eqn:E; [|reflexivity]. apply expr_eqb_eq in E. contradiction.
Qed.

Lemma expr_eq_dec (x y : expr) : {x = y} + {x <> y}.
Proof.
  destruct (expr_eqb x y) eqn:E; [left; now apply expr_eqb_eq | right; now apply expr_eqb_false].
Qed.

Lemma mem_In e l : mem e l = true <-> In e l.
Proof.
  unfold mem. rewrite existsb_exists. split.
  - intros (x & Hx & He). apply expr_eqb_eq in He. now subst.
  - intros H. exists e. split; [assumption | apply expr_eqb_refl].
Qed.

Lemma mem_false e l : mem e l = false <-> ~ In e l.
Proof. rewrite <- mem_In. destruct (mem e l); intuition congruence. Qed.

(** ** 2. sub-expressions *)
Lemma subexprs_unfold e : subexprs e = e :: flat_map subexprs (children e).
Proof. destruct e; cbn [subexprs children flat_map]; rewrite ?app_nil_r; reflexivity. Qed.

Lemma expr_children_ind (P : expr -> Prop) :
  (forall e, (forall c, In c (children e) -> P c) -> P e) -> forall e, P e.
Proof.
  intros H. induction e; apply H; cbn [children]; intros c Hc; cbn [In] in Hc;
    intuition (subst; assumption).
Qed.

Lemma subexprs_self e : In e (subexprs e).
Proof. rewrite subexprs_unfold. now left. Qed.

Lemma subexprs_child e c s : In c (children e) -> In s (subexprs c) -> In s (subexprs e).
Proof.
  intros Hc Hs. rewrite subexprs_unfold. right. apply in_flat_map. now exists c.
Qed.

Lemma subexprs_trans r : forall x c, In x (subexprs r) -> In c (subexprs x) -> In c (subexprs r).
Proof.
  induction r as [r IH] using expr_children_ind. intros x c Hx Hc.
  rewrite subexprs_unfold in Hx. destruct Hx as [<- | Hx]; [assumption|].
  apply in_flat_map in Hx. destruct Hx as (k & Hk & Hxk).
  apply (subexprs_child r k c Hk). now apply (IH k Hk x c).
Qed.

Lemma children_le_3 e : (length (children e) <= 3)%nat.
Proof. destruct e; cbn; lia. Qed.

(** ** 3. evaluation depends only on the symbols that occur *)
Lemma forallb_N_ext n p q : (forall i, p i = q i) -> forallb_N n p = forallb_N n q.
Proof.
  intros H. unfold forallb_N. induction n as [|n IH] using N.peano_ind.
  - reflexivity.
  - rewrite !N.recursion_succ; try reflexivity; try (intros ? ? -> ? ? ->; reflexivity).
    now rewrite IH, H.
Qed.

Lemma arr_eqb_ext iw f f' g g' :
  (forall i, f i = f' i) -> (forall i, g i = g' i) -> arr_eqb iw f g = arr_eqb iw f' g'.
Proof. intros Hf Hg. unfold arr_eqb. apply forallb_N_ext. intros i. now rewrite Hf, Hg. Qed.

Local Ltac ext_rw r1 r2 :=
  repeat match goal with Hq : ebv r1 ?a = ebv r2 ?a |- _ => try rewrite Hq; clear Hq end.
Local Ltac ext_arr r1 :=
  match goal with Hx : forall i, earr r1 ?a i = _ |- earr r1 ?a _ = _ => apply Hx end.

Lemma eval_ext r1 r2 e :
  (forall s, In s (subexprs e) -> agree_on s r1 r2) -> same_value e r1 r2.
Proof.
  unfold same_value.
  induction e; intros H;
    repeat match goal with
           | IH : (forall s, In s (subexprs ?a) -> agree_on s r1 r2) -> _ |- _ =>
               let Ht := fresh "Ht" in
               assert (Ht : forall s, In s (subexprs a) -> agree_on s r1 r2)
                 by (intros s Hs; apply H; cbn [subexprs]; right; rewrite ?in_app_iff; auto);
               let Hb := fresh "Hb" in let Ha := fresh "Ha" in
               destruct (IH Ht) as [Hb Ha]; clear IH Ht
           end;
    (split;
     [ cbn [ebv]; ext_rw r1 r2;
       first [ reflexivity
             | exact (H _ (subexprs_self _))
             | (f_equal; apply arr_eqb_ext; assumption)
             | ext_arr r1 ]
     | intros i; cbn [earr]; ext_rw r1 r2;
       first [ reflexivity
             | exact (H _ (subexprs_self _) i)
             | (unfold arr_store; destruct (_ =? _); [reflexivity | ext_arr r1])
             | (destruct (_ =? 1); ext_arr r1) ] ]).
Qed.

(** ** 4. the lookups of the model against list membership *)
Lemma mem_cons a e l : mem a (e :: l) = expr_eqb a e || mem a l.
Proof. reflexivity. Qed.

Lemma find_state_in sts e st : find_state sts e = Some st -> In st sts /\ st_sym st = e.
Proof.
  induction sts as [|a r IH]; cbn [find_state]; [discriminate|].
  destruct (find_state r e) as [x|] eqn:E.
  - intros H. inversion H; subst x. destruct (IH eq_refl) as [Hin Hs]. split; [now right | assumption].
  - destruct (expr_eqb (st_sym a) e) eqn:Eq; [|discriminate].
    intros H. inversion H; subst a. split; [now left | now apply expr_eqb_eq].
Qed.

Lemma find_state_some_of_in sts e st :
  In st sts -> st_sym st = e -> exists st', find_state sts e = Some st'.
Proof.
  induction sts as [|a r IH]; intros Hin Hs; [destruct Hin|].
  cbn [find_state]. destruct (find_state r e) as [x|] eqn:E; [now exists x|].
  destruct Hin as [-> | Hin].
  - subst e. rewrite expr_eqb_refl. now exists st.
  - destruct (IH Hin Hs) as (x & Hx). discriminate Hx.
Qed.

Lemma find_state_distinct sts st :
  NoDup (map st_sym sts) -> In st sts -> find_state sts (st_sym st) = Some st.
Proof.
  induction sts as [|a r IH]; intros Hnd Hin; [destruct Hin|].
  cbn [map] in Hnd. inversion Hnd as [|x l Hnotin Hnd']; subst x l.
  cbn [find_state]. destruct Hin as [-> | Hin].
  - destruct (find_state r (st_sym st)) as [x|] eqn:E.
    + exfalso. apply find_state_in in E. destruct E as [Hx Hs]. apply Hnotin.
      rewrite <- Hs. now apply in_map.
    + now rewrite expr_eqb_refl.
  - now rewrite (IH Hnd' Hin).
Qed.

Lemma is_state_sym_iff sy s : is_state_sym sy s = true <-> exists st, has_state sy s st.
Proof.
  unfold is_state_sym, has_state. split.
  - destruct (find_state (s_states sy) s) as [st|] eqn:E; [|discriminate].
    intros _. exists st. now apply find_state_in.
  - intros (st & Hin & Hs). destruct (find_state_some_of_in _ _ _ Hin Hs) as (x & ->). reflexivity.
Qed.

Lemma is_sys_sym_iff sy s :
  is_sys_sym sy s = true <-> (In s (s_inputs sy) \/ exists st, has_state sy s st).
Proof.
  unfold is_sys_sym, is_input. rewrite orb_true_iff, is_state_sym_iff, mem_In. tauto.
Qed.

Lemma reported_iff sy s : reported sy s = true <-> sys_symbol sy s.
Proof. unfold reported, sys_symbol. now rewrite andb_true_iff, is_sys_sym_iff. Qed.

Lemma in_state_links v sy e c :
  In c (state_links v sy e) <->
  exists st, find_state (s_states sy) e = Some st /\
             ((follow_init v = true /\ st_init st = Some c) \/
              (follow_next v = true /\ st_next st = Some c)).
Proof.
  unfold state_links. destruct (find_state (s_states sy) e) as [st|] eqn:E.
  - rewrite in_app_iff. split.
    + intros [H|H]; exists st; (split; [reflexivity|]); [left|right].
      * destruct (follow_init v); [|destruct H]. destruct (st_init st); cbn in H; [|destruct H].
        destruct H as [<-|[]]. now split.
      * destruct (follow_next v); [|destruct H]. destruct (st_next st); cbn in H; [|destruct H].
        destruct H as [<-|[]]. now split.
    + intros (st' & Hst & [[Hf Hi]|[Hf Hn]]); inversion Hst; subst st'; [left|right].
      * rewrite Hf, Hi. now left.
      * rewrite Hf, Hn. now left.
  - split; [intros [] | intros (st & H & _); discriminate].
Qed.

(** model-level reachability (through [succs]) and its relation to the specification *)
Inductive mreach (v : variant) (sy : sys) (root : expr) : expr -> Prop :=
| mreach_root : mreach v sy root root
| mreach_step e c : mreach v sy root e -> In c (succs v sy e) -> mreach v sy root c.

Lemma succs_dep v sy e c : In c (succs v sy e) -> dep v sy e c.
Proof.
  unfold succs. rewrite in_app_iff, in_state_links.
  intros [H | (st & Hf & [[Hv Hi]|[Hv Hn]])].
  - now apply dep_child.
  - apply find_state_in in Hf. now apply (dep_init v sy e st c).
  - apply find_state_in in Hf. now apply (dep_next v sy e st c).
Qed.

Lemma dep_succs v sy e c : states_distinct sy -> dep v sy e c -> In c (succs v sy e).
Proof.
  intros Hnd H. unfold succs. rewrite in_app_iff, in_state_links.
  destruct H as [c Hc | st c Hv [Hin Hs] Hi | st c Hv [Hin Hs] Hn].
  - now left.
  - right. exists st. subst e. split; [now apply find_state_distinct | left; now split].
  - right. exists st. subst e. split; [now apply find_state_distinct | right; now split].
Qed.

Lemma mreach_reach v sy root e : mreach v sy root e -> reach v sy root e.
Proof.
  induction 1 as [|e c _ IH Hc]; [apply reach_root|]. apply (reach_step v sy root e c IH).
  now apply succs_dep.
Qed.

Lemma reach_mreach v sy root e : states_distinct sy -> reach v sy root e -> mreach v sy root e.
Proof.
  intros Hnd. induction 1 as [|e c _ IH Hc]; [apply mreach_root|].
  apply (mreach_step v sy root e c IH). now apply dep_succs.
Qed.

(** ** 5. the worklist *)
Section Loop.
  Variable v : variant.
  Variable sy : sys.
  Variable root : expr.

  Record inv (todo visited out : list expr) : Prop := {
    inv_todo : forall x, In x todo -> mreach v sy root x;
    inv_vis : forall x, In x visited -> mreach v sy root x;
    inv_closed : forall e c, In e visited -> In c (succs v sy e) -> In c visited \/ In c todo;
    inv_root : In root visited \/ In root todo;
    inv_out : out = filter (reported sy) visited;
    inv_nodup : NoDup visited }.

  Lemma inv_start : inv [root] [] [].
  Proof.
    split.
    - intros x [<-|[]]. apply mreach_root.
    - intros x [].
    - intros e c [].
    - right. now left.
    - reflexivity.
    - constructor.
  Qed.

  Lemma inv_skip e rest visited out :
    mem e visited = true -> inv (e :: rest) visited out -> inv rest visited out.
  Proof.
    intros Hm [Ht Hv Hc Hr Ho Hn]. apply mem_In in Hm. split; try assumption.
    - intros x Hx. apply Ht. now right.
    - intros e0 c He0 Hc0. destruct (Hc e0 c He0 Hc0) as [H|[<-|H]]; auto.
    - destruct Hr as [H|[<-|H]]; auto.
  Qed.

  Lemma inv_visit e rest visited out :
    mem e visited = false -> inv (e :: rest) visited out ->
    inv (rev (filter (fun c => negb (mem c visited)) (succs v sy e)) ++ rest) (e :: visited)
        (if reported sy e then e :: out else out).
  Proof.
    intros Hm [Ht Hv Hc Hr Ho Hn].
    assert (He : mreach v sy root e) by (apply Ht; now left).
    split.
    - intros x Hx. apply in_app_iff in Hx. destruct Hx as [Hx|Hx].
      + apply in_rev in Hx. apply filter_In in Hx. destruct Hx as [Hx _].
        now apply (mreach_step v sy root e x).
      + apply Ht. now right.
    - intros x [<-|Hx]; [assumption | now apply Hv].
    - intros e0 c [<-|He0] Hc0.
      + destruct (mem c visited) eqn:Emc.
        * left. right. now apply mem_In.
        * right. apply in_app_iff. left. apply in_rev. rewrite rev_involutive.
          apply filter_In. split; [assumption | now rewrite Emc].
      + destruct (Hc e0 c He0 Hc0) as [H|[<-|H]].
        * left. now right.
        * left. now left.
        * right. apply in_app_iff. now right.
    - destruct Hr as [H|[<-|H]].
      + left. now right.
      + left. now left.
      + right. apply in_app_iff. now right.
    - cbn [filter]. destruct (reported sy e); now subst out.
    - constructor; [now apply mem_false | assumption].
  Qed.

  Lemma loop_inv fuel : forall todo visited out V O,
    coi_loop fuel v sy todo visited out = Some (V, O) -> inv todo visited out -> inv [] V O.
  Proof.
    induction fuel as [|fuel IH]; intros todo visited out V O; cbn [coi_loop]; [discriminate|].
    destruct todo as [|e rest].
    - intros H Hinv. inversion H; subst. assumption.
    - destruct (mem e visited) eqn:Em; intros H Hinv.
      + apply (IH _ _ _ _ _ H). now apply (inv_skip e).
      + apply (IH _ _ _ _ _ H). now apply inv_visit.
  Qed.

  Lemma inv_final V O : inv [] V O -> forall x, In x V <-> mreach v sy root x.
  Proof.
    intros [Ht Hv Hc Hr Ho Hn] x. split; [apply Hv|].
    induction 1 as [|e c _ IH Hc0].
    - destruct Hr as [H|[]]. assumption.
    - destruct (Hc e c IH Hc0) as [H|[]]. assumption.
  Qed.

  (** the result of the model: exactly the reported members of the model-level closure *)
  Lemma coi_opt_spec C :
    coi_opt v sy root = Some C ->
    (forall s, In s C <-> mreach v sy root s /\ reported sy s = true) /\ NoDup C.
  Proof.
    unfold coi_opt. destruct (coi_loop (coi_fuel sy root) v sy [root] [] []) as [[V O]|] eqn:E; [|discriminate].
    intros H. inversion H; subst C. clear H.
    pose proof (loop_inv _ _ _ _ _ _ E inv_start) as Hinv.
    pose proof (inv_final _ _ Hinv) as Hfin.
    destruct Hinv as [_ _ _ _ Ho Hn]. subst O. split.
    - intros s. rewrite <- in_rev, filter_In, Hfin. reflexivity.
    - apply NoDup_rev. now apply NoDup_filter.
  Qed.

  (** *** fuel *)
  Definition unvis (U visited : list expr) : list expr :=
    filter (fun x => negb (mem x visited)) U.

  Lemma filter_len_le {A} (p : A -> bool) l : (length (filter p l) <= length l)%nat.
  Proof. induction l as [|a l IH]; cbn; [lia|]. destruct (p a); cbn; lia. Qed.

  Lemma unvis_le U visited e : (length (unvis U (e :: visited)) <= length (unvis U visited))%nat.
  Proof.
    induction U as [|a U IH]; cbn [unvis filter]; [lia|]. fold (unvis U (e :: visited)) (unvis U visited).
    rewrite mem_cons. destruct (expr_eqb a e); cbn [orb negb].
    - destruct (mem a visited); cbn [negb length]; lia.
    - destruct (mem a visited); cbn [negb length]; lia.
  Qed.

  Lemma unvis_lt U visited e :
    In e U -> mem e visited = false ->
    (length (unvis U (e :: visited)) < length (unvis U visited))%nat.
  Proof.
    intros Hin Hm. induction U as [|a U IH]; [destruct Hin|].
    cbn [unvis filter]. fold (unvis U (e :: visited)) (unvis U visited). rewrite mem_cons.
    destruct Hin as [->|Hin].
    - rewrite expr_eqb_refl, Hm. cbn [orb negb length]. pose proof (unvis_le U visited e). lia.
    - specialize (IH Hin). destruct (expr_eqb a e); cbn [orb negb].
      + destruct (mem a visited); cbn [negb length]; lia.
      + destruct (mem a visited); cbn [negb length]; lia.
  Qed.

  Lemma succs_le_5 e : (length (succs v sy e) <= 5)%nat.
  Proof.
    unfold succs, state_links. rewrite app_length. pose proof (children_le_3 e).
    destruct (find_state (s_states sy) e) as [st|]; [|cbn; lia].
    rewrite app_length.
    destruct (follow_init v), (follow_next v), (st_init st), (st_next st); cbn; lia.
  Qed.

  Lemma loop_total U :
    (forall x c, In x U -> In c (succs v sy x) -> In c U) ->
    forall fuel todo visited out,
      (forall x, In x todo -> In x U) ->
      (length todo + 5 * length (unvis U visited) < fuel)%nat ->
      coi_loop fuel v sy todo visited out <> None.
  Proof.
    intros Hcl. induction fuel as [|fuel IH]; intros todo visited out Hsub Hlt; [lia|].
    cbn [coi_loop]. destruct todo as [|e rest]; [discriminate|].
    destruct (mem e visited) eqn:Em.
    - apply IH.
      + intros x Hx. apply Hsub. now right.
      + cbn [length] in Hlt. lia.
    - apply IH.
      + intros x Hx. apply in_app_iff in Hx. destruct Hx as [Hx|Hx].
        * apply in_rev in Hx. apply filter_In in Hx. destruct Hx as [Hx _].
          apply (Hcl e x); [apply Hsub; now left | assumption].
        * apply Hsub. now right.
      + rewrite app_length, rev_length.
        pose proof (filter_len_le (fun c => negb (mem c visited)) (succs v sy e)) as H1.
        pose proof (succs_le_5 e) as H2.
        assert (H3 : In e U) by (apply Hsub; now left).
        pose proof (unvis_lt U visited e H3 Em) as H4.
        cbn [length] in Hlt. lia.
  Qed.

  Lemma universe_state st k c :
    In st (s_states sy) -> In k (state_exprs st) -> In c (subexprs k) -> In c (universe sy root).
  Proof.
    intros Hst Hk Hc. unfold universe. apply in_app_iff. right.
    apply in_flat_map. exists st. split; [assumption|]. apply in_flat_map. now exists k.
  Qed.

  Lemma universe_closed x c :
    In x (universe sy root) -> In c (succs v sy x) -> In c (universe sy root).
  Proof.
    intros Hx Hc. unfold succs in Hc. apply in_app_iff in Hc. destruct Hc as [Hc|Hc].
    - assert (Hcx : In c (subexprs x)) by (apply (subexprs_child x c c Hc); apply subexprs_self).
      unfold universe in Hx. apply in_app_iff in Hx. destruct Hx as [Hx|Hx].
      + unfold universe. apply in_app_iff. left. now apply (subexprs_trans root x c).
      + apply in_flat_map in Hx. destruct Hx as (st & Hst & Hx).
        apply in_flat_map in Hx. destruct Hx as (k & Hk & Hx).
        apply (universe_state st k c Hst Hk). now apply (subexprs_trans k x c).
    - apply in_state_links in Hc. destruct Hc as (st & Hf & Hl).
      apply find_state_in in Hf. destruct Hf as [Hst _].
      apply (universe_state st c c Hst); [|apply subexprs_self].
      unfold state_exprs. apply in_app_iff.
      destruct Hl as [[_ Hi]|[_ Hn]]; [left; rewrite Hi | right; rewrite Hn]; now left.
  Qed.

  Lemma coi_opt_total : coi_opt v sy root <> None.
  Proof.
    unfold coi_opt.
    destruct (coi_loop (coi_fuel sy root) v sy [root] [] []) as [[V O]|] eqn:E; [discriminate|].
    exfalso. revert E. apply (loop_total (universe sy root)).
    - intros x c. apply universe_closed.
    - intros x [<-|[]]. unfold universe. apply in_app_iff. left. apply subexprs_self.
    - unfold coi_fuel. pose proof (filter_len_le (fun x => negb (mem x [])) (universe sy root)) as H.
      unfold unvis. cbn [length]. lia.
  Qed.
End Loop.

(** ** 6. semantics *)
Lemma agree_on_nonsym s r1 r2 : is_symbol s = false -> agree_on s r1 r2.
Proof. destruct s; cbn; intros H; try exact I; discriminate H. Qed.

Lemma agree_on_refl s r : agree_on s r r.
Proof. destruct s; cbn; try exact I; reflexivity. Qed.

(** assigning the value of [e] to symbol [t] on both sides *)
Lemma agree_on_assign s t ra rb ra' rb' e :
  (s = t -> same_value e ra' rb') -> (s <> t -> agree_on s ra rb) ->
  agree_on s (assign ra t ra' e) (assign rb t rb' e).
Proof.
  intros Heq Hne. destruct (is_symbol s) eqn:Es; [|now apply agree_on_nonsym].
  destruct s; try discriminate Es; clear Es.
  - (* s bit-vector symbol *)
    destruct t; cbn [assign]; try (apply Hne; discriminate).
    cbn [agree_on upd_bv rho_bv].
    destruct (String.eqb name name0 && (w =? w0)) eqn:E.
    + apply andb_prop in E. destruct E as [E1 E2]. apply String.eqb_eq in E1. apply N.eqb_eq in E2.
      subst. now destruct (Heq eq_refl).
    + apply Hne. intros H. inversion H; subst. now rewrite String.eqb_refl, N.eqb_refl in E.
  - (* s array symbol *)
    destruct t; cbn [assign]; try (apply Hne; discriminate).
    cbn [agree_on upd_arr rho_arr]. intros i.
    destruct (String.eqb name name0 && (iw =? iw0) && (dw =? dw0)) eqn:E.
    + apply andb_prop in E. destruct E as [E E3]. apply andb_prop in E. destruct E as [E1 E2].
      apply String.eqb_eq in E1. apply N.eqb_eq in E2. apply N.eqb_eq in E3.
      subst. destruct (Heq eq_refl) as [_ H]. apply H.
    + assert (Hd : ArraySymbol name iw dw <> ArraySymbol name0 iw0 dw0).
      { intros H. inversion H; subst. now rewrite String.eqb_refl, !N.eqb_refl in E. }
      apply (Hne Hd).
Qed.

Definition has_next_b (sy : sys) (s : expr) : bool :=
  existsb (fun st => expr_eqb (st_sym st) s && is_some (st_next st)) (s_states sy).

Lemma has_next_b_iff sy s : has_next_b sy s = true <-> has_next sy s.
Proof.
  unfold has_next_b, has_next, has_state. rewrite existsb_exists. split.
  - intros (st & Hin & H). apply andb_prop in H. destruct H as [H1 H2]. apply expr_eqb_eq in H1.
    destruct (st_next st) as [e|] eqn:En; [|discriminate]. exists st, e. auto.
  - intros (st & e & [Hin Hs] & Hn). exists st. split; [assumption|].
    subst s. now rewrite expr_eqb_refl, Hn.
Qed.

Section Sem.
  Variable v : variant.
  Variable sy : sys.
  Variable root : expr.

  (** agreement on everything reachable from the root *)
  Definition agreeR (r1 r2 : env) : Prop := forall s, reach v sy root s -> agree_on s r1 r2.

  Lemma reach_subexprs e : reach v sy root e -> forall s, In s (subexprs e) -> reach v sy root s.
  Proof.
    induction e as [e IH] using expr_children_ind. intros Hr s Hs.
    rewrite subexprs_unfold in Hs. destruct Hs as [<-|Hs]; [assumption|].
    apply in_flat_map in Hs. destruct Hs as (k & Hk & Hs).
    apply (IH k Hk); [|assumption]. apply (reach_step v sy root e k Hr). now apply dep_child.
  Qed.

  Lemma reach_same_value e r1 r2 : reach v sy root e -> agreeR r1 r2 -> same_value e r1 r2.
  Proof.
    intros Hr Ha. apply eval_ext. intros s Hs. apply Ha. now apply (reach_subexprs e).
  Qed.

  (** *** initialisation *)
  Definition init_step (rho : env) (st : state) : env :=
    match st_init st with Some e => assign rho (st_sym st) rho e | None => rho end.

  Lemma init_fold_agree (Hfi : follow_init v = true) l :
    (forall st, In st l -> In st (s_states sy)) ->
    forall r1 r2, agreeR r1 r2 -> agreeR (fold_left init_step l r1) (fold_left init_step l r2).
  Proof.
    induction l as [|a l IH]; intros Hsub r1 r2 Ha; [exact Ha|].
    cbn [fold_left]. apply IH; [intros st Hst; apply Hsub; now right|].
    unfold init_step. destruct (st_init a) as [e|] eqn:Ei; [|exact Ha].
    intros s Hs. apply agree_on_assign.
    - intros ->. apply reach_same_value; [|exact Ha].
      apply (reach_step v sy root (st_sym a) e Hs).
      apply (dep_init v sy (st_sym a) a e Hfi); [|exact Ei]. split; [apply Hsub; now left | reflexivity].
    - intros _. now apply Ha.
  Qed.

  Lemma init_seq_agree (Hfi : follow_init v = true) r1 r2 :
    agreeR r1 r2 -> agreeR (init_seq sy r1) (init_seq sy r2).
  Proof. intros Ha. apply (init_fold_agree Hfi (s_states sy)); [auto | exact Ha]. Qed.

  (** *** one step *)
  Definition next_step (rho acc : env) (st : state) : env :=
    match st_next st with Some e => assign acc (st_sym st) rho e | None => acc end.

  Lemma next_fold_agree (Hfn : follow_next v = true) r1 r2 (Ha : agreeR r1 r2) l :
    (forall st, In st l -> In st (s_states sy)) ->
    forall a1 a2,
      (forall s, reach v sy root s ->
                 agree_on s a1 a2 \/ exists st e, In st l /\ st_sym st = s /\ st_next st = Some e) ->
      agreeR (fold_left (next_step r1) l a1) (fold_left (next_step r2) l a2).
  Proof.
    induction l as [|a l IH]; intros Hsub a1 a2 Hinv.
    - intros s Hs. destruct (Hinv s Hs) as [H|(st & e & [] & _)]. exact H.
    - cbn [fold_left]. apply IH; [intros st Hst; apply Hsub; now right|].
      intros s Hs. unfold next_step. destruct (st_next a) as [e|] eqn:En.
      + destruct (expr_eq_dec s (st_sym a)) as [Heq|Hne].
        * left. apply agree_on_assign; [|intros H; contradiction].
          intros _. apply reach_same_value; [|exact Ha].
          apply (reach_step v sy root s e Hs).
          apply (dep_next v sy s a e Hfn); [|exact En]. split; [apply Hsub; now left | now symmetry].
        * destruct (Hinv s Hs) as [H|(st & e' & [<-|Hin] & Hsym & Hn)].
          -- left. apply agree_on_assign; [intros H0; contradiction | intros _; exact H].
          -- exfalso. now apply Hne.
          -- right. now exists st, e'.
      + destruct (Hinv s Hs) as [H|(st & e' & [<-|Hin] & Hsym & Hn)].
        * now left.
        * rewrite En in Hn. discriminate.
        * right. now exists st, e'.
  Qed.

  (** the free valuations agree on the reachable symbols that [next_env] does not overwrite *)
  Definition agreeF (f1 f2 : env) : Prop :=
    forall s, reach v sy root s -> ~ has_next sy s -> agree_on s f1 f2.

  Lemma next_env_agree (Hfn : follow_next v = true) r1 r2 f1 f2 :
    agreeR r1 r2 -> agreeF f1 f2 -> agreeR (next_env sy r1 f1) (next_env sy r2 f2).
  Proof.
    intros Ha Hf. apply (next_fold_agree Hfn r1 r2 Ha (s_states sy)); [auto|].
    intros s Hs. destruct (has_next_b sy s) eqn:E.
    - right. apply has_next_b_iff in E. destruct E as (st & e & [Hin Hsym] & Hn). now exists st, e.
    - left. apply Hf; [exact Hs|]. intros H. apply has_next_b_iff in H. rewrite H in E. discriminate.
  Qed.

  Lemma run_agree (Hfn : follow_next v = true) fs1 fs2 :
    Forall2 agreeF fs1 fs2 ->
    forall r1 r2, agreeR r1 r2 -> Forall2 agreeR (run_from sy r1 fs1) (run_from sy r2 fs2).
  Proof.
    induction 1 as [|f1 f2 fs1 fs2 Hf _ IH]; intros r1 r2 Ha; cbn [run_from].
    - constructor; [exact Ha | constructor].
    - constructor; [exact Ha|]. apply IH. now apply next_env_agree.
  Qed.

  (** *** from the hypotheses of the theorems (cone + foreign symbols) to [agreeR] *)
  Variable C : list expr.
  Hypothesis HC : forall s, reach v sy root s -> sys_symbol sy s -> In s C.

  Lemma agreeR_of_cone r1 r2 : agree_on_all C r1 r2 -> agree_non_sys sy r1 r2 -> agreeR r1 r2.
  Proof.
    intros H1 H2 s Hs. destruct (reported sy s) eqn:E.
    - apply H1. apply HC; [exact Hs | now apply reported_iff].
    - destruct (is_symbol s) eqn:Es; [|now apply agree_on_nonsym].
      apply H2; [exact Es|]. intros H. apply reported_iff in H. rewrite H in E. discriminate.
  Qed.

  Lemma agreeF_of_cone f1 f2 : agree_free sy C f1 f2 -> agreeF f1 f2.
  Proof.
    intros [H1 H2] s Hs Hn. destruct (reported sy s) eqn:E.
    - apply H1; [|exact Hn]. apply HC; [exact Hs | now apply reported_iff].
    - destruct (is_symbol s) eqn:Es; [|now apply agree_on_nonsym].
      apply H2; [exact Es|]. intros H. apply reported_iff in H. rewrite H in E. discriminate.
  Qed.
End Sem.

(** ** the theorems of Props/C17.v *)

Lemma coi_total_lemma v sy root : exists C, coi_opt v sy root = Some C.
Proof.
  destruct (coi_opt v sy root) as [C|] eqn:E; [now exists C|]. exfalso. now apply (coi_opt_total v sy root).
Qed.

Lemma coi_only_inputs_states_lemma v sy root C :
  coi_opt v sy root = Some C -> (forall s, In s C -> sys_symbol sy s) /\ NoDup C.
Proof.
  intros H. destruct (coi_opt_spec v sy root C H) as [Hs Hn]. split; [|exact Hn].
  intros s Hin. apply Hs in Hin. destruct Hin as [_ Hr]. now apply reported_iff.
Qed.

Lemma coi_tight_lemma v sy root C :
  states_distinct sy -> coi_opt v sy root = Some C ->
  forall s, In s C <-> reach v sy root s /\ sys_symbol sy s.
Proof.
  intros Hnd H s. destruct (coi_opt_spec v sy root C H) as [Hs _]. rewrite Hs, reported_iff.
  split; intros [H1 H2]; (split; [|exact H2]).
  - now apply mreach_reach.
  - now apply reach_mreach.
Qed.

(** members are reachable even without the distinctness assumption *)
Lemma coi_members_reachable_lemma v sy root C :
  coi_opt v sy root = Some C -> forall s, In s C -> reach v sy root s.
Proof.
  intros H s Hin. destruct (coi_opt_spec v sy root C H) as [Hs _]. apply Hs in Hin.
  destruct Hin as [Hr _]. now apply mreach_reach.
Qed.

Lemma cone_complete v sy root C :
  states_distinct sy -> coi_opt v sy root = Some C ->
  forall s, reach v sy root s -> sys_symbol sy s -> In s C.
Proof. intros Hnd H s Hr Hs. apply (coi_tight_lemma v sy root C Hnd H). now split. Qed.

Lemma coi_sufficient_comb_lemma sy root C r1 r2 :
  coi_opt VComb sy root = Some C ->
  agree_on_all C r1 r2 -> agree_non_sys sy r1 r2 -> same_value root r1 r2.
Proof.
  intros H H1 H2. apply eval_ext. intros s Hs.
  assert (Hm : mreach VComb sy root s).
  { clear - Hs. revert s Hs. induction root as [e IH] using expr_children_ind. intros s Hs.
    rewrite subexprs_unfold in Hs. destruct Hs as [<-|Hs]; [apply mreach_root|].
    apply in_flat_map in Hs. destruct Hs as (k & Hk & Hs).
    specialize (IH k Hk s Hs). clear - IH Hk.
    assert (Hek : mreach VComb sy e k).
    { apply (mreach_step VComb sy e e k); [apply mreach_root|]. unfold succs. apply in_app_iff. now left. }
    clear Hk. induction IH as [|x c _ IH2 Hc]; [exact Hek|]. now apply (mreach_step VComb sy e x c). }
  destruct (coi_opt_spec VComb sy root C H) as [HC _].
  destruct (reported sy s) eqn:E.
  - apply H1. apply HC. now split.
  - destruct (is_symbol s) eqn:Es; [|now apply agree_on_nonsym].
    apply H2; [exact Es|]. intros Hx. apply reported_iff in Hx. rewrite Hx in E. discriminate.
Qed.

Lemma coi_sufficient_init_lemma sy root C r1 r2 :
  states_distinct sy -> coi_opt VInit sy root = Some C ->
  agree_on_all C r1 r2 -> agree_non_sys sy r1 r2 ->
  same_value root (init_seq sy r1) (init_seq sy r2).
Proof.
  intros Hnd H H1 H2.
  apply (reach_same_value VInit sy root root); [apply reach_root|].
  apply (init_seq_agree VInit sy root eq_refl).
  apply (agreeR_of_cone VInit sy root C (cone_complete VInit sy root C Hnd H)); assumption.
Qed.

Lemma Forall2_impl {A B} (P Q : A -> B -> Prop) l1 l2 :
  (forall a b, P a b -> Q a b) -> Forall2 P l1 l2 -> Forall2 Q l1 l2.
Proof. intros H. induction 1; constructor; auto. Qed.

Lemma coi_sufficient_full_from_lemma sy root C r1 r2 fs1 fs2 :
  states_distinct sy -> coi_opt VFull sy root = Some C ->
  agree_on_all C r1 r2 -> agree_non_sys sy r1 r2 ->
  Forall2 (agree_free sy C) fs1 fs2 ->
  Forall2 (same_value root) (run_from sy r1 fs1) (run_from sy r2 fs2).
Proof.
  intros Hnd H H1 H2 Hf.
  pose proof (cone_complete VFull sy root C Hnd H) as HC.
  apply (Forall2_impl (agreeR VFull sy root)).
  - intros a b Hab. apply (reach_same_value VFull sy root root); [apply reach_root | exact Hab].
  - apply (run_agree VFull sy root eq_refl).
    + apply (Forall2_impl (agree_free sy C)); [|exact Hf].
      intros a b. now apply (agreeF_of_cone VFull sy root C HC).
    + now apply (agreeR_of_cone VFull sy root C HC).
Qed.

Lemma coi_sufficient_full_lemma sy root C r1 r2 fs1 fs2 :
  states_distinct sy -> coi_opt VFull sy root = Some C ->
  agree_on_all C r1 r2 -> agree_non_sys sy r1 r2 ->
  Forall2 (agree_free sy C) fs1 fs2 ->
  Forall2 (same_value root) (run_from sy (init_seq sy r1) fs1) (run_from sy (init_seq sy r2) fs2).
Proof.
  intros Hnd H H1 H2 Hf.
  pose proof (cone_complete VFull sy root C Hnd H) as HC.
  apply (Forall2_impl (agreeR VFull sy root)).
  - intros a b Hab. apply (reach_same_value VFull sy root root); [apply reach_root | exact Hab].
  - apply (run_agree VFull sy root eq_refl).
    + apply (Forall2_impl (agree_free sy C)); [|exact Hf].
      intros a b. now apply (agreeF_of_cone VFull sy root C HC).
    + apply (init_seq_agree VFull sy root eq_refl). now apply (agreeR_of_cone VFull sy root C HC).
Qed.

(** *** perturbation forms (what the check's oracle evaluates) *)
Lemma perturb_keep sy C base alt s : keep_sym sy C s = true -> agree_on s base (perturb sy C base alt).
Proof.
  intros H. destruct s; cbn [agree_on perturb rho_bv rho_arr]; try exact I; now rewrite H.
Qed.

Lemma perturb_agree_cone sy C base alt : agree_on_all C base (perturb sy C base alt).
Proof.
  intros s Hs. apply perturb_keep. unfold keep_sym. apply orb_true_iff. right. now apply mem_In.
Qed.

Lemma perturb_agree_non_sys sy C base alt : agree_non_sys sy base (perturb sy C base alt).
Proof.
  intros s Es Hn. apply perturb_keep. unfold keep_sym. apply orb_true_iff. left.
  destruct (is_sys_sym sy s) eqn:E; [|reflexivity]. exfalso. apply Hn. split; [exact Es|].
  now apply is_sys_sym_iff.
Qed.

Lemma perturb_all_agree sy C bases : forall alts,
  Forall2 (agree_free sy C) bases (perturb_all sy C bases alts).
Proof.
  induction bases as [|b bs IH]; intros alts; cbn [perturb_all].
  - destruct alts; constructor.
  - destruct alts as [|a als].
    + clear IH. induction (b :: bs) as [|x l IHl]; constructor; [|exact IHl].
      split; [intros s _ _ | intros s _ _]; apply agree_on_refl.
    + constructor; [|apply IH]. split.
      * intros s Hs _. now apply perturb_agree_cone.
      * apply perturb_agree_non_sys.
Qed.

Lemma coi_comb_perturb_lemma sy root C base alt :
  coi_opt VComb sy root = Some C -> same_value root base (perturb sy C base alt).
Proof.
  intros H. apply (coi_sufficient_comb_lemma sy root C); [exact H | apply perturb_agree_cone | apply perturb_agree_non_sys].
Qed.

Lemma coi_init_perturb_lemma sy root C base alt :
  states_distinct sy -> coi_opt VInit sy root = Some C ->
  same_value root (init_seq sy base) (init_seq sy (perturb sy C base alt)).
Proof.
  intros Hnd H. apply (coi_sufficient_init_lemma sy root C); [exact Hnd | exact H | apply perturb_agree_cone | apply perturb_agree_non_sys].
Qed.

Lemma coi_full_perturb_lemma sy root C base alt bases alts :
  states_distinct sy -> coi_opt VFull sy root = Some C ->
  Forall2 (same_value root) (run_from sy (init_seq sy base) bases)
          (run_from sy (init_seq sy (perturb sy C base alt)) (perturb_all sy C bases alts)) /\
  Forall2 (same_value root) (run_from sy base bases)
          (run_from sy (perturb sy C base alt) (perturb_all sy C bases alts)).
Proof.
  intros Hnd H. split.
  - apply (coi_sufficient_full_lemma sy root C); [exact Hnd | exact H | apply perturb_agree_cone | apply perturb_agree_non_sys | apply perturb_all_agree].
  - apply (coi_sufficient_full_from_lemma sy root C); [exact Hnd | exact H | apply perturb_agree_cone | apply perturb_agree_non_sys | apply perturb_all_agree].
Qed.

Lemma states_distinct_b_iff sy : states_distinct_b sy = true <-> states_distinct sy.
Proof.
  unfold states_distinct_b, states_distinct. induction (map st_sym (s_states sy)) as [|x l IH]; cbn [distinct_b].
  - split; [constructor | reflexivity].
  - rewrite andb_true_iff, negb_true_iff, mem_false, IH. split.
    + intros [H1 H2]. now constructor.
    + intros H. inversion H; subst. now split.
Qed.

(** *** the three cones are nested: comb within init within full *)
Lemma succs_mono v v' sy e c :
  (follow_init v = true -> follow_init v' = true) ->
  (follow_next v = true -> follow_next v' = true) ->
  In c (succs v sy e) -> In c (succs v' sy e).
Proof.
  intros Hi Hn. unfold succs. rewrite !in_app_iff, !in_state_links.
  intros [H | (st & Hf & [[Hv Hx]|[Hv Hx]])]; [now left | right; exists st ..].
  - split; [exact Hf | left; split; [now apply Hi | exact Hx]].
  - split; [exact Hf | right; split; [now apply Hn | exact Hx]].
Qed.

Lemma mreach_mono v v' sy root e :
  (follow_init v = true -> follow_init v' = true) ->
  (follow_next v = true -> follow_next v' = true) ->
  mreach v sy root e -> mreach v' sy root e.
Proof.
  intros Hi Hn. induction 1 as [|x c _ IH Hc]; [apply mreach_root|].
  apply (mreach_step v' sy root x c IH). now apply (succs_mono v v').
Qed.

Lemma coi_nested_lemma sy root Cc Ci Cf :
  coi_opt VComb sy root = Some Cc -> coi_opt VInit sy root = Some Ci -> coi_opt VFull sy root = Some Cf ->
  (forall s, In s Cc -> In s Ci) /\ (forall s, In s Ci -> In s Cf).
Proof.
  intros Hc Hi Hf.
  destruct (coi_opt_spec VComb sy root Cc Hc) as [Sc _].
  destruct (coi_opt_spec VInit sy root Ci Hi) as [Si _].
  destruct (coi_opt_spec VFull sy root Cf Hf) as [Sf _].
  split; intros s Hs.
  - apply Si. apply Sc in Hs. destruct Hs as [Hm Hr]. split; [|exact Hr].
    apply (mreach_mono VComb VInit); [reflexivity | discriminate | exact Hm].
  - apply Sf. apply Si in Hs. destruct Hs as [Hm Hr]. split; [|exact Hr].
    apply (mreach_mono VInit VFull); [reflexivity | reflexivity | exact Hm].
Qed.
