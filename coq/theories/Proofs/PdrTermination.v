(** * Proofs/PdrTermination.v — TERMINATION of block_cube's proof-obligation loop in the concrete
    model of pdr.rs (Model/PdrImpl.v), for a FINITE state space and every truthful solver oracle that
    never answers "unknown" / never fails.

    The state space is given as a list [states] that contains every state (duplicates allowed; for the
    systems of Model/PdrSys.v it is the list of the 2^bits valuations).

    Measure.  [cnt st k] = number of listed states in frame F_k (not excluded by a clause asserted at a
    level >= k), [mu st] = cnt st 1 + .. + cnt st N (N = frontier).  An obligation (c, j) is FRESH when
    the state of its cube is still in F_j.  With
        g  = frame of the smallest obligation if that obligation is fresh, N + 1 otherwise
        Phi = (2 N + 3) * mu + |queue| + 2 g
    every iteration of [block_loop] that does not return makes Phi strictly smaller:
      - a predecessor is found (the queue grows by one): the new smallest obligation is one frame lower
        and FRESH (the predecessor is a model of F_(j-1)), so 2 g drops by at least 2;
      - the smallest obligation is blocked: the queue shrinks; if it was fresh, its state leaves F_j, mu
        drops (that pays for g jumping back to at most N + 1); if it was stale, g was N + 1 already.
    Hence [block_loop fuel] never returns [Fuel] when Phi < fuel; Phi <= (2N+3) * N * |states| + |queue| + 2N + 2.

    Second result ([block_loop_blocks]): when the loop answers [true], every obligation of the initial
    queue has been excluded from its frame, and no frame has grown.  The main loop's measure uses it. *)
From Coq Require Import List Bool Arith Lia.
From Patronus Require Import Ic3 PdrImpl PdrImplProofs.
Import ListNotations.

(** ** counting *)
Lemma filter_len_mono {A} (f g : A -> bool) (l : list A) :
  (forall x, In x l -> f x = true -> g x = true) -> length (filter f l) <= length (filter g l).
Proof.
  induction l as [| a l IH]; intros H; [cbn; lia |]. cbn [filter].
  assert (IH' : length (filter f l) <= length (filter g l)) by (apply IH; intros x Hx; apply H; now right).
  destruct (f a) eqn:Ef.
  - rewrite (H a (or_introl eq_refl) Ef). cbn [length]. lia.
  - destruct (g a); cbn [length]; lia.
Qed.

Lemma filter_len_strict {A} (f g : A -> bool) (l : list A) x :
  (forall y, In y l -> f y = true -> g y = true) -> In x l -> g x = true -> f x = false ->
  length (filter f l) < length (filter g l).
Proof.
  induction l as [| a l IH]; intros H Hx Hg Hf; [destruct Hx |]. cbn [filter].
  assert (Hm : length (filter f l) <= length (filter g l)) by (apply filter_len_mono; intros y Hy; apply H; now right).
  destruct Hx as [-> | Hx].
  - rewrite Hf, Hg. cbn [length]. lia.
  - assert (IH' : length (filter f l) < length (filter g l)) by (apply IH; try assumption; intros y Hy; apply H; now right).
    destruct (f a) eqn:Ef.
    + rewrite (H a (or_introl eq_refl) Ef). cbn [length]. lia.
    + destruct (g a); cbn [length]; lia.
Qed.

Lemma filter_len_le {A} (f : A -> bool) (l : list A) : length (filter f l) <= length l.
Proof. induction l as [| a l IH]; cbn; [lia |]. destruct (f a); cbn; lia. Qed.

(** f 1 + .. + f n *)
Fixpoint sumf (f : nat -> nat) (n : nat) : nat :=
  match n with O => 0 | S n' => sumf f n' + f n end.

Lemma sumf_le f g n : (forall k, 1 <= k <= n -> f k <= g k) -> sumf f n <= sumf g n.
Proof.
  induction n as [| n IH]; intros H; [cbn; lia |]. cbn [sumf].
  assert (sumf f n <= sumf g n) by (apply IH; intros k Hk; apply H; lia).
  assert (f (S n) <= g (S n)) by (apply H; lia). lia.
Qed.

Lemma sumf_lt f g n j :
  (forall k, 1 <= k <= n -> f k <= g k) -> 1 <= j <= n -> f j < g j -> sumf f n < sumf g n.
Proof.
  induction n as [| n IH]; intros H Hj Hlt; [lia |]. cbn [sumf].
  assert (Hn : f (S n) <= g (S n)) by (apply H; lia).
  destruct (Nat.eq_dec j (S n)) as [-> | Hne].
  - assert (sumf f n <= sumf g n) by (apply sumf_le; intros k Hk; apply H; lia). lia.
  - assert (sumf f n < sumf g n) by (apply IH; [intros k Hk; apply H; lia | lia | exact Hlt]). lia.
Qed.

Lemma sumf_bound f n b : (forall k, 1 <= k <= n -> f k <= b) -> sumf f n <= n * b.
Proof.
  induction n as [| n IH]; intros H; [cbn; lia |]. cbn [sumf].
  assert (sumf f n <= n * b) by (apply IH; intros k Hk; apply H; lia).
  assert (f (S n) <= b) by (apply H; lia). lia.
Qed.

Section PdrTermination.
  Variable lit : Type.
  Variable lit_eqb : lit -> lit -> bool.
  Variable St : Type.
  Variable cube_of_state : St -> list lit.
  Variable EM : Type.
  Variable solve : nat -> query lit -> answer lit St EM.
  Variable cmd_fail : nat -> option EM.
  Variable gen_on : bool.

  Variable lit_holds : lit -> St -> bool.
  Variable bad0 : St -> bool.
  Variable step0 : St -> St -> bool.
  Variable trans : St -> St -> bool.
  Variable bad : St -> bool.

  (** the finite state space *)
  Variable states : list St.
  Hypothesis states_all : forall s, In s states.

  Notation pst := (pst lit St EM).
  Notation ccube := (ccube lit).
  Notation tcube := (tcube lit).
  Notation ch := (PdrImplProofs.ch lit St lit_holds).
  Notation blocked := (PdrImplProofs.blocked lit St lit_holds).
  Notation Fc := (PdrImplProofs.Fc lit St EM lit_holds).
  Notation pinv := (PdrImplProofs.pinv lit St EM lit_holds bad0 step0 trans bad).
  Notation book := (PdrImplProofs.book lit St EM).
  Notation obl_ok := (PdrImplProofs.obl_ok lit St cube_of_state bad0 step0 trans bad).
  Notation frontier' := (PdrImplProofs.frontier' lit St EM).
  Notation sem_eq := (PdrImplProofs.sem_eq lit St EM).
  Notation asserted st := (p_asserted lit St EM st).
  Notation sub_cube := (PdrImplProofs.sub_cube lit).
  Notation excl_post := (PdrImplProofs.excl_post lit St lit_holds step0).
  Notation rel_cond := (PdrImplProofs.rel_cond lit St EM lit_holds trans).
  Notation block_loop := (PdrImpl.block_loop lit lit_eqb St cube_of_state EM solve cmd_fail gen_on).
  Notation rel_ind := (PdrImpl.rel_ind lit lit_eqb St cube_of_state EM solve cmd_fail gen_on).
  Notation push_loop := (PdrImpl.push_loop lit lit_eqb St cube_of_state EM solve cmd_fail gen_on).
  Notation add_blocked_cube := (PdrImpl.add_blocked_cube lit St EM cmd_fail).
  Notation total_solver := (PdrImplProofs.total_solver lit St EM solve cmd_fail).

  (** a bit-level cube of a state describes exactly that state *)
  Hypothesis cube_state_holds : forall s, ch (cube_of_state s) s = true.
  Hypothesis cube_state_unique : forall s s', ch (cube_of_state s) s' = true -> s' = s.
  Hypothesis solver_ok : forall n q, truthful lit lit_eqb St EM lit_holds bad0 step0 trans bad q (solve n q).
  Hypothesis Htot : total_solver.

  (** ** frames as decidable sets, their sizes *)
  Definition fcb (st : pst) (k : nat) (s : St) : bool := negb (blocked (clauses_at lit St EM st k) s).

  Lemma fcb_Fc st k s : fcb st k s = true <-> Fc st k s.
  Proof.
    unfold fcb. rewrite negb_true_iff. apply clauses_at_Fc.
  Qed.

  Lemma fcb_false st k s : fcb st k s = false <-> ~ Fc st k s.
  Proof.
    split.
    - intros H Hf. apply fcb_Fc in Hf. congruence.
    - intros H. destruct (fcb st k s) eqn:E; [| reflexivity]. apply fcb_Fc in E. contradiction.
  Qed.

  Definition cnt (st : pst) (k : nat) : nat := length (filter (fcb st k) states).
  Definition mu (st : pst) : nat := sumf (cnt st) (frontier' st).

  Lemma cnt_le_states st k : cnt st k <= length states.
  Proof. apply filter_len_le. Qed.

  Lemma mu_bound st : mu st <= frontier' st * length states.
  Proof. apply sumf_bound. intros k _. apply cnt_le_states. Qed.

  (** [st'] has the same frontier and no frame has grown *)
  Definition shrinks (st st' : pst) : Prop :=
    frontier' st' = frontier' st /\ forall k s, Fc st' k s -> Fc st k s.

  Lemma shrinks_refl st : shrinks st st.
  Proof. split; [reflexivity | auto]. Qed.

  Lemma shrinks_trans a b c : shrinks a b -> shrinks b c -> shrinks a c.
  Proof. intros [H1 H2] [H3 H4]. split; [congruence | intros k s H; apply H2, H4, H]. Qed.

  Lemma sem_eq_shrinks st st' : sem_eq st st' -> shrinks st st'.
  Proof.
    intros He. split; [apply (sem_eq_frontier lit St EM st st' He) |].
    intros k s H. now apply (sem_eq_Fc lit St EM lit_holds st st' k s He).
  Qed.

  Lemma sem_eq_shrinks_rev st st' : sem_eq st st' -> shrinks st' st.
  Proof.
    intros He. split; [symmetry; apply (sem_eq_frontier lit St EM st st' He) |].
    intros k s H. now apply (sem_eq_Fc lit St EM lit_holds st st' k s He).
  Qed.

  Lemma shrinks_cnt st st' k : shrinks st st' -> cnt st' k <= cnt st k.
  Proof.
    intros [_ H]. apply filter_len_mono. intros s _ Hs. apply fcb_Fc. apply H. now apply fcb_Fc.
  Qed.

  Lemma shrinks_mu st st' : shrinks st st' -> mu st' <= mu st.
  Proof.
    intros Hs. unfold mu. rewrite (proj1 Hs). apply sumf_le. intros k _. now apply shrinks_cnt.
  Qed.

  Lemma shrinks_mu_strict st st' j s :
    shrinks st st' -> 1 <= j <= frontier' st -> Fc st j s -> ~ Fc st' j s -> mu st' < mu st.
  Proof.
    intros Hs Hj Hin Hout. unfold mu. rewrite (proj1 Hs).
    apply (sumf_lt _ _ _ j); [intros k _; now apply shrinks_cnt | exact Hj |].
    apply (filter_len_strict _ _ _ s).
    - intros y _ Hy. apply fcb_Fc. apply (proj2 Hs). now apply fcb_Fc.
    - apply states_all.
    - now apply fcb_Fc.
    - now apply fcb_false.
  Qed.

  Lemma sem_eq_mu st st' : sem_eq st st' -> mu st' = mu st.
  Proof.
    intros He. pose proof (shrinks_mu _ _ (sem_eq_shrinks _ _ He)). pose proof (shrinks_mu _ _ (sem_eq_shrinks_rev _ _ He)). lia.
  Qed.

  (** one more asserted clause: frames can only shrink *)
  Lemma cons_shrinks st st' l g :
    asserted st' = (l, g) :: asserted st -> frontier' st' = frontier' st -> shrinks st st'.
  Proof.
    intros Ha HN. split; [exact HN |]. intros k s H.
    now apply (Fc_cons lit St EM lit_holds st st' l g k s Ha) in H.
  Qed.

  (** ** the obligation queue *)
  Lemma pop_min_none (q : list tcube) : pop_min lit q = None -> q = [].
  Proof.
    destruct q as [| o q]; [reflexivity |]. cbn [pop_min].
    destruct (pop_min lit q) as [[m r'] |]; [destruct (fid_key (snd o) <=? fid_key (snd m)) |]; discriminate.
  Qed.

  Lemma pop_min_len (q : list tcube) : forall m r, pop_min lit q = Some (m, r) -> length q = S (length r).
  Proof.
    induction q as [| a q IH]; intros m r H; [discriminate H |]. cbn [pop_min] in H.
    destruct (pop_min lit q) as [[m' r'] |] eqn:E.
    - specialize (IH _ _ eq_refl). destruct (fid_key (snd a) <=? fid_key (snd m')); inversion H; subst; cbn [length]; lia.
    - apply pop_min_none in E. subst q. inversion H; subst. reflexivity.
  Qed.

  Lemma pop_min_le (q : list tcube) : forall m r, pop_min lit q = Some (m, r) ->
    forall o, In o q -> fid_key (snd m) <= fid_key (snd o).
  Proof.
    induction q as [| a q IH]; intros m r H o Ho; [discriminate H |]. cbn [pop_min] in H.
    destruct (pop_min lit q) as [[m' r'] |] eqn:E.
    - specialize (IH _ _ eq_refl).
      destruct (Nat.leb_spec (fid_key (snd a)) (fid_key (snd m'))) as [Hle | Hgt]; inversion H; subst.
      + destruct Ho as [<- | Ho]; [lia | specialize (IH o Ho); lia].
      + destruct Ho as [<- | Ho]; [lia | now apply IH].
    - apply pop_min_none in E. subst q. inversion H; subst. destruct Ho as [<- | []]. lia.
  Qed.

  Lemma pop_min_in (q : list tcube) : forall m r, pop_min lit q = Some (m, r) ->
    forall o, In o q -> o = m \/ In o r.
  Proof.
    induction q as [| a q IH]; intros m r H o Ho; [discriminate H |]. cbn [pop_min] in H.
    destruct (pop_min lit q) as [[m' r'] |] eqn:E.
    - specialize (IH _ _ eq_refl).
      destruct (fid_key (snd a) <=? fid_key (snd m')); inversion H; subst.
      + destruct Ho as [<- | Ho]; [now left | now right].
      + destruct Ho as [<- | Ho]; [right; now left |]. destruct (IH o Ho) as [-> | Hr]; [now left | right; now right].
    - apply pop_min_none in E. subst q. inversion H; subst. destruct Ho as [<- | []]. now left.
  Qed.

  Lemma pop_min_cons_lt (o : tcube) (q : list tcube) :
    (forall x, In x q -> fid_key (snd o) < fid_key (snd x)) -> pop_min lit (o :: q) = Some (o, q).
  Proof.
    intros H. cbn [pop_min]. destruct (pop_min lit q) as [[m r'] |] eqn:E.
    - destruct (pop_min_spec lit q _ _ E) as [Hm _]. specialize (H m Hm).
      destruct (Nat.leb_spec (fid_key (snd o)) (fid_key (snd m))); [reflexivity | lia].
    - apply pop_min_none in E. subst q. reflexivity.
  Qed.

  (** ** the measure *)
  Definition fresh (st : pst) (o : tcube) : bool :=
    match snd o with
    | FInit => true
    | FFinite j => existsb (fun s => ch (fst o) s && fcb st j s) states
    | FInf => false
    end.

  Definition gmin (st : pst) (work : list tcube) : nat :=
    match pop_min lit work with
    | None => 0
    | Some (o, _) => if fresh st o then fid_key (snd o) else S (frontier' st)
    end.

  Definition Phi (st : pst) (work : list tcube) : nat :=
    (2 * frontier' st + 3) * mu st + length work + 2 * gmin st work.

  Lemma gmin_bound st work : Forall (obl_ok (frontier' st)) work -> gmin st work <= S (frontier' st).
  Proof.
    intros Hw. unfold gmin. destruct (pop_min lit work) as [[o r] |] eqn:E; [| lia].
    destruct (fresh st o) eqn:Ef; [| lia].
    destruct (pop_min_spec lit work _ _ E) as [Hm _]. rewrite Forall_forall in Hw.
    destruct (Hw o Hm) as (s & _ & Hs). unfold fresh in Ef.
    destruct (snd o) as [| j |]; cbn [fid_key]; [lia | lia | discriminate Ef].
  Qed.

  Definition block_fuel_bound (N nstates nwork : nat) : nat :=
    (2 * N + 3) * (N * nstates) + nwork + 2 * S N.

  Lemma Phi_bound st work :
    Forall (obl_ok (frontier' st)) work -> Phi st work <= block_fuel_bound (frontier' st) (length states) (length work).
  Proof.
    intros Hw. unfold Phi, block_fuel_bound. pose proof (gmin_bound st work Hw). pose proof (mu_bound st).
    assert ((2 * frontier' st + 3) * mu st <= (2 * frontier' st + 3) * (frontier' st * length states)) by (apply Nat.mul_le_mono_l; assumption).
    lia.
  Qed.

  (** ** one iteration of the loop *)
  Lemma block_step st work c f rest :
    pinv st -> book st -> Forall (obl_ok (frontier' st)) work ->
    pop_min lit work = Some ((c, f), rest) -> is_init f = false ->
    exists j st' work',
      f = FFinite j /\ 1 <= j <= frontier' st /\
      (forall fuel, block_loop (S fuel) st work = block_loop fuel st' work') /\
      pinv st' /\ book st' /\ frontier' st' = frontier' st /\ Forall (obl_ok (frontier' st)) work' /\
      ((exists p pf, sem_eq st st' /\ work' = (p, pf) :: (c, f) :: rest /\ fresh st' (p, pf) = true /\ S (fid_key pf) = j) \/
       (exists cand bf, work' = rest /\ asserted st' = (FFinite bf, cand) :: asserted st /\ j <= bf /\ sub_cube cand c)).
  Proof.
    intros Hinv Hbook Hwork Epop Ei.
    destruct (pop_min_spec lit work _ _ Epop) as [Hm Hrest].
    pose proof Hwork as Hwork'. rewrite Forall_forall in Hwork'.
    assert (Hrest_ok : Forall (obl_ok (frontier' st)) rest) by (apply Forall_forall; intros o Ho; apply Hwork'; now apply Hrest).
    pose proof (Hwork' _ Hm) as Hobl.
    assert (Hf : exists j, f = FFinite j /\ 1 <= j <= frontier' st).
    { destruct Hobl as (s & _ & Hs). cbn [snd] in Hs. destruct f as [| j |]; [discriminate Ei | | destruct Hs].
      exists j. split; [reflexivity | apply Hs]. }
    destruct Hf as (j & -> & Hj). exists j.
    destruct (rel_ind_ok lit lit_eqb St cube_of_state EM solve cmd_fail gen_on lit_holds bad0 step0 trans bad solver_ok
                         st c j true Htot Hj) as (r & st1 & Hr & Hnu).
    { intros _. destruct (Nat.eq_dec j 1) as [-> | Hne]; [now left | right].
      apply (obl_not_post lit St cube_of_state EM lit_holds bad0 step0 trans bad cube_state_unique st c j Hinv Hobl). lia. }
    destruct (rel_ind_spec lit lit_eqb St cube_of_state EM solve cmd_fail gen_on lit_holds bad0 step0 trans bad solver_ok
                           _ _ _ _ _ _ Hr) as (prev & Hd & Hsem & Hpost).
    assert (HN1 : frontier' st1 = frontier' st) by apply (sem_eq_frontier lit St EM st st1 Hsem).
    destruct r as [p | og |]; [| | now contradiction Hnu].
    - (* a predecessor *)
      exists st1, ((p, prev) :: (c, FFinite j) :: rest).
      split; [reflexivity |]. split; [exact Hj |].
      split; [intros fuel; cbn [PdrImpl.block_loop]; rewrite Epop; cbn [is_init]; rewrite Hr, Hd; reflexivity |].
      split; [now apply (sem_eq_pinv lit St EM lit_holds bad0 step0 trans bad st) |].
      split; [now apply (sem_eq_book lit St EM st) |]. split; [exact HN1 |].
      cbn [rel_post] in Hpost. destruct Hpost as (m & s' & -> & Hprev & Hcs & _).
      pose proof Hobl as (s & Hc & Hobl'). cbn [fst snd] in Hc, Hobl'. subst c.
      apply cube_state_unique in Hcs. subst s'.
      split.
      + constructor; [| constructor; [exact Hobl | exact Hrest_ok]].
        exists m. split; [reflexivity |]. cbn [snd].
        destruct (decrement_spec _ _ Hd) as [(He & ->) | (k & He & ->)]; inversion He; subst j; cbn [prev_ok] in Hprev.
        * destruct Hobl' as (Hj' & Hl). right. split; [lia |]. exists s. split; [exact Hprev |].
          replace (pred (frontier' st)) with (frontier' st - 1) by lia. exact Hl.
        * destruct Hobl' as (Hj' & Hl). destruct Hprev as [_ Ht]. split; [lia |].
          replace (frontier' st - S k) with (S (frontier' st - S (S k))) by lia.
          now apply (lb_step St trans bad m s).
      + left. exists (cube_of_state m), prev. split; [exact Hsem |]. split; [reflexivity |].
        destruct (decrement_spec _ _ Hd) as [(He & ->) | (k & He & ->)]; inversion He; subst j; cbn [prev_ok] in Hprev.
        * split; reflexivity.
        * split; [| reflexivity]. unfold fresh. cbn [fst snd]. apply existsb_exists. exists m.
          split; [apply states_all |]. rewrite cube_state_holds. cbn [andb]. apply fcb_Fc.
          apply (sem_eq_Fc lit St EM lit_holds st st1 (S k) m Hsem). apply Hprev.
    - (* blocked: generalise, push, add *)
      set (cand := match og with Some g => g | None => c end) in *.
      assert (Hsub : sub_cube cand c).
      { cbn [rel_post] in Hpost. apply Hpost. }
      assert (Hex : excl_post cand).
      { destruct (decrement_spec _ _ Hd) as [(He & ->) | (k & He & ->)]; inversion He; subst j.
        - cbn [is_init negb andb rel_post] in Hpost. destruct Hpost as (_ & _ & Hun).
          intros s0 s' Hs. apply (Hun s0 s'); [exact Hs | discriminate].
        - cbn [rel_post] in Hpost. destruct Hpost as (_ & Hex & _). unfold cand. destruct og as [g |].
          + apply Hex. discriminate.
          + apply (obl_not_post lit St cube_of_state EM lit_holds bad0 step0 trans bad cube_state_unique st c (S (S k)) Hinv Hobl). lia. }
      assert (Hrc : rel_cond st j cand).
      { destruct (decrement_spec _ _ Hd) as [(He & ->) | (k & He & ->)]; inversion He; subst j.
        - intros Hc. lia.
        - now apply (rel_post_rel_cond lit St cube_of_state EM lit_holds step0 trans). }
      destruct (push_loop_ok lit lit_eqb St cube_of_state EM solve cmd_fail gen_on lit_holds bad0 step0 trans bad solver_ok
                             (S (S (frontier lit St EM st1))) st1 cand (S j) Htot ltac:(lia) ltac:(rewrite HN1; lia)
                             ltac:(intros _; exact Hex) ltac:(unfold frontier, PdrImplProofs.frontier' in *; lia)) as ([tf' st2] & Hpush).
      destruct (push_loop_spec lit lit_eqb St cube_of_state EM solve cmd_fail gen_on lit_holds bad0 step0 trans bad solver_ok
                               _ _ _ _ _ _ Hpush ltac:(lia) ltac:(rewrite HN1; lia)) as (Hsem2 & t' & -> & Hle & HleN & Hrc2).
      destruct t' as [| [| t'']]; try lia.
      assert (HN2 : frontier' st2 = frontier' st) by (rewrite (sem_eq_frontier lit St EM st1 st2 Hsem2); exact HN1).
      destruct (add_finite_ok lit St EM solve cmd_fail st2 cand (S t'') Htot ltac:(rewrite HN2, <- HN1; lia)) as (st3 & Hadd).
      assert (Hsem02 : sem_eq st st2) by now apply (sem_eq_trans lit St EM _ st1).
      destruct (add_finite_spec lit St EM cmd_fail _ _ _ _ Hadd) as (Ha3 & HN3 & _).
      exists st3, rest.
      split; [reflexivity |]. split; [exact Hj |].
      split; [intros fuel; cbn [PdrImpl.block_loop]; rewrite Epop; cbn [is_init]; rewrite Hr; cbn [increment]; fold cand;
              rewrite Hpush; cbn [decrement]; rewrite Hadd; reflexivity |].
      split.
      { apply (add_finite_preserves lit St EM cmd_fail lit_holds bad0 step0 trans bad st2 cand (S t'') st3);
          [now apply (sem_eq_pinv lit St EM lit_holds bad0 step0 trans bad st) | exact Hadd | exact Hex |].
        destruct (Nat.eq_dec t'' (pred j)) as [-> | Hne].
        - replace (S (pred j)) with j by lia. now apply (sem_eq_rel_cond lit St EM lit_holds trans st).
        - apply (sem_eq_rel_cond lit St EM lit_holds trans st1); [exact Hsem2 |]. apply (Hrc2 ltac:(lia)). }
      split.
      { apply (book_bookx lit St EM st3 0). apply (add_finite_bookx lit St EM cmd_fail st2 cand (S t'') st3 0 []); [| exact Hadd].
        apply (book_bookx lit St EM st2 0). now apply (sem_eq_book lit St EM st). }
      split; [now rewrite HN3 |]. split; [exact Hrest_ok |].
      right. exists cand, (S t''). split; [reflexivity |].
      split; [rewrite Ha3; now rewrite (proj2 (proj2 Hsem02)) |]. split; [lia | exact Hsub].
  Qed.

  (** ** termination *)
  Lemma block_step_decreases st work c f rest j st' work' :
    Forall (obl_ok (frontier' st)) work -> pop_min lit work = Some ((c, f), rest) ->
    f = FFinite j -> 1 <= j <= frontier' st ->
    frontier' st' = frontier' st -> Forall (obl_ok (frontier' st)) work' ->
    ((exists p pf, sem_eq st st' /\ work' = (p, pf) :: (c, f) :: rest /\ fresh st' (p, pf) = true /\ S (fid_key pf) = j) \/
     (exists cand bf, work' = rest /\ asserted st' = (FFinite bf, cand) :: asserted st /\ j <= bf /\ sub_cube cand c)) ->
    Phi st' work' < Phi st work.
  Proof.
    intros Hwork Epop -> Hj HN Hwork' Hcase. unfold Phi. rewrite HN.
    pose proof (pop_min_len work _ _ Epop) as Hlen.
    assert (Hg : j <= gmin st work).
    { unfold gmin. rewrite Epop. destruct (fresh st (c, FFinite j)); cbn [snd fid_key]; lia. }
    destruct Hcase as [(p & pf & Hsem & -> & Hfr & Hk) | (cand & bf & -> & Ha & Hbf & Hsub)].
    - rewrite (sem_eq_mu st st' Hsem).
      assert (Hg' : gmin st' ((p, pf) :: (c, FFinite j) :: rest) = fid_key pf).
      { unfold gmin. rewrite pop_min_cons_lt; [now rewrite Hfr |].
        intros x Hx. cbn [snd]. assert (Hx' : In x work).
        { destruct (pop_min_spec lit work _ _ Epop) as [Hm0 Hr0]. destruct Hx as [<- | Hx]; [exact Hm0 | now apply Hr0]. }
        pose proof (pop_min_le work _ _ Epop x Hx') as Hle. cbn [snd fid_key] in Hle. lia. }
      rewrite Hg'. cbn [length]. lia.
    - pose proof (cons_shrinks st st' _ _ Ha HN) as Hs.
      pose proof (shrinks_mu st st' Hs) as Hmu.
      assert (Hg' : gmin st' rest <= S (frontier' st)) by (rewrite <- HN; apply gmin_bound; now rewrite HN).
      assert (Hmul : (2 * frontier' st + 3) * mu st' <= (2 * frontier' st + 3) * mu st) by (apply Nat.mul_le_mono_l; exact Hmu).
      unfold gmin at 2. rewrite Epop. destruct (fresh st (c, FFinite j)) eqn:Ef; [| lia].
      (* fresh: the state of the cube leaves F_j *)
      unfold fresh in Ef. cbn [fst snd] in Ef. apply existsb_exists in Ef. destruct Ef as (s & _ & Hs2).
      apply andb_true_iff in Hs2. destruct Hs2 as [Hc Hfs]. apply fcb_Fc in Hfs.
      assert (Hstrict : mu st' < mu st).
      { apply (shrinks_mu_strict st st' j s Hs Hj Hfs). intros Hf'.
        apply (Fc_cons lit St EM lit_holds st st' _ _ j s Ha) in Hf'. destruct Hf' as [_ Hg2].
        rewrite (sub_cube_ch lit St lit_holds cand c s Hsub Hc) in Hg2.
        assert (false = true -> False) by discriminate. apply H. symmetry. apply Hg2. cbn [lvl_ge]. now apply Nat.leb_le. }
      assert (Hmul2 : (2 * frontier' st + 3) * mu st' + (2 * frontier' st + 3) <= (2 * frontier' st + 3) * mu st).
      { replace ((2 * frontier' st + 3) * mu st' + (2 * frontier' st + 3)) with ((2 * frontier' st + 3) * S (mu st')) by lia.
        apply Nat.mul_le_mono_l. lia. }
      cbn [snd fid_key]. lia.
  Qed.

  Theorem block_loop_terminates fuel : forall st work,
      pinv st -> book st -> Forall (obl_ok (frontier' st)) work ->
      Phi st work < fuel -> block_loop fuel st work <> Fuel.
  Proof.
    induction fuel as [| fuel IH]; intros st work Hinv Hbook Hwork Hphi; [lia |].
    destruct (pop_min lit work) as [[[c f] rest] |] eqn:Epop.
    2:{ cbn [PdrImpl.block_loop]. rewrite Epop. discriminate. }
    destruct (is_init f) eqn:Ei.
    { cbn [PdrImpl.block_loop]. rewrite Epop, Ei. discriminate. }
    destruct (block_step st work c f rest Hinv Hbook Hwork Epop Ei)
      as (j & st' & work' & Hf & Hj & Heq & Hinv' & Hbook' & HN & Hwork' & Hcase).
    rewrite Heq. apply IH; try assumption; [now rewrite HN |].
    pose proof (block_step_decreases st work c f rest j st' work' Hwork Epop Hf Hj HN Hwork' Hcase). lia.
  Qed.

  Corollary block_loop_terminates_bound fuel st work :
    pinv st -> book st -> Forall (obl_ok (frontier' st)) work ->
    block_fuel_bound (frontier' st) (length states) (length work) < fuel -> block_loop fuel st work <> Fuel.
  Proof.
    intros Hinv Hbook Hwork Hb. apply block_loop_terminates; try assumption.
    pose proof (Phi_bound st work Hwork). lia.
  Qed.

  (** ** what an answer [true] means: every obligation of the queue has been excluded from its frame *)
  Theorem block_loop_blocks fuel : forall st work st',
      pinv st -> book st -> Forall (obl_ok (frontier' st)) work ->
      block_loop fuel st work = Ok (true, st') ->
      shrinks st st' /\ forall c j, In (c, FFinite j) work -> forall s, ch c s = true -> ~ Fc st' j s.
  Proof.
    induction fuel as [| fuel IH]; intros st work st' Hinv Hbook Hwork H; [discriminate H |].
    destruct (pop_min lit work) as [[[c f] rest] |] eqn:Epop.
    2:{ apply pop_min_none in Epop. subst work. cbn [PdrImpl.block_loop pop_min] in H. inversion H; subst.
        split; [apply shrinks_refl | intros c j []]. }
    destruct (is_init f) eqn:Ei.
    { cbn [PdrImpl.block_loop] in H. rewrite Epop, Ei in H. discriminate H. }
    destruct (block_step st work c f rest Hinv Hbook Hwork Epop Ei)
      as (j & st1 & work' & Hf & Hj & Heq & Hinv' & Hbook' & HN & Hwork' & Hcase).
    rewrite Heq in H. apply IH in H; try assumption; [| now rewrite HN].
    destruct H as [Hs Hb].
    destruct Hcase as [(p & pf & Hsem & -> & _ & _) | (cand & bf & -> & Ha & Hbf & Hsub)].
    - split; [apply (shrinks_trans _ st1); [now apply sem_eq_shrinks | exact Hs] |].
      intros c0 j0 Hin. apply Hb. destruct (pop_min_in work _ _ Epop _ Hin) as [-> | Hr]; [right; now left | right; now right].
    - pose proof (cons_shrinks st st1 _ _ Ha HN) as Hs1.
      split; [now apply (shrinks_trans _ st1) |].
      intros c0 j0 Hin s Hc Hf'. destruct (pop_min_in work _ _ Epop _ Hin) as [Heq0 | Hr].
      + inversion Heq0; subst c0 f. inversion H1; subst j0. clear H1.
        apply (proj2 Hs) in Hf'. apply (Fc_cons lit St EM lit_holds st st1 _ _ j s Ha) in Hf'. destruct Hf' as [_ Hg2].
        rewrite (sub_cube_ch lit St lit_holds cand c s Hsub Hc) in Hg2.
        assert (Hx : false = true -> False) by discriminate. apply Hx. symmetry. apply Hg2. cbn [lvl_ge]. now apply Nat.leb_le.
      + now apply (Hb c0 j0 Hr s).
  Qed.
End PdrTermination.
