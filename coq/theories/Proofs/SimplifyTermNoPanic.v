(** * Proofs/SimplifyTermNoPanic.v — the driver never panics on an expression without a
    multiplication wider than 128 bits, hence it returns a result:

      [simp_terminates_ok : wt e = true -> nwm e = true -> exists n r, simp n e = SOk r]

    which is the statement quoted as "NOT proved" in Props/C13.v, restricted by [nwm] (without the
    restriction it is false: [simp] of a product of two 129-bit literals is [SPanic] for every fuel,
    see [wide_mul_panics]). *)
From Coq Require Import Lia.
From Patronus Require Import Simplify BVLemmas ExprLemmas EvalProofs BVRuleLemmas ExprEqb SimplifyBuilders
     SimplifyProofs SimplifyFix SimplifyTermMeasure SimplifyTermArith SimplifyTermRules1 SimplifyTermRules3
     SimplifyTermNoPanic1 SimplifyTermNoPanic2 SimplifyTerm.
Open Scope N_scope.

Lemma nwm_children e : nwm e = true -> Forall (fun c => nwm c = true) (children e).
Proof.
  destruct e; cbn [nwm children]; intros H; nwm_split; repeat constructor; assumption.
Qed.

Lemma rebuild_nwm e cs : nwm e = true -> Forall2 (fun _ c' => nwm c' = true) (children e) cs ->
  nwm (rebuild e cs) = true.
Proof.
  intros Hn Hcs.
  destruct e; cbn [children] in Hcs;
    repeat match goal with
           | H : Forall2 _ (_ :: _) _ |- _ => inversion H; subst; clear H
           | H : Forall2 _ [] _ |- _ => inversion H; subst; clear H
           end;
    cbn [rebuild nwm] in *; nwm_split;
    repeat match goal with
           | H : ?b = true |- context [?b] => lazymatch b with true => fail | _ => rewrite H end
           end; reflexivity.
Qed.

Lemma simp_children_nwm (f : expr -> sres) l :
  (forall c, In c l -> f c <> SPanic /\ forall r, f c = SOk r -> nwm r = true) ->
  simp_children f l <> inl SPanic /\
  forall cs, simp_children f l = inr cs -> Forall2 (fun _ c' => nwm c' = true) l cs.
Proof.
  induction l as [|c rest IH]; intros H; cbn [simp_children].
  - split; [discriminate|]. intros cs E. inversion E. constructor.
  - destruct (H c (or_introl eq_refl)) as [Hp Hr].
    destruct (IH (fun x Hx => H x (or_intror Hx))) as [IHp IHr].
    destruct (f c) as [c'| |] eqn:Ec.
    + destruct (simp_children f rest) as [err|rest'] eqn:Er.
      * split; [|discriminate]. intros E. inversion E; subst err. now apply IHp.
      * split; [discriminate|]. intros cs E. inversion E; subst cs. constructor; [now apply Hr|now apply IHr].
    + now elim Hp.
    + split; discriminate.
Qed.

(** the driver neither panics nor introduces a wide multiplication *)
Theorem simp_nwm : forall n e, wt e = true -> nwm e = true ->
  simp n e <> SPanic /\ forall r, simp n e = SOk r -> nwm r = true.
Proof.
  induction n as [|f IH]; intros e Hwt Hn; [split; [discriminate|intros r E; discriminate E]|].
  cbn [simp].
  pose proof (wt_children e Hwt) as Hwc. rewrite Forall_forall in Hwc.
  pose proof (nwm_children e Hn) as Hnc. rewrite Forall_forall in Hnc.
  destruct (simp_children_nwm (simp f) (children e)
              (fun c Hc => IH c (Hwc c Hc) (Hnc c Hc))) as [Hp Hr].
  destruct (simp_children (simp f) (children e)) as [err|cs] eqn:Ecs.
  { split.
    - intros E. subst err. now apply Hp.
    - intros r E. exfalso. exact (simp_children_inl _ _ _ Ecs _ E). }
  specialize (Hr cs eq_refl).
  assert (Hok : Forall2 ok_rw (children e) cs).
  { apply (simp_children_ok (simp f)); [|exact Ecs]. intros c c' Hin Hc. apply (simp_sound_lemma f); [|exact Hc].
    now apply Hwc. }
  destruct (rebuild_ok e cs Hwt Hok) as (Hrb & Hchild & Hsimp).
  pose proof (rebuild_nwm e cs Hn Hr) as Hrn.
  destruct (simplify e cs) as [[r0|]|] eqn:Es.
  - assert (Hs' : simplify (rebuild e cs) (children (rebuild e cs)) = Ok (Some r0)) by (rewrite Hchild; congruence).
    pose proof (simplify_nwm _ _ (proj1 Hrb) Hrn Hs') as Hr0n.
    pose proof (simplify_sound _ _ (proj1 Hrb) Hs') as Hr0.
    destruct (expr_eqb r0 e).
    + split; [discriminate|]. intros r E. inversion E; subst r. exact Hn.
    + exact (IH r0 (proj1 Hr0) Hr0n).
  - destruct (list_eqb cs (children e)).
    + split; [discriminate|]. intros r E. inversion E; subst r. exact Hn.
    + exact (IH _ (proj1 Hrb) Hrn).
  - exfalso. apply (simplify_no_panic _ (proj1 Hrb) Hrn). rewrite Hchild. congruence.
Qed.

(** C13, first clause, in the form "the simplifier returns a result" *)
Theorem simp_terminates_ok e : wt e = true -> nwm e = true -> exists n r, simp n e = SOk r.
Proof.
  intros Hwt Hn. destruct (simp_total e Hwt) as (n & [H|(r & H & _)]).
  - exfalso. exact (proj1 (simp_nwm n e Hwt Hn) H).
  - now exists n, r.
Qed.

(** with everything known about the result *)
Theorem simp_result e : wt e = true -> nwm e = true ->
  forall n, (2 * N.to_nat (mu e) <= n)%nat ->
  exists r, simp n e = SOk r /\ ok_rw e r /\ nwm r = true /\ mu r <= mu e /\ exists m, simp m r = SOk r.
Proof.
  intros Hwt Hn n Hfuel. destruct (simp_fuel_bound e Hwt n Hfuel) as [H|(r & H & M)].
  - exfalso. exact (proj1 (simp_nwm n e Hwt Hn) H).
  - exists r. split; [exact H|]. split; [now apply (simp_sound_lemma n)|].
    split; [exact (proj2 (simp_nwm n e Hwt Hn) r H)|]. split; [exact M|].
    destruct (simp_idempotent_lemma _ _ _ H) as (m & _ & Hm). now exists m.
Qed.

(** the restriction is needed: a wide literal product panics whatever the fuel *)
Example wide_mul_panics :
  let e := BVMul (BVLiteral 129 3) (BVLiteral 129 5) 129 in
  wt e = true /\ nwm e = false /\ forall n, simp (S (S n)) e = SPanic.
Proof.
  split; [vm_compute; reflexivity|]. split; [vm_compute; reflexivity|].
  intros n. reflexivity.
Qed.

Example simp_terminates_ok_example :
  let x := BVSymbol "x" 8 in
  let e := BVEqual (BVAnd (BVShiftLeft x (BVLiteral 8 3) 8) (BVLiteral 8 0x5A) 8)
                   (BVConcat (BVSlice x 7 4) (BVNot (BVSlice x 3 0) 4) 8) in
  wt e = true /\ nwm e = true.
Proof. vm_compute. split; reflexivity. Qed.

Print Assumptions simp_terminates_ok.
Print Assumptions simp_result.
Print Assumptions simp_nwm.
