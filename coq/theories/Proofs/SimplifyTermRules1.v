(** * Proofs/SimplifyTermRules1.v — every fired rule strictly decreases the termination measure
    (part 1: not, extensions, implies, >=, add, mul, shifts by constants). *)
From Coq Require Import Lia.
From Patronus Require Import Simplify BVLemmas ExprLemmas EvalProofs BVRuleLemmas ExprEqb SimplifyBuilders
     SimplifyRules1 SimplifyTermMeasure SimplifyTermArith.
Open Scope N_scope.

(** add [1 <= mu x] for every [mu x] of the goal *)
Ltac pose_mu_pos :=
  repeat match goal with
         | |- context [mu ?x] =>
             lazymatch goal with
             | _ : 1 <= mu x |- _ => fail
             | _ => pose proof (mu_pos x)
             end
         end.

Ltac inv_some' :=
  match goal with
  | H : Some ?x = Some ?r |- _ =>
      let E := fresh "E" in assert (E : r = x) by (now inversion H); subst r; clear H
  | H : Ok (Some ?x) = Ok (Some ?r) |- _ =>
      let E := fresh "E" in assert (E : r = x) by (now inversion H); subst r; clear H
  | H : None = Some _ |- _ => discriminate H
  | H : Ok None = Ok (Some _) |- _ => discriminate H
  | H : Panic = Ok _ |- _ => discriminate H
  end.

(** ** not *)
Lemma simplify_bv_not_dec x w r : simplify_bv_not x = Some r -> mu r < mu (BVNot x w).
Proof.
  intros Hs. destruct x; cbn [simplify_bv_not] in Hs; try discriminate; inv_some'; cbn [mu]; pose_mu_pos; lia.
Qed.

(** ** zero extension *)
Lemma simplify_bv_zero_ext_dec x by_ w r : simplify_bv_zero_ext x by_ = Some r -> mu r < mu (BVZeroExt x by_ w).
Proof.
  intros Hs. unfold simplify_bv_zero_ext in Hs. destruct (by_ =? 0).
  - inv_some'. cbn [mu]. lia.
  - destruct x; inv_some'; cbn [mu mk_concat mk_zero]; pose_mu_pos; lia.
Qed.

(** ** sign extension *)
Lemma simplify_bv_sign_ext_dec x by_ w r : simplify_bv_sign_ext x by_ = Some r -> mu r < mu (BVSignExt x by_ w).
Proof.
  intros Hs. unfold simplify_bv_sign_ext in Hs. destruct (by_ =? 0).
  - inv_some'. cbn [mu]. lia.
  - destruct x; inv_some'; cbn [mu]; try lia.
    pose proof (mu_mk_sext x (by_ + by_0)). lia.
Qed.

(** ** implies *)
Lemma simplify_implies_dec a b : wt (BVImplies a b) = true -> mu (mk_or (mk_not a) b) < mu (BVImplies a b).
Proof.
  intros Hwt. apply wt_implies in Hwt. destruct Hwt as (Wa & Wb & Ta & Tb).
  cbn [mu mk_or mk_not]. unfold width. rewrite Tb. unfold mB. rewrite cP_1. lia.
Qed.

(** ** unsigned >= *)
Lemma simplify_bv_greater_equal_dec a b r :
  wt (BVGreaterEqual a b) = true -> simplify_bv_greater_equal a b = Some r -> mu r < mu (BVGreaterEqual a b).
Proof.
  intros Hwt Hs. apply wt_uge in Hwt. destruct Hwt as (Wa & Wb & w & Ta & Tb).
  assert (Hwa : width a = w) by (unfold width; now rewrite Ta).
  assert (Hge : 2 <= mE (width a) (mu a) (mu b)).
  { pose proof (mE_ge (width a) (mu a) (mu b)). pose proof (mu_pos a). pose proof (mu_pos b). lia. }
  unfold simplify_bv_greater_equal in Hs. cbn [mu].
  destruct (lit_dec a) as [[[wa va] ->]|Na]; cbn [fst snd] in *.
  - destruct (lit_dec b) as [[[wb vb] ->]|Nb]; cbn [fst snd] in *.
    + inv_some'. cbn [mu] in *. lia.
    + assert (Hs' : (if va =? N.ones (width (BVLiteral wa va)) then Some mk_true else None) = Some r)
        by (not_lit b Nb; exact Hs).
      destruct (va =? N.ones (width (BVLiteral wa va))); inv_some'. cbn [mu mk_true] in *. lia.
  - destruct (lit_dec b) as [[[wb vb] ->]|Nb]; cbn [fst snd] in *.
    + assert (Hs' : (if vb =? 0 then Some mk_true
                     else if vb =? N.ones (width a) then Some (mk_equal a (BVLiteral wb vb)) else None) = Some r)
        by (not_lit a Na; exact Hs).
      destruct (vb =? 0); [inv_some'; cbn [mu mk_true] in *; lia|].
      destruct (vb =? N.ones (width a)); inv_some'.
      rewrite (mu_mk_equal _ _ _ Ta), Hwa in *. cbn [mu] in *. lia.
    + exfalso. not_lit a Na; not_lit b Nb; discriminate Hs.
Qed.

(** ** add *)
Lemma simplify_bv_add_dec a b w r :
  wt (BVAdd a b w) = true -> simplify_bv_add a b = Some r -> mu r < mu (BVAdd a b w).
Proof.
  intros Hwt Hs. apply wt_add in Hwt. destruct Hwt as (Wa & Wb & Ta & Tb).
  assert (Hwb : width b = w) by (unfold width; now rewrite Tb).
  pose proof (mB_gt w (mu a) (mu b)) as Hgt. pose proof (mu_pos a). pose proof (mu_pos b).
  unfold simplify_bv_add in Hs. cbn [mu].
  destruct (width a =? 1).
  - inv_some'. cbn [mu mk_xor]. rewrite Hwb. lia.
  - pose proof (find_lits_view a b) as V. destruct (find_lits_commutative a b) as [wa va wb vb|wl vl le other|].
    + inv_some'. cbn [mu]. lia.
    + destruct (vl =? 0); inv_some'. destruct V as [(-> & -> & -> & _)|(-> & -> & -> & _)]; cbn [mu] in *; lia.
    + discriminate.
Qed.

(** ** mul *)
Lemma simplify_bv_mul_dec a b w r :
  wt (BVMul a b w) = true -> simplify_bv_mul a b = Ok (Some r) -> mu r < mu (BVMul a b w).
Proof.
  intros Hwt Hs. apply wt_mul in Hwt. destruct Hwt as (Wa & Wb & Ta & Tb).
  assert (Hwb : width b = w) by (unfold width; now rewrite Tb).
  pose proof (mB_gt w (mu a) (mu b)) as Hgt. pose proof (mu_pos a). pose proof (mu_pos b).
  unfold simplify_bv_mul in Hs. cbn [mu].
  destruct (width a =? 1).
  - inv_some'. cbn [mu mk_and]. rewrite Hwb. lia.
  - pose proof (find_lits_view a b) as V. destruct (find_lits_commutative a b) as [wa va wb vb|wl vl le other|].
    + destruct (128 <? wa); inv_some'. cbn [mu]. lia.
    + destruct (vl =? 0).
      { inv_some'. destruct V as [(-> & -> & -> & _)|(-> & -> & -> & _)]; cbn [mu] in *; lia. }
      destruct (vl =? 1).
      { inv_some'. destruct V as [(-> & -> & -> & _)|(-> & -> & -> & _)]; cbn [mu] in *; lia. }
      destruct (Simplify.lit_is_pow_2 vl) as [k|]; inv_some'.
      cbn [mu mk_shl]. unfold mB in *. pose proof (cP_ge8 w).
      destruct V as [(-> & -> & -> & _)|(-> & -> & -> & _)]; cbn [mu] in *; nia.
    + discriminate.
Qed.

(** ** shifts by constants *)
Lemma simplify_bv_shift_left_dec a b w r :
  simplify_bv_shift_left a b w = Some r -> mu r < mu (BVShiftLeft a b w).
Proof.
  intros Hs. unfold simplify_bv_shift_left in Hs. cbn [mu]. pose proof (mu_pos a). pose proof (mu_pos b).
  destruct (lit_dec b) as [[[wb k] ->]|Nb]; cbn [fst snd] in *.
  2: { exfalso. destruct a; not_lit b Nb; discriminate Hs. }
  destruct (lit_dec a) as [[[wa va] ->]|Na]; cbn [fst snd] in *.
  - inv_some'. cbn [mu]. lia.
  - assert (Hs' : (if w <=? k then Some (mk_zero w) else if k =? 0 then Some a
                   else Some (mk_concat (mk_slice a (w - 1 - k) 0) (mk_zero k))) = Some r)
      by (not_lit a Na; exact Hs).
    clear Hs. destruct (w <=? k); [inv_some'; cbn [mu mk_zero]; lia|].
    destruct (k =? 0); inv_some'; [lia|].
    cbn [mu mk_concat mk_zero]. pose proof (mu_mk_slice a (w - 1 - k) 0). lia.
Qed.

Lemma simplify_bv_shift_right_dec a b w r :
  simplify_bv_shift_right a b w = Some r -> mu r < mu (BVShiftRight a b w).
Proof.
  intros Hs. unfold simplify_bv_shift_right in Hs. cbn [mu]. pose proof (mu_pos a). pose proof (mu_pos b).
  destruct (lit_dec b) as [[[wb k] ->]|Nb]; cbn [fst snd] in *.
  2: { exfalso. destruct a; not_lit b Nb; discriminate Hs. }
  destruct (lit_dec a) as [[[wa va] ->]|Na]; cbn [fst snd] in *.
  - inv_some'. cbn [mu]. lia.
  - assert (Hs' : (if w <=? k then Some (mk_zero w) else if k =? 0 then Some a
                   else Some (mk_zext (mk_slice a (w - 1) k) k)) = Some r)
      by (not_lit a Na; exact Hs).
    clear Hs. destruct (w <=? k); [inv_some'; cbn [mu mk_zero]; lia|].
    destruct (k =? 0); inv_some'; [lia|].
    pose proof (mu_mk_zext (mk_slice a (w - 1) k) k). pose proof (mu_mk_slice a (w - 1) k). cbn [mu] in *. lia.
Qed.

Lemma simplify_bv_arithmetic_shift_right_dec a b w r :
  simplify_bv_arithmetic_shift_right a b w = Some r -> mu r < mu (BVArithmeticShiftRight a b w).
Proof.
  intros Hs. unfold simplify_bv_arithmetic_shift_right in Hs. cbn [mu]. pose proof (mu_pos a). pose proof (mu_pos b).
  destruct (lit_dec b) as [[[wb k] ->]|Nb]; cbn [fst snd] in *.
  2: { exfalso. destruct a; not_lit b Nb; discriminate Hs. }
  destruct (lit_dec a) as [[[wa va] ->]|Na]; cbn [fst snd] in *.
  - inv_some'. cbn [mu]. lia.
  - assert (Hs' : (if w <=? k then Some (mk_sext (mk_slice a (w - 1) (w - 1)) (w - 1)) else if k =? 0 then Some a
                   else Some (mk_sext (mk_slice a (w - 1) k) k)) = Some r)
      by (not_lit a Na; exact Hs).
    clear Hs. destruct (w <=? k).
    + inv_some'. pose proof (mu_mk_sext (mk_slice a (w - 1) (w - 1)) (w - 1)).
      pose proof (mu_mk_slice a (w - 1) (w - 1)). cbn [mu] in *. lia.
    + destruct (k =? 0); inv_some'; [lia|].
      pose proof (mu_mk_sext (mk_slice a (w - 1) k) k). pose proof (mu_mk_slice a (w - 1) k). cbn [mu] in *. lia.
Qed.
