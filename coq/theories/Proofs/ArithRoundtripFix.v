(** * Proofs/ArithRoundtripFix.v — the round trip through the REPAIRED [to_arith]
    (Model.Arith [convf], patches/0001-fix-to_arith-mixed-extension-chain.diff) preserves width
    and value for add/sub/mul/shift trees under ANY extensions (no "one kind" restriction). *)
From Coq Require Import Lia ZArith.
From Patronus Require Import Arith BVLemmas ExprLemmas EvalProofs ArithLemmas ArithProofs ArithRoundtrip.
Open Scope N_scope.

(** ** stripping a run of one kind *)

Lemma wt_strip_kind s e : wt e = true -> wt (strip_kind s e) = true.
Proof.
  induction e; intros H; cbn [strip_kind]; auto; destruct s; auto.
  - apply wt_zext in H. now apply IHe.
  - apply wt_sext in H. now apply IHe.
Qed.

Lemma strip_kind_width_le s e : forall w w0, wt e = true -> type_of e = TBV w ->
  type_of (strip_kind s e) = TBV w0 -> w0 <= w.
Proof.
  induction e; intros w' w0 Hwt Ht Hs; cbn [strip_kind] in Hs;
    try (rewrite Ht in Hs; injection Hs as Hs; lia).
  - destruct s; [rewrite Ht in Hs; injection Hs as Hs; lia|].
    apply wt_zext in Hwt. destruct Hwt as (Hwa & Hta & Hlt). cbn [type_of] in Ht. injection Ht as Ht.
    subst. specialize (IHe _ _ Hwa Hta Hs). lia.
  - destruct s; [|rewrite Ht in Hs; injection Hs as Hs; lia].
    apply wt_sext in Hwt. destruct Hwt as (Hwa & Hta & Hlt). cbn [type_of] in Ht. injection Ht as Ht.
    subst. specialize (IHe _ _ Hwa Hta Hs). lia.
Qed.

Section Runs.
  Variable rho : env.
  Hypothesis Hrho : env_wf rho.

  Lemma no_run_value s e w1 w0 : wt e = true -> type_of e = TBV w1 -> type_of e = TBV w0 ->
    ebv rho e = extv s w0 w1 (ebv rho e).
  Proof.
    intros Hwt Ht Hs. rewrite Ht in Hs. injection Hs as Hs. subst w0.
    symmetry. apply extv_same. now apply ebv_bound.
  Qed.

  (** the value of an expression is its maximal run of [s]-extensions applied, as ONE extension, to
      what is below the run *)
  Lemma run_value s e : forall w1 w0, wt e = true -> type_of e = TBV w1 ->
    type_of (strip_kind s e) = TBV w0 -> 1 <= w0 ->
    ebv rho e = extv s w0 w1 (ebv rho (strip_kind s e)).
  Proof.
    induction e; intros w1 w0 Hwt Ht Hs Hw0; cbn [strip_kind] in *;
      try (now apply no_run_value).
    - (* zext *)
      destruct s; [now apply no_run_value|].
      apply wt_zext in Hwt. destruct Hwt as (Hwa & Hta & Hlt).
      cbn [ebv extv]. unfold bv_zext. rewrite (IHe _ _ Hwa Hta Hs Hw0). reflexivity.
    - (* sext *)
      destruct s; [|now apply no_run_value].
      apply wt_sext in Hwt. destruct Hwt as (Hwa & Hta & Hlt). cbn [type_of] in Ht. injection Ht as Ht. subst w1.
      cbn [ebv extv]. unfold width. rewrite Hta. rewrite (IHe _ _ Hwa Hta Hs Hw0). cbn [extv].
      pose proof (strip_kind_width_le true e _ _ Hwa Hta Hs) as Hle.
      assert (Hb : ebv rho (strip_kind true e) < 2 ^ w0) by (apply ebv_bound; auto using wt_strip_kind).
      replace (w - by_) with (w0 + (w - by_ - w0)) at 1 by lia.
      rewrite sext_compose by assumption. f_equal. lia.
  Qed.
End Runs.

(** ** the induction *)

(** the node at which the traversal continues in mode [m] *)
Definition visited (m : option bool) (e : expr) : expr :=
  match m with None => e | Some s => strip_kind s e end.

Definition rtf_ok (m : option bool) (e : expr) : Prop :=
  exists t e2 w0, convf m e = Ok t /\ type_of (visited m e) = TBV w0 /\ 1 <= w0 <= u32_max /\
    (forall ew, is_bv_symbol (visited m e) = false \/ ew = w0 -> from_arith ew t = Ok e2) /\
    type_of e2 = TBV w0 /\ wt e2 = true /\
    forall rho, env_wf rho -> ebv rho e2 = ebv rho (visited m e).

Definition mk_ext (s : bool) (e' : expr) (by_ w : N) : expr :=
  if s then BVSignExt e' by_ w else BVZeroExt e' by_ w.

Lemma zero_operand : from_arith 1 (AConst 0) = Ok (BVLiteral 1 0) /\ wt (BVLiteral 1 0) = true.
Proof. split; reflexivity. Qed.

(** an extension visited as a node: [ext(x) + 0] *)
Lemma rtf_ext_node s e' by_ w :
  wt (mk_ext s e' by_ w) = true -> w <= u32_max -> rtf_ok (Some s) e' ->
  exists t e2, convert_ext_node (mk_ext s e' by_ w) w (convf (Some s) e') = Ok t /\
    (forall ew, from_arith ew t = Ok e2) /\ type_of e2 = TBV w /\ wt e2 = true /\ 1 <= w /\
    forall rho, env_wf rho -> ebv rho e2 = ebv rho (mk_ext s e' by_ w).
Proof.
  intros Hwt Hw32 (t' & e2' & w0 & Hc & Hs & [H01 H02] & Hl & Hte & Hwe & Hv).
  cbn [visited] in *.
  set (e := mk_ext s e' by_ w) in *.
  assert (Htype : type_of e = TBV w) by (unfold e, mk_ext; destruct s; reflexivity).
  assert (Hstrip : strip_kind s e = strip_kind s e') by (unfold e, mk_ext; destruct s; reflexivity).
  assert (Hrm : remove_ext_fix e = (strip_kind s e', s)).
  { unfold remove_ext_fix, e, mk_ext. destruct s; reflexivity. }
  assert (Hle : w0 <= w).
  { apply (strip_kind_width_le s e w w0 Hwt Htype). now rewrite Hstrip. }
  assert (Hw1 : 1 <= w) by lia.
  destruct zero_operand as [Hf0 Hwt0].
  assert (H11 : wterm (AWidth 1) 1) by (constructor; unfold u32_max; lia).
  assert (Hl0 : from_arith w0 t' = Ok e2') by (apply Hl; right; reflexivity).
  pose proof (node_ok_lowered OAdd (AWidth w) w (AWidth w0) w0 s t' (AWidth 1) 1 false (AConst 0) e2' (BVLiteral 1 0)) as Hnode.
  cbv zeta in Hnode.
  destruct (Hnode 0 (wterm_const w Hw32) (wterm_const w0 H02) H11 Hw1 H01 (N.le_refl 1) Hl0 Hte Hwe Hf0 eq_refl Hwt0)
    as (_ & Hty & Hwt2 & Hval).
  exists (ABin OAdd (AWidth w) (AWidth w0) (ASign s) t' (AWidth 1) (ASign false) (AConst 0)),
         (bin_expr OAdd w w0 s e2' 1 false (BVLiteral 1 0)).
  split.
  { unfold convert_ext_node. rewrite Hc. cbn [bind]. rewrite Hrm, Hs. reflexivity. }
  split.
  { intros ew.
    destruct (Hnode ew (wterm_const w Hw32) (wterm_const w0 H02) H11 Hw1 H01 (N.le_refl 1) Hl0 Hte Hwe Hf0 eq_refl Hwt0)
      as (Hf & _). exact Hf. }
  split; [exact Hty|]. split; [exact Hwt2|]. split; [exact Hw1|].
  intros rho Hrho. destruct (Hval rho Hrho) as [Ev Hb]. 
  assert (Hx : ebv rho (strip_kind s e') < 2 ^ w0).
  { apply ebv_bound; auto. apply wt_strip_kind.
    unfold e, mk_ext in Hwt. destruct s; [apply wt_sext in Hwt | apply wt_zext in Hwt]; tauto. }
  apply (cong_eq w); [exact Hb | now apply ebv_bound|].
  rewrite Ev, (Hv rho Hrho). cbn [ebv].
  eapply cong_trans; [apply den_bin_add; auto; reflexivity|].
  cbn [sval]. rewrite Z.add_0_r.
  rewrite (run_value rho Hrho s e w w0 Hwt Htype) by (rewrite ?Hstrip; auto).
  rewrite Hstrip. apply cong_sym. now apply extv_cong.
Qed.

Lemma frag_fix_mk_op op a b w :
  frag_fix (mk_op op a b w) = (w <=? u32_max) && frag_fix a && frag_fix b.
Proof. destruct op; reflexivity. Qed.

Lemma convf_mk_op m op a b w :
  convf m (mk_op op a b w)
  = convert_bin_op_fix op a b w (convf (Some (ext_sign a)) a) (convf (Some (ext_sign b)) b).
Proof. destruct op; reflexivity. Qed.

Lemma visited_mk_op m op a b w : visited m (mk_op op a b w) = mk_op op a b w.
Proof. destruct m as [s|]; [|reflexivity]. destruct op; reflexivity. Qed.

Lemma is_symbol_mk_op op a b w : is_bv_symbol (mk_op op a b w) = false.
Proof. destruct op; reflexivity. Qed.

Lemma rtf_binop_case op a b w m :
  (wt a = true -> frag_fix a = true -> forall m, rtf_ok m a) ->
  (wt b = true -> frag_fix b = true -> forall m, rtf_ok m b) ->
  wt (mk_op op a b w) = true -> frag_fix (mk_op op a b w) = true ->
  rtf_ok m (mk_op op a b w).
Proof.
  intros IHa IHb Hwt Hfr.
  destruct (wt_mk_op_inv op a b w Hwt) as (Hwa & Hwb & Hta & Htb).
  rewrite frag_fix_mk_op in Hfr. repeat rewrite andb_true_iff in Hfr.
  destruct Hfr as ((Hw32 & Hfa) & Hfb). apply N.leb_le in Hw32.
  set (sa := ext_sign a). set (sb := ext_sign b).
  destruct (IHa Hwa Hfa (Some sa)) as (ta & ea2 & wa0 & Hca & Hsa & [Ha1 Ha2] & Hla & Htea & Hwea & Hva).
  destruct (IHb Hwb Hfb (Some sb)) as (tb & eb2 & wb0 & Hcb & Hsb & [Hb1 Hb2] & Hlb & Hteb & Hweb & Hvb).
  cbn [visited] in *.
  pose proof (strip_kind_width_le sa a _ _ Hwa Hta Hsa) as Hlea.
  pose proof (strip_kind_width_le sb b _ _ Hwb Htb Hsb) as Hleb.
  assert (Hw1 : 1 <= w) by lia.
  destruct (node_ok_lowered op (AWidth w) w (AWidth wa0) wa0 sa ta (AWidth wb0) wb0 sb tb ea2 eb2 0)
    as (_ & Hte & Hwe & Hve); auto using wterm_const.
  unfold rtf_ok. rewrite visited_mk_op, type_of_mk_op, is_symbol_mk_op.
  exists (ABin op (AWidth w) (AWidth wa0) (ASign sa) ta (AWidth wb0) (ASign sb) tb),
         (bin_expr op w wa0 sa ea2 wb0 sb eb2), w.
  split.
  { rewrite convf_mk_op. unfold convert_bin_op_fix, remove_ext_fix. fold sa sb. rewrite Hca, Hcb. cbn [bind].
    rewrite Hsa, Hsb, Hta, Htb, N.eqb_refl. reflexivity. }
  split; [reflexivity|]. split; [lia|]. split.
  { intros ew _.
    destruct (node_ok_lowered op (AWidth w) w (AWidth wa0) wa0 sa ta (AWidth wb0) wb0 sb tb ea2 eb2 ew)
      as (Hf & _); auto using wterm_const. }
  split; [exact Hte|]. split; [exact Hwe|].
  intros rho Hrho. destruct (Hve rho Hrho) as [Ev _]. rewrite Ev, (Hva rho Hrho), (Hvb rho Hrho).
  rewrite ebv_mk_op.
  rewrite (run_value rho Hrho sa a w wa0 Hwa Hta Hsa Ha1).
  rewrite (run_value rho Hrho sb b w wb0 Hwb Htb Hsb Hb1).
  unfold den_bin. replace (N.max (N.max wa0 wb0) w) with w by lia.
  unfold trunc. apply N.mod_small. apply op_val_bound. apply extv_bound; [exact Hlea|].
  apply ebv_bound; auto using wt_strip_kind.
Qed.

Lemma rtf_ext_case s e' by_ w m :
  (wt e' = true -> frag_fix e' = true -> forall m, rtf_ok m e') ->
  wt (mk_ext s e' by_ w) = true -> frag_fix (mk_ext s e' by_ w) = true ->
  rtf_ok m (mk_ext s e' by_ w).
Proof.
  intros IH Hwt Hfr.
  assert (Hwt' : wt e' = true).
  { unfold mk_ext in Hwt. destruct s; [apply wt_sext in Hwt | apply wt_zext in Hwt]; tauto. }
  assert (Hfr' : (w <=? u32_max) && frag_fix e' = true) by (unfold mk_ext in Hfr; destruct s; exact Hfr).
  apply andb_true_iff in Hfr'. destruct Hfr' as [Hw32 Hfe]. apply N.leb_le in Hw32.
  assert (Habsorb : m = Some s \/ m <> Some s).
  { destruct m as [[|]|]; destruct s; auto; right; congruence. }
  destruct Habsorb as [Hm | Hm].
  - (* absorbed into the parent's run *)
    subst m. specialize (IH Hwt' Hfe (Some s)).
    unfold rtf_ok in *. cbn [visited] in *.
    replace (convf (Some s) (mk_ext s e' by_ w)) with (convf (Some s) e') by (unfold mk_ext; destruct s; reflexivity).
    replace (strip_kind s (mk_ext s e' by_ w)) with (strip_kind s e') by (unfold mk_ext; destruct s; reflexivity).
    exact IH.
  - (* visited as a node *)
    destruct (rtf_ext_node s e' by_ w Hwt Hw32 (IH Hwt' Hfe (Some s)))
      as (t & e2 & Hc & Hl & Hty & Hwt2 & Hw1 & Hv).
    assert (Hvis : visited m (mk_ext s e' by_ w) = mk_ext s e' by_ w).
    { unfold visited, mk_ext. destruct m as [[|]|]; destruct s; try reflexivity; congruence. }
    assert (Hconv : convf m (mk_ext s e' by_ w)
                    = convert_ext_node (mk_ext s e' by_ w) w (convf (Some s) e')).
    { unfold mk_ext. destruct m as [[|]|]; destruct s; try reflexivity; congruence. }
    exists t, e2, w. rewrite Hvis, Hconv.
    split; [exact Hc|]. split; [unfold mk_ext; destruct s; reflexivity|]. split; [lia|].
    split; [intros ew _; apply Hl|]. split; [exact Hty|]. split; [exact Hwt2 | exact Hv].
Qed.

Lemma rtf_main e : wt e = true -> frag_fix e = true -> forall m, rtf_ok m e.
Proof.
  induction e; intros Hwt Hfr m; try (cbn [frag_fix] in Hfr; discriminate).
  - (* symbol *)
    cbn [frag_fix] in Hfr. apply N.leb_le in Hfr. pose proof (wt_sym _ _ Hwt) as Hpos.
    assert (Hvis : visited m (BVSymbol name w) = BVSymbol name w) by (destruct m; reflexivity).
    exists (ASymbol name), (BVSymbol name w), w. rewrite Hvis. cbn [convf type_of is_bv_symbol].
    repeat split; auto; try lia.
    intros ew [Hf | He]; [discriminate|]. subst ew. cbn [from_arith].
    destruct (N.eqb_spec w 0); [lia | reflexivity].
  - exact (rtf_ext_case false e by_ w m IHe Hwt Hfr).
  - exact (rtf_ext_case true e by_ w m IHe Hwt Hfr).
  - exact (rtf_binop_case OShl _ _ _ m IHe1 IHe2 Hwt Hfr).
  - exact (rtf_binop_case OAshr _ _ _ m IHe1 IHe2 Hwt Hfr).
  - exact (rtf_binop_case OLshr _ _ _ m IHe1 IHe2 Hwt Hfr).
  - exact (rtf_binop_case OAdd _ _ _ m IHe1 IHe2 Hwt Hfr).
  - exact (rtf_binop_case OMul _ _ _ m IHe1 IHe2 Hwt Hfr).
  - exact (rtf_binop_case OSub _ _ _ m IHe1 IHe2 Hwt Hfr).
Qed.

(** the unrestricted round trip of the repaired code *)
Lemma arith_roundtrip_fix_lemma : forall e, wt e = true -> convertible_fix e = true ->
  exists e', roundtrip_v Fix e = Ok e' /\ wt e' = true /\ type_of e' = type_of e /\
    forall rho, env_wf rho -> ebv rho e' = ebv rho e.
Proof.
  intros e Hwt Hc. unfold convertible_fix in Hc. apply andb_true_iff in Hc. destruct Hc as [Hsym Hfr].
  apply negb_true_iff in Hsym.
  destruct (rtf_main e Hwt Hfr None) as (t & e2 & w0 & Hconv & Hs & _ & Hl & Hte & Hwe & Hv).
  cbn [visited] in *. exists e2. unfold roundtrip_v, to_arith_v. rewrite Hconv. cbn [bind].
  split; [apply Hl; left; exact Hsym|]. split; [exact Hwe|]. split; [congruence | exact Hv].
Qed.

(** every expression of the shape for which the shipped code is refuted is in the repaired domain
    (the stored width of an extension is bounded by the width of the operation above it) *)
Lemma frag_to_fix_binop op a b w w' :
  (forall w, wt a = true -> type_of a = TBV w -> w <= u32_max -> frag (fun _ => true) a = true -> frag_fix a = true) ->
  (forall w, wt b = true -> type_of b = TBV w -> w <= u32_max -> frag (fun _ => true) b = true -> frag_fix b = true) ->
  wt (mk_op op a b w) = true -> type_of (mk_op op a b w) = TBV w' -> w' <= u32_max ->
  frag (fun _ => true) (mk_op op a b w) = true -> frag_fix (mk_op op a b w) = true.
Proof.
  intros IHa IHb Hwt Ht Hw Hfr.
  destruct (wt_mk_op_inv op a b w Hwt) as (Hwa & Hwb & Hta & Htb).
  rewrite frag_mk_op in Hfr. repeat rewrite andb_true_iff in Hfr.
  destruct Hfr as ((((Hw0 & _) & _) & Hfa) & Hfb).
  rewrite frag_fix_mk_op. repeat rewrite andb_true_iff. apply N.leb_le in Hw0.
  repeat split; [now apply N.leb_le | now apply (IHa w) | now apply (IHb w)].
Qed.

Lemma frag_to_fix e : forall w, wt e = true -> type_of e = TBV w -> w <= u32_max ->
  frag (fun _ => true) e = true -> frag_fix e = true.
Proof.
  induction e; intros w' Hwt Ht Hw Hfr; try (cbn [frag] in Hfr; discriminate).
  - exact Hfr.
  - apply wt_zext in Hwt. destruct Hwt as (Hwa & Hta & Hlt). cbn [type_of] in Ht. injection Ht as Ht. subst w'.
    cbn [frag] in Hfr. cbn [frag_fix]. apply andb_true_iff. split; [now apply N.leb_le|].
    apply (IHe (w - by_)); auto. lia.
  - apply wt_sext in Hwt. destruct Hwt as (Hwa & Hta & Hlt). cbn [type_of] in Ht. injection Ht as Ht. subst w'.
    cbn [frag] in Hfr. cbn [frag_fix]. apply andb_true_iff. split; [now apply N.leb_le|].
    apply (IHe (w - by_)); auto. lia.
  - exact (frag_to_fix_binop OShl _ _ _ _ IHe1 IHe2 Hwt Ht Hw Hfr).
  - exact (frag_to_fix_binop OAshr _ _ _ _ IHe1 IHe2 Hwt Ht Hw Hfr).
  - exact (frag_to_fix_binop OLshr _ _ _ _ IHe1 IHe2 Hwt Ht Hw Hfr).
  - exact (frag_to_fix_binop OAdd _ _ _ _ IHe1 IHe2 Hwt Ht Hw Hfr).
  - exact (frag_to_fix_binop OMul _ _ _ _ IHe1 IHe2 Hwt Ht Hw Hfr).
  - exact (frag_to_fix_binop OSub _ _ _ _ IHe1 IHe2 Hwt Ht Hw Hfr).
Qed.

Lemma shape_in_fix_domain e : wt e = true -> convertible_shape e = true -> convertible_fix e = true.
Proof.
  intros Hwt Hc. unfold convertible_shape in Hc. apply andb_true_iff in Hc. destruct Hc as [Hroot Hfr].
  unfold convertible_fix. apply andb_true_iff. split.
  { destruct e; cbn [is_binop_root] in Hroot; try discriminate; reflexivity. }
  destruct e; cbn [is_binop_root] in Hroot; try discriminate;
    (apply (frag_to_fix _ w Hwt eq_refl); [|exact Hfr];
     cbn [frag] in Hfr; repeat rewrite andb_true_iff in Hfr;
     destruct Hfr as ((((Hw & _) & _) & _) & _); now apply N.leb_le).
Qed.

Lemma arith_roundtrip_fix_shape_lemma : forall e, wt e = true -> convertible_shape e = true ->
  exists e', roundtrip_v Fix e = Ok e' /\ wt e' = true /\ type_of e' = type_of e /\
    forall rho, env_wf rho -> ebv rho e' = ebv rho e.
Proof. intros e Hwt Hc. apply arith_roundtrip_fix_lemma; auto using shape_in_fix_domain. Qed.

(** [roundtrip_v Cur] is the shipped round trip; the counterexample of the shipped code is repaired *)
Lemma roundtrip_cur e : roundtrip_v Cur e = roundtrip e.
Proof. reflexivity. Qed.

Lemma rt_cex_fixed_lemma :
  roundtrip_v Fix rt_cex
  = Ok (BVAdd (BVZeroExt (BVAdd (BVSignExt (BVSymbol "x" 2) 2 4) (BVZeroExt (BVLiteral 1 0) 3 4) 4) 3 7)
              (BVSymbol "y" 7) 7) /\
  (forall e', roundtrip_v Fix rt_cex = Ok e' -> ebv rt_cex_env e' = ebv rt_cex_env rt_cex).
Proof.
  split; [vm_compute; reflexivity|]. intros e' H. vm_compute in H. injection H as <-. vm_compute. reflexivity.
Qed.
