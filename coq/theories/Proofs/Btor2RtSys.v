(** * Proofs/Btor2RtSys.v — the reader follows the writer through the system section: input and
    state declarations (with the init tree before the declaration and the broadcast of a
    bit-vector init into an array state), outputs, constraints, bad states, next lines. *)
From Coq Require Import List Lia Bool String Ascii NArith FMapPositive.
From Patronus Require Import Expr ExprLemmas ExprEqb Eval SysClosed Btor2Parse Btor2Ser Btor2ExprFacts Btor2ParseProofs
     Btor2Sound Btor2SerProofs Btor2RoundTripSpec Btor2RtExpr Btor2RtLines Btor2RtSim.
Import ListNotations.
Open Scope string_scope.
Open Scope list_scope.
Open Scope N_scope.

(** ** one id per line *)
Definition cnt (st : wstate) : Prop := w_next st = 1 + N.of_nat (List.length (w_lines st)).

Lemma cnt_step st l : cnt st -> cnt (emit (fst (new_id st)) l).
Proof. unfold cnt. cbn [new_id fst emit w_next w_lines List.length]. lia. Qed.

Lemma cnt_bv_sort st w st' id : bv_sort_id st w = (st', id) -> cnt st -> cnt st'.
Proof.
  unfold bv_sort_id. destruct (find_sort _ _); intros H Hc; inversion H; subst; [exact Hc|].
  unfold cnt in *. cbn [reg_sort emit w_next w_lines List.length]. lia.
Qed.

Lemma cnt_sort_id st t st' id : sort_id st t = (st', id) -> cnt st -> cnt st'.
Proof.
  unfold sort_id. destruct (find_sort _ _); [intros H Hc; inversion H; subst; exact Hc|].
  destruct t as [w|iw dw]; [apply cnt_bv_sort|].
  destruct (bv_sort_id st iw) as [s1 ix] eqn:E1. destruct (bv_sort_id s1 dw) as [s2 dx] eqn:E2.
  intros H Hc. apply (cnt_bv_sort _ _ _ _ E1) in Hc. apply (cnt_bv_sort _ _ _ _ E2) in Hc.
  inversion H; subst. unfold cnt in *. cbn [new_id reg_sort emit w_next w_lines List.length]. lia.
Qed.

Lemma cnt_finish e st cs st' id : finish_emit e st cs = POk (st', id) -> cnt st -> cnt st'.
Proof.
  unfold finish_emit. destruct (sort_id st (type_of e)) as [s2 sort] eqn:Es. cbn [new_id].
  destruct (node_line _ _ _ _); cbn [pbind]; intros H Hc; try discriminate. inversion H; subst.
  apply (cnt_sort_id _ _ _ _ Es) in Hc. unfold cnt in *. cbn [reg_expr emit w_next w_lines List.length]. lia.
Qed.

Lemma cnt_emit_expr : forall e st st' id, emit_expr e st = POk (st', id) -> cnt st -> cnt st'.
Proof.
  apply (expr_ind_children (fun e => forall st st' id, emit_expr e st = POk (st', id) -> cnt st -> cnt st')).
  intros e IH st st' id H Hc. rewrite emit_expr_unfold in H. destruct (find_expr e (w_exprs st)); [inversion H; subst; exact Hc|].
  destruct (is_symbol e); [discriminate|].
  destruct (emit_list (children e) st) as [[s1 cs]| |] eqn:El; cbn [pbind] in H; try discriminate.
  apply (cnt_finish _ _ _ _ _ H). clear H. revert st s1 cs El Hc.
  induction IH as [|c l Hcc _ IHl]; intros st s1 cs El Hc; cbn [emit_list] in El.
  - inversion El; subst; exact Hc.
  - destruct (emit_expr c st) as [[sa a]| |] eqn:Ec; cbn [pbind] in El; try discriminate.
    destruct (emit_list l sa) as [[sb cs']| |] eqn:El'; cbn [pbind] in El; try discriminate.
    inversion El; subst. eapply IHl; eauto.
Qed.

(** ** extending the symbol map by a new symbol *)
Lemma sm_app_cons_other m s v x : x <> s -> sm_app ((s, v) :: m) x = sm_app m x.
Proof.
  intros H. unfold sm_app. cbn [sm_find]. destruct (expr_eqb x s) eqn:E; [apply expr_eqb_eq in E; contradiction|reflexivity].
Qed.

Lemma sm_app_cons_same m s v : sm_app ((s, v) :: m) s = v.
Proof. unfold sm_app. cbn [sm_find]. rewrite expr_eqb_refl. reflexivity. Qed.

Lemma tr_cons m s v e : incl (syms e) (sm_dom m) -> ~ In s (sm_dom m) -> tr ((s, v) :: m) e = tr m e.
Proof.
  intros Hi Hn. apply tr_extend. intros x Hx. apply sm_app_cons_other. intros ->. apply Hn. apply Hi. exact Hx.
Qed.

Lemma inv_extend v m st ps s v0 :
  Inv v m st ps -> ~ In s (sm_dom m) -> is_symbol v0 = true -> type_of v0 = type_of s -> wt v0 = true ->
  Inv v ((s, v0) :: m) st ps.
Proof.
  intros [Hrun Hm Hs He] Hn H1 H2 H3. constructor; auto.
  - apply map_ok_cons; auto.
  - intros e id H. destruct (He _ _ H) as (Hlt & Hf & Hi). split; [exact Hlt|]. split.
    + rewrite (tr_cons m s v0 e Hi Hn). exact Hf.
    + intros x Hx. right. apply Hi. exact Hx.
Qed.

(** a symbol that is not mapped is not cached *)
Lemma not_cached v m st ps s : Inv v m st ps -> is_symbol s = true -> ~ In s (sm_dom m) -> find_expr s (w_exprs st) = None.
Proof.
  intros Hinv Hs Hn. destruct (find_expr s (w_exprs st)) as [i|] eqn:E; [|reflexivity]. exfalso.
  destruct (i_exprs _ _ _ _ Hinv _ _ E) as (_ & _ & Hi). apply Hn. apply Hi. rewrite (syms_symbol s Hs). left. reflexivity.
Qed.

(** registering an expression when the reader's new state is only known up to names *)
Lemma inv_reg_expr' v m st ps l e ps' :
  Inv v m st ps -> find_expr e (w_exprs st) = None -> incl (syms e) (sm_dom m) ->
  parse_line_v v true ps l = POk ps' -> p_types ps' = p_types ps ->
  p_signals ps' = PM.add (key (w_next st)) (tr m e) (p_signals ps) ->
  Inv v m (reg_expr (emit (fst (new_id st)) l) e (w_next st)) ps' /\
  mono st (reg_expr (emit (fst (new_id st)) l) e (w_next st)).
Proof.
  intros [Hrun Hm Hs He] Hnone Hincl Hl Ht Hsg. split.
  - constructor.
    + apply (run_emit v _ l ps); [exact Hrun|exact Hl].
    + exact Hm.
    + intros t0 id H. cbn [reg_expr emit new_id fst w_sorts w_next] in *. destruct (Hs _ _ H) as [Hlt Hf]. split; [lia|]. rewrite Ht. exact Hf.
    + intros e0 id. cbn [reg_expr emit new_id fst w_exprs w_next find_expr]. destruct (expr_eqb e0 e) eqn:E.
      * intros H. inversion H; subst id. apply expr_eqb_eq in E. subst e0. split; [lia|]. split; [|exact Hincl].
        rewrite Hsg. apply PM.gss.
      * intros H. destruct (He _ _ H) as (Hlt & Hf & Hi). split; [lia|]. split; [|exact Hi].
        rewrite Hsg, PM.gso; [exact Hf|]. apply key_neq. lia.
  - split; [cbn; lia|]. split.
    + intros t0 i H. exact H.
    + intros e0 i H. cbn [reg_expr emit new_id fst w_exprs find_expr]. destruct (expr_eqb e0 e) eqn:E; [|exact H].
      apply expr_eqb_eq in E. subst e0. congruence.
Qed.

(** ** the shape of the reader's system while inputs and states are declared *)
Definition trs (m : smap) (wn : bool) (s : state) : state :=
  {| st_sym := sm_app m (st_sym s); st_init := option_map (tr m) (st_init s);
     st_next := if wn then option_map (tr m) (st_next s) else None |}.

Record Sh (m : smap) (ps : pstate) (ins : list expr) (sts : list state) (sids : list N) : Prop := mkSh {
  sh_dom : forall s, In s (sm_dom m) <-> In s (ins ++ map st_sym sts);
  sh_inputs : p_inputs ps = map (sm_app m) ins;
  sh_states : p_states ps = map (trs m false) sts;
  sh_ids : forall j sid, nth_error sids j = Some sid -> PM.find (key sid) (p_statemap ps) = Some j;
  sh_len : List.length sids = List.length sts;
  sh_init : forall s e, In s sts -> st_init s = Some e -> incl (syms e) (sm_dom m)
}.

Definition no_props (ps : pstate) : Prop := p_outputs ps = [] /\ p_bads ps = [] /\ p_constraints ps = [].

Lemma sh_extend m ps ins sts sids s v :
  Sh m ps ins sts sids -> ~ In s (sm_dom m) ->
  map (sm_app ((s, v) :: m)) ins = map (sm_app m) ins /\ map (trs ((s, v) :: m) false) sts = map (trs m false) sts.
Proof.
  intros Hsh Hn. split.
  - apply map_ext_in. intros x Hx. apply sm_app_cons_other. intros ->. apply Hn. apply (sh_dom _ _ _ _ _ Hsh).
    apply in_or_app. left. exact Hx.
  - apply map_ext_in. intros x Hx. unfold trs. f_equal.
    + apply sm_app_cons_other. intros E. apply Hn. apply (sh_dom _ _ _ _ _ Hsh). apply in_or_app. right.
      rewrite <- E. apply in_map. exact Hx.
    + destruct (st_init x) as [e|] eqn:Ei; cbn [option_map]; [|reflexivity]. f_equal.
      apply tr_cons; [|exact Hn]. apply (sh_init _ _ _ _ _ Hsh x e Hx Ei).
Qed.

Lemma rest_eq_sh m ps ps' ins sts sids : rest_eq ps ps' -> Sh m ps ins sts sids -> Sh m ps' ins sts sids.
Proof.
  intros (H1 & H2 & H3 & _) [A B C D E F]. constructor; auto; try congruence. intros j sid H. rewrite <- H1. auto.
Qed.

Lemma rest_eq_no_props ps ps' : rest_eq ps ps' -> no_props ps -> no_props ps'.
Proof. intros (_ & _ & _ & H4 & H5 & H6) (A & B & C). repeat split; congruence. Qed.

(** ** inputs *)
Lemma emit_input_sim v m st ps i ins sts sids :
  Inv v m st ps -> Sh m ps ins sts sids -> no_props ps ->
  is_symbol i = true -> wt i = true -> efits i = true -> ~ In i (sm_dom m) ->
  w_next (emit_input st i) <= BOUND ->
  exists sv ps', Inv v ((i, sv) :: m) (emit_input st i) ps' /\ Sh ((i, sv) :: m) ps' (ins ++ [i]) sts sids /\ no_props ps' /\
                w_next st <= w_next (emit_input st i).
Proof.
  intros Hinv Hsh Hnp Hsym Hwt Hf Hn Hb. unfold emit_input in *.
  destruct (sort_id st (type_of i)) as [st1 sort] eqn:Es. cbn [new_id] in *. cbn [reg_expr emit w_next] in Hb.
  destruct (sort_id_sim v m st ps (type_of i) st1 sort Hinv (efits_ty i Hf) (wt_pos i Hwt) Es ltac:(lia))
    as (ps1 & Hinv1 & Hr1 & Hsg1 & Hfs & Hmo1 & He1).
  destruct (i_sorts _ _ _ _ Hinv1 _ _ Hfs) as [Hls Hts]. unfold BOUND in *.
  destruct (input_line ps1 (w_next st1) sort (type_of i) ltac:(lia) ltac:(lia) Hts (wt_pos i Hwt)) as (ps' & n & Hl & Hce).
  set (sv := mk_sym n (type_of i)) in *.
  destruct (mk_sym_props n (type_of i) (wt_pos i Hwt)) as (Hv1 & Hv2 & Hv3). fold sv in Hv1, Hv2, Hv3.
  exists sv, ps'.
  pose proof (inv_extend v m st1 ps1 i sv Hinv1 Hn Hv1 Hv2 Hv3) as Hinv1'.
  assert (Hnone : find_expr i (w_exprs st1) = None) by (apply (not_cached v m st1 ps1); auto).
  destruct Hce as (C1 & C2 & C3 & C4 & C5 & C6 & C7 & C8). cbn [set_signal add_input p_types p_statemap p_signals p_inputs p_states p_outputs p_bads p_constraints] in *.
  assert (Htr : tr ((i, sv) :: m) i = sv).
  { destruct i; cbn [is_symbol] in Hsym; try discriminate; cbn [tr]; apply sm_app_cons_same. }
  assert (Hlv : parse_line_v v true ps1 [num (w_next st1); "input"; num sort] = POk ps').
  { apply plv; [intros _; apply (decl_pre ps1 _ sort (type_of i)); auto; [lia|apply wt_pos; exact Hwt]|exact Hl]. }
  destruct (inv_reg_expr' v ((i, sv) :: m) st1 ps1 [num (w_next st1); "input"; num sort] i ps' Hinv1') as [Hinv' Hmono]; auto.
  { rewrite (syms_symbol i Hsym). intros x [<-|[]]. left. reflexivity. }
  { rewrite Htr. exact C3. }
  split; [exact Hinv'|]. split; [|split].
  - pose proof (rest_eq_sh _ _ _ _ _ _ Hr1 Hsh) as Hsh1. destruct (sh_extend m ps1 ins sts sids i sv Hsh1 Hn) as [Hx1 Hx2].
    destruct Hsh1 as [A B C D E F]. constructor.
    + intros s. cbn [sm_dom map fst]. rewrite !in_app_iff. cbn [In].
      specialize (A s). rewrite in_app_iff in A. change (map fst m) with (sm_dom m). tauto.
    + rewrite C4, B, map_app, Hx1. cbn [map]. rewrite sm_app_cons_same. reflexivity.
    + rewrite C5, C, Hx2. reflexivity.
    + intros j sid H. rewrite C2. auto.
    + exact E.
    + intros s e Hs He. intros x Hx. right. apply (F s e Hs He). exact Hx.
  - apply (rest_eq_no_props _ _ Hr1) in Hnp. destruct Hnp as (N1 & N2 & N3). repeat split; congruence.
  - destruct Hmo1 as [Hm1 _]. cbn [reg_expr emit w_next]. lia.
Qed.

Lemma emit_input_next st i : w_next st <= w_next (emit_input st i).
Proof.
  unfold emit_input. destruct (sort_id st (type_of i)) as [st1 sort] eqn:Es. cbn [new_id reg_expr emit w_next].
  pose proof (sort_id_mono_next _ _ _ _ Es). lia.
Qed.

Lemma inputs_next l : forall st, w_next st <= w_next (fold_left emit_input l st).
Proof.
  induction l as [|i l IH]; intros st; cbn [fold_left]; [lia|].
  pose proof (emit_input_next st i). pose proof (IH (emit_input st i)). lia.
Qed.

Definition sym_ok (i : expr) : Prop := is_symbol i = true /\ wt i = true /\ efits i = true.

Lemma inputs_sim v : forall l m st ps ins,
  Inv v m st ps -> Sh m ps ins [] [] -> no_props ps ->
  Forall sym_ok l -> NoDup (ins ++ l) ->
  w_next (fold_left emit_input l st) <= BOUND ->
  exists m' ps', Inv v m' (fold_left emit_input l st) ps' /\ Sh m' ps' (ins ++ l) [] [] /\ no_props ps'.
Proof.
  induction l as [|i l IH]; intros m st ps ins Hinv Hsh Hnp Hok Hnd Hb; cbn [fold_left] in *.
  - exists m, ps. rewrite app_nil_r. auto.
  - apply Forall_cons_iff in Hok. destruct Hok as [(Hs & Hw & Hf) Hok].
    assert (Hn : ~ In i (sm_dom m)).
    { intros Hin. apply (sh_dom _ _ _ _ _ Hsh) in Hin. cbn [map] in Hin. rewrite app_nil_r in Hin.
      apply NoDup_remove_2 in Hnd. apply Hnd. apply in_or_app. left. exact Hin. }
    pose proof (inputs_next l (emit_input st i)) as Hmn.
    destruct (emit_input_sim v m st ps i ins [] [] Hinv Hsh Hnp Hs Hw Hf Hn ltac:(lia)) as (sv & ps1 & Hinv1 & Hsh1 & Hnp1 & _).
    destruct (IH _ _ _ _ Hinv1 Hsh1 Hnp1 Hok) as (m' & ps' & H1 & H2 & H3).
    + rewrite <- app_assoc. exact Hnd.
    + exact Hb.
    + exists m', ps'. rewrite <- app_assoc in H2. auto.
Qed.

(** ** states *)
Lemma update_nth_last {A} (f : A -> A) (l : list A) (x : A) :
  update_nth (List.length l) f (l ++ [x]) = l ++ [f x].
Proof. induction l as [|y l IH]; cbn [List.length app update_nth]; [reflexivity|]. rewrite IH. reflexivity. Qed.

Lemma nth_last {A} (l : list A) (x d : A) : nth (List.length l) (l ++ [x]) d = x.
Proof. induction l as [|y l IH]; cbn [List.length app nth]; auto. Qed.

Lemma nth_error_snoc {A} (l : list A) (x : A) j y :
  nth_error (l ++ [x]) j = Some y -> (nth_error l j = Some y) \/ (j = List.length l /\ y = x).
Proof.
  revert j. induction l as [|z l IH]; intros j; cbn [app List.length].
  - destruct j as [|j]; cbn [nth_error]; [intros H; inversion H; auto|]. destruct j; discriminate.
  - destruct j as [|j]; cbn [nth_error]; [auto|]. intros H. destruct (IH _ H) as [H1|[H1 H2]]; [auto|right; split; congruence].
Qed.

(** the value of the init line agrees with the translation of the init expression *)
Lemma init_value_tr m t init :
  map_ok m -> wt init = true -> type_of init = t ->
  init_value t (tr m (match t, init with TArr _ _, ArrayConstant e _ _ => e | _, _ => init end)) = tr m init.
Proof.
  intros Hm Hwt Ht. destruct t as [w|iw dw].
  - unfold init_value. reflexivity.
  - destruct init; try (unfold init_value; rewrite (tr_type m _ Hm Hwt), Ht; reflexivity).
    cbn [type_of] in Ht. inversion Ht; subst. apply wt_aconst in Hwt. destruct Hwt as (Hw & Hte & _).
    unfold init_value. rewrite (tr_type m _ Hm Hw), Hte. reflexivity.
Qed.

Definition state_fits (s : state) : Prop :=
  efits (st_sym s) = true /\
  (forall e, st_init s = Some e -> efits e = true) /\ (forall e, st_next s = Some e -> efits e = true).

Lemma emit_state_sim v m st ps s ins sts sids st' sid :
  Inv v m st ps -> Sh m ps ins sts sids -> no_props ps ->
  state_ok s = true -> state_fits s -> ~ In (st_sym s) (sm_dom m) ->
  Forall (fun i => i < w_next st) sids ->
  emit_state st s = POk (st', sid) -> w_next st' <= BOUND ->
  exists sv ps', Inv v ((st_sym s, sv) :: m) st' ps' /\ Sh ((st_sym s, sv) :: m) ps' ins (sts ++ [s]) (sids ++ [sid]) /\
                no_props ps' /\ Forall (fun i => i < w_next st') (sids ++ [sid]).
Proof.
  intros Hinv Hsh Hnp Hok (Hfsym & Hfinit & _) Hn Hsids H Hb.
  unfold state_ok in Hok. repeat (apply andb_true_iff in Hok; destruct Hok as [Hok ?]).
  rename H0 into Hnextok, H1 into Hinitok, H2 into Hwsym. rename Hok into Hsym.
  unfold emit_state in H. destruct (sort_id st (type_of (st_sym s))) as [st1 sort] eqn:Es.
  set (t := type_of (st_sym s)) in *.
  (* the init tree *)
  assert (Hphase : exists st2 ps2 oiid, 
            (match st_init s with
             | Some init => r <- emit_state_init st1 s init ;; let '(st2, iid) := r in POk (st2, Some iid)
             | None => POk (st1, None)
             end) = POk (st2, oiid) /\
            (w_next st2 <= BOUND -> 
             Inv v m st2 ps2 /\ rest_eq ps ps2 /\ find_sort t (w_sorts st2) = Some sort /\ w_next st <= w_next st2 /\
             match st_init s, oiid with
             | Some init, Some iid =>
                 let e0 := match t, init with TArr _ _, ArrayConstant e _ _ => e | _, _ => init end in
                 find_expr e0 (w_exprs st2) = Some iid /\ wt e0 = true
             | None, None => True
             | _, _ => False
             end)).
  { destruct (st_init s) as [init|] eqn:Ei.
    - destruct (emit_state_init st1 s init) as [[st2 iid]| |] eqn:Eii; cbn [pbind] in H; try discriminate.
      exists st2. cbn [pbind].
      assert (Hwi : wt init = true /\ type_of init = t).
      { apply andb_true_iff in Hinitok. destruct Hinitok as [A B]. apply ty_eqb_eq in B. auto. }
      destruct Hwi as [Hwi Hti].
      set (e0 := match t, init with TArr _ _, ArrayConstant e _ _ => e | _, _ => init end).
      assert (He0 : emit_expr e0 st1 = POk (st2, iid)).
      { unfold emit_state_init in Eii. fold t in Eii. subst e0. destruct t; [exact Eii|]. destruct init; exact Eii. }
      assert (Hw0 : wt e0 = true /\ efits e0 = true).
      { specialize (Hfinit init eq_refl). subst e0. destruct t; [auto|]. destruct init; auto.
        split; [apply wt_aconst in Hwi; tauto|]. apply (efits_child (ArrayConstant init iw0 dw0)); [exact Hfinit|left; reflexivity]. }
      destruct Hw0 as [Hw0 Hf0].
      assert (exists ps2, w_next st2 <= BOUND -> Inv v m st2 ps2 /\ rest_eq ps ps2 /\ find_sort t (w_sorts st2) = Some sort /\
                          w_next st <= w_next st2 /\ find_expr e0 (w_exprs st2) = Some iid) as (ps2 & Hps2).
      { destruct (N.le_gt_cases (w_next st2) BOUND) as [Hle|Hgt].
        - pose proof (emit_expr_next _ _ _ _ He0) as Hmn.
          destruct (sort_id_sim v m st ps t st1 sort Hinv (efits_ty _ Hfsym) (wt_pos _ Hwsym) Es ltac:(lia)) as (ps1 & Hinv1 & Hr1 & _ & Hfs & Hmo1 & _).
          destruct (emit_expr_sim v m e0 st1 st2 iid ps1 Hinv1 Hw0 Hf0 He0 Hle) as (ps2 & Hinv2 & Hr2 & Hfe & Hmo2 & _).
          exists ps2. intros _. split; [exact Hinv2|]. split; [eapply rest_eq_trans; eauto|]. split; [apply Hmo2; exact Hfs|].
          split; [destruct Hmo1, Hmo2; lia|exact Hfe].
        - exists ps. intros Hle. lia. }
      exists ps2, (Some iid). split; [reflexivity|]. intros Hle. destruct (Hps2 Hle) as (A & B & C & D & E).
      split; [exact A|]. split; [exact B|]. split; [exact C|]. split; [exact D|]. split; [exact E|exact Hw0].
    - exists st1.
      assert (exists ps1, w_next st1 <= BOUND -> Inv v m st1 ps1 /\ rest_eq ps ps1 /\ find_sort t (w_sorts st1) = Some sort /\ w_next st <= w_next st1)
        as (ps1 & Hps1).
      { destruct (N.le_gt_cases (w_next st1) BOUND) as [Hle|Hgt].
        - destruct (sort_id_sim v m st ps t st1 sort Hinv (efits_ty _ Hfsym) (wt_pos _ Hwsym) Es Hle) as (ps1 & Hinv1 & Hr1 & _ & Hfs & Hmo1 & _).
          exists ps1. intros _. destruct Hmo1. auto.
        - exists ps. intros Hle. lia. }
      exists ps1, None. split; [reflexivity|]. intros Hle. destruct (Hps1 Hle) as (A & B & C & D).
      split; [exact A|]. split; [exact B|]. split; [exact C|]. split; [exact D|exact I]. }
  destruct Hphase as (st2 & ps2 & oiid & Hrw & Hfacts). rewrite Hrw in H. cbn [pbind new_id] in H.
  (* the state line *)
  assert (Hb2 : w_next st2 + 1 <= BOUND).
  { destruct oiid; inversion H; subst; cbn [reg_expr emit w_next] in Hb; lia. }
  destruct (Hfacts ltac:(lia)) as (Hinv2 & Hr2 & Hfs & Hmn2 & Hinit). clear Hfacts.
  destruct (i_sorts _ _ _ _ Hinv2 _ _ Hfs) as [Hls Hts]. unfold BOUND in *.
  assert (Hpos : ty_pos t) by (apply (wt_pos _ Hwsym)).
  destruct (state_line ps2 (w_next st2) sort t ltac:(lia) ltac:(lia) Hts Hpos) as (ps3 & n & Hl3 & Hce).
  set (sv := mk_sym n t) in *. destruct (mk_sym_props n t Hpos) as (Hv1 & Hv2 & Hv3). fold sv in Hv1, Hv2, Hv3.
  pose proof (inv_extend v m st2 ps2 (st_sym s) sv Hinv2 Hn Hv1 Hv2 Hv3) as Hinv2'.
  assert (Hnone : find_expr (st_sym s) (w_exprs st2) = None) by (apply (not_cached v m st2 ps2); auto).
  destruct Hce as (C1 & C2 & C3 & C4 & C5 & C6 & C7 & C8).
  cbn [set_signal add_state p_types p_statemap p_signals p_inputs p_states p_outputs p_bads p_constraints] in *.
  set (m' := (st_sym s, sv) :: m) in *.
  assert (Htr : tr m' (st_sym s) = sv).
  { destruct (st_sym s); cbn [is_symbol] in Hsym; try discriminate; cbn [tr]; apply sm_app_cons_same. }
  assert (Hl3v : parse_line_v v true ps2 [num (w_next st2); "state"; num sort] = POk ps3).
  { apply plv; [intros _; apply (decl_pre ps2 _ sort t); auto; lia|exact Hl3]. }
  destruct (inv_reg_expr' v m' st2 ps2 [num (w_next st2); "state"; num sort] (st_sym s) ps3 Hinv2') as [Hinv3 Hmono3]; auto.
  { rewrite (syms_symbol _ Hsym). intros x [<-|[]]. left. reflexivity. }
  { rewrite Htr. exact C3. }
  set (st3 := reg_expr (emit (fst (new_id st2)) [num (w_next st2); "state"; num sort]) (st_sym s) (w_next st2)) in *.
  pose proof (rest_eq_sh _ _ _ _ _ _ Hr2 Hsh) as Hsh2. destruct (sh_extend m ps2 ins sts sids (st_sym s) sv Hsh2 Hn) as [Hx1 Hx2].
  fold m' in Hx1, Hx2.
  pose proof (rest_eq_no_props _ _ Hr2 Hnp) as Hnp2.
  assert (Hnp3 : no_props ps3) by (destruct Hnp2 as (N1 & N2 & N3); repeat split; congruence).
  assert (Hlen : List.length (p_states ps2) = List.length sts).
  { rewrite (sh_states _ _ _ _ _ Hsh2), map_length. reflexivity. }
  (* the shape after the state line: the new state without init *)
  assert (Hst3 : p_states ps3 = map (trs m' false) sts ++ [{| st_sym := sv; st_init := None; st_next := None |}]).
  { rewrite C5, (sh_states _ _ _ _ _ Hsh2), Hx2. reflexivity. }
  assert (Hids3 : forall j i, nth_error (sids ++ [w_next st2]) j = Some i -> PM.find (key i) (p_statemap ps3) = Some j).
  { intros j i Hj. rewrite C2. apply nth_error_snoc in Hj. destruct Hj as [Hj|[-> ->]].
    - rewrite PM.gso; [apply (sh_ids _ _ _ _ _ Hsh2 _ _ Hj)|]. apply key_neq.
      assert (Hin : In i sids) by (eapply nth_error_In; eauto). rewrite Forall_forall in Hsids. specialize (Hsids _ Hin). lia.
    - rewrite PM.gss. f_equal. rewrite Hlen. symmetry. apply (sh_len _ _ _ _ _ Hsh). }
  assert (Hdom' : forall x, In x (sm_dom m') <-> In x (ins ++ map st_sym (sts ++ [s]))).
  { intros x. unfold m'. cbn [sm_dom map fst]. rewrite map_app, !in_app_iff. cbn [map In].
    pose proof (sh_dom _ _ _ _ _ Hsh x) as A. rewrite in_app_iff in A. change (map fst m) with (sm_dom m). tauto. }
  destruct oiid as [iid|]; destruct (st_init s) as [init|] eqn:Ei; try contradiction.
  - (* with an init line *)
    cbn [new_id] in H. inversion H; subst st' sid. clear H. fold st3 in Hb. cbn [emit w_next] in Hb.
    assert (Hb3 : w_next st3 = w_next st2 + 1) by reflexivity.
    destruct Hinit as [Hfe Hw0].
    set (e0 := match t, init with TArr _ _, ArrayConstant e _ _ => e | _, _ => init end) in *.
    assert (Hfe3 : find_expr e0 (w_exprs st3) = Some iid) by (apply Hmono3; exact Hfe).
    destruct (i_exprs _ _ _ _ Hinv3 _ _ Hfe3) as (Hlti & Hsi & Hinci).
    destruct (i_sorts _ _ _ _ Hinv3 t sort ltac:(apply Hmono3; exact Hfs)) as [_ Hts3].
    assert (Hwi : wt init = true /\ type_of init = t).
    { apply andb_true_iff in Hinitok. destruct Hinitok as [A B]. apply ty_eqb_eq in B. auto. }
    destruct Hwi as [Hwi Hti].
    pose proof (i_map _ _ _ _ Hinv3) as Hm'.
    assert (Hiv : init_value t (tr m' e0) = tr m' init) by (apply init_value_tr; auto).
    assert (Hl4 : parse_line true ps3 [num (w_next st3); "init"; num sort; num (w_next st2); num iid] =
                  POk (set_states ps3 (update_nth (List.length sts) (set_init (init_value t (tr m' e0))) (p_states ps3)))).
    { apply (init_line ps3 (w_next st3) sort (w_next st2) iid t (List.length sts) (tr m' e0)); try lia; auto.
      - apply Hids3. rewrite nth_error_app2 by (rewrite (sh_len _ _ _ _ _ Hsh); lia).
        rewrite (sh_len _ _ _ _ _ Hsh), Nat.sub_diag. reflexivity.
      - rewrite Hst3. rewrite <- (map_length (trs m' false) sts) at 1. rewrite nth_last. exact Hv2.
      - rewrite Hiv. rewrite (tr_type m' init Hm' Hwi). exact Hti. }
    eexists sv, _. split; [|split; [|split]].
    + (* Inv *)
      destruct Hinv3 as [Hrun3 Hm3 Hs3 He3]. constructor.
      * apply (run_emit v _ _ ps3); [exact Hrun3|]. apply plv; [intros _; apply init_next_pre; [left; reflexivity|lia]|exact Hl4].
      * exact Hm3.
      * intros t0 id0 H0. cbn [emit new_id fst w_sorts w_next] in *. destruct (Hs3 _ _ H0). split; [lia|assumption].
      * intros x id0 H0. cbn [emit new_id fst w_exprs w_next] in *. destruct (He3 _ _ H0) as (A & B & C). split; [lia|auto].
    + (* Sh *)
      constructor.
      * exact Hdom'.
      * cbn [set_states p_inputs]. rewrite C4, (sh_inputs _ _ _ _ _ Hsh2). symmetry. exact Hx1.
      * cbn [set_states p_states]. rewrite Hst3. rewrite <- (map_length (trs m' false) sts) at 1.
        rewrite update_nth_last, map_app. cbn [map]. f_equal. f_equal. unfold set_init, trs. cbn [st_sym st_init st_next].
        rewrite Ei. cbn [option_map]. rewrite Hiv. unfold m'. rewrite sm_app_cons_same. reflexivity.
      * intros j i Hj. cbn [set_states p_statemap]. apply Hids3. exact Hj.
      * rewrite !app_length. cbn [List.length]. rewrite (sh_len _ _ _ _ _ Hsh). reflexivity.
      * intros s0 e Hs0 He0. apply in_app_iff in Hs0. destruct Hs0 as [Hs0|[<-|[]]].
        -- intros x Hx. right. apply (sh_init _ _ _ _ _ Hsh s0 e Hs0 He0). exact Hx.
        -- rewrite Ei in He0. inversion He0; subst e. clear - Hinci Hti. subst e0.
           destruct t; [exact Hinci|]. destruct init; exact Hinci.
    + destruct Hnp3 as (N1 & N2 & N3). repeat split; assumption.
    + apply Forall_app. split.
      * eapply Forall_impl; [|exact Hsids]. intros a Ha. cbn beta in *. cbn [emit new_id fst w_next]. lia.
      * constructor; [cbn [emit new_id fst w_next]; lia|constructor].
  - (* without init *)
    inversion H; subst st' sid. clear H. fold st3 in Hb.
    exists sv, ps3. split; [exact Hinv3|]. split; [|split].
    + constructor.
      * exact Hdom'.
      * rewrite C4, (sh_inputs _ _ _ _ _ Hsh2). symmetry. exact Hx1.
      * rewrite Hst3, map_app. cbn [map]. f_equal. f_equal. unfold trs. rewrite Ei. cbn [option_map st_sym].
        unfold m'. rewrite sm_app_cons_same. reflexivity.
      * exact Hids3.
      * rewrite !app_length. cbn [List.length]. rewrite (sh_len _ _ _ _ _ Hsh). reflexivity.
      * intros s0 e Hs0 He0. apply in_app_iff in Hs0. destruct Hs0 as [Hs0|[<-|[]]].
        -- intros x Hx. right. apply (sh_init _ _ _ _ _ Hsh s0 e Hs0 He0). exact Hx.
        -- rewrite Ei in He0. discriminate.
    + exact Hnp3.
    + apply Forall_app. split.
      * eapply Forall_impl; [|exact Hsids]. intros a Ha. cbn beta in *. cbn [reg_expr emit new_id fst w_next]. lia.
      * constructor; [cbn [reg_expr emit new_id fst w_next]; lia|constructor].
Qed.

Lemma emit_state_next st s st' sid : emit_state st s = POk (st', sid) -> w_next st <= w_next st'.
Proof.
  unfold emit_state. destruct (sort_id st (type_of (st_sym s))) as [st1 sort] eqn:Es.
  pose proof (sort_id_mono_next _ _ _ _ Es) as H1.
  destruct (st_init s) as [init|].
  - destruct (emit_state_init st1 s init) as [[st2 iid]| |] eqn:Ei; cbn [pbind]; try discriminate.
    assert (H2 : w_next st1 <= w_next st2).
    { unfold emit_state_init in Ei. destruct (type_of (st_sym s)); [|destruct init]; apply emit_expr_next in Ei; exact Ei. }
    cbn [new_id]. intros H. inversion H; subst. cbn [emit reg_expr w_next]. lia.
  - cbn [pbind new_id]. intros H. inversion H; subst. cbn [emit reg_expr w_next]. lia.
Qed.

Lemma emit_states_next l : forall st st' ids, emit_states st l = POk (st', ids) -> w_next st <= w_next st'.
Proof.
  induction l as [|s l IH]; intros st st' ids H; cbn [emit_states] in H.
  - inversion H; lia.
  - destruct (emit_state st s) as [[st1 sid]| |] eqn:E1; cbn [pbind] in H; try discriminate.
    destruct (emit_states st1 l) as [[st2 ids']| |] eqn:E2; cbn [pbind] in H; try discriminate.
    inversion H; subst. apply emit_state_next in E1. apply IH in E2. lia.
Qed.

Definition st_ok (s : state) : Prop := state_ok s = true /\ state_fits s.

Lemma states_sim v : forall l m st ps ins sts sids st' ids,
  Inv v m st ps -> Sh m ps ins sts sids -> no_props ps ->
  Forall st_ok l -> NoDup (ins ++ map st_sym sts ++ map st_sym l) ->
  Forall (fun i => i < w_next st) sids ->
  emit_states st l = POk (st', ids) -> w_next st' <= BOUND ->
  exists m' ps', Inv v m' st' ps' /\ Sh m' ps' ins (sts ++ l) (sids ++ ids) /\ no_props ps' /\
                 Forall (fun i => i < w_next st') (sids ++ ids).
Proof.
  induction l as [|s l IH]; intros m st ps ins sts sids st' ids Hinv Hsh Hnp Hok Hnd Hsids H Hb; cbn [emit_states] in H.
  - inversion H; subst. exists m, ps. rewrite !app_nil_r.
    split; [exact Hinv|]. split; [exact Hsh|]. split; [exact Hnp|exact Hsids].
  - destruct (emit_state st s) as [[st1 sid]| |] eqn:E1; cbn [pbind] in H; try discriminate.
    destruct (emit_states st1 l) as [[st2 ids']| |] eqn:E2; cbn [pbind] in H; try discriminate.
    inversion H; subst st' ids. clear H.
    apply Forall_cons_iff in Hok. destruct Hok as [[Hso Hsf] Hok].
    assert (Hn : ~ In (st_sym s) (sm_dom m)).
    { intros Hin. apply (sh_dom _ _ _ _ _ Hsh) in Hin. cbn [map] in Hnd. rewrite app_assoc in Hnd.
      apply NoDup_remove_2 in Hnd. apply Hnd. apply in_or_app. left. exact Hin. }
    pose proof (emit_states_next _ _ _ _ E2) as Hmn.
    destruct (emit_state_sim v m st ps s ins sts sids st1 sid Hinv Hsh Hnp Hso Hsf Hn Hsids E1 ltac:(lia))
      as (sv & ps1 & Hinv1 & Hsh1 & Hnp1 & Hsids1).
    assert (Hnd' : NoDup (ins ++ map st_sym (sts ++ [s]) ++ map st_sym l)).
    { rewrite map_app. cbn [map]. rewrite <- !app_assoc. cbn [app]. exact Hnd. }
    destruct (IH _ _ _ _ _ _ _ _ Hinv1 Hsh1 Hnp1 Hok Hnd' Hsids1 E2 Hb) as (m' & ps' & A & B & C & D).
    exists m', ps'.
    replace (sts ++ s :: l) with ((sts ++ [s]) ++ l) by (rewrite <- app_assoc; reflexivity).
    replace (sids ++ sid :: ids') with ((sids ++ [sid]) ++ ids') by (rewrite <- app_assoc; reflexivity).
    split; [exact A|]. split; [exact B|]. split; [exact C|exact D].
Qed.

(** ** outputs, constraints, bad states *)
Lemma inv_plain_line v m st ps l ps' :
  Inv v m st ps -> parse_line_v v true ps l = POk ps' -> p_types ps' = p_types ps -> p_signals ps' = p_signals ps ->
  Inv v m (emit (fst (new_id st)) l) ps'.
Proof.
  intros [Hrun Hm Hs He] Hl Ht Hsg. constructor.
  - apply (run_emit v _ l ps); [exact Hrun|exact Hl].
  - exact Hm.
  - intros t0 id0 H0. cbn [emit new_id fst w_sorts w_next] in *. destruct (Hs _ _ H0). split; [lia|]. rewrite Ht. assumption.
  - intros x id0 H0. cbn [emit new_id fst w_exprs w_next] in *. destruct (He _ _ H0) as (A & B & C). split; [lia|]. rewrite Hsg. auto.
Qed.

Inductive pk : Type := KOut | KCon | KBad.
Definition kstr (k : pk) : string := match k with KOut => "output" | KCon => "constraint" | KBad => "bad" end.
Definition klist (k : pk) (ps : pstate) : list expr :=
  match k with KOut => map snd (p_outputs ps) | KCon => p_constraints ps | KBad => p_bads ps end.

Definition decl_eq (a b : pstate) : Prop :=
  p_statemap a = p_statemap b /\ p_inputs a = p_inputs b /\ p_states a = p_states b.

Lemma prop_line v k ps id body x : id <= U32MAX -> body <= U32MAX ->
  PM.find (key body) (p_signals ps) = Some x ->
  (is_fix v = true -> k = KOut \/ type_of x = TBV 1) ->
  exists ps', parse_line_v v true ps [num id; kstr k; num body] = POk ps' /\
              p_types ps' = p_types ps /\ p_signals ps' = p_signals ps /\ decl_eq ps ps' /\
              klist k ps' = klist k ps ++ [x] /\ (forall k', k' <> k -> klist k' ps' = klist k' ps).
Proof.
  intros Hi Hb Fv Hbool.
  assert (Hpre : is_fix v = true -> all_pre ps [num id; kstr k; num body] = true).
  { intros Hv. apply (prop_pre ps id body x); auto. destruct (Hbool Hv) as [->|Ht]; [left; reflexivity|].
    destruct k; [left; reflexivity|right; split; [right; reflexivity|exact Ht]|right; split; [left; reflexivity|exact Ht]]. }
  destruct k; cbn [kstr] in *.
  - destruct (output_line ps id body x Hi Hb Fv) as (ps' & n & Hl & C1 & C2 & C3 & C4 & C5 & C6 & C7 & C8).
    cbn [add_output p_types p_statemap p_signals p_inputs p_states p_outputs p_bads p_constraints] in *.
    exists ps'. split; [apply plv; assumption|]. split; [exact C1|]. split; [exact C3|]. split; [repeat split; congruence|]. split.
    + cbn [klist]. rewrite C6, map_app. reflexivity.
    + intros k' Hk. destruct k'; cbn [klist]; congruence.
  - destruct (constraint_line ps id body x Hi Hb Fv) as (ps' & Hl & C1 & C2 & C3 & C4 & C5 & C6 & C7 & C8).
    cbn [add_constraint p_types p_statemap p_signals p_inputs p_states p_outputs p_bads p_constraints] in *.
    exists ps'. split; [apply plv; assumption|]. split; [exact C1|]. split; [exact C3|]. split; [repeat split; congruence|]. split.
    + cbn [klist]. exact C8.
    + intros k' Hk. destruct k'; cbn [klist]; congruence.
  - destruct (bad_line ps id body x Hi Hb Fv) as (ps' & Hl & C1 & C2 & C3 & C4 & C5 & C6 & C7 & C8).
    cbn [add_bad p_types p_statemap p_signals p_inputs p_states p_outputs p_bads p_constraints] in *.
    exists ps'. split; [apply plv; assumption|]. split; [exact C1|]. split; [exact C3|]. split; [repeat split; congruence|]. split.
    + cbn [klist]. exact C7.
    + intros k' Hk. destruct k'; cbn [klist]; congruence.
Qed.

Lemma rest_eq_klist a b k : rest_eq a b -> klist k a = klist k b.
Proof. intros (_ & _ & _ & H4 & H5 & H6). destruct k; cbn [klist]; congruence. Qed.

Lemma rest_eq_decl a b : rest_eq a b -> decl_eq a b.
Proof. intros (H1 & H2 & H3 & _). repeat split; assumption. Qed.

Lemma decl_eq_trans a b c : decl_eq a b -> decl_eq b c -> decl_eq a c.
Proof. unfold decl_eq. intuition congruence. Qed.

Lemma emit_props_next kind l : forall st st', emit_props kind st l = POk st' -> w_next st <= w_next st'.
Proof.
  induction l as [|e l IH]; intros st st' H; cbn [emit_props] in H.
  - inversion H; lia.
  - destruct (emit_expr e st) as [[st1 body]| |] eqn:E; cbn [pbind new_id] in H; try discriminate.
    apply emit_expr_next in E. apply IH in H. cbn [emit w_next] in H. lia.
Qed.

Definition expr_ok (e : expr) : Prop := wt e = true /\ efits e = true.

Lemma props_sim v k m : forall l st ps st',
  Inv v m st ps -> Forall expr_ok l ->
  (is_fix v = true -> k = KOut \/ Forall (fun e => type_of e = TBV 1) l) ->
  emit_props (kstr k) st l = POk st' -> w_next st' <= BOUND ->
  exists ps', Inv v m st' ps' /\ decl_eq ps ps' /\ klist k ps' = klist k ps ++ map (tr m) l /\
              (forall k', k' <> k -> klist k' ps' = klist k' ps).
Proof.
  induction l as [|e l IH]; intros st ps st' Hinv Hok Hbool H Hb; cbn [emit_props] in H.
  - inversion H; subst. exists ps. split; [exact Hinv|]. split; [repeat split|]. split; [cbn [map]; rewrite app_nil_r; reflexivity|auto].
  - apply Forall_cons_iff in Hok. destruct Hok as [[Hw Hf] Hok].
    destruct (emit_expr e st) as [[st1 body]| |] eqn:E; cbn [pbind new_id] in H; try discriminate.
    pose proof (emit_props_next _ _ _ _ H) as Hmn. cbn [emit w_next] in Hmn.
    destruct (emit_expr_sim v m e st st1 body ps Hinv Hw Hf E ltac:(lia)) as (ps1 & Hinv1 & Hr1 & Hfe & Hmo1 & _).
    destruct (i_exprs _ _ _ _ Hinv1 _ _ Hfe) as (Hlt & Hsg & _). unfold BOUND in *.
    assert (Hb1 : is_fix v = true -> k = KOut \/ type_of (tr m e) = TBV 1).
    { intros Hv. destruct (Hbool Hv) as [->|Hall]; [left; reflexivity|right]. apply Forall_cons_iff in Hall. destruct Hall as [Ht _].
      rewrite (tr_type m e (i_map _ _ _ _ Hinv) Hw). exact Ht. }
    assert (Hb2 : is_fix v = true -> k = KOut \/ Forall (fun e => type_of e = TBV 1) l).
    { intros Hv. destruct (Hbool Hv) as [->|Hall]; [left; reflexivity|right]. apply Forall_cons_iff in Hall. tauto. }
    destruct (prop_line v k ps1 (w_next st1) body (tr m e) ltac:(lia) ltac:(lia) Hsg Hb1) as (ps2 & Hl & C1 & C2 & C3 & C4 & C5).
    pose proof (inv_plain_line v m st1 ps1 _ ps2 Hinv1 Hl C1 C2) as Hinv2.
    destruct (IH _ ps2 st' Hinv2 Hok Hb2 H Hb) as (ps' & A & B & C & D).
    exists ps'. split; [exact A|]. split; [eapply decl_eq_trans; [apply rest_eq_decl; exact Hr1|]; eapply decl_eq_trans; eauto|]. split.
    + rewrite C, C4, <- (rest_eq_klist _ _ k Hr1), <- app_assoc. reflexivity.
    + intros k' Hk. rewrite (D k' Hk), (C5 k' Hk). symmetry. apply rest_eq_klist. exact Hr1.
Qed.

(** ** next lines *)
Lemma update_nth_mid {A} (f : A -> A) (l r : list A) (x : A) :
  update_nth (List.length l) f (l ++ x :: r) = l ++ f x :: r.
Proof. induction l as [|y l IH]; cbn [List.length app update_nth]; [reflexivity|]. rewrite IH. reflexivity. Qed.

Lemma nth_mid {A} (l r : list A) (x d : A) : nth (List.length l) (l ++ x :: r) d = x.
Proof. induction l as [|y l IH]; cbn [List.length app nth]; auto. Qed.

Lemma nth_error_mid {A} (l r : list A) (x : A) : nth_error (l ++ x :: r) (List.length l) = Some x.
Proof. induction l as [|y l IH]; cbn [List.length app nth_error]; auto. Qed.

Definition props_eq (a b : pstate) : Prop :=
  p_inputs a = p_inputs b /\ p_statemap a = p_statemap b /\ p_outputs a = p_outputs b /\ p_bads a = p_bads b /\
  p_constraints a = p_constraints b.

Lemma rest_eq_props a b : rest_eq a b -> props_eq a b.
Proof. intros (H1 & H2 & H3 & H4 & H5 & H6). repeat split; assumption. Qed.

Lemma props_eq_trans a b c : props_eq a b -> props_eq b c -> props_eq a c.
Proof. unfold props_eq. intuition congruence. Qed.

Lemma emit_nexts_next l : forall ids st st', emit_nexts st l ids = POk st' -> w_next st <= w_next st'.
Proof.
  induction l as [|s l IH]; intros ids st st' H; cbn [emit_nexts] in H; [inversion H; lia|].
  destruct ids as [|sid ids]; [inversion H; lia|].
  destruct (st_next s) as [nx|]; [|apply IH in H; exact H].
  destruct (sort_id st (type_of (st_sym s))) as [st1 sort] eqn:Es.
  destruct (emit_expr nx st1) as [[st2 nid]| |] eqn:E; cbn [pbind new_id] in H; try discriminate.
  apply sort_id_mono_next in Es. apply emit_expr_next in E. apply IH in H. cbn [emit w_next] in H. lia.
Qed.

Lemma nexts_sim v m : forall l2 ids2 l1 ids1 st ps st',
  Inv v m st ps ->
  p_states ps = map (trs m true) l1 ++ map (trs m false) l2 ->
  (forall j sid, nth_error (ids1 ++ ids2) j = Some sid -> PM.find (key sid) (p_statemap ps) = Some j) ->
  List.length ids1 = List.length l1 -> List.length ids2 = List.length l2 ->
  Forall (fun i => i < w_next st) (ids1 ++ ids2) ->
  Forall st_ok l2 ->
  emit_nexts st l2 ids2 = POk st' -> w_next st' <= BOUND ->
  exists ps', Inv v m st' ps' /\ p_states ps' = map (trs m true) (l1 ++ l2) /\ props_eq ps ps'.
Proof.
  induction l2 as [|s l2 IH]; intros ids2 l1 ids1 st ps st' Hinv Hst Hids Hl1 Hl2 Hlt Hok H Hb; cbn [emit_nexts] in H.
  - inversion H; subst. exists ps. split; [exact Hinv|]. split; [|repeat split]. rewrite Hst, app_nil_r. cbn [map]. rewrite app_nil_r. reflexivity.
  - destruct ids2 as [|sid ids2]; [discriminate|]. cbn [List.length] in Hl2. apply Nat.succ_inj in Hl2.
    apply Forall_cons_iff in Hok. destruct Hok as [[Hso Hsf] Hok].
    assert (Hassoc1 : (ids1 ++ [sid]) ++ ids2 = ids1 ++ sid :: ids2) by (rewrite <- app_assoc; reflexivity).
    assert (Hassoc2 : (l1 ++ [s]) ++ l2 = l1 ++ s :: l2) by (rewrite <- app_assoc; reflexivity).
    assert (Hlen' : List.length (ids1 ++ [sid]) = List.length (l1 ++ [s])) by (rewrite !app_length; cbn [List.length]; lia).
    destruct (st_next s) as [nx|] eqn:En.
    + destruct (sort_id st (type_of (st_sym s))) as [st1 sort] eqn:Es.
      destruct (emit_expr nx st1) as [[st2 nid]| |] eqn:E; cbn [pbind new_id] in H; try discriminate.
      pose proof (emit_nexts_next _ _ _ _ H) as Hmn. cbn [emit w_next] in Hmn.
      pose proof (emit_expr_next _ _ _ _ E) as Hmn2.
      unfold state_ok in Hso. repeat (apply andb_true_iff in Hso; destruct Hso as [Hso ?]).
      rename H0 into Hnextok, H1 into Hinitok, H2 into Hwsym. rename Hso into Hsym.
      rewrite En in Hnextok. apply andb_true_iff in Hnextok. destruct Hnextok as [Hwnx Htnx]. apply ty_eqb_eq in Htnx.
      destruct Hsf as (Hfsym & _ & Hfnx). specialize (Hfnx nx En).
      destruct (sort_id_sim v m st ps (type_of (st_sym s)) st1 sort Hinv (efits_ty _ Hfsym) (wt_pos _ Hwsym) Es ltac:(lia))
        as (ps1 & Hinv1 & Hr1 & _ & Hfs & Hmo1 & _).
      destruct (emit_expr_sim v m nx st1 st2 nid ps1 Hinv1 Hwnx Hfnx E ltac:(lia)) as (ps2 & Hinv2 & Hr2 & Hfe & Hmo2 & _).
      destruct (i_exprs _ _ _ _ Hinv2 _ _ Hfe) as (Hltn & Hsgn & _).
      destruct (i_sorts _ _ _ _ Hinv2 _ _ (proj1 (proj2 Hmo2) _ _ Hfs)) as (Hlts & Hts).
      pose proof (i_map _ _ _ _ Hinv) as Hm.
      pose proof (rest_eq_trans _ _ _ Hr1 Hr2) as Hr12. destruct Hr12 as (R1 & R2 & R3 & R4 & R5 & R6).
      assert (Hsid : sid < w_next st).
      { rewrite Forall_forall in Hlt. apply Hlt. apply in_or_app. right. left. reflexivity. }
      assert (Hmo12 : w_next st <= w_next st2) by (destruct Hmo1, Hmo2; lia).
      unfold BOUND in *.
      assert (Hl : parse_line true ps2 [num (w_next st2); "next"; num sort; num sid; num nid] =
                   POk (set_states ps2 (update_nth (List.length l1) (set_next (tr m nx)) (p_states ps2)))).
      { apply (next_line ps2 (w_next st2) sort sid nid (type_of (st_sym s)) (List.length l1) (tr m nx)); try lia; auto.
        - rewrite <- R1. apply Hids. rewrite <- Hl1. apply nth_error_mid.
        - rewrite <- R3, Hst. cbn [map]. rewrite <- (map_length (trs m true) l1). rewrite nth_mid. cbn [trs st_sym].
          apply sm_app_type. exact Hm.
        - rewrite (tr_type m nx Hm Hwnx). exact Htnx. }
      assert (Hlv : parse_line_v v true ps2 [num (w_next st2); "next"; num sort; num sid; num nid] =
                    POk (set_states ps2 (update_nth (List.length l1) (set_next (tr m nx)) (p_states ps2)))).
      { apply plv; [intros _; apply init_next_pre; [right; reflexivity|lia]|exact Hl]. }
      pose proof (inv_plain_line v m st2 ps2 _ _ Hinv2 Hlv eq_refl eq_refl) as Hinv3.
      destruct (IH ids2 (l1 ++ [s]) (ids1 ++ [sid]) _ _ st' Hinv3) as (ps' & A & B & C); auto.
      * cbn [set_states p_states]. rewrite <- R3, Hst. cbn [map]. rewrite <- (map_length (trs m true) l1) at 1.
        rewrite update_nth_mid, map_app. cbn [map]. rewrite <- app_assoc. cbn [app]. f_equal. f_equal.
        unfold set_next, trs. cbn [st_sym st_init st_next]. rewrite En. reflexivity.
      * intros j i Hj. cbn [set_states p_statemap]. rewrite <- R1. apply Hids. rewrite <- Hassoc1. exact Hj.
      * rewrite Hassoc1. eapply Forall_impl; [|exact Hlt]. intros a Ha. cbn beta in *. cbn [emit new_id fst w_next]. lia.
      * exists ps'. split; [exact A|]. split; [rewrite <- Hassoc2; exact B|].
        eapply props_eq_trans; [|exact C]. cbn [set_states]. repeat split; cbn; congruence.
    + destruct (IH ids2 (l1 ++ [s]) (ids1 ++ [sid]) st ps st' Hinv) as (ps' & A & B & C); auto.
      * rewrite Hst, map_app. cbn [map]. rewrite <- app_assoc. cbn [app]. f_equal. f_equal. unfold trs. rewrite En. reflexivity.
      * intros j i Hj. apply Hids. rewrite <- Hassoc1. exact Hj.
      * rewrite Hassoc1. exact Hlt.
      * exists ps'. split; [exact A|]. split; [rewrite <- Hassoc2; exact B|exact C].
Qed.

(** ** one id per line, through the system section *)
Lemma cnt_emit_input st i : cnt st -> cnt (emit_input st i).
Proof.
  unfold emit_input. destruct (sort_id st (type_of i)) as [st1 sort] eqn:Es. intros Hc.
  apply (cnt_sort_id _ _ _ _ Es) in Hc. unfold cnt in *. cbn [new_id reg_expr emit w_next w_lines List.length]. lia.
Qed.

Lemma cnt_inputs l : forall st, cnt st -> cnt (fold_left emit_input l st).
Proof. induction l as [|i l IH]; intros st Hc; cbn [fold_left]; [exact Hc|]. apply IH. apply cnt_emit_input. exact Hc. Qed.

Lemma cnt_emit_state st s st' sid : emit_state st s = POk (st', sid) -> cnt st -> cnt st'.
Proof.
  unfold emit_state. destruct (sort_id st (type_of (st_sym s))) as [st1 sort] eqn:Es. intros H Hc.
  apply (cnt_sort_id _ _ _ _ Es) in Hc.
  destruct (st_init s) as [init|].
  - destruct (emit_state_init st1 s init) as [[st2 iid]| |] eqn:Ei; cbn [pbind] in H; try discriminate.
    assert (Hc2 : cnt st2).
    { unfold emit_state_init in Ei. destruct (type_of (st_sym s)); [|destruct init]; apply (cnt_emit_expr _ _ _ _ Ei); exact Hc. }
    cbn [new_id] in H. inversion H; subst. unfold cnt in *. cbn [emit reg_expr w_next w_lines List.length]. lia.
  - cbn [pbind new_id] in H. inversion H; subst. unfold cnt in *. cbn [emit reg_expr w_next w_lines List.length]. lia.
Qed.

Lemma cnt_emit_states l : forall st st' ids, emit_states st l = POk (st', ids) -> cnt st -> cnt st'.
Proof.
  induction l as [|s l IH]; intros st st' ids H Hc; cbn [emit_states] in H.
  - inversion H; subst; exact Hc.
  - destruct (emit_state st s) as [[st1 sid]| |] eqn:E1; cbn [pbind] in H; try discriminate.
    destruct (emit_states st1 l) as [[st2 ids']| |] eqn:E2; cbn [pbind] in H; try discriminate.
    inversion H; subst. eapply IH; [exact E2|]. eapply cnt_emit_state; eauto.
Qed.

Lemma cnt_props kind l : forall st st', emit_props kind st l = POk st' -> cnt st -> cnt st'.
Proof.
  induction l as [|e l IH]; intros st st' H Hc; cbn [emit_props] in H.
  - inversion H; subst; exact Hc.
  - destruct (emit_expr e st) as [[st1 body]| |] eqn:E; cbn [pbind new_id] in H; try discriminate.
    apply (IH _ _ H). apply (cnt_emit_expr _ _ _ _ E) in Hc. unfold cnt in *. cbn [emit w_next w_lines List.length]. lia.
Qed.

Lemma cnt_nexts l : forall ids st st', emit_nexts st l ids = POk st' -> cnt st -> cnt st'.
Proof.
  induction l as [|s l IH]; intros ids st st' H Hc; cbn [emit_nexts] in H; [inversion H; subst; exact Hc|].
  destruct ids as [|sid ids]; [inversion H; subst; exact Hc|].
  destruct (st_next s) as [nx|]; [|eapply IH; eauto].
  destruct (sort_id st (type_of (st_sym s))) as [st1 sort] eqn:Es.
  destruct (emit_expr nx st1) as [[st2 nid]| |] eqn:E; cbn [pbind new_id] in H; try discriminate.
  apply (IH _ _ _ H). apply (cnt_sort_id _ _ _ _ Es) in Hc. apply (cnt_emit_expr _ _ _ _ E) in Hc.
  unfold cnt in *. cbn [emit w_next w_lines List.length]. lia.
Qed.

(** ** the whole text *)
Lemma inv_init v : Inv v [] w_empty p_empty.
Proof. constructor; [reflexivity|apply map_ok_nil| |]; intros ? ? H; discriminate. Qed.

Lemma sh_init' : Sh [] p_empty [] [] [].
Proof.
  constructor.
  - intros s. split; intros H; inversion H.
  - reflexivity.
  - reflexivity.
  - intros j sid H. destruct j; discriminate.
  - reflexivity.
  - intros s e [].
Qed.

Lemma emit_states_len l : forall st st' ids, emit_states st l = POk (st', ids) -> List.length ids = List.length l.
Proof.
  induction l as [|s l IH]; intros st st' ids H; cbn [emit_states] in H.
  - inversion H; reflexivity.
  - destruct (emit_state st s) as [[st1 sid]| |] eqn:E1; cbn [pbind] in H; try discriminate.
    destruct (emit_states st1 l) as [[st2 ids']| |] eqn:E2; cbn [pbind] in H; try discriminate.
    inversion H; subst. cbn [List.length]. f_equal. eapply IH; eauto.
Qed.

Lemma nodup_app_l {A} (a b : list A) : NoDup (a ++ b) -> NoDup a.
Proof.
  induction a as [|x a IH]; cbn [app]; intros H; [constructor|]. inversion H; subst. constructor.
  - intros Hin. apply H2. apply in_or_app. left. exact Hin.
  - apply IH. exact H3.
Qed.

Theorem serialize_parse_raw v sy lines :
  sys_ok_weak sy = true -> (is_fix v = true -> props_1bit sy = true) ->
  NoDup (declared sy) -> sys_fits sy = true ->
  serialize sy = POk lines -> N.of_nat (List.length lines) <= U32MAX ->
  exists m ps, map_ok m /\ parse_fold_v v true lines p_empty false = POk (ps, false) /\
    p_inputs ps = map (sm_app m) (s_inputs sy) /\
    p_states ps = map (trs m true) (s_states sy) /\
    map snd (p_outputs ps) = map (tr m) (map snd (s_outputs sy)) /\
    p_bads ps = map (tr m) (s_bads sy) /\ p_constraints ps = map (tr m) (s_constraints sy).
Proof.
  intros Hok H1bit Hnd Hfit H Hlen. unfold serialize in H.
  set (st1 := fold_left emit_input (s_inputs sy) w_empty) in *.
  destruct (emit_states st1 (s_states sy)) as [[st2 ids]| |] eqn:E2; cbn [pbind] in H; try discriminate.
  destruct (emit_props "output" st2 (map snd (s_outputs sy))) as [st3| |] eqn:E3; cbn [pbind] in H; try discriminate.
  destruct (emit_props "constraint" st3 (s_constraints sy)) as [st4| |] eqn:E4; cbn [pbind] in H; try discriminate.
  destruct (emit_props "bad" st4 (s_bads sy)) as [st5| |] eqn:E5; cbn [pbind] in H; try discriminate.
  destruct (emit_nexts st5 (s_states sy) ids) as [st6| |] eqn:E6; cbn [pbind] in H; try discriminate.
  inversion H; subst lines. clear H. rewrite rev_length in Hlen.
  (* counters *)
  assert (Hc0 : cnt w_empty) by (unfold cnt; cbn; lia).
  pose proof (cnt_inputs (s_inputs sy) _ Hc0) as Hc1. fold st1 in Hc1.
  pose proof (cnt_emit_states _ _ _ _ E2 Hc1) as Hc2. pose proof (cnt_props _ _ _ _ E3 Hc2) as Hc3.
  pose proof (cnt_props _ _ _ _ E4 Hc3) as Hc4. pose proof (cnt_props _ _ _ _ E5 Hc4) as Hc5.
  pose proof (cnt_nexts _ _ _ _ E6 Hc5) as Hc6.
  assert (Hb6 : w_next st6 <= BOUND) by (unfold cnt in Hc6; unfold BOUND; lia).
  pose proof (emit_nexts_next _ _ _ _ E6) as N6. pose proof (emit_props_next _ _ _ _ E5) as N5.
  pose proof (emit_props_next _ _ _ _ E4) as N4. pose proof (emit_props_next _ _ _ _ E3) as N3.
  pose proof (emit_states_next _ _ _ _ E2) as N2.
  (* well-formedness, piecewise *)
  unfold sys_ok_weak in Hok.
  apply andb_true_iff in Hok. destruct Hok as [Hok Hokc]. apply andb_true_iff in Hok. destruct Hok as [Hok Hokb].
  apply andb_true_iff in Hok. destruct Hok as [Hok Hoko]. apply andb_true_iff in Hok. destruct Hok as [Hoki Hoks].
  unfold sys_fits, all_exprs in Hfit. rewrite !forallb_app in Hfit.
  apply andb_true_iff in Hfit. destruct Hfit as [Hfi Hfit]. apply andb_true_iff in Hfit. destruct Hfit as [Hfo Hfit].
  apply andb_true_iff in Hfit. destruct Hfit as [Hfb Hfit]. apply andb_true_iff in Hfit. destruct Hfit as [Hfc Hfs].
  rewrite forallb_forall in Hoki, Hoks, Hoko, Hokb, Hokc, Hfi, Hfo, Hfb, Hfc, Hfs.
  assert (Hins : Forall sym_ok (s_inputs sy)).
  { apply Forall_forall. intros i Hi. specialize (Hoki _ Hi). apply andb_true_iff in Hoki. destruct Hoki. repeat split; auto. }
  assert (Hsts : Forall st_ok (s_states sy)).
  { apply Forall_forall. intros s Hs. split; [apply Hoks; exact Hs|].
    assert (Hall : forall e, In e (st_sym s :: (match st_init s with Some e => [e] | None => [] end)
                                  ++ (match st_next s with Some e => [e] | None => [] end)) -> efits e = true).
    { intros e He. apply Hfs. apply in_flat_map. exists s. split; assumption. }
    repeat split.
    - apply Hall. left. reflexivity.
    - intros e He. apply Hall. right. apply in_or_app. left. rewrite He. left. reflexivity.
    - intros e He. apply Hall. right. apply in_or_app. right. rewrite He. left. reflexivity. }
  assert (Houts : Forall expr_ok (map snd (s_outputs sy))).
  { apply Forall_forall. intros e He. apply in_map_iff in He. destruct He as (o & <- & Ho). split; [apply Hoko; exact Ho|].
    apply Hfo. apply in_map. exact Ho. }
  assert (Hcons : Forall expr_ok (s_constraints sy)) by (apply Forall_forall; intros e He; split; auto).
  assert (Hbads : Forall expr_ok (s_bads sy)) by (apply Forall_forall; intros e He; split; auto).
  (* inputs *)
  destruct (inputs_sim v (s_inputs sy) [] w_empty p_empty [] (inv_init v) sh_init' ltac:(repeat split) Hins) as (m1 & ps1 & Hinv1 & Hsh1 & Hnp1).
  { cbn [app]. unfold declared in Hnd. apply nodup_app_l in Hnd. exact Hnd. }
  { fold st1. lia. }
  fold st1 in Hinv1. cbn [app] in Hsh1.
  (* states *)
  destruct (states_sim v (s_states sy) m1 st1 ps1 (s_inputs sy) [] [] st2 ids Hinv1 Hsh1 Hnp1 Hsts) as (m & ps2 & Hinv2 & Hsh2 & Hnp2 & Hids2); auto.
  { lia. }
  cbn [app] in Hsh2, Hids2.
  (* outputs, constraints, bads *)
  assert (H1c : is_fix v = true -> KCon = KOut \/ Forall (fun e => type_of e = TBV 1) (s_constraints sy)).
  { intros Hv. right. specialize (H1bit Hv). unfold props_1bit in H1bit. rewrite forallb_app in H1bit.
    apply andb_true_iff in H1bit. destruct H1bit as [_ Hc]. rewrite forallb_forall in Hc. apply Forall_forall.
    intros e He. apply ty_eqb_eq. apply Hc. exact He. }
  assert (H1b : is_fix v = true -> KBad = KOut \/ Forall (fun e => type_of e = TBV 1) (s_bads sy)).
  { intros Hv. right. specialize (H1bit Hv). unfold props_1bit in H1bit. rewrite forallb_app in H1bit.
    apply andb_true_iff in H1bit. destruct H1bit as [Hc _]. rewrite forallb_forall in Hc. apply Forall_forall.
    intros e He. apply ty_eqb_eq. apply Hc. exact He. }
  destruct (props_sim v KOut m _ st2 ps2 st3 Hinv2 Houts ltac:(intros _; left; reflexivity) E3 ltac:(lia)) as (ps3 & Hinv3 & Hd3 & Hk3 & Ho3).
  destruct (props_sim v KCon m _ st3 ps3 st4 Hinv3 Hcons H1c E4 ltac:(lia)) as (ps4 & Hinv4 & Hd4 & Hk4 & Ho4).
  destruct (props_sim v KBad m _ st4 ps4 st5 Hinv4 Hbads H1b E5 ltac:(lia)) as (ps5 & Hinv5 & Hd5 & Hk5 & Ho5).
  pose proof (decl_eq_trans _ _ _ Hd3 (decl_eq_trans _ _ _ Hd4 Hd5)) as (D1 & D2 & D3).
  (* nexts *)
  destruct (nexts_sim v m (s_states sy) ids [] [] st5 ps5 st6 Hinv5) as (ps6 & Hinv6 & Hst6 & P1 & P2 & P3 & P4 & P5); auto.
  { cbn [map app]. rewrite <- D3. apply (sh_states _ _ _ _ _ Hsh2). }
  { cbn [app]. intros j sid Hj. rewrite <- D1. apply (sh_ids _ _ _ _ _ Hsh2 _ _ Hj). }
  { apply (emit_states_len _ _ _ _ E2). }
  { cbn [app]. eapply Forall_impl; [|exact Hids2]. intros a Ha. cbn beta in *. lia. }
  cbn [app] in Hst6.
  exists m, ps6. split; [apply (i_map _ _ _ _ Hinv6)|]. split; [exact (i_run _ _ _ _ Hinv6)|].
  destruct Hnp2 as (Q1 & Q2 & Q3).
  split; [rewrite <- P1, <- D2; apply (sh_inputs _ _ _ _ _ Hsh2)|]. split; [exact Hst6|]. split; [|split].
  - rewrite <- P3. change (map snd (p_outputs ps5)) with (klist KOut ps5).
    rewrite (Ho5 KOut ltac:(discriminate)), (Ho4 KOut ltac:(discriminate)), Hk3. cbn [klist]. rewrite Q1. reflexivity.
  - rewrite <- P4. change (p_bads ps5) with (klist KBad ps5). rewrite Hk5, (Ho4 KBad ltac:(discriminate)), (Ho3 KBad ltac:(discriminate)).
    cbn [klist]. rewrite Q2. reflexivity.
  - rewrite <- P5. change (p_constraints ps5) with (klist KCon ps5). rewrite (Ho5 KCon ltac:(discriminate)), Hk4, (Ho3 KCon ltac:(discriminate)).
    cbn [klist]. rewrite Q3. reflexivity.
Qed.
