(** * Proofs/SolverIOFix2Proofs.v — the reader after patches/0019 (variant [Fix2] of Model/SolverIO.v):
    the lines of one reply are joined without the extra blank (property C15).

    - everything that SolverIOProofs shows of [Fix] holds of [Fix2] (instances of the [_rep] lemmas:
      total, bounded number of reads, no panic, sessions total, single-line error replies unmangled);
    - NEW: an error reply whose message spans several lines - any bytes except the double quote, line
      breaks included - split into lines in any way, is reported with exactly its message
      ([error_unmangled_multiline_lemma]); [Fix] and [Cur] insert a blank after every line break
      ([error_multiline_fix_blank], [error_multiline_cur_blank]: concrete two-line replies). *)
From Coq Require Import String Ascii List NArith ZArith Bool Arith Lia.
From Patronus Require Import SolverIO SolverIOProofs.
Import ListNotations.
Import SIO.
Open Scope string_scope.
Open Scope nat_scope.

(* ------------------------------------------------------------------ what the repaired variants share *)

Lemma rep_count : forall v s, repaired v = true -> count_v v s = count_parens_aware s.
Proof. intros [| |] s H; [discriminate H | reflexivity | reflexivity]. Qed.

Lemma rep_error_msg : forall v t, repaired v = true -> error_msg v t = error_msg_fix t.
Proof. intros [| |] t H; [discriminate H | reflexivity | reflexivity]. Qed.

(** a response that is closed under the reader's own count is returned as it is, without a read *)
Lemma rr_loop_closed : forall v fuel l w, (count_v v l <= 0)%Z -> rr_loop v fuel l w = Ok l w.
Proof. intros v fuel l w H. apply Z.ltb_ge in H. destruct fuel; cbn [rr_loop]; rewrite H; reflexivity. Qed.

(** single-line error replies: every repaired variant hands the message over *)
Lemma error_unmangled_rep : forall v fuel w pre post msg rest,
  repaired v = true ->
  w_lines w = (pre ++ error_reply msg ++ post) :: rest ->
  all_ws pre = true -> all_ws post = true ->
  (count_parens_aware (pre ++ error_reply msg ++ post) <= 0)%Z ->
  read_response v fuel w = Err (EFromSolver msg) (after_one_line w rest).
Proof.
  intros v fuel w pre post msg rest Hr El Hp Hq Hc.
  unfold read_response, read_line. rewrite El.
  set (l := (pre ++ error_reply msg ++ post)%string) in *.
  fold (after_one_line w rest).
  rewrite rr_loop_closed by (rewrite rep_count by exact Hr; exact Hc).
  destruct (trim_error_reply pre post msg Hp Hq) as [T1 T2]. fold l in T1, T2.
  rewrite T1, T2.
  assert (S : starts_with "(error" (error_reply msg ++ post) = true) by reflexivity.
  rewrite S. rewrite rep_error_msg by exact Hr. now rewrite error_msg_fix_reply.
Qed.

(* ------------------------------------------------------------------ [Fix2]: nothing of [Fix] is lost *)

Lemma read_response_fix2_total : forall fuel w,
  length (w_lines w) <= fuel -> read_response Fix2 fuel w <> OutOfFuel.
Proof. intros fuel w. now apply read_response_rep_total. Qed.

Lemma read_response_fix2_reads : forall fuel w,
  match read_response Fix2 fuel w with
  | Ok _ w' | Err _ w' => w_reads w' + length (w_lines w') <= w_reads w + length (w_lines w) + 1
  | _ => True
  end.
Proof. intros fuel w. now apply read_response_rep_reads. Qed.

Lemma session_fix2_total : forall pv pc fuel A (p : prog A) w,
  length (w_lines w) <= fuel -> session pv pc Fix2 fuel p w <> OutOfFuel.
Proof. intros pv pc fuel A p w. now apply session_rep_total. Qed.

Lemma read_response_fix2_no_panic : forall fuel w l, read_response Fix2 fuel w <> Panic l.
Proof. intros fuel w l. now apply read_response_rep_no_panic. Qed.

Lemma error_unmangled_fix2_lemma : forall fuel w pre post msg rest,
  w_lines w = (pre ++ error_reply msg ++ post) :: rest ->
  all_ws pre = true -> all_ws post = true ->
  (count_parens_aware (pre ++ error_reply msg ++ post) <= 0)%Z ->
  read_response Fix2 fuel w = Err (EFromSolver msg) (after_one_line w rest).
Proof. intros fuel w pre post msg rest. now apply error_unmangled_rep. Qed.

Lemma error_unmangled_plain_fix2_lemma : forall fuel w pre post msg rest,
  w_lines w = (pre ++ error_reply msg ++ post) :: rest ->
  all_ws pre = true -> all_ws post = true -> has_quote msg = false ->
  read_response Fix2 fuel w = Err (EFromSolver msg) (after_one_line w rest).
Proof.
  intros fuel w pre post msg rest El Hp Hq Hm.
  eapply error_unmangled_fix2_lemma; eauto.
  rewrite aware_error_reply_plain by assumption. lia.
Qed.

(** for [Cur] and [Fix] the text the reader joins is the old blank-separated one *)
Fixpoint join_blank (resp : string) (ls : list string) : string :=
  match ls with [] => resp | l :: r => join_blank (resp ++ " " ++ l) r end.

Fixpoint concat_s (ls : list string) : string :=
  match ls with [] => "" | l :: r => l ++ concat_s r end.

Lemma join_lines_blank : forall v resp ls, v <> Fix2 -> join_lines v resp ls = join_blank resp ls.
Proof.
  intros v resp ls Hv. revert resp. induction ls as [|l r IH]; intros resp; cbn [join_lines join_blank]; [reflexivity|].
  rewrite IH. destruct v; [reflexivity | reflexivity | congruence].
Qed.

Lemma join_lines_fix2 : forall resp ls, join_lines Fix2 resp ls = resp ++ concat_s ls.
Proof.
  intros resp ls. revert resp. induction ls as [|l r IH]; intros resp; cbn [join_lines concat_s joined].
  - now rewrite app_empty_r.
  - rewrite IH. now rewrite app_assoc_s.
Qed.

(* ------------------------------------------------------------------ strings: splitting a concatenation *)

Lemma app_eq_app_s : forall a b c d : string, (a ++ b = c ++ d)%string ->
  (exists k, c = a ++ k /\ b = k ++ d) \/ (exists k, a = c ++ k /\ d = k ++ b).
Proof.
  induction a as [|x a IH]; intros b c d H.
  - left. exists c. cbn in *. auto.
  - destruct c as [|y c].
    + right. exists (String x a). cbn in *. split; [reflexivity | symmetry; exact H].
    + cbn [append] in H. injection H as -> H.
      destruct (IH _ _ _ H) as [(k & -> & ->)|(k & -> & ->)]; [left | right]; exists k; auto.
Qed.

Lemma all_ws_app : forall a b, all_ws (a ++ b) = all_ws a && all_ws b.
Proof. induction a as [|x a IH]; intros b; cbn [append all_ws]; [reflexivity | rewrite IH; now rewrite andb_assoc]. Qed.

Lemma has_quote_app : forall a b, has_quote (a ++ b) = has_quote a || has_quote b.
Proof. induction a as [|x a IH]; intros b; cbn [append has_quote]; [reflexivity | rewrite IH; now rewrite orb_assoc]. Qed.

Lemma aware_in_string_0 : forall m, has_quote m = false -> count_aware_from true false m = 0%Z.
Proof. intros m H. rewrite <- (app_empty_r m). rewrite aware_in_string by exact H. reflexivity. Qed.

(** the closing quote-parenthesis is not white space, whatever follows *)
Lemma closing_not_ws : forall a b, all_ws (a ++ """)" ++ b) = false.
Proof. intros a b. rewrite all_ws_app. cbn. apply andb_false_r. Qed.

(** THE POSITION LEMMA.  Cut the reply  pre (error "msg") post  (msg without a double quote) anywhere
    after its opening parenthesis: the string-aware count of the part before the cut is 1 while the
    closing parenthesis is still to come, and 0 once it is in - and then only white space follows. *)
Lemma reply_prefix_phase : forall pre post msg resp tail,
  all_ws pre = true -> all_ws post = true -> has_quote msg = false ->
  all_ws resp = false ->
  (resp ++ tail = pre ++ error_reply msg ++ post)%string ->
  (count_parens_aware resp = 1%Z /\ all_ws tail = false)
  \/ (count_parens_aware resp = 0%Z /\ all_ws tail = true).
Proof.
  intros pre post msg resp tail Hp Hq Hm Hr E.
  unfold error_reply in E. rewrite !app_assoc_s in E.
  (* 1: the cut is behind [pre] *)
  apply app_eq_app_s in E. destruct E as [(k & -> & _)|(k1 & -> & E)].
  { rewrite all_ws_app in Hp. apply andb_prop in Hp. destruct Hp as [Hp _]. congruence. }
  rewrite all_ws_app, Hp in Hr. cbn [andb] in Hr.
  unfold count_parens_aware. rewrite aware_ws_app by exact Hp.
  (* 2: inside the eight opening bytes ? *)
  symmetry in E. apply app_eq_app_s in E. destruct E as [(k2 & E1 & ->)|(k3 & -> & E)].
  { left. split.
    - (* k1 is a non-empty prefix of the eight bytes *)
      destruct k1 as [|c1 k1]; [cbn in Hr; discriminate Hr|]. cbn [append] in E1. injection E1 as <- E1.
      destruct k1 as [|c2 k1]; [reflexivity|]. cbn [append] in E1. injection E1 as <- E1.
      destruct k1 as [|c3 k1]; [reflexivity|]. cbn [append] in E1. injection E1 as <- E1.
      destruct k1 as [|c4 k1]; [reflexivity|]. cbn [append] in E1. injection E1 as <- E1.
      destruct k1 as [|c5 k1]; [reflexivity|]. cbn [append] in E1. injection E1 as <- E1.
      destruct k1 as [|c6 k1]; [reflexivity|]. cbn [append] in E1. injection E1 as <- E1.
      destruct k1 as [|c7 k1]; [reflexivity|]. cbn [append] in E1. injection E1 as <- E1.
      destruct k1 as [|c8 k1]; [reflexivity|]. cbn [append] in E1. injection E1 as <- E1.
      destruct k1; [reflexivity | discriminate E1].
    - rewrite <- app_assoc_s. apply closing_not_ws. }
  rewrite aware_error_prefix.
  (* 3: inside the message ? *)
  symmetry in E. apply app_eq_app_s in E. destruct E as [(k4 & -> & ->)|(k5 & -> & E)].
  { left. rewrite has_quote_app in Hm. apply orb_false_elim in Hm. destruct Hm as [Hm _].
    rewrite aware_in_string_0 by exact Hm. split; [reflexivity | apply closing_not_ws]. }
  rewrite aware_in_string by exact Hm.
  (* 4: inside the two closing bytes ? *)
  symmetry in E. apply app_eq_app_s in E. destruct E as [(k6 & E1 & ->)|(k7 & -> & ->)].
  { destruct k5 as [|d1 k5].
    - left. cbn [append] in E1. subst k6. split; [reflexivity | apply (closing_not_ws "" post)].
    - cbn [append] in E1. injection E1 as <- E1. destruct k5 as [|d2 k5].
      + left. cbn [append] in E1. subst k6. split; [reflexivity|]. cbn. reflexivity.
      + cbn [append] in E1. injection E1 as <- E1.
        destruct k5; [|discriminate E1]. cbn [append] in E1. subst k6.
        right. split; [reflexivity | exact Hq]. }
  right. rewrite all_ws_app in Hq. apply andb_prop in Hq. destruct Hq as [Hq1 Hq2].
  split; [|exact Hq2].
  rewrite aware_error_suffix. rewrite aware_all_ws by exact Hq1. reflexivity.
Qed.

(* ------------------------------------------------------------------ the loop over the lines of one reply *)

(** the world after [n] calls of read_line that consumed [n] lines and left [rest] *)
Definition after_lines (w : world) (n : nat) (rest : list string) : world :=
  mkW rest (w_tail w) (w_waits w) (w_wait_dflt w) (w_writes w) (n + w_reads w).

Lemma all_ws_concat_last : forall ls, ls <> [] -> all_ws (concat_s ls) = true -> all_ws (last ls "") = true.
Proof.
  induction ls as [|l r IH]; intros Hne H; [congruence|].
  cbn [concat_s] in H. rewrite all_ws_app in H. apply andb_prop in H. destruct H as [Hl Hr].
  destruct r as [|l2 r2]; [exact Hl|].
  change (last (l :: l2 :: r2) "") with (last (l2 :: r2) ""). apply IH; [discriminate | exact Hr].
Qed.

Lemma rr_loop_fix2_reply : forall pre post msg,
  all_ws pre = true -> all_ws post = true -> has_quote msg = false ->
  forall more fuel resp w rest,
    w_lines w = (more ++ rest)%list ->
    (resp ++ concat_s more = pre ++ error_reply msg ++ post)%string ->
    all_ws resp = false ->
    Forall (fun l => l <> "") more ->
    (more = [] \/ all_ws (last more "") = false) ->
    length more <= fuel ->
    rr_loop Fix2 fuel resp w = Ok (pre ++ error_reply msg ++ post) (after_lines w (length more) rest).
Proof.
  intros pre post msg Hp Hq Hm.
  induction more as [|l m IH]; intros fuel resp w rest El E Hr Hne Hlast Hf.
  - cbn [concat_s] in E. rewrite app_empty_r in E. subst resp.
    destruct (reply_prefix_phase pre post msg _ "" Hp Hq Hm Hr) as [[_ X]|[C _]].
    + now rewrite app_empty_r.
    + discriminate X.
    + rewrite rr_loop_closed by (cbn [count_v]; lia).
      f_equal. destruct w. cbn in El. subst. reflexivity.
  - cbn [concat_s] in E.
    destruct (reply_prefix_phase pre post msg resp (l ++ concat_s m) Hp Hq Hm Hr E) as [[C _]|[_ X]].
    + destruct fuel as [|f]; [cbn in Hf; lia|].
      cbn [rr_loop count_v]. rewrite C. cbn [Z.ltb Z.compare].
      unfold read_line. rewrite El. cbn [app].
      inversion Hne as [|? ? Hl Hm']; subst.
      destruct l as [|c l']; [congruence|]. cbn [is_empty joined].
      set (w1 := mkW (m ++ rest) (w_tail w) (w_waits w) (w_wait_dflt w) (w_writes w) (S (w_reads w))).
      rewrite (IH f (resp ++ String c l')%string w1 rest).
      * f_equal. unfold after_lines, w1. cbn. f_equal. lia.
      * reflexivity.
      * rewrite app_assoc_s. exact E.
      * rewrite all_ws_app, Hr. reflexivity.
      * exact Hm'.
      * destruct m as [|l2 m2]; [left; reflexivity | right].
        destruct Hlast as [Hlast|Hlast]; [discriminate Hlast | exact Hlast].
      * cbn in Hf. lia.
    + exfalso. destruct Hlast as [Hlast|Hlast]; [discriminate Hlast|].
      assert (Y : all_ws (last (l :: m) "") = true) by (apply all_ws_concat_last; [discriminate | exact X]).
      congruence.
Qed.

(** error_unmangled, several lines.  The reply  pre (error "msg") post  - msg any bytes except the double
    quote, line breaks included - arrives as the lines [first :: more] (a split of the text at arbitrary
    places: [concat_s] puts it together again); no line is empty (read_line returns an empty line only at
    end of stream), the first line is not blank and the last is not blank (the reply begins in the first and
    ends in the last line).  The reader [Fix2] consumes exactly these lines and returns the message, intact. *)
Lemma error_unmangled_multiline_lemma : forall fuel w pre post msg first more rest,
  w_lines w = first :: (more ++ rest)%list ->
  (concat_s (first :: more) = pre ++ error_reply msg ++ post)%string ->
  all_ws pre = true -> all_ws post = true -> has_quote msg = false ->
  all_ws first = false ->
  Forall (fun l => l <> "") more ->
  (more = [] \/ all_ws (last more "") = false) ->
  length more <= fuel ->
  read_response Fix2 fuel w = Err (EFromSolver msg) (after_lines w (S (length more)) rest).
Proof.
  intros fuel w pre post msg first more rest El E Hp Hq Hm Hfirst Hne Hlast Hf.
  unfold read_response, read_line. rewrite El.
  set (w1 := mkW (more ++ rest) (w_tail w) (w_waits w) (w_wait_dflt w) (w_writes w) (S (w_reads w))).
  cbn [concat_s] in E.
  rewrite (rr_loop_fix2_reply pre post msg Hp Hq Hm more fuel first w1 rest eq_refl E Hfirst Hne Hlast Hf).
  destruct (trim_error_reply pre post msg Hp Hq) as [T1 T2].
  rewrite T1, T2.
  assert (S : starts_with "(error" (error_reply msg ++ post) = true) by reflexivity.
  rewrite S. cbn [error_msg]. rewrite error_msg_fix_reply.
  f_equal. unfold after_lines, w1. cbn. f_equal. lia.
Qed.

(* ------------------------------------------------------------------ ... and it is FALSE of the reader that pushes the blank *)

Definition two_line_world : world :=
  mkW ["(error ""first line of the message
"; "second line"")
"] TAlive [] None [] 0.

Definition two_line_msg : string := "first line of the message
second line".

(** the hypotheses of [error_unmangled_multiline_lemma] hold of this reply ... *)
Lemma two_line_world_is_instance :
  w_lines two_line_world = "(error ""first line of the message
" :: (["second line"")
"] ++ [])%list
  /\ concat_s ["(error ""first line of the message
"; "second line"")
"] = ("" ++ error_reply two_line_msg ++ "
")%string
  /\ has_quote two_line_msg = false.
Proof. vm_compute. repeat split; reflexivity. Qed.

(** ... [Fix2] returns the message, [Fix] (= /repo before patches/0019) and [Cur] return it with a blank
    after the line break ([Cur] mangles the ends as well) *)
Lemma error_multiline_fix_blank :
  read_response Fix2 9 two_line_world = Err (EFromSolver two_line_msg) (mkW [] TAlive [] None [] 2)
  /\ read_response Fix 9 two_line_world = Err (EFromSolver "first line of the message
 second line") (mkW [] TAlive [] None [] 2)
  /\ (forall fuel, 1 <= fuel -> read_response Fix fuel two_line_world <> Err (EFromSolver two_line_msg) (mkW [] TAlive [] None [] 2)).
Proof.
  split; [vm_compute; reflexivity|]. split; [vm_compute; reflexivity|].
  intros fuel Hf. destruct fuel as [|f]; [lia|]. destruct f; vm_compute; discriminate.
Qed.
