(** * Proofs/EvalProofs.v — typing of the semantics: results are canonical
    representatives of their width. *)
From Coq Require Import Lia.
From Patronus Require Import Eval EvalImpl BVLemmas ExprLemmas.
Open Scope N_scope.

Section Bounds.
  Variable rho : env.
  Hypothesis Hrho : env_wf rho.

  Lemma eval_bounds e : wt e = true ->
    (forall w, type_of e = TBV w -> ebv rho e < 2 ^ w) /\
    (forall iw dw, type_of e = TArr iw dw -> forall i, earr rho e i < 2 ^ dw).
  Proof.
    destruct Hrho as [Hbv Harr].
    induction e as
      [ n w | w v | a IHa by_ w | a IHa by_ w | a IHa hi lo | a IHa w | a IHa w
      | a IHa b IHb | a IHa b IHb | a IHa b IHb | a IHa b IHb w | a IHa b IHb | a IHa b IHb w
      | a IHa b IHb w | a IHa b IHb w | a IHa b IHb w | a IHa b IHb w | a IHa b IHb w
      | a IHa b IHb w | a IHa b IHb w | a IHa b IHb w | a IHa b IHb w
      | a IHa b IHb w | a IHa b IHb w | a IHa b IHb w | a IHa b IHb w | a IHa b IHb w
      | a IHa b IHb w | a IHa b IHb w | a IHa b IHb c IHc
      | n iw dw | a IHa iw dw | a IHa b IHb | a IHa b IHb c IHc | a IHa b IHb c IHc ];
      intros Hwt; (split; [intros w0 Ht | intros iw0 dw0 Ht i]); cbn [type_of] in Ht;
      try discriminate Ht; try (inversion Ht; subst; clear Ht); cbn [ebv earr].
    - apply Hbv.
    - now apply wt_lit in Hwt.
    - apply wt_zext in Hwt. destruct Hwt as (Hwa & Hta & Hlt).
      replace (2 ^ w0) with (2 ^ ((w0 - by_) + by_)) by (f_equal; lia). apply bv_zext_bound. now apply IHa.
    - apply wt_sext in Hwt. destruct Hwt as (Hwa & Hta & Hlt).
      unfold width. rewrite Hta. replace (2 ^ w0) with (2 ^ ((w0 - by_) + by_)) by (f_equal; lia).
      apply bv_sext_bound. now apply IHa.
    - apply bv_slice_bound.
    - apply wt_not in Hwt. destruct Hwt as (Hwa & Hta). apply bv_not_bound. now apply IHa.
    - apply bv_neg_bound.
    - apply b2n_bound.
    - apply wt_implies in Hwt. destruct Hwt as (Hwa & Hwb & Hta & Htb).
      apply bv_implies_bound; [now apply IHa | now apply IHb].
    - apply b2n_bound.
    - apply b2n_bound.
    - apply b2n_bound.
    - apply b2n_bound.
    - apply wt_concat in Hwt. destruct Hwt as (Hwa & Hwb & wa & wb & Hta & Htb & ->).
      unfold width. rewrite Htb. apply bv_concat_bound; [now apply IHa | now apply IHb].
    - apply wt_and in Hwt. destruct Hwt as (Hwa & Hwb & Hta & Htb). apply land_bound. now apply IHa.
    - apply wt_or in Hwt. destruct Hwt as (Hwa & Hwb & Hta & Htb). apply lor_bound; [now apply IHa | now apply IHb].
    - apply wt_xor in Hwt. destruct Hwt as (Hwa & Hwb & Hta & Htb). apply lxor_bound; [now apply IHa | now apply IHb].
    - apply bv_shl_bound.
    - apply wt_ashr in Hwt. destruct Hwt as (Hwa & Hwb & Hta & Htb). apply bv_ashr_bound. now apply IHa.
    - apply wt_lshr in Hwt. destruct Hwt as (Hwa & Hwb & Hta & Htb). apply bv_lshr_bound. now apply IHa.
    - apply bv_add_bound.
    - apply bv_mul_bound.
    - apply wt_sdiv in Hwt. destruct Hwt as (Hwa & Hwb & Hta & Htb). apply bv_sdiv_bound. now apply IHa.
    - apply wt_udiv in Hwt. destruct Hwt as (Hwa & Hwb & Hta & Htb). apply bv_udiv_bound. now apply IHa.
    - apply wt_smod in Hwt. destruct Hwt as (Hwa & Hwb & Hta & Htb). apply bv_smod_bound. now apply IHa.
    - apply wt_srem in Hwt. destruct Hwt as (Hwa & Hwb & Hta & Htb). apply bv_srem_bound. now apply IHa.
    - apply wt_urem in Hwt. destruct Hwt as (Hwa & Hwb & Hta & Htb). apply bv_urem_bound. now apply IHa.
    - apply bv_sub_bound.
    - apply wt_read in Hwt. destruct Hwt as (Hwa & Hwb & iw & Hta & Htb). now apply (proj2 (IHa Hwa) iw w0).
    - apply wt_ite in Hwt. destruct Hwt as (Hwa & Hwb & Hwc & Hta & w' & Htb & Htc).
      rewrite Htc in H0. inversion H0; subst.
      destruct (ebv rho a =? 1); [now apply IHb | now apply IHc].
    - apply wt_ite in Hwt. destruct Hwt as (Hwa & Hwb & Hwc & Hta & w' & Htb & Htc). congruence.
    - apply Harr.
    - apply wt_aconst in Hwt. destruct Hwt as (Hwa & Hta & Hiw). now apply IHa.
    - apply b2n_bound.
    - apply wt_store in Hwt. destruct Hwt as (Hwa & Hwb & Hwc & iw & dw & Hta & Htb & Htc). congruence.
    - apply wt_store in Hwt. destruct Hwt as (Hwa & Hwb & Hwc & iw & dw & Hta & Htb & Htc).
      rewrite Hta in H0. inversion H0; subst. unfold arr_store.
      destruct (i =? ebv rho b); [now apply IHc | now apply (proj2 (IHa Hwa) iw0 dw0)].
    - apply wt_aite in Hwt. destruct Hwt as (Hwa & Hwb & Hwc & Hta & iw & dw & Htb & Htc). congruence.
    - apply wt_aite in Hwt. destruct Hwt as (Hwa & Hwb & Hwc & Hta & iw & dw & Htb & Htc).
      rewrite Htc in H0. inversion H0; subst.
      destruct (ebv rho a =? 1); [now apply (proj2 (IHb Hwb) iw0 dw0) | now apply (proj2 (IHc Hwc) iw0 dw0)].
  Qed.

  Lemma ebv_bound e w : wt e = true -> type_of e = TBV w -> ebv rho e < 2 ^ w.
  Proof. intros H. apply (eval_bounds e H). Qed.

  Lemma earr_bound e iw dw i : wt e = true -> type_of e = TArr iw dw -> earr rho e i < 2 ^ dw.
  Proof. intros H Ht. now apply (proj2 (eval_bounds e H) iw dw). Qed.
End Bounds.

(** With the provider induced by a symbol environment the cut-off semantics is
    the plain semantics. *)
Lemma cut_sym rho e :
  cbv (sym_provider rho) rho e = ebv rho e /\ carr (sym_provider rho) rho e = earr rho e.
Proof.
  induction e; cbn [cbv carr ebv earr is_array_type sym_provider get_bv get_array];
    repeat match goal with H : _ /\ _ |- _ => destruct H end;
    repeat match goal with
           | H : cbv _ _ _ = _ |- _ => rewrite H; clear H
           | H : carr _ _ _ = _ |- _ => rewrite H; clear H
           end;
    split; reflexivity.
Qed.
