(** * Proofs/GuardProofs.v — [expr_to_guard] builds a guard equivalent to the expression.

    Two steps: the guard equals the Boolean skeleton [bsem] over the registered terminals
    (for every valuation of the terminals), and under the valuation induced by a symbol
    assignment the skeleton of a well-typed boolean expression is its SMT-LIB value. *)
From Coq Require Import Lia Arith.
From Patronus Require Import GuardSem BddProofs BVLemmas ExprLemmas EvalProofs.
Open Scope N_scope.

(* ------------------------------------------------------------------ expr_eqb *)

Lemma expr_eqb_refl e : expr_eqb e e = true.
Proof.
  induction e; cbn [expr_eqb];
    repeat match goal with H : expr_eqb _ _ = true |- _ => rewrite H; clear H end;
    rewrite ?N.eqb_refl, ?String.eqb_refl; reflexivity.
Qed.

Lemma expr_eqb_eq a : forall b, expr_eqb a b = true -> a = b.
Proof.
  induction a; intros b0 H; destruct b0; cbn [expr_eqb] in H; try discriminate;
    repeat (apply andb_prop in H; destruct H as [H ?]);
    repeat match goal with
           | H : (_ =? _) = true |- _ => apply N.eqb_eq in H
           | H : String.eqb _ _ = true |- _ => apply String.eqb_eq in H
           | IH : forall b, expr_eqb ?x b = true -> ?x = b, H : expr_eqb ?x _ = true |- _ =>
               apply IH in H
           end; subst; reflexivity.
Qed.

(* ------------------------------------------------------------------ terminals *)

Definition extends (t t' : list expr) : Prop := exists l, t' = t ++ l.

Lemma extends_refl t : extends t t.
Proof. exists []. now rewrite app_nil_r. Qed.

Lemma extends_trans t1 t2 t3 : extends t1 t2 -> extends t2 t3 -> extends t1 t3.
Proof. intros [l1 ->] [l2 ->]. exists (l1 ++ l2). now rewrite app_assoc. Qed.

Lemma index_of_app e t l i : index_of e t = Some i -> index_of e (t ++ l) = Some i.
Proof.
  revert i. induction t as [| h t IH]; intros i H; cbn in *; [discriminate |].
  destruct (expr_eqb h e); [assumption |].
  destruct (index_of e t) as [j |] eqn:E; [| discriminate].
  now rewrite (IH j eq_refl).
Qed.

Lemma index_of_extends e t t' i : extends t t' -> index_of e t = Some i -> index_of e t' = Some i.
Proof. intros [l ->]. apply index_of_app. Qed.

Lemma index_of_new e t : index_of e t = None -> index_of e (t ++ [e]) = Some (length t).
Proof.
  induction t as [| h t IH]; intros H; cbn in *.
  - now rewrite expr_eqb_refl.
  - destruct (expr_eqb h e); [discriminate |].
    destruct (index_of e t); [discriminate |]. now rewrite IH.
Qed.

Lemma index_of_nth e t i : index_of e t = Some i -> nth_error t i = Some e.
Proof.
  revert i. induction t as [| h t IH]; intros i H; cbn in *; [discriminate |].
  destruct (expr_eqb h e) eqn:E.
  - inversion H; subst. apply expr_eqb_eq in E. now subst.
  - destruct (index_of e t) as [j |]; [| discriminate]. inversion H; subst. cbn. now apply IH.
Qed.

Lemma terminal_spec t e t' g :
  terminal t e = (t', g) -> extends t t' /\ exists i, index_of e t' = Some i /\ g = bdd_var i.
Proof.
  unfold terminal. destruct (index_of e t) as [i |] eqn:E; intros H; inversion H; subst.
  - split; [apply extends_refl | eauto].
  - split; [now exists [e] |]. exists (length t). split; [now apply index_of_new | reflexivity].
Qed.

(* ------------------------------------------------------------------ the Boolean skeleton *)

Definition term_cov (t : list expr) (e : expr) : bool :=
  match index_of e t with Some _ => true | None => false end.

(** all terminals the skeleton of [e] refers to are registered in [t] *)
Fixpoint covered (t : list expr) (e : expr) {struct e} : bool :=
  let allb := forallb expr_is_bool (children e) in
  match e with
  | BVLiteral _ _ => true
  | BVNot a _ => if allb then covered t a else term_cov t e
  | BVAnd a b _ | BVOr a b _ | BVXor a b _ | BVImplies a b =>
      if allb then covered t a && covered t b else term_cov t e
  | _ => term_cov t e
  end.

Lemma term_cov_extends t t' e : extends t t' -> term_cov t e = true -> term_cov t' e = true.
Proof.
  unfold term_cov. intros Hx H. destruct (index_of e t) as [i |] eqn:E; [| discriminate].
  now rewrite (index_of_extends _ _ _ _ Hx E).
Qed.

Lemma term_val_extends t t' v e : extends t t' -> term_cov t e = true -> term_val t' v e = term_val t v e.
Proof.
  unfold term_cov, term_val. intros Hx H. destruct (index_of e t) as [i |] eqn:E; [| discriminate].
  now rewrite (index_of_extends _ _ _ _ Hx E).
Qed.

Lemma covered_extends t t' e : extends t t' -> covered t e = true -> covered t' e = true.
Proof.
  intros Hx. induction e; cbn [covered]; try (now apply term_cov_extends); try reflexivity;
    destruct (forallb expr_is_bool (children _)); try (now apply term_cov_extends); intros H;
    try (apply andb_prop in H; destruct H as [H1 H2]; rewrite IHe1, IHe2 by assumption; reflexivity);
    now apply IHe.
Qed.

Lemma bsem_extends t t' v e : extends t t' -> covered t e = true -> bsem t' v e = bsem t v e.
Proof.
  intros Hx. induction e; cbn [covered bsem]; try (now apply term_val_extends); try reflexivity;
    destruct (forallb expr_is_bool (children _)); try (now apply term_val_extends); intros H;
    try (apply andb_prop in H; destruct H as [H1 H2]; rewrite IHe1, IHe2 by assumption; reflexivity);
    now rewrite IHe.
Qed.

(** what a successful conversion establishes *)
Definition e2g_post (t : list expr) (e : expr) (t' : list expr) (g : bdd) : Prop :=
  extends t t' /\ covered t' e = true /\ forall v, bdd_eval v g = bsem t' v e.

Lemma rbind_ok {A B} (r : res A) (k : A -> res B) y :
  rbind r k = Ok y -> exists a, r = Ok a /\ k a = Ok y.
Proof. destruct r; cbn; [eauto | discriminate]. Qed.

Ltac inv_ok :=
  repeat match goal with
         | H : rbind _ _ = Ok _ |- _ =>
             let a := fresh "p" in let E := fresh "E" in
             apply rbind_ok in H; destruct H as (a & E & H)
         | H : (if ?d then Panic else _) = Ok _ |- _ => destruct d; [discriminate |]
         | H : Ok _ = Ok _ |- _ => inversion H; subst; clear H
         | H : Panic = Ok _ |- _ => discriminate
         end.

(** a node that is read as a terminal by [bsem] / [covered] *)
Definition reads_as_terminal (e : expr) : Prop :=
  (forall t v, bsem t v e = term_val t v e) /\ (forall t, covered t e = term_cov t e).

Lemma post_terminal t0 t e t' g :
  reads_as_terminal e -> extends t0 t -> terminal t e = (t', g) -> e2g_post t0 e t' g.
Proof.
  intros [Hb Hc] Hx Ht. apply terminal_spec in Ht. destruct Ht as [Hx' (i & Hi & ->)].
  split; [eapply extends_trans; eassumption |]. split.
  - rewrite Hc. unfold term_cov. now rewrite Hi.
  - intros v. rewrite Hb. unfold term_val. now rewrite Hi, eval_var.
Qed.

Ltac solve_ext :=
  solve [ apply extends_refl | eassumption | eapply extends_trans; [eassumption | solve_ext] ].

Lemma surj_pair_eq {A B} (p : A * B) : p = (fst p, snd p).
Proof. now destruct p. Qed.

Lemma cut_other_ok rp t e r : cut_other rp t e = Ok r -> terminal t e = r.
Proof. unfold cut_other. destruct (r_traversal rp); [now inversion 1 | discriminate]. Qed.

Lemma cut_connective_ok rp t e r : cut_connective rp t e = Ok r -> terminal t e = r.
Proof. unfold cut_connective. destruct (r_traversal rp && r_closures rp); [now inversion 1 | discriminate]. Qed.

Ltac bin_case lem Hb :=
  match goal with
  | Hx1 : extends ?t (fst ?p), Hc1 : covered (fst ?p) ?a = true,
    Hv1 : forall v, bdd_eval v (snd ?p) = bsem (fst ?p) v ?a,
    Hx2 : extends (fst ?p) (fst ?q), Hc2 : covered (fst ?q) ?b = true,
    Hv2 : forall v, bdd_eval v (snd ?q) = bsem (fst ?q) v ?b |- _ =>
      split; [eapply extends_trans; eassumption |]; split;
      [ cbn [covered]; rewrite Hb, (covered_extends _ _ _ Hx2 Hc1), Hc2; reflexivity
      | intros vv; cbn [bsem]; rewrite Hb, lem, Hv1, Hv2, (bsem_extends _ _ vv _ Hx2 Hc1); reflexivity ]
  end.

(** whatever repairs are switched on, in either build: a returned guard is the Boolean
    skeleton of the expression *)
Lemma e2g_sound rp debug e : forall t t' g,
  e2g rp debug t e = Ok (t', g) -> e2g_post t e t' g.
Proof.
  induction e; intros t t' g H; cbn [e2g] in H;
    (* the test that decides between descending and cutting *)
    try (match type of H with
         | (if ?c then _ else _) = _ => destruct c eqn:Hb
         end);
    (* cut: the node becomes a terminal *)
    try (match type of H with
         | cut_other _ _ _ = Ok _ =>
             apply cut_other_ok in H; eapply post_terminal; [split; intros; reflexivity | apply extends_refl | exact H]
         | cut_connective _ _ _ = Ok _ =>
             apply cut_connective_ok in H; eapply post_terminal; [| apply extends_refl | exact H];
             split; intros; [cbn [bsem] | cbn [covered]]; rewrite Hb; reflexivity
         end);
    inv_ok;
    repeat match goal with
           | IH : forall t t' g, e2g ?r ?d t ?x = Ok (t', g) -> _, E : e2g ?r ?d _ ?x = Ok ?p |- _ =>
               rewrite (surj_pair_eq p) in E; apply IH in E; destruct E as (? & ? & ?); clear IH
           end;
    (* terminals: symbols and the visited nodes that are not connectives *)
    try (match goal with
         | Ht : terminal ?tt ?x = (_, _) |- _ =>
             eapply post_terminal; [split; intros; reflexivity | | exact Ht ]; solve_ext
         end).
  (* literal *)
  - split; [apply extends_refl |]. split; [reflexivity | intros vv; reflexivity].
  (* not *)
  - cbn [fst snd] in *. split; [assumption |]. split; [cbn [covered]; now rewrite Hb |].
    intros vv. cbn [bsem]. rewrite Hb, eval_not. now f_equal.
  - bin_case eval_implies Hb.
  - bin_case eval_and Hb.
  - bin_case eval_or Hb.
  - bin_case eval_xor Hb.
Qed.

Lemma expr_to_guard_sound rp debug t e t' g :
  expr_to_guard rp debug t e = Ok (t', g) -> e2g_post t e t' g.
Proof.
  unfold expr_to_guard. destruct (debug && negb (expr_is_bool e)); [discriminate |]. apply e2g_sound.
Qed.

(* ------------------------------------------------------------------ skeleton = SMT-LIB value *)

Lemma bit_cases x : x < 2 ^ 1 -> x = 0 \/ x = 1.
Proof. change (2 ^ 1) with 2. lia. Qed.

Lemma is_bool_type e : expr_is_bool e = true -> type_of e = TBV 1.
Proof.
  unfold expr_is_bool. destruct (type_of e) as [w | iw dw]; [| discriminate].
  intros H. apply N.eqb_eq in H. now subst.
Qed.

Lemma tval_index rho t e i : index_of e t = Some i -> tval rho t i = (ebv rho e =? 1).
Proof. intros H. unfold tval. now rewrite (index_of_nth _ _ _ H). Qed.

Lemma type_is_bool e : type_of e = TBV 1 -> expr_is_bool e = true.
Proof. unfold expr_is_bool. now intros ->. Qed.

Section SkeletonValue.
  Variable rho : env.
  Hypothesis Hrho : env_wf rho.

  Lemma term_val_ebv t e : term_cov t e = true -> term_val t (tval rho t) e = (ebv rho e =? 1).
  Proof.
    unfold term_cov, term_val. destruct (index_of e t) as [i |] eqn:E; [| discriminate].
    intros _. now apply tval_index.
  Qed.

  Ltac bin_ebv IHe1 IHe2 Hwa Hwb Hta Htb Hcov unf :=
    rewrite (type_is_bool _ Hta), (type_is_bool _ Htb) in *; cbn [andb] in *;
    apply andb_prop in Hcov; destruct Hcov as [Hca Hcb];
    rewrite (IHe1 Hwa Hta Hca), (IHe2 Hwb Htb Hcb); cbn [ebv]; unfold unf;
    destruct (bit_cases _ (ebv_bound rho Hrho _ 1 Hwa Hta)) as [-> | ->];
    destruct (bit_cases _ (ebv_bound rho Hrho _ 1 Hwb Htb)) as [-> | ->]; reflexivity.

  Lemma bsem_ebv t e :
    wt e = true -> type_of e = TBV 1 -> covered t e = true ->
    bsem t (tval rho t) e = (ebv rho e =? 1).
  Proof.
    induction e; intros Hwt Hty Hcov; cbn [bsem]; cbn [covered] in Hcov;
      try (now apply term_val_ebv); cbn [children forallb] in *.
    - (* literal *)
      cbn [type_of] in Hty. inversion Hty; subst. reflexivity.
    - (* not *)
      cbn [type_of] in Hty. inversion Hty; subst.
      apply wt_not in Hwt. destruct Hwt as [Hwa Hta].
      rewrite (type_is_bool _ Hta) in *. cbn [andb] in *.
      rewrite (IHe Hwa Hta Hcov). cbn [ebv]. unfold bv_not.
      destruct (bit_cases _ (ebv_bound rho Hrho e 1 Hwa Hta)) as [-> | ->]; reflexivity.
    - (* implies *)
      apply wt_implies in Hwt. destruct Hwt as (Hwa & Hwb & Hta & Htb).
      bin_ebv IHe1 IHe2 Hwa Hwb Hta Htb Hcov bv_implies.
    - (* and *)
      cbn [type_of] in Hty. inversion Hty; subst.
      apply wt_and in Hwt. destruct Hwt as (Hwa & Hwb & Hta & Htb).
      bin_ebv IHe1 IHe2 Hwa Hwb Hta Htb Hcov bv_and.
    - (* or *)
      cbn [type_of] in Hty. inversion Hty; subst.
      apply wt_or in Hwt. destruct Hwt as (Hwa & Hwb & Hta & Htb).
      bin_ebv IHe1 IHe2 Hwa Hwb Hta Htb Hcov bv_or.
    - (* xor *)
      cbn [type_of] in Hty. inversion Hty; subst.
      apply wt_xor in Hwt. destruct Hwt as (Hwa & Hwb & Hta & Htb).
      bin_ebv IHe1 IHe2 Hwa Hwb Hta Htb Hcov bv_xor.
  Qed.

  (** [guard_equiv]: the guard is true under the valuation induced by [rho] iff the
      expression evaluates to 1 *)
  Lemma guard_equiv_lemma rp debug t e t' g :
    wt e = true -> expr_is_bool e = true ->
    expr_to_guard rp debug t e = Ok (t', g) ->
    bdd_eval (tval rho t') g = (ebv rho e =? 1).
  Proof.
    intros Hwt Hb H. apply expr_to_guard_sound in H. destruct H as (_ & Hc & Hv).
    rewrite Hv. apply bsem_ebv; auto using is_bool_type.
  Qed.
End SkeletonValue.

(* ------------------------------------------------------------------ when does it panic? *)

(** The expressions on which [expr_to_guard] succeeds: below the connectives only
    literals, symbols and - in builds without debug assertions - nodes all of whose
    children are boolean. *)
Fixpoint guardable (debug : bool) (e : expr) {struct e} : bool :=
  forallb expr_is_bool (children e) &&
  match e with
  | BVSymbol _ _ | ArraySymbol _ _ _ | BVLiteral _ _ => true
  | BVNot a _ => guardable debug a
  | BVAnd a b _ | BVOr a b _ | BVXor a b _ | BVImplies a b => guardable debug a && guardable debug b
  | BVZeroExt a _ _ | BVSignExt a _ _ | BVSlice a _ _ | BVNegate a _ | ArrayConstant a _ _ =>
      negb debug && guardable debug a
  | BVEqual a b | BVGreater a b | BVGreaterSigned a b _
  | BVGreaterEqual a b | BVGreaterEqualSigned a b _ | BVConcat a b _
  | BVShiftLeft a b _ | BVArithmeticShiftRight a b _ | BVShiftRight a b _ | BVAdd a b _ | BVMul a b _
  | BVSignedDiv a b _ | BVUnsignedDiv a b _ | BVSignedMod a b _ | BVSignedRem a b _
  | BVUnsignedRem a b _ | BVSub a b _ | BVArrayRead a b _ | ArrayEqual a b =>
      negb debug && guardable debug a && guardable debug b
  | BVIte a b c | ArrayStore a b c | ArrayIte a b c =>
      negb debug && guardable debug a && guardable debug b && guardable debug c
  end.

Lemma e2g_total debug e : forall t, guardable debug e = true -> exists t' g, e2g no_repairs debug t e = Ok (t', g).
Proof.
  induction e; intros t H; cbn [guardable] in H; apply andb_prop in H; destruct H as [Hc H];
    cbn [e2g]; rewrite ?Hc; cbn [no_repairs r_closures negb andb];
    repeat (apply andb_prop in H; let H' := fresh "Hg" in destruct H as [H H']);
    try (match type of H with negb ?d = true => destruct d; [discriminate |] end);
    repeat match goal with
           | IH : forall t, guardable ?d ?x = true -> _, Hg : guardable ?d ?x = true |- context [e2g _ ?d ?tt ?x] =>
               let t1 := fresh "t" in let g1 := fresh "g" in let E := fresh "E" in
               destruct (IH tt Hg) as (t1 & g1 & E); rewrite E; cbn [rbind fst snd]; clear IH
           end;
    try (destruct (terminal _ _) as [tt gg]); eauto.
Qed.

Lemma guardable_total debug t e :
  expr_is_bool e = true -> guardable debug e = true -> exists t' g, expr_to_guard no_repairs debug t e = Ok (t', g).
Proof.
  intros Hb Hg. unfold expr_to_guard. rewrite Hb. rewrite andb_false_r. now apply e2g_total.
Qed.

Lemma e2g_panics debug e : forall t, guardable debug e = false -> e2g no_repairs debug t e = Panic.
Proof.
  induction e; intros t H; cbn [guardable] in H; cbn [e2g];
    destruct (forallb expr_is_bool (children _)) eqn:Hc;
    cbn [negb andb no_repairs r_closures r_traversal cut_other cut_connective] in *;
    try reflexivity; try discriminate;
    repeat match goal with
           | |- context [e2g ?r ?d ?tt ?x] =>
               let E := fresh "E" in
               destruct (e2g r d tt x) as [[? ?] |] eqn:E; cbn [rbind fst snd]; [| reflexivity]
           end;
    destruct debug; cbn [negb andb] in *; try reflexivity; try discriminate;
    repeat match goal with
           | IH : forall t, guardable ?d ?x = false -> e2g _ ?d t ?x = Panic, E : e2g _ ?d ?tt ?x = Ok _ |- _ =>
               destruct (guardable d x) eqn:?; [clear IH | rewrite (IH tt eq_refl) in E; discriminate]
           end; cbn [andb] in *; try discriminate.
Qed.

(** with the traversal and the closures repaired the conversion is total: every node that
    is not a connective over boolean operands simply becomes a terminal *)
Lemma e2g_repaired_total rp debug e :
  r_traversal rp = true -> r_closures rp = true ->
  forall t, exists t' g, e2g rp debug t e = Ok (t', g).
Proof.
  intros H1 H2.
  induction e; intros t; cbn [e2g]; unfold cut_other, cut_connective; rewrite ?H1, ?H2;
    cbn [negb andb]; rewrite ?andb_false_r;
    try (destruct (forallb expr_is_bool (children _)));
    repeat match goal with
           | IH : forall t, exists t' g, e2g ?r ?d t ?x = Ok (t', g) |- context [e2g ?r ?d ?tt ?x] =>
               let t1 := fresh "t" in let g1 := fresh "g" in let E := fresh "E" in
               destruct (IH tt) as (t1 & g1 & E); rewrite E; cbn [rbind fst snd]; clear IH
           end;
    try (destruct (terminal _ _) as [tt gg]); eauto.
Qed.

Lemma expr_to_guard_repaired_total rp debug t e :
  r_traversal rp = true -> r_closures rp = true -> expr_is_bool e = true ->
  exists t' g, expr_to_guard rp debug t e = Ok (t', g).
Proof.
  intros H1 H2 Hb. unfold expr_to_guard. rewrite Hb, andb_false_r. now apply e2g_repaired_total.
Qed.
