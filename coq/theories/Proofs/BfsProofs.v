(** * Proofs/BfsProofs.v — the generic breadth-first search of Spec/ReachFix.v is exact.

    For a graph over numbers with successor function [succs], initial nodes
    [inits] and a finite universe [nodes] closed under [succs]:
    - [graph_reach] never returns [OutOfFuel] (each iteration adds at least one new
      node to the visited set, which is a subset of the universe);
    - it returns [Safe] iff no bad node is reachable by a path of ANY length
      (completeness comes from the closure of the visited set under [succs]);
    - it returns [Unsafe d] iff [d] is the least length of a path to a bad node. *)
From Coq Require Import List NArith Lia MSetPositive MSetProperties SetoidList.
From Patronus Require Import ReachFix.
Import ListNotations.
Local Open Scope nat_scope.

Module PSP := MSetProperties.Properties PS.

Lemma key_inj x y : key x = key y -> x = y.
Proof.
  unfold key. intros H. apply N.succ_inj. rewrite <- !N.succ_pos_spec. now rewrite H.
Qed.

Section BfsProofs.
  Variable succs : N -> list N.
  Variable badb : N -> bool.
  Variable nodes inits : list N.
  Hypothesis inits_nodes : forall x, In x inits -> In x nodes.
  Hypothesis succs_nodes : forall x y, In x nodes -> In y (succs x) -> In y nodes.

  (** [reach_in k x]: there is a path of exactly [k] edges from an initial node to [x] *)
  Inductive reach_in : nat -> N -> Prop :=
  | ri_init x : In x inits -> reach_in 0 x
  | ri_step k x y : reach_in k x -> In y (succs x) -> reach_in (S k) y.

  Lemma reach_in_nodes k x : reach_in k x -> In x nodes.
  Proof.
    induction 1 as [x Hx | k x y Hr IH Hy].
    - now apply inits_nodes.
    - now apply (succs_nodes x).
  Qed.

  (** ** the fold that extends the visited set *)
  Lemma absorb_spec l : forall V fr0 V' fr',
      fold_left absorb l (V, fr0) = (V', fr') ->
      (forall p, PS.In p V' <-> PS.In p V \/ exists j, In j l /\ p = key j) /\
      (forall j, In j fr' <-> In j fr0 \/ (In j l /\ ~ PS.In (key j) V)).
  Proof.
    induction l as [| j0 l IH]; intros V fr0 V' fr' H; cbn [fold_left] in H.
    - inversion H; subst. split.
      + intros p. split; [now left | intros [Hp | (j & [] & _)]; exact Hp].
      + intros j. split; [now left | intros [Hj | ([] & _)]; exact Hj].
    - unfold absorb at 2 in H. cbn [fst snd] in H.
      destruct (PS.mem (key j0) V) eqn:Hm.
      + apply PS.mem_spec in Hm. destruct (IH _ _ _ _ H) as [HV Hfr]. split.
        * intros p. rewrite HV. split.
          -- intros [Hp | (j & Hj & ->)]; [now left | right; exists j; split; [now right | reflexivity]].
          -- intros [Hp | (j & [<- | Hj] & ->)]; [now left | now left | right; now exists j].
        * intros j. rewrite Hfr. split.
          -- intros [Hj | (Hj & Hn)]; [now left | right; split; [now right | exact Hn]].
          -- intros [Hj | ([<- | Hj] & Hn)]; [now left | contradiction | right; now split].
      + assert (Hnm : ~ PS.In (key j0) V) by (intros Hc; apply PS.mem_spec in Hc; congruence).
        destruct (IH _ _ _ _ H) as [HV Hfr]. split.
        * intros p. rewrite HV, PS.add_spec. split.
          -- intros [[-> | Hp] | (j & Hj & ->)].
             ++ right. exists j0. split; [now left | reflexivity].
             ++ now left.
             ++ right. exists j. split; [now right | reflexivity].
          -- intros [Hp | (j & [<- | Hj] & ->)].
             ++ left. now right.
             ++ left. now left.
             ++ right. now exists j.
        * intros j. rewrite Hfr. split.
          -- intros [[<- | Hj] | (Hj & Hn)].
             ++ right. split; [now left | exact Hnm].
             ++ now left.
             ++ right. split; [now right |]. intros Hc. apply Hn. apply PS.add_spec. now right.
          -- intros [Hj | ([<- | Hj] & Hn)].
             ++ left. now right.
             ++ left. now left.
             ++ destruct (N.eq_dec j j0) as [-> | Hne]; [left; now left |].
                right. split; [exact Hj |]. intros Hc. apply PS.add_spec in Hc.
                destruct Hc as [Hc | Hc]; [apply key_inj in Hc; contradiction | contradiction].
  Qed.

  Lemma absorb_all_spec V l :
      (forall p, PS.In p (fst (absorb_all V l)) <-> PS.In p V \/ exists j, In j l /\ p = key j) /\
      (forall j, In j (snd (absorb_all V l)) <-> In j l /\ ~ PS.In (key j) V).
  Proof.
    unfold absorb_all. destruct (fold_left absorb l (V, [])) as [V' fr'] eqn:H.
    destruct (absorb_spec _ _ _ _ _ H) as [HV Hfr]. cbn [fst snd]. split; [exact HV |].
    intros j. rewrite Hfr. split; [intros [[] | Hj]; exact Hj | now right].
  Qed.

  (** ** cardinality of a visited set inside the universe *)
  Definition inside (V : PS.t) : Prop := forall p, PS.In p V -> exists x, p = key x /\ In x nodes.

  Lemma NoDupA_eq_NoDup (l : list positive) : NoDupA Logic.eq l -> NoDup l.
  Proof.
    induction 1 as [| x l Hx Hl IH]; constructor; [| exact IH].
    intros Hin. apply Hx. apply InA_alt. now exists x.
  Qed.

  Lemma card_bound V : inside V -> PS.cardinal V <= length nodes.
  Proof.
    intros Hin. rewrite PS.cardinal_spec.
    rewrite <- (map_length key nodes).
    apply NoDup_incl_length.
    - apply NoDupA_eq_NoDup. apply PS.elements_spec2w.
    - intros p Hp.
      assert (HI : PS.In p V).
      { apply PS.elements_spec1. apply InA_alt. now exists p. }
      destruct (Hin p HI) as (x & -> & Hx). now apply in_map.
  Qed.

  (** ** the loop invariant *)
  Record inv (V : PS.t) (fr : list N) (d : nat) : Prop := {
    inv_V : forall x, PS.In (key x) V <-> (In x fr \/ exists k, k < d /\ reach_in k x);
    inv_fr : forall x, In x fr -> reach_in d x;
    inv_d : forall x, reach_in d x -> PS.In (key x) V;
    inv_good : forall k x, k < d -> reach_in k x -> badb x = false
  }.

  Definition bfs_post (v : verdict) : Prop :=
    match v with
    | Safe => forall k x, reach_in k x -> badb x = false
    | Unsafe d => (exists x, reach_in d x /\ badb x = true) /\
                  (forall k x, k < d -> reach_in k x -> badb x = false)
    | OutOfFuel => False
    end.

  Lemma bfs_correct fuel : forall V fr d,
      inv V fr d -> inside V -> PS.cardinal V + fuel > length nodes ->
      bfs_post (bfs succs badb fuel V fr d).
  Proof.
    induction fuel as [| fuel IH]; intros V fr d Hinv Hin Hcard.
    - pose proof (card_bound V Hin). lia.
    - cbn [bfs]. destruct (existsb badb fr) eqn:Hex.
      + apply existsb_exists in Hex. destruct Hex as (x & Hx & Hb). cbn [bfs_post]. split.
        * exists x. split; [now apply (inv_fr _ _ _ Hinv) | exact Hb].
        * apply (inv_good _ _ _ Hinv).
      + assert (Hfrgood : forall x, In x fr -> badb x = false).
        { intros x Hx. destruct (badb x) eqn:Hb; [| reflexivity].
          assert (existsb badb fr = true) by (apply existsb_exists; now exists x). congruence. }
        destruct (absorb_all_spec V (flat_map succs fr)) as [HV' Hfr'].
        set (V' := fst (absorb_all V (flat_map succs fr))) in *.
        set (fr' := snd (absorb_all V (flat_map succs fr))) in *.
        (* the invariant one level deeper *)
        assert (Hgood' : forall k x, k < S d -> reach_in k x -> badb x = false).
        { intros k x Hk Hr. destruct (Nat.eq_dec k d) as [-> | Hne].
          - apply (inv_d _ _ _ Hinv) in Hr. apply (inv_V _ _ _ Hinv) in Hr.
            destruct Hr as [Hr | (k' & Hk' & Hr)]; [now apply Hfrgood | now apply (inv_good _ _ _ Hinv k')].
          - apply (inv_good _ _ _ Hinv k); [lia | exact Hr]. }
        assert (HleV : forall k x, k <= d -> reach_in k x -> PS.In (key x) V).
        { intros k x Hk Hr. destruct (Nat.eq_dec k d) as [-> | Hne].
          - now apply (inv_d _ _ _ Hinv).
          - apply (inv_V _ _ _ Hinv). right. exists k. split; [lia | exact Hr]. }
        assert (Hinv' : inv V' fr' (S d)).
        { constructor.
          - intros x. rewrite HV'. split.
            + intros [Hx | (j & Hj & Hk)].
              * right. apply (inv_V _ _ _ Hinv) in Hx. destruct Hx as [Hx | (k & Hk & Hr)].
                -- exists d. split; [lia | now apply (inv_fr _ _ _ Hinv)].
                -- exists k. split; [lia | exact Hr].
              * apply key_inj in Hk. subst j.
                destruct (PS.mem (key x) V) eqn:Hm.
                -- apply PS.mem_spec in Hm. right. apply (inv_V _ _ _ Hinv) in Hm.
                   destruct Hm as [Hx | (k & Hk & Hr)].
                   ++ exists d. split; [lia | now apply (inv_fr _ _ _ Hinv)].
                   ++ exists k. split; [lia | exact Hr].
                -- left. apply Hfr'. split; [exact Hj |]. intros Hc. apply PS.mem_spec in Hc. congruence.
            + intros [Hx | (k & Hk & Hr)].
              * apply Hfr' in Hx. right. exists x. split; [apply Hx | reflexivity].
              * left. apply (HleV k); [lia | exact Hr].
          - intros x Hx. apply Hfr' in Hx. destruct Hx as [Hx _].
            apply in_flat_map in Hx. destruct Hx as (y & Hy & Hxy).
            apply (ri_step d y x); [now apply (inv_fr _ _ _ Hinv) | exact Hxy].
          - intros x Hr. inversion Hr as [| k y x' Hry Hxy]; subst.
            apply HV'. pose proof (inv_d _ _ _ Hinv y Hry) as HyV.
            apply (inv_V _ _ _ Hinv) in HyV. destruct HyV as [Hy | (k & Hk & Hrk)].
            + right. exists x. split; [| reflexivity]. apply in_flat_map. now exists y.
            + left. apply (HleV (S k)); [lia |]. now apply (ri_step k y x).
          - exact Hgood'. }
        assert (Hin' : inside V').
        { intros p Hp. apply HV' in Hp. destruct Hp as [Hp | (j & Hj & ->)]; [now apply Hin |].
          exists j. split; [reflexivity |].
          apply in_flat_map in Hj. destruct Hj as (y & Hy & Hjy).
          apply (succs_nodes y); [| exact Hjy].
          apply (reach_in_nodes d). now apply (inv_fr _ _ _ Hinv). }
        destruct fr' as [| j0 fr''] eqn:Efr.
        * (* fixpoint: the visited set is closed under successors *)
          cbn [bfs_post]. intros k x Hr.
          assert (Hclosed : exists k', k' < S d /\ reach_in k' x).
          { induction Hr as [x Hx | k x y Hr IHr Hy].
            - exists 0. split; [lia | now constructor].
            - destruct IHr as (k' & Hk' & Hr').
              destruct (Nat.eq_dec (S k') (S d)) as [He | Hne].
              + assert (Hy' : reach_in (S d) y) by (rewrite <- He; now apply (ri_step k' x y)).
                apply (inv_d _ _ _ Hinv') in Hy'. apply (inv_V _ _ _ Hinv') in Hy'.
                destruct Hy' as [[] | Hy']. exact Hy'.
              + exists (S k'). split; [lia | now apply (ri_step k' x y)]. }
          destruct Hclosed as (k' & Hk' & Hr'). now apply (Hgood' k').
        * apply IH; [exact Hinv' | exact Hin' |].
          assert (Hlt : PS.cardinal V < PS.cardinal V').
          { assert (Hj0 : In j0 (j0 :: fr'')) by now left.
            apply Hfr' in Hj0. destruct Hj0 as [Hj0 Hn].
            apply (PSP.subset_cardinal_lt (x := key j0)).
            - intros p Hp. apply HV'. now left.
            - apply HV'. right. now exists j0.
            - exact Hn. }
          lia.
  Qed.

  Lemma graph_reach_post : bfs_post (graph_reach succs badb nodes inits).
  Proof.
    unfold graph_reach.
    destruct (absorb_all_spec PS.empty inits) as [HV Hfr].
    apply bfs_correct.
    - constructor.
      + intros x. rewrite HV. split.
        * intros [Hx | (j & Hj & Hk)]; [exfalso; revert Hx; apply PS.empty_spec |].
          apply key_inj in Hk. subst j. left. apply Hfr. split; [exact Hj | apply PS.empty_spec].
        * intros [Hx | (k & Hk & _)]; [| lia]. apply Hfr in Hx. right. exists x. split; [apply Hx | reflexivity].
      + intros x Hx. apply Hfr in Hx. constructor. apply Hx.
      + intros x Hr. inversion Hr; subst. apply HV. right. now exists x.
      + intros k x Hk. lia.
    - intros p Hp. apply HV in Hp. destruct Hp as [Hp | (j & Hj & ->)]; [exfalso; revert Hp; apply PS.empty_spec |].
      exists j. split; [reflexivity | now apply inits_nodes].
    - lia.
  Qed.

  Definition none_bad : Prop := forall k x, reach_in k x -> badb x = false.
  Definition least_bad (d : nat) : Prop :=
    (exists x, reach_in d x /\ badb x = true) /\ (forall k x, k < d -> reach_in k x -> badb x = false).

  Theorem graph_reach_total : graph_reach succs badb nodes inits <> OutOfFuel.
  Proof. pose proof graph_reach_post as H. intros E. rewrite E in H. exact H. Qed.

  Theorem graph_reach_safe : graph_reach succs badb nodes inits = Safe <-> none_bad.
  Proof.
    pose proof graph_reach_post as H. split.
    - intros E. rewrite E in H. exact H.
    - intros Hn. destruct (graph_reach succs badb nodes inits) as [| d |]; [reflexivity | | contradiction].
      destruct H as [(x & Hr & Hb) _]. rewrite (Hn d x Hr) in Hb. discriminate.
  Qed.

  Theorem graph_reach_unsafe d : graph_reach succs badb nodes inits = Unsafe d <-> least_bad d.
  Proof.
    pose proof graph_reach_post as H. split.
    - intros E. rewrite E in H. exact H.
    - intros [(x & Hr & Hb) Hl]. destruct (graph_reach succs badb nodes inits) as [| d' |].
      + rewrite (H d x Hr) in Hb. discriminate.
      + destruct H as [(x' & Hr' & Hb') Hl']. f_equal.
        destruct (Nat.lt_trichotomy d' d) as [Hlt | [He | Hgt]]; [| exact He |].
        * rewrite (Hl d' x' Hlt Hr') in Hb'. discriminate.
        * rewrite (Hl' d x Hgt Hr) in Hb. discriminate.
      + contradiction.
  Qed.
End BfsProofs.
