(** * Proofs/SimplifyBuilders.v — semantic equivalence, and typing/semantics of the
    smart constructors ([mk_*]) used by the simplifier rules. *)
From Coq Require Import Lia.
From Patronus Require Import Simplify BVLemmas ExprLemmas EvalProofs BVRuleLemmas.
Open Scope N_scope.

(** [r] means the same as [e] under every well-formed environment *)
Definition sem_eq (r e : expr) : Prop :=
  forall rho, env_wf rho -> ebv rho r = ebv rho e /\ forall i, earr rho r i = earr rho e i.

(** [r] is an admissible replacement for [e] *)
Definition ok_rw (e r : expr) : Prop := wt r = true /\ type_of r = type_of e /\ sem_eq r e.

Lemma sem_eq_refl e : sem_eq e e.
Proof. intros rho _. split; reflexivity. Qed.

Lemma sem_eq_trans a b c : sem_eq a b -> sem_eq b c -> sem_eq a c.
Proof.
  intros H1 H2 rho Hr. destruct (H1 rho Hr) as [E1 A1]. destruct (H2 rho Hr) as [E2 A2].
  split; [congruence|]. intros i. now rewrite A1, A2.
Qed.

Lemma ok_rw_refl e : wt e = true -> ok_rw e e.
Proof. intros H. split; [assumption|]. split; [reflexivity|apply sem_eq_refl]. Qed.

Lemma ok_rw_trans a b c : ok_rw a b -> ok_rw b c -> ok_rw a c.
Proof.
  intros (W1 & T1 & S1) (W2 & T2 & S2). split; [assumption|]. split; [congruence|].
  eapply sem_eq_trans; eassumption.
Qed.

(** positive widths *)
Lemma wt_width_pos e : wt e = true ->
  (forall w, type_of e = TBV w -> 0 < w) /\
  (forall iw dw, type_of e = TArr iw dw -> 0 < iw /\ 0 < dw).
Proof.
  induction e as
      [ n w | w v | a IHa by_ w | a IHa by_ w | a IHa hi lo | a IHa w | a IHa w
      | a IHa b IHb | a IHa b IHb | a IHa b IHb | a IHa b IHb w | a IHa b IHb | a IHa b IHb w
      | a IHa b IHb w | a IHa b IHb w | a IHa b IHb w | a IHa b IHb w | a IHa b IHb w
      | a IHa b IHb w | a IHa b IHb w | a IHa b IHb w | a IHa b IHb w
      | a IHa b IHb w | a IHa b IHb w | a IHa b IHb w | a IHa b IHb w | a IHa b IHb w
      | a IHa b IHb w | a IHa b IHb w | a IHa b IHb c IHc
      | n iw dw | a IHa iw dw | a IHa b IHb | a IHa b IHb c IHc | a IHa b IHb c IHc ];
    intros Hwt; (split; [intros w0 Ht | intros iw0 dw0 Ht]); cbn [type_of] in Ht;
    try discriminate Ht; try (inversion Ht; subst; clear Ht); try lia.
  - now apply wt_sym in Hwt.
  - now apply wt_lit in Hwt.
  - apply wt_zext in Hwt. lia.
  - apply wt_sext in Hwt. lia.
  - apply wt_not in Hwt. destruct Hwt as [Hwa Hta]. now apply IHa.
  - apply wt_neg in Hwt. destruct Hwt as [Hwa Hta]. now apply IHa.
  - apply wt_concat in Hwt. destruct Hwt as (Hwa & Hwb & wa & wb & Hta & Htb & ->).
    pose proof (proj1 (IHa Hwa) _ Hta). lia.
  - apply wt_and in Hwt. destruct Hwt as (Hwa & Hwb & Hta & Htb). now apply IHa.
  - apply wt_or in Hwt. destruct Hwt as (Hwa & Hwb & Hta & Htb). now apply IHa.
  - apply wt_xor in Hwt. destruct Hwt as (Hwa & Hwb & Hta & Htb). now apply IHa.
  - apply wt_shl in Hwt. destruct Hwt as (Hwa & Hwb & Hta & Htb). now apply IHa.
  - apply wt_ashr in Hwt. destruct Hwt as (Hwa & Hwb & Hta & Htb). now apply IHa.
  - apply wt_lshr in Hwt. destruct Hwt as (Hwa & Hwb & Hta & Htb). now apply IHa.
  - apply wt_add in Hwt. destruct Hwt as (Hwa & Hwb & Hta & Htb). now apply IHa.
  - apply wt_mul in Hwt. destruct Hwt as (Hwa & Hwb & Hta & Htb). now apply IHa.
  - apply wt_sdiv in Hwt. destruct Hwt as (Hwa & Hwb & Hta & Htb). now apply IHa.
  - apply wt_udiv in Hwt. destruct Hwt as (Hwa & Hwb & Hta & Htb). now apply IHa.
  - apply wt_smod in Hwt. destruct Hwt as (Hwa & Hwb & Hta & Htb). now apply IHa.
  - apply wt_srem in Hwt. destruct Hwt as (Hwa & Hwb & Hta & Htb). now apply IHa.
  - apply wt_urem in Hwt. destruct Hwt as (Hwa & Hwb & Hta & Htb). now apply IHa.
  - apply wt_sub in Hwt. destruct Hwt as (Hwa & Hwb & Hta & Htb). now apply IHa.
  - apply wt_read in Hwt. destruct Hwt as (Hwa & Hwb & iw & Hta & Htb). now apply (proj2 (IHa Hwa) _ _ Hta).
  - apply wt_ite in Hwt. destruct Hwt as (Hwa & Hwb & Hwc & Hta & w' & Htb & Htc). now apply IHc.
  - apply wt_ite in Hwt. destruct Hwt as (Hwa & Hwb & Hwc & Hta & w' & Htb & Htc). congruence.
  - cbn [wt] in Hwt. unfold node_ok in Hwt. cbn [check1 leaf_ok is_some] in Hwt.
    rewrite !andb_true_iff, !N.ltb_lt in Hwt. tauto.
  - apply wt_aconst in Hwt. destruct Hwt as (Hwa & Hta & Hiw). split; [assumption|now apply IHa].
  - apply wt_store in Hwt. destruct Hwt as (Hwa & Hwb & Hwc & iw & dw & Hta & Htb & Htc). congruence.
  - apply wt_store in Hwt. destruct Hwt as (Hwa & Hwb & Hwc & iw & dw & Hta & Htb & Htc).
    now apply (proj2 (IHa Hwa)).
  - apply wt_aite in Hwt. destruct Hwt as (Hwa & Hwb & Hwc & Hta & iw & dw & Htb & Htc). congruence.
  - apply wt_aite in Hwt. destruct Hwt as (Hwa & Hwb & Hwc & Hta & iw & dw & Htb & Htc).
    now apply (proj2 (IHc Hwc)).
Qed.

Lemma width_pos e w : wt e = true -> type_of e = TBV w -> 0 < w.
Proof. intros H. apply (wt_width_pos e H). Qed.

(** bit-vector typed expressions denote the empty array function *)
Lemma earr_bv_typed e w : wt e = true -> type_of e = TBV w -> forall rho i, earr rho e i = 0.
Proof.
  intros Hwt Ht rho i. pose proof (wt_array_type e Hwt) as Ha. rewrite Ht in Ha.
  destruct e; cbn [is_array_type] in Ha; try discriminate; reflexivity.
Qed.

Lemma sem_eq_bv r e w : wt r = true -> wt e = true -> type_of r = TBV w -> type_of e = TBV w ->
  (forall rho, env_wf rho -> ebv rho r = ebv rho e) -> sem_eq r e.
Proof.
  intros Wr We Tr Te H rho Hr. split; [now apply H|]. intros i.
  now rewrite (earr_bv_typed r w), (earr_bv_typed e w).
Qed.

(** ** [B e w v]: [e] is a well-typed [w]-bit expression denoting [v rho] *)
Definition B (e : expr) (w : N) (v : env -> N) : Prop :=
  wt e = true /\ type_of e = TBV w /\ forall rho, env_wf rho -> ebv rho e = v rho.

Lemma B_of_wt e w : wt e = true -> type_of e = TBV w -> B e w (fun rho => ebv rho e).
Proof. intros. repeat split; auto. Qed.

Lemma B_ext e w v v' : B e w v -> (forall rho, env_wf rho -> v rho = v' rho) -> B e w v'.
Proof. intros (W & T & V) H. repeat split; auto. intros rho Hr. rewrite V by assumption. now apply H. Qed.

Lemma B_bound e w v : B e w v -> forall rho, env_wf rho -> v rho < 2 ^ w.
Proof. intros (W & T & V) rho Hr. rewrite <- V by assumption. now apply ebv_bound. Qed.

Lemma B_width e w v : B e w v -> width e = w.
Proof. intros (_ & T & _). unfold width. now rewrite T. Qed.

Lemma B_pos e w v : B e w v -> 0 < w.
Proof. intros (W & T & _). eapply width_pos; eassumption. Qed.

(** replacement from a [B] fact *)
Lemma ok_rw_of_B e r w v : wt e = true -> type_of e = TBV w -> B r w v ->
  (forall rho, env_wf rho -> v rho = ebv rho e) -> ok_rw e r.
Proof.
  intros We Te (Wr & Tr & Vr) H. split; [assumption|]. split; [congruence|].
  eapply sem_eq_bv; eauto. intros rho Hr. rewrite Vr by assumption. now apply H.
Qed.

Lemma ok_rw_of_B' e r w w' v : wt e = true -> type_of e = TBV w -> B r w' v -> w' = w ->
  (forall rho, env_wf rho -> v rho = ebv rho e) -> ok_rw e r.
Proof. intros We Te HB E H. subst w'. eapply ok_rw_of_B; eassumption. Qed.

Ltac wt_node :=
  cbn [wt]; unfold node_ok; cbn [check1 leaf_ok];
  unfold expect_same_width_bvs_of, expect_same_width_bvs, expect_bv_of, expect_same_size_arrays, bind_ty.

Lemma B_lit w v : 0 < w -> v < 2 ^ w -> B (BVLiteral w v) w (fun _ => v).
Proof.
  intros Hw Hv. repeat split; auto. cbn [wt]. unfold node_ok. cbn [check1 leaf_ok is_some].
  apply N.ltb_lt in Hw, Hv. now rewrite Hw, Hv.
Qed.

Lemma B_zero w : 0 < w -> B (mk_zero w) w (fun _ => 0).
Proof. intros Hw. apply B_lit; auto with bv. Qed.

Lemma B_ones w : 0 < w -> B (mk_ones w) w (fun _ => N.ones w).
Proof. intros Hw. apply B_lit; [assumption|apply ones_bound]. Qed.

Lemma B_true : B mk_true 1 (fun _ => 1).
Proof. apply B_lit; cbn; lia. Qed.

Lemma B_false : B mk_false 1 (fun _ => 0).
Proof. apply B_lit; cbn; lia. Qed.

Section UnBin.
  Variables (a b : expr) (w : N) (va vb : env -> N).
  Hypothesis Ha : B a w va.
  Hypothesis Hb : B b w vb.

  Lemma B_mk_not : B (mk_not a) w (fun rho => bv_not w (va rho)).
  Proof.
    destruct Ha as (Wa & Ta & Va). unfold mk_not, width. rewrite Ta. repeat split.
    - wt_node. rewrite Ta, N.eqb_refl, Wa. reflexivity.
    - intros rho Hr. cbn [ebv]. now rewrite Va.
  Qed.

  Lemma B_mk_negate : B (mk_negate a) w (fun rho => bv_neg w (va rho)).
  Proof.
    destruct Ha as (Wa & Ta & Va). unfold mk_negate, width. rewrite Ta. repeat split.
    - wt_node. rewrite Ta, N.eqb_refl, Wa. reflexivity.
    - intros rho Hr. cbn [ebv]. now rewrite Va.
  Qed.

  Ltac bin_builder :=
    destruct Ha as (Wa & Ta & Va); destruct Hb as (Wb & Tb & Vb); unfold width; rewrite Tb; repeat split;
    [ wt_node; rewrite Ta, Tb, !N.eqb_refl, Wa, Wb; reflexivity
    | intros rho Hr; cbn [ebv]; now rewrite Va, Vb ].

  Lemma B_mk_and : B (mk_and a b) w (fun rho => bv_and (va rho) (vb rho)).
  Proof. unfold mk_and. bin_builder. Qed.
  Lemma B_mk_or : B (mk_or a b) w (fun rho => bv_or (va rho) (vb rho)).
  Proof. unfold mk_or. bin_builder. Qed.
  Lemma B_mk_xor : B (mk_xor a b) w (fun rho => bv_xor (va rho) (vb rho)).
  Proof. unfold mk_xor. bin_builder. Qed.
  Lemma B_mk_add : B (mk_add a b) w (fun rho => bv_add w (va rho) (vb rho)).
  Proof. unfold mk_add. bin_builder. Qed.
  Lemma B_mk_sub : B (mk_sub a b) w (fun rho => bv_sub w (va rho) (vb rho)).
  Proof. unfold mk_sub. bin_builder. Qed.
  Lemma B_mk_mul : B (mk_mul a b) w (fun rho => bv_mul w (va rho) (vb rho)).
  Proof. unfold mk_mul. bin_builder. Qed.
  Lemma B_mk_shl : B (mk_shl a b) w (fun rho => bv_shl w (va rho) (vb rho)).
  Proof. unfold mk_shl. bin_builder. Qed.

  Lemma B_mk_equal : B (mk_equal a b) 1 (fun rho => bv_eq (va rho) (vb rho)).
  Proof.
    destruct Ha as (Wa & Ta & Va); destruct Hb as (Wb & Tb & Vb). unfold mk_equal. rewrite Ta. repeat split.
    - wt_node. rewrite Ta, Tb, !N.eqb_refl, Wa, Wb. reflexivity.
    - intros rho Hr. cbn [ebv]. now rewrite Va, Vb.
  Qed.
End UnBin.

Lemma B_mk_concat a b wa wb va vb : B a wa va -> B b wb vb ->
  B (mk_concat a b) (wa + wb) (fun rho => bv_concat wb (va rho) (vb rho)).
Proof.
  intros (Wa & Ta & Va) (Wb & Tb & Vb). unfold mk_concat, width. rewrite Ta, Tb. repeat split.
  - wt_node. rewrite Ta, Tb, N.eqb_refl, Wa, Wb. reflexivity.
  - intros rho Hr. cbn [ebv]. unfold width. now rewrite Tb, Va, Vb.
Qed.

Lemma B_mk_slice a wa va hi lo : B a wa va -> hi < wa -> lo <= hi ->
  B (mk_slice a hi lo) (hi - lo + 1) (fun rho => bv_slice hi lo (va rho)).
Proof.
  intros Ha Hhi Hlo. pose proof (B_bound _ _ _ Ha) as Hbound. pose proof (B_pos _ _ _ Ha) as Hpos.
  destruct Ha as (Wa & Ta & Va). unfold mk_slice, width. rewrite Ta.
  destruct (N.eqb_spec lo 0) as [->|Hlo0]; cbn [andb].
  - destruct (N.eqb_spec (hi + 1) wa) as [E|E].
    + replace (hi - 0 + 1) with wa by lia. repeat split; auto.
      intros rho Hr. replace hi with (wa - 1) by lia. rewrite slice_full; auto.
    + repeat split.
      * wt_node. rewrite Ta. destruct (N.leb_spec wa hi); [lia|]. destruct (N.ltb_spec hi 0); [lia|].
        cbn. exact Wa.
      * intros rho Hr. cbn [ebv]. now rewrite Va.
  - repeat split.
    + wt_node. rewrite Ta. destruct (N.leb_spec wa hi); [lia|]. destruct (N.ltb_spec hi lo); [lia|].
      cbn. exact Wa.
    + intros rho Hr. cbn [ebv]. now rewrite Va.
Qed.

Lemma B_mk_zext a wa va by_ : B a wa va -> B (mk_zext a by_) (wa + by_) va.
Proof.
  intros Ha. pose proof (B_pos _ _ _ Ha) as Hpos. destruct Ha as (Wa & Ta & Va).
  unfold mk_zext, width. rewrite Ta. destruct (N.eqb_spec by_ 0) as [->|Hby].
  - rewrite N.add_0_r. repeat split; auto.
  - repeat split.
    + wt_node. rewrite Ta. replace (wa + by_ - by_) with wa by lia. rewrite N.eqb_refl.
      destruct (N.ltb_spec by_ (wa + by_)); [|lia]. cbn. exact Wa.
    + intros rho Hr. cbn [ebv]. unfold bv_zext. now apply Va.
Qed.

Lemma bv_sext_zero w a : bv_sext w 0 a = a.
Proof. unfold bv_sext. destruct (msb w a); [cbn; lia|reflexivity]. Qed.

Lemma B_mk_sext a wa va by_ : B a wa va -> B (mk_sext a by_) (wa + by_) (fun rho => bv_sext wa by_ (va rho)).
Proof.
  intros Ha. pose proof (B_pos _ _ _ Ha) as Hpos. destruct Ha as (Wa & Ta & Va).
  unfold mk_sext, width. rewrite Ta. destruct (N.eqb_spec by_ 0) as [->|Hby].
  - rewrite N.add_0_r. repeat split; auto. intros rho Hr. rewrite bv_sext_zero. now apply Va.
  - repeat split.
    + wt_node. rewrite Ta. replace (wa + by_ - by_) with wa by lia. rewrite N.eqb_refl.
      destruct (N.ltb_spec by_ (wa + by_)); [|lia]. cbn. exact Wa.
    + intros rho Hr. cbn [ebv]. unfold width. rewrite Ta. now rewrite Va.
Qed.

Lemma B_mk_ite c t f w vc vt vf : B c 1 vc -> B t w vt -> B f w vf ->
  B (mk_ite c t f) w (fun rho => if vc rho =? 1 then vt rho else vf rho).
Proof.
  intros (Wc & Tc & Vc) (Wt & Tt & Vt) (Wf & Tf & Vf). unfold mk_ite. rewrite Tt. repeat split.
  - wt_node. rewrite Tc, Tt, Tf, !N.eqb_refl, Wc, Wt, Wf. reflexivity.
  - cbn [type_of]. exact Tf.
  - intros rho Hr. cbn [ebv]. now rewrite Vc, Vt, Vf.
Qed.
