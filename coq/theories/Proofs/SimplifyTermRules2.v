(** * Proofs/SimplifyTermRules2.v — every fired rule strictly decreases the termination measure
    (part 2: ite, equality, concat, slice). *)
From Coq Require Import Lia.
From Patronus Require Import Simplify BVLemmas ExprLemmas EvalProofs BVRuleLemmas ExprEqb SimplifyBuilders
     SimplifyRules1 SimplifyRules2 SimplifyRules3 SimplifyTermMeasure SimplifyTermArith SimplifyTermRules1.
Open Scope N_scope.

(** ** ite *)
Lemma simplify_ite_dec c t f r :
  wt (BVIte c t f) = true -> simplify_ite c t f = Some r -> mu r < mu (BVIte c t f).
Proof.
  intros Hwt Hs. apply wt_ite in Hwt. destruct Hwt as (Wc & Wt & Wf & Tc & w & Tt & Tf).
  assert (Hwt_ : width t = w) by (unfold width; now rewrite Tt).
  assert (Hwf_ : width f = w) by (unfold width; now rewrite Tf).
  pose proof (mu_pos c). pose proof (mu_pos t). pose proof (mu_pos f).
  unfold simplify_ite in Hs. cbn [mu].
  destruct (expr_eqb t f); [inv_some'; lia|].
  destruct (lit_dec c) as [[[wc vc] ->]|Nc]; cbn [fst snd] in *.
  { destruct (lit_is_false wc vc); inv_some'; lia. }
  assert (Hs' : (if w =? 1 then
                   match t, f with
                   | BVLiteral _ vt, BVLiteral _ vf =>
                       match vt =? 1, vf =? 1 with
                       | true, false => Some c
                       | false, true => Some (mk_not c)
                       | _, _ => None
                       end
                   | BVLiteral _ vt, _ => if vt =? 1 then Some (mk_or c f) else Some (mk_and (mk_not c) f)
                   | _, BVLiteral _ vf => if vf =? 1 then Some (mk_or (mk_not c) t) else Some (mk_and c t)
                   | _, _ => None
                   end else None) = Some r)
    by (rewrite <- Hwt_; not_lit c Nc; exact Hs).
  clear Hs. destruct (N.eqb_spec w 1) as [->|Hw1]; [|discriminate].
  destruct (lit_dec t) as [[[wt_ vt] ->]|Nt]; destruct (lit_dec f) as [[[wf vf] ->]|Nf]; cbn [fst snd] in *.
  - destruct (vt =? 1); destruct (vf =? 1); inv_some'; cbn [mu mk_not] in *; lia.
  - assert (Hs'' : (if vt =? 1 then Some (mk_or c f) else Some (mk_and (mk_not c) f)) = Some r)
      by (not_lit f Nf; exact Hs').
    destruct (vt =? 1); inv_some'; cbn [mu mk_or mk_and mk_not] in *; rewrite Hwf_; unfold mB; rewrite cP_1; lia.
  - assert (Hs'' : (if vf =? 1 then Some (mk_or (mk_not c) t) else Some (mk_and c t)) = Some r)
      by (not_lit t Nt; exact Hs').
    destruct (vf =? 1); inv_some'; cbn [mu mk_or mk_and mk_not] in *; rewrite Hwt_; unfold mB; rewrite cP_1; lia.
  - exfalso. not_lit t Nt; not_lit f Nf; discriminate Hs'.
Qed.

(** ** equality *)
(** splitting an equality with a concat: [X], [Y] are the equality coefficients of the two parts *)
Lemma eq_split_arith X Y ca cb o sa sb :
  64 <= X -> 64 <= Y -> sa <= 2 * o -> sb <= 2 * o ->
  16 * (X * (ca + sa) + Y * (cb + sb)) + 1 < X * Y * (2 * ca + cb + 1 + o).
Proof.
  intros HX HY Hsa Hsb.
  assert (H1 : 64 * X <= X * Y) by nia.
  assert (H2 : 64 * Y <= X * Y) by nia.
  assert (H3 : 64 * X * ca <= X * Y * ca) by (apply N.mul_le_mono_r; exact H1).
  assert (H4 : 64 * Y * cb <= X * Y * cb) by (apply N.mul_le_mono_r; exact H2).
  assert (H5 : 64 * X * o <= X * Y * o) by (apply N.mul_le_mono_r; exact H1).
  assert (H6 : 64 * Y * o <= X * Y * o) by (apply N.mul_le_mono_r; exact H2).
  assert (H7 : X * sa <= X * (2 * o)) by (apply N.mul_le_mono_l; exact Hsa).
  assert (H8 : Y * sb <= Y * (2 * o)) by (apply N.mul_le_mono_l; exact Hsb).
  assert (H9 : 1 <= X * Y) by nia.
  lia.
Qed.

Lemma eq_after_lits_dec a b r :
  wt (BVEqual a b) = true -> eq_after_lits a b = Some r -> mu r < mu (BVEqual a b).
Proof.
  intros Hwt Hs. apply wt_eq in Hwt. destruct Hwt as (Wa & Wb & w & Ta & Tb).
  assert (Hwa : width a = w) by (unfold width; now rewrite Ta).
  unfold eq_after_lits, find_one_concat in Hs. cbn [mu]. rewrite Hwa.
  destruct (concat_dec a) as [[[[ca cb] cw] ->]|Na]; cbn [fst snd] in *.
  - inv_some'. pose proof Wa as Wa'. apply wt_concat in Wa'.
    destruct Wa' as (Wca & Wcb & aw & bw & Tca & Tcb & ->). cbn in Ta. inversion Ta; subst w.
    pose proof (width_pos _ _ Wca Tca) as Hpa. pose proof (width_pos _ _ Wcb Tcb) as Hpb.
    cbn [mu mk_and]. rewrite width_mk_equal, (mu_mk_equal _ _ _ Tca), (mu_mk_equal _ _ _ Tcb).
    unfold mB, mE. rewrite cP_1, cE_add.
    pose proof (cE_ge64 aw ltac:(lia)). pose proof (cE_ge64 bw ltac:(lia)).
    apply eq_split_arith; try assumption; apply mu_mk_slice.
  - assert (Hs' : match b with
                  | BVConcat ca cb _ =>
                      Some (mk_and (mk_equal ca (mk_slice a (width ca + width cb - 1) (width ca + width cb - width ca)))
                                   (mk_equal cb (mk_slice a (width cb - 1) 0)))
                  | _ => None end = Some r)
      by (not_concat a Na; destruct b; exact Hs).
    clear Hs. destruct (concat_dec b) as [[[[ca cb] cw] ->]|Nb]; cbn [fst snd] in *.
    2: { exfalso. not_concat b Nb; discriminate Hs'. }
    inv_some'. pose proof Wb as Wb'. apply wt_concat in Wb'.
    destruct Wb' as (Wca & Wcb & aw & bw & Tca & Tcb & ->). cbn in Tb. inversion Tb; subst w.
    pose proof (width_pos _ _ Wca Tca) as Hpa. pose proof (width_pos _ _ Wcb Tcb) as Hpb.
    cbn [mu mk_and]. rewrite width_mk_equal, (mu_mk_equal _ _ _ Tca), (mu_mk_equal _ _ _ Tcb).
    unfold mB, mE. rewrite cP_1, cE_add.
    pose proof (cE_ge64 aw ltac:(lia)). pose proof (cE_ge64 bw ltac:(lia)).
    replace (mu a + (2 * mu ca + mu cb + 1)) with (2 * mu ca + mu cb + 1 + mu a) by lia.
    apply eq_split_arith; try assumption; apply mu_mk_slice.
Qed.

Lemma simplify_bv_equal_dec a b r :
  wt (BVEqual a b) = true -> simplify_bv_equal a b = Some r -> mu r < mu (BVEqual a b).
Proof.
  intros Hwt Hs. pose proof Hwt as Hwt'. apply wt_eq in Hwt'. destruct Hwt' as (Wa & Wb & w & Ta & Tb).
  pose proof (width_pos _ _ Wa Ta) as Hpos.
  assert (Hwa : width a = w) by (unfold width; now rewrite Ta).
  pose proof (mu_pos a). pose proof (mu_pos b).
  pose proof (cE_ge64 w ltac:(lia)) as HE.
  unfold simplify_bv_equal in Hs. fold (eq_after_lits a b) in Hs.
  destruct (expr_eqb a b).
  { inv_some'. cbn [mu mk_true]. rewrite Hwa. unfold mE. nia. }
  pose proof (find_lits_view a b) as V. destruct (find_lits_commutative a b) as [wa va wb vb|wl vl le other|].
  - inv_some'. cbn [mu mk_false]. rewrite Hwa. unfold mE. nia.
  - destruct (lit_is_true wl vl).
    { inv_some'. cbn [mu]. rewrite Hwa. unfold mE.
      destruct V as [(-> & -> & -> & _)|(-> & -> & -> & _)]; cbn [mu] in *; nia. }
    destruct (lit_is_false wl vl); [|now apply eq_after_lits_dec].
    inv_some'. cbn [mu mk_not]. rewrite Hwa. unfold mE.
    destruct V as [(-> & -> & -> & _)|(-> & -> & -> & _)]; cbn [mu] in *; nia.
  - now apply eq_after_lits_dec.
Qed.

(** ** concat *)
Lemma simplify_bv_concat_dec a b w r : simplify_bv_concat a b = Some r -> mu r < mu (BVConcat a b w).
Proof.
  intros Hs. unfold simplify_bv_concat in Hs. cbn [mu].
  destruct (concat_dec a) as [[[[aa ab] aw] ->]|Nca]; cbn [fst snd] in *.
  { inv_some'. cbn [mu mk_concat]. pose_mu_pos. lia. }
  destruct (lit_dec a) as [[[wla va] ->]|Nla]; cbn [fst snd] in *.
  { destruct (lit_dec b) as [[[wlb vb] ->]|Nlb]; cbn [fst snd] in *.
    { inv_some'. cbn [mu]. lia. }
    destruct (concat_dec b) as [[[[ba bb] bw] ->]|Ncb]; cbn [fst snd] in *.
    2: { exfalso. destruct b; try discriminate Hs; [eapply Nlb|eapply Ncb]; reflexivity. }
    destruct (lit_dec ba) as [[[wlba vba] ->]|Nlba]; cbn [fst snd] in *.
    2: { exfalso. not_lit ba Nlba; discriminate Hs. }
    inv_some'. cbn [mu mk_concat]. lia. }
  destruct (slice_dec a) as [[[[ea hi_a] lo_a] ->]|Nsa]; cbn [fst snd] in *.
  2: { exfalso. destruct a; try discriminate Hs; [eapply Nla|eapply Nsa|eapply Nca]; reflexivity. }
  destruct (slice_dec b) as [[[[eb hi_b] lo_b] ->]|Nsb]; cbn [fst snd] in *.
  2: { exfalso. destruct b; try discriminate Hs. eapply Nsb; reflexivity. }
  destruct (expr_eqb ea eb && (lo_a =? hi_b + 1)); inv_some'.
  cbn [mu]. pose proof (mu_mk_slice ea hi_a lo_b). pose proof (mu_pos ea). pose proof (mu_pos eb). lia.
Qed.

(** ** slice *)
(** a slice pushed into the two operands of a bitwise/arithmetic operator of width [w] *)
Lemma slice_bin_arith a b w hi lo : wt a = true -> wt b = true -> type_of a = TBV w -> type_of b = TBV w ->
  hi < w -> lo <= hi ->
  mB (width (mk_slice b hi lo)) (mu (mk_slice a hi lo)) (mu (mk_slice b hi lo)) < 2 * mB w (mu a) (mu b).
Proof.
  intros Wa Wb Ta Tb Hhi Hlo. rewrite (width_mk_slice b w hi lo Wb Tb Hhi Hlo).
  pose proof (mB_mono w (hi - lo + 1) (2 * mu a) (mu (mk_slice a hi lo)) (2 * mu b) (mu (mk_slice b hi lo))
                ltac:(lia) (mu_mk_slice a hi lo) (mu_mk_slice b hi lo)) as Hm.
  unfold mB in *. lia.
Qed.

Lemma simplify_bv_slice_dec e hi lo r :
  wt (BVSlice e hi lo) = true -> simplify_bv_slice e hi lo = Some r -> mu r < mu (BVSlice e hi lo).
Proof.
  intros Hwt Hs. apply wt_slice in Hwt. destruct Hwt as (We & we & Te & Hhi & Hlo).
  destruct e; cbn [simplify_bv_slice] in Hs; try discriminate; cbn [mu].
  - (* literal *) inv_some'. cbn [mu]. lia.
  - (* sign extension *)
    destruct (width e <=? lo).
    + inv_some'. pose proof (mu_mk_sext (mk_slice e (width e - 1) (width e - 1)) (hi - lo)).
      pose proof (mu_mk_slice e (width e - 1) (width e - 1)). lia.
    + destruct (hi <? width e); inv_some'.
      * pose proof (mu_mk_slice e hi lo). lia.
      * pose proof (mu_mk_sext (mk_slice e (width e - 1) lo) (hi - width e + 1)).
        pose proof (mu_mk_slice e (width e - 1) lo). lia.
  - (* slice of slice *)
    inv_some'. pose proof (mu_mk_slice e (hi + lo0) (lo + lo0)). pose proof (mu_pos e). lia.
  - (* not *) inv_some'. cbn [mu mk_not]. pose proof (mu_mk_slice e hi lo). lia.
  - (* negate *) destruct (lo =? 0); inv_some'. cbn [mu mk_negate]. pose proof (mu_mk_slice e hi lo). lia.
  - (* concat *)
    pose proof (mu_pos e1). pose proof (mu_pos e2).
    destruct (hi <? width e2).
    + inv_some'. pose proof (mu_mk_slice e2 hi lo). lia.
    + destruct (width e2 <=? lo); inv_some'.
      * pose proof (mu_mk_slice e1 (hi - width e2) (lo - width e2)). lia.
      * cbn [mu mk_concat]. pose proof (mu_mk_slice e1 (hi - width e2) 0).
        pose proof (mu_mk_slice e2 (width e2 - 1) lo). lia.
  - (* and *)
    inv_some'. apply wt_and in We. destruct We as (Wa & Wb & Ta & Tb). cbn in Te. inversion Te; subst we.
    cbn [mu mk_and]. now apply slice_bin_arith.
  - (* or *)
    inv_some'. apply wt_or in We. destruct We as (Wa & Wb & Ta & Tb). cbn in Te. inversion Te; subst we.
    cbn [mu mk_or]. now apply slice_bin_arith.
  - (* xor *)
    inv_some'. apply wt_xor in We. destruct We as (Wa & Wb & Ta & Tb). cbn in Te. inversion Te; subst we.
    cbn [mu mk_xor]. now apply slice_bin_arith.
  - (* add *)
    destruct (lo =? 0); inv_some'.
    apply wt_add in We. destruct We as (Wa & Wb & Ta & Tb). cbn in Te. inversion Te; subst we.
    cbn [mu mk_add]. pose proof (slice_bin_arith e1 e2 w hi lo Wa Wb Ta Tb Hhi Hlo). lia.
  - (* mul *)
    destruct (lo =? 0); inv_some'.
    apply wt_mul in We. destruct We as (Wa & Wb & Ta & Tb). cbn in Te. inversion Te; subst we.
    cbn [mu mk_mul]. pose proof (slice_bin_arith e1 e2 w hi lo Wa Wb Ta Tb Hhi Hlo). lia.
  - (* sub *)
    destruct (lo =? 0); inv_some'. cbn [mu mk_sub].
    pose proof (mu_mk_slice e1 hi lo). pose proof (mu_mk_slice e2 hi lo). lia.
  - (* ite *)
    inv_some'. pose proof (mu_mk_ite e1 (mk_slice e2 hi lo) (mk_slice e3 hi lo)).
    pose proof (mu_mk_slice e2 hi lo). pose proof (mu_mk_slice e3 hi lo). pose proof (mu_pos e1). lia.
Qed.
