(** * Proofs/SimInitProofs.v — sequential initialisation yields an initial
    valuation ([System.is_initial]) whenever no init expression mentions its own
    state or a later one; what [init] leaves in the store. *)
From Coq Require Import Lia.
From Patronus Require Import Sim SimBasics SimStoreProofs SimProofs.
Open Scope N_scope.

Lemma agree_on_trans s a b c : agree_on s a b -> agree_on s b c -> agree_on s a c.
Proof. destruct s; cbn [agree_on]; intros H1 H2; auto; try congruence; try (intros i; now rewrite H1). Qed.

Lemma agree_on_refl s a : agree_on s a a.
Proof. destruct s; cbn [agree_on]; auto. Qed.

(** assigning to [k] leaves every other symbol alone *)
Lemma assign_other s k rho src e : s <> k -> agree_on s (assign rho k src e) rho.
Proof.
  intros Hne. destruct k; cbn [assign]; try apply agree_on_refl;
    destruct s; cbn [agree_on upd_bv upd_arr rho_bv rho_arr]; auto.
  - destruct (String.eqb name0 name && (w0 =? w)) eqn:E; [|reflexivity].
    apply andb_true_iff in E. destruct E as [E1 E2].
    apply String.eqb_eq in E1. apply N.eqb_eq in E2. subst. now contradiction Hne.
  - intros i. destruct (String.eqb name0 name && (iw0 =? iw) && (dw0 =? dw)) eqn:E; [|reflexivity].
    apply andb_true_iff in E. destruct E as [E E3]. apply andb_true_iff in E. destruct E as [E1 E2].
    apply String.eqb_eq in E1. apply N.eqb_eq in E2. apply N.eqb_eq in E3. subst. now contradiction Hne.
Qed.

(** ... and gives [k] the value of [e] under [src] *)
Lemma assign_same k rho src e : sym_agrees (assign rho k src e) k src e.
Proof.
  destruct k; cbn [assign sym_agrees upd_bv upd_arr rho_bv rho_arr]; auto.
  - now rewrite String.eqb_refl, N.eqb_refl.
  - intros i. now rewrite String.eqb_refl, !N.eqb_refl.
Qed.

Lemma init_fun_other s rho st : s <> st_sym st -> agree_on s (init_fun rho st) rho.
Proof. intros Hne. unfold init_fun. destruct (st_init st); [now apply assign_other|apply agree_on_refl]. Qed.

Lemma init_fold_preserves s : forall sts rho, ~ In s (map st_sym sts) ->
  agree_on s (fold_left init_fun sts rho) rho.
Proof.
  induction sts as [|st r IH]; intros rho Hn; cbn [fold_left]; [apply agree_on_refl|].
  cbn [map In] in Hn. eapply agree_on_trans; [apply IH; tauto|]. apply init_fun_other. intros ->. tauto.
Qed.

(** [sym_agrees rho' k rho' e] follows from agreement with an earlier valuation *)
Lemma sym_agrees_transfer k e r1 r2 :
  agree_on k r2 r1 -> (forall s, In s (symbols e) -> agree_on s r2 r1) ->
  sym_agrees r1 k r1 e -> sym_agrees r2 k r2 e.
Proof.
  intros Hk He H. destruct (coincidence r2 r1 e He) as [Hb Ha].
  destruct k; cbn [sym_agrees agree_on] in *; auto.
  - now rewrite Hk, Hb.
  - intros i. now rewrite Hk, Ha.
Qed.

Lemma init_fold_initial : forall sts rho,
  NoDup (map st_sym sts) -> inits_read_earlier sts = true ->
  forall st e, In st sts -> st_init st = Some e ->
    sym_agrees (fold_left init_fun sts rho) (st_sym st) (fold_left init_fun sts rho) e.
Proof.
  induction sts as [|st0 r IH]; intros rho Hnd Hre st e Hin Hi; [contradiction|].
  cbn [map] in Hnd. inversion Hnd as [|? ? Hnotin Hnd']; subst.
  cbn [inits_read_earlier] in Hre. apply andb_true_iff in Hre. destruct Hre as [Hre0 Hre].
  cbn [fold_left]. destruct Hin as [->|Hin]; [|now apply (IH (init_fun rho st0) Hnd' Hre st e)].
  rewrite Hi in Hre0. rewrite forallb_forall in Hre0.
  set (rho1 := init_fun rho st).
  (* first: the claim for the valuation right after this state's init ... *)
  assert (H1 : sym_agrees rho1 (st_sym st) rho e).
  { unfold rho1, init_fun. rewrite Hi. apply assign_same. }
  (* ... every symbol of [e] is outside this and the later states *)
  assert (Hsyms : forall s, In s (symbols e) -> s <> st_sym st /\ ~ In s (map st_sym r)).
  { intros s Hs. specialize (Hre0 s Hs). apply negb_true_iff in Hre0. apply mem_false in Hre0.
    cbn [map In] in Hre0. split; [intros ->|]; tauto. }
  (* hence [e] means the same before and after this init ... *)
  assert (H2 : sym_agrees rho1 (st_sym st) rho1 e).
  { destruct (coincidence rho1 rho e) as [Hb Ha].
    { intros s Hs. apply init_fun_other. now apply Hsyms. }
    destruct (st_sym st); cbn [sym_agrees] in *; auto.
    - now rewrite Hb.
    - intros i. now rewrite Ha. }
  (* ... and after the remaining inits *)
  apply (sym_agrees_transfer _ _ rho1); [| |exact H2].
  - apply init_fold_preserves. exact Hnotin.
  - intros s Hs. apply init_fold_preserves. now apply Hsyms.
Qed.

Theorem init_seq_initial sy rho0 :
  NoDup (map st_sym (s_states sy)) -> inits_read_earlier (s_states sy) = true ->
  is_initial sy (init_seq sy rho0).
Proof.
  intros Hnd Hre st e Hin Hi. exact (init_fold_initial (s_states sy) rho0 Hnd Hre st e Hin Hi).
Qed.

Lemma is_initial_ext sy r r' : env_eq r r' -> is_initial sy r -> is_initial sy r'.
Proof.
  intros Heq H st e Hin Hi. specialize (H st e Hin Hi).
  apply (sym_agrees_transfer _ _ r); [| |exact H].
  - apply env_eq_agree. now apply env_eq_sym.
  - intros s _. apply env_eq_agree. now apply env_eq_sym.
Qed.

Lemma NoDup_app_l {A} (l1 l2 : list A) : NoDup (l1 ++ l2) -> NoDup l1.
Proof.
  induction l1 as [|x r IH]; cbn [app]; intros H; [constructor|].
  inversion H as [|? ? Hn Hr]; subst. constructor; [|now apply IH].
  intros Hin. apply Hn. apply in_app_iff. now left.
Qed.

(** what [init] does, from any simulator state *)
Theorem init_establishes_lemma sy s0 k : sim_ok sy = true ->
  exists st,
    exec sy s0 (OInit k) = Done ({| data := st; snaps := snaps s0; steps := steps s0 |}, ONone) /\
    store_ok (decls sy) st /\
    env_eq (env_of st) (init_seq sy (oracle_env sy k)) /\
    (inits_read_earlier (s_states sy) = true -> is_initial sy (env_of st)).
Proof.
  intros Hok. destruct (sim_ok_parts sy Hok) as (Hnd & Hsym & Hgood).
  cbn [exec]. rewrite (alloc_done k (decls sy) 0 []) by exact Hnd. cbn [bind app].
  assert (Hok0 : store_ok (decls sy) (alloc_list k 0 (decls sy))).
  { split; [apply map_fst_alloc_list|now apply alloc_list_ok]. }
  destruct (run_inits_ok (decls sy) (s_states sy) _ Hok0 Hgood) as (st' & Hrun & Hok' & Henv).
  rewrite Hrun. cbn [bind]. exists st'. split; [reflexivity|]. split; [assumption|].
  assert (He : env_eq (env_of st') (init_seq sy (oracle_env sy k))).
  { eapply env_eq_trans; [exact Henv|]. unfold init_seq.
    apply (init_fold_ext (s_states sy)). apply env_of_alloc. }
  split; [exact He|]. intros Hre.
  apply (is_initial_ext sy _ _ (env_eq_sym _ _ He)).
  apply init_seq_initial; [|assumption]. unfold decls in Hnd. now apply NoDup_app_l in Hnd.
Qed.
