(** * Proofs/C04Final.v — the statements of Props/C04.v in their final form
    (hypotheses: [sys_wf], the checkable [names_ok]). *)
From Coq Require Import List Bool Lia.
From Patronus Require Import EvalImpl Encoding SysExec ReachBmc ExprLemmas McBasics ScriptProofs EncodingBasics
     EncodingFaithful EncodingWf AnalysisProofs EncodingNew EncodingNames EncodingTheorems EncodingExamples.
Import ListNotations.
Open Scope N_scope.

Lemma wf_fixed_final sy nm j n :
  sys_wf sy = true -> names_ok (enc_new sy nm) = true -> (j = 0 -> init_reads_ok (enc_new sy nm)) ->
  script_check [] (script Fixed (enc_new sy nm) j n) = true.
Proof.
  intros Hwf Hn Hir. apply script_wf_fixed_sys; try assumption.
  exact (names_ok_inj _ Hn).
Qed.

Lemma wf_outside_known_final sy nm j n :
  sys_wf sy = true -> names_ok (enc_new sy nm) = true -> (j = 0 -> init_reads_ok (enc_new sy nm)) ->
  ~ known_class (enc_new sy nm) j ->
  script_check [] (script Current (enc_new sy nm) j n) = true.
Proof.
  intros Hwf Hn Hir Hk. apply script_wf_outside_known; try assumption.
  exact (names_ok_inj _ Hn).
Qed.

Lemma faithful_final sy nm v j (rho0 : env) (frees : list env) (sigma0 : env) :
  sys_wf sy = true -> names_ok (enc_new sy nm) = true ->
  (j = 0 -> is_initial sy rho0) ->
  let en := enc_new sy nm in
  let n := length frees in
  let sc := script v en j n in
  let trace := run_from sy rho0 frees in
  let at_step := fun k => nth (N.to_nat (k - j)) trace env0 in
  script_check [] sc = true ->
  (forall nm' t e k, In (DeclareConst nm' t) sc -> j <= k <= j + N.of_nat n ->
      sig_sym en e k = Some (mk_sym nm' t) -> same_val sigma0 (mk_sym nm' t) (at_step k) e) ->
  forall e k s, observable sy e -> j <= k <= j + N.of_nat n -> get_signal_at en e k = Some s ->
    same_val (script_eval sigma0 sc) s (at_step k) e.
Proof.
  intros Hwf Hn Hinit en n sc trace at_step Hck Hdecl e k s Hobs Hk Hget.
  apply (script_faithful sy nm Hwf (names_ok_inj _ Hn) v j n rho0 frees eq_refl Hinit sigma0 Hck);
    try assumption.
  intros nm' t e' k' Hin Hk' Hs. apply Hdecl; try assumption. now apply in_steps.
Qed.

(** non-vacuity: the system of the first finding meets all hypotheses of the
    well-formedness theorem for the repaired encoding, and of the faithfulness theorem *)
Lemma ex1_hypotheses :
  sys_wf ex1_sys = true /\ names_ok (enc_new ex1_sys ex_nm) = true /\ inits_state_free ex1_sys = true /\
  script_check [] (script Fixed (enc_new ex1_sys ex_nm) 0 2) = true /\
  is_initial_b ex1_sys (init_seq ex1_sys env0) = true.
Proof. vm_compute. repeat split. Qed.
