(** * Proofs/BmcProofs.v — about the loop of bmc.rs (Model/Bmc.v) over a correct
    solver: checking the bad states individually or jointly gives the same
    result; a reachable bad state within the bound is never answered "success". *)
From Coq Require Import List Bool Lia.
From Patronus Require Import EvalImpl Encoding Bmc SysExec ReachSpec ExprLemmas BVLemmas EvalProofs McBasics ScriptProofs
     EncodingBasics EncodingFaithful EncodingNew ReachEnum ReachBmcProofs.
Import ListNotations.
Open Scope N_scope.

(** evaluation of an accepted script preserves well-formedness of the valuation *)
Lemma script_eval_wf : forall sc d sigma, env_wf sigma -> script_check d sc = true -> env_wf (script_eval sigma sc).
Proof.
  induction sc as [|c r IH]; intros d sigma Hw Hc; [assumption|].
  cbn [script_check] in Hc. apply andb_true_iff in Hc. destruct Hc as [Hok Hr].
  destruct c as [n t|n t b]; cbn [script_eval]; [now apply (IH _ _ Hw Hr)|].
  cbn [cmd_ok] in Hok. rewrite !andb_true_iff in Hok. destruct Hok as [[[[_ _] Hwt] Hty] _].
  apply ty_eqb_eq in Hty. refine (IH _ _ _ Hr).
  apply assign_wf; try assumption; [apply mk_sym_is_symbol|now rewrite mk_sym_type].
Qed.

Lemma holds_or sigma a b : ebv sigma a < 2 -> ebv sigma b < 2 ->
  holds sigma (BVOr a b 1) = holds sigma a || holds sigma b.
Proof.
  unfold holds. cbn [ebv]. unfold bv_or. intros Ha Hb.
  assert (Ha' : ebv sigma a = 0 \/ ebv sigma a = 1) by lia.
  assert (Hb' : ebv sigma b = 0 \/ ebv sigma b = 1) by lia.
  destruct Ha' as [-> | ->], Hb' as [-> | ->]; reflexivity.
Qed.

Lemma or_fold_holds sigma : forall r b, ebv sigma b < 2 -> (forall x, In x r -> ebv sigma x < 2) ->
  ebv sigma (fold_left (fun a x => BVOr a x 1) r b) < 2 /\
  holds sigma (fold_left (fun a x => BVOr a x 1) r b) = holds sigma b || existsb (holds sigma) r.
Proof.
  induction r as [|x r IH]; intros b Hb Hr; cbn [fold_left existsb].
  - split; [assumption|now rewrite orb_false_r].
  - assert (Hx : ebv sigma x < 2) by (apply Hr; now left).
    assert (Hbx : ebv sigma (BVOr b x 1) < 2).
    { cbn [ebv]. unfold bv_or. assert (ebv sigma b = 0 \/ ebv sigma b = 1) as [-> | ->] by lia;
        assert (ebv sigma x = 0 \/ ebv sigma x = 1) as [-> | ->] by lia; cbn; lia. }
    destruct (IH (BVOr b x 1) Hbx) as [H1 H2]; [intros; apply Hr; now right|].
    split; [assumption|]. rewrite H2, holds_or by assumption. now rewrite orb_assoc.
Qed.

Lemma or_all_holds sigma bs any : or_all bs = Some any -> (forall x, In x bs -> ebv sigma x < 2) ->
  holds sigma any = existsb (holds sigma) bs.
Proof.
  destruct bs as [|b r]; [discriminate|]. cbn [or_all]. intros H Hb. inversion H; subst.
  apply or_fold_holds; [apply Hb; now left|intros; apply Hb; now right].
Qed.

Section Modes.
  Variable v : variant.
  Variable solver_sat : list cmd -> list expr -> list expr -> bool.

  (** [sigma0] is a model of the query *)
  Definition is_model (sc : list cmd) (asserts assumps : list expr) (sigma0 : env) : Prop :=
    env_wf sigma0 /\
    forallb (holds (script_eval sigma0 sc)) asserts = true /\
    forallb (holds (script_eval sigma0 sc)) assumps = true.

  (** the solver answers "sat" exactly when the query has a model *)
  Hypothesis solver_correct : forall sc asserts assumps,
    solver_sat sc asserts assumps = true <-> exists sigma0, is_model sc asserts assumps sigma0.

  (** step symbols of Boolean signals have Boolean values *)
  Definition bool_valued (bs : list expr) : Prop :=
    forall sigma, env_wf sigma -> forall x, In x bs -> ebv sigma x < 2.

  Lemma query_modes sc asserts bs any :
    script_check [] sc = true -> or_all bs = Some any -> bool_valued bs ->
    existsb (fun b => solver_sat sc asserts [b]) bs = solver_sat sc asserts [any].
  Proof.
    intros Hck Hany Hbool.
    destruct (solver_sat sc asserts [any]) eqn:Ea.
    - apply solver_correct in Ea. destruct Ea as (s0 & Hw & Has & Hany').
      cbn [forallb] in Hany'. rewrite andb_true_r in Hany'.
      pose proof (script_eval_wf sc [] s0 Hw Hck) as Hws.
      rewrite (or_all_holds _ bs any Hany (Hbool _ Hws)) in Hany'.
      apply existsb_exists in Hany'. destruct Hany' as (b & Hb & Hhb).
      apply existsb_exists. exists b. split; [assumption|]. apply solver_correct. exists s0.
      split; [assumption|]. split; [assumption|]. cbn [forallb]. now rewrite Hhb.
    - destruct (existsb (fun b => solver_sat sc asserts [b]) bs) eqn:Ee; [|reflexivity].
      apply existsb_exists in Ee. destruct Ee as (b & Hb & Hs). apply solver_correct in Hs.
      destruct Hs as (s0 & Hw & Has & Hhb). cbn [forallb] in Hhb. rewrite andb_true_r in Hhb.
      pose proof (script_eval_wf sc [] s0 Hw Hck) as Hws.
      assert (solver_sat sc asserts [any] = true); [|congruence].
      apply solver_correct. exists s0. split; [assumption|]. split; [assumption|]. cbn [forallb].
      rewrite (or_all_holds _ bs any Hany (Hbool _ Hws)), andb_true_r.
      apply existsb_exists. eauto.
  Qed.

  Lemma unrolls_snoc en j : forall m p, unrolls v en j p (S m) = unrolls v en j p m ++ unroll v en j (p + N.of_nat m).
  Proof.
    induction m as [|m IH]; intros p.
    - cbn [unrolls]. rewrite app_nil_r. cbn. now rewrite N.add_0_r.
    - change (unrolls v en j p (S (S m))) with (unroll v en j p ++ unrolls v en j (p + 1) (S m)).
      rewrite IH. cbn [unrolls]. rewrite <- app_assoc. do 3 f_equal. lia.
  Qed.

  Theorem bmc_loop_modes_gen en (scr : nat -> list cmd) :
    (forall i, scr (S i) = scr i ++ unroll v en 0 (N.of_nat i)) ->
    (forall n, script_check [] (scr n) = true) ->
    (forall k bs, signals_at en (s_bads (e_sys en)) k = Some bs -> bool_valued bs) ->
    s_bads (e_sys en) <> [] ->
    forall fuel i asserts,
      bmc_loop v solver_sat en true (scr i) asserts (N.of_nat i) fuel =
      bmc_loop v solver_sat en false (scr i) asserts (N.of_nat i) fuel.
  Proof.
    intros HS Hck Hbool Hne. induction fuel as [|fuel IH]; intros i asserts; cbn [bmc_loop];
      destruct (signals_at en (s_constraints (e_sys en)) (N.of_nat i)) as [cs|]; try reflexivity;
      destruct (signals_at en (s_bads (e_sys en)) (N.of_nat i)) as [bs|] eqn:Eb; try reflexivity.
    all: assert (Hor : exists any, or_all bs = Some any)
        by (destruct bs as [|b r]; [exfalso; destruct (s_bads (e_sys en)) as [|b0 r0]; [now apply Hne|];
            cbn [signals_at] in Eb; destruct (get_signal_at en b0 (N.of_nat i)); [|discriminate];
            destruct (signals_at en r0 (N.of_nat i)); discriminate|cbn; eauto]);
      destruct Hor as (any & Hany); rewrite Hany;
      rewrite (query_modes _ _ bs any (Hck i) Hany (Hbool _ _ Eb)).
    - reflexivity.
    - destruct (solver_sat (scr i) (asserts ++ cs) [any]); [reflexivity|].
      rewrite <- HS. replace (N.of_nat i + 1) with (N.of_nat (S i)) by lia. apply IH.
  Qed.

  Lemma script_S en i : script v en 0 (S i) = script v en 0 i ++ unroll v en 0 (N.of_nat i).
  Proof. unfold script. rewrite unrolls_snoc, app_assoc. now rewrite N.add_0_l. Qed.

  Theorem bmc_loop_modes en :
    (forall n, script_check [] (script v en 0 n) = true) ->
    (forall k bs, signals_at en (s_bads (e_sys en)) k = Some bs -> bool_valued bs) ->
    s_bads (e_sys en) <> [] ->
    forall fuel i asserts,
      bmc_loop v solver_sat en true (script v en 0 i) asserts (N.of_nat i) fuel =
      bmc_loop v solver_sat en false (script v en 0 i) asserts (N.of_nat i) fuel.
  Proof. intros Hck. apply (bmc_loop_modes_gen en (script v en 0) (script_S en) Hck). Qed.
End Modes.

(** The exactness of the loop with respect to reachability ([bmc_model_exact]) is proved in Proofs/BmcSound.v. *)

(** ** the two modes agree, for the repaired encoding of any well-formed system *)
From Patronus Require Import EncodingWf EncodingNames EncodingTheorems C04Final.

Lemma bads_bool_valued sy nm : sys_wf sy = true ->
  forall k bs, signals_at (enc_new sy nm) (s_bads sy) k = Some bs -> bool_valued bs.
Proof.
  intros Hwf k. pose proof (enc_new_basic sy nm Hwf) as Hb.
  assert (Hbad : forall e, In e (s_bads sy) -> wt e = true /\ type_of e = TBV 1).
  { intros e He. pose proof (Hok sy Hwf) as H. unfold sys_ok in H. rewrite !andb_true_iff, !forallb_forall in H.
    destruct H as [[[[_ _] _] Hbd] _]. specialize (Hbd e He). unfold bool_expr_ok in Hbd.
    apply andb_true_iff in Hbd. destruct Hbd as [Hw Ht]. now apply ty_eqb_eq in Ht. }
  revert Hbad. generalize (s_bads sy) as l. induction l as [|e r IH]; intros Hbad bs H; cbn [signals_at] in H.
  - inversion H; subst. intros sigma _ x [].
  - destruct (get_signal_at (enc_new sy nm) e k) as [s|] eqn:Eg; [|discriminate].
    destruct (signals_at (enc_new sy nm) r k) as [l'|] eqn:Er; [|discriminate]. inversion H; subst.
    intros sigma Hw x [<-|Hx].
    + destruct (Hbad e (or_introl eq_refl)) as [Hwt Hty].
      unfold get_signal_at in Eg. destruct (sig_sym (enc_new sy nm) e k) as [s'|] eqn:Es.
      * inversion Eg; subst. destruct (sig_sym_type _ _ _ _ Es) as [Ht Hsym].
        rewrite Hty in Ht. destruct s; try discriminate Hsym; cbn [type_of] in Ht; inversion Ht; subst.
        cbn [ebv]. destruct Hw as [Hbv _]. apply (Hbv name 1).
      * destruct e; try discriminate. destruct w; try discriminate. destruct p; try discriminate.
        inversion Eg; subst. cbn [ebv]. apply wt_lit in Hwt. cbn in Hwt. lia.
    + apply (IH (fun e' He' => Hbad e' (or_intror He')) l' eq_refl sigma Hw x Hx).
Qed.

Theorem bmc_modes_agree_final (solver_sat : list cmd -> list expr -> list expr -> bool) :
  (forall sc asserts assumps,
      solver_sat sc asserts assumps = true <-> exists sigma0, is_model sc asserts assumps sigma0) ->
  forall sy nm k_max,
    sys_wf sy = true -> names_ok (enc_new sy nm) = true -> init_reads_ok (enc_new sy nm) ->
    bmc_model Fixed solver_sat sy nm true k_max = bmc_model Fixed solver_sat sy nm false k_max.
Proof.
  intros Hsolver sy nm k_max Hwf Hn Hir. unfold bmc_model. destruct (s_bads sy) as [|b0 r0] eqn:Eb; [reflexivity|].
  pose proof (bmc_loop_modes Fixed solver_sat Hsolver (enc_new sy nm)) as H.
  specialize (H (fun n => wf_fixed_final sy nm 0 n Hwf Hn (fun _ => Hir))).
  assert (Hbool : forall k bs, signals_at (enc_new sy nm) (s_bads (e_sys (enc_new sy nm))) k = Some bs -> bool_valued bs)
    by (intros k bs; apply (bads_bool_valued sy nm Hwf)).
  assert (Hne : s_bads (e_sys (enc_new sy nm)) <> []) by (cbn; rewrite Eb; discriminate).
  specialize (H Hbool Hne k_max 0%nat []). unfold script in H. cbn [unrolls] in H. rewrite app_nil_r in H. exact H.
Qed.

(** ** the loop never misses a counterexample *)
Lemma signals_at_spec en : forall es k l, signals_at en es k = Some l ->
  (forall a, In a l -> exists e, In e es /\ get_signal_at en e k = Some a) /\
  (forall e, In e es -> exists a, In a l /\ get_signal_at en e k = Some a).
Proof.
  induction es as [|e r IH]; intros k l H; cbn [signals_at] in H.
  - inversion H; subst. split; [intros a []|intros e []].
  - destruct (get_signal_at en e k) as [s|] eqn:Eg; [|discriminate].
    destruct (signals_at en r k) as [l'|] eqn:Er; [|discriminate]. inversion H; subst.
    destruct (IH k l' Er) as [H1 H2]. split.
    + intros a [<-|Ha]; [exists e; split; [now left|assumption]|].
      destruct (H1 a Ha) as (e' & He' & Hg). exists e'. split; [now right|assumption].
    + intros e' [<-|He']; [exists s; split; [now left|assumption]|].
      destruct (H2 e' He') as (a & Ha & Hg). exists a. split; [now right|assumption].
Qed.

Lemma tau_of_wf en (Hb : enc_basic en) j trace : (forall r, In r trace -> env_wf r) ->
  forall ps, env_wf (tau_of en j trace ps).
Proof.
  intros Htr. induction ps as [|[e k] r IH]; [apply env0_wf|].
  cbn [tau_of fold_right fst snd]. fold (tau_of en j trace r).
  destruct (sig_sym en e k) as [s|] eqn:Es; [|assumption].
  destruct (sig_sym_type en e k s Es) as [Ht Hsym].
  apply assign_wf; try assumption.
  - unfold at_step. destruct (nth_in_or_default (N.to_nat (k - j)) trace env0) as [Hin|Hd]; [now apply Htr|rewrite Hd; apply env0_wf].
  - apply (signal_wt en Hb). eapply sig_sym_signal; eassumption.
  - now symmetry.
Qed.

Section NoMiss.
  Variable v : variant.
  Variable solver_sat : list cmd -> list expr -> list expr -> bool.
  Hypothesis solver_correct : forall sc asserts assumps,
    solver_sat sc asserts assumps = true <-> exists sigma0, is_model sc asserts assumps sigma0.
  Variables (sy : sys) (nm : expr -> string).
  Hypothesis Hwf : sys_wf sy = true.
  Hypothesis Hn : names_ok (enc_new sy nm) = true.
  Let en := enc_new sy nm.
  (** the script after [n] unrollings, accepted and faithful ([script v en 0 n], or [script3 en n]) *)
  Variable scr : nat -> list cmd.
  Hypothesis Hscr_S : forall i, scr (S i) = scr i ++ unroll v en 0 (N.of_nat i).
  Hypothesis Hck : forall n, script_check [] (scr n) = true.
  Hypothesis Hfaithful : forall (rho0 : env) (frees : list env) (sigma0 : env), is_initial sy rho0 ->
    let n := length frees in
    let sc := scr n in
    let trace := run_from sy rho0 frees in
    script_check [] sc = true ->
    (forall nm' t e k, In (DeclareConst nm' t) sc -> k <= N.of_nat n ->
        sig_sym en e k = Some (mk_sym nm' t) -> same_val sigma0 (mk_sym nm' t) (nth (N.to_nat k) trace env0) e) ->
    forall e k s, observable sy e -> k <= N.of_nat n -> get_signal_at en e k = Some s ->
      same_val (script_eval sigma0 sc) s (nth (N.to_nat k) trace env0) e.

  (** at the depth of a counterexample the query of some bad state is satisfiable *)
  Lemma reached_is_sat i rho0 frees asserts bs :
    length frees = i -> is_initial sy rho0 ->
    (forall r, In r (run_from sy rho0 frees) -> env_wf r) ->
    forallb (constraints_hold sy) (run_from sy rho0 frees) = true ->
    some_bad sy (last (run_from sy rho0 frees) env0) = true ->
    (forall a, In a asserts -> exists c m, In c (s_constraints sy) /\ (m <= i)%nat /\
                                           get_signal_at en c (N.of_nat m) = Some a) ->
    signals_at en (s_bads sy) (N.of_nat i) = Some bs ->
    existsb (fun b => solver_sat (scr i) asserts [b]) bs = true.
  Proof.
    intros Hlen Hinit Hwfr Hcons Hbad Hass Hbs.
    pose proof (enc_new_basic sy nm Hwf) as Hb. fold en in Hb.
    pose proof (names_ok_inj en Hn) as Hinj.
    set (trace := run_from sy rho0 frees) in *.
    set (sigma0 := tau en 0 i trace).
    assert (Hcoh := coherent sy nm Hwf Hinj 0 i rho0 frees Hlen (fun _ => Hinit)). fold en trace in Hcoh.
    assert (Hw0 : env_wf sigma0) by (apply (tau_of_wf en Hb); assumption).
    (* the values of the observable signals under the evaluated script *)
    assert (Hfaith : forall e k s, observable sy e -> (k <= i)%nat -> get_signal_at en e (N.of_nat k) = Some s ->
               same_val (script_eval sigma0 (scr i)) s (nth k trace env0) e).
    { intros e k s Hobs Hk Hg.
      pose proof (Hfaithful rho0 frees sigma0 Hinit) as F.
      cbn zeta in F. rewrite Hlen in F. fold trace in F.
      specialize (F (Hck i)).
      assert (Hd : forall nm' t e0 k0, In (DeclareConst nm' t) (scr i) -> k0 <= N.of_nat i ->
                     sig_sym en e0 k0 = Some (mk_sym nm' t) ->
                     same_val sigma0 (mk_sym nm' t) (nth (N.to_nat k0) trace env0) e0).
      { intros nm' t e0 k0 _ Hk0 Hs. replace (N.to_nat k0) with (N.to_nat (k0 - 0)) by lia.
        apply (tau_spec en Hb 0 i trace Hcoh); [apply in_steps; lia|assumption]. }
      specialize (F Hd e (N.of_nat k) s Hobs ltac:(lia) Hg).
      replace (N.to_nat (N.of_nat k)) with k in F by lia. exact F. }
    (* some bad state holds at the last step *)
    unfold some_bad in Hbad. apply existsb_exists in Hbad. destruct Hbad as (b & Hbin & Hhb).
    destruct (proj2 (signals_at_spec en _ _ _ Hbs) b Hbin) as (sb & Hsb & Hgb).
    apply existsb_exists. exists sb. split; [assumption|]. apply solver_correct. exists sigma0.
    split; [assumption|].
    assert (Hlast : last trace env0 = nth i trace env0).
    { unfold trace. rewrite <- Hlen. clear. revert rho0. induction frees as [|f r IH]; intros rho0; [reflexivity|].
      cbn [run_from length nth]. rewrite <- IH. destruct (run_from sy (next_env sy rho0 f) r) eqn:E; [destruct r; discriminate|reflexivity]. }
    split.
    - apply forallb_forall. intros a Ha. destruct (Hass a Ha) as (c & m & Hc & Hm & Hg).
      destruct (Hfaith c m a ltac:(unfold observable; tauto) Hm Hg) as [Hv _]. unfold holds. rewrite Hv.
      assert (Hin : In (nth m trace env0) trace).
      { apply nth_In. unfold trace. rewrite (run_len sy). lia. }
      rewrite forallb_forall in Hcons. specialize (Hcons _ Hin). unfold constraints_hold in Hcons.
      rewrite forallb_forall in Hcons. apply (Hcons c Hc).
    - cbn [forallb]. rewrite andb_true_r.
      destruct (Hfaith b i sb ltac:(unfold observable; tauto) (le_n i) Hgb) as [Hv _]. unfold holds. rewrite Hv, <- Hlast. exact Hhb.
  Qed.

  Lemma loop_no_miss j rho0 frees :
    length frees = j -> is_initial sy rho0 ->
    (forall r, In r (run_from sy rho0 frees) -> env_wf r) ->
    forallb (constraints_hold sy) (run_from sy rho0 frees) = true ->
    some_bad sy (last (run_from sy rho0 frees) env0) = true ->
    forall fuel i asserts, (i <= j <= i + fuel)%nat ->
      (forall a, In a asserts -> exists c m, In c (s_constraints sy) /\ (m < i)%nat /\
                                             get_signal_at en c (N.of_nat m) = Some a) ->
      bmc_loop v solver_sat en true (scr i) asserts (N.of_nat i) fuel <> BmcSuccess.
  Proof.
    intros Hlen Hinit Hwfr Hcons Hbad. induction fuel as [|fuel IH]; intros i asserts Hij Hass; cbn [bmc_loop];
      destruct (signals_at en (s_constraints (e_sys en)) (N.of_nat i)) as [cs|] eqn:Ec; try discriminate;
      destruct (signals_at en (s_bads (e_sys en)) (N.of_nat i)) as [bs|] eqn:Eb; try discriminate.
    all: assert (Hass' : forall a, In a (asserts ++ cs) -> exists c m, In c (s_constraints sy) /\ (m <= i)%nat /\
                                     get_signal_at en c (N.of_nat m) = Some a)
        by (intros a Ha; apply in_app_or in Ha; destruct Ha as [Ha|Ha];
            [destruct (Hass a Ha) as (c & m & Hc & Hm & Hg); exists c, m; split; [assumption|]; split; [lia|assumption]
            |destruct (proj1 (signals_at_spec en _ _ _ Ec) a Ha) as (c & Hc & Hg); exists c, i; auto]).
    - assert (i = j) by lia. subst i.
      rewrite (reached_is_sat j rho0 frees (asserts ++ cs) bs Hlen Hinit Hwfr Hcons Hbad Hass' Eb). discriminate.
    - destruct (existsb (fun b => solver_sat (scr i) (asserts ++ cs) [b]) bs) eqn:Eh; [discriminate|].
      destruct (Nat.eq_dec i j) as [->|Hne].
      + rewrite (reached_is_sat j rho0 frees (asserts ++ cs) bs Hlen Hinit Hwfr Hcons Hbad Hass' Eb) in Eh. discriminate.
      + rewrite <- Hscr_S.
        replace (N.of_nat i + 1) with (N.of_nat (S i)) by lia.
        apply IH; [lia|]. intros a Ha. destruct (Hass' a Ha) as (c & m & Hc & Hm & Hg). exists c, m. split; [assumption|]. split; [lia|assumption].
  Qed.

  (** if a bad state is reachable within the bound, the loop does not answer "success"
      (individual checking; the joint mode gives the same result by [bmc_loop_modes]) *)
  Theorem bmc_no_miss_gen k_max j : (j <= k_max)%nat -> reach_at sy j -> s_bads sy <> [] ->
    bmc_loop v solver_sat en true (scr 0) [] 0 k_max <> BmcSuccess.
  Proof.
    intros Hj (trace & (rho0 & frees & -> & Hinit & Hwfr & Hcons) & Hlen & Hbad) _.
    rewrite (run_len sy) in Hlen.
    apply (loop_no_miss j rho0 frees ltac:(lia) Hinit Hwfr Hcons Hbad k_max 0%nat [] ltac:(lia)). intros a [].
  Qed.
End NoMiss.

(** the instance [script v] *)
Lemma faithful_shape sy nm v : sys_wf sy = true -> names_ok (enc_new sy nm) = true ->
  forall (rho0 : env) (frees : list env) (sigma0 : env), is_initial sy rho0 ->
    let n := length frees in
    let sc := script v (enc_new sy nm) 0 n in
    let trace := run_from sy rho0 frees in
    script_check [] sc = true ->
    (forall nm' t e k, In (DeclareConst nm' t) sc -> k <= N.of_nat n ->
        sig_sym (enc_new sy nm) e k = Some (mk_sym nm' t) -> same_val sigma0 (mk_sym nm' t) (nth (N.to_nat k) trace env0) e) ->
    forall e k s, observable sy e -> k <= N.of_nat n -> get_signal_at (enc_new sy nm) e k = Some s ->
      same_val (script_eval sigma0 sc) s (nth (N.to_nat k) trace env0) e.
Proof.
  intros Hwf Hn rho0 frees sigma0 Hinit n sc trace Hck Hd e k s Hobs Hk Hg.
  pose proof (faithful_final sy nm v 0 rho0 frees sigma0 Hwf Hn (fun _ => Hinit)) as F.
  cbn zeta in F. fold n sc trace in F. specialize (F Hck).
  assert (Hd' : forall nm' t e0 k0, In (DeclareConst nm' t) sc -> 0 <= k0 <= 0 + N.of_nat n ->
                 sig_sym (enc_new sy nm) e0 k0 = Some (mk_sym nm' t) ->
                 same_val sigma0 (mk_sym nm' t) (nth (N.to_nat (k0 - 0)) trace env0) e0).
  { intros nm' t e0 k0 Hin Hk0 Hs. rewrite N.sub_0_r. apply Hd; [assumption|lia|assumption]. }
  specialize (F Hd' e k s Hobs ltac:(lia) Hg). cbv beta in F. replace (N.to_nat k) with (N.to_nat (k - 0)) by lia. exact F.
Qed.

Theorem bmc_no_miss v solver_sat :
  (forall sc asserts assumps,
      solver_sat sc asserts assumps = true <-> exists sigma0, is_model sc asserts assumps sigma0) ->
  forall sy nm, sys_wf sy = true -> names_ok (enc_new sy nm) = true ->
  (forall n, script_check [] (script v (enc_new sy nm) 0 n) = true) ->
  forall k_max j, (j <= k_max)%nat -> reach_at sy j ->
    bmc_model v solver_sat sy nm true k_max <> BmcSuccess.
Proof.
  intros Hsolver sy nm Hwf Hn Hck k_max j Hj Hr. unfold bmc_model.
  destruct (s_bads sy) as [|b0 r0] eqn:Eb.
  - destruct Hr as (trace & _ & _ & Hbad). unfold some_bad in Hbad. rewrite Eb in Hbad. discriminate.
  - pose proof (bmc_no_miss_gen v solver_sat Hsolver sy nm Hwf Hn (script v (enc_new sy nm) 0) (script_S v (enc_new sy nm)) Hck
                  (faithful_shape sy nm v Hwf Hn) k_max j Hj Hr ltac:(rewrite Eb; discriminate)) as H.
    unfold script in H. cbn [unrolls] in H. rewrite app_nil_r in H. exact H.
Qed.

Theorem bmc_no_miss_final (solver_sat : list cmd -> list expr -> list expr -> bool) :
  (forall sc asserts assumps,
      solver_sat sc asserts assumps = true <-> exists sigma0, is_model sc asserts assumps sigma0) ->
  forall sy nm k_max j individually,
    sys_wf sy = true -> names_ok (enc_new sy nm) = true -> init_reads_ok (enc_new sy nm) ->
    (j <= k_max)%nat -> reach_at sy j ->
    bmc_model Fixed solver_sat sy nm individually k_max <> BmcSuccess.
Proof.
  intros Hsolver sy nm k_max j individually Hwf Hn Hir Hj Hr.
  assert (Hck : forall n, script_check [] (script Fixed (enc_new sy nm) 0 n) = true)
    by (intros n; apply wf_fixed_final; auto).
  pose proof (bmc_no_miss Fixed solver_sat Hsolver sy nm Hwf Hn Hck k_max j Hj Hr) as H.
  destruct individually; [exact H|].
  rewrite <- (bmc_modes_agree_final solver_sat Hsolver sy nm k_max Hwf Hn Hir). exact H.
Qed.
