(** * Proofs/EncodingOrder.v — [init_order] (third repair): an arrangement of the states of the
    system; when the init dependencies are acyclic every init expression reads only states that
    come earlier in it. *)
From Coq Require Import List Bool Lia.
From Patronus Require Import EvalImpl Encoding SysExec ReachBmc ExprLemmas McBasics ScriptProofs EncodingBasics
     EncodingFaithful EncodingWf EncodingWf2.
Import ListNotations.
Open Scope N_scope.

Lemma symbols_in_of : forall e, symbols_in e = symbols_of e.
Proof. induction e; cbn [symbols_in symbols_of]; congruence. Qed.

(** the init dependencies are acyclic: some rank decreases along "the init expression reads" *)
Definition acyclic_inits (en : enc) : Prop :=
  exists rk : state -> nat,
    forall st e y st', In st (s_states (e_sys en)) -> st_init st = Some e -> In y (symbols_of e) ->
                       find_state en y = Some st' -> (rk st' < rk st)%nat.

(** the same, stated on the system alone *)
Definition init_deps_acyclic (sy : sys) : Prop :=
  exists rk : state -> nat,
    forall st e st', In st (s_states sy) -> In st' (s_states sy) -> st_init st = Some e ->
                     In (st_sym st') (symbols_of e) -> (rk st' < rk st)%nat.

Lemma init_deps_acyclic_enc en : init_deps_acyclic (e_sys en) -> acyclic_inits en.
Proof.
  intros (rk & H). exists rk. intros st e y st' Hst He Hy Hf.
  unfold find_state in Hf. apply find_some in Hf. destruct Hf as [Hin Heq]. apply expr_eqb_true in Heq. subst y.
  now apply (H st e st').
Qed.

Lemma app_snoc_split {A} (l : list A) (a : A) l1 x l2 :
  l ++ [a] = l1 ++ x :: l2 -> (l2 = [] /\ l1 = l /\ x = a) \/ (exists l2', l2 = l2' ++ [a] /\ l = l1 ++ x :: l2').
Proof.
  intros H. destruct l2 as [|y l2] using rev_ind.
  - left. apply app_inj_tail in H. destruct H; subst; auto.
  - right. clear IHl2.
    replace (l1 ++ x :: l2 ++ [y]) with ((l1 ++ x :: l2) ++ [y]) in H by (now rewrite <- app_assoc).
    apply app_inj_tail in H. destruct H as [H <-]. exists l2. split; [reflexivity|exact H].
Qed.

Lemma NoDup_app_snoc {A} (l : list A) a : NoDup l -> ~ In a l -> NoDup (l ++ [a]).
Proof.
  induction l as [|x l IH]; intros Hnd Hn; cbn [app]; [constructor; [intros []|constructor]|].
  inversion Hnd as [|? ? Hx Hl]; subst. constructor.
  - intros H. apply in_app_or in H. destruct H as [H|[<-|[]]]; [contradiction|apply Hn; now left].
  - apply IH; [assumption|]. intros H. apply Hn. now right.
Qed.

Lemma NoDup_app_mid {A} (l1 l2 : list A) a : NoDup (l1 ++ l2) -> ~ In a (l1 ++ l2) -> NoDup (l1 ++ a :: l2).
Proof.
  induction l1 as [|x l1 IH]; intros Hnd Hn; cbn [app] in *; [now constructor|].
  inversion Hnd as [|? ? Hx Hl]; subst. constructor.
  - intros H. apply in_app_or in H. destruct H as [H|[<-|H]]; [apply Hx; apply in_or_app; now left|apply Hn; now left|apply Hx; apply in_or_app; now right].
  - apply IH; [assumption|]. intros H. apply Hn. now right.
Qed.

Section Order.
  Variable en : enc.
  Hypothesis Hb : enc_basic en.
  Let sy := e_sys en.
  Let states := s_states sy.

  Lemma in_syms_state (l : list state) st : In st states -> (forall x, In x l -> In x states) ->
    mem (st_sym st) (map st_sym l) = true <-> In st l.
  Proof.
    intros Hst Hsub. rewrite mem_In, in_map_iff. split.
    - intros (x & Hx & Hin). assert (x = st); [|now subst].
      pose proof (find_state_of en Hb x (Hsub x Hin)) as F1. pose proof (find_state_of en Hb st Hst) as F2.
      rewrite Hx in F1. congruence.
    - intros H. exists st. auto.
  Qed.

  (** the invariant of the emitted list *)
  Record good (e : list state) : Prop := {
    g_sub : forall st, In st e -> In st states;
    g_nodup : NoDup (map st_sym e);
    g_reads : reads_earlier en e
  }.

  Lemma good_nil : good [].
  Proof. split; [intros st []|constructor|]. intros l1 st l2 e y st' H. destruct l1; discriminate. Qed.

  Lemma ready_spec e st : good e -> In st states -> state_ready en (map st_sym e) st = true ->
    forall v y st', st_init st = Some v -> In y (symbols_of v) -> find_state en y = Some st' -> In st' e.
  Proof.
    intros Hg Hst Hr v y st' Hv Hy Hf. unfold state_ready in Hr. rewrite Hv in Hr. rewrite forallb_forall in Hr.
    rewrite symbols_in_of in Hr. specialize (Hr y Hy). apply find_state_in in Hf. destruct Hf as [Hin' <-].
    assert (Hs : is_state_sym (e_sys en) (st_sym st') = true).
    { unfold is_state_sym. apply existsb_exists. exists st'. split; [assumption|apply expr_eqb_refl]. }
    rewrite Hs in Hr. cbn in Hr. apply (in_syms_state e st' Hin' (g_sub e Hg)). exact Hr.
  Qed.

  Lemma good_snoc e st : good e -> In st states -> ~ In st e -> state_ready en (map st_sym e) st = true ->
    good (e ++ [st]).
  Proof.
    intros Hg Hst Hn Hr. split.
    - intros x Hx. apply in_app_or in Hx. destruct Hx as [Hx|[<-|[]]]; [now apply (g_sub e Hg)|assumption].
    - rewrite map_app. cbn [map]. apply NoDup_app_snoc; [apply (g_nodup e Hg)|].
      intros H. apply Hn. apply (in_syms_state e st Hst (g_sub e Hg)). now apply mem_In.
    - intros l1 x l2 v y st' Hsplit Hv Hy Hf.
      destruct (app_snoc_split e st l1 x l2 Hsplit) as [(-> & -> & ->)|(l2' & -> & He)].
      + now apply (ready_spec e st Hg Hst Hr v y st').
      + apply (g_reads e Hg l1 x l2' v y st' He Hv Hy Hf).
  Qed.

  (** one pass *)
  Lemma pass_spec : forall sts e, good e -> (forall st, In st sts -> In st states) ->
    let e' := order_pass en e sts in
    good e' /\ (exists t, e' = e ++ t) /\
    (forall st, In st sts -> ~ In st e -> state_ready en (map st_sym e) st = true -> In st e').
  Proof.
    induction sts as [|st r IH]; intros e Hg Hsub; cbn zeta; cbn [order_pass].
    - split; [assumption|]. split; [exists []; now rewrite app_nil_r|intros st []].
    - assert (Hst : In st states) by (apply Hsub; now left).
      assert (Hsubr : forall x, In x r -> In x states) by (intros; apply Hsub; now right).
      destruct (mem (st_sym st) (map st_sym e)) eqn:Em.
      + destruct (IH e Hg Hsubr) as (Hg' & Hext & Hall). split; [assumption|]. split; [assumption|].
        intros x [<-|Hx] Hn Hr; [|now apply Hall].
        exfalso. apply Hn. now apply (in_syms_state e st Hst (g_sub e Hg)).
      + assert (Hn : ~ In st e).
        { intros H. apply (in_syms_state e st Hst (g_sub e Hg)) in H. congruence. }
        destruct (state_ready en (map st_sym e) st) eqn:Er.
        * pose proof (good_snoc e st Hg Hst Hn Er) as Hg1.
          destruct (IH (e ++ [st]) Hg1 Hsubr) as (Hg' & (t & Ht) & Hall). split; [assumption|]. split.
          -- exists ([st] ++ t). rewrite Ht. now rewrite <- app_assoc.
          -- intros x [<-|Hx] Hnx Hrx; [rewrite Ht; apply in_or_app; left; apply in_or_app; right; now left|].
             assert (Hxs : In x states) by (now apply Hsubr).
             destruct (mem (st_sym x) (map st_sym (e ++ [st]))) eqn:Emx.
             { apply (in_syms_state (e ++ [st]) x Hxs (g_sub _ Hg1)) in Emx. rewrite Ht. apply in_or_app. now left. }
             assert (Hni : ~ In x (e ++ [st])).
             { intros H. apply (in_syms_state (e ++ [st]) x Hxs (g_sub _ Hg1)) in H. congruence. }
             apply Hall; [assumption|assumption|].
             (* readiness is monotone in the emitted list *)
             unfold state_ready in *. destruct (st_init x); [|reflexivity]. rewrite forallb_forall in *.
             intros y Hy. specialize (Hrx y Hy). apply orb_true_iff in Hrx. apply orb_true_iff.
             destruct Hrx as [Hrx|Hrx]; [now left|right]. rewrite map_app, mem_In, in_app_iff. left. now apply mem_In.
        * destruct (IH e Hg Hsubr) as (Hg' & Hext & Hall). split; [assumption|]. split; [assumption|].
          intros x [<-|Hx] Hnx Hrx; [congruence|now apply Hall].
  Qed.

  Lemma passes_good : forall fuel e, good e -> good (order_passes en fuel e).
  Proof.
    induction fuel as [|f IH]; intros e Hg; cbn [order_passes]; [assumption|].
    destruct (Nat.eqb _ _); [assumption|]. apply IH. apply (pass_spec states e Hg). auto.
  Qed.

  Lemma good_nodup_states e : good e -> NoDup e.
  Proof. intros Hg. apply (NoDup_map_inv st_sym). apply (g_nodup e Hg). Qed.

  Lemma unemitted_in e st : good e -> In st states -> mem (st_sym st) (map st_sym e) = false -> ~ In st e.
  Proof. intros Hg Hst Hm H. apply (in_syms_state e st Hst (g_sub e Hg)) in H. congruence. Qed.

  Lemma min_rank (rk : state -> nat) : forall l : list state, l <> [] ->
    exists m, In m l /\ forall x, In x l -> (rk m <= rk x)%nat.
  Proof.
    induction l as [|a l IH]; intros Hne; [contradiction|].
    destruct l as [|b l'].
    - exists a. split; [now left|]. intros x [<-|[]]. lia.
    - destruct (IH ltac:(discriminate)) as (m & Hm & Hmin).
      destruct (Nat.le_gt_cases (rk a) (rk m)) as [Hle|Hgt].
      + exists a. split; [now left|]. intros x [<-|Hx]; [lia|]. specialize (Hmin x Hx). lia.
      + exists m. split; [now right|]. intros x [<-|Hx]; [lia|now apply Hmin].
  Qed.

  Lemma rest_nil e : good e -> (forall st, In st states -> In st e) ->
    filter (fun st => negb (mem (st_sym st) (map st_sym e))) states = [].
  Proof.
    intros Hg Hall.
    assert (H : forall l, (forall st, In st l -> In st states) ->
                    filter (fun st => negb (mem (st_sym st) (map st_sym e))) l = []).
    { induction l as [|a l IH]; intros Hl; [reflexivity|]. cbn [filter].
      assert (Ha : mem (st_sym a) (map st_sym e) = true).
      { apply (in_syms_state e a (Hl a (or_introl eq_refl)) (g_sub e Hg)). apply Hall. apply Hl. now left. }
      rewrite Ha. cbn [negb]. apply IH. intros; apply Hl; now right. }
    now apply H.
  Qed.

  (** the executable test is enough *)
  Lemma init_order_complete : init_order_complete_b en = true -> reads_earlier en (init_order en).
  Proof.
    unfold init_order_complete_b, init_order. fold sy. fold states. intros Hc. apply Nat.eqb_eq in Hc.
    set (e := order_passes en (length states) []) in *.
    assert (Hg : good e) by (apply passes_good; apply good_nil).
    assert (Hall : forall st, In st states -> In st e).
    { intros st Hst. apply (@NoDup_length_incl _ e states (good_nodup_states e Hg)); [lia|intros x; apply (g_sub e Hg)|assumption]. }
    rewrite (rest_nil e Hg Hall), app_nil_r. apply (g_reads e Hg).
  Qed.

  Hypothesis Hacyc : acyclic_inits en.

  (** a pass makes progress as long as a state is missing *)
  Lemma pass_progress e : good e -> (exists st, In st states /\ ~ In st e) ->
    (length e < length (order_pass en e states))%nat.
  Proof.
    intros Hg (st0 & Hst0 & Hn0). destruct Hacyc as (rk & Hrk).
    set (U := filter (fun st => negb (mem (st_sym st) (map st_sym e))) states).
    assert (HU : forall st, In st U <-> In st states /\ ~ In st e).
    { intros st. unfold U. rewrite filter_In, negb_true_iff. split.
      - intros [Hst Hm]. split; [assumption|now apply unemitted_in].
      - intros [Hst Hn]. split; [assumption|]. destruct (mem (st_sym st) (map st_sym e)) eqn:Em; [|reflexivity].
        exfalso. apply Hn. now apply (in_syms_state e st Hst (g_sub e Hg)). }
    assert (Hne : U <> []) by (intros E; assert (In st0 U) by (apply HU; auto); rewrite E in H; destruct H).
    destruct (min_rank rk U Hne) as (m & Hm & Hmin). apply HU in Hm. destruct Hm as [Hms Hmn].
    assert (Hready : state_ready en (map st_sym e) m = true).
    { unfold state_ready. destruct (st_init m) as [v|] eqn:Ev; [|reflexivity]. apply forallb_forall. intros y Hy.
      rewrite symbols_in_of in Hy.
      destruct (is_state_sym (e_sys en) y) eqn:Es; [|reflexivity]. cbn [negb orb].
      unfold is_state_sym in Es. apply existsb_exists in Es. destruct Es as (st' & Hst' & He). apply expr_eqb_true in He. subst y.
      pose proof (find_state_of en Hb st' Hst') as Hf.
      pose proof (Hrk m v (st_sym st') st' Hms Ev Hy Hf) as Hlt.
      destruct (mem (st_sym st') (map st_sym e)) eqn:Em; [reflexivity|]. exfalso.
      assert (In st' U) by (apply HU; split; [assumption|now apply unemitted_in]).
      specialize (Hmin st' H). lia. }
    destruct (pass_spec states e Hg (fun st H => H)) as (_ & (t & Ht) & Hall).
    specialize (Hall m Hms Hmn Hready). cbn zeta in Ht. rewrite Ht in Hall |- *. rewrite app_length.
    apply in_app_or in Hall. destruct Hall as [Hin|Hin]; [contradiction|]. destruct t; [destruct Hin|]. cbn. lia.
  Qed.

  Lemma good_length e : good e -> (length e <= length states)%nat.
  Proof. intros Hg. apply NoDup_incl_length; [now apply good_nodup_states|]. intros x. apply (g_sub e Hg). Qed.

  Lemma passes_all : forall fuel e, good e -> (length states - length e <= fuel)%nat ->
    forall st, In st states -> In st (order_passes en fuel e).
  Proof.
    induction fuel as [|f IH]; intros e Hg Hf st Hst; cbn [order_passes]; change (s_states (e_sys en)) with states.
    - pose proof (good_length e Hg) as Hl.
      apply (@NoDup_length_incl _ e states (good_nodup_states e Hg)); [lia|intros x; apply (g_sub e Hg)|assumption].
    - destruct (Nat.eqb (length (order_pass en e states)) (length e)) eqn:El.
      + apply Nat.eqb_eq in El.
        destruct (mem (st_sym st) (map st_sym e)) eqn:Em; [now apply (in_syms_state e st Hst (g_sub e Hg))|].
        exfalso. assert (Hp : (length e < length (order_pass en e states))%nat).
        { apply pass_progress; [assumption|]. exists st. split; [assumption|now apply unemitted_in]. }
        lia.
      + apply Nat.eqb_neq in El.
        destruct (pass_spec states e Hg (fun st H => H)) as (Hg' & (t & Ht) & _). cbn zeta in *.
        apply IH; [assumption| |assumption].
        pose proof (good_length _ Hg') as Hl'. rewrite Ht in El, Hl' |- *. rewrite app_length in *. destruct t; cbn in *; lia.
  Qed.

  Lemma init_order_acyclic : init_order en = order_passes en (length states) [] /\ good (init_order en) /\
    forall st, In st states -> In st (init_order en).
  Proof.
    unfold init_order. fold sy. fold states.
    set (e := order_passes en (length states) []).
    assert (Hg : good e) by (apply passes_good; apply good_nil).
    assert (Hall : forall st, In st states -> In st e) by (apply passes_all; [apply good_nil|cbn; lia]).
    rewrite (rest_nil e Hg Hall), app_nil_r. auto.
  Qed.
End Order.

(** without any assumption on the dependencies, [init_order] is an arrangement of the states *)
Section OrderPerm.
  Variable en : enc.
  Hypothesis Hb : enc_basic en.
  Let states := s_states (e_sys en).

  Lemma init_order_perm st : In st (init_order en) <-> In st states.
  Proof.
    unfold init_order. fold states. set (e := order_passes en (length states) []).
    assert (Hg : good en e) by (apply (passes_good en Hb); apply good_nil).
    rewrite in_app_iff, filter_In. split.
    - intros [H|[H _]]; [now apply (g_sub en e Hg)|assumption].
    - intros Hst. destruct (mem (st_sym st) (map st_sym e)) eqn:Em.
      + left. now apply (in_syms_state en Hb e st Hst (g_sub en e Hg)).
      + right. split; [assumption|reflexivity].
  Qed.

  Lemma init_order_nodup : NoDup (map st_sym (init_order en)).
  Proof.
    unfold init_order. fold states. set (e := order_passes en (length states) []).
    assert (Hg : good en e) by (apply (passes_good en Hb); apply good_nil).
    rewrite map_app.
    assert (Hnd : NoDup (map st_sym states)) by (apply (eb_states_nodup en Hb)).
    assert (H : forall l, NoDup (map st_sym l) ->
              NoDup (map st_sym e ++ map st_sym (filter (fun st => negb (mem (st_sym st) (map st_sym e))) l))).
    { induction l as [|a l IH]; intros Hl; cbn [filter map]; [rewrite app_nil_r; apply (g_nodup en e Hg)|].
      inversion Hl as [|? ? Ha Hl']; subst. destruct (mem (st_sym a) (map st_sym e)) eqn:Em; cbn [negb]; [now apply IH|].
      cbn [map]. apply NoDup_app_mid; [now apply IH|].
      intros H. apply in_app_or in H. destruct H as [H|H].
      - apply mem_In in H. congruence.
      - apply Ha. apply in_map_iff in H. destruct H as (x & Hx & Hin). apply filter_In in Hin. rewrite <- Hx. apply in_map. tauto. }
    now apply H.
  Qed.
End OrderPerm.
