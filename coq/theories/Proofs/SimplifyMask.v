(** * Proofs/SimplifyMask.v — the literal-mask arms of [simplify_bv_and]:
    (ca # cb) & m  and the expansion of  x & m  into slices and zero gaps. *)
From Coq Require Import Lia.
From Patronus Require Import Simplify BVLemmas ExprLemmas EvalProofs BVRuleLemmas ExprEqb SimplifyBuilders
     SimplifyRules1 SimplifyRules2.
Open Scope N_scope.

(** the model's interval function is the one the arithmetic lemmas are about *)
Lemma intervals_aux_same n : forall pos v cur,
  Simplify.intervals_aux n pos v cur = BVRuleLemmas.intervals_aux n pos v cur.
Proof.
  induction n as [|n IH]; intros pos v cur; cbn [Simplify.intervals_aux BVRuleLemmas.intervals_aux]; [reflexivity|].
  destruct (N.testbit v pos); [apply IH|]. destruct cur; [f_equal|]; apply IH.
Qed.

Lemma bit_set_intervals_same w v : Simplify.bit_set_intervals w v = BVRuleLemmas.bit_set_intervals w v.
Proof. apply intervals_aux_same. Qed.

(** a list of well-typed bit-vector pieces (low first) and its value-level image *)
Definition piece_ok (e : expr) : Prop := wt e = true /\ exists w, type_of e = TBV w.

Definition sem_pieces (rho : env) (es : list expr) : list (N * N) :=
  map (fun e => (width e, ebv rho e)) es.

Lemma piece_ok_B e : piece_ok e -> B e (width e) (fun rho => ebv rho e).
Proof. intros (W & w & T). unfold width. rewrite T. now apply B_of_wt. Qed.

Lemma B_piece_ok e w v : B e w v -> piece_ok e.
Proof. intros (W & T & _). split; eauto. Qed.

Definition total_width (es : list expr) : N := fold_right (fun e acc => width e + acc) 0 es.

Lemma total_width_app xs ys : total_width (xs ++ ys) = total_width xs + total_width ys.
Proof. induction xs as [|x xs IH]; [reflexivity|]. cbn [app]. unfold total_width in *. cbn [fold_right]. rewrite IH. lia. Qed.

Lemma total_width_rev xs : total_width (rev xs) = total_width xs.
Proof.
  induction xs as [|x xs IH]; cbn [rev]; [reflexivity|]. rewrite total_width_app, IH.
  unfold total_width. cbn [fold_right]. lia.
Qed.

Lemma total_width_pieces rho es : pieces_width (sem_pieces rho es) = total_width es.
Proof.
  induction es as [|e es IH]; [reflexivity|]. unfold sem_pieces, total_width in *.
  cbn [map pieces_width fold_right]. now rewrite IH.
Qed.

(** folding [mk_concat] over the remaining (lower) pieces *)
Lemma fold_concat_B : forall tl hd w0 v0,
  B hd w0 v0 -> Forall piece_ok tl ->
  B (fold_left mk_concat tl hd) (w0 + total_width tl)
    (fun rho => fold_left (fun acc e => bv_concat (width e) acc (ebv rho e)) tl (v0 rho)).
Proof.
  induction tl as [|p tl IH]; intros hd w0 v0 Hhd Htl; cbn [fold_left].
  - unfold total_width. cbn [fold_right]. now rewrite N.add_0_r.
  - inversion Htl as [|? ? Hp Htl']; subst.
    pose proof (piece_ok_B p Hp) as Bp.
    pose proof (B_mk_concat _ _ _ _ _ _ Hhd Bp) as Hc.
    specialize (IH _ _ _ Hc Htl').
    eapply B_cast; [exact IH|]. unfold total_width. cbn [fold_right]. lia.
Qed.

(** value of the high-first fold = [pieces_val] of the low-first list *)
Lemma fold_val_rev rho : forall es v0 w0,
  fold_left (fun acc e => bv_concat (width e) acc (ebv rho e)) (rev es) v0 =
  pieces_val (sem_pieces rho es ++ [(w0, v0)]).
Proof.
  induction es as [|p es IH]; intros v0 w0; cbn [rev app sem_pieces map pieces_val fold_left].
  - lia.
  - rewrite fold_left_app. cbn [fold_left]. rewrite (IH v0 w0). unfold bv_concat, sem_pieces. lia.
Qed.

Lemma sem_pieces_app rho xs ys : sem_pieces rho (xs ++ ys) = sem_pieces rho xs ++ sem_pieces rho ys.
Proof. unfold sem_pieces. apply map_app. Qed.

Lemma reduce_concat_B es r :
  Forall piece_ok es -> reduce_concat es = Some r ->
  B r (total_width es) (fun rho => pieces_val (sem_pieces rho es)).
Proof.
  intros Hes Hr. unfold reduce_concat in Hr.
  destruct (rev es) as [|hd tl] eqn:Erev; [discriminate|]. inversion Hr; subst r; clear Hr.
  assert (Ees : es = rev tl ++ [hd]) by (rewrite <- (rev_involutive es), Erev; reflexivity).
  assert (Hall : Forall piece_ok (hd :: tl)) by (rewrite <- Erev; now apply Forall_rev).
  inversion Hall as [|? ? Hhd Htl]; subst.
  pose proof (fold_concat_B tl hd _ _ (piece_ok_B hd Hhd) Htl) as HB.
  eapply B_ext; [eapply B_cast; [exact HB|]|].
  - rewrite total_width_app, total_width_rev. cbn. lia.
  - intros rho Hr. cbn beta. rewrite sem_pieces_app. cbn [sem_pieces map].
    rewrite <- (rev_involutive tl) at 1. apply fold_val_rev.
Qed.

(** the expression-level pieces denote the value-level pieces *)
Lemma mask_pieces_ok x wx : wt x = true -> type_of x = TBV wx ->
  forall ivs bit, Forall (fun iv => fst iv < snd iv /\ snd iv <= wx) ivs ->
  Forall piece_ok (fst (mask_pieces x ivs bit)) /\
  snd (mask_pieces x ivs bit) = snd (mask_pieces_sem 0 ivs bit) /\
  forall rho, env_wf rho ->
    sem_pieces rho (fst (mask_pieces x ivs bit)) = fst (mask_pieces_sem (ebv rho x) ivs bit).
Proof.
  intros Wx Tx. induction ivs as [|[s e] rest IH]; intros bit Hivs; cbn [mask_pieces mask_pieces_sem].
  - cbn. repeat split; auto.
  - inversion Hivs as [|? ? Hse Hrest]; subst. cbn [fst snd] in Hse. destruct Hse as [Hse Hew].
    specialize (IH e Hrest). destruct IH as (IH1 & IH2 & IH3).
    destruct (mask_pieces x rest e) as [more last] eqn:Em.
    destruct (mask_pieces_sem 0 rest e) as [more0 last0] eqn:Em0.
    cbn [fst snd] in *.
    assert (Bs : B (mk_slice x (e - 1) s) (e - 1 - s + 1) (fun rho => bv_slice (e - 1) s (ebv rho x))).
    { eapply B_mk_slice; [apply B_of_wt; eassumption|lia|lia]. }
    split; [|split].
    + apply Forall_app. split.
      * destruct (N.ltb_spec bit s); [|constructor]. constructor; [|constructor].
        eapply B_piece_ok. apply B_zero. lia.
      * constructor; [eapply B_piece_ok; exact Bs|exact IH1].
    + exact IH2.
    + intros rho Hr. specialize (IH3 rho Hr).
      destruct (mask_pieces_sem (ebv rho x) rest e) as [more' last'] eqn:Em'. cbn [fst] in *.
      rewrite sem_pieces_app. cbn [sem_pieces map]. f_equal.
      * destruct (N.ltb_spec bit s); [|reflexivity]. cbn. reflexivity.
      * f_equal; [|exact IH3]. rewrite (B_width _ _ _ Bs).
        destruct Bs as (_ & _ & Vs). now rewrite Vs.
Qed.

(** the [snd] component of [mask_pieces_sem] does not depend on the value *)
Lemma mask_pieces_sem_snd x y : forall ivs bit, snd (mask_pieces_sem x ivs bit) = snd (mask_pieces_sem y ivs bit).
Proof.
  induction ivs as [|[s e] rest IH]; intros bit; cbn [mask_pieces_sem]; [reflexivity|].
  specialize (IH e). destruct (mask_pieces_sem x rest e), (mask_pieces_sem y rest e). exact IH.
Qed.

(** ** the two literal-mask arms *)
Definition and_mask_arm (w v : N) (e : expr) : option expr :=
  match e with
  | BVConcat ca cb cw =>
      let bw := width cb in
      let a_mask := BVLiteral (cw - 1 - bw + 1) (bv_slice (cw - 1) bw v) in
      let b_mask := BVLiteral (bw - 1 - 0 + 1) (bv_slice (bw - 1) 0 v) in
      Some (mk_concat (mk_and ca a_mask) (mk_and cb b_mask))
  | _ =>
      let ew := width e in
      let '(vals, bit) := mask_pieces e (Simplify.bit_set_intervals w v) 0 in
      let vals := if bit <? ew then vals ++ [mk_zero (ew - bit)] else vals in
      reduce_concat vals
  end.

Lemma and_mask_arm_sound w v e r :
  wt e = true -> type_of e = TBV w -> v < 2 ^ w ->
  and_mask_arm w v e = Some r ->
  B r w (fun rho => bv_and (ebv rho e) v).
Proof.
  intros We Te Hv Hs. pose proof (width_pos _ _ We Te) as Hpos.
  assert (Hwe : width e = w) by (unfold width; now rewrite Te).
  destruct (concat_dec e) as [[[[ca cb] cw] ->]|Ne]; cbn [fst snd] in *.
  - (* (ca # cb) & mask *)
    cbn [and_mask_arm] in Hs. inversion Hs; subst r; clear Hs.
    pose proof We as We'. apply wt_concat in We'. destruct We' as (Wca & Wcb & aw & bw & Tca & Tcb & ->).
    cbn in Te. inversion Te; subst w.
    pose proof (width_pos _ _ Wca Tca) as Hpa. pose proof (width_pos _ _ Wcb Tcb) as Hpb.
    assert (Hwcb : width cb = bw) by (unfold width; now rewrite Tcb). rewrite !Hwcb.
    eapply B_ext.
    + apply B_mk_concat.
      * apply B_mk_and; [apply B_of_wt; eassumption|].
        eapply B_cast; [apply B_lit; [|apply bv_slice_bound]|]; lia.
      * apply B_mk_and; [apply B_of_wt; eassumption|].
        eapply B_cast; [apply B_lit; [|apply bv_slice_bound]|]; lia.
    + intros rho Hr. cbn [ebv]. rewrite Hwcb. symmetry.
      apply and_concat_mask; try assumption; now apply ebv_bound.
  - (* x & mask *)
    assert (Hs' : (let '(vals, bit) := mask_pieces e (Simplify.bit_set_intervals w v) 0 in
                   let vals := if bit <? width e then vals ++ [mk_zero (width e - bit)] else vals in
                   reduce_concat vals) = Some r)
      by (not_concat e Ne; exact Hs).
    clear Hs. rewrite Hwe, bit_set_intervals_same in Hs'.
    pose proof (intervals_wf w v Hv) as Hwf.
    destruct (mask_pieces_ok e w We Te (BVRuleLemmas.bit_set_intervals w v) 0 Hwf) as (P1 & P2 & P3).
    destruct (mask_pieces e (BVRuleLemmas.bit_set_intervals w v) 0) as [vals bit] eqn:Em. cbn [fst snd] in *.
    set (vals' := if bit <? w then vals ++ [mk_zero (w - bit)] else vals) in *.
    assert (Hall : Forall piece_ok vals').
    { unfold vals'. destruct (N.ltb_spec bit w); [|exact P1]. apply Forall_app. split; [exact P1|].
      constructor; [|constructor]. eapply B_piece_ok. apply B_zero. lia. }
    pose proof (reduce_concat_B vals' r Hall Hs') as HB.
    (* relate to the value-level pieces *)
    assert (Hsem : forall rho, env_wf rho -> sem_pieces rho vals' = mask_all_pieces w (ebv rho e) v).
    { intros rho Hr. unfold mask_all_pieces, vals'.
      specialize (P3 rho Hr).
      pose proof (mask_pieces_sem_snd (ebv rho e) 0 (BVRuleLemmas.bit_set_intervals w v) 0) as Hsnd.
      destruct (mask_pieces_sem (ebv rho e) (BVRuleLemmas.bit_set_intervals w v) 0) as [ps last] eqn:Es.
      cbn [fst snd] in *. rewrite <- P2 in Hsnd. subst last.
      destruct (N.ltb_spec bit w); [|exact P3].
      rewrite sem_pieces_app, P3. cbn. reflexivity. }
    set (rho0 := {| rho_bv := fun _ _ => 0; rho_arr := fun _ _ _ _ => 0 |}).
    assert (Hr0 : env_wf rho0) by (split; intros; cbn; auto with bv).
    eapply B_ext; [eapply B_cast; [exact HB|]|].
    + rewrite <- (total_width_pieces rho0), (Hsem rho0 Hr0).
      apply (mask_expand w (ebv rho0 e) v); [now apply ebv_bound|assumption].
    + intros rho Hr. cbn beta. rewrite (Hsem rho Hr).
      apply (mask_expand w (ebv rho e) v); [now apply ebv_bound|assumption].
Qed.
