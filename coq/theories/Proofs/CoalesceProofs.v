(** * Proofs/CoalesceProofs.v — [coalesce_entries] / [delete_entries].

    The loop invariant [co_inv] describes the vector after the first [ii] entries were
    processed.  Consequences:
    - with any delete list order (the code as it is) the result still denotes the same
      value everywhere ([coalesce_denotes]) - but need not be a partition;
    - with the delete list sorted (the repair) exactly the scheduled entries are deleted,
      all values of the result are different and the partition is preserved. *)
From Coq Require Import Lia Arith.
From Patronus Require Import GuardSem BddProofs GuardProofs SummaryProofs.
Open Scope nat_scope.

Lemma expr_eqb_neq x y : expr_eqb x y = false -> x <> y.
Proof. intros H ->. now rewrite expr_eqb_refl in H. Qed.

(** some entry of [l] with value [x] is true *)
Definition orv (v : nat -> bool) (l : summary) (x : expr) : bool :=
  existsb (fun e => bdd_eval v (fst e) && expr_eqb (snd e) x) l.

Lemma orv_app v l l' x : orv v (l ++ l') x = orv v l x || orv v l' x.
Proof. apply existsb_app. Qed.

Lemma orv_true v l x : orv v l x = true -> exists g, In (g, x) l /\ bdd_eval v g = true.
Proof.
  unfold orv. rewrite existsb_exists. intros ([g y] & Hin & H). cbn in H.
  apply andb_prop in H. destruct H as [Hg Hy]. apply expr_eqb_eq in Hy. subst. eauto.
Qed.

Lemma orv_intro v l g x : In (g, x) l -> bdd_eval v g = true -> orv v l x = true.
Proof.
  intros Hin Hg. unfold orv. apply existsb_exists. exists (g, x). split; [assumption |].
  cbn. now rewrite Hg, expr_eqb_refl.
Qed.

Lemma orv_none v l x : (forall e, In e l -> snd e <> x) -> orv v l x = false.
Proof.
  intros H. destruct (orv v l x) eqn:E; [| reflexivity].
  apply orv_true in E. destruct E as (g & Hin & _). exfalso. now apply (H _ Hin).
Qed.

Lemma orv_single v g x y : orv v [(g, x)] y = bdd_eval v g && expr_eqb x y.
Proof. unfold orv. cbn. now rewrite orb_false_r. Qed.

Lemma nth_error_snoc_inv {A} (l : list A) e i y :
  nth_error (l ++ [e]) i = Some y ->
  (i < length l /\ nth_error l i = Some y) \/ (i = length l /\ y = e).
Proof.
  intros H. destruct (Nat.lt_ge_cases i (length l)) as [Hlt | Hge].
  - left. rewrite nth_error_app1 in H by assumption. auto.
  - right. rewrite nth_error_app2 in H by assumption.
    destruct (i - length l) as [| k] eqn:E; cbn in H.
    + inversion H. split; [lia | reflexivity].
    + destruct k; discriminate.
Qed.

Lemma nth_error_snoc_last {A} (l : list A) e : nth_error (l ++ [e]) (length l) = Some e.
Proof. rewrite nth_error_app2 by lia. now rewrite Nat.sub_diag. Qed.

Lemma nth_error_lt {A} (l : list A) i y : nth_error l i = Some y -> i < length l.
Proof. intros H. apply nth_error_Some. congruence. Qed.

Lemma NoDup_snoc {A} (l : list A) a : NoDup l -> ~ In a l -> NoDup (l ++ [a]).
Proof.
  induction 1 as [| h t Hh Hn IH]; intros Ha; cbn.
  - constructor; [intros [] | constructor].
  - constructor.
    + intros Hin. apply in_app_or in Hin. destruct Hin as [Hin | [-> | []]]; [auto |].
      apply Ha. now left.
    + apply IH. intros Hin. apply Ha. now right.
Qed.

(* ------------------------------------------------------------------ the loop *)

Record co_inv (pre0 pre : summary) (bv : list (expr * nat)) (dl : list nat) : Prop := {
  ci_vals : map snd pre = map snd pre0;
  ci_sound : forall v i g x, nth_error pre i = Some (g, x) -> bdd_eval v g = true -> orv v pre0 x = true;
  ci_last : forall x p, lookup_value x bv = Some p ->
            (exists g, nth_error pre p = Some (g, x) /\ forall v, bdd_eval v g = orv v pre0 x) /\ ~ In p dl;
  ci_none : forall x, lookup_value x bv = None -> forall e, In e pre0 -> snd e <> x;
  ci_cover : forall i g x, nth_error pre i = Some (g, x) -> In i dl \/ lookup_value x bv = Some i;
  ci_dl : forall d, In d dl -> d < length pre;
  ci_nodup : NoDup dl
}.

Lemma co_inv_init : co_inv [] [] [] [].
Proof.
  constructor; try (intros; destruct i; discriminate); try (intros; discriminate); try constructor.
  - intros x _ e [].
  - intros d [].
Qed.

Lemma co_inv_some pre0 pre bv dl g x p gp :
  co_inv pre0 pre bv dl -> lookup_value x bv = Some p -> nth_error pre p = Some (gp, x) ->
  co_inv (pre0 ++ [(g, x)]) (pre ++ [(bdd_or gp g, x)]) ((x, length pre) :: bv) (dl ++ [p]).
Proof.
  intros I L Np.
  destruct (ci_last _ _ _ _ I x p L) as [(g0 & Np0 & Hgp) Hpdl].
  rewrite Np in Np0. inversion Np0; subst g0. clear Np0.
  assert (Hplt : p < length pre) by (eapply nth_error_lt; eassumption).
  constructor.
  - rewrite !map_app. f_equal. exact (ci_vals _ _ _ _ I).
  - intros v i g' x' Hn Ht. rewrite orv_app. apply nth_error_snoc_inv in Hn.
    destruct Hn as [[_ Hn] | [_ Hn]].
    + now rewrite (ci_sound _ _ _ _ I v i g' x' Hn Ht).
    + inversion Hn; subst. rewrite eval_or in Ht. rewrite orv_single, expr_eqb_refl, andb_true_r.
      rewrite <- Hgp. assumption.
  - intros y q Hl. cbn [lookup_value] in Hl. destruct (expr_eqb x y) eqn:E.
    + apply expr_eqb_eq in E. subst y. inversion Hl; subst q. split.
      * exists (bdd_or gp g). split; [apply nth_error_snoc_last |].
        intros v. now rewrite eval_or, orv_app, orv_single, expr_eqb_refl, andb_true_r, Hgp.
      * intros Hin. apply in_app_or in Hin. destruct Hin as [Hin | [Heq | []]].
        -- apply (ci_dl _ _ _ _ I) in Hin. lia.
        -- lia.
    + destruct (ci_last _ _ _ _ I y q Hl) as [(g0 & Nq & Hg0) Hqdl]. split.
      * exists g0. split.
        -- rewrite nth_error_app1 by (eapply nth_error_lt; eassumption). assumption.
        -- intros v. now rewrite orv_app, orv_single, E, andb_false_r, orb_false_r.
      * intros Hin. apply in_app_or in Hin. destruct Hin as [Hin | [Heq | []]]; [auto |].
        subst q. rewrite Np in Nq. inversion Nq; subst. now rewrite expr_eqb_refl in E.
  - intros y Hl e He. cbn [lookup_value] in Hl. destruct (expr_eqb x y) eqn:E; [discriminate |].
    apply in_app_or in He. destruct He as [He | [Heq | []]].
    + now apply (ci_none _ _ _ _ I y Hl).
    + subst e. cbn. now apply expr_eqb_neq.
  - intros i g' x' Hn. apply nth_error_snoc_inv in Hn. destruct Hn as [[_ Hn] | [-> Hn]].
    + destruct (ci_cover _ _ _ _ I i g' x' Hn) as [Hin | Hl].
      * left. apply in_or_app. now left.
      * cbn [lookup_value]. destruct (expr_eqb x x') eqn:E.
        -- apply expr_eqb_eq in E. subst x'. rewrite L in Hl. inversion Hl; subst.
           left. apply in_or_app. right. now left.
        -- now right.
    + inversion Hn; subst. right. cbn [lookup_value]. now rewrite expr_eqb_refl.
  - intros d Hin. rewrite app_length. cbn. apply in_app_or in Hin.
    destruct Hin as [Hin | [Heq | []]]; [apply (ci_dl _ _ _ _ I) in Hin |]; lia.
  - apply NoDup_snoc; [apply (ci_nodup _ _ _ _ I) | assumption].
Qed.

Lemma co_inv_none pre0 pre bv dl g x :
  co_inv pre0 pre bv dl -> lookup_value x bv = None ->
  co_inv (pre0 ++ [(g, x)]) (pre ++ [(g, x)]) ((x, length pre) :: bv) dl.
Proof.
  intros I L.
  constructor.
  - rewrite !map_app. f_equal. exact (ci_vals _ _ _ _ I).
  - intros v i g' x' Hn Ht. rewrite orv_app. apply nth_error_snoc_inv in Hn.
    destruct Hn as [[_ Hn] | [_ Hn]].
    + now rewrite (ci_sound _ _ _ _ I v i g' x' Hn Ht).
    + inversion Hn; subst. rewrite orv_single, expr_eqb_refl, Ht. apply orb_true_r.
  - intros y q Hl. cbn [lookup_value] in Hl. destruct (expr_eqb x y) eqn:E.
    + apply expr_eqb_eq in E. subst y. inversion Hl; subst q. split.
      * exists g. split; [apply nth_error_snoc_last |].
        intros v. rewrite orv_app, orv_single, expr_eqb_refl, andb_true_r.
        now rewrite (orv_none v pre0 x (ci_none _ _ _ _ I x L)).
      * intros Hin. apply (ci_dl _ _ _ _ I) in Hin. lia.
    + destruct (ci_last _ _ _ _ I y q Hl) as [(g0 & Nq & Hg0) Hqdl]. split; [| assumption].
      exists g0. split.
      * rewrite nth_error_app1 by (eapply nth_error_lt; eassumption). assumption.
      * intros v. now rewrite orv_app, orv_single, E, andb_false_r, orb_false_r.
  - intros y Hl e He. cbn [lookup_value] in Hl. destruct (expr_eqb x y) eqn:E; [discriminate |].
    apply in_app_or in He. destruct He as [He | [Heq | []]].
    + now apply (ci_none _ _ _ _ I y Hl).
    + subst e. cbn. now apply expr_eqb_neq.
  - intros i g' x' Hn. apply nth_error_snoc_inv in Hn. destruct Hn as [[_ Hn] | [-> Hn]].
    + destruct (ci_cover _ _ _ _ I i g' x' Hn) as [Hin | Hl]; [now left |].
      cbn [lookup_value]. destruct (expr_eqb x x') eqn:E; [| now right].
      apply expr_eqb_eq in E. subst x'. congruence.
    + inversion Hn; subst. right. cbn [lookup_value]. now rewrite expr_eqb_refl.
  - intros d Hin. rewrite app_length. cbn. apply (ci_dl _ _ _ _ I) in Hin. lia.
  - apply (ci_nodup _ _ _ _ I).
Qed.

Lemma co_loop_inv rest : forall pre0 pre bv dl,
  co_inv pre0 pre bv dl ->
  exists pre' bv' dl', co_loop pre bv dl rest = Ok (pre', dl') /\ co_inv (pre0 ++ rest) pre' bv' dl'.
Proof.
  induction rest as [| [g x] rest IH]; intros pre0 pre bv dl I.
  - exists pre, bv, dl. rewrite app_nil_r. auto.
  - cbn [co_loop]. destruct (lookup_value x bv) as [p |] eqn:L.
    + destruct (ci_last _ _ _ _ I x p L) as [(gp & Np & _) _]. rewrite Np.
      destruct (IH _ _ _ _ (co_inv_some _ _ _ _ g x p gp I L Np)) as (pre' & bv' & dl' & Hc & I').
      exists pre', bv', dl'. split; [assumption |].
      now rewrite <- app_assoc in I'.
    + destruct (IH _ _ _ _ (co_inv_none _ _ _ _ g x I L)) as (pre' & bv' & dl' & Hc & I').
      exists pre', bv', dl'. split; [assumption |].
      now rewrite <- app_assoc in I'.
Qed.

Lemma co_loop_ok es : exists pre bv dl, co_loop [] [] [] es = Ok (pre, dl) /\ co_inv es pre bv dl.
Proof. apply (co_loop_inv es [] [] [] [] co_inv_init). Qed.

(* ------------------------------------------------------------------ delete_entries *)

Lemma delete_go_nil {T} idx (es : list T) : delete_go [] idx es = es.
Proof. revert idx. induction es as [| e es IH]; intros idx; cbn; [reflexivity | now rewrite IH]. Qed.

Lemma delete_entries_go {T} dl (es : list T) : delete_entries dl es = delete_go dl 0 es.
Proof. unfold delete_entries. destruct dl; cbn [is_nil]; [now rewrite delete_go_nil | reflexivity]. Qed.

Lemma delete_go_In {T} (es : list T) : forall dl idx e, In e (delete_go dl idx es) -> In e es.
Proof.
  induction es as [| a es IH]; intros dl idx e H; cbn in H; [assumption |].
  destruct dl as [| d dl'].
  - destruct H as [-> | H]; [now left | right; eauto].
  - destruct (Nat.eqb d idx).
    + right. eauto.
    + destruct H as [-> | H]; [now left | right; eauto].
Qed.

(** whatever the order of the delete list: an index that is not in it is kept *)
Lemma delete_go_keep {T} (es : list T) : forall dl idx i e,
  nth_error es i = Some e -> ~ In (idx + i) dl -> In e (delete_go dl idx es).
Proof.
  induction es as [| a es IH]; intros dl idx i e Hn Hni; [destruct i; discriminate |].
  cbn [delete_go]. destruct i as [| i]; cbn in Hn.
  - inversion Hn; subst. destruct dl as [| d dl']; [now left |].
    destruct (Nat.eqb d idx) eqn:E; [| now left].
    apply Nat.eqb_eq in E. subst. exfalso. apply Hni. left. lia.
  - destruct dl as [| d dl'].
    + right. apply (IH [] (S idx) i e Hn). intros [].
    + destruct (Nat.eqb d idx) eqn:E.
      * apply (IH dl' (S idx) i e Hn). intros Hin. apply Hni. right.
        replace (idx + S i) with (S idx + i) by lia. assumption.
      * right. apply (IH (d :: dl') (S idx) i e Hn).
        replace (S idx + i) with (idx + S i) by lia. assumption.
Qed.

(** strictly increasing, all elements at least [lo] *)
Fixpoint inc_from (lo : nat) (l : list nat) : Prop :=
  match l with
  | [] => True
  | d :: t => lo <= d /\ inc_from (S d) t
  end.

Lemma inc_from_ge lo l y : inc_from lo l -> In y l -> lo <= y.
Proof.
  revert lo. induction l as [| d t IH]; intros lo H Hin; [destruct Hin |].
  cbn in H. destruct H as [Hd Ht]. destruct Hin as [<- | Hin]; [assumption |].
  specialize (IH _ Ht Hin). lia.
Qed.

Lemma inc_from_weaken lo lo' l : lo' <= lo -> inc_from lo l -> inc_from lo' l.
Proof. destruct l as [| d t]; cbn; [trivial |]. intros H [Hd Ht]. split; [lia | assumption]. Qed.

Lemma insert_nat_In d y l : In y (insert_nat d l) <-> y = d \/ In y l.
Proof.
  induction l as [| h t IH]; cbn; [intuition congruence |].
  destruct (Nat.leb d h); cbn; [intuition congruence |]. rewrite IH. intuition congruence.
Qed.

Lemma sort_nat_In y l : In y (sort_nat l) <-> In y l.
Proof.
  induction l as [| h t IH]; cbn; [tauto |]. rewrite insert_nat_In, IH. intuition congruence.
Qed.

Lemma insert_nat_inc d : forall l lo, inc_from lo l -> lo <= d -> ~ In d l -> inc_from lo (insert_nat d l).
Proof.
  induction l as [| h t IH]; intros lo H Hd Hni; cbn; [auto |].
  cbn in H. destruct H as [Hh Ht].
  destruct (Nat.leb d h) eqn:E.
  - apply Nat.leb_le in E. cbn. repeat split; try assumption.
    assert (d <> h) by (intros ->; apply Hni; now left). lia.
  - apply Nat.leb_gt in E. cbn. split; [assumption |].
    apply IH; [assumption | lia | intros Hin; apply Hni; now right].
Qed.

Lemma sort_nat_inc l : NoDup l -> inc_from 0 (sort_nat l).
Proof.
  induction 1 as [| a l Ha Hn IH]; cbn; [trivial |].
  apply insert_nat_inc; [assumption | lia | now rewrite sort_nat_In].
Qed.

(** with a sorted delete list exactly the listed indices are deleted *)
Lemma delete_go_exact {T} (es : list T) : forall dl idx e,
  inc_from idx dl -> In e (delete_go dl idx es) ->
  exists i, nth_error es i = Some e /\ ~ In (idx + i) dl.
Proof.
  induction es as [| a es IH]; intros dl idx e Hinc H; cbn in H; [destruct H |].
  destruct dl as [| d dl'].
  - destruct H as [-> | H].
    + exists 0. split; [reflexivity | intros []].
    + destruct (IH [] (S idx) e I H) as (i & Hn & _). exists (S i). split; [assumption | intros []].
  - cbn in Hinc. destruct Hinc as [Hd Hinc]. destruct (Nat.eqb d idx) eqn:E.
    + apply Nat.eqb_eq in E. subst d.
      destruct (IH dl' (S idx) e Hinc H) as (i & Hn & Hni). exists (S i). split; [assumption |].
      intros [Heq | Hin]; [lia |]. apply Hni. now replace (S idx + i) with (idx + S i) by lia.
    + apply Nat.eqb_neq in E. destruct H as [-> | H].
      * exists 0. split; [reflexivity |]. intros [Heq | Hin]; [lia |].
        apply (inc_from_ge _ _ _ Hinc) in Hin. lia.
      * assert (Hinc' : inc_from (S idx) (d :: dl')) by (cbn; split; [lia | assumption]).
        destruct (IH (d :: dl') (S idx) e Hinc' H) as (i & Hn & Hni). exists (S i).
        split; [assumption |]. now replace (idx + S i) with (S idx + i) by lia.
Qed.

Lemma delete_go_nodup (es : summary) : forall dl idx,
  inc_from idx dl ->
  (forall i j e1 e2, nth_error es i = Some e1 -> nth_error es j = Some e2 ->
                     ~ In (idx + i) dl -> ~ In (idx + j) dl -> snd e1 = snd e2 -> i = j) ->
  NoDup (map snd (delete_go dl idx es)).
Proof.
  induction es as [| a es IH]; intros dl idx Hinc Hu; cbn [delete_go]; [constructor |].
  destruct dl as [| d dl'].
  - (* nothing left to delete *)
    cbn [map]. constructor.
    + intros Hin. apply in_map_iff in Hin. destruct Hin as (e2 & He2 & Hin).
      destruct (delete_go_exact es [] (S idx) e2 I Hin) as (j & Hj & _).
      assert (0 = S j); [| lia].
      apply (Hu 0 (S j) a e2); [reflexivity | exact Hj | intros [] | intros [] | now symmetry].
    + apply IH; [exact I |]. intros i j e1 e2 Hi Hj _ _ He.
      assert (S i = S j); [| lia].
      apply (Hu (S i) (S j) e1 e2 Hi Hj); [intros [] | intros [] | assumption].
  - cbn in Hinc. destruct Hinc as [Hd Hinc]. destruct (Nat.eqb d idx) eqn:E.
    + (* the head is deleted *)
      apply Nat.eqb_eq in E. subst d. apply IH; [assumption |].
      intros i j e1 e2 Hi Hj Hni Hnj He. assert (S i = S j); [| lia].
      apply (Hu (S i) (S j) e1 e2 Hi Hj); try assumption.
      * intros [Heq | Hin]; [lia |]. apply Hni. now replace (S idx + i) with (idx + S i) by lia.
      * intros [Heq | Hin]; [lia |]. apply Hnj. now replace (S idx + j) with (idx + S j) by lia.
    + (* the head is kept *)
      apply Nat.eqb_neq in E.
      assert (Hinc' : inc_from (S idx) (d :: dl')) by (cbn; split; [lia | assumption]).
      assert (H0 : ~ In (idx + 0) (d :: dl')).
      { intros [Heq | Hin]; [lia |]. apply (inc_from_ge _ _ _ Hinc) in Hin. lia. }
      cbn [map]. constructor.
      * intros Hin. apply in_map_iff in Hin. destruct Hin as (e2 & He2 & Hin).
        destruct (delete_go_exact es (d :: dl') (S idx) e2 Hinc' Hin) as (j & Hj & Hnj).
        assert (0 = S j); [| lia].
        apply (Hu 0 (S j) a e2); [reflexivity | exact Hj | exact H0 | | now symmetry].
        now replace (idx + S j) with (S idx + j) by lia.
      * apply IH; [assumption |]. intros i j e1 e2 Hi Hj Hni Hnj He.
        assert (S i = S j); [| lia].
        apply (Hu (S i) (S j) e1 e2 Hi Hj); [| | assumption].
        -- now replace (idx + S i) with (S idx + i) by lia.
        -- now replace (idx + S j) with (S idx + j) by lia.
Qed.

(* ------------------------------------------------------------------ coalesce *)

Lemma coalesce_shape fixed es :
  exists pre bv dl dl',
    co_inv es pre bv dl /\ (forall d, In d dl' <-> In d dl) /\ (fixed = true -> inc_from 0 dl') /\
    coalesce_entries fixed es = Ok (delete_go dl' 0 pre).
Proof.
  destruct (co_loop_ok es) as (pre & bv & dl & Hc & I).
  exists pre, bv, dl, (if fixed then sort_nat dl else dl). split; [assumption |]. split; [| split].
  - intros d. destruct fixed; [apply sort_nat_In | tauto].
  - intros ->. apply sort_nat_inc, (ci_nodup _ _ _ _ I).
  - unfold coalesce_entries. rewrite Hc. cbn [rbind fst snd]. now rewrite delete_entries_go.
Qed.

(** [coalesce] never panics *)
Lemma coalesce_no_panic fixed es : exists r, coalesce_entries fixed es = Ok r.
Proof. destruct (coalesce_shape fixed es) as (pre & bv & dl & dl' & _ & _ & _ & H). eauto. Qed.

(** [den_commutes] for [coalesce], for the code as it is and for the repaired code:
    the result denotes the same value under every valuation *)
Lemma coalesce_denotes fixed es r v x :
  coalesce_entries fixed es = Ok r -> denotes v es x -> denotes v r x.
Proof.
  destruct (coalesce_shape fixed es) as (pre & bv & dl & dl' & I & Hdl & _ & ->).
  intros H [(e0 & He0 & Ht0) Hf]. inversion H; subst r. clear H. split.
  - (* the last entry with the value of [e0] is kept and true *)
    destruct e0 as [g0 x0]. cbn [fst snd] in *.
    assert (Hx : x0 = x) by (now apply (Hf (g0, x0))). subst x0.
    destruct (lookup_value x bv) as [p |] eqn:L.
    + destruct (ci_last _ _ _ _ I x p L) as [(g & Np & Hg) Hp].
      exists (g, x). split.
      * apply (delete_go_keep pre dl' 0 p (g, x) Np). cbn. now rewrite Hdl.
      * cbn. rewrite Hg. now apply (orv_intro v es g0 x).
    + exfalso. now apply (ci_none _ _ _ _ I x L (g0, x) He0).
  - intros [g y] He Ht. cbn [fst snd] in *. apply delete_go_In in He.
    apply In_nth_error in He. destruct He as [i Hi].
    pose proof (ci_sound _ _ _ _ I v i g y Hi Ht) as Ho.
    apply orv_true in Ho. destruct Ho as (g1 & Hin & Ht1). now apply (Hf (g1, y)).
Qed.

(** with the repair all values of the result are different ... *)
Lemma coalesce_fixed_values_distinct es r :
  coalesce_entries true es = Ok r -> NoDup (map snd r).
Proof.
  destruct (coalesce_shape true es) as (pre & bv & dl & dl' & I & Hdl & Hinc & ->).
  intros H. inversion H; subst r. clear H.
  apply delete_go_nodup; [now apply Hinc |].
  intros i j [g1 x1] [g2 x2] Hi Hj Hni Hnj He. cbn in He, Hni, Hnj. subst x2.
  rewrite Hdl in Hni, Hnj.
  destruct (ci_cover _ _ _ _ I i g1 x1 Hi) as [? | Li]; [contradiction |].
  destruct (ci_cover _ _ _ _ I j g2 x1 Hj) as [? | Lj]; [contradiction |].
  congruence.
Qed.

(** ... and the partition is preserved *)
Lemma coalesce_fixed_partition es r v :
  coalesce_entries true es = Ok r -> count_true v es = 1 -> count_true v r = 1.
Proof.
  intros H Hc. destruct (count1_denotes v es Hc) as [x Hx].
  apply (denotes_nodup_count v r x).
  - now apply (coalesce_denotes true es).
  - now apply (coalesce_fixed_values_distinct es).
Qed.

(** the code as it is agrees with the repaired code whenever the delete list it builds
    happens to be sorted *)
Lemma coalesce_current_sorted es pre dl :
  co_loop [] [] [] es = Ok (pre, dl) -> sort_nat dl = dl ->
  coalesce_entries false es = coalesce_entries true es.
Proof. intros Hc Hs. unfold coalesce_entries. rewrite Hc. cbn [rbind snd]. now rewrite Hs. Qed.
