(** * Proofs/WitnessIOProofs.v — the reader's state machine inverts the printer. *)
From Coq Require Import Decimal DecimalN.
From Coq Require Import NArith Ascii String Bool List Lia PeanoNat.
From Patronus Require Import WitnessIO WitnessTextLemmas.
Import ListNotations.
Open Scope N_scope.

(* ------------------------------------------------------------------------- set_at / get_at *)
Lemma get_at_nil : forall (A : Type) (d : A) i, get_at d [] i = d.
Proof. intros A d i. unfold get_at. destruct i; reflexivity. Qed.

Lemma get_at_beyond : forall (A : Type) (d : A) l i, (length l <= i)%nat -> get_at d l i = d.
Proof. intros A d l i H. unfold get_at. apply nth_overflow. exact H. Qed.

Lemma get_at_set_at : forall (A : Type) (d : A) l i x, get_at d (set_at d l i x) i = x.
Proof.
  intros A d l i. revert l. unfold get_at.
  induction i as [|i IH]; intros [|y l] x; cbn [set_at nth]; try reflexivity; apply IH.
Qed.

Lemma get_at_set_at_other : forall (A : Type) (d : A) l i j x, i <> j -> get_at d (set_at d l i x) j = get_at d l j.
Proof.
  intros A d l i. revert l. unfold get_at.
  induction i as [|i IH]; intros [|y l] j x Hne; destruct j as [|j]; cbn [set_at nth]; try reflexivity; try contradiction.
  - destruct j; reflexivity.
  - rewrite (IH [] j x ltac:(intro; subst; apply Hne; reflexivity)). destruct j; reflexivity.
  - apply IH. intro; subst; apply Hne; reflexivity.
Qed.

Lemma set_at_set_at : forall (A : Type) (d : A) l i x y, set_at d (set_at d l i x) i y = set_at d l i y.
Proof.
  intros A d l i. revert l.
  induction i as [|i IH]; intros [|z l] x y; cbn [set_at]; try reflexivity; f_equal; apply IH.
Qed.

Lemma set_at_length_append : forall (A : Type) (d : A) l x, set_at d l (length l) x = l ++ [x].
Proof.
  intros A d l x. induction l as [|y l IH]; cbn [length set_at app]; [reflexivity|]. f_equal. exact IH.
Qed.

Lemma set_at_length : forall (A : Type) (d : A) l i x, length (set_at d l i x) = Nat.max (length l) (S i).
Proof.
  intros A d l i. revert l.
  induction i as [|i IH]; intros [|y l] x; cbn [set_at length]; try reflexivity.
  - destruct (length l); reflexivity.
  - rewrite (IH [] x). cbn [length]. reflexivity.
  - rewrite (IH l x). reflexivity.
Qed.

Lemma set_at_append_eq : forall (A : Type) (d : A) l i x, length l = i -> set_at d l i x = l ++ [x].
Proof. intros A d l i x H. subst i. apply set_at_length_append. Qed.

(* ------------------------------------------------------------------------- the run relation *)
Definition steps_to (pm : N) (s : pst) (lines : list str) (s' : pst) : Prop :=
  forall rest, wrun pm s (lines ++ rest) = wrun pm s' rest.

Lemma steps_nil : forall pm s, steps_to pm s [] s.
Proof. intros pm s rest. reflexivity. Qed.

Lemma steps_app : forall pm s l1 s1 l2 s2,
  steps_to pm s l1 s1 -> steps_to pm s1 l2 s2 -> steps_to pm s (l1 ++ l2) s2.
Proof.
  intros pm s l1 s1 l2 s2 H1 H2 rest. rewrite <- app_assoc. rewrite (H1 (l2 ++ rest)). apply H2.
Qed.

Lemma steps_cons : forall pm s l s1 ls s2,
  steps_to pm s [l] s1 -> steps_to pm s1 ls s2 -> steps_to pm s (l :: ls) s2.
Proof. intros. change (l :: ls) with ([l] ++ ls). eapply steps_app; eassumption. Qed.

Lemma steps_one : forall pm s l s',
  trim l = l -> skip_line l = false -> wstep pm s l = StCont s' -> steps_to pm s [l] s'.
Proof.
  intros pm s l s' Ht Hs Hw rest. cbn [app wrun]. rewrite Ht, Hs, Hw. reflexivity.
Qed.

(* ------------------------------------------------------------------------- shape of printed lines *)
(** starts with a decimal digit *)
Definition digit_first (l : str) : Prop := exists c r, l = c :: r /\ is_digit c = true.
(** ends with a character that is not white space *)
Definition plain_last (l : str) : Prop := exists m e, l = m ++ [e] /\ is_ws e = false.

Lemma digit_first_app : forall a b, digit_first a -> digit_first (a ++ b).
Proof. intros a b [c [r [E H]]]. subst a. exists c, (r ++ b). split; [reflexivity|exact H]. Qed.

Lemma plain_last_app : forall a b, plain_last b -> plain_last (a ++ b).
Proof. intros a b [m [e [E H]]]. subst b. exists (a ++ m), e. split; [apply app_assoc|exact H]. Qed.

Lemma plain_last_cons : forall c b, plain_last b -> plain_last (c :: b).
Proof. intros c b H. change (c :: b) with ([c] ++ b). apply plain_last_app. exact H. Qed.

Lemma print_dec_digit_first : forall n, digit_first (print_dec n).
Proof.
  intros n. pose proof (print_dec_nonempty n) as Hne. pose proof (print_dec_digits n) as Hd.
  destruct (print_dec n) as [|c r]; [contradiction|].
  cbn [forallb] in Hd. apply andb_true_iff in Hd. destruct Hd as [Hc _].
  exists c, r. split; [reflexivity|exact Hc].
Qed.

Lemma plain_last_of_plain : forall s, s <> [] -> forallb plain_char s = true -> plain_last s.
Proof.
  intros s Hne Hp. destruct (exists_last Hne) as [m [e E]]. exists m, e. split; [exact E|].
  subst s. rewrite forallb_app in Hp. apply andb_true_iff in Hp. destruct Hp as [_ He].
  cbn [forallb] in He. apply andb_true_iff in He. destruct He as [He _].
  apply plain_char_not_ws. exact He.
Qed.

Lemma print_dec_plain_last : forall n, plain_last (print_dec n).
Proof. intros n. apply plain_last_of_plain; [apply print_dec_nonempty|apply print_dec_plain]. Qed.

Lemma digit_not_ws : forall c, is_digit c = true -> is_ws c = false.
Proof. intros c H. apply plain_char_not_ws. apply digit_plain. exact H. Qed.

Lemma trim_shape : forall l, (exists c r, l = c :: r /\ is_ws c = false) -> plain_last l -> trim l = l.
Proof.
  intros l [c [r [E Hc]]] [m [e [E2 He]]]. apply trim_id_ends.
  - subst l. discriminate.
  - intros c' r' E'. rewrite E in E'. inversion E'. subst. exact Hc.
  - intros m' l' E'. rewrite E2 in E'. apply app_inj_tail in E'. destruct E' as [_ E']. subst. exact He.
Qed.

Lemma digit_line_trim : forall l, digit_first l -> plain_last l -> trim l = l.
Proof.
  intros l [c [r [E Hc]]] Hl. apply trim_shape; [|exact Hl].
  exists c, r. split; [exact E|apply digit_not_ws; exact Hc].
Qed.

Lemma digit_line_skip : forall l, digit_first l -> skip_line l = false.
Proof.
  intros l [c [r [E Hc]]]. subst l. cbn [skip_line].
  destruct c as [[|] [|] [|] [|] [|] [|] [|] [|]]; cbn in Hc; try discriminate; reflexivity.
Qed.

Lemma digit_line_not_dot : forall l, digit_first l -> str_eqb l (lit ".") = false.
Proof.
  intros l [c [r [E Hc]]]. subst l.
  destruct c as [[|] [|] [|] [|] [|] [|] [|] [|]]; cbn in Hc; try discriminate; reflexivity.
Qed.

Lemma digit_line_not_at : forall l, digit_first l -> starts_with ch_at l = false.
Proof.
  intros l [c [r [E Hc]]]. subst l.
  destruct c as [[|] [|] [|] [|] [|] [|] [|] [|]]; cbn in Hc; try discriminate; reflexivity.
Qed.

Lemma digit_line_not_hash : forall l, digit_first l -> starts_with ch_hash l = false.
Proof.
  intros l [c [r [E Hc]]]. subst l.
  destruct c as [[|] [|] [|] [|] [|] [|] [|] [|]]; cbn in Hc; try discriminate; reflexivity.
Qed.

(** the printed suffixes "#0" and "@k" *)
Definition suffix_ok (suffix : str) : Prop :=
  exists c r, suffix = c :: r /\ (Ascii.eqb c ch_at || Ascii.eqb c ch_hash = true) /\
              forallb plain_char r = true /\ r <> [] /\ tok_char c = true.

Lemma suffix_hash0 : suffix_ok (lit "#0").
Proof. exists ch_hash, (lit "0"). repeat split; try reflexivity. discriminate. Qed.

Lemma suffix_at : forall k, suffix_ok (ch_at :: print_dec k).
Proof.
  intros k. exists ch_at, (print_dec k). repeat split; try reflexivity.
  - apply print_dec_plain.
  - apply print_dec_nonempty.
Qed.

Lemma suffix_plain_last : forall name suffix, suffix_ok suffix -> plain_last (name ++ suffix).
Proof.
  intros name suffix [c [r [E [_ [Hp [Hne _]]]]]]. subst suffix.
  apply plain_last_app. apply plain_last_cons. apply plain_last_of_plain; assumption.
Qed.

Lemma suffix_clean : forall name suffix,
  forallb name_char_ok name = true -> suffix_ok suffix -> clean (name ++ suffix) /\ name ++ suffix <> [].
Proof.
  intros name suffix Hn [c [r [E [_ [Hp [_ Hc]]]]]]. subst suffix. split.
  - unfold clean. rewrite forallb_app. rewrite (names_clean name Hn). cbn [forallb andb].
    rewrite Hc. cbn [andb]. apply plain_clean. exact Hp.
  - destruct name; discriminate.
Qed.

Lemma suffix_strip : forall name suffix,
  forallb name_char_ok name = true -> suffix_ok suffix -> strip_name (name ++ suffix) = name.
Proof.
  intros name suffix Hn [c [r [E [Hc _]]]]. subst suffix. apply strip_name_suffix; assumption.
Qed.

(* ------------------------------------------------------------------------- data lines *)
Lemma bv_line_eq : forall id v name suffix,
  bv_line id v name suffix = print_dec (N.of_nat id) ++ ch_sp :: print_bits v ++ ch_sp :: (name ++ suffix).
Proof. reflexivity. Qed.

Lemma arr_line_eq : forall id i d name suffix,
  arr_line id i d name suffix =
  print_dec (N.of_nat id) ++ ch_sp :: ("["%char :: print_bits i ++ ["]"%char]) ++ ch_sp :: print_bits d ++ ch_sp :: (name ++ suffix).
Proof. reflexivity. Qed.

Lemma bv_line_digit_first : forall id v name suffix, digit_first (bv_line id v name suffix).
Proof. intros. rewrite bv_line_eq. apply digit_first_app. apply print_dec_digit_first. Qed.

Lemma arr_line_digit_first : forall id i d name suffix, digit_first (arr_line id i d name suffix).
Proof. intros. rewrite arr_line_eq. apply digit_first_app. apply print_dec_digit_first. Qed.

Lemma bv_line_plain_last : forall id v name suffix, suffix_ok suffix -> plain_last (bv_line id v name suffix).
Proof.
  intros. rewrite bv_line_eq. apply plain_last_app. apply plain_last_cons. apply plain_last_app.
  apply plain_last_cons. apply suffix_plain_last. assumption.
Qed.

Lemma arr_line_plain_last : forall id i d name suffix, suffix_ok suffix -> plain_last (arr_line id i d name suffix).
Proof.
  intros. rewrite arr_line_eq. apply plain_last_app. apply plain_last_cons. apply plain_last_app.
  apply plain_last_cons. apply plain_last_app. apply plain_last_cons. apply suffix_plain_last. assumption.
Qed.

Lemma dec_token : forall n, clean (print_dec n) /\ print_dec n <> [].
Proof. intros n. split; [apply plain_clean; apply print_dec_plain|apply print_dec_nonempty]. Qed.

Lemma bits_token : forall b, b <> [] -> clean (print_bits b) /\ print_bits b <> [].
Proof. intros b H. split; [apply plain_clean; apply print_bits_plain|apply print_bits_nonempty; exact H]. Qed.

Lemma bracket_token : forall b, clean ("["%char :: print_bits b ++ ["]"%char]) /\ "["%char :: print_bits b ++ ["]"%char] <> [].
Proof.
  intros b. split; [|discriminate]. unfold clean. cbn [forallb]. rewrite forallb_app.
  rewrite (plain_clean _ (print_bits_plain b)). reflexivity.
Qed.

Lemma tokenize_bv_line : forall id v name suffix,
  v <> [] -> forallb name_char_ok name = true -> suffix_ok suffix ->
  tokenize (bv_line id v name suffix) = [print_dec (N.of_nat id); print_bits v; name ++ suffix].
Proof.
  intros id v name suffix Hv Hn Hs. unfold bv_line. apply tokenize_join_sp.
  repeat constructor; try apply dec_token; try (apply bits_token; exact Hv);
    try (apply suffix_clean; assumption).
Qed.

Lemma tokenize_arr_line : forall id i d name suffix,
  d <> [] -> forallb name_char_ok name = true -> suffix_ok suffix ->
  tokenize (arr_line id i d name suffix) =
  [print_dec (N.of_nat id); "["%char :: print_bits i ++ ["]"%char]; print_bits d; name ++ suffix].
Proof.
  intros id i d name suffix Hd Hn Hs. unfold arr_line. apply tokenize_join_sp.
  repeat constructor; try apply dec_token; try apply bracket_token; try (apply bits_token; exact Hd);
    try (apply suffix_clean; assumption).
Qed.

Lemma parse_assignment_bv_line : forall id v name suffix,
  N.of_nat id < 2 ^ 64 -> v <> [] -> forallb name_char_ok name = true -> suffix_ok suffix ->
  parse_assignment (tokenize (bv_line id v name suffix)) = WOk (N.of_nat id, name, IVBitVec v).
Proof.
  intros id v name suffix Hid Hv Hn Hs. rewrite tokenize_bv_line by assumption.
  unfold parse_assignment. rewrite (parse_u64_print_dec _ Hid). rewrite (parse_bits_print v Hv).
  rewrite (suffix_strip name suffix Hn Hs). reflexivity.
Qed.

Lemma parse_assignment_arr_line : forall id i d name suffix,
  N.of_nat id < 2 ^ 64 -> i <> [] -> d <> [] -> forallb name_char_ok name = true -> suffix_ok suffix ->
  parse_assignment (tokenize (arr_line id i d name suffix)) =
  WOk (N.of_nat id, name, IVArray (av_store (av_new (length i) (repeat false (length d))) i d) [i]).
Proof.
  intros id i d name suffix Hid Hi Hd Hn Hs. rewrite tokenize_arr_line by assumption.
  unfold parse_assignment. rewrite (parse_u64_print_dec _ Hid). rewrite unbracket_bracket.
  rewrite (parse_bits_print i Hi). rewrite (parse_bits_print d Hd).
  rewrite (suffix_strip name suffix Hn Hs). reflexivity.
Qed.

(* ------------------------------------------------------------------------- pure form of the printer *)
Definition array_lines (a : array_value) (id : nat) (name suffix : str) (idxs : list bits) : list str :=
  map (fun i => arr_line id i (av_select a i) name suffix) idxs.

Definition init_value_lines (v : init_value) (name : str) (id : nat) : list str :=
  match v with
  | IVBitVec b => [bv_line id b name (lit "#0")]
  | IVArray a indices => array_lines a id name (lit "#0") (sort_indices indices)
  | IVNone => []
  end.

Fixpoint state_lines (vals : list init_value) (names : list (option str)) (id : nat) : list str :=
  match vals, names with
  | v :: vals', n :: names' =>
      init_value_lines v (display_name (lit "state_") n id) id ++ state_lines vals' names' (S id)
  | _, _ => []
  end.

Lemma print_array_lines_ok : forall a id name suffix idxs,
  (av_iw a <= 64)%nat ->
  print_array_lines a id name suffix idxs = WOk (array_lines a id name suffix idxs).
Proof.
  intros a id name suffix idxs Hiw. induction idxs as [|i r IH]; [reflexivity|].
  cbn [print_array_lines]. unfold av_select_impl, baa_lookup_panics.
  replace (Nat.ltb 64 (av_iw a)) with false by (symmetry; apply Nat.ltb_ge; exact Hiw).
  cbn [andb wbind]. rewrite IH. reflexivity.
Qed.

Lemma insert_sorted_in : forall x y l, In x (insert_sorted y l) -> x = y \/ In x l.
Proof.
  intros x y l. induction l as [|z l IH]; cbn [insert_sorted].
  - intros [H|[]]. left. symmetry. exact H.
  - destruct (bits_val y <=? bits_val z).
    + intros [H|H]; [left; symmetry; exact H|right; exact H].
    + intros [H|H]; [right; left; exact H|].
      destruct (IH H) as [H'|H']; [left; exact H'|right; right; exact H'].
Qed.

Lemma sort_indices_in : forall x l, In x (sort_indices l) -> In x l.
Proof.
  intros x l. induction l as [|y l IH]; cbn [sort_indices fold_right]; [intros []|].
  intros H. apply insert_sorted_in in H. destruct H as [H|H]; [left; symmetry; exact H|right; apply IH; exact H].
Qed.

Lemma in_insert_sorted : forall x y l, x = y \/ In x l -> In x (insert_sorted y l).
Proof.
  intros x y l. induction l as [|z l IH]; cbn [insert_sorted].
  - intros [H|[]]. left. symmetry. exact H.
  - destruct (bits_val y <=? bits_val z).
    + intros [H|H]; [left; symmetry; exact H|right; exact H].
    + intros [H|[H|H]]; [right; apply IH; left; exact H|left; exact H|right; apply IH; right; exact H].
Qed.

Lemma in_sort_indices : forall x l, In x l -> In x (sort_indices l).
Proof.
  intros x l. induction l as [|y l IH]; cbn [sort_indices fold_right]; [intros []|].
  intros [H|H]; apply in_insert_sorted; [left; symmetry; exact H|right; apply IH; exact H].
Qed.

(* ------------------------------------------------------------------------- arrays *)
Lemma assoc_bits_in : forall i l d, assoc_bits i l = Some d -> In (i, d) l.
Proof.
  intros i l. induction l as [|[k e] l IH]; intros d H; cbn [assoc_bits] in H; [discriminate|].
  destruct (bits_eqb i k) eqn:E.
  - apply bits_eqb_eq in E. subst k. inversion H. subst. left. reflexivity.
  - right. apply IH. exact H.
Qed.

Lemma array_ok_select_length : forall a i, array_ok a = true -> length (av_select a i) = av_dw a.
Proof.
  intros a i H. unfold array_ok in H. apply andb_true_iff in H. destruct H as [_ H].
  unfold av_select. destruct (assoc_bits i (av_entries a)) as [d|] eqn:E; [|reflexivity].
  apply assoc_bits_in in E. rewrite forallb_forall in H. specialize (H _ E). cbn [fst snd] in H.
  apply andb_true_iff in H. destruct H as [_ H]. apply Nat.eqb_eq in H. exact H.
Qed.

Lemma array_ok_dw_pos : forall a, array_ok a = true -> av_dw a <> O.
Proof.
  intros a H. unfold array_ok in H. apply andb_true_iff in H. destruct H as [H _].
  unfold av_dw. destruct (av_default a); [discriminate|discriminate].
Qed.

Lemma length_nonempty : forall (A : Type) (l : list A) n, length l = n -> n <> O -> l <> [].
Proof. intros A l n H Hn E. subst l. cbn in H. congruence. Qed.

Lemma select_fresh : forall iw default i d, av_select (av_store (av_new iw default) i d) i = d.
Proof. intros. unfold av_select, av_store, av_new. cbn [av_entries assoc_bits]. rewrite bits_eqb_refl. reflexivity. Qed.

(* ------------------------------------------------------------------------- state frame *)
Definition st_states (out : list btor_witness) (init : list init_value) (names : list (option str))
           (inps : list (list (option wvalue))) (innames : list (option str)) (failed : list N)
           (ins : list (option wvalue)) : pst :=
  mk_pst (PParsingStatesAt 0) out (mk_btor_witness init names inps innames failed) ins.

Lemma step_state_line : forall pm out init names inps innames failed ins l id name v v',
  digit_first l -> plain_last l ->
  parse_assignment (tokenize l) = WOk (N.of_nat id, name, v) ->
  update_value (get_at IVNone init id) v = WOk v' ->
  steps_to pm (st_states out init names inps innames failed ins) [l]
              (st_states out (set_at IVNone init id v') (set_at None names id (Some name)) inps innames failed ins).
Proof.
  intros pm out init names inps innames failed ins l id name v v' Hd Hp Hpa Hu.
  apply steps_one.
  - apply digit_line_trim; assumption.
  - apply digit_line_skip; assumption.
  - unfold wstep, st_states. cbn [ps_state ps_wit ps_out ps_inputs].
    rewrite (digit_line_not_dot l Hd). rewrite (digit_line_not_at l Hd).
    change (0 =? 0) with true. cbv iota. rewrite Hpa. rewrite Nat2N.id.
    cbn [w_init w_init_names w_inputs w_input_names w_failed]. rewrite Hu. reflexivity.
Qed.

Lemma step_state_bv : forall pm out init names inps innames failed ins id v name,
  N.of_nat id < 2 ^ 64 -> v <> [] -> forallb name_char_ok name = true ->
  get_at IVNone init id = IVNone ->
  steps_to pm (st_states out init names inps innames failed ins) [bv_line id v name (lit "#0")]
              (st_states out (set_at IVNone init id (IVBitVec v)) (set_at None names id (Some name)) inps innames failed ins).
Proof.
  intros. eapply step_state_line.
  - apply bv_line_digit_first.
  - apply bv_line_plain_last. apply suffix_hash0.
  - apply parse_assignment_bv_line; try assumption. apply suffix_hash0.
  - rewrite H2. reflexivity.
Qed.

Definition fresh_array (i d : bits) : array_value :=
  av_store (av_new (length i) (repeat false (length d))) i d.

Lemma step_state_arr_first : forall pm out init names inps innames failed ins id i d name,
  N.of_nat id < 2 ^ 64 -> i <> [] -> d <> [] -> forallb name_char_ok name = true ->
  get_at IVNone init id = IVNone ->
  steps_to pm (st_states out init names inps innames failed ins) [arr_line id i d name (lit "#0")]
              (st_states out (set_at IVNone init id (IVArray (fresh_array i d) [i]))
                         (set_at None names id (Some name)) inps innames failed ins).
Proof.
  intros. eapply step_state_line.
  - apply arr_line_digit_first.
  - apply arr_line_plain_last. apply suffix_hash0.
  - apply parse_assignment_arr_line; try assumption. apply suffix_hash0.
  - rewrite H3. reflexivity.
Qed.

Lemma update_array_next : forall oa oi i d,
  (av_iw oa <= 64)%nat -> length i = av_iw oa -> length d = av_dw oa ->
  update_value (IVArray oa oi) (IVArray (fresh_array i d) [i]) =
  WOk (IVArray (av_store oa i d) (ins_dedup i oi)).
Proof.
  intros oa oi i d Hiw Hi Hd. unfold update_value, store_all, av_select_impl.
  assert (Hno : forall a, av_iw a = length i -> baa_lookup_panics a i = false).
  { intros a Ha. unfold baa_lookup_panics.
    replace (Nat.ltb 64 (av_iw a)) with false; [reflexivity|].
    symmetry. apply Nat.ltb_ge. rewrite Ha, Hi. exact Hiw. }
  rewrite (Hno (fresh_array i d)) by reflexivity.
  unfold fresh_array at 1. rewrite select_fresh. cbn [wbind].
  unfold av_store_checked. rewrite Hi, Hd, !Nat.eqb_refl. cbn [andb].
  rewrite (Hno oa) by (symmetry; exact Hi). rewrite andb_false_r. cbn [wbind].
  reflexivity.
Qed.

Lemma step_state_arr_next : forall pm out init0 names0 inps innames failed ins id oa oi i d name,
  N.of_nat id < 2 ^ 64 -> i <> [] -> d <> [] -> forallb name_char_ok name = true ->
  (av_iw oa <= 64)%nat -> length i = av_iw oa -> length d = av_dw oa ->
  steps_to pm (st_states out (set_at IVNone init0 id (IVArray oa oi)) (set_at None names0 id (Some name)) inps innames failed ins)
              [arr_line id i d name (lit "#0")]
              (st_states out (set_at IVNone init0 id (IVArray (av_store oa i d) (ins_dedup i oi)))
                         (set_at None names0 id (Some name)) inps innames failed ins).
Proof.
  intros pm out init0 names0 inps innames failed ins id oa oi i d name Hid Hi Hd Hn Hiw Hli Hld.
  pose proof (step_state_line pm out (set_at IVNone init0 id (IVArray oa oi)) (set_at None names0 id (Some name))
                inps innames failed ins (arr_line id i d name (lit "#0")) id name
                (IVArray (fresh_array i d) [i]) (IVArray (av_store oa i d) (ins_dedup i oi))) as H.
  rewrite !set_at_set_at in H. apply H.
  - apply arr_line_digit_first.
  - apply arr_line_plain_last. apply suffix_hash0.
  - apply parse_assignment_arr_line; try assumption. apply suffix_hash0.
  - rewrite get_at_set_at. apply update_array_next; assumption.
Qed.

Lemma steps_array_rest : forall pm out init0 names0 inps innames failed ins id a name rest oa oi,
  N.of_nat id < 2 ^ 64 -> forallb name_char_ok name = true ->
  (av_iw oa <= 64)%nat -> av_dw oa <> O ->
  (forall i, In i rest -> i <> [] /\ length i = av_iw oa /\ length (av_select a i) = av_dw oa) ->
  steps_to pm (st_states out (set_at IVNone init0 id (IVArray oa oi)) (set_at None names0 id (Some name)) inps innames failed ins)
              (array_lines a id name (lit "#0") rest)
              (st_states out (set_at IVNone init0 id
                                (IVArray (fold_left (fun acc i => av_store acc i (av_select a i)) rest oa)
                                         (fold_left (fun acc i => ins_dedup i acc) rest oi)))
                         (set_at None names0 id (Some name)) inps innames failed ins).
Proof.
  intros pm out init0 names0 inps innames failed ins id a name rest.
  induction rest as [|i rest IH]; intros oa oi Hid Hn Hiw Hdw Hall.
  - cbn [array_lines map fold_left]. apply steps_nil.
  - cbn [array_lines map fold_left]. fold (array_lines a id name (lit "#0") rest).
    destruct (Hall i (or_introl eq_refl)) as [Hi [Hli Hld]].
    eapply steps_cons.
    + apply step_state_arr_next; try assumption.
      apply (length_nonempty _ _ _ Hld Hdw).
    + apply IH; try assumption.
      intros j Hj. apply Hall. right. exact Hj.
Qed.

(* ------------------------------------------------------------------------- one state, all states *)
Lemma display_name_ok : forall prefix n id,
  forallb name_char_ok prefix = true -> name_ok n = true ->
  forallb name_char_ok (display_name prefix n id) = true.
Proof.
  intros prefix n id Hp Hn. destruct n as [s|]; cbn [display_name name_ok] in *; [exact Hn|].
  rewrite forallb_app. rewrite Hp. cbn [andb].
  apply (forallb_impl _ plain_char); [apply plain_char_name|apply print_dec_plain].
Qed.

Lemma all_width_in : forall n l i, all_width n l = true -> In i l -> length i = n.
Proof.
  intros n l i H Hin. unfold all_width in H. rewrite forallb_forall in H.
  apply Nat.eqb_eq. apply H. exact Hin.
Qed.

Lemma steps_state_value : forall pm out inps innames failed ins v name id init0 names0,
  init_value_ok v = true -> small_index v = true -> N.of_nat id < 2 ^ 64 ->
  forallb name_char_ok name = true -> get_at IVNone init0 id = IVNone ->
  steps_to pm (st_states out init0 names0 inps innames failed ins) (init_value_lines v name id)
    (match canon_value v with
     | IVNone => st_states out init0 names0 inps innames failed ins
     | cv => st_states out (set_at IVNone init0 id cv) (set_at None names0 id (Some name)) inps innames failed ins
     end).
Proof.
  intros pm out inps innames failed ins v name id init0 names0 Hok Hsmall Hid Hn Hget.
  destruct v as [b|a indices|].
  - cbn [init_value_lines canon_value]. cbn [init_value_ok] in Hok.
    apply step_state_bv; try assumption. destruct b; [discriminate|discriminate].
  - cbn [init_value_lines canon_value]. unfold canon_array.
    cbn [init_value_ok] in Hok. cbn [small_index] in Hsmall.
    apply andb_true_iff in Hok. destruct Hok as [Hok Hw].
    apply andb_true_iff in Hok. destruct Hok as [Haok Hiw0].
    apply negb_true_iff in Hiw0. apply Nat.eqb_neq in Hiw0. apply Nat.leb_le in Hsmall.
    assert (Hidx : forall i, In i (sort_indices indices) ->
                   i <> [] /\ length i = av_iw a /\ length (av_select a i) = av_dw a).
    { intros i Hi. apply sort_indices_in in Hi. pose proof (all_width_in _ _ _ Hw Hi) as Hl.
      split; [|split].
      - apply (length_nonempty _ _ _ Hl Hiw0).
      - exact Hl.
      - apply array_ok_select_length. exact Haok. }
    destruct (sort_indices indices) as [|i0 rest] eqn:Es.
    + cbn [array_lines map]. apply steps_nil.
    + cbn [array_lines map]. fold (array_lines a id name (lit "#0") rest).
      destruct (Hidx i0 (or_introl eq_refl)) as [Hi0 [Hli0 Hld0]].
      pose proof (array_ok_dw_pos a Haok) as Hdw.
      eapply steps_cons.
      * apply step_state_arr_first; try assumption.
        apply (length_nonempty _ _ _ Hld0 Hdw).
      * fold (fresh_array i0 (av_select a i0)).
        apply steps_array_rest; try assumption.
        -- cbn [fresh_array av_store av_new av_iw]. rewrite Hli0. exact Hsmall.
        -- unfold fresh_array, av_dw. cbn [av_store av_new av_default]. rewrite repeat_length, Hld0. exact Hdw.
        -- intros j Hj. destruct (Hidx j (or_intror Hj)) as [Hj1 [Hj2 Hj3]].
           split; [exact Hj1|]. unfold fresh_array, av_dw. cbn [av_store av_new av_iw av_default].
           rewrite repeat_length. split; congruence.
  - cbn [init_value_lines canon_value]. apply steps_nil.
Qed.

Lemma canon_value_match_length : forall v (acc : list init_value * list (option str)) id name,
  (length (fst acc) <= id)%nat ->
  (length (fst (match canon_value v with
                | IVNone => acc
                | cv => (set_at IVNone (fst acc) id cv, set_at None (snd acc) id (Some name))
                end)) <= S id)%nat.
Proof.
  intros v acc id name H.
  destruct (canon_value v); cbn [fst]; try (rewrite set_at_length; lia); lia.
Qed.

Lemma steps_states : forall pm out inps innames failed ins vals names id acc,
  length vals = length names ->
  forallb init_value_ok vals = true -> forallb small_index vals = true -> forallb name_ok names = true ->
  (length (fst acc) <= id)%nat -> N.of_nat (id + length vals) < 2 ^ 64 ->
  steps_to pm (st_states out (fst acc) (snd acc) inps innames failed ins) (state_lines vals names id)
              (st_states out (fst (canon_inits vals names id acc)) (snd (canon_inits vals names id acc))
                         inps innames failed ins).
Proof.
  intros pm out inps innames failed ins vals.
  induction vals as [|v vals IH]; intros names id acc Hlen Hok Hsmall Hnames Hacc Hbound.
  - destruct names; cbn [state_lines canon_inits]; apply steps_nil.
  - destruct names as [|n names]; [discriminate Hlen|].
    cbn [state_lines canon_inits].
    cbn [forallb] in Hok, Hsmall, Hnames.
    apply andb_true_iff in Hok. destruct Hok as [Hv Hok].
    apply andb_true_iff in Hsmall. destruct Hsmall as [Hs Hsmall].
    apply andb_true_iff in Hnames. destruct Hnames as [Hn Hnames].
    cbn [length] in Hlen, Hbound.
    eapply steps_app.
    + apply steps_state_value with (init0 := fst acc) (names0 := snd acc); try assumption.
      * lia.
      * apply display_name_ok; [reflexivity|exact Hn].
      * apply get_at_beyond. exact Hacc.
    + set (acc' := match canon_value v with
                   | IVNone => acc
                   | cv => (set_at IVNone (fst acc) id cv,
                            set_at None (snd acc) id (Some (display_name (lit "state_") n id)))
                   end).
      match goal with
      | |- steps_to _ ?s0 _ _ =>
          assert (Hst : s0 = st_states out (fst acc') (snd acc') inps innames failed ins)
            by (unfold acc'; destruct (canon_value v); reflexivity)
      end.
      rewrite Hst. apply IH; try assumption.
      * injection Hlen as Hlen. exact Hlen.
      * unfold acc'. apply canon_value_match_length. exact Hacc.
      * lia.
Qed.

(* ------------------------------------------------------------------------- input frames *)
Fixpoint input_lines (vals : list (option wvalue)) (names : list (option str)) (id : nat) (suffix : str) : list str :=
  match vals, names with
  | v :: vals', n :: names' =>
      (match v with
       | Some (WVBitVec b) => [bv_line id b (display_name (lit "input_") n id) suffix]
       | _ => []
       end) ++ input_lines vals' names' (S id) suffix
  | _, _ => []
  end.

Definition at_line (k : nat) : str := ch_at :: print_dec (N.of_nat k).

Fixpoint frame_lines (frames : list (list (option wvalue))) (names : list (option str)) (k : nat) : list str :=
  match frames with
  | [] => []
  | vals :: frames' => at_line k :: input_lines vals names 0 (at_line k) ++ frame_lines frames' names (S k)
  end.

Lemma input_value_ok_inv : forall v, input_value_ok v = true -> exists b, v = Some (WVBitVec b) /\ b <> [].
Proof.
  intros [[b|a]|] H; cbn [input_value_ok] in H; try discriminate.
  exists b. split; [reflexivity|]. destruct b; [discriminate|discriminate].
Qed.

Lemma print_input_values_ok : forall vals names id suffix,
  forallb input_value_ok vals = true ->
  print_input_values vals names id suffix = WOk (input_lines vals names id suffix).
Proof.
  induction vals as [|v vals IH]; intros names id suffix H.
  - destruct names; reflexivity.
  - destruct names as [|n names]; [reflexivity|].
    cbn [forallb] in H. apply andb_true_iff in H. destruct H as [Hv H].
    destruct (input_value_ok_inv v Hv) as [b [E _]]. subst v.
    cbn [print_input_values input_lines wbind]. rewrite (IH names (S id) suffix H). reflexivity.
Qed.

Definition frame_ok (names : list (option str)) (frame : list (option wvalue)) : bool :=
  Nat.eqb (length frame) (length names) && forallb input_value_ok frame.

Lemma print_frames_ok : forall frames names k,
  forallb (frame_ok names) frames = true ->
  print_frames frames names k = WOk (frame_lines frames names k).
Proof.
  induction frames as [|vals frames IH]; intros names k H; [reflexivity|].
  cbn [forallb] in H. apply andb_true_iff in H. destruct H as [Hf H].
  unfold frame_ok in Hf. apply andb_true_iff in Hf. destruct Hf as [Hl Hv].
  cbn [print_frames frame_lines]. rewrite Hl.
  rewrite (print_input_values_ok vals names 0 _ Hv). cbn [wbind].
  rewrite (IH names (S k) H). reflexivity.
Qed.

Definition st_inputs (k : N) (out : list btor_witness) (init : list init_value) (names : list (option str))
           (inps : list (list (option wvalue))) (innames : list (option str)) (failed : list N)
           (ins : list (option wvalue)) : pst :=
  mk_pst (PParsingInputsAt k) out (mk_btor_witness init names inps innames failed) ins.

Lemma step_input_line : forall pm k out init names inps innames failed ins id b name suffix,
  N.of_nat id < 2 ^ 64 -> b <> [] -> forallb name_char_ok name = true -> suffix_ok suffix ->
  get_at None ins id = None ->
  steps_to pm (st_inputs k out init names inps innames failed ins) [bv_line id b name suffix]
              (st_inputs k out init names inps
                         (match inps with [] => set_at None innames id (Some name) | _ => innames end)
                         failed (set_at None ins id (Some (WVBitVec b)))).
Proof.
  intros pm k out init names inps innames failed ins id b name suffix Hid Hb Hn Hs Hget.
  pose proof (bv_line_digit_first id b name suffix) as Hd.
  apply steps_one.
  - apply digit_line_trim; [exact Hd|apply bv_line_plain_last; exact Hs].
  - apply digit_line_skip; exact Hd.
  - unfold wstep, st_inputs. cbn [ps_state ps_wit ps_out ps_inputs].
    rewrite (digit_line_not_dot _ Hd), (digit_line_not_at _ Hd), (digit_line_not_hash _ Hd).
    rewrite (parse_assignment_bv_line id b name suffix Hid Hb Hn Hs). rewrite Nat2N.id.
    rewrite Hget. cbn [w_init w_init_names w_inputs w_input_names w_failed value_of_init].
    reflexivity.
Qed.

Lemma canon_names_cons : forall n names id,
  canon_names (n :: names) id = Some (display_name (lit "input_") n id) :: canon_names names (S id).
Proof. reflexivity. Qed.

(** the data lines of the first frame: the collected frame grows by the printed values and
    the names are recorded *)
Lemma steps_input_lines_first : forall pm k out init snames failed suffix vals names id pre_vals pre_names,
  suffix_ok suffix ->
  length vals = length names -> forallb input_value_ok vals = true -> forallb name_ok names = true ->
  length pre_vals = id -> length pre_names = id ->
  N.of_nat (id + length vals) < 2 ^ 64 ->
  steps_to pm (st_inputs k out init snames [] pre_names failed pre_vals)
              (input_lines vals names id suffix)
              (st_inputs k out init snames [] (pre_names ++ canon_names names id) failed (pre_vals ++ vals)).
Proof.
  intros pm k out init snames failed suffix vals.
  induction vals as [|v vals IH]; intros names id pre_vals pre_names Hs Hlen Hok Hnames Hpv Hpn Hbound.
  - destruct names; [|discriminate Hlen]. cbn [input_lines canon_names]. rewrite !app_nil_r. apply steps_nil.
  - destruct names as [|n names]; [discriminate Hlen|].
    cbn [forallb] in Hok, Hnames.
    apply andb_true_iff in Hok. destruct Hok as [Hv Hok].
    apply andb_true_iff in Hnames. destruct Hnames as [Hn Hnames].
    destruct (input_value_ok_inv v Hv) as [b [E Hb]]. subst v.
    cbn [input_lines length] in *. injection Hlen as Hlen.
    eapply steps_app.
    + apply step_input_line; try assumption.
      * lia.
      * apply display_name_ok; [reflexivity|exact Hn].
      * apply get_at_beyond. lia.
    + cbv iota.
      rewrite (set_at_append_eq _ None pre_vals id _ Hpv).
      rewrite (set_at_append_eq _ None pre_names id _ Hpn).
      specialize (IH names (S id) (pre_vals ++ [Some (WVBitVec b)])
                     (pre_names ++ [Some (display_name (lit "input_") n id)]) Hs Hlen Hok Hnames).
      rewrite <- !app_assoc in IH. cbn [app] in IH. rewrite canon_names_cons.
      apply IH.
      * rewrite app_length. cbn [length]. lia.
      * rewrite app_length. cbn [length]. lia.
      * lia.
Qed.

(** the data lines of a later frame: the names are left alone *)
Lemma steps_input_lines_later : forall pm k out init snames f0 fs innames failed suffix vals names id pre_vals,
  suffix_ok suffix ->
  length vals = length names -> forallb input_value_ok vals = true -> forallb name_ok names = true ->
  length pre_vals = id ->
  N.of_nat (id + length vals) < 2 ^ 64 ->
  steps_to pm (st_inputs k out init snames (f0 :: fs) innames failed pre_vals)
              (input_lines vals names id suffix)
              (st_inputs k out init snames (f0 :: fs) innames failed (pre_vals ++ vals)).
Proof.
  intros pm k out init snames f0 fs innames failed suffix vals.
  induction vals as [|v vals IH]; intros names id pre_vals Hs Hlen Hok Hnames Hpv Hbound.
  - destruct names; [|discriminate Hlen]. cbn [input_lines]. rewrite !app_nil_r. apply steps_nil.
  - destruct names as [|n names]; [discriminate Hlen|].
    cbn [forallb] in Hok, Hnames.
    apply andb_true_iff in Hok. destruct Hok as [Hv Hok].
    apply andb_true_iff in Hnames. destruct Hnames as [Hn Hnames].
    destruct (input_value_ok_inv v Hv) as [b [E Hb]]. subst v.
    cbn [input_lines length] in *. injection Hlen as Hlen.
    eapply steps_app.
    + apply step_input_line; try assumption.
      * lia.
      * apply display_name_ok; [reflexivity|exact Hn].
      * apply get_at_beyond. lia.
    + cbv iota.
      rewrite (set_at_append_eq _ None pre_vals id _ Hpv).
      specialize (IH names (S id) (pre_vals ++ [Some (WVBitVec b)]) Hs Hlen Hok Hnames).
      rewrite <- !app_assoc in IH. cbn [app] in IH.
      apply IH.
      * rewrite app_length. cbn [length]. lia.
      * lia.
Qed.

(* ------------------------------------------------------------------------- header lines *)
Lemma step_sat : forall pm out w ins,
  steps_to pm (mk_pst PStart out w ins) [lit "sat"] (mk_pst PWaitForProp out w ins).
Proof. intros. apply steps_one; reflexivity. Qed.

Definition prop_token (b : N) : str := "b"%char :: print_dec b.

Lemma parse_props_tokens : forall failed acc,
  forallb (fun b => b <? 2 ^ 32) failed = true ->
  parse_props (map prop_token failed) acc = WOk (acc ++ failed).
Proof.
  induction failed as [|b failed IH]; intros acc H.
  - cbn [map parse_props]. rewrite app_nil_r. reflexivity.
  - cbn [forallb] in H. apply andb_true_iff in H. destruct H as [Hb H].
    apply N.ltb_lt in Hb.
    cbn [map parse_props prop_token]. rewrite Ascii.eqb_refl.
    rewrite (parse_u32_print_dec b Hb). rewrite (IH (acc ++ [b]) H).
    rewrite <- app_assoc. reflexivity.
Qed.

Lemma prop_token_ok : forall b, clean (prop_token b) /\ prop_token b <> [].
Proof.
  intros b. split; [|discriminate]. unfold clean, prop_token. cbn [forallb].
  rewrite (plain_clean _ (print_dec_plain b)). reflexivity.
Qed.

Lemma plain_last_join_sp : forall toks,
  toks <> [] -> (forall t, In t toks -> plain_last t) -> plain_last (join_sp toks).
Proof.
  induction toks as [|t toks IH]; intros Hne H; [contradiction|].
  destruct toks as [|t2 toks'].
  - cbn [join_sp]. apply H. left. reflexivity.
  - change (join_sp (t :: t2 :: toks')) with (t ++ ch_sp :: join_sp (t2 :: toks')).
    apply plain_last_app. apply plain_last_cons. apply IH; [discriminate|].
    intros t' Ht'. apply H. right. exact Ht'.
Qed.

Lemma prop_line_shape : forall failed, failed <> [] ->
  let l := join_sp (map prop_token failed) in
  trim l = l /\ skip_line l = false.
Proof.
  intros failed Hne l.
  destruct failed as [|b failed]; [contradiction|].
  assert (Hfirst : exists r, l = "b"%char :: r).
  { unfold l. cbn [map]. destruct (map prop_token failed) as [|t2 ts].
    - exists (print_dec b). reflexivity.
    - exists (print_dec b ++ ch_sp :: join_sp (t2 :: ts)). reflexivity. }
  destruct Hfirst as [r Er]. split.
  - apply trim_shape.
    + exists "b"%char, r. split; [exact Er|reflexivity].
    + unfold l. apply plain_last_join_sp; [discriminate|].
      intros t Ht. apply in_map_iff in Ht. destruct Ht as [x [Ex _]]. subst t.
      unfold prop_token. apply plain_last_cons. apply print_dec_plain_last.
  - rewrite Er. reflexivity.
Qed.

Lemma step_props : forall pm out i n inp inn ins failed,
  failed <> [] -> forallb (fun b => b <? 2 ^ 32) failed = true ->
  steps_to pm (mk_pst PWaitForProp out (mk_btor_witness i n inp inn []) ins)
              [join_sp (map prop_token failed)]
              (mk_pst PWaitForFrame out (mk_btor_witness i n inp inn failed) ins).
Proof.
  intros pm out i n inp inn ins failed Hne Hb.
  destruct (prop_line_shape failed Hne) as [Ht Hs].
  apply steps_one; [exact Ht|exact Hs|].
  unfold wstep. cbn [ps_state ps_wit ps_out ps_inputs w_failed w_init w_init_names w_inputs w_input_names].
  rewrite tokenize_join_sp.
  - rewrite (parse_props_tokens failed [] Hb). reflexivity.
  - apply Forall_forall. intros t Ht'. apply in_map_iff in Ht'. destruct Ht' as [x [Ex _]]. subst t.
    apply prop_token_ok.
Qed.

Lemma step_hash0 : forall pm out w ins,
  steps_to pm (mk_pst PWaitForFrame out w ins) [lit "#0"] (mk_pst (PParsingStatesAt 0) out w ins).
Proof. intros. apply steps_one; reflexivity. Qed.

Lemma at_line_trim : forall k, trim (at_line k) = at_line k.
Proof.
  intros k. apply trim_shape.
  - exists ch_at, (print_dec (N.of_nat k)). split; reflexivity.
  - unfold at_line. apply plain_last_cons. apply print_dec_plain_last.
Qed.

Lemma start_inputs_at_line : forall k s,
  N.of_nat k < 2 ^ 64 -> length (w_inputs (ps_wit s)) = k ->
  start_inputs (at_line k) s = StCont (set_state s (PParsingInputsAt (N.of_nat k))).
Proof.
  intros k s Hk Hlen. unfold start_inputs, at_line. cbn [tl].
  rewrite (parse_u64_print_dec _ Hk). rewrite Hlen. rewrite N.eqb_refl. reflexivity.
Qed.

Lemma step_at_from_wait : forall pm out i n inn failed ins,
  steps_to pm (mk_pst PWaitForFrame out (mk_btor_witness i n [] inn failed) ins) [at_line 0]
              (st_inputs 0 out i n [] inn failed ins).
Proof. intros. apply steps_one; reflexivity. Qed.

Lemma step_at_from_states : forall pm out i n inn failed ins,
  steps_to pm (st_states out i n [] inn failed ins) [at_line 0] (st_inputs 0 out i n [] inn failed ins).
Proof. intros. apply steps_one; reflexivity. Qed.

Lemma step_at_from_inputs : forall pm k' out i n inps inn failed ins k,
  N.of_nat k < 2 ^ 64 -> (length inps + 1 = k)%nat ->
  steps_to pm (st_inputs k' out i n inps inn failed ins) [at_line k]
              (st_inputs (N.of_nat k) out i n (inps ++ [ins]) inn failed []).
Proof.
  intros pm k' out i n inps inn failed ins k Hk Hlen.
  apply steps_one.
  - apply at_line_trim.
  - reflexivity.
  - unfold wstep, st_inputs. cbn [ps_state].
    replace (str_eqb (at_line k) (lit ".")) with false by reflexivity.
    replace (starts_with ch_at (at_line k)) with true by reflexivity.
    rewrite start_inputs_at_line.
    + reflexivity.
    + exact Hk.
    + unfold finish_inputs. cbn [ps_wit w_inputs]. rewrite app_length. cbn [length]. exact Hlen.
Qed.

Lemma wrun_done : forall pm out w ins rest, wrun pm (mk_pst PDone out w ins) rest = WOk out.
Proof.
  intros pm out w ins rest. induction rest as [|l rest IH]; [reflexivity|].
  cbn [wrun]. destruct (skip_line (trim l)); [exact IH|reflexivity].
Qed.

Lemma run_dot_states : forall pm out i n inps inn failed ins rest,
  wrun pm (st_states out i n inps inn failed ins) (lit "." :: rest) =
  if pm <=? N.of_nat (length (out ++ [mk_btor_witness i n inps inn failed]))
  then WOk (out ++ [mk_btor_witness i n inps inn failed])
  else wrun pm (mk_pst PStart (out ++ [mk_btor_witness i n inps inn failed]) witness_default ins) rest.
Proof.
  intros. cbn [wrun]. replace (trim (lit ".")) with (lit ".") by reflexivity.
  replace (skip_line (lit ".")) with false by reflexivity.
  unfold wstep, st_states. cbn [ps_state]. replace (str_eqb (lit ".") (lit ".")) with true by reflexivity.
  unfold finish_witness. cbn [ps_out ps_wit ps_inputs].
  destruct (pm <=? N.of_nat (length (out ++ [mk_btor_witness i n inps inn failed]))); reflexivity.
Qed.

Lemma run_dot_inputs : forall pm k out i n inps inn failed ins rest,
  wrun pm (st_inputs k out i n inps inn failed ins) (lit "." :: rest) =
  if pm <=? N.of_nat (length (out ++ [mk_btor_witness i n (inps ++ [ins]) inn failed]))
  then WOk (out ++ [mk_btor_witness i n (inps ++ [ins]) inn failed])
  else wrun pm (mk_pst PStart (out ++ [mk_btor_witness i n (inps ++ [ins]) inn failed]) witness_default []) rest.
Proof.
  intros. cbn [wrun]. replace (trim (lit ".")) with (lit ".") by reflexivity.
  replace (skip_line (lit ".")) with false by reflexivity.
  unfold wstep, st_inputs. cbn [ps_state]. replace (str_eqb (lit ".") (lit ".")) with true by reflexivity.
  unfold finish_witness, finish_inputs. cbn [ps_out ps_wit ps_inputs ps_state w_init w_init_names w_inputs w_input_names w_failed].
  destruct (pm <=? N.of_nat (length (out ++ [mk_btor_witness i n (inps ++ [ins]) inn failed]))).
  - apply wrun_done.
  - reflexivity.
Qed.

(* ------------------------------------------------------------------------- all frames, then "." *)
Definition after_witness (pm : N) (out : list btor_witness) (w : btor_witness) (rest : list str)
  : wres (list btor_witness) :=
  if pm <=? N.of_nat (length (out ++ [w])) then WOk (out ++ [w])
  else wrun pm (mk_pst PStart (out ++ [w]) witness_default []) rest.

Lemma run_frames : forall pm out ci cn failed names later f k done inn rest,
  forallb name_ok names = true ->
  forallb (frame_ok names) (f :: later) = true ->
  length done = k ->
  inn = match done with [] => [] | _ => canon_names names 0 end ->
  N.of_nat (length names) < 2 ^ 64 -> N.of_nat (k + length later) < 2 ^ 64 ->
  wrun pm (st_inputs (N.of_nat k) out ci cn done inn failed [])
       (input_lines f names 0 (at_line k) ++ frame_lines later names (S k) ++ lit "." :: rest) =
  after_witness pm out (mk_btor_witness ci cn (done ++ f :: later) (canon_names names 0) failed) rest.
Proof.
  intros pm out ci cn failed names later.
  induction later as [|f' later IH]; intros f k done inn rest Hnames Hframes Hdone Hinn Hnb Hkb.
  - cbn [forallb] in Hframes. apply andb_true_iff in Hframes. destruct Hframes as [Hf _].
    unfold frame_ok in Hf. apply andb_true_iff in Hf. destruct Hf as [Hl Hv]. apply Nat.eqb_eq in Hl.
    cbn [frame_lines app].
    assert (Hsteps : steps_to pm (st_inputs (N.of_nat k) out ci cn done inn failed [])
                                 (input_lines f names 0 (at_line k))
                                 (st_inputs (N.of_nat k) out ci cn done (canon_names names 0) failed f)).
    { destruct done as [|d0 ds].
      - subst inn.
        pose proof (steps_input_lines_first pm (N.of_nat k) out ci cn failed (at_line k) f names 0 [] []
                      (suffix_at (N.of_nat k)) Hl Hv Hnames eq_refl eq_refl) as H.
        cbn [app] in H. apply H. cbn [Nat.add]. rewrite Hl. exact Hnb.
      - subst inn.
        pose proof (steps_input_lines_later pm (N.of_nat k) out ci cn d0 ds (canon_names names 0) failed (at_line k) f names 0 []
                      (suffix_at (N.of_nat k)) Hl Hv Hnames eq_refl) as H.
        cbn [app] in H. apply H. cbn [Nat.add]. rewrite Hl. exact Hnb. }
    rewrite (Hsteps (lit "." :: rest)). rewrite run_dot_inputs. reflexivity.
  - cbn [forallb] in Hframes. apply andb_true_iff in Hframes. destruct Hframes as [Hf Hlater].
    unfold frame_ok in Hf. apply andb_true_iff in Hf. destruct Hf as [Hl Hv]. apply Nat.eqb_eq in Hl.
    cbn [frame_lines].
    assert (Hsteps : steps_to pm (st_inputs (N.of_nat k) out ci cn done inn failed [])
                                 (input_lines f names 0 (at_line k))
                                 (st_inputs (N.of_nat k) out ci cn done (canon_names names 0) failed f)).
    { destruct done as [|d0 ds].
      - subst inn.
        pose proof (steps_input_lines_first pm (N.of_nat k) out ci cn failed (at_line k) f names 0 [] []
                      (suffix_at (N.of_nat k)) Hl Hv Hnames eq_refl eq_refl) as H.
        cbn [app] in H. apply H. cbn [Nat.add]. rewrite Hl. exact Hnb.
      - subst inn.
        pose proof (steps_input_lines_later pm (N.of_nat k) out ci cn d0 ds (canon_names names 0) failed (at_line k) f names 0 []
                      (suffix_at (N.of_nat k)) Hl Hv Hnames eq_refl) as H.
        cbn [app] in H. apply H. cbn [Nat.add]. rewrite Hl. exact Hnb. }
    rewrite (Hsteps _).
    cbn [length] in Hkb.
    pose proof (step_at_from_inputs pm (N.of_nat k) out ci cn done (canon_names names 0) failed f (S k)) as Hat.
    change (at_line (S k) :: input_lines f' names 0 (at_line (S k)) ++ frame_lines later names (S (S k)))
      with ([at_line (S k)] ++ (input_lines f' names 0 (at_line (S k)) ++ frame_lines later names (S (S k)))).
    rewrite <- app_assoc. rewrite Hat; [|lia|lia].
    rewrite <- app_assoc.
    rewrite (IH f' (S k) (done ++ [f]) (canon_names names 0) rest Hnames Hlater).
    + rewrite <- app_assoc. reflexivity.
    + rewrite app_length. cbn [length]. lia.
    + destruct done; reflexivity.
    + exact Hnb.
    + replace (S k + length later)%nat with (k + S (length later))%nat by lia. exact Hkb.
Qed.

(* ------------------------------------------------------------------------- one witness *)
Definition witness_lines (w : btor_witness) : list str :=
  lit "sat" :: join_sp (map prop_token (w_failed w)) ::
  (match w_init w with [] => [] | _ => lit "#0" :: state_lines (w_init w) (w_init_names w) 0 end) ++
  frame_lines (w_inputs w) (w_input_names w) 0 ++ [lit "."].

Lemma print_inits_ok : forall vals names id,
  forallb init_value_ok vals = true -> forallb small_index vals = true ->
  print_inits vals names id = WOk (state_lines vals names id).
Proof.
  induction vals as [|v vals IH]; intros names id Hok Hsmall.
  - destruct names; reflexivity.
  - destruct names as [|n names]; [reflexivity|].
    cbn [forallb] in Hok, Hsmall.
    apply andb_true_iff in Hok. destruct Hok as [Hv Hok].
    apply andb_true_iff in Hsmall. destruct Hsmall as [Hs Hsmall].
    cbn [print_inits state_lines]. rewrite (IH names (S id) Hok Hsmall).
    destruct v as [b|a indices|]; cbn [print_init_value init_value_lines wbind]; try reflexivity.
    cbn [init_value_ok] in Hv. cbn [small_index] in Hs.
    apply andb_true_iff in Hv. destruct Hv as [_ Hw]. rewrite Hw.
    rewrite print_array_lines_ok by (apply Nat.leb_le; exact Hs). reflexivity.
Qed.

Record complete_facts (w : btor_witness) : Prop := mk_complete_facts {
  cf_failed_ne : w_failed w <> [];
  cf_failed_u32 : forallb (fun b => b <? 2 ^ 32) (w_failed w) = true;
  cf_frame : w_init w <> [] \/ w_inputs w <> [];
  cf_init_len : length (w_init w) = length (w_init_names w);
  cf_init_names : forallb name_ok (w_init_names w) = true;
  cf_init_ok : forallb init_value_ok (w_init w) = true;
  cf_in_names : forallb name_ok (w_input_names w) = true;
  cf_frames : forallb (frame_ok (w_input_names w)) (w_inputs w) = true;
  cf_init_bound : N.of_nat (length (w_init w)) < 2 ^ 64;
  cf_names_bound : N.of_nat (length (w_input_names w)) < 2 ^ 64;
  cf_steps_bound : N.of_nat (length (w_inputs w)) < 2 ^ 64;
  cf_small : forallb small_index (w_init w) = true
}.

Lemma nonempty_ne : forall (A : Type) (l : list A), nonempty l = true -> l <> [].
Proof. intros A [|x l] H; [discriminate|discriminate]. Qed.

Lemma complete_inv : forall w, wit_complete w = true -> complete_facts w.
Proof.
  intros w H. unfold wit_complete in H. apply andb_true_iff in H. destruct H as [H Hsmall].
  unfold wit_complete_spec in H.
  repeat (apply andb_true_iff in H; let H' := fresh "Hc" in destruct H as [H H']).
  constructor; try assumption.
  - apply nonempty_ne. exact H.
  - apply orb_true_iff in Hc7. destruct Hc7 as [Hx|Hx]; [left|right]; apply nonempty_ne; exact Hx.
  - apply Nat.eqb_eq. assumption.
  - apply N.ltb_lt. assumption.
  - apply N.ltb_lt. assumption.
  - apply N.ltb_lt. assumption.
Qed.

Lemma print_lines_complete : forall w, wit_complete w = true -> print_lines w = WOk (witness_lines w).
Proof.
  intros w H. destruct (complete_inv w H) as [Hne Hu32 Hfr Hlen Hin Hok Hinn Hframes Hb1 Hb2 Hb3 Hsmall].
  unfold print_lines, witness_lines.
  rewrite (print_frames_ok _ _ 0 Hframes).
  assert (Hprop : prop_line (w_failed w) = [join_sp (map prop_token (w_failed w))]).
  { unfold prop_line. destruct (w_failed w); [contradiction|reflexivity]. }
  rewrite Hprop.
  destruct (w_init w) as [|v vals] eqn:Ei.
  - cbn [wbind app]. reflexivity.
  - rewrite Hlen. rewrite Nat.eqb_refl. rewrite <- Ei in *.
    rewrite (print_inits_ok _ _ 0 Hok Hsmall). cbn [wbind app]. rewrite Ei. reflexivity.
Qed.

Lemma canon_inits_nil : forall names id acc, canon_inits [] names id acc = acc.
Proof. intros. destruct names; reflexivity. Qed.

Lemma wrun_cons_step : forall pm s l s' rest,
  steps_to pm s [l] s' -> wrun pm s (l :: rest) = wrun pm s' rest.
Proof. intros pm s l s' rest H. apply (H rest). Qed.

Ltac reshape_lines L' :=
  match goal with
  | |- wrun _ _ ?L = _ => replace L with L'; [|cbn [frame_lines]; repeat (progress cbn [app] || rewrite <- app_assoc); reflexivity]
  end.

Theorem witness_run : forall w, wit_complete w = true ->
  forall pm out rest,
    wrun pm (mk_pst PStart out witness_default []) (witness_lines w ++ rest) =
    after_witness pm out (wit_canon w) rest.
Proof.
  intros w H pm out rest.
  destruct (complete_inv w H) as [Hne Hu32 Hfr Hlen Hin Hok Hinn Hframes Hb1 Hb2 Hb3 Hsmall].
  unfold witness_lines.
  (* "sat" and the property line *)
  cbn [app].
  rewrite (wrun_cons_step _ _ _ _ _ (step_sat pm out witness_default [])).
  unfold witness_default at 1.
  rewrite (wrun_cons_step _ _ _ _ _ (step_props pm out [] [] [] [] [] (w_failed w) Hne Hu32)).
  unfold wit_canon.
  destruct (w_init w) as [|v vals] eqn:Ei.
  - (* no state frame: there must be an input frame *)
    destruct Hfr as [Hx|Hx]; [contradiction|].
    destruct (w_inputs w) as [|f later] eqn:Ef; [contradiction|].
    rewrite canon_inits_nil. cbn [fst snd].
    reshape_lines (at_line 0 :: (input_lines f (w_input_names w) 0 (at_line 0) ++
                                 frame_lines later (w_input_names w) 1 ++ lit "." :: rest)).
    rewrite (wrun_cons_step _ _ _ _ _ (step_at_from_wait pm out [] [] [] (w_failed w) [])).
    change (st_inputs 0 out [] [] [] [] (w_failed w) []) with (st_inputs (N.of_nat 0) out [] [] [] [] (w_failed w) []).
    rewrite (run_frames pm out [] [] (w_failed w) (w_input_names w) later f 0%nat [] [] rest Hinn Hframes eq_refl eq_refl Hb2).
    + reflexivity.
    + cbn [length] in Hb3. cbn [Nat.add]. lia.
  - (* a state frame *)
    rewrite <- Ei in *.
    set (cst := canon_inits (w_init w) (w_init_names w) 0 ([], [])).
    pose proof (steps_states pm out [] [] (w_failed w) [] (w_init w) (w_init_names w) 0%nat ([], [])
                  Hlen Hok Hsmall Hin (Nat.le_refl 0)) as Hst.
    cbn [fst snd] in Hst. fold cst in Hst.
    assert (Hb1' : N.of_nat (0 + length (w_init w)) < 2 ^ 64) by (cbn [Nat.add]; exact Hb1).
    specialize (Hst Hb1').
    destruct (w_inputs w) as [|f later] eqn:Ef.
    + match goal with
      | |- wrun _ _ ?L = _ =>
          replace L with (lit "#0" :: (state_lines (w_init w) (w_init_names w) 0 ++ lit "." :: rest))
            by (rewrite Ei; cbn [frame_lines]; repeat (progress cbn [app] || rewrite <- app_assoc); reflexivity)
      end.
      rewrite (wrun_cons_step _ _ _ _ _ (step_hash0 pm out _ [])).
      change (mk_pst (PParsingStatesAt 0) out (mk_btor_witness [] [] [] [] (w_failed w)) [])
        with (st_states out [] [] [] [] (w_failed w) []).
      rewrite (Hst _). rewrite run_dot_states. reflexivity.
    + match goal with
      | |- wrun _ _ ?L = _ =>
          replace L with (lit "#0" :: (state_lines (w_init w) (w_init_names w) 0 ++
                          at_line 0 :: (input_lines f (w_input_names w) 0 (at_line 0) ++
                                        frame_lines later (w_input_names w) 1 ++ lit "." :: rest)))
            by (rewrite Ei; cbn [frame_lines]; repeat (progress cbn [app] || rewrite <- app_assoc); reflexivity)
      end.
      rewrite (wrun_cons_step _ _ _ _ _ (step_hash0 pm out _ [])).
      change (mk_pst (PParsingStatesAt 0) out (mk_btor_witness [] [] [] [] (w_failed w)) [])
        with (st_states out [] [] [] [] (w_failed w) []).
      rewrite (Hst _).
      rewrite (wrun_cons_step _ _ _ _ _ (step_at_from_states pm out (fst cst) (snd cst) [] (w_failed w) [])).
      change (st_inputs 0 out (fst cst) (snd cst) [] [] (w_failed w) [])
        with (st_inputs (N.of_nat 0) out (fst cst) (snd cst) [] [] (w_failed w) []).
      rewrite (run_frames pm out (fst cst) (snd cst) (w_failed w) (w_input_names w) later f 0%nat [] [] rest Hinn Hframes eq_refl eq_refl Hb2).
      * reflexivity.
      * cbn [length] in Hb3. cbn [Nat.add]. lia.
Qed.

(* ------------------------------------------------------------------------- from lines to text *)
Definition no_nl (l : str) : Prop := forallb (fun c => negb (Ascii.eqb c ch_nl)) l = true.

Lemma no_nl_app : forall a b, no_nl a -> no_nl b -> no_nl (a ++ b).
Proof. intros a b Ha Hb. unfold no_nl in *. rewrite forallb_app, Ha, Hb. reflexivity. Qed.

Lemma no_nl_cons : forall c b, Ascii.eqb c ch_nl = false -> no_nl b -> no_nl (c :: b).
Proof. intros c b Hc Hb. unfold no_nl in *. cbn [forallb]. rewrite Hc, Hb. reflexivity. Qed.

Lemma no_nl_name : forall s, forallb name_char_ok s = true -> no_nl s.
Proof.
  intros s H. unfold no_nl. apply (forallb_impl _ name_char_ok); [|exact H].
  intros c Hc. rewrite (name_char_not_nl c Hc). reflexivity.
Qed.

Lemma no_nl_plain : forall s, forallb plain_char s = true -> no_nl s.
Proof.
  intros s H. apply no_nl_name. apply (forallb_impl _ plain_char); [apply plain_char_name|exact H].
Qed.

Lemma no_nl_suffix : forall suffix, suffix_ok suffix -> no_nl suffix.
Proof.
  intros suffix [c [r [E [Hc [Hp _]]]]]. subst suffix. apply no_nl_cons; [|apply no_nl_plain; exact Hp].
  apply orb_true_iff in Hc. destruct Hc as [Hc|Hc]; apply Ascii.eqb_eq in Hc; subst c; reflexivity.
Qed.

Lemma no_nl_bv_line : forall id v name suffix,
  forallb name_char_ok name = true -> suffix_ok suffix -> no_nl (bv_line id v name suffix).
Proof.
  intros id v name suffix Hn Hs. rewrite bv_line_eq.
  apply no_nl_app; [apply no_nl_plain; apply print_dec_plain|].
  apply no_nl_cons; [reflexivity|].
  apply no_nl_app; [apply no_nl_plain; apply print_bits_plain|].
  apply no_nl_cons; [reflexivity|].
  apply no_nl_app; [apply no_nl_name; exact Hn|apply no_nl_suffix; exact Hs].
Qed.

Lemma no_nl_arr_line : forall id i d name suffix,
  forallb name_char_ok name = true -> suffix_ok suffix -> no_nl (arr_line id i d name suffix).
Proof.
  intros id i d name suffix Hn Hs. rewrite arr_line_eq.
  apply no_nl_app; [apply no_nl_plain; apply print_dec_plain|].
  apply no_nl_cons; [reflexivity|].
  apply no_nl_app.
  { apply no_nl_cons; [reflexivity|]. apply no_nl_app; [apply no_nl_plain; apply print_bits_plain|reflexivity]. }
  apply no_nl_cons; [reflexivity|].
  apply no_nl_app; [apply no_nl_plain; apply print_bits_plain|].
  apply no_nl_cons; [reflexivity|].
  apply no_nl_app; [apply no_nl_name; exact Hn|apply no_nl_suffix; exact Hs].
Qed.

Lemma plain_last_no_cr : forall l, plain_last l -> forall m, l <> m ++ [ch_cr].
Proof.
  intros l [m' [e [E He]]] m Em. rewrite E in Em. apply app_inj_tail in Em. destruct Em as [_ Em].
  subst e. discriminate He.
Qed.

Lemma line_ok_intro : forall l, no_nl l -> plain_last l -> line_ok l.
Proof. intros l H1 H2. split; [exact H1|apply plain_last_no_cr; exact H2]. Qed.

Lemma line_ok_bv_line : forall id v name suffix,
  forallb name_char_ok name = true -> suffix_ok suffix -> line_ok (bv_line id v name suffix).
Proof.
  intros. apply line_ok_intro; [apply no_nl_bv_line; assumption|apply bv_line_plain_last; assumption].
Qed.

Lemma line_ok_arr_line : forall id i d name suffix,
  forallb name_char_ok name = true -> suffix_ok suffix -> line_ok (arr_line id i d name suffix).
Proof.
  intros. apply line_ok_intro; [apply no_nl_arr_line; assumption|apply arr_line_plain_last; assumption].
Qed.

Lemma line_ok_at_line : forall k, line_ok (at_line k).
Proof.
  intros k. apply line_ok_intro.
  - unfold at_line. apply no_nl_cons; [reflexivity|]. apply no_nl_plain. apply print_dec_plain.
  - unfold at_line. apply plain_last_cons. apply print_dec_plain_last.
Qed.

Lemma line_ok_fixed : forall s, forallb plain_char (lit s) = true -> lit s <> [] -> line_ok (lit s).
Proof.
  intros s Hp Hne. apply line_ok_intro; [apply no_nl_plain; exact Hp|apply plain_last_of_plain; assumption].
Qed.

Lemma line_ok_hash0 : line_ok (lit "#0").
Proof.
  apply line_ok_intro; [reflexivity|]. exists [ch_hash], "0"%char. split; reflexivity.
Qed.

Lemma no_nl_join_sp : forall toks, (forall t, In t toks -> no_nl t) -> no_nl (join_sp toks).
Proof.
  induction toks as [|t toks IH]; intros H; [reflexivity|].
  destruct toks as [|t2 toks'].
  - cbn [join_sp]. apply H. left. reflexivity.
  - change (join_sp (t :: t2 :: toks')) with (t ++ ch_sp :: join_sp (t2 :: toks')).
    apply no_nl_app; [apply H; left; reflexivity|]. apply no_nl_cons; [reflexivity|].
    apply IH. intros t' Ht'. apply H. right. exact Ht'.
Qed.

Lemma line_ok_prop_line : forall failed, failed <> [] -> line_ok (join_sp (map prop_token failed)).
Proof.
  intros failed Hne. apply line_ok_intro.
  - apply no_nl_join_sp. intros t Ht. apply in_map_iff in Ht. destruct Ht as [x [Ex _]]. subst t.
    unfold prop_token. apply no_nl_cons; [reflexivity|]. apply no_nl_plain. apply print_dec_plain.
  - apply plain_last_join_sp.
    + destruct failed; [contradiction|discriminate].
    + intros t Ht. apply in_map_iff in Ht. destruct Ht as [x [Ex _]]. subst t.
      unfold prop_token. apply plain_last_cons. apply print_dec_plain_last.
Qed.

Lemma line_ok_input_lines : forall vals names id suffix,
  forallb name_ok names = true -> suffix_ok suffix -> Forall line_ok (input_lines vals names id suffix).
Proof.
  induction vals as [|v vals IH]; intros names id suffix Hn Hs.
  - destruct names; constructor.
  - destruct names as [|n names]; [constructor|].
    cbn [forallb] in Hn. apply andb_true_iff in Hn. destruct Hn as [Hn1 Hn].
    cbn [input_lines]. apply Forall_app. split; [|apply IH; assumption].
    destruct v as [[b|a]|]; constructor; [|constructor].
    apply line_ok_bv_line; [|exact Hs]. apply display_name_ok; [reflexivity|exact Hn1].
Qed.

Lemma line_ok_frame_lines : forall frames names k,
  forallb name_ok names = true -> Forall line_ok (frame_lines frames names k).
Proof.
  induction frames as [|f frames IH]; intros names k Hn; [constructor|].
  cbn [frame_lines]. constructor; [apply line_ok_at_line|].
  apply Forall_app. split; [|apply IH; exact Hn].
  apply line_ok_input_lines; [exact Hn|apply suffix_at].
Qed.

Lemma line_ok_state_lines : forall vals names id,
  forallb name_ok names = true -> Forall line_ok (state_lines vals names id).
Proof.
  induction vals as [|v vals IH]; intros names id Hn.
  - destruct names; constructor.
  - destruct names as [|n names]; [constructor|].
    cbn [forallb] in Hn. apply andb_true_iff in Hn. destruct Hn as [Hn1 Hn].
    cbn [state_lines]. apply Forall_app. split; [|apply IH; exact Hn].
    pose proof (display_name_ok (lit "state_") n id eq_refl Hn1) as Hd.
    destruct v as [b|a indices|]; cbn [init_value_lines].
    + constructor; [|constructor]. apply line_ok_bv_line; [exact Hd|apply suffix_hash0].
    + unfold array_lines. apply Forall_forall. intros l Hl. apply in_map_iff in Hl.
      destruct Hl as [i [E _]]. subst l. apply line_ok_arr_line; [exact Hd|apply suffix_hash0].
    + constructor.
Qed.

Lemma line_ok_witness_lines : forall w, wit_complete w = true -> Forall line_ok (witness_lines w).
Proof.
  intros w H. destruct (complete_inv w H) as [Hne Hu32 Hfr Hlen Hin Hok Hinn Hframes Hb1 Hb2 Hb3 Hsmall].
  unfold witness_lines.
  constructor; [apply line_ok_fixed; [reflexivity|discriminate]|].
  constructor; [apply line_ok_prop_line; exact Hne|].
  apply Forall_app. split.
  - destruct (w_init w); [constructor|].
    constructor; [apply line_ok_hash0|].
    apply line_ok_state_lines. exact Hin.
  - apply Forall_app. split; [apply line_ok_frame_lines; exact Hinn|].
    constructor; [|constructor]. apply line_ok_fixed; [reflexivity|discriminate].
Qed.

(* ------------------------------------------------------------------------- round trip *)
Lemma print_text_complete : forall w, wit_complete w = true ->
  wit_print_text w = WOk (unlines (witness_lines w)).
Proof. intros w H. unfold wit_print_text. rewrite (print_lines_complete w H). reflexivity. Qed.

Lemma after_witness_nil : forall pm out w, after_witness pm out w [] = WOk (out ++ [w]).
Proof. intros pm out w. unfold after_witness. destruct (pm <=? _); reflexivity. Qed.

Theorem roundtrip_canon_lemma : forall w, wit_complete w = true ->
  exists text, wit_print_text w = WOk text /\
               (forall pm, wit_parse_text pm text = WOk [wit_canon w]) /\
               wit_parse_single text = WOk (wit_canon w).
Proof.
  intros w H. exists (unlines (witness_lines w)). split; [apply print_text_complete; exact H|].
  assert (Hp : forall pm, wit_parse_text pm (unlines (witness_lines w)) = WOk [wit_canon w]).
  { intros pm. unfold wit_parse_text, parse_lines.
    rewrite (split_lines_unlines _ (line_ok_witness_lines w H)).
    rewrite <- (app_nil_r (witness_lines w)). unfold pst_init.
    rewrite (witness_run w H pm [] []). apply after_witness_nil. }
  split; [exact Hp|]. unfold wit_parse_single. rewrite Hp. reflexivity.
Qed.

(** what the reader returns on a stream of printed witnesses *)
Fixpoint read_stream (pm : N) (out : list btor_witness) (ws : list btor_witness) : list btor_witness :=
  match ws with
  | [] => out
  | w :: r => let out' := out ++ [wit_canon w] in
              if pm <=? N.of_nat (length out') then out' else read_stream pm out' r
  end.

Lemma run_stream : forall pm ws out,
  Forall (fun w => wit_complete w = true) ws ->
  wrun pm (mk_pst PStart out witness_default []) (concat (map witness_lines ws)) = WOk (read_stream pm out ws).
Proof.
  intros pm ws. induction ws as [|w ws IH]; intros out H; [reflexivity|].
  inversion H as [|? ? Hw Hws]; subst.
  cbn [map concat read_stream]. rewrite (witness_run w Hw pm out _). unfold after_witness.
  destruct (pm <=? N.of_nat (length (out ++ [wit_canon w]))); [reflexivity|].
  apply IH. exact Hws.
Qed.

Lemma read_stream_firstn : forall pm ws out,
  read_stream pm out ws =
  out ++ map wit_canon (firstn (Nat.max 1 (N.to_nat pm - length out)) ws).
Proof.
  intros pm ws. induction ws as [|w ws IH]; intros out.
  - cbn [read_stream]. rewrite firstn_nil. cbn [map]. rewrite app_nil_r. reflexivity.
  - cbn [read_stream]. rewrite app_length. cbn [length].
    destruct (pm <=? N.of_nat (length out + 1)) eqn:E.
    + apply N.leb_le in E.
      replace (Nat.max 1 (N.to_nat pm - length out)) with 1%nat by lia.
      reflexivity.
    + apply N.leb_gt in E.
      rewrite IH. rewrite app_length. cbn [length].
      destruct (N.to_nat pm - length out)%nat as [|[|n]] eqn:En; try lia.
      replace (Nat.max 1 (S (S n))) with (S (S n)) by lia.
      replace (N.to_nat pm - (length out + 1))%nat with (S n) by lia.
      replace (Nat.max 1 (S n)) with (S n) by lia.
      cbn [firstn map]. rewrite <- app_assoc. reflexivity.
Qed.

Definition print_stream (ws : list btor_witness) : wres str :=
  fold_right (fun w acc => wbind (wit_print_text w) (fun t => wbind acc (fun ts => WOk (t ++ ts)))) (WOk []) ws.

Lemma print_stream_complete : forall ws,
  Forall (fun w => wit_complete w = true) ws ->
  print_stream ws = WOk (unlines (concat (map witness_lines ws))).
Proof.
  induction ws as [|w ws IH]; intros H; [reflexivity|].
  inversion H as [|? ? Hw Hws]; subst.
  cbn [print_stream fold_right map concat]. fold (print_stream ws).
  rewrite (print_text_complete w Hw), (IH Hws). cbn [wbind]. rewrite unlines_app. reflexivity.
Qed.

Theorem witness_stream_lemma : forall ws pm,
  Forall (fun w => wit_complete w = true) ws ->
  exists text, print_stream ws = WOk text /\
               wit_parse_text pm text = WOk (map wit_canon (firstn (Nat.max 1 (N.to_nat pm)) ws)).
Proof.
  intros ws pm H. exists (unlines (concat (map witness_lines ws))).
  split; [apply print_stream_complete; exact H|].
  unfold wit_parse_text, parse_lines. rewrite split_lines_unlines.
  - unfold pst_init. rewrite (run_stream pm ws [] H). rewrite read_stream_firstn.
    cbn [length app]. rewrite Nat.sub_0_r. reflexivity.
  - apply Forall_concat. apply Forall_map. apply Forall_forall. intros w Hw.
    rewrite Forall_forall in H. apply line_ok_witness_lines. apply H. exact Hw.
Qed.

Corollary witness_stream_all : forall ws pm,
  Forall (fun w => wit_complete w = true) ws -> N.of_nat (length ws) <= pm ->
  exists text, print_stream ws = WOk text /\ wit_parse_text pm text = WOk (map wit_canon ws).
Proof.
  intros ws pm H Hpm. destruct (witness_stream_lemma ws pm H) as [text [Hp Hr]].
  exists text. split; [exact Hp|]. rewrite Hr. f_equal. f_equal. apply firstn_all2. lia.
Qed.
