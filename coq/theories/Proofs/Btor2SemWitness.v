(** * Proofs/Btor2SemWitness.v — texts that the reference interpreter declares ill-formed and the
    faithful model of the reader accepts (reproduced against the real parse_str by the C08
    harness), and well-formed texts the reader rejects.  Closed computation only. *)
From Coq Require Import List String Ascii NArith Bool.
From Patronus Require Import Btor2Parse Btor2Sem Btor2Witness.
Import ListNotations.
Open Scope string_scope.
Open Scope N_scope.

Definition zero_valuation : b2val :=
  {| in_bv := fun _ => 0; in_arr := fun _ _ => 0; st_bv := fun _ => 0; st_arr := fun _ _ => 0 |}.

Definition sem_error (text : string) : option b2err :=
  match sem_text zero_valuation text with B2Ok _ => None | B2Err e => Some e end.

Definition accepted (dbg : bool) (text : string) : bool :=
  match parse_text dbg text with POk _ => true | _ => false end.

(** (text, the reference interpreter's verdict): accepted by the reader in both profiles *)
Definition ill_sorted_accepted : list (string * b2err) :=
  [ (text_of ["1 sort bitvec 8"; "2 input 1"; "3 bad 2"], B2PropWidth);
    (text_of ["1 sort bitvec 8"; "2 input 1"; "3 constraint 2"], B2PropWidth);
    (text_of ["1 sort bitvec 0"; "2 sort array 1 1"; "3 input 2 m"], B2ZeroWidth);
    (text_of ["1 sort bitvec 2"; "2 sort bitvec 4"; "3 sort array 1 2"; "4 input 3 m"; "5 uext 3 4 0"; "6 input 1 i"; "7 read 2 5 6"; "8 output 7"], B2ExtArray) ].

Lemma ill_sorted_accepted_ok :
  forallb (fun w => match sem_error (fst w) with
                    | Some e => accepted true (fst w) && accepted false (fst w) &&
                                match e, snd w with
                                | B2PropWidth, B2PropWidth | B2ZeroWidth, B2ZeroWidth | B2ExtArray, B2ExtArray => true
                                | _, _ => false
                                end
                    | None => false
                    end) ill_sorted_accepted = true.
Proof. vm_compute. reflexivity. Qed.

(** well-formed according to the reference interpreter, rejected by the reader: a 129-bit
    hexadecimal constant needs 33 digits, and 33 * 4 > 129 *)
Definition well_formed_rejected : list string :=
  [ text_of ["1 sort bitvec 129"; "2 consth 1 100000000000000000000000000000000"; "3 output 2"];
    text_of ["1 sort bitvec 129"; "2 consth 1 000000000000000000000000000000001"; "3 output 2"] ].

Lemma well_formed_rejected_ok :
  forallb (fun t => match sem_error t, parse_text true t, parse_text false t with
                    | None, PErr, PErr => true
                    | _, _, _ => false
                    end) well_formed_rejected = true.
Proof. vm_compute. reflexivity. Qed.
