(** * Proofs/Btor2RoundTrip.v — the whole-system round trip of the btor2 writer and reader.

    [roundtrip_sem]: for a well-typed system with pairwise distinct symbols whose widths and line
    count fit 32 bits, the reader accepts what the writer prints, and the system it returns
    corresponds to [demote sy] position by position: same symbols up to the positional renaming
    [tau] (the reader's names), and every init / next / output / bad / constraint expression has,
    in every well-formed environment, the value of its original in the environment pulled back
    along [tau]. *)
From Coq Require Import List Lia Bool String Ascii NArith FMapPositive.
From Patronus Require Import Expr ExprLemmas ExprEqb Eval SysClosed Btor2Parse Btor2Ser Btor2ExprFacts Btor2ParseProofs
     Btor2Sound Btor2SerProofs Btor2RoundTripSpec Btor2RtExpr Btor2RtLines Btor2RtSim Btor2RtSys Btor2Names.
From Coq Require Import Permutation.
Import ListNotations.
Open Scope string_scope.
Open Scope list_scope.
Open Scope N_scope.

(** ** renaming and demotion on the reader's raw system *)
Lemma rename_state_nil s : rename_state [] s = s.
Proof.
  destruct s as [sym i n]. unfold rename_state. cbn [st_sym st_init st_next]. rewrite rename_nil. f_equal.
  - destruct i; cbn [option_map]; [rewrite rename_nil|]; reflexivity.
  - destruct n; cbn [option_map]; [rewrite rename_nil|]; reflexivity.
Qed.

Lemma map_id_ext {A} (f : A -> A) (l : list A) : (forall x, f x = x) -> map f l = l.
Proof. intros H. induction l as [|x l IH]; cbn [map]; [reflexivity|]. rewrite H, IH. reflexivity. Qed.

Lemma rename_sys_all ren sy :
  rename_sys ren sy = {| s_inputs := map (rename ren) (s_inputs sy);
                         s_states := map (rename_state ren) (s_states sy);
                         s_outputs := map (fun o => (fst o, rename ren (snd o))) (s_outputs sy);
                         s_bads := map (rename ren) (s_bads sy);
                         s_constraints := map (rename ren) (s_constraints sy) |}.
Proof.
  destruct ren as [|p ren]; [|reflexivity]. destruct sy as [i s o b c]. cbn [rename_sys s_inputs s_states s_outputs s_bads s_constraints].
  rewrite !(map_id_ext (rename [])) by apply rename_nil. rewrite (map_id_ext (rename_state [])) by apply rename_state_nil.
  rewrite (map_id_ext (fun o0 => (fst o0, rename [] (snd o0)))); [reflexivity|].
  intros [n e]. cbn [fst snd]. rewrite rename_nil. reflexivity.
Qed.

Lemma filter_map_comm {A B} (f : A -> B) (p : B -> bool) (q : A -> bool) (l : list A) :
  (forall x, p (f x) = q x) -> filter p (map f l) = map f (filter q l).
Proof.
  intros H. induction l as [|x l IH]; cbn [map filter]; [reflexivity|]. rewrite H. destruct (q x); cbn [map]; rewrite IH; reflexivity.
Qed.

Lemma rename_of_symbol ren x : is_symbol x = true -> rename ren x = rename_sym ren x.
Proof. destruct x; cbn [is_symbol]; intros H; try discriminate; reflexivity. Qed.

Definition tstate (ren : list (expr * string)) (m : smap) (s : state) : state := rename_state ren (trs m true s).

Lemma tstate_plain ren m s : is_plain (tstate ren m s) = is_plain s.
Proof.
  unfold tstate, rename_state, trs, is_plain. cbn [st_init st_next].
  destruct (st_init s), (st_next s); reflexivity.
Qed.

(** ** the theorem *)
Definition the_tau (ren : list (expr * string)) (m : smap) (s : expr) : expr := rename_sym ren (sm_app m s).
Definition the_pull (ren : list (expr * string)) (m : smap) (rho' : env) : env :=
  env_pull (sm_app m) (env_pull (rename_sym ren) rho').

Lemma the_tau_keeping ren m : map_ok m -> type_keeping (the_tau ren m).
Proof.
  intros Hm s Hs. unfold the_tau. destruct (sm_app_keeping m Hm s Hs) as [H1 H2].
  destruct (rename_sym_keeping ren _ H1) as [H3 H4]. split; [exact H3|congruence].
Qed.

Lemma the_pull_spec ren m rho' s : map_ok m -> is_symbol s = true ->
  ebv (the_pull ren m rho') s = ebv rho' (the_tau ren m s) /\ earr (the_pull ren m rho') s = earr rho' (the_tau ren m s).
Proof.
  intros Hm Hs. unfold the_pull, the_tau.
  destruct (sym_pull (sm_app m) (env_pull (rename_sym ren) rho') s (sm_app_keeping m Hm) Hs) as [A B].
  destruct (sym_pull (rename_sym ren) rho' (sm_app m s) (rename_sym_keeping ren) (sm_app_symbol m s Hm Hs)) as [C D].
  split; congruence.
Qed.

Lemma the_eqv ren m rho' e : map_ok m -> env_wf rho' -> wt e = true ->
  eqv (the_pull ren m rho') rho' e (rename ren (tr m e)).
Proof.
  intros Hm Hrho Hwt. unfold eqv, the_pull. split; [rewrite type_of_rename; apply tr_type; auto|].
  destruct (rename_eval ren rho' (tr m e)) as [A B].
  destruct (tr_eval m (env_pull (rename_sym ren) rho') Hm (env_pull_wf _ _ (rename_sym_keeping ren) Hrho) e Hwt) as [C D].
  split; congruence.
Qed.

Theorem roundtrip_sem_v v sy lines :
  sys_ok_weak sy = true -> (is_fix v = true -> props_1bit sy = true) ->
  NoDup (declared sy) -> sys_fits sy = true ->
  serialize sy = POk lines -> N.of_nat (List.length lines) <= U32MAX ->
  exists sy' tau pull, parse_lines_v v true lines = POk sy' /\ rt_agrees sy sy' tau pull.
Proof.
  intros Hok H1bit Hnd Hfit Hser Hlen.
  destruct (serialize_parse_raw v sy lines Hok H1bit Hnd Hfit Hser Hlen) as (m & ps & Hm & Hrun & Hin & Hst & Hout & Hbad & Hcon).
  set (ren := renames_of ps).
  exists (demote (rename_sys ren (sys_of_pstate ps))), (the_tau ren m), (the_pull ren m).
  split. { unfold parse_lines_v, parse_raw_v. rewrite Hrun. reflexivity. }
  unfold sys_ok_weak in Hok.
  apply andb_true_iff in Hok. destruct Hok as [Hok Hokc]. apply andb_true_iff in Hok. destruct Hok as [Hok Hokb].
  apply andb_true_iff in Hok. destruct Hok as [Hok Hoko]. apply andb_true_iff in Hok. destruct Hok as [Hoki Hoks].
  rewrite forallb_forall in Hoki, Hoks, Hoko, Hokb, Hokc.
  rewrite rename_sys_all. cbn [sys_of_pstate s_inputs s_states s_outputs s_bads s_constraints].
  rewrite Hin, Hst, Hbad, Hcon.
  assert (Hsym_in : forall i, In i (s_inputs sy) -> is_symbol i = true).
  { intros i Hi. specialize (Hoki _ Hi). apply andb_true_iff in Hoki. tauto. }
  assert (Hsym_st : forall s, In s (s_states sy) -> is_symbol (st_sym s) = true).
  { intros s Hs. specialize (Hoks _ Hs). unfold state_ok in Hoks. repeat (apply andb_true_iff in Hoks; destruct Hoks as [Hoks ?]). exact Hoks. }
  assert (Htau_sym : forall s, is_symbol s = true -> rename ren (sm_app m s) = the_tau ren m s).
  { intros s Hs. apply rename_of_symbol. apply sm_app_symbol; auto. }
  constructor.
  - apply the_tau_keeping. exact Hm.
  - intros rho' s Hs. apply the_pull_spec; auto.
  - intros rho' Hrho. unfold the_pull. apply env_pull_wf; [apply sm_app_keeping; exact Hm|].
    apply env_pull_wf; [apply rename_sym_keeping|exact Hrho].
  - (* inputs *)
    cbn [demote s_inputs s_states]. rewrite map_app, !map_map.
    rewrite (filter_map_comm (fun s => rename_state ren (trs m true s)) is_plain is_plain) by apply (tstate_plain ren m).
    rewrite !map_map. f_equal.
    + apply map_ext_in. intros i Hi. apply Htau_sym. auto.
    + apply map_ext_in. intros s Hs. apply filter_In in Hs. destruct Hs as [Hs _]. cbn [rename_state trs st_sym]. apply Htau_sym. auto.
  - (* state symbols *)
    cbn [demote s_states]. rewrite map_map.
    rewrite (filter_map_comm (fun s => rename_state ren (trs m true s)) (fun s => negb (is_plain s)) (fun s => negb (is_plain s)))
      by (intros x; f_equal; apply (tstate_plain ren m)).
    rewrite !map_map. apply map_ext_in. intros s Hs. apply filter_In in Hs. destruct Hs as [Hs _].
    cbn [rename_state trs st_sym]. apply Htau_sym. auto.
  - (* meanings *)
    intros rho' Hrho. cbn [demote s_states s_outputs s_bads s_constraints].
    split; [|split; [|split]].
    + rewrite map_map.
      rewrite (filter_map_comm (fun s => rename_state ren (trs m true s)) (fun s => negb (is_plain s)) (fun s => negb (is_plain s)))
        by (intros x; f_equal; apply (tstate_plain ren m)).
      assert (Hall : forall l, (forall s, In s l -> In s (s_states sy)) ->
                Forall2 (state_eqv (the_pull ren m rho') rho') l (map (fun s => rename_state ren (trs m true s)) l)).
      { induction l as [|s l IH]; intros Hl; cbn [map]; constructor.
        - specialize (Hoks s (Hl s (or_introl eq_refl))). unfold state_ok in Hoks.
          repeat (apply andb_true_iff in Hoks; destruct Hoks as [Hoks ?]).
          unfold state_eqv, rename_state, trs. cbn [st_init st_next]. split.
          + destruct (st_init s) as [e|]; cbn [option_map opt_rel]; [|exact I].
            apply andb_true_iff in H0. destruct H0 as [Hw _]. apply the_eqv; auto.
          + destruct (st_next s) as [e|]; cbn [option_map opt_rel]; [|exact I].
            apply andb_true_iff in H. destruct H as [Hw _]. apply the_eqv; auto.
        - apply IH. intros s0 Hs0. apply Hl. right. exact Hs0. }
      apply Hall. intros s Hs. apply filter_In in Hs. tauto.
    + assert (Hlen2 : map snd (map (fun o => (fst o, rename ren (snd o))) (p_outputs ps)) =
                      map (rename ren) (map (tr m) (map snd (s_outputs sy)))).
      { rewrite map_map. cbn [snd]. rewrite <- Hout, map_map. reflexivity. }
      revert Hlen2. generalize (map (fun o => (fst o, rename ren (snd o))) (p_outputs ps)). generalize Hoko. clear Hout.
      induction (s_outputs sy) as [|o l IH]; intros Hoko' l' H; destruct l' as [|o' l']; cbn [map] in H; try discriminate; constructor.
      * inversion H. rewrite H1. apply the_eqv; auto. apply Hoko'. left. reflexivity.
      * inversion H. apply IH; try assumption; try (intros x Hx; apply Hoko'; right; exact Hx).
    + assert (Hall : forall l, (forall e, In e l -> wt e = true) ->
                Forall2 (eqv (the_pull ren m rho') rho') l (map (rename ren) (map (tr m) l))).
      { induction l as [|e l IH]; intros Hl; cbn [map]; constructor.
        - apply the_eqv; auto. apply Hl. left. reflexivity.
        - apply IH. intros e0 He0. apply Hl. right. exact He0. }
      apply Hall. exact Hokb.
    + assert (Hall : forall l, (forall e, In e l -> wt e = true) ->
                Forall2 (eqv (the_pull ren m rho') rho') l (map (rename ren) (map (tr m) l))).
      { induction l as [|e l IH]; intros Hl; cbn [map]; constructor.
        - apply the_eqv; auto. apply Hl. left. reflexivity.
        - apply IH. intros e0 He0. apply Hl. right. exact He0. }
      apply Hall. exact Hokc.
Qed.

(** ** the reader variants *)
Lemma parse_lines_v_cur dbg ls : parse_lines_v Cur dbg ls = parse_lines dbg ls.
Proof. unfold parse_lines_v, parse_raw_v, parse_lines, parse_raw. rewrite parse_fold_v_cur. reflexivity. Qed.

(** the reader without the checks of the repair series, debug and release builds *)
Theorem roundtrip_sem sy lines :
  sys_ok_weak sy = true -> NoDup (declared sy) -> sys_fits sy = true ->
  serialize sy = POk lines -> N.of_nat (List.length lines) <= U32MAX ->
  exists sy' tau pull, (forall dbg, parse_lines dbg lines = POk sy') /\ rt_agrees sy sy' tau pull.
Proof.
  intros Hok Hnd Hfit Hser Hlen.
  destruct (roundtrip_sem_v Cur sy lines Hok ltac:(discriminate) Hnd Hfit Hser Hlen) as (sy' & tau & pull & Hp & Hr).
  rewrite parse_lines_v_cur in Hp. exists sy', tau, pull. split; [|exact Hr].
  intros [|]; [exact Hp|]. rewrite Btor2Refine.release_equals_debug; [exact Hp|]. rewrite Hp. intros k. discriminate.
Qed.

(** release builds of the repaired readers compute what debug builds compute *)
Lemma parse_line_v_ref v st l : Btor2Refine.refines (parse_line_v v true st l) (parse_line_v v false st l).
Proof. unfold parse_line_v. destruct (variant_pre v st l); [apply Btor2Refine.parse_line_ref|apply Btor2Refine.refines_refl]. Qed.

Lemma parse_fold_v_ref v ls : forall st err, Btor2Refine.refines (parse_fold_v v true ls st err) (parse_fold_v v false ls st err).
Proof.
  induction ls as [|l ls IH]; intros st err; cbn [parse_fold_v]; [apply Btor2Refine.refines_refl|].
  pose proof (parse_line_v_ref v st l) as Hl.
  destruct (parse_line_v v true st l) as [st1| |k] eqn:E.
  - rewrite (Hl (Btor2Refine.no_panic_ok st1)). apply IH.
  - rewrite (Hl Btor2Refine.no_panic_err). apply IH.
  - apply Btor2Refine.refines_panic.
Qed.

Lemma parse_lines_v_ref v ls : Btor2Refine.refines (parse_lines_v v true ls) (parse_lines_v v false ls).
Proof.
  unfold parse_lines_v, parse_raw_v.
  apply Btor2Refine.refines_bind; [|intros r; apply Btor2Refine.refines_refl].
  apply Btor2Refine.refines_bind; [apply parse_fold_v_ref|intros r; apply Btor2Refine.refines_refl].
Qed.

(** the reader of /repo ([Fix]) and the prepared [Fix2]: bad states and constraints must be Boolean *)
Theorem roundtrip_sem_fix v sy lines :
  is_fix v = true ->
  sys_ok sy = true -> NoDup (declared sy) -> sys_fits sy = true ->
  serialize sy = POk lines -> N.of_nat (List.length lines) <= U32MAX ->
  exists sy' tau pull, (forall dbg, parse_lines_v v dbg lines = POk sy') /\ rt_agrees sy sy' tau pull.
Proof.
  intros Hv Hok Hnd Hfit Hser Hlen. rewrite sys_ok_split in Hok. apply andb_true_iff in Hok. destruct Hok as [Hw H1].
  destruct (roundtrip_sem_v v sy lines Hw ltac:(intros _; exact H1) Hnd Hfit Hser Hlen) as (sy' & tau & pull & Hp & Hr).
  exists sy', tau, pull. split; [|exact Hr].
  intros [|]; [exact Hp|]. rewrite (parse_lines_v_ref v lines); [exact Hp|]. rewrite Hp. intros k. discriminate.
Qed.

(** ** the symbols of an accepted system are pairwise distinct (every text, every reader variant) *)
Lemma lookup_name_In s l n : lookup_name s l = Some n -> In (s, n) l.
Proof.
  induction l as [|[e m] l IH]; cbn [lookup_name]; [discriminate|].
  destruct (expr_eqb e s) eqn:E; intros H; [apply expr_eqb_eq in E; inversion H; subst; left; reflexivity|right; auto].
Qed.

Lemma nodup_snd {A B} (l : list (A * B)) x y n : NoDup (map snd l) -> In (x, n) l -> In (y, n) l -> x = y.
Proof.
  induction l as [|[a b] l IH]; cbn [map snd]; intros Hnd Hx Hy; [contradiction|]. inversion Hnd as [|? ? Hn Hnd']; subst.
  destruct Hx as [Hx|Hx], Hy as [Hy|Hy].
  - congruence.
  - inversion Hx; subst. exfalso. apply Hn. apply in_map_iff. exists (y, n). auto.
  - inversion Hy; subst. exfalso. apply Hn. apply in_map_iff. exists (x, n). auto.
  - apply IH; auto.
Qed.

Lemma NoDup_map_inj_on {A B} (f : A -> B) (l : list A) :
  NoDup l -> (forall x y, In x l -> In y l -> f x = f y -> x = y) -> NoDup (map f l).
Proof.
  induction l as [|a l IH]; cbn [map]; intros Hnd Hinj; [constructor|]. inversion Hnd; subst. constructor.
  - intros Hin. apply in_map_iff in Hin. destruct Hin as (b & Hb & Hin). apply H1.
    rewrite (Hinj a b); auto; [left; reflexivity|right; exact Hin].
  - apply IH; auto. intros x y Hx Hy. apply Hinj; right; assumption.
Qed.

Lemma filter_partition_perm {A} (p : A -> bool) (l : list A) :
  Permutation (filter p l ++ filter (fun x => negb (p x)) l) l.
Proof.
  induction l as [|a l IH]; cbn [filter]; [constructor|]. destruct (p a); cbn [negb app].
  - constructor. exact IH.
  - apply Permutation_sym. apply Permutation_cons_app. apply Permutation_sym. exact IH.
Qed.

Lemma final_name ps x : NI ps -> In x (decl ps) ->
  exists n, In (x, n) (p_symnames ps) /\ sym_name (rename_sym (renames_of ps) x) = n /\
            is_symbol (rename_sym (renames_of ps) x) = true.
Proof.
  intros Hni Hx. pose proof (ni_sym _ Hni x Hx) as Hs. unfold rename_sym.
  destruct (lookup_name x (renames_of ps)) as [n|] eqn:E.
  - exists n. apply lookup_name_In in E. unfold renames_of in E. apply in_flat_map in E. destruct E as (s & Hsin & E).
    destruct (lookup_name (st_sym s) (p_symnames ps)) as [n'|] eqn:El; [|contradiction].
    destruct (String.eqb n' (sym_name (st_sym s))); [contradiction|]. destruct E as [E|[]]. inversion E; subst.
    split; [apply lookup_name_In; exact El|]. destruct (st_sym s); cbn [is_symbol] in Hs; try discriminate; split; reflexivity.
  - exists (sym_name x). split; [apply (ni_decl _ Hni); exact Hx|]. split; [reflexivity|exact Hs].
Qed.

Lemma rename_sym_inj ps x y : NI ps -> In x (decl ps) -> In y (decl ps) ->
  rename_sym (renames_of ps) x = rename_sym (renames_of ps) y -> x = y.
Proof.
  intros Hni Hx Hy H. destruct (final_name ps x Hni Hx) as (n & Hn & Hsn & _). destruct (final_name ps y Hni Hy) as (n' & Hn' & Hsn' & _).
  rewrite H in Hsn. assert (E : n = n') by congruence. rewrite <- E in Hn'. apply (nodup_snd _ _ _ _ (ni_nodup _ Hni) Hn Hn').
Qed.

Theorem accepted_distinct v dbg ls sy : parse_lines_v v dbg ls = POk sy -> NoDup (declared sy).
Proof.
  intros H. unfold parse_lines_v in H. apply pbind_ok in H. destruct H as ([sy0 ren] & Hr & H). inversion H; subst sy. clear H.
  unfold parse_raw_v in Hr. apply pbind_ok in Hr. destruct Hr as ([ps err] & Hf & Hr). destruct err; [discriminate|].
  inversion Hr; subst sy0 ren. clear Hr.
  pose proof (NI_fold v dbg ls p_empty false ps false NI_empty Hf) as Hni.
  rewrite rename_sys_all. unfold declared. cbn [demote sys_of_pstate s_inputs s_states].
  set (ren := renames_of ps). set (rs := rename_state ren).
  assert (Hplain : forall s, is_plain (rs s) = is_plain s).
  { intros s. unfold rs, rename_state, is_plain. cbn [st_init st_next]. destruct (st_init s), (st_next s); reflexivity. }
  rewrite (filter_map_comm rs is_plain is_plain) by exact Hplain.
  rewrite (filter_map_comm rs (fun s => negb (is_plain s)) (fun s => negb (is_plain s))) by (intros x; f_equal; apply Hplain).
  rewrite !map_map.
  assert (Hin_eq : map (rename ren) (p_inputs ps) = map (rename_sym ren) (p_inputs ps)).
  { apply map_ext_in. intros x Hx. apply rename_of_symbol. apply (ni_sym _ Hni). apply in_or_app. left. exact Hx. }
  assert (Hst_eq : forall l, (forall s, In s l -> In s (p_states ps)) ->
                     map (fun x => st_sym (rs x)) l = map (rename_sym ren) (map st_sym l)).
  { intros l Hl. rewrite map_map. apply map_ext_in. intros s Hs. unfold rs, rename_state. cbn [st_sym]. apply rename_of_symbol.
    apply (ni_sym _ Hni). apply in_or_app. right. apply in_map. apply Hl. exact Hs. }
  rewrite Hin_eq, (Hst_eq (filter is_plain (p_states ps))) by (intros s Hs; apply filter_In in Hs; tauto).
  rewrite (Hst_eq (filter (fun s => negb (is_plain s)) (p_states ps))) by (intros s Hs; apply filter_In in Hs; tauto).
  rewrite <- app_assoc, <- !map_app.
  assert (Hperm : Permutation (p_inputs ps ++ map st_sym (filter is_plain (p_states ps) ++
                                                           filter (fun s => negb (is_plain s)) (p_states ps))) (decl ps)).
  { unfold decl. apply Permutation_app_head. apply Permutation_map. apply filter_partition_perm. }
  apply (Permutation_NoDup (Permutation_sym (Permutation_map (rename_sym ren) Hperm))).
  apply NoDup_map_inj_on; [apply (ni_dd _ Hni)|]. intros x y Hx Hy. apply (rename_sym_inj ps); auto.
Qed.
