(** * Proofs/SimplifyFix.v — idempotence and fuel-independence of the driver model. *)
From Coq Require Import Lia.
From Patronus Require Import Simplify.
Open Scope N_scope.

(** results are fixed points: simplifying the result again (with no more fuel than before)
    returns the result itself *)
Theorem simp_idempotent_lemma : forall n e r, simp n e = SOk r -> exists m, (m <= n)%nat /\ simp m r = SOk r.
Proof.
  induction n as [|f IH]; intros e r Hs; [discriminate|].
  pose proof Hs as Hs0. cbn [simp] in Hs.
  destruct (simp_children (simp f) (children e)) as [err|cs] eqn:Ecs.
  - (* the error case cannot produce SOk *)
    exfalso. clear IH Hs0. revert err Ecs Hs. generalize (children e) as l.
    induction l as [|c rest IHl]; intros err Ecs Hs; cbn [simp_children] in Ecs; [discriminate|].
    destruct (simp f c) eqn:Ec.
    + destruct (simp_children (simp f) rest) eqn:Er; [|discriminate]. inversion Ecs; subst. eapply IHl; eauto.
    + inversion Ecs; subst. discriminate.
    + inversion Ecs; subst. discriminate.
  - destruct (simplify e cs) as [[r0|]|]; try discriminate.
    + destruct (expr_eqb r0 e).
      * inversion Hs; subst r. exists (S f). split; [lia|exact Hs0].
      * destruct (IH _ _ Hs) as (m & Hm & Hr). exists m. split; [lia|exact Hr].
    + destruct (list_eqb cs (children e)).
      * inversion Hs; subst r. exists (S f). split; [lia|exact Hs0].
      * destruct (IH _ _ Hs) as (m & Hm & Hr). exists m. split; [lia|exact Hr].
Qed.

(** more fuel never changes a result *)
Lemma simp_children_mono (f g : expr -> sres) cs cs' :
  (forall c c', In c cs -> f c = SOk c' -> g c = SOk c') ->
  simp_children f cs = inr cs' -> simp_children g cs = inr cs'.
Proof.
  revert cs'. induction cs as [|c rest IH]; intros cs' H Hs; cbn [simp_children] in *; [exact Hs|].
  destruct (f c) as [c'| |] eqn:Ec; try discriminate.
  rewrite (H c c' (or_introl eq_refl) Ec).
  destruct (simp_children f rest) as [|rest'] eqn:Er; [discriminate|].
  rewrite (IH rest'); [exact Hs| |reflexivity]. intros x x' Hx. apply H. now right.
Qed.

Theorem simp_fuel_mono : forall n e r, simp n e = SOk r -> forall m, (n <= m)%nat -> simp m e = SOk r.
Proof.
  induction n as [|f IH]; intros e r Hs m Hm; [discriminate|].
  destruct m as [|g]; [lia|]. cbn [simp] in *.
  destruct (simp_children (simp f) (children e)) as [err|cs] eqn:Ecs.
  - exfalso. clear IH. revert err Ecs Hs. generalize (children e) as l.
    induction l as [|c rest IHl]; intros err Ecs Hs; cbn [simp_children] in Ecs; [discriminate|].
    destruct (simp f c) eqn:Ec.
    + destruct (simp_children (simp f) rest) eqn:Er; [|discriminate]. inversion Ecs; subst. eapply IHl; eauto.
    + inversion Ecs; subst. discriminate.
    + inversion Ecs; subst. discriminate.
  - rewrite (simp_children_mono (simp f) (simp g) _ cs); [| |exact Ecs].
    2: { intros c c' _ Hc. apply (IH _ _ Hc). lia. }
    destruct (simplify e cs) as [[r0|]|]; try discriminate.
    + destruct (expr_eqb r0 e); [exact Hs|]. apply (IH _ _ Hs). lia.
    + destruct (list_eqb cs (children e)); [exact Hs|]. apply (IH _ _ Hs). lia.
Qed.

(** hence the result does not depend on the fuel at all *)
Theorem simp_deterministic n m e r r' : simp n e = SOk r -> simp m e = SOk r' -> r = r'.
Proof.
  intros H1 H2. pose proof (simp_fuel_mono _ _ _ H1 (Nat.max n m) (Nat.le_max_l _ _)) as A.
  pose proof (simp_fuel_mono _ _ _ H2 (Nat.max n m) (Nat.le_max_r _ _)) as B. congruence.
Qed.
