(** * Proofs/Btor2RtSim.v — the reader follows the writer, line by line (expressions and sorts).

    [Inv v m st ps]: the reader, run on the lines the writer has emitted so far ([w_lines st]), is in
    state [ps] without having recorded an error; every sort id of the writer's sort table denotes
    that sort in the reader's type map; every id of the writer's expression cache denotes, in the
    reader's signal map, the translation [tr m] of the cached expression.  [m] maps the symbols
    declared so far to the symbols the reader created for them.

    [emit_expr_sim]: emitting an expression tree keeps the invariant (post-order emission, id
    cache, shared sort declarations, the builders' normal forms). *)
From Coq Require Import List Lia Bool String Ascii NArith FMapPositive.
From Patronus Require Import Expr ExprLemmas ExprEqb Eval SysClosed Btor2Parse Btor2Ser Btor2ExprFacts Btor2ParseProofs
     Btor2Sound Btor2SerProofs Btor2RoundTripSpec Btor2RtExpr Btor2RtLines.
Import ListNotations.
Open Scope string_scope.
Open Scope N_scope.

(** ** widths that fit the reader's u32 fields ([efits], Spec/Btor2RoundTripSpec.v) *)
Lemma efits_children e : efits e = ty_fits (type_of e) && forallb efits (children e).
Proof. destruct e; cbn [efits children forallb]; rewrite ?andb_true_r, ?andb_assoc; reflexivity. Qed.

Lemma efits_child e c : efits e = true -> In c (children e) -> efits c = true.
Proof.
  rewrite efits_children. intros H Hin. apply andb_true_iff in H. destruct H as [_ H].
  rewrite forallb_forall in H. auto.
Qed.

Lemma efits_ty e : efits e = true -> ty_fits (type_of e) = true.
Proof. rewrite efits_children. intros H. apply andb_true_iff in H. tauto. Qed.

Lemma efits_node e : wt e = true -> efits e = true -> node_fits e = true.
Proof.
  intros Hwt Hf. pose proof (efits_ty e Hf) as Ht.
  destruct e; cbn [node_fits]; try reflexivity; cbn [type_of ty_fits] in Ht.
  - apply wt_zext in Hwt. destruct Hwt as (_ & _ & Hlt). apply N.leb_le in Ht. apply andb_true_iff. split; apply N.leb_le; lia.
  - apply wt_sext in Hwt. destruct Hwt as (_ & _ & Hlt). apply N.leb_le in Ht. apply andb_true_iff. split; apply N.leb_le; lia.
  - apply wt_slice in Hwt. destruct Hwt as (_ & we & Hte & Hhi & Hlo).
    assert (Hc : efits e = true) by (apply (efits_child (BVSlice e hi lo)); [exact Hf|left; reflexivity]).
    apply efits_ty in Hc. rewrite Hte in Hc. cbn [ty_fits] in Hc. apply N.leb_le in Hc.
    apply andb_true_iff. split; [apply N.ltb_lt|apply N.leb_le]; lia.
  - exact Ht.
Qed.

Lemma efits_norm e : efits e = true -> efits (norm_node e) = true.
Proof.
  intros Hf. destruct (norm_node_cases e) as [->|(x & Hc & -> & _)]; auto.
  apply (efits_child e); auto. rewrite Hc. left. reflexivity.
Qed.

Lemma efits_symbol e : is_symbol e = true -> efits e = ty_fits (type_of e).
Proof. destruct e; cbn [is_symbol]; intros H; try discriminate; cbn [efits]; apply andb_true_r. Qed.

Lemma tr_efits m : map_ok m -> forall e, wt e = true -> efits e = true -> efits (tr m e) = true.
Proof.
  intros Hm. apply (expr_ind_children (fun e => wt e = true -> efits e = true -> efits (tr m e) = true)).
  intros e IH Hwt Hf. destruct (is_symbol e) eqn:Es.
  - assert (tr m e = sm_app m e) as -> by (destruct e; cbn [is_symbol] in Es; try discriminate; reflexivity).
    rewrite (efits_symbol _ (sm_app_symbol m e Hm Es)), (sm_app_type m e Hm), <- (efits_symbol e Es). exact Hf.
  - rewrite (tr_pre m e Es). apply efits_norm. destruct (pre_ok m e Hm Es Hwt) as [_ Hpt].
    rewrite efits_children, Hpt, (efits_ty e Hf), (pre_children m e Es). cbn [andb].
    apply forallb_forall. intros c' Hin. apply in_map_iff in Hin. destruct Hin as (c & <- & Hin).
    rewrite Forall_forall in IH. apply IH; auto; [apply (wt_child e)|apply (efits_child e)]; auto.
Qed.

(** ** running the reader on the emitted prefix *)
Definition BOUND : N := U32MAX + 1.

(** [v]: the reader variant the simulation is about ([Cur] = without, [Fix]/[Fix2] = with the checks
    of the repair series; the writer's lines pass all of them) *)
Definition run (v : code_variant) (st : wstate) : pres (pstate * bool) :=
  parse_fold_v v true (rev (w_lines st)) p_empty false.

Lemma parse_fold_v_app v dbg l1 : forall l2 st err,
  parse_fold_v v dbg (l1 ++ l2) st err =
  match parse_fold_v v dbg l1 st err with
  | POk (s, e) => parse_fold_v v dbg l2 s e
  | PErr => PErr
  | PPanic k => PPanic k
  end.
Proof.
  induction l1 as [|l l1 IH]; intros l2 st err; cbn [app parse_fold_v]; [reflexivity|].
  destruct (parse_line_v v dbg st l); auto.
Qed.

Lemma parse_fold_v_cur dbg ls : forall st err, parse_fold_v Cur dbg ls st err = parse_fold dbg ls st err.
Proof. induction ls as [|l ls IH]; intros st err; cbn [parse_fold_v parse_fold]; [reflexivity|]. unfold parse_line_v. cbn [variant_pre]. destruct (parse_line dbg st l); auto. Qed.

Lemma run_emit v st l ps ps' :
  run v st = POk (ps, false) -> parse_line_v v true ps l = POk ps' -> run v (emit st l) = POk (ps', false).
Proof.
  unfold run. cbn [emit w_lines rev]. intros H Hl. rewrite parse_fold_v_app, H. cbn [parse_fold_v]. rewrite Hl. reflexivity.
Qed.

(** ** the invariant *)
Record Inv (v : code_variant) (m : smap) (st : wstate) (ps : pstate) : Prop := mkInv {
  i_run : run v st = POk (ps, false);
  i_map : map_ok m;
  i_sorts : forall t id, find_sort t (w_sorts st) = Some id ->
            id < w_next st /\ PM.find (key id) (p_types ps) = Some t;
  i_exprs : forall e id, find_expr e (w_exprs st) = Some id ->
            id < w_next st /\ PM.find (key id) (p_signals ps) = Some (tr m e) /\ incl (syms e) (sm_dom m)
}.

Definition rest_eq (a b : pstate) : Prop :=
  p_statemap a = p_statemap b /\ p_inputs a = p_inputs b /\ p_states a = p_states b /\
  p_outputs a = p_outputs b /\ p_bads a = p_bads b /\ p_constraints a = p_constraints b.

Lemma rest_eq_refl a : rest_eq a a.
Proof. repeat split. Qed.

Lemma rest_eq_trans a b c : rest_eq a b -> rest_eq b c -> rest_eq a c.
Proof. unfold rest_eq. intuition congruence. Qed.

Definition mono (st st' : wstate) : Prop :=
  w_next st <= w_next st' /\
  (forall t i, find_sort t (w_sorts st) = Some i -> find_sort t (w_sorts st') = Some i) /\
  (forall e i, find_expr e (w_exprs st) = Some i -> find_expr e (w_exprs st') = Some i).

Lemma mono_refl st : mono st st.
Proof. repeat split; auto. lia. Qed.

Lemma mono_trans a b c : mono a b -> mono b c -> mono a c.
Proof. intros (H1 & H2 & H3) (H4 & H5 & H6). repeat split; auto. lia. Qed.

Lemma key_neq a b : a <> b -> key a <> key b.
Proof. intros H E. apply H. apply key_inj. exact E. Qed.

(** a new sort line *)
Lemma inv_reg_sort v m st ps l t :
  Inv v m st ps -> find_sort t (w_sorts st) = None ->
  parse_line_v v true ps l = POk (set_types ps (PM.add (key (w_next st)) t (p_types ps))) ->
  Inv v m (reg_sort (emit (fst (new_id st)) l) t (w_next st)) (set_types ps (PM.add (key (w_next st)) t (p_types ps))) /\
  mono st (reg_sort (emit (fst (new_id st)) l) t (w_next st)).
Proof.
  intros [Hrun Hm Hs He] Hnone Hl. split.
  - constructor.
    + apply (run_emit v _ l ps); [exact Hrun|exact Hl].
    + exact Hm.
    + intros t0 id. cbn [reg_sort emit new_id fst w_sorts w_next find_sort]. destruct (ty_eqb t0 t) eqn:E.
      * intros H. inversion H; subst id. apply ty_eqb_eq in E. subst t0. split; [lia|]. cbn [set_types p_types]. apply PM.gss.
      * intros H. destruct (Hs _ _ H) as [Hlt Hf]. split; [lia|]. cbn [set_types p_types].
        rewrite PM.gso; [exact Hf|]. apply key_neq. lia.
    + intros e id H. cbn [reg_sort emit new_id fst w_exprs w_next] in *. destruct (He _ _ H) as (Hlt & Hf & Hi).
      split; [lia|]. split; [exact Hf|exact Hi].
  - split; [cbn; lia|]. split.
    + intros t0 i H. cbn [reg_sort emit new_id fst w_sorts find_sort]. destruct (ty_eqb t0 t) eqn:E; [|exact H].
      apply ty_eqb_eq in E. subst t0. congruence.
    + intros e i H. exact H.
Qed.

(** a new node line *)
Lemma inv_reg_expr v m st ps l e :
  Inv v m st ps -> find_expr e (w_exprs st) = None -> incl (syms e) (sm_dom m) ->
  parse_line_v v true ps l = POk (set_signal ps (w_next st) (tr m e)) ->
  Inv v m (reg_expr (emit (fst (new_id st)) l) e (w_next st)) (set_signal ps (w_next st) (tr m e)) /\
  mono st (reg_expr (emit (fst (new_id st)) l) e (w_next st)).
Proof.
  intros [Hrun Hm Hs He] Hnone Hincl Hl. split.
  - constructor.
    + apply (run_emit v _ l ps); [exact Hrun|exact Hl].
    + exact Hm.
    + intros t0 id H. cbn [reg_expr emit new_id fst w_sorts w_next] in *. destruct (Hs _ _ H) as [Hlt Hf]. split; [lia|exact Hf].
    + intros e0 id. cbn [reg_expr emit new_id fst w_exprs w_next find_expr]. destruct (expr_eqb e0 e) eqn:E.
      * intros H. inversion H; subst id. apply expr_eqb_eq in E. subst e0. split; [lia|]. split; [|exact Hincl].
        cbn [set_signal p_signals]. apply PM.gss.
      * intros H. destruct (He _ _ H) as (Hlt & Hf & Hi). split; [lia|]. split; [|exact Hi].
        cbn [set_signal p_signals]. rewrite PM.gso; [exact Hf|]. apply key_neq. lia.
  - split; [cbn; lia|]. split.
    + intros t0 i H. exact H.
    + intros e0 i H. cbn [reg_expr emit new_id fst w_exprs find_expr]. destruct (expr_eqb e0 e) eqn:E; [|exact H].
      apply expr_eqb_eq in E. subst e0. congruence.
Qed.

(** ** sort declarations (shared through the sort table) *)
Lemma bv_sort_sim v m st ps w st' id :
  Inv v m st ps -> w <= U32MAX -> 0 < w -> bv_sort_id st w = (st', id) -> w_next st' <= BOUND ->
  exists ps', Inv v m st' ps' /\ rest_eq ps ps' /\ p_signals ps' = p_signals ps /\
              find_sort (TBV w) (w_sorts st') = Some id /\ mono st st' /\ w_exprs st' = w_exprs st.
Proof.
  intros Hinv Hw Hpos H Hb. unfold bv_sort_id in H. destruct (find_sort (TBV w) (w_sorts st)) as [i|] eqn:E.
  - inversion H; subst st' id. exists ps. split; [exact Hinv|]. split; [apply rest_eq_refl|]. split; [reflexivity|].
    split; [exact E|]. split; [apply mono_refl|reflexivity].
  - cbn [new_id] in H. inversion H; subst st' id. clear H. cbn [reg_sort emit w_next] in Hb. unfold BOUND in Hb.
    assert (Hl : parse_line_v v true ps [num (w_next st); "sort"; "bitvec"; num w] =
                 POk (set_types ps (PM.add (key (w_next st)) (TBV w) (p_types ps)))).
    { apply plv; [intros _; apply sort_bv_pre; assumption|apply sort_bv_line; lia]. }
    destruct (inv_reg_sort v m st ps _ (TBV w) Hinv E Hl) as [Hinv' Hmono].
    eexists. split; [exact Hinv'|]. split; [repeat split|]. split; [reflexivity|]. split.
    + cbn [reg_sort emit new_id fst w_sorts find_sort ty_eqb]. rewrite N.eqb_refl. reflexivity.
    + split; [exact Hmono|reflexivity].
Qed.

Lemma sort_id_sim v m st ps t st' id :
  Inv v m st ps -> ty_fits t = true -> ty_pos t -> sort_id st t = (st', id) -> w_next st' <= BOUND ->
  exists ps', Inv v m st' ps' /\ rest_eq ps ps' /\ p_signals ps' = p_signals ps /\
              find_sort t (w_sorts st') = Some id /\ mono st st' /\ w_exprs st' = w_exprs st.
Proof.
  intros Hinv Ht Hpos H Hb. unfold sort_id in H. destruct (find_sort t (w_sorts st)) as [i|] eqn:E.
  - inversion H; subst st' id. exists ps. split; [exact Hinv|]. split; [apply rest_eq_refl|]. split; [reflexivity|].
    split; [exact E|]. split; [apply mono_refl|reflexivity].
  - destruct t as [w|iw dw].
    + cbn [ty_fits] in Ht. apply N.leb_le in Ht. apply (bv_sort_sim v m st ps w st' id); auto.
    + cbn [ty_fits] in Ht. apply andb_true_iff in Ht. destruct Ht as [Hi Hd]. apply N.leb_le in Hi, Hd. destruct Hpos as [Hpi Hpd].
      destruct (bv_sort_id st iw) as [st1 ix] eqn:E1. destruct (bv_sort_id st1 dw) as [st2 dx] eqn:E2.
      cbn [new_id] in H. inversion H; subst st' id. clear H. cbn [reg_sort emit w_next] in Hb.
      assert (Hb2 : w_next st2 <= BOUND) by lia.
      assert (Hm12 : w_next st1 <= w_next st2).
      { unfold bv_sort_id in E2. destruct (find_sort (TBV dw) (w_sorts st1)); inversion E2; subst; cbn; lia. }
      destruct (bv_sort_sim v m st ps iw st1 ix Hinv Hi Hpi E1 ltac:(lia)) as (ps1 & Hinv1 & Hr1 & Hs1 & Hf1 & Hmo1 & He1).
      destruct (bv_sort_sim v m st1 ps1 dw st2 dx Hinv1 Hd Hpd E2 Hb2) as (ps2 & Hinv2 & Hr2 & Hs2 & Hf2 & Hmo2 & He2).
      assert (Hfx : find_sort (TBV iw) (w_sorts st2) = Some ix) by (apply Hmo2; exact Hf1).
      destruct (i_sorts _ _ _ _ Hinv2 _ _ Hfx) as [Hlx Htx]. destruct (i_sorts _ _ _ _ Hinv2 _ _ Hf2) as [Hld Htd].
      assert (Hnone : find_sort (TArr iw dw) (w_sorts st2) = None).
      { clear - E E1 E2. unfold bv_sort_id in *.
        destruct (find_sort (TBV iw) (w_sorts st)); inversion E1; subst; clear E1;
          destruct (find_sort (TBV dw) (w_sorts _)); inversion E2; subst; clear E2;
          cbn [reg_sort emit new_id w_sorts find_sort ty_eqb]; exact E. }
      unfold BOUND in *.
      assert (Hl : parse_line_v v true ps2 [num (w_next st2); "sort"; "array"; num ix; num dx] =
                   POk (set_types ps2 (PM.add (key (w_next st2)) (TArr iw dw) (p_types ps2)))).
      { apply plv; [intros _; apply (sort_arr_pre ps2 _ ix dx iw dw); auto; lia|apply sort_arr_line; auto; lia]. }
      destruct (inv_reg_sort v m st2 ps2 _ (TArr iw dw) Hinv2 Hnone Hl) as [Hinv' Hmono].
      eexists. split; [exact Hinv'|]. split.
      { eapply rest_eq_trans; [exact Hr1|]. eapply rest_eq_trans; [exact Hr2|]. repeat split. }
      split; [cbn [set_types p_signals]; congruence|]. split.
      { cbn [reg_sort emit new_id fst w_sorts find_sort ty_eqb]. rewrite !N.eqb_refl. reflexivity. }
      split; [eapply mono_trans; [exact Hmo1|]; eapply mono_trans; [exact Hmo2|exact Hmono]|].
      cbn [reg_sort emit new_id fst w_exprs]. congruence.
Qed.

(** ** expression trees *)
Definition finish_emit (e : expr) (st1 : wstate) (cs : list N) : pres (wstate * N) :=
  let '(st2, sort) := sort_id st1 (type_of e) in
  let '(st3, id) := new_id st2 in
  l <- node_line id sort e cs ;;
  POk (reg_expr (emit st3 l) e id, id).

Fixpoint emit_list (l : list expr) (st : wstate) : pres (wstate * list N) :=
  match l with
  | [] => POk (st, [])
  | x :: l' =>
      r <- emit_expr x st ;; let '(st1, a) := r in
      r2 <- emit_list l' st1 ;; let '(st2, cs) := r2 in POk (st2, a :: cs)
  end.

Lemma emit_expr_unfold e st : emit_expr e st =
  match find_expr e (w_exprs st) with
  | Some id => POk (st, id)
  | None => if is_symbol e then PPanic PWrongKind
            else r <- emit_list (children e) st ;; let '(st1, cs) := r in finish_emit e st1 cs
  end.
Proof.
  destruct e; cbn [emit_expr]; destruct (find_expr _ _); try reflexivity; cbn [is_symbol children emit_list];
    repeat match goal with
           | |- context[emit_expr ?x ?s] => destruct (emit_expr x s) as [[? ?]| |]; cbn [pbind]; try reflexivity
           end.
Qed.

Lemma node_line_pre m id sort e cs : node_line id sort (pre m e) cs = node_line id sort e cs.
Proof. destruct e; reflexivity. Qed.

Lemma bv_sort_mono_next st w st' id : bv_sort_id st w = (st', id) -> w_next st <= w_next st'.
Proof. unfold bv_sort_id. destruct (find_sort (TBV w) (w_sorts st)); intros H; inversion H; cbn; lia. Qed.

Lemma sort_id_mono_next st t st' id : sort_id st t = (st', id) -> w_next st <= w_next st'.
Proof.
  unfold sort_id. destruct (find_sort t (w_sorts st)); [intros H; inversion H; lia|].
  destruct t as [w|iw dw]; [apply bv_sort_mono_next|].
  destruct (bv_sort_id st iw) as [s1 ix] eqn:E1. destruct (bv_sort_id s1 dw) as [s2 dx] eqn:E2.
  apply bv_sort_mono_next in E1, E2. intros H; inversion H; cbn; lia.
Qed.

Lemma finish_sim v m e st1 ps1 cs st' id :
  Inv v m st1 ps1 -> is_symbol e = false -> wt e = true -> efits e = true ->
  find_expr e (w_exprs st1) = None ->
  Forall2 (fun c i => find_expr c (w_exprs st1) = Some i) (children e) cs ->
  finish_emit e st1 cs = POk (st', id) -> w_next st' <= BOUND ->
  exists ps', Inv v m st' ps' /\ rest_eq ps1 ps' /\ find_expr e (w_exprs st') = Some id /\ mono st1 st'.
Proof.
  intros Hinv Es Hwt Hf Hnone Hcs H Hb. unfold finish_emit in H.
  destruct (sort_id st1 (type_of e)) as [st2 sort] eqn:Esort. cbn [new_id] in H.
  destruct (node_line (w_next st2) sort e cs) as [l| |] eqn:El; cbn [pbind] in H; try discriminate.
  inversion H; subst st' id. clear H. cbn [reg_expr emit w_next] in Hb.
  destruct (sort_id_sim v m st1 ps1 (type_of e) st2 sort Hinv (efits_ty e Hf) (wt_pos e Hwt) Esort ltac:(lia))
    as (ps2 & Hinv2 & Hr2 & Hs2 & Hfs & Hmo2 & He2).
  pose proof (i_map _ _ _ _ Hinv) as Hm.
  destruct (pre_ok m e Hm Es Hwt) as [Hwp Htp].
  assert (Hfp : efits (pre m e) = true).
  { rewrite efits_children, Htp, (efits_ty e Hf), (pre_children m e Es). cbn [andb].
    apply forallb_forall. intros c' Hin. apply in_map_iff in Hin. destruct Hin as (c & <- & Hin).
    apply tr_efits; auto; [apply (wt_child e)|apply (efits_child e)]; auto. }
  assert (Hkind : match pre m e with BVSymbol _ _ | ArraySymbol _ _ _ | ArrayConstant _ _ _ => False | _ => True end).
  { destruct e; cbn [is_symbol] in Es; try discriminate; cbn [pre]; try exact I; try (cbn [node_line] in El; discriminate). }
  destruct (i_sorts _ _ _ _ Hinv2 _ _ Hfs) as [Hls Hts].
  assert (Hcs2 : Forall2 (fun c i => find_expr c (w_exprs st2) = Some i) (children e) cs).
  { rewrite He2. exact Hcs. }
  unfold BOUND in *.
  assert (Hcs_le : Forall (fun c => c <= U32MAX) cs).
  { clear - Hcs2 Hinv2 Hb. induction Hcs2 as [|c i l1 l2 Hci _ IH]; constructor; auto.
    destruct (i_exprs _ _ _ _ Hinv2 _ _ Hci) as (Hlt & _). lia. }
  assert (Hcs_sig : Forall2 (fun c x => PM.find (key c) (p_signals ps2) = Some x) cs (children (pre m e))).
  { rewrite (pre_children m e Es). clear - Hcs2 Hinv2. induction Hcs2 as [|c i l1 l2 Hci _ IH]; cbn [map]; constructor; auto.
    destruct (i_exprs _ _ _ _ Hinv2 _ _ Hci) as (_ & Hfi & _). exact Hfi. }
  assert (Hl : parse_line_v v true ps2 l = POk (set_signal ps2 (w_next st2) (norm_node (pre m e)))).
  { apply plv.
    - intros _. apply (node_line_checks ps2 (w_next st2) sort (pre m e) cs l); auto.
      + apply efits_node; auto.
      + rewrite node_line_pre. exact El.
      + lia.
      + rewrite Htp. exact Hts.
    - apply (node_line_parse ps2 (w_next st2) sort (pre m e) cs l); auto.
      + apply efits_node; auto.
      + apply efits_node; [apply norm_node_wt; exact Hwp|apply efits_norm; exact Hfp].
      + rewrite node_line_pre. exact El.
      + lia.
      + lia.
      + rewrite Htp. exact Hts. }
  rewrite <- (tr_pre m e Es) in Hl.
  assert (Hincl : incl (syms e) (sm_dom m)).
  { rewrite (syms_children e Es). intros s Hs. apply in_flat_map in Hs. destruct Hs as (c & Hc & Hs).
    clear - Hcs2 Hinv2 Hc Hs. induction Hcs2 as [|c0 i l1 l2 Hci _ IH]; [contradiction|].
    destruct Hc as [->|Hc]; [|auto]. destruct (i_exprs _ _ _ _ Hinv2 _ _ Hci) as (_ & _ & Hi). apply Hi. exact Hs. }
  assert (Hnone2 : find_expr e (w_exprs st2) = None) by (rewrite He2; exact Hnone).
  destruct (inv_reg_expr v m st2 ps2 l e Hinv2 Hnone2 Hincl Hl) as [Hinv' Hmono].
  eexists. split; [exact Hinv'|]. split; [eapply rest_eq_trans; [exact Hr2|repeat split]|]. split.
  - cbn [reg_expr emit new_id fst w_exprs find_expr]. rewrite expr_eqb_refl. reflexivity.
  - eapply mono_trans; [exact Hmo2|exact Hmono].
Qed.

(** the size of a tree: what is registered while a tree is emitted is no larger than the tree *)
Fixpoint esize (e : expr) : nat :=
  S (match e with
     | BVSymbol _ _ | BVLiteral _ _ | ArraySymbol _ _ _ => 0
     | BVZeroExt x _ _ | BVSignExt x _ _ | BVSlice x _ _ | BVNot x _ | BVNegate x _
     | ArrayConstant x _ _ => esize x
     | BVEqual a b | BVImplies a b | BVGreater a b | BVGreaterSigned a b _
     | BVGreaterEqual a b | BVGreaterEqualSigned a b _ | BVConcat a b _
     | BVAnd a b _ | BVOr a b _ | BVXor a b _ | BVShiftLeft a b _
     | BVArithmeticShiftRight a b _ | BVShiftRight a b _ | BVAdd a b _ | BVMul a b _
     | BVSignedDiv a b _ | BVUnsignedDiv a b _ | BVSignedMod a b _ | BVSignedRem a b _
     | BVUnsignedRem a b _ | BVSub a b _ | BVArrayRead a b _ | ArrayEqual a b => esize a + esize b
     | BVIte a b c | ArrayStore a b c | ArrayIte a b c => esize a + esize b + esize c
     end)%nat.

Lemma esize_child e c : In c (children e) -> (esize c < esize e)%nat.
Proof.
  destruct e; cbn [children esize In]; intros H;
    repeat match goal with H : _ \/ _ |- _ => destruct H end; try contradiction; subst; lia.
Qed.

(** entries found in [st'] were found in [st] or are trees of size at most [n] *)
Definition fresh_small (st st' : wstate) (n : nat) : Prop :=
  forall e0 i0, find_expr e0 (w_exprs st') = Some i0 -> find_expr e0 (w_exprs st) = Some i0 \/ (esize e0 <= n)%nat.

Definition esim (v : code_variant) (m : smap) (e : expr) : Prop :=
  forall st st' id ps,
    Inv v m st ps -> wt e = true -> efits e = true ->
    emit_expr e st = POk (st', id) -> w_next st' <= BOUND ->
    exists ps', Inv v m st' ps' /\ rest_eq ps ps' /\ find_expr e (w_exprs st') = Some id /\ mono st st' /\
                fresh_small st st' (esize e).

Lemma emit_expr_next : forall e s s' i, emit_expr e s = POk (s', i) -> w_next s <= w_next s'.
Proof.
  apply (expr_ind_children (fun e => forall s s' i, emit_expr e s = POk (s', i) -> w_next s <= w_next s')).
  intros e IH s s' i H. rewrite emit_expr_unfold in H. destruct (find_expr e (w_exprs s)); [inversion H; lia|].
  destruct (is_symbol e); [discriminate|].
  destruct (emit_list (children e) s) as [[s1 cs]| |] eqn:El; cbn [pbind] in H; try discriminate.
  assert (H1 : w_next s <= w_next s1).
  { clear H. revert s s1 cs El. induction IH as [|c l Hc _ IHl]; intros s s1 cs El; cbn [emit_list] in El.
    - inversion El; lia.
    - destruct (emit_expr c s) as [[sa a]| |] eqn:Ec; cbn [pbind] in El; try discriminate.
      destruct (emit_list l sa) as [[sb cs']| |] eqn:El'; cbn [pbind] in El; try discriminate.
      inversion El; subst. specialize (Hc _ _ _ Ec). specialize (IHl _ _ _ El'). lia. }
  unfold finish_emit in H. destruct (sort_id s1 (type_of e)) as [s2 sort] eqn:Es. cbn [new_id] in H.
  destruct (node_line _ _ _ _); cbn [pbind] in H; try discriminate. inversion H; subst. cbn.
  pose proof (sort_id_mono_next _ _ _ _ Es). lia.
Qed.

Lemma emit_list_next l : forall s s' cs, emit_list l s = POk (s', cs) -> w_next s <= w_next s'.
Proof.
  induction l as [|c l IH]; intros s s' cs H; cbn [emit_list] in H.
  - inversion H; lia.
  - destruct (emit_expr c s) as [[sa a]| |] eqn:Ec; cbn [pbind] in H; try discriminate.
    destruct (emit_list l sa) as [[sb cs']| |] eqn:El'; cbn [pbind] in H; try discriminate.
    inversion H; subst. apply emit_expr_next in Ec. apply IH in El'. lia.
Qed.

Fixpoint max_size (l : list expr) : nat :=
  match l with [] => 0%nat | x :: l' => Nat.max (esize x) (max_size l') end.

Lemma emit_list_sim v m l : Forall (esim v m) l -> forall st st1 cs ps,
  Inv v m st ps -> Forall (fun c => wt c = true) l -> Forall (fun c => efits c = true) l ->
  emit_list l st = POk (st1, cs) -> w_next st1 <= BOUND ->
  exists ps1, Inv v m st1 ps1 /\ rest_eq ps ps1 /\
              Forall2 (fun c i => find_expr c (w_exprs st1) = Some i) l cs /\ mono st st1 /\
              fresh_small st st1 (max_size l).
Proof.
  induction 1 as [|x l Hx Hl IH]; intros st st1 cs ps Hinv Hwt Hf H Hb; cbn [emit_list] in H.
  - inversion H; subst. exists ps. split; [exact Hinv|]. split; [apply rest_eq_refl|]. split; [constructor|].
    split; [apply mono_refl|]. intros e0 i0 H0. left. exact H0.
  - apply Forall_cons_iff in Hwt. destruct Hwt as [Hwx Hwl]. apply Forall_cons_iff in Hf. destruct Hf as [Hfx Hfl].
    destruct (emit_expr x st) as [[sa a]| |] eqn:Ex; cbn [pbind] in H; try discriminate.
    destruct (emit_list l sa) as [[sb cs']| |] eqn:El; cbn [pbind] in H; try discriminate.
    inversion H; subst st1 cs. clear H.
    assert (Hba : w_next sa <= BOUND) by (apply emit_list_next in El; lia).
    destruct (Hx st sa a ps Hinv Hwx Hfx Ex Hba) as (psa & Hinva & Hra & Hfa & Hmoa & Hsa).
    destruct (IH sa sb cs' psa Hinva Hwl Hfl El Hb) as (psb & Hinvb & Hrb & Hfb & Hmob & Hsb).
    exists psb. split; [exact Hinvb|]. split; [eapply rest_eq_trans; eauto|]. split.
    + constructor; [apply Hmob; exact Hfa|exact Hfb].
    + split; [eapply mono_trans; eauto|].
      intros e0 i0 H0. cbn [max_size]. destruct (Hsb _ _ H0) as [H1|H1]; [|right; lia].
      destruct (Hsa _ _ H1) as [H2|H2]; [left; exact H2|right; lia].
Qed.

Lemma max_size_children e : (max_size (children e) < esize e)%nat.
Proof. destruct e; cbn [children max_size esize]; lia. Qed.

Theorem emit_expr_sim v m : forall e, esim v m e.
Proof.
  apply expr_ind_children. intros e IH st st' id ps Hinv Hwt Hf H Hb.
  rewrite emit_expr_unfold in H. destruct (find_expr e (w_exprs st)) as [i|] eqn:E.
  - inversion H; subst st' id. exists ps. split; [exact Hinv|]. split; [apply rest_eq_refl|]. split; [exact E|].
    split; [apply mono_refl|]. intros e0 i0 H0. left. exact H0.
  - destruct (is_symbol e) eqn:Es; [discriminate|].
    destruct (emit_list (children e) st) as [[s1 cs]| |] eqn:El; cbn [pbind] in H; try discriminate.
    assert (Hb1 : w_next s1 <= BOUND).
    { unfold finish_emit in H. destruct (sort_id s1 (type_of e)) as [s2 sort] eqn:Esort. cbn [new_id] in H.
      destruct (node_line _ _ _ _); cbn [pbind] in H; try discriminate. inversion H; subst. cbn [reg_expr emit w_next] in Hb.
      pose proof (sort_id_mono_next _ _ _ _ Esort). lia. }
    assert (Hwc : Forall (fun c => wt c = true) (children e)).
    { apply Forall_forall. intros c Hc. apply (wt_child e); auto. }
    assert (Hfc : Forall (fun c => efits c = true) (children e)).
    { apply Forall_forall. intros c Hc. apply (efits_child e); auto. }
    destruct (emit_list_sim v m (children e) IH st s1 cs ps Hinv Hwc Hfc El Hb1) as (ps1 & Hinv1 & Hr1 & Hcs & Hmo1 & Hsm1).
    assert (Hnone : find_expr e (w_exprs s1) = None).
    { destruct (find_expr e (w_exprs s1)) as [i|] eqn:E1; [|reflexivity]. exfalso.
      destruct (Hsm1 _ _ E1) as [H1|H1]; [congruence|]. pose proof (max_size_children e). lia. }
    destruct (finish_sim v m e s1 ps1 cs st' id Hinv1 Es Hwt Hf Hnone Hcs H Hb) as (ps' & Hinv' & Hr' & Hfe & Hmo').
    exists ps'. split; [exact Hinv'|]. split; [eapply rest_eq_trans; eauto|]. split; [exact Hfe|].
    split; [eapply mono_trans; eauto|].
    intros e0 i0 H0.
    (* what finish registers is [e] itself *)
    unfold finish_emit in H. destruct (sort_id s1 (type_of e)) as [s2 sort] eqn:Esort. cbn [new_id] in H.
    destruct (node_line _ _ _ _); cbn [pbind] in H; try discriminate. inversion H; subst st' id. clear H.
    cbn [reg_expr emit w_exprs find_expr] in H0. destruct (expr_eqb e0 e) eqn:Ee.
    + apply expr_eqb_eq in Ee. subst e0. right. lia.
    + assert (He2 : w_exprs s2 = w_exprs s1).
      { pose proof (i_map _ _ _ _ Hinv1) as Hm. 
        destruct (sort_id_sim v m s1 ps1 (type_of e) s2 sort Hinv1 (efits_ty e Hf) (wt_pos e Hwt) Esort) as (? & _ & _ & _ & _ & _ & He2); [|exact He2].
        cbn [reg_expr emit w_next] in Hb. lia. }
      rewrite He2 in H0. destruct (Hsm1 _ _ H0) as [H1|H1]; [left; exact H1|right]. pose proof (max_size_children e). lia.
Qed.
