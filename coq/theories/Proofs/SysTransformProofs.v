(** * Proofs/SysTransformProofs.v — system-level transformations preserve behaviour. *)
From Coq Require Import Lia.
From Patronus Require Import SysTransform BVLemmas ExprLemmas EvalProofs ExprEqb SimplifyBuilders SimplifyProofs
     CoiSpec CoiProofs.
Open Scope N_scope.

(** ** relation between a system and its expression-wise rewritten version *)
Inductive opt_rel {A} (R : A -> A -> Prop) : option A -> option A -> Prop :=
| opt_none : opt_rel R None None
| opt_some x y : R x y -> opt_rel R (Some x) (Some y).

Definition st_rel (st st' : state) : Prop :=
  st_sym st' = st_sym st /\ opt_rel ok_rw (st_init st) (st_init st') /\ opt_rel ok_rw (st_next st) (st_next st').

Definition sys_rel (sy sy' : sys) : Prop :=
  s_inputs sy' = s_inputs sy /\
  Forall2 st_rel (s_states sy) (s_states sy') /\
  Forall2 (fun o o' => fst o' = fst o /\ ok_rw (snd o) (snd o')) (s_outputs sy) (s_outputs sy') /\
  Forall2 ok_rw (s_bads sy) (s_bads sy') /\
  Forall2 ok_rw (s_constraints sy) (s_constraints sy').

(** ** [simplify_sys] produces a related system *)
Lemma simp_symbol n s r : is_symbol s = true -> simp n s = SOk r -> r = s.
Proof.
  intros Hs H. destruct n as [|n]; [discriminate|].
  destruct s; try discriminate Hs; cbn in H; inversion H; reflexivity.
Qed.

Lemma simp_opt_ok n e r : wt e = true -> simp_opt n e = Some r -> ok_rw e r.
Proof.
  unfold simp_opt. intros Hwt H. destruct (simp n e) eqn:E; try discriminate. inversion H; subst.
  now apply (simp_sound_lemma n).
Qed.

Lemma map_opt_Forall2 {A B} (f : A -> option B) (R : A -> B -> Prop) l l' :
  (forall x y, In x l -> f x = Some y -> R x y) -> map_opt f l = Some l' -> Forall2 R l l'.
Proof.
  revert l'. induction l as [|x rest IH]; intros l' H Hm; cbn [map_opt] in Hm.
  - inversion Hm. constructor.
  - destruct (f x) eqn:Ex; [|discriminate]. destruct (map_opt f rest) eqn:Er; [|discriminate].
    inversion Hm; subst. constructor; [apply H; [now left|assumption]|].
    apply IH; [|reflexivity]. intros a b' Ha. apply H. now right.
Qed.

Lemma sys_ok_parts sy : sys_ok sy = true ->
  Forall (fun i => is_symbol i = true /\ wt i = true) (s_inputs sy) /\
  Forall (fun st => state_ok st = true) (s_states sy) /\
  Forall (fun o => wt (snd o) = true) (s_outputs sy) /\
  Forall (fun e => bool_expr_ok e = true) (s_bads sy) /\
  Forall (fun e => bool_expr_ok e = true) (s_constraints sy).
Proof.
  unfold sys_ok. rewrite !andb_true_iff, !forallb_forall. intros ((((H1 & H2) & H3) & H4) & H5).
  repeat split; apply Forall_forall; intros x Hx; auto.
  specialize (H1 x Hx). apply andb_true_iff in H1. exact H1.
Qed.

Lemma state_ok_parts st : state_ok st = true ->
  is_symbol (st_sym st) = true /\ wt (st_sym st) = true /\
  (forall e, st_init st = Some e -> wt e = true /\ type_of e = type_of (st_sym st)) /\
  (forall e, st_next st = Some e -> wt e = true /\ type_of e = type_of (st_sym st)).
Proof.
  unfold state_ok. rewrite !andb_true_iff. intros (((H1 & H2) & H3) & H4).
  assert (Hty : forall a b, ty_eqb a b = true -> a = b).
  { intros [x|i d] [y|i' d']; cbn; try discriminate.
    - intros E. apply N.eqb_eq in E. now subst.
    - rewrite andb_true_iff, !N.eqb_eq. intros [-> ->]. reflexivity. }
  repeat split; auto.
  - destruct (st_init st); [|discriminate]. inversion H. subst. apply andb_true_iff in H3. tauto.
  - destruct (st_init st); [|discriminate]. inversion H. subst. apply andb_true_iff in H3. apply Hty. tauto.
  - destruct (st_next st); [|discriminate]. inversion H. subst. apply andb_true_iff in H4. tauto.
  - destruct (st_next st); [|discriminate]. inversion H. subst. apply andb_true_iff in H4. apply Hty. tauto.
Qed.

Lemma bool_expr_ok_parts e : bool_expr_ok e = true -> wt e = true /\ type_of e = TBV 1.
Proof.
  unfold bool_expr_ok. rewrite andb_true_iff. intros [H1 H2]. split; [assumption|].
  destruct (type_of e); cbn in H2; try discriminate. apply N.eqb_eq in H2. now subst.
Qed.

Theorem simplify_sys_rel n sy sy' : sys_ok sy = true -> simplify_sys n sy = Some sy' -> sys_rel sy sy'.
Proof.
  intros Hok Hs. destruct (sys_ok_parts sy Hok) as (Hi & Hst & Ho & Hb & Hc).
  unfold simplify_sys, update_sys in Hs.
  destruct (map_opt (simp_opt n) (s_inputs sy)) as [i'|] eqn:Ei; [|discriminate].
  destruct (map_opt _ (s_states sy)) as [s'|] eqn:Es; [|discriminate].
  destruct (map_opt _ (s_outputs sy)) as [o'|] eqn:Eo; [|discriminate].
  destruct (map_opt (simp_opt n) (s_bads sy)) as [b'|] eqn:Eb; [|discriminate].
  destruct (map_opt (simp_opt n) (s_constraints sy)) as [c'|] eqn:Ec; [|discriminate].
  inversion Hs; subst sy'; clear Hs. unfold sys_rel; cbn [s_inputs s_states s_outputs s_bads s_constraints].
  rewrite Forall_forall in Hi, Hst, Ho, Hb, Hc.
  split; [|split; [|split; [|split]]].
  - (* inputs are symbols: unchanged *)
    assert (F : Forall2 (fun x y => y = x) (s_inputs sy) i').
    { eapply map_opt_Forall2; [|exact Ei]. intros x y Hx Hy. unfold simp_opt in Hy.
      destruct (simp n x) eqn:E; try discriminate. inversion Hy; subst.
      apply (simp_symbol n x); [apply (Hi x Hx)|exact E]. }
    clear Ei. induction F; [reflexivity|]. subst. f_equal. apply IHF. intros z Hz. apply Hi. now right.
  - eapply map_opt_Forall2; [|exact Es]. intros st st' Hin Hst'. cbn beta in Hst'.
    destruct (state_ok_parts st (Hst st Hin)) as (Hsym & Hwsym & Hinit & Hnext).
    destruct (simp_opt n (st_sym st)) as [s1|] eqn:E1; [|discriminate].
    destruct (opt_map (simp_opt n) (st_init st)) as [i1|] eqn:E2; [|discriminate].
    destruct (opt_map (simp_opt n) (st_next st)) as [n1|] eqn:E3; [|discriminate].
    inversion Hst'; subst st'; clear Hst'. unfold st_rel; cbn [st_sym st_init st_next].
    split; [|split].
    + unfold simp_opt in E1. destruct (simp n (st_sym st)) eqn:E; try discriminate. inversion E1; subst.
      now apply (simp_symbol n (st_sym st)).
    + unfold opt_map in E2. destruct (st_init st) as [e|]; [|inversion E2; constructor].
      destruct (simp_opt n e) eqn:E; [|discriminate]. inversion E2; subst. constructor.
      apply (simp_opt_ok n); [apply (Hinit e eq_refl)|exact E].
    + unfold opt_map in E3. destruct (st_next st) as [e|]; [|inversion E3; constructor].
      destruct (simp_opt n e) eqn:E; [|discriminate]. inversion E3; subst. constructor.
      apply (simp_opt_ok n); [apply (Hnext e eq_refl)|exact E].
  - eapply map_opt_Forall2; [|exact Eo]. intros o o1 Hin Ho1. cbn beta in Ho1.
    destruct (simp_opt n (snd o)) eqn:E; [|discriminate]. inversion Ho1; subst. cbn [fst snd].
    split; [reflexivity|]. apply (simp_opt_ok n); [apply (Ho o Hin)|exact E].
  - eapply map_opt_Forall2; [|exact Eb]. intros e e1 Hin He. apply (simp_opt_ok n); [|exact He].
    apply (bool_expr_ok_parts e (Hb e Hin)).
  - eapply map_opt_Forall2; [|exact Ec]. intros e e1 Hin He. apply (simp_opt_ok n); [|exact He].
    apply (bool_expr_ok_parts e (Hc e Hin)).
Qed.

(** ** semantic consequences *)
Definition env_equiv (r1 r2 : env) : Prop := forall s, agree_on s r1 r2.

Lemma env_equiv_refl r : env_equiv r r.
Proof. intros s. apply agree_on_refl. Qed.

Lemma env_equiv_value e r1 r2 : env_equiv r1 r2 -> same_value e r1 r2.
Proof. intros H. apply eval_ext. intros s _. apply H. Qed.

(** value of a rewritten expression under an equivalent valuation *)
Lemma rw_value e e' r1 r2 : ok_rw e e' -> env_wf r2 -> env_equiv r1 r2 ->
  ebv r1 e = ebv r2 e' /\ forall i, earr r1 e i = earr r2 e' i.
Proof.
  intros (_ & _ & S) Hw Heq. destruct (env_equiv_value e r1 r2 Heq) as [E A].
  destruct (S r2 Hw) as [E' A']. split; [congruence|]. intros i. now rewrite A, A'.
Qed.

Lemma agree_assign2 s t ra rb ra' rb' e e' :
  (s = t -> ebv ra' e = ebv rb' e' /\ forall i, earr ra' e i = earr rb' e' i) ->
  (s <> t -> agree_on s ra rb) ->
  agree_on s (assign ra t ra' e) (assign rb t rb' e').
Proof.
  intros Heq Hne. destruct (is_symbol s) eqn:Es; [|now apply agree_on_nonsym].
  destruct s; try discriminate Es; clear Es.
  - destruct t; cbn [assign]; try (apply Hne; discriminate).
    cbn [agree_on upd_bv rho_bv].
    destruct (String.eqb name name0 && (w =? w0)) eqn:E.
    + apply andb_prop in E. destruct E as [E1 E2]. apply String.eqb_eq in E1. apply N.eqb_eq in E2.
      subst. now destruct (Heq eq_refl).
    + apply Hne. intros H. inversion H; subst. now rewrite String.eqb_refl, N.eqb_refl in E.
  - destruct t; cbn [assign]; try (apply Hne; discriminate).
    cbn [agree_on upd_arr rho_arr]. intros i.
    destruct (String.eqb name name0 && (iw =? iw0) && (dw =? dw0)) eqn:E.
    + apply andb_prop in E. destruct E as [E E3]. apply andb_prop in E. destruct E as [E1 E2].
      apply String.eqb_eq in E1. apply N.eqb_eq in E2. apply N.eqb_eq in E3.
      subst. destruct (Heq eq_refl) as [_ H]. apply H.
    + assert (Hd : ArraySymbol name iw dw <> ArraySymbol name0 iw0 dw0).
      { intros H. inversion H; subst. now rewrite String.eqb_refl, !N.eqb_refl in E. }
      apply (Hne Hd).
Qed.

Lemma assign_equiv t ra rb ra' rb' e e' :
  env_equiv ra rb -> ok_rw e e' -> env_wf rb' -> env_equiv ra' rb' ->
  env_equiv (assign ra t ra' e) (assign rb t rb' e').
Proof.
  intros Hacc Hrw Hw Hsrc s. apply agree_assign2; [|intros _; apply Hacc].
  intros _. now apply rw_value.
Qed.

(** well-formedness of valuations is preserved by assignments of well-typed expressions *)
Lemma assign_wf rho t src e : env_wf rho -> env_wf src -> wt e = true -> type_of e = type_of t ->
  env_wf (assign rho t src e).
Proof.
  intros [Hb Ha] Hsrc We Te. destruct t; cbn [assign]; try (split; assumption); cbn [type_of] in Te.
  - split; [|exact Ha]. intros n w'. cbn [upd_bv rho_bv].
    destruct (String.eqb n name && (w' =? w)) eqn:E; [|apply Hb].
    apply andb_prop in E. destruct E as [_ E]. apply N.eqb_eq in E. subst. now apply ebv_bound.
  - split; [exact Hb|]. intros n iw' dw' i. cbn [upd_arr rho_arr].
    destruct (String.eqb n name && (iw' =? iw) && (dw' =? dw)) eqn:E; [|apply Ha].
    apply andb_prop in E. destruct E as [E E3]. apply N.eqb_eq in E3. subst. now apply (earr_bound src Hsrc e iw).
Qed.

Lemma next_env_wf sy rho free : Forall (fun st => state_ok st = true) (s_states sy) ->
  env_wf rho -> env_wf free -> env_wf (next_env sy rho free).
Proof.
  unfold next_env. intros Hst Hr. revert free. induction Hst as [|st rest Hok _ IH]; intros free Hf; cbn [fold_left]; [exact Hf|].
  apply IH. destruct (state_ok_parts st Hok) as (_ & _ & _ & Hn).
  destruct (st_next st) as [e|]; [|exact Hf]. destruct (Hn e eq_refl). now apply assign_wf.
Qed.

Lemma init_seq_wf sy rho0 : Forall (fun st => state_ok st = true) (s_states sy) ->
  env_wf rho0 -> env_wf (init_seq sy rho0).
Proof.
  unfold init_seq. intros Hst. revert rho0. induction Hst as [|st rest Hok _ IH]; intros rho0 Hr; cbn [fold_left]; [exact Hr|].
  apply IH. destruct (state_ok_parts st Hok) as (_ & _ & Hi & _).
  destruct (st_init st) as [e|]; [|exact Hr]. destruct (Hi e eq_refl). now apply assign_wf.
Qed.

(** the rewritten system is well-formed too *)
Lemma st_rel_ok st st' : state_ok st = true -> st_rel st st' -> state_ok st' = true.
Proof.
  intros Hok (Hs & Hi & Hn). destruct (state_ok_parts st Hok) as (Hsym & Hw & Hin & Hne).
  unfold state_ok. rewrite Hs, Hsym, Hw. cbn [andb].
  assert (Hty : forall t, ty_eqb t t = true).
  { intros [x|i d]; cbn; rewrite ?N.eqb_refl; reflexivity. }
  apply andb_true_iff. split.
  - inversion Hi as [|x y (Wy & Ty & _) Ex Ey]; [reflexivity|].
    destruct (Hin x (eq_sym Ex)) as [_ Tx]. rewrite Wy, Ty, Tx, Hty. reflexivity.
  - inversion Hn as [|x y (Wy & Ty & _) Ex Ey]; [reflexivity|].
    destruct (Hne x (eq_sym Ex)) as [_ Tx]. rewrite Wy, Ty, Tx, Hty. reflexivity.
Qed.

Lemma sys_rel_states_ok sy sy' : sys_ok sy = true -> sys_rel sy sy' ->
  Forall (fun st => state_ok st = true) (s_states sy').
Proof.
  intros Hok (_ & Hst & _). destruct (sys_ok_parts sy Hok) as (_ & H & _).
  induction Hst as [|st st' rest rest' Hr _ IH]; [constructor|].
  inversion H; subst. constructor; [eapply st_rel_ok; eassumption|now apply IH].
Qed.

Theorem next_env_rel sy sy' rho rho' free free' :
  sys_ok sy = true -> sys_rel sy sy' -> env_wf rho' ->
  env_equiv rho rho' -> env_equiv free free' ->
  env_equiv (next_env sy rho free) (next_env sy' rho' free').
Proof.
  intros Hok (_ & Hst & _) Hw Hr. unfold next_env. revert free free'.
  induction Hst as [|st st' rest rest' (Hs & _ & Hn) _ IH]; intros free free' Hf; cbn [fold_left]; [exact Hf|].
  apply IH. rewrite Hs. inversion Hn as [|x y Hxy]; [exact Hf|]. now apply assign_equiv.
Qed.

Theorem init_seq_rel sy sy' rho0 rho0' :
  sys_ok sy = true -> sys_rel sy sy' -> env_wf rho0' -> env_equiv rho0 rho0' ->
  env_equiv (init_seq sy rho0) (init_seq sy' rho0').
Proof.
  intros Hok Hrel. pose proof (sys_rel_states_ok sy sy' Hok Hrel) as Hok'.
  destruct Hrel as (_ & Hst & _). unfold init_seq. revert rho0 rho0' Hok'.
  induction Hst as [|st st' rest rest' (Hs & Hi & _) _ IH]; intros rho0 rho0' Hok' Hw Hr; cbn [fold_left]; [exact Hr|].
  inversion Hok' as [|? ? Hst' Hrest']; subst.
  destruct (state_ok_parts st' Hst') as (_ & _ & Hin' & _).
  rewrite Hs. inversion Hi as [|x y Hxy Ex Ey].
  - now apply IH.
  - destruct (Hin' y (eq_sym Ey)) as [Wy Ty]. rewrite Hs in Ty. apply IH; [assumption| |].
    + apply assign_wf; assumption.
    + now apply assign_equiv.
Qed.

(** observations: constraints and bad states hold in the same valuations *)
Lemma holds_rel e e' r r' : ok_rw e e' -> env_wf r' -> env_equiv r r' -> holds r e = holds r' e'.
Proof. intros Hrw Hw Hq. unfold holds. now destruct (rw_value e e' r r' Hrw Hw Hq) as [-> _]. Qed.

Theorem constraints_hold_rel sy sy' r r' : sys_rel sy sy' -> env_wf r' -> env_equiv r r' ->
  constraints_hold sy r = constraints_hold sy' r'.
Proof.
  intros (_ & _ & _ & _ & Hc) Hw Hq. unfold constraints_hold.
  induction Hc as [|e e' l l' He _ IH]; [reflexivity|]. cbn [forallb]. now rewrite IH, (holds_rel e e' r r').
Qed.

Theorem some_bad_rel sy sy' r r' : sys_rel sy sy' -> env_wf r' -> env_equiv r r' ->
  some_bad sy r = some_bad sy' r'.
Proof.
  intros (_ & _ & _ & Hb & _) Hw Hq. unfold some_bad.
  induction Hb as [|e e' l l' He _ IH]; [reflexivity|]. cbn [existsb]. now rewrite IH, (holds_rel e e' r r').
Qed.

Theorem outputs_rel sy sy' r r' : sys_rel sy sy' -> env_wf r' -> env_equiv r r' ->
  Forall2 (fun o o' => fst o' = fst o /\ ebv r (snd o) = ebv r' (snd o') /\
                       forall i, earr r (snd o) i = earr r' (snd o') i) (s_outputs sy) (s_outputs sy').
Proof.
  intros (_ & _ & Ho & _) Hw Hq. induction Ho as [|o o' l l' (Hn & He) _ IH]; constructor; [|exact IH].
  split; [exact Hn|]. now apply rw_value.
Qed.

(** whole runs: the same initial valuation and the same free choices give pointwise
    equivalent traces *)
Theorem run_from_rel sy sy' : sys_ok sy = true -> sys_rel sy sy' ->
  forall frees rho rho', env_wf rho' -> Forall env_wf frees -> env_equiv rho rho' ->
  Forall2 env_equiv (run_from sy rho frees) (run_from sy' rho' frees).
Proof.
  intros Hok Hrel. pose proof (sys_rel_states_ok sy sy' Hok Hrel) as Hok'.
  induction frees as [|f fs IH]; intros rho rho' Hw Hfs Hq; cbn [run_from].
  - constructor; [exact Hq|constructor].
  - inversion Hfs; subst. constructor; [exact Hq|]. apply IH; [|assumption|].
    + now apply next_env_wf.
    + apply next_env_rel; try assumption. apply env_equiv_refl.
Qed.

(** initial valuations are the same *)
Lemma sym_agrees_rel rho s e e' : ok_rw e e' -> env_wf rho -> sym_agrees rho s rho e <-> sym_agrees rho s rho e'.
Proof.
  intros Hrw Hw. destruct (rw_value e e' rho rho Hrw Hw (env_equiv_refl rho)) as [E A].
  destruct s; cbn [sym_agrees]; try tauto.
  - now rewrite E.
  - split; intros H i; [rewrite <- A|rewrite A]; apply H.
Qed.

Theorem is_initial_rel sy sy' rho : sys_rel sy sy' -> env_wf rho -> is_initial sy rho <-> is_initial sy' rho.
Proof.
  intros (_ & Hst & _) Hw. unfold is_initial.
  induction Hst as [|st st' rest rest' (Hs & Hi & _) _ IH].
  - split; intros _ st e [].
  - split; intros H st0 e [<-|Hin] He.
    + inversion Hi as [|x y Hxy Ex Ey]; [congruence|]. rewrite He in Ey. inversion Ey; subst y.
      rewrite Hs. apply (sym_agrees_rel rho _ x e Hxy Hw). apply (H st x (or_introl eq_refl)). now symmetry.
    + apply (proj1 IH); [|assumption|assumption]. intros st1 e1 H1. apply H. now right.
    + inversion Hi as [|x y Hxy Ex Ey]; [congruence|]. rewrite He in Ex. inversion Ex; subst x.
      rewrite <- Hs. apply (sym_agrees_rel rho _ e y Hxy Hw). apply (H st' y (or_introl eq_refl)). now symmetry.
    + apply (proj2 IH); [|assumption|assumption]. intros st1 e1 H1. apply H. now right.
Qed.

(** ** replacing removed inputs by zero *)
Definition zero_env (removed : list expr) (rho : env) : env :=
  {| rho_bv := fun n w => if mem_expr (BVSymbol n w) removed then 0 else rho_bv rho n w;
     rho_arr := fun n iw dw => if mem_expr (ArraySymbol n iw dw) removed then (fun _ => 0) else rho_arr rho n iw dw |}.

Lemma mem_expr_In e l : mem_expr e l = true <-> In e l.
Proof.
  unfold mem_expr. rewrite existsb_exists. split.
  - intros (x & Hx & E). apply expr_eqb_eq in E. now subst.
  - intros H. exists e. split; [assumption|apply expr_eqb_refl].
Qed.

Section Subst.
  Variable removed : list expr.
  Hypothesis Hsym : forall r, In r removed -> is_symbol r = true.

  Lemma not_removed e : is_symbol e = false -> mem_expr e removed = false.
  Proof.
    intros H. destruct (mem_expr e removed) eqn:E; [|reflexivity].
    apply mem_expr_In in E. apply Hsym in E. congruence.
  Qed.

  Lemma zero_of_type e : type_of (zero_of e) = type_of e.
  Proof. unfold zero_of. destruct (type_of e); reflexivity. Qed.

  Lemma subst_zero_type e : type_of (subst_zero removed e) = type_of e.
  Proof.
    induction e; cbn [subst_zero];
      match goal with |- context [mem_expr ?x removed] => destruct (mem_expr x removed) eqn:M end;
      try (apply zero_of_type); cbn [map_children type_of]; auto.
  Qed.

  (** substitution lemma: the substituted expression under [rho] = the original under the
      valuation that maps the removed symbols to zero *)
  Lemma subst_zero_sem rho e :
    ebv rho (subst_zero removed e) = ebv (zero_env removed rho) e /\
    forall i, earr rho (subst_zero removed e) i = earr (zero_env removed rho) e i.
  Proof.
    induction e; cbn [subst_zero];
      try (match goal with |- context [mem_expr ?x removed] => rewrite (not_removed x eq_refl) end;
           cbn [map_children ebv earr];
           unfold width, index_width; rewrite ?subst_zero_type;
           repeat match goal with H : _ /\ _ |- _ => destruct H end;
           repeat match goal with H : ebv rho _ = _ |- _ => rewrite H; clear H end;
           split; [try reflexivity | intros i; try reflexivity]).
    - (* BVSymbol *)
      destruct (mem_expr (BVSymbol name w) removed) eqn:M.
      + unfold zero_of. cbn [type_of mk_zero ebv earr zero_env rho_bv]. rewrite M. split; reflexivity.
      + cbn [map_children ebv earr zero_env rho_bv]. rewrite M. split; reflexivity.
    - (* BVArrayRead *) auto.
    - (* ArraySymbol *)
      destruct (mem_expr (ArraySymbol name iw dw) removed) eqn:M.
      + unfold zero_of. cbn [type_of mk_zero ebv earr zero_env rho_arr]. rewrite M. split; reflexivity.
      + cbn [map_children ebv earr zero_env rho_arr]. rewrite M. split; reflexivity.
    - (* ArrayEqual *) f_equal. apply arr_eqb_ext; assumption.
    - (* ArrayStore *) unfold arr_store. destruct (i =? _); [reflexivity|auto].
    - (* ArrayIte *) destruct (_ =? 1); auto.
  Qed.
End Subst.

Section Subst2.
  Variable removed : list expr.
  Hypothesis Hsym : forall r, In r removed -> is_symbol r = true.

  Lemma sym_not_lit r w v : is_symbol r = true -> expr_eqb r (BVLiteral w v) = false.
  Proof. destruct r; cbn; intros H; try discriminate; reflexivity. Qed.

  Lemma occurs_zero_of r e : is_symbol r = true -> occurs r (zero_of e) = false.
  Proof.
    intros H. unfold zero_of. destruct (type_of e); cbn [occurs any_child mk_zero].
    - now rewrite sym_not_lit.
    - rewrite sym_not_lit by assumption. destruct r; cbn in *; try discriminate; reflexivity.
  Qed.

  (** the removed inputs no longer occur *)
  Lemma subst_zero_absent r e : In r removed -> occurs r (subst_zero removed e) = false.
  Proof.
    intros Hr. pose proof (Hsym r Hr) as Hrs.
    induction e; cbn [subst_zero];
      match goal with |- context [mem_expr ?x removed] => destruct (mem_expr x removed) eqn:M end;
      try (now apply occurs_zero_of);
      cbn [map_children occurs any_child];
      repeat match goal with H : occurs r _ = false |- _ => rewrite H; clear H end;
      cbn [orb]; try (destruct r; cbn in *; try discriminate; reflexivity).
    - (* BVSymbol not removed *)
      rewrite orb_false_r. destruct (expr_eqb r (BVSymbol name w)) eqn:E; [|reflexivity].
      apply expr_eqb_eq in E. subst r. apply mem_expr_In in Hr. congruence.
    - rewrite orb_false_r. destruct (expr_eqb r (ArraySymbol name iw dw)) eqn:E; [|reflexivity].
      apply expr_eqb_eq in E. subst r. apply mem_expr_In in Hr. congruence.
  Qed.

  Lemma wt_zero_of e : wt e = true -> wt (zero_of e) = true.
  Proof.
    intros H. unfold zero_of. destruct (type_of e) as [w|iw dw] eqn:T.
    - apply (B_zero w). eapply width_pos; eassumption.
    - destruct (proj2 (wt_width_pos e H) iw dw T) as [Hi Hd].
      cbn [wt]. unfold node_ok. cbn [check1 leaf_ok type_of mk_zero expect_bv_of bind_ty is_some].
      rewrite N.eqb_refl. cbn. apply N.ltb_lt in Hi, Hd. rewrite Hi, Hd.
      assert (0 <? 2 ^ dw = true) by (apply N.ltb_lt; auto with bv). now rewrite H0.
  Qed.

  (** substitution preserves well-typedness *)
  Lemma subst_zero_wt e : wt e = true -> wt (subst_zero removed e) = true.
  Proof.
    induction e; intros Hwt; cbn [subst_zero];
      match goal with |- context [mem_expr ?x removed] => destruct (mem_expr x removed) eqn:M end;
      try (now apply wt_zero_of);
      cbn [map_children]; try exact Hwt;
      pose proof (wt_children _ Hwt) as Hch; cbn [children] in Hch;
      repeat match goal with H : Forall _ (_ :: _) |- _ => inversion H; subst; clear H end;
      repeat match goal with IH : wt ?a = true -> _, H : wt ?a = true |- _ => specialize (IH H) end;
      (cbn [wt]; apply andb_true_iff; split;
       [ pose proof (wt_node_ok _ Hwt) as Hn; unfold node_ok in *; cbn [check1 leaf_ok] in *;
         unfold expect_same_width_bvs_of, expect_same_width_bvs, expect_bv_of, expect_same_size_arrays, bind_ty in *;
         rewrite ?subst_zero_type; exact Hn
       | repeat match goal with W : wt (subst_zero removed _) = true |- _ => rewrite W; clear W end; reflexivity ]).
  Qed.
End Subst2.

(** ** the whole transformation as a map over the system *)
Definition map_sys (f : expr -> expr) (sy : sys) : sys :=
  {| s_inputs := map f (s_inputs sy);
     s_states := map (fun st => {| st_sym := f (st_sym st); st_init := option_map f (st_init st);
                                   st_next := option_map f (st_next st) |}) (s_states sy);
     s_outputs := map (fun o => (fst o, f (snd o))) (s_outputs sy);
     s_bads := map f (s_bads sy);
     s_constraints := map f (s_constraints sy) |}.

Lemma map_opt_total {A B} (f : A -> B) l : map_opt (fun x => Some (f x)) l = Some (map f l).
Proof. induction l as [|x l IH]; cbn [map_opt map]; [reflexivity|now rewrite IH]. Qed.

Lemma map_opt_ext {A B} (f g : A -> option B) l : (forall x, f x = g x) -> map_opt f l = map_opt g l.
Proof. intros H. induction l as [|x l IH]; cbn [map_opt]; [reflexivity|now rewrite H, IH]. Qed.

Lemma update_sys_total f sy : update_sys (fun e => Some (f e)) sy = Some (map_sys f sy).
Proof.
  unfold update_sys, map_sys.
  rewrite (map_opt_ext _ (fun st => Some {| st_sym := f (st_sym st); st_init := option_map f (st_init st);
                                            st_next := option_map f (st_next st) |})).
  2: { intros st. destruct (st_init st), (st_next st); reflexivity. }
  rewrite !map_opt_total. reflexivity.
Qed.

Theorem replace_anonymous_eq sy :
  let removed := filter is_anonymous (s_inputs sy) in
  replace_anonymous_inputs_with_zero sy =
  map_sys (subst_zero removed)
    {| s_inputs := filter (fun i => negb (is_anonymous i)) (s_inputs sy); s_states := s_states sy;
       s_outputs := s_outputs sy; s_bads := s_bads sy; s_constraints := s_constraints sy |}.
Proof. cbn zeta. unfold replace_anonymous_inputs_with_zero. now rewrite update_sys_total. Qed.

(** C11, second half, per expression of the system: the substituted expression is well-typed,
    has the same type, contains none of the removed inputs, and under every valuation has the
    value of the original under the valuation in which the removed inputs are zero *)
Theorem replace_zero_sound_lemma sy e :
  let removed := filter is_anonymous (s_inputs sy) in
  sys_ok sy = true -> wt e = true ->
  wt (subst_zero removed e) = true /\ type_of (subst_zero removed e) = type_of e /\
  (forall r, In r removed -> occurs r (subst_zero removed e) = false) /\
  forall rho, ebv rho (subst_zero removed e) = ebv (zero_env removed rho) e /\
              forall i, earr rho (subst_zero removed e) i = earr (zero_env removed rho) e i.
Proof.
  cbn zeta. intros Hok Hwt.
  assert (Hsym : forall r, In r (filter is_anonymous (s_inputs sy)) -> is_symbol r = true).
  { intros r Hr. apply filter_In in Hr. destruct Hr as [Hr _].
    destruct (sys_ok_parts sy Hok) as (Hi & _). rewrite Forall_forall in Hi. apply (Hi r Hr). }
  split; [now apply subst_zero_wt|]. split; [apply subst_zero_type|].
  split; [intros r Hr; now apply subst_zero_absent|]. intros rho. now apply subst_zero_sem.
Qed.

(** kept inputs are untouched *)
Lemma subst_zero_kept removed i : is_symbol i = true -> mem_expr i removed = false -> subst_zero removed i = i.
Proof. intros Hs Hm. destruct i; try discriminate Hs; cbn [subst_zero]; rewrite Hm; reflexivity. Qed.
