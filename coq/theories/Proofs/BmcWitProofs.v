(** * Proofs/BmcWitProofs.v — every witness returned by the loop of bmc.rs is accepted by [check_witness].

    Part 1: a witness assembled from step valuations [R 0 .. R n] that form a constrained run ending
            in exactly the listed bad states satisfies [witness_ok] (no encoding involved).
    Part 2: [get_witness] applied to the values of a model of the script is such a witness: the step
            valuations are those read off the model (Proofs/BmcSound.v, [read]).
    Part 3: the loop [bmc_loop_w] over a correct solver, for any script family that consists of the
            commands of [script Fixed] in an accepted order; instance [script3]. *)
From Coq Require Import List Bool Lia.
From Patronus Require Import EvalImpl Encoding SysExec ReachSpec Witness Bmc BmcWit ExprLemmas BVLemmas EvalProofs McBasics
     ScriptProofs EncodingBasics EncodingFaithful EncodingWf EncodingNew EncodingNames EncodingTheorems
     EncodingWf2 EncodingOrder EncodingTheorems2 ReachBasics ReachEnum ReachBmcProofs WitnessProofs BmcProofs BmcSound.
Import ListNotations.
Open Scope N_scope.

(** ** Part 1 *)
Lemma strip_map_some {A} (f : A -> val) (l : list A) : strip (map (fun x => Some (f x)) l) = map f l.
Proof. induction l as [|a r IH]; [reflexivity|]. cbn [map strip flat_map app]. fold (strip (map (fun x => Some (f x)) r)). now rewrite IH. Qed.

Lemma opt_names_refl (l : list string) : opt_string_list_eqb (map Some l) l = true.
Proof. induction l as [|a r IH]; [reflexivity|]. cbn. now rewrite String.eqb_refl, IH. Qed.

Lemma val_ok_get_val rho s : env_wf rho -> is_symbol s = true -> val_ok (type_of s) (get_val rho s) = true.
Proof.
  intros [Hbv Harr] Hs. destruct s; try discriminate; cbn [type_of get_val val_ok].
  - apply N.ltb_lt. apply Hbv.
  - apply andb_true_iff. split.
    + apply N.eqb_eq. rewrite map_length, range_length. lia.
    + apply forallb_forall. intros x Hx. apply in_map_iff in Hx. destruct Hx as (i & <- & _). apply N.ltb_lt. apply Harr.
Qed.

Lemma vals_ok_get_val rho : forall syms, env_wf rho -> (forall s, In s syms -> is_symbol s = true) ->
  vals_ok syms (map (fun s => Some (get_val rho s)) syms) = true.
Proof.
  induction syms as [|s r IH]; intros Hw Hs; [reflexivity|]. cbn [map vals_ok].
  rewrite val_ok_get_val by (auto; apply Hs; now left). cbn [andb]. apply IH; [assumption|]. intros; apply Hs; now right.
Qed.

Lemma is_initial_to_r sy rho : is_initial sy rho -> is_initial_r sy rho.
Proof.
  intros H st e Hst He. specialize (H st e Hst He). destruct (st_sym st); cbn [sym_agrees sym_agrees_r] in *; auto.
Qed.

Section FromReads.
  Variable sy : sys.
  Hypothesis Hwf : sys_wf sy = true.
  Hypothesis Hni : nodup_exprs (s_inputs sy) = true.
  Notation eqv := (eqv sy).

  Variable R : nat -> env.
  Variable n : nat.
  Variable failed : list N.

  Definition wit_of_reads : witness :=
    {| w_init := map (fun s => Some (get_val (R 0%nat) s)) (state_syms sy);
       w_init_names := map (fun s => Some (sym_name_of s)) (state_syms sy);
       w_inputs := map (fun j => map (fun s => Some (get_val (R j) s)) (s_inputs sy)) (seq 0 (S n));
       w_input_names := map (fun s => Some (sym_name_of s)) (s_inputs sy);
       w_failed := failed |}.

  Hypothesis HRwf : forall j, env_wf (R j).
  Hypothesis HRinit : is_initial_r sy (R 0%nat).
  Let frees := map (fun i => R (S i)) (seq 0 n).
  Let run := run_from sy (R 0%nat) frees.
  Hypothesis HRrun : forall i, (i <= n)%nat -> env_wf (nth i run env0) /\ eqv (nth i run env0) (R i).
  Hypothesis HRcons : forall i, (i <= n)%nat -> constraints_hold sy (R i) = true.
  Hypothesis HRbad : bads_exactly sy (R n) failed = true.
  Hypothesis Hfailed : forall i, In i failed -> i < N.of_nat (length (s_bads sy)).

  Lemma wit_shape : witness_shape_ok sy wit_of_reads = true.
  Proof.
    unfold witness_shape_ok, wit_of_reads. cbn [w_init w_init_names w_inputs w_input_names w_failed].
    rewrite !andb_true_iff. repeat split.
    - rewrite <- (map_map sym_name_of Some). apply opt_names_refl.
    - rewrite <- (map_map sym_name_of Some). apply opt_names_refl.
    - apply vals_ok_get_val; [apply HRwf|apply (state_syms_symbol sy Hwf)].
    - apply forallb_forall. intros vs Hvs. apply in_map_iff in Hvs. destruct Hvs as (j & <- & _).
      apply vals_ok_get_val; [apply HRwf|]. intros s Hs. now apply (input_facts sy Hwf).
    - apply forallb_forall. intros i Hi. apply N.ltb_lt. now apply Hfailed.
  Qed.

  Lemma wit_env0_eqv : eqv (witness_env0 sy wit_of_reads) (R 0%nat).
  Proof.
    unfold witness_env0, wit_of_reads, input_asg. cbn [w_init w_inputs seq map hd].
    rewrite !strip_map_some, !combine_map.
    change (map (fun x => (x, get_val (R 0%nat) x)) (s_inputs sy)) with (asg_of (R 0%nat) (s_inputs sy)).
    change (map (fun x => (x, get_val (R 0%nat) x)) (state_syms sy)) with (asg_of (R 0%nat) (state_syms sy)).
    intros s Hs. unfold sys_symbols in Hs. apply in_app_or in Hs. destruct Hs as [Hs|Hs].
    - apply env_of_asg_of; [apply (inputs_nodup sy Hni)|assumption].
    - eapply agree_r_trans.
      + apply agree_on_r. apply env_of_other; [now apply (state_syms_symbol sy Hwf)|].
        unfold asg_of. rewrite map_map. cbn [fst]. rewrite map_id.
        intros Hin. now apply (proj2 (input_facts sy Hwf s Hin)).
      + apply env_of_asg_of; [apply (state_syms_nodup sy Hwf)|assumption].
  Qed.

  Lemma frees_len : length frees = n.
  Proof. unfold frees. now rewrite map_length, seq_length. Qed.

  Lemma last_run : last run env0 = nth n run env0.
  Proof. rewrite last_nth_len. unfold run. rewrite (run_len sy), frees_len. reflexivity. Qed.

  Lemma Q_reads : Q sy (tl (w_inputs wit_of_reads)) failed (R 0%nat).
  Proof.
    exists frees. split; [|split; [|split]].
    - unfold wit_of_reads, frees. cbn [w_inputs seq map tl]. rewrite <- seq_shift, map_map.
      generalize (seq 0 n) as l. induction l as [|i r IH]; cbn [map]; constructor; [|exact IH].
      intros s v Hin. unfold input_asg in Hin. rewrite strip_map_some, combine_map in Hin.
      apply in_map_iff in Hin. destruct Hin as (x & Hx & _). now inversion Hx.
    - apply Forall_forall. intros f Hf. apply in_map_iff in Hf. destruct Hf as (i & <- & _). apply HRwf.
    - apply forallb_forall. intros r Hr. apply In_nth with (d := env0) in Hr. destruct Hr as (i & Hi & <-).
      fold run in Hi |- *. unfold run in Hi. rewrite (run_len sy), frees_len in Hi.
      destruct (HRrun i ltac:(lia)) as [Hw He].
      rewrite (constraints_eqv sy Hwf _ (R i) Hw (HRwf i) He). apply HRcons. lia.
    - fold run. rewrite last_run. destruct (HRrun n (le_n _)) as [Hw He].
      rewrite (bads_exactly_eqv sy Hwf _ (R n) failed Hw (HRwf n) He). exact HRbad.
  Qed.

  Theorem wit_of_reads_ok : witness_ok sy wit_of_reads.
  Proof.
    pose proof wit_shape as Hs. pose proof (witness_env0_wf sy _ Hs) as Hw0.
    pose proof wit_env0_eqv as He.
    split; [assumption|]. split.
    - apply (is_initial_eqv sy Hwf (R 0%nat)); [apply HRwf|assumption|now apply eqv_sym|assumption].
    - apply (Q_eqv sy Hwf _ failed (R 0%nat)); [apply HRwf|assumption|now apply eqv_sym|apply Q_reads].
  Qed.

  Lemma wit_of_reads_len : length (w_inputs wit_of_reads) = S n.
  Proof. unfold wit_of_reads. cbn [w_inputs]. now rewrite map_length, seq_length. Qed.
End FromReads.

(** ** Part 2: the witness read from a model of the script *)
Lemma signals_at_F2 en : forall es k l, signals_at en es k = Some l ->
  Forall2 (fun e s => get_signal_at en e k = Some s) es l.
Proof.
  induction es as [|e r IH]; intros k l H; cbn [signals_at] in H.
  - inversion H. constructor.
  - destruct (get_signal_at en e k) as [s|] eqn:Eg; [|discriminate].
    destruct (signals_at en r k) as [l'|] eqn:Er; [|discriminate]. inversion H; subst. constructor; auto.
Qed.

Lemma inputs_at_F2 en : forall ks ins, inputs_at en ks = Some ins ->
  Forall2 (fun k l => signals_at en (s_inputs (e_sys en)) k = Some l) ks ins.
Proof.
  induction ks as [|k r IH]; intros ins H; cbn [inputs_at] in H.
  - inversion H. constructor.
  - destruct (signals_at en (s_inputs (e_sys en)) k) as [a|] eqn:Ea; [|discriminate].
    destruct (inputs_at en r) as [l|] eqn:El; [|discriminate]. inversion H; subst. constructor; auto.
Qed.

Lemma forallb_ext_in' {A} (f g : A -> bool) : forall l, (forall x, In x l -> f x = g x) -> forallb f l = forallb g l.
Proof. induction l as [|a r IH]; intros H; [reflexivity|]. cbn [forallb]. rewrite (H a (or_introl eq_refl)), IH; [reflexivity|]. intros; apply H; now right. Qed.

(** [failed_of] lists exactly the positions whose value is not zero *)
Lemma failed_spec (gv : expr -> val) (rho : env) : forall bads bs a failed,
  Forall2 (fun b sb => exists x, gv sb = VB x /\ holds rho b = negb (x =? 0)) bads bs ->
  failed_of gv bs (N.of_nat a) = Some failed ->
  (forall i, In i failed -> N.of_nat a <= i < N.of_nat (a + length bads)) /\
  forallb (fun ib => Bool.eqb (holds rho (snd ib)) (existsb (N.eqb (fst ib)) failed))
          (combine (map N.of_nat (seq a (length bads))) bads) = true.
Proof.
  induction bads as [|b r IH]; intros bs a failed HF H; inversion HF as [|? sb ? bs' (x & Hgv & Hh) HF']; subst; cbn [failed_of] in H.
  - inversion H; subst. split; [intros i []|reflexivity].
  - rewrite Hgv in H. replace (N.of_nat a + 1) with (N.of_nat (S a)) in H by lia.
    destruct (failed_of gv bs' (N.of_nat (S a))) as [l|] eqn:El; [|discriminate]. inversion H; subst. clear H.
    destruct (IH bs' (S a) l HF' El) as [Hrange Hall].
    assert (Hnot : existsb (N.eqb (N.of_nat a)) l = false).
    { destruct (existsb (N.eqb (N.of_nat a)) l) eqn:E; [|reflexivity]. apply existsb_exists in E. destruct E as (i & Hi & He).
      apply N.eqb_eq in He. subst i. specialize (Hrange _ Hi). lia. }
    split.
    + intros i Hi. cbn [length]. destruct (x =? 0).
      * specialize (Hrange i Hi). lia.
      * destruct Hi as [<-|Hi]; [lia|]. specialize (Hrange i Hi). lia.
    + cbn [length seq map combine forallb fst snd]. apply andb_true_iff. split.
      * rewrite Hh. destruct (x =? 0); cbn [negb existsb]; [now rewrite Hnot|now rewrite N.eqb_refl].
      * rewrite <- Hall. apply forallb_ext_in'. intros [i e] Hin. cbn [fst snd]. f_equal.
        destruct (x =? 0); [reflexivity|]. cbn [existsb].
        assert (Hi : In i (map N.of_nat (seq (S a) (length r)))) by (now apply in_combine_l in Hin).
        apply in_map_iff in Hi. destruct Hi as (j & <- & Hj). apply in_seq in Hj.
        destruct (N.eqb_spec (N.of_nat j) (N.of_nat a)); [lia|reflexivity].
Qed.

Section FromModel.
  Variables (sy : sys) (nm : expr -> string).
  Hypothesis Hwf : sys_wf sy = true.
  Hypothesis Hni : nodup_exprs (s_inputs sy) = true.
  Hypothesis Hn : names_ok (enc_new sy nm) = true.
  Let en := enc_new sy nm.
  Let Hb : enc_basic en := enc_new_basic sy nm Hwf.

  Variables (n : nat) (sigma0 : env).
  Hypothesis Hw0 : env_wf sigma0.
  Variable sc : list cmd.
  Hypothesis Hsc_sub : forall c, In c (script Fixed en 0 n) -> In c sc.
  Hypothesis Hsc_orig : forall c, In c sc -> cmd_origin en 0 n c.
  Hypothesis Hck : script_check [] sc = true.
  Let sigma := script_eval sigma0 sc.
  Let Rd (j : nat) : env := read sy nm sigma0 sc (N.of_nat j).

  Lemma get_signal_sys x k s : In x (sys_symbols sy) -> get_signal_at en x k = Some s -> sig_sym en x k = Some s.
  Proof.
    intros Hx Hg. destruct (sys_symbol_sig sy nm Hwf x k Hx) as (s' & Hs'). unfold get_signal_at in Hg. fold en in Hs'.
    rewrite Hs' in Hg. congruence.
  Qed.

  Lemma val_of_read x k s : In x (sys_symbols sy) -> get_signal_at en x (N.of_nat k) = Some s ->
    val_of sigma s = get_val (Rd k) x.
  Proof.
    intros Hx Hg. apply (get_signal_sys x _ s Hx) in Hg.
    pose proof (read_spec sy nm Hwf Hni sigma0 sc _ x s Hx Hg) as [Hv Ha]. fold sigma in Hv, Ha. fold (Rd k) in Hv, Ha.
    destruct (sig_sym_type en _ _ _ Hg) as [Ht _].
    pose proof (sys_symbols_symbol sy Hwf x Hx) as Hsym.
    unfold val_of. destruct x; try discriminate; cbn [type_of] in Ht; rewrite Ht; cbn [get_val ebv earr] in *.
    - now rewrite Hv.
    - f_equal. apply map_ext. intros i. now rewrite Ha.
  Qed.

  Lemma vals_of_signals k : forall es l, (forall x, In x es -> In x (sys_symbols sy)) ->
    signals_at en es (N.of_nat k) = Some l ->
    map (fun s => Some (val_of sigma s)) l = map (fun x => Some (get_val (Rd k) x)) es.
  Proof.
    intros es l Hes H. apply signals_at_F2 in H. induction H as [|x s r l' Hg HF IH]; [reflexivity|].
    cbn [map]. rewrite (val_of_read x k s) by (auto; apply Hes; now left). f_equal. apply IH. intros; apply Hes; now right.
  Qed.

  Lemma input_vals : forall js ins, inputs_at en (map N.of_nat js) = Some ins ->
    map (map (fun s => Some (val_of sigma s))) ins =
    map (fun j => map (fun x => Some (get_val (Rd j) x)) (s_inputs sy)) js.
  Proof.
    induction js as [|j r IH]; intros ins H; cbn [map inputs_at] in H.
    - inversion H. reflexivity.
    - change (s_inputs (e_sys en)) with (s_inputs sy) in H.
      destruct (signals_at en (s_inputs sy) (N.of_nat j)) as [a|] eqn:Ea; [|discriminate].
      destruct (inputs_at en (map N.of_nat r)) as [l|] eqn:El; [|discriminate]. inversion H; subst.
      cbn [map]. rewrite (IH l eq_refl). f_equal.
      apply (vals_of_signals j _ _ (inputs_in sy) Ea).
  Qed.

  (** the witness is the one assembled from the read-off valuations *)
  Lemma get_witness_reads w : get_witness en (val_of sigma) (N.of_nat n) = Some w ->
    exists bs failed, signals_at en (s_bads sy) (N.of_nat n) = Some bs /\
                      failed_of (val_of sigma) bs 0 = Some failed /\
                      w = wit_of_reads sy Rd n failed.
  Proof.
    unfold get_witness, witness_queries. change (e_sys en) with sy.
    destruct (signals_at en (s_bads sy) (N.of_nat n)) as [bs|] eqn:Eb; [|discriminate].
    destruct (signals_at en (state_syms sy) 0) as [ss|] eqn:Es; [|discriminate].
    destruct (inputs_at en (range (N.of_nat n + 1))) as [ins|] eqn:Ei; [|discriminate].
    destruct (failed_of (val_of sigma) bs 0) as [failed|] eqn:Ef; [|discriminate].
    intros H. inversion H; subst. clear H. exists bs, failed. split; [reflexivity|]. split; [assumption|].
    unfold wit_of_reads. f_equal.
    - apply (vals_of_signals 0%nat _ _ (state_syms_in sy) Es).
    - unfold range in Ei. replace (N.to_nat (N.of_nat n + 1)) with (S n) in Ei by lia. now apply input_vals.
  Qed.

  Lemma bad_signal_type b k sb : In b (s_bads sy) -> get_signal_at en b k = Some sb -> type_of sb = TBV 1.
  Proof.
    intros Hbin Hg. pose proof (bool_ok sy Hwf b (or_intror Hbin)) as Hty.
    unfold get_signal_at in Hg. destruct (sig_sym en b k) as [s'|] eqn:Es.
    - inversion Hg; subst. destruct (sig_sym_type en _ _ _ Es) as [Ht _]. congruence.
    - destruct b; try discriminate. destruct w; try discriminate. destruct p; try discriminate. inversion Hg; subst. reflexivity.
  Qed.

  (** a model of the query at depth [n]: the witness [get_witness] builds from it is a real one *)
  Theorem model_witness_ok asserts bs sb w :
    (forall c m, In c (s_constraints sy) -> (m <= n)%nat -> exists a, In a asserts /\ get_signal_at en c (N.of_nat m) = Some a) ->
    forallb (holds sigma) asserts = true ->
    signals_at en (s_bads sy) (N.of_nat n) = Some bs -> In sb bs -> holds sigma sb = true ->
    get_witness en (val_of sigma) (N.of_nat n) = Some w ->
    witness_ok sy w /\ length (w_inputs w) = S n.
  Proof.
    intros Hass Hholds Hbs Hsb Hhb Hgw.
    destruct (get_witness_reads w Hgw) as (bs' & failed & Hbs' & Hf & ->). rewrite Hbs in Hbs'. inversion Hbs'; subst bs'. clear Hbs'.
    split; [|apply wit_of_reads_len].
    pose proof (sigma_wf sigma0 Hw0 sc Hck) as Hsw. fold sigma in Hsw.
    assert (HRwf : forall j, env_wf (Rd j)) by (intros j; apply (read_wf sy nm Hwf sigma0 Hw0 sc Hck)).
    (* the bad states: value of the step symbol = value in the read-off valuation *)
    assert (HF : Forall2 (fun b s => exists x, val_of sigma s = VB x /\ holds (Rd n) b = negb (x =? 0)) (s_bads sy) bs).
    { pose proof (signals_at_F2 en _ _ _ Hbs) as F2. pose proof (bads_bool_valued sy nm Hwf _ _ Hbs sigma Hsw) as Hbool.
      assert (Haux : forall l bs0, Forall2 (fun e s => get_signal_at en e (N.of_nat n) = Some s) l bs0 ->
                (forall b, In b l -> In b (s_bads sy)) -> (forall x, In x bs0 -> ebv sigma x < 2) ->
                Forall2 (fun b s => exists x, val_of sigma s = VB x /\ holds (Rd n) b = negb (x =? 0)) l bs0).
      { induction 1 as [|b s r l' Hg F2' IH]; intros Hin Hbool'; constructor.
        - exists (ebv sigma s). split.
          + unfold val_of. now rewrite (bad_signal_type b _ s (Hin b (or_introl eq_refl)) Hg).
          + destruct (observable_value sy nm Hwf Hni Hn Fixed n sigma0 sc Hsc_sub Hsc_orig Hck b n s
                        (or_intror (or_intror (or_intror (Hin b (or_introl eq_refl))))) (le_n _) Hg) as [Hv _].
            fold sigma in Hv. fold (Rd n) in Hv. unfold holds. rewrite <- Hv.
            specialize (Hbool' s (or_introl eq_refl)).
            destruct (N.eqb_spec (ebv sigma s) 0) as [->|Hne]; [reflexivity|]. cbn [negb]. apply N.eqb_eq. lia.
        - apply IH; [intros; apply Hin; now right|intros; apply Hbool'; now right]. }
      apply Haux; auto. }
    destruct (failed_spec (val_of sigma) (Rd n) (s_bads sy) bs 0%nat failed HF Hf) as [Hrange Hall].
    apply (wit_of_reads_ok sy Hwf Hni Rd n failed HRwf).
    - apply is_initial_to_r. apply (read_initial sy nm Hwf Hni Hn Fixed n sigma0 sc Hsc_sub Hsc_orig Hck).
    - intros i Hi. apply (read_run_eqv sy nm Hwf Hni Hn Fixed n sigma0 Hw0 sc Hsc_sub Hsc_orig Hck i Hi).
    - intros i Hi. unfold constraints_hold. apply forallb_forall. intros c Hc.
      destruct (Hass c i Hc Hi) as (a & Ha & Hg).
      rewrite forallb_forall in Hholds. specialize (Hholds a Ha).
      destruct (observable_value sy nm Hwf Hni Hn Fixed n sigma0 sc Hsc_sub Hsc_orig Hck c i a
                  ltac:(unfold observable; tauto) Hi Hg) as [Hv _].
      unfold holds in *. fold sigma in Hv. fold (Rd i) in Hv. now rewrite <- Hv.
    - unfold bads_exactly. apply andb_true_iff. split; [|unfold range; rewrite Nat2N.id; exact Hall].
      (* the bad state of the query holds: its index is listed *)
      destruct (proj1 (signals_at_spec en _ _ _ Hbs) sb Hsb) as (b & Hbin & Hg).
      destruct (observable_value sy nm Hwf Hni Hn Fixed n sigma0 sc Hsc_sub Hsc_orig Hck b n sb
                  ltac:(unfold observable; tauto) (le_n _) Hg) as [Hv _].
      fold sigma in Hv. fold (Rd n) in Hv.
      assert (Hhold : holds (Rd n) b = true) by (unfold holds in *; now rewrite <- Hv).
      apply In_nth with (d := BVLiteral 1 0) in Hbin. destruct Hbin as (p & Hp & Hnth).
      assert (Hin : In (N.of_nat p, b) (combine (map N.of_nat (seq 0 (length (s_bads sy)))) (s_bads sy))).
      { rewrite <- Hnth.
        replace (N.of_nat p) with (nth p (map N.of_nat (seq 0 (length (s_bads sy)))) 0)
          by (rewrite (map_nth N.of_nat _ 0%nat), seq_nth by assumption; reflexivity).
        rewrite <- combine_nth by (now rewrite map_length, seq_length).
        apply nth_In. rewrite combine_length, map_length, seq_length. lia. }
      rewrite forallb_forall in Hall. specialize (Hall _ Hin). cbn [fst snd] in Hall. rewrite Hhold in Hall.
      destruct failed; [discriminate Hall|reflexivity].
    - intros i Hi. specialize (Hrange i Hi). lia.
  Qed.
End FromModel.

(** ** Part 3: the loop *)
Section LoopWit.
  Variable solver_model : list cmd -> list expr -> list expr -> option env.
  (** a "sat" answer comes with a model of the query *)
  Hypothesis solver_sound : forall sc asserts assumps sigma0,
    solver_model sc asserts assumps = Some sigma0 -> is_model sc asserts assumps sigma0.
  Variables (sy : sys) (nm : expr -> string).
  Hypothesis Hwf : sys_wf sy = true.
  Hypothesis Hni : nodup_exprs (s_inputs sy) = true.
  Hypothesis Hn : names_ok (enc_new sy nm) = true.
  Let en := enc_new sy nm.
  (** the script after [i] unrollings: the commands of [script Fixed en 0 i] in an accepted order *)
  Variable scr : nat -> list cmd.
  Hypothesis Hscr_S : forall i, scr (S i) = scr i ++ unroll Fixed en 0 (N.of_nat i).
  Hypothesis Hsub : forall n c, In c (script Fixed en 0 n) -> In c (scr n).
  Hypothesis Horig : forall n c, In c (scr n) -> cmd_origin en 0 n c.
  Hypothesis Hck : forall n, script_check [] (scr n) = true.

  Lemma first_model_some sc asserts : forall bs m, first_model solver_model sc asserts bs = Some m ->
    exists b, In b bs /\ solver_model sc asserts [b] = Some m.
  Proof.
    induction bs as [|b r IH]; intros m H; cbn [first_model] in H; [discriminate|].
    destruct (solver_model sc asserts [b]) as [m'|] eqn:E.
    - inversion H; subst. exists b. split; [now left|assumption].
    - destruct (IH m H) as (b' & Hb' & Hs). exists b'. split; [now right|assumption].
  Qed.

  Lemma hit_witness (individually : bool) i asserts bs sigma0 w :
    asserts_upto sy nm asserts (S i) -> signals_at en (s_bads sy) (N.of_nat i) = Some bs ->
    (if individually then first_model solver_model (scr i) asserts bs
     else match or_all bs with Some any => solver_model (scr i) asserts [any] | None => None end) = Some sigma0 ->
    get_witness en (val_of (script_eval sigma0 (scr i))) (N.of_nat i) = Some w ->
    witness_ok sy w /\ length (w_inputs w) = S i.
  Proof.
    intros [H1 H2] Hbs Hhit Hgw.
    assert (Hm : exists sb, In sb bs /\ env_wf sigma0 /\ forallb (holds (script_eval sigma0 (scr i))) asserts = true /\
                            holds (script_eval sigma0 (scr i)) sb = true).
    { destruct individually.
      - destruct (first_model_some _ _ _ _ Hhit) as (sb & Hsb & Hs). apply solver_sound in Hs.
        destruct Hs as (Hw0 & Hass & Hb). cbn [forallb] in Hb. rewrite andb_true_r in Hb. eauto.
      - destruct (or_all bs) as [any|] eqn:Eo; [|discriminate]. apply solver_sound in Hhit.
        destruct Hhit as (Hw0 & Hass & Hb). cbn [forallb] in Hb. rewrite andb_true_r in Hb.
        pose proof (sigma_wf sigma0 Hw0 (scr i) (Hck i)) as Hsw.
        rewrite (or_all_holds _ bs any Eo (bads_bool_valued sy nm Hwf _ _ Hbs _ Hsw)) in Hb.
        apply existsb_exists in Hb. destruct Hb as (sb & Hsb & Hh). eauto. }
    destruct Hm as (sb & Hsb & Hw0 & Hass & Hh).
    apply (model_witness_ok sy nm Hwf Hni Hn i sigma0 Hw0 (scr i) (Hsub i) (Horig i) (Hck i) asserts bs sb w); try assumption.
    intros c m Hc Hm. apply H2; [assumption|lia].
  Qed.

  Lemma loop_w_ok individually : forall fuel i asserts k w, asserts_upto sy nm asserts i ->
    bmc_loop_w Fixed solver_model en individually (scr i) asserts (N.of_nat i) fuel = WFail k w ->
    exists j, k = N.of_nat j /\ (i <= j <= i + fuel)%nat /\ witness_ok sy w /\ length (w_inputs w) = S j.
  Proof.
    induction fuel as [|fuel IH]; intros i asserts k w Hinv; cbn [bmc_loop_w];
      change (e_sys en) with sy;
      destruct (signals_at en (s_constraints sy) (N.of_nat i)) as [cs|] eqn:Ec; try discriminate;
      destruct (signals_at en (s_bads sy) (N.of_nat i)) as [bs|] eqn:Eb; try discriminate;
      pose proof (asserts_step sy nm asserts i cs Hinv Ec) as Hinv';
      destruct (if individually then first_model solver_model (scr i) (asserts ++ cs) bs
                else match or_all bs with Some any => solver_model (scr i) (asserts ++ cs) [any] | None => None end)
        as [sigma0|] eqn:Eh; try discriminate.
    - destruct (get_witness en (val_of (script_eval sigma0 (scr i))) (N.of_nat i)) as [w'|] eqn:Eg; [|discriminate].
      intros H. inversion H; subst. exists i. split; [reflexivity|]. split; [lia|].
      apply (hit_witness individually i (asserts ++ cs) bs sigma0 w); assumption.
    - destruct (get_witness en (val_of (script_eval sigma0 (scr i))) (N.of_nat i)) as [w'|] eqn:Eg; [|discriminate].
      intros H. inversion H; subst. exists i. split; [reflexivity|]. split; [lia|].
      apply (hit_witness individually i (asserts ++ cs) bs sigma0 w); assumption.
    - rewrite <- Hscr_S. replace (N.of_nat i + 1) with (N.of_nat (S i)) by lia. intros H.
      destruct (IH (S i) (asserts ++ cs) k w Hinv' H) as (j & -> & Hr & Hok). exists j. split; [reflexivity|]. split; [lia|assumption].
  Qed.
End LoopWit.

(** ** the loop with the encoding of /repo ([init_at3], then [unroll Fixed]) *)
Lemma script3_S en n : script3 en (S n) = script3 en n ++ unroll Fixed en 0 (N.of_nat n).
Proof. unfold script3. rewrite unrolls_snoc, app_assoc. now rewrite N.add_0_l. Qed.

Theorem bmc_witness_ok (solver_model : list cmd -> list expr -> list expr -> option env) :
  (forall sc asserts assumps sigma0,
      solver_model sc asserts assumps = Some sigma0 -> is_model sc asserts assumps sigma0) ->
  forall sy nm k_max individually k w,
    sys_wf sy = true -> nodup_exprs (s_inputs sy) = true ->
    names_ok (enc_new sy nm) = true -> init_deps_acyclic sy ->
    bmc_model_w solver_model sy nm individually k_max = WFail k w ->
    check_witness sy w = true /\ exists j, k = N.of_nat j /\ (j <= k_max)%nat /\ length (w_inputs w) = S j.
Proof.
  intros Hsolver sy nm k_max individually k w Hwf Hni Hn Hac H.
  unfold bmc_model_w in H. destruct (s_bads sy) as [|b0 r0] eqn:Eb; [discriminate|].
  set (en := enc_new sy nm) in *.
  pose proof (enc_new_basic sy nm Hwf) as Hb. pose proof (enc_new_order sy nm Hwf) as Ho. fold en in Hb, Ho.
  assert (Hperm : forall st, In st (init_order en) <-> In st (s_states (e_sys en))) by (apply (init_order_perm en Hb)).
  assert (H' : bmc_loop_w Fixed solver_model en individually (script3 en 0) [] (N.of_nat 0) k_max = WFail k w).
  { unfold script3. cbn [unrolls]. rewrite app_nil_r. exact H. }
  destruct (loop_w_ok solver_model Hsolver sy nm Hwf Hni Hn (script3 en) (script3_S en)
              (fun n c Hc => fixed_in_script_ord en Ho n (init_order en) Hperm c Hc)
              (fun n c Hc => script_ord_origin en n (init_order en) Hperm c Hc)
              (fun n => script3_wf_sys sy nm n Hwf Hn Hac)
              individually k_max 0%nat [] k w (asserts_upto_nil sy nm) H') as (j & -> & Hj & Hok & Hlen).
  split; [now apply (check_witness_correct sy Hwf Hni)|]. exists j. split; [reflexivity|]. split; [lia|assumption].
Qed.

(** ... hence it is an execution from an initial valuation that satisfies all constraints and ends, after
    exactly [k] steps, in the reported bad states *)
Corollary bmc_witness_is_execution (solver_model : list cmd -> list expr -> list expr -> option env) :
  (forall sc asserts assumps sigma0,
      solver_model sc asserts assumps = Some sigma0 -> is_model sc asserts assumps sigma0) ->
  forall sy nm k_max individually k w,
    sys_wf sy = true -> nodup_exprs (s_inputs sy) = true ->
    names_ok (enc_new sy nm) = true -> init_deps_acyclic sy ->
    bmc_model_w solver_model sy nm individually k_max = WFail k w ->
    witness_ok sy w /\
    exists frees : list env,
      is_initial_r sy (witness_env0 sy w) /\
      N.of_nat (length frees) = k /\ (length frees <= k_max)%nat /\
      forallb (constraints_hold sy) (run_from sy (witness_env0 sy w) frees) = true /\
      some_bad sy (last (run_from sy (witness_env0 sy w) frees) env0) = true /\
      bads_exactly sy (last (run_from sy (witness_env0 sy w) frees) env0) (w_failed w) = true.
Proof.
  intros Hsolver sy nm k_max individually k w Hwf Hni Hn Hac H.
  destruct (bmc_witness_ok solver_model Hsolver sy nm k_max individually k w Hwf Hni Hn Hac H) as (Hck & j & -> & Hj & Hlen).
  pose proof (proj1 (check_witness_correct sy Hwf Hni w) Hck) as Hok. split; [assumption|].
  destruct Hok as (Hshape & Hinit & frees & Hm & Hfw & Hc & Hbad).
  assert (Hl : length frees = j).
  { apply Forall2_len in Hm. destruct (w_inputs w) as [|x r]; [discriminate|]. cbn [tl length] in *. lia. }
  exists frees. split; [assumption|]. split; [now rewrite Hl|]. split; [lia|]. split; [assumption|]. split; [|assumption].
  (* some listed bad state holds *)
  unfold bads_exactly in Hbad. apply andb_true_iff in Hbad. destruct Hbad as [Hne Hall].
  unfold witness_shape_ok in Hshape. rewrite !andb_true_iff in Hshape. destruct Hshape as [_ Hrange].
  destruct (w_failed w) as [|i r] eqn:Ef; [discriminate|].
  rewrite forallb_forall in Hrange, Hall. specialize (Hrange i (or_introl eq_refl)). apply N.ltb_lt in Hrange.
  set (l := s_bads sy) in *.
  assert (Hlen' : length (range (N.of_nat (length l))) = length l) by (rewrite range_length; lia).
  assert (Hin : In (i, nth (N.to_nat i) l (BVLiteral 1 0)) (combine (range (N.of_nat (length l))) l)).
  { replace i with (nth (N.to_nat i) (range (N.of_nat (length l))) 0) at 1 by (apply nth_range; assumption).
    rewrite <- combine_nth by assumption. apply nth_In. rewrite combine_length, Hlen'. lia. }
  specialize (Hall _ Hin). cbn [fst snd existsb] in Hall. rewrite N.eqb_refl in Hall. cbn [orb] in Hall.
  apply eqb_prop in Hall. unfold some_bad. apply existsb_exists. eexists. split; [|exact Hall].
  now apply in_combine_r in Hin.
Qed.

(** ** an instance: a solver that only ever proposes one candidate valuation (sound, not complete) *)
Definition checking_solver (cand : env) (sc : list cmd) (asserts assumps : list expr) : option env :=
  if forallb (holds (script_eval cand sc)) asserts && forallb (holds (script_eval cand sc)) assumps
  then Some cand else None.

Lemma checking_solver_sound cand : env_wf cand -> forall sc asserts assumps sigma0,
  checking_solver cand sc asserts assumps = Some sigma0 -> is_model sc asserts assumps sigma0.
Proof.
  intros Hw sc asserts assumps sigma0 H. unfold checking_solver in H.
  destruct (forallb (holds (script_eval cand sc)) asserts && forallb (holds (script_eval cand sc)) assumps) eqn:E; [|discriminate].
  inversion H; subst. apply andb_true_iff in E. destruct E. split; [assumption|]. split; assumption.
Qed.

(** the system of finding D3 (state s init t+1 next s; state t next t; bad s == 3) with t = 2 *)
From Patronus Require Import EncodingExamples.
Open Scope N_scope.
Open Scope list_scope.
Definition ex3_cand : env :=
  {| rho_bv := fun n w => if String.eqb n "t"%string && (N.eqb w 3) then 2 else 0; rho_arr := fun _ _ _ _ => 0 |}.

Lemma ex3_cand_wf : env_wf ex3_cand.
Proof.
  split; cbn.
  - intros n w. destruct (String.eqb n "t"%string && (N.eqb w 3)) eqn:E.
    + apply andb_true_iff in E. destruct E as [_ E]. apply N.eqb_eq in E. subst w. reflexivity.
    + apply N.neq_0_lt_0. apply N.pow_nonzero. discriminate.
  - intros _ _ dw _. apply N.neq_0_lt_0. apply N.pow_nonzero. discriminate.
Qed.

Definition ex3_witness : witness :=
  {| w_init := [Some (VB 3); Some (VB 2)]; w_init_names := [Some "s"%string; Some "t"%string];
     w_inputs := [[]]; w_input_names := []; w_failed := [0] |}.

Lemma ex3_bmc_witness :
  bmc_model_w (checking_solver ex3_cand) ex3_sys ex_nm false 2 = WFail 0 ex3_witness /\
  bmc_model_w (checking_solver ex3_cand) ex3_sys ex_nm true 2 = WFail 0 ex3_witness /\
  check_witness ex3_sys ex3_witness = true /\
  nodup_exprs (s_inputs ex3_sys) = true.
Proof. vm_compute. repeat split; reflexivity. Qed.

(** ** the C02 algorithm-layer statements for the encoding of /repo ([bmc_model3]: [init_at3], [unroll Fixed]) *)
Section Script3Exact.
  Variable solver_sat : list cmd -> list expr -> list expr -> bool.
  Hypothesis solver_correct : forall sc asserts assumps,
    solver_sat sc asserts assumps = true <-> exists sigma0, is_model sc asserts assumps sigma0.
  Variables (sy : sys) (nm : expr -> string).
  Hypothesis Hwf : sys_wf sy = true.
  Hypothesis Hni : nodup_exprs (s_inputs sy) = true.
  Hypothesis Hn : names_ok (enc_new sy nm) = true.
  Hypothesis Hac : init_deps_acyclic sy.
  Let en := enc_new sy nm.
  Let Hb : enc_basic en := enc_new_basic sy nm Hwf.
  Let Ho : enc_order en := enc_new_order sy nm Hwf.
  Let Hperm : forall st, In st (init_order en) <-> In st (s_states (e_sys en)) := init_order_perm en Hb.

  Lemma script3_0 : script3 en 0 = init_at3 en.
  Proof. unfold script3. cbn [unrolls]. apply app_nil_r. Qed.

  Theorem bmc_model3_exact k_max individually :
    let res := bmc_model3 solver_sat sy nm individually k_max in
    res <> BmcPanic ->
    (forall j, res = BmcFail (N.of_nat j) <->
               (j <= k_max)%nat /\ reach_at sy j /\ forall m, (m < j)%nat -> ~ reach_at sy m) /\
    (res = BmcSuccess <-> forall j, (j <= k_max)%nat -> ~ reach_at sy j).
  Proof.
    apply (bmc_exact_from solver_sat solver_correct sy nm Hwf Hni Hn Fixed (script3 en) (script3_S en)
             (fun n c Hc => fixed_in_script_ord en Ho n (init_order en) Hperm c Hc)
             (fun n c Hc => script_ord_origin en n (init_order en) Hperm c Hc)
             (fun n => script3_wf_sys sy nm n Hwf Hn Hac)
             (fun rho0 frees sigma0 Hinit => script3_faithful_sys sy nm rho0 frees sigma0 Hwf Hn Hinit)
             init_at3 script3_0).
  Qed.

  Theorem bmc_model3_modes k_max :
    bmc_model3 solver_sat sy nm true k_max = bmc_model3 solver_sat sy nm false k_max.
  Proof.
    apply (bmc_modes_from solver_sat solver_correct sy nm Hwf Fixed (script3 en) (script3_S en)
             (fun n => script3_wf_sys sy nm n Hwf Hn Hac) init_at3 script3_0).
  Qed.

  Theorem bmc_model3_no_miss k_max j individually : (j <= k_max)%nat -> reach_at sy j ->
    bmc_model3 solver_sat sy nm individually k_max <> BmcSuccess.
  Proof.
    apply (bmc_no_miss_from solver_sat solver_correct sy nm Hwf Hn Fixed (script3 en) (script3_S en)
             (fun n => script3_wf_sys sy nm n Hwf Hn Hac)
             (fun rho0 frees sigma0 Hinit => script3_faithful_sys sy nm rho0 frees sigma0 Hwf Hn Hinit)
             init_at3 script3_0).
  Qed.

  Theorem bmc_model3_is_spec k_max individually : no_array_init sy = true ->
    let res := bmc_model3 solver_sat sy nm individually k_max in
    res <> BmcPanic ->
    (forall j, res = BmcFail (N.of_nat j) <-> bmc_spec sy k_max = Some j) /\
    (res = BmcSuccess <-> bmc_spec sy k_max = None).
  Proof.
    intros Hna res Hnp. destruct (bmc_model3_exact k_max individually Hnp) as [Hf Hs]. fold res in Hf, Hs. split.
    - intros j. rewrite (Hf j). symmetry. apply (bmc_spec_exact sy Hwf Hni k_max j Hna).
    - rewrite Hs. split.
      + intros Hnone. destruct (bmc_spec sy k_max) as [j|] eqn:E; [|reflexivity].
        apply (bmc_spec_exact sy Hwf Hni k_max j Hna) in E. destruct E as (H1 & H2 & _). exfalso. now apply (Hnone j).
      + intros Hnone j Hj Hr.
        assert (Hbd : bad_reachable_within sy k_max) by (apply (bad_within_reach sy); eauto).
        now apply (bmc_spec_complete sy Hwf Hni k_max Hbd).
  Qed.
End Script3Exact.

(** ** the loop that returns witnesses is the loop of Model/Bmc.v *)
Definition sat_of (solver_model : list cmd -> list expr -> list expr -> option env) (sc : list cmd) (a b : list expr) : bool :=
  match solver_model sc a b with Some _ => true | None => false end.

Lemma first_model_sat solver_model sc asserts : forall bs,
  existsb (fun b => sat_of solver_model sc asserts [b]) bs =
  match first_model solver_model sc asserts bs with Some _ => true | None => false end.
Proof.
  induction bs as [|b r IH]; [reflexivity|]. cbn [existsb first_model]. unfold sat_of at 1.
  destruct (solver_model sc asserts [b]); [reflexivity|]. exact IH.
Qed.

Lemma loop_w_forget v solver_model en individually : forall fuel sc asserts k,
  bmc_loop_w v solver_model en individually sc asserts k fuel <> WPanic ->
  forget_w (bmc_loop_w v solver_model en individually sc asserts k fuel) =
  bmc_loop v (sat_of solver_model) en individually sc asserts k fuel.
Proof.
  induction fuel as [|fuel IH]; intros sc asserts k; cbn [bmc_loop_w bmc_loop];
    (destruct (signals_at en (s_constraints (e_sys en)) k) as [cs|]; [|intros H; now contradiction H]);
    (destruct (signals_at en (s_bads (e_sys en)) k) as [bs|]; [|intros H; now contradiction H]);
    destruct individually.
  - rewrite first_model_sat. destruct (first_model solver_model sc (asserts ++ cs) bs) as [m|]; [|reflexivity].
    destruct (get_witness en (val_of (script_eval m sc)) k); [reflexivity|intros H; now contradiction H].
  - destruct (or_all bs) as [any|]; [|reflexivity]. unfold sat_of.
    destruct (solver_model sc (asserts ++ cs) [any]) as [m|]; [|reflexivity].
    destruct (get_witness en (val_of (script_eval m sc)) k); [reflexivity|intros H; now contradiction H].
  - rewrite first_model_sat. destruct (first_model solver_model sc (asserts ++ cs) bs) as [m|]; [|apply IH].
    destruct (get_witness en (val_of (script_eval m sc)) k); [reflexivity|intros H; now contradiction H].
  - destruct (or_all bs) as [any|]; [|apply IH]. unfold sat_of.
    destruct (solver_model sc (asserts ++ cs) [any]) as [m|]; [|apply IH].
    destruct (get_witness en (val_of (script_eval m sc)) k); [reflexivity|intros H; now contradiction H].
Qed.

(** with a solver that is also complete, the step of a returned witness is the least depth of a counterexample *)
Theorem bmc_witness_shortest (solver_model : list cmd -> list expr -> list expr -> option env) :
  (forall sc asserts assumps,
      match solver_model sc asserts assumps with
      | Some sigma0 => is_model sc asserts assumps sigma0
      | None => ~ exists sigma0, is_model sc asserts assumps sigma0
      end) ->
  forall sy nm k_max individually k w,
    sys_wf sy = true -> nodup_exprs (s_inputs sy) = true ->
    names_ok (enc_new sy nm) = true -> init_deps_acyclic sy ->
    bmc_model_w solver_model sy nm individually k_max = WFail k w ->
    exists j, k = N.of_nat j /\ (j <= k_max)%nat /\ reach_at sy j /\ forall m, (m < j)%nat -> ~ reach_at sy m.
Proof.
  intros Hsolver sy nm k_max individually k w Hwf Hni Hn Hac H.
  assert (Hsat : forall sc asserts assumps,
             sat_of solver_model sc asserts assumps = true <-> exists sigma0, is_model sc asserts assumps sigma0).
  { intros sc a b. unfold sat_of. specialize (Hsolver sc a b). destruct (solver_model sc a b) as [m|].
    - split; [eauto|reflexivity].
    - split; [discriminate|intros Hx; contradiction]. }
  assert (E : bmc_model3 (sat_of solver_model) sy nm individually k_max = BmcFail k).
  { unfold bmc_model3, bmc_model_from. unfold bmc_model_w in H. destruct (s_bads sy); [discriminate|].
    rewrite <- loop_w_forget; [now rewrite H|]. rewrite H. discriminate. }
  assert (Hnp : bmc_model3 (sat_of solver_model) sy nm individually k_max <> BmcPanic) by (rewrite E; discriminate).
  assert (Hsound : forall sc a b s0, solver_model sc a b = Some s0 -> is_model sc a b s0).
  { intros sc a b s0 Hs. specialize (Hsolver sc a b). now rewrite Hs in Hsolver. }
  destruct (bmc_witness_ok solver_model Hsound sy nm k_max individually k w Hwf Hni Hn Hac H) as (_ & j & -> & Hj & _).
  exists j. split; [reflexivity|]. split; [assumption|].
  destruct (bmc_model3_exact (sat_of solver_model) Hsat sy nm Hwf Hni Hn Hac k_max individually Hnp) as [Hf _].
  apply Hf in E. tauto.
Qed.
