(** * Proofs/Btor2SoundFix.v — for the repaired reader the rejection statement of C08 also covers
    zero-width sorts and bad/constraint lines over non-Boolean nodes. *)
From Coq Require Import List Lia Bool String Ascii NArith FMapPositive.
From Patronus Require Import Expr ExprLemmas Eval SysClosed Btor2Parse Btor2Sem Btor2Agree Btor2ExprFacts Btor2ParseProofs
     Btor2Refine Btor2NoCrash Btor2Sound Btor2Fix.
Import ListNotations.
Open Scope string_scope.
Open Scope N_scope.

(** ** which interpreter errors can come from where *)
Definition benign {A} (m : b2res A) : Prop := m <> B2Err B2ZeroWidth /\ m <> B2Err B2PropWidth.

Lemma benign_ok {A} (a : A) : benign (B2Ok a).
Proof. split; discriminate. Qed.

Lemma benign_err {A} e : e <> B2ZeroWidth -> e <> B2PropWidth -> benign (@B2Err A e).
Proof. intros H1 H2. split; intros H; inversion H; auto. Qed.

Lemma benign_bind {A B} (m : b2res A) (f : A -> b2res B) :
  benign m -> (forall a, benign (f a)) -> benign (b2bind m f).
Proof.
  intros [H1 H2] Hf. destruct m as [a|e]; cbn [b2bind]; [apply Hf|].
  split; intros H; inversion H; subst; [apply H1|apply H2]; reflexivity.
Qed.

Ltac ben :=
  repeat first
    [ apply benign_ok
    | (apply benign_err; discriminate)
    | (apply benign_bind; [|intros ?])
    | match goal with
      | |- benign (if ?c then _ else _) => destruct c
      | |- benign (match ?x with _ => _ end) => destruct x
      | |- benign (let '(_, _) := ?p in _) => destruct p
      end ].

Lemma benign_need toks n : benign (need toks n).
Proof. unfold need. ben. Qed.
Lemma benign_s_opt {A} (o : option A) : benign (s_opt o B2Syntax).
Proof. unfold s_opt. ben. Qed.
Lemma benign_s_sort S tok : benign (s_sort S tok).
Proof. unfold s_sort, s_opt. ben. Qed.
Lemma benign_s_node S tok : benign (s_node S tok).
Proof. unfold s_node. ben. Qed.
Lemma benign_s_num tok : benign (s_num tok).
Proof. unfold s_num, s_opt. ben. Qed.
Lemma benign_s_state S tok : benign (s_state S tok).
Proof. unfold s_state, s_opt. ben. Qed.
Lemma benign_check_sort t v : benign (check_sort t v).
Proof. unfold check_sort. ben. Qed.
Lemma benign_sem_const r w tok : benign (sem_const r w tok).
Proof. unfold sem_const. ben. Qed.

Lemma benign_sem_unary op toks v : benign (sem_unary op toks v).
Proof.
  unfold sem_unary. destruct v.
  - repeat match goal with |- benign (if ?c then _ else _) => destruct c end; ben;
      try apply benign_need; try apply benign_s_num; ben.
  - ben.
Qed.

Lemma benign_sem_binary op a b : benign (sem_binary op a b).
Proof. unfold sem_binary. ben. Qed.

Lemma benign_sem_ternary op a b c : benign (sem_ternary op a b c).
Proof. unfold sem_ternary. ben. Qed.

Ltac ben2 :=
  repeat first
    [ apply benign_need | apply benign_s_sort | apply benign_s_node | apply benign_s_num | apply benign_s_state
    | apply benign_check_sort | apply benign_sem_const | apply benign_sem_unary | apply benign_sem_binary
    | apply benign_sem_ternary | apply benign_ok
    | (apply benign_err; discriminate)
    | (apply benign_bind; [|intros ?])
    | match goal with
      | |- benign (if ?c then _ else _) => destruct c
      | |- benign (match ?x with _ => _ end) => destruct x
      end ].

Lemma benign_unary_line S toks id op : benign (sem_unary_line S toks id op).
Proof. unfold sem_unary_line. ben2. Qed.
Lemma benign_binary_line S toks id op : benign (sem_binary_line S toks id op).
Proof. unfold sem_binary_line. ben2. Qed.
Lemma benign_ternary_line S toks id op : benign (sem_ternary_line S toks id op).
Proof. unfold sem_ternary_line. ben2. Qed.
Lemma benign_const_line S toks id op : benign (sem_const_line S toks id op).
Proof. unfold sem_const_line. ben2. Qed.
Lemma benign_input_line val S toks id : benign (sem_input_line val S toks id).
Proof. unfold sem_input_line. ben2. Qed.
Lemma benign_state_line val S toks id : benign (sem_state_line val S toks id).
Proof. unfold sem_state_line. ben2. Qed.
Lemma benign_init_next_line S toks b : benign (sem_init_next_line S toks b).
Proof. unfold sem_init_next_line. ben2. Qed.
Lemma benign_output_line S toks : benign (sem_output_line S toks).
Proof. unfold sem_output_line. ben2. Qed.

(** a zero-width error comes from a [sort bitvec 0] line *)
Ltac by_benign H := match type of H with ?m = _ => let B := fresh "B" in assert (B : benign m) by ben2; destruct B as [B1 B2]; first [exact (B1 H)|exact (B2 H)] end.

Lemma sem_sort_zero S toks id :
  sem_sort_line S toks id = B2Err B2ZeroWidth ->
  seq (tokn toks 2) "bitvec" = true /\ parse_width (tokn toks 3) = Some 0.
Proof.
  unfold sem_sort_line. intros H.
  destruct (need toks 3) as [[]|e] eqn:E3; cbn [b2bind] in H.
  2: { exfalso. inversion H; subst e. destruct (benign_need toks 3) as [B _]. exact (B E3). }
  destruct (seq (tokn toks 2) "bitvec") eqn:Eb.
  - split; auto.
    destruct (need toks 4) as [[]|e] eqn:E4; cbn [b2bind] in H.
    2: { exfalso. inversion H; subst e. destruct (benign_need toks 4) as [B _]. exact (B E4). }
    unfold s_num in H. destruct (parse_width (tokn toks 3)) as [w|]; cbn [s_opt b2bind] in H; [|discriminate].
    destruct (w =? 0) eqn:E0; [apply N.eqb_eq in E0; subst w; reflexivity|discriminate].
  - exfalso. destruct (seq (tokn toks 2) "array"); [|discriminate]. by_benign H.
Qed.

Lemma nz_bind {A B} (m : b2res A) (f : A -> b2res B) :
  m <> B2Err B2ZeroWidth -> (forall a, f a <> B2Err B2ZeroWidth) -> b2bind m f <> B2Err B2ZeroWidth.
Proof. intros H1 Hf. destruct m as [a|e]; cbn [b2bind]; [apply Hf|]. intros H; inversion H; subst. apply H1; reflexivity. Qed.

Lemma prop_line_not_zero S toks b : sem_prop_line S toks b <> B2Err B2ZeroWidth.
Proof.
  unfold sem_prop_line. apply nz_bind; [apply benign_need|intros _].
  apply nz_bind; [apply benign_s_node|intros v]. destruct (negb _); [discriminate|]. destruct b; discriminate.
Qed.

(** the two named errors and the lines they come from *)
Lemma sem_line_zero val S l : sem_line val S l = B2Err B2ZeroWidth -> zero_sort_line l = true.
Proof.
  unfold sem_line. intros H. destruct l as [|t0 rest]; [discriminate|].
  destruct (parse_line_id t0) as [[id neg]|]; [|discriminate]. destruct neg; [discriminate|].
  destruct (need (t0 :: rest) 2) as [[]|e] eqn:E2; cbn [b2bind] in H.
  2: { exfalso. inversion H; subst e. destruct (benign_need (t0 :: rest) 2) as [B _]. exact (B E2). }
  set (toks := t0 :: rest) in *. cbv zeta in H.
  destruct (str_mem (tokn toks 1) unsupported_ops); [discriminate|].
  destruct (seq (tokn toks 1) "sort") eqn:Es.
  { apply sem_sort_zero in H. destruct H as [H1 H2]. unfold zero_sort_line. rewrite Es, H1, H2. reflexivity. }
  exfalso.
  repeat match type of H with
         | (if ?c then _ else _) = _ => destruct c
         end; try discriminate;
  first [ apply (proj1 (benign_input_line _ _ _ _) H) | apply (proj1 (benign_state_line _ _ _ _) H)
        | apply (proj1 (benign_init_next_line _ _ _) H) | apply (proj1 (benign_output_line _ _) H)
        | apply (proj1 (benign_const_line _ _ _ _) H) | apply (proj1 (benign_unary_line _ _ _ _) H)
        | apply (proj1 (benign_binary_line _ _ _ _) H) | apply (proj1 (benign_ternary_line _ _ _ _) H)
        | idtac ].
  all: exact (prop_line_not_zero _ _ _ H).
Qed.

Lemma sort_line_not_prop S toks id : sem_sort_line S toks id <> B2Err B2PropWidth.
Proof.
  unfold sem_sort_line. intros H.
  match type of H with ?m = _ => assert (B : m <> B2Err B2PropWidth) end; [|exact (B H)].
  clear H. destruct (need toks 3) as [[]|e] eqn:E3; cbn [b2bind].
  2: { intros H; inversion H; subst e. destruct (benign_need toks 3) as [_ B]. exact (B E3). }
  destruct (seq (tokn toks 2) "bitvec").
  - destruct (need toks 4) as [[]|e] eqn:E4; cbn [b2bind].
    2: { intros H; inversion H; subst e. destruct (benign_need toks 4) as [_ B]. exact (B E4). }
    unfold s_num. destruct (parse_width (tokn toks 3)) as [w|]; cbn [s_opt b2bind]; [|discriminate].
    destruct (w =? 0); discriminate.
  - destruct (seq (tokn toks 2) "array"); [|discriminate].
    intros H. by_benign H.
Qed.

Lemma sem_line_prop val S l :
  sem_line val S l = B2Err B2PropWidth ->
  seq (tokn l 1) "bad" || seq (tokn l 1) "constraint" = true /\
  exists v, s_node S (tokn l 2) = B2Ok v /\ ty_eqb (sort_of_value v) (TBV 1) = false.
Proof.
  unfold sem_line. intros H. destruct l as [|t0 rest]; [discriminate|].
  destruct (parse_line_id t0) as [[id neg]|]; [|discriminate]. destruct neg; [discriminate|].
  destruct (need (t0 :: rest) 2) as [[]|e] eqn:E2; cbn [b2bind] in H.
  2: { exfalso. inversion H; subst e. destruct (benign_need (t0 :: rest) 2) as [_ B]. exact (B E2). }
  set (toks := t0 :: rest) in *. cbv zeta in H.
  assert (Hp : forall b, sem_prop_line S toks b = B2Err B2PropWidth ->
               exists v, s_node S (tokn toks 2) = B2Ok v /\ ty_eqb (sort_of_value v) (TBV 1) = false).
  { intros b Hb. unfold sem_prop_line in Hb.
    destruct (need toks 3) as [[]|e] eqn:E3; cbn [b2bind] in Hb.
    2: { exfalso. inversion Hb; subst e. destruct (benign_need toks 3) as [_ B]. exact (B E3). }
    destruct (s_node S (tokn toks 2)) as [v|e] eqn:En; cbn [b2bind] in Hb.
    2: { exfalso. inversion Hb; subst e. destruct (benign_s_node S (tokn toks 2)) as [_ B]. exact (B En). }
    exists v. split; auto. destruct (ty_eqb (sort_of_value v) (TBV 1)); cbn [negb] in Hb; [|reflexivity].
    destruct b; discriminate. }
  destruct (str_mem (tokn toks 1) unsupported_ops); [discriminate|].
  destruct (seq (tokn toks 1) "sort"). { exfalso. exact (sort_line_not_prop _ _ _ H). }
  destruct (seq (tokn toks 1) "input"). { exfalso. apply (proj2 (benign_input_line _ _ _ _) H). }
  destruct (seq (tokn toks 1) "state"). { exfalso. apply (proj2 (benign_state_line _ _ _ _) H). }
  destruct (seq (tokn toks 1) "init"). { exfalso. apply (proj2 (benign_init_next_line _ _ _) H). }
  destruct (seq (tokn toks 1) "next"). { exfalso. apply (proj2 (benign_init_next_line _ _ _) H). }
  destruct (seq (tokn toks 1) "output"). { exfalso. apply (proj2 (benign_output_line _ _) H). }
  destruct (seq (tokn toks 1) "bad"). { split; [reflexivity|]. apply (Hp true H). }
  destruct (seq (tokn toks 1) "constraint"). { split; [reflexivity|]. apply (Hp false H). }
  exfalso.
  repeat match type of H with
         | (if ?c then _ else _) = _ => destruct c
         end; try discriminate;
  first [ apply (proj2 (benign_const_line _ _ _ _) H) | apply (proj2 (benign_unary_line _ _ _ _) H)
        | apply (proj2 (benign_binary_line _ _ _ _) H) | apply (proj2 (benign_ternary_line _ _ _ _) H) ].
Qed.

Lemma node_opnd_ty rho st S tok v : R rho st S -> s_node S tok = B2Ok v -> opnd_ty st tok = Some (sort_of_value v).
Proof.
  intros HR. unfold s_node, opnd_ty, opnd. destruct (parse_line_id tok) as [[id neg]|]; [|discriminate].
  pose proof (R_nodes _ _ _ HR (key id)) as Hn. unfold orel in Hn.
  destruct (PM.find (key id) (m_nodes S)) as [v0|]; [|discriminate].
  destruct (PM.find (key id) (p_signals st)) as [e|]; [|contradiction].
  cbn [option_map]. intros H. rewrite <- (veq_sort _ _ _ Hn).
  destruct neg; [|inversion H; reflexivity].
  destruct v0; inversion H; reflexivity.
Qed.

(** ** [B2ExtArray] comes from a uext/sext line whose operand is an array *)
Definition noext {A} (m : b2res A) : Prop := m <> B2Err B2ExtArray.

Lemma noext_ok {A} (a : A) : noext (B2Ok a).
Proof. discriminate. Qed.

Lemma noext_err {A} e : e <> B2ExtArray -> noext (@B2Err A e).
Proof. intros H1 H; inversion H; auto. Qed.

Lemma noext_bind {A B} (m : b2res A) (f : A -> b2res B) :
  noext m -> (forall a, noext (f a)) -> noext (b2bind m f).
Proof.
  intros H1 Hf. destruct m as [a|e]; cbn [b2bind]; [apply Hf|].
  intros H; inversion H; subst. apply H1. reflexivity.
Qed.

Ltac nx :=
  repeat first
    [ apply noext_ok
    | (apply noext_err; discriminate)
    | (apply noext_bind; [|intros ?])
    | match goal with
      | |- noext (if ?c then _ else _) => destruct c
      | |- noext (match ?x with _ => _ end) => destruct x
      | |- noext (let '(_, _) := ?p in _) => destruct p
      end ].

Lemma noext_need toks n : noext (need toks n).
Proof. unfold need. nx. Qed.
Lemma noext_s_sort S tok : noext (s_sort S tok).
Proof. unfold s_sort, s_opt. nx. Qed.
Lemma noext_s_node S tok : noext (s_node S tok).
Proof. unfold s_node. nx. Qed.
Lemma noext_s_num tok : noext (s_num tok).
Proof. unfold s_num, s_opt. nx. Qed.
Lemma noext_s_state S tok : noext (s_state S tok).
Proof. unfold s_state, s_opt. nx. Qed.
Lemma noext_check_sort t v : noext (check_sort t v).
Proof. unfold check_sort. nx. Qed.
Lemma noext_sem_const r w tok : noext (sem_const r w tok).
Proof. unfold sem_const. nx. Qed.
Lemma noext_sem_binary op a b : noext (sem_binary op a b).
Proof. unfold sem_binary. nx. Qed.
Lemma noext_sem_ternary op a b c : noext (sem_ternary op a b c).
Proof. unfold sem_ternary. nx. Qed.

Ltac nx2 :=
  repeat first
    [ apply noext_need | apply noext_s_sort | apply noext_s_node | apply noext_s_num | apply noext_s_state
    | apply noext_check_sort | apply noext_sem_const | apply noext_sem_binary
    | apply noext_sem_ternary | apply noext_ok
    | (apply noext_err; discriminate)
    | (apply noext_bind; [|intros ?])
    | match goal with
      | |- noext (if ?c then _ else _) => destruct c
      | |- noext (match ?x with _ => _ end) => destruct x
      end ].

Lemma noext_binary_line S toks id op : noext (sem_binary_line S toks id op).
Proof. unfold sem_binary_line. nx2. Qed.
Lemma noext_ternary_line S toks id op : noext (sem_ternary_line S toks id op).
Proof. unfold sem_ternary_line. nx2. Qed.
Lemma noext_const_line S toks id op : noext (sem_const_line S toks id op).
Proof. unfold sem_const_line. nx2. Qed.
Lemma noext_input_line val S toks id : noext (sem_input_line val S toks id).
Proof. unfold sem_input_line. nx2. Qed.
Lemma noext_state_line val S toks id : noext (sem_state_line val S toks id).
Proof. unfold sem_state_line. nx2. Qed.
Lemma noext_init_next_line S toks b : noext (sem_init_next_line S toks b).
Proof. unfold sem_init_next_line. nx2. Qed.
Lemma noext_output_line S toks : noext (sem_output_line S toks).
Proof. unfold sem_output_line. nx2. Qed.
Lemma noext_sort_line S toks id : noext (sem_sort_line S toks id).
Proof. unfold sem_sort_line. nx2. Qed.
Lemma noext_prop_line S toks b : noext (sem_prop_line S toks b).
Proof. unfold sem_prop_line. nx2. Qed.

Lemma sem_unary_ext op toks v :
  sem_unary op toks v = B2Err B2ExtArray ->
  seq op "uext" || seq op "sext" = true /\ is_bv_ty (sort_of_value v) = false.
Proof.
  unfold sem_unary. destruct v as [w a|iw dw f].
  - intros H. exfalso. revert H.
    match goal with |- ?m = _ -> False => change (noext m) end.
    repeat match goal with |- noext (if ?c then _ else _) => destruct c end; nx2.
  - destruct (seq op "uext" || seq op "sext"); [auto|discriminate].
Qed.

Lemma sem_line_ext val S l :
  sem_line val S l = B2Err B2ExtArray ->
  seq (tokn l 1) "uext" || seq (tokn l 1) "sext" = true /\
  exists v, s_node S (tokn l 3) = B2Ok v /\ is_bv_ty (sort_of_value v) = false.
Proof.
  unfold sem_line. intros H. destruct l as [|t0 rest]; [discriminate|].
  destruct (parse_line_id t0) as [[id neg]|]; [|discriminate]. destruct neg; [discriminate|].
  destruct (need (t0 :: rest) 2) as [[]|e] eqn:E2; cbn [b2bind] in H.
  2: { exfalso. inversion H; subst e. exact (noext_need (t0 :: rest) 2 E2). }
  set (toks := t0 :: rest) in *. cbv zeta in H.
  destruct (str_mem (tokn toks 1) unsupported_ops); [discriminate|].
  destruct (seq (tokn toks 1) "sort"). { exfalso. exact (noext_sort_line _ _ _ H). }
  destruct (seq (tokn toks 1) "input"). { exfalso. exact (noext_input_line _ _ _ _ H). }
  destruct (seq (tokn toks 1) "state"). { exfalso. exact (noext_state_line _ _ _ _ H). }
  destruct (seq (tokn toks 1) "init"). { exfalso. exact (noext_init_next_line _ _ _ H). }
  destruct (seq (tokn toks 1) "next"). { exfalso. exact (noext_init_next_line _ _ _ H). }
  destruct (seq (tokn toks 1) "output"). { exfalso. exact (noext_output_line _ _ H). }
  destruct (seq (tokn toks 1) "bad"). { exfalso. exact (noext_prop_line _ _ _ H). }
  destruct (seq (tokn toks 1) "constraint"). { exfalso. exact (noext_prop_line _ _ _ H). }
  destruct (seq (tokn toks 1) "zero" || seq (tokn toks 1) "one" || seq (tokn toks 1) "ones" || seq (tokn toks 1) "const"
            || seq (tokn toks 1) "constd" || seq (tokn toks 1) "consth").
  { exfalso. exact (noext_const_line _ _ _ _ H). }
  destruct (is_unary (tokn toks 1)).
  2: { exfalso. destruct (is_binary (tokn toks 1)); [exact (noext_binary_line _ _ _ _ H)|].
       destruct (seq (tokn toks 1) "ite" || seq (tokn toks 1) "write"); [exact (noext_ternary_line _ _ _ _ H)|discriminate]. }
  unfold sem_unary_line in H.
  destruct (need toks 4) as [[]|e] eqn:E4; cbn [b2bind] in H.
  2: { exfalso. inversion H; subst e. exact (noext_need toks 4 E4). }
  destruct (s_sort S (tokn toks 2)) as [t|e] eqn:Et; cbn [b2bind] in H.
  2: { exfalso. inversion H; subst e. exact (noext_s_sort S _ Et). }
  destruct (s_node S (tokn toks 3)) as [v|e] eqn:En; cbn [b2bind] in H.
  2: { exfalso. inversion H; subst e. exact (noext_s_node S _ En). }
  destruct (sem_unary (tokn toks 1) toks v) as [r|e] eqn:Eu; cbn [b2bind] in H.
  - exfalso. destruct (check_sort t r) as [r'|e] eqn:Ec; cbn [b2bind] in H; [discriminate|].
    inversion H; subst e. exact (noext_check_sort t r Ec).
  - inversion H; subst e. apply sem_unary_ext in Eu. destruct Eu as [Hop Hv]. split; [exact Hop|]. exists v. auto.
Qed.

(** ** the fold for the repaired reader *)
Definition strict_err (e : b2err) : bool :=
  match e with B2IllSorted | B2ZeroWidth | B2PropWidth => true | _ => false end.

(** with patches/0009 ([Fix2]) an extension of an array is rejected as well *)
Definition strict_err2 (e : b2err) : bool :=
  match e with B2IllSorted | B2ZeroWidth | B2PropWidth | B2ExtArray => true | _ => false end.

Definition strict_err_v (v : code_variant) (e : b2err) : bool :=
  match e with
  | B2IllSorted | B2ZeroWidth | B2PropWidth => true
  | B2ExtArray => match v with Fix2 => true | _ => false end
  | _ => false
  end.

Definition sconsistent3 (v : code_variant) (m : b2res b2sem) (P : b2sem -> Prop) : Prop :=
  match m with B2Ok S' => P S' | B2Err e => strict_err_v v e = false end.

Section FoldFix.
  Variable rho : env.
  Hypothesis Hrho : env_wf rho.
  Variable val : b2val.
  Variable v : code_variant.
  Hypothesis Hv : is_fix v = true.

  Lemma fold_v_no_err ls : forall st r, parse_fold_v v true ls st true = POk (r, false) -> False.
  Proof.
    induction ls as [|l' ls' IH']; intros s0 r H; cbn [parse_fold_v] in H.
    - inversion H.
    - destruct (parse_line_v v true s0 l'); try discriminate; eapply IH'; eauto.
  Qed.

  Lemma fold_sim_fix ls : forall st S stf,
    inv st -> R rho st S ->
    parse_fold_v v true ls st false = POk (stf, false) ->
    agree rho val (p_inputs stf) (map st_sym (p_states stf)) ->
    sconsistent3 v (sem_fold val ls S) (fun S' => R rho stf S').
  Proof.
    induction ls as [|l ls IH]; intros st S stf Hinv HR H Hag; cbn [parse_fold_v sem_fold] in *.
    - inversion H; subst. exact HR.
    - destruct (parse_line_v v true st l) as [st1| |k] eqn:E; [| |discriminate].
      + pose proof E as E0.
        apply (fix_line_ok v _ _ _ _ Hv) in E. destruct E as [Hpre E]. apply fix_pre_parts in Hpre. destruct Hpre as (_ & Hz & Hpb).
        assert (Hg : grows st1 stf).
        { clear - H Hv. revert H. generalize st1. induction ls as [|l' ls' IH']; intros s0 H; cbn [parse_fold_v] in H.
          - inversion H; apply grows_refl.
          - destruct (parse_line_v v true s0 l') as [s1| |k] eqn:E1; try discriminate.
            + apply (fix_line_ok v _ _ _ _ Hv) in E1. destruct E1 as [_ E1]. eapply grows_trans; [eapply parse_line_grows; eauto|apply IH'; auto].
            + exfalso. eapply fold_v_no_err; eauto. }
        pose proof (line_sim rho Hrho val st S l st1 Hinv HR E (agree_grows _ _ _ _ Hg Hag)) as Hl.
        destruct (sem_line val S l) as [S1|e] eqn:Es; cbn [b2bind sconsistent sconsistent3] in *.
        * apply (IH st1 S1 stf); auto. eapply parse_line_inv; eauto.
        * destruct e; cbn [strict_err_v]; try reflexivity.
          -- exfalso. exact Hl.
          -- exfalso. apply sem_line_zero in Es. congruence.
          -- destruct v; try reflexivity. exfalso.
             apply fix2_line_ok in E0. apply sem_line_ext in Es. destruct Es as (Hop & v0 & Hn & Hv0).
             unfold ext_bv in E0. rewrite Hop, (node_opnd_ty _ _ _ _ _ HR Hn), Hv0 in E0. discriminate.
          -- exfalso. apply sem_line_prop in Es. destruct Es as (Hop & v0 & Hn & Hv0).
             unfold prop_bool in Hpb. rewrite Hop, (node_opnd_ty _ _ _ _ _ HR Hn), Hv0 in Hpb. discriminate.
      + exfalso. eapply fold_v_no_err; eauto.
  Qed.

End FoldFix.

Lemma parse_raw_v_inv v dbg ls sy ren :
  parse_raw_v v dbg ls = POk (sy, ren) ->
  exists st, parse_fold_v v dbg ls p_empty false = POk (st, false) /\ sy = sys_of_pstate st /\ ren = renames_of st.
Proof.
  unfold parse_raw_v. intros H. binv H r Hr. destruct r as [st err]. destruct err; [discriminate|].
  inversion H; subst. eauto.
Qed.

(** for every repaired reader: an ill-sorted text, a text with a zero-width sort and a text with a
    non-Boolean bad/constraint are never accepted ([Fix2]: nor is an extension of an array); and
    what is accepted agrees with the interpreter *)
Theorem variant_rejects_ill_formed v ls sy ren rho e :
  is_fix v = true -> env_wf rho ->
  parse_raw_v v true ls = POk (sy, ren) ->
  sem_run (induced_sys rho sy) ls = B2Err e -> strict_err_v v e = false.
Proof.
  intros Hv Hrho H Hs. apply parse_raw_v_inv in H. destruct H as (st & Hf & -> & _).
  pose proof (fold_sim_fix rho Hrho (induced_sys rho (sys_of_pstate st)) v Hv ls p_empty b2sem_empty st
                inv_empty (R_empty rho) Hf (induced_agree rho st)) as Hsim.
  unfold sem_run in Hs. rewrite Hs in Hsim. exact Hsim.
Qed.

Theorem variant_system_sound v ls sy ren rho S :
  is_fix v = true -> env_wf rho ->
  parse_raw_v v true ls = POk (sy, ren) ->
  sem_run (induced_sys rho sy) ls = B2Ok S -> sys_agrees rho sy S.
Proof.
  intros Hv Hrho H Hs. apply parse_raw_v_inv in H. destruct H as (st & Hf & -> & _).
  pose proof (fold_sim_fix rho Hrho (induced_sys rho (sys_of_pstate st)) v Hv ls p_empty b2sem_empty st
                inv_empty (R_empty rho) Hf (induced_agree rho st)) as Hsim.
  unfold sem_run in Hs. rewrite Hs in Hsim. apply R_sys. exact Hsim.
Qed.

Theorem fix_rejects_ill_formed ls sy ren rho e :
  env_wf rho ->
  parse_raw_v Fix true ls = POk (sy, ren) ->
  sem_run (induced_sys rho sy) ls = B2Err e -> strict_err e = false.
Proof.
  intros Hrho H Hs. pose proof (variant_rejects_ill_formed Fix ls sy ren rho e eq_refl Hrho H Hs) as Hx.
  destruct e; cbn in *; congruence.
Qed.

Theorem fix_system_sound ls sy ren rho S :
  env_wf rho ->
  parse_raw_v Fix true ls = POk (sy, ren) ->
  sem_run (induced_sys rho sy) ls = B2Ok S -> sys_agrees rho sy S.
Proof. apply variant_system_sound. reflexivity. Qed.

Theorem fix2_rejects_ill_formed ls sy ren rho e :
  env_wf rho ->
  parse_raw_v Fix2 true ls = POk (sy, ren) ->
  sem_run (induced_sys rho sy) ls = B2Err e -> strict_err2 e = false.
Proof.
  intros Hrho H Hs. pose proof (variant_rejects_ill_formed Fix2 ls sy ren rho e eq_refl Hrho H Hs) as Hx.
  destruct e; cbn in *; congruence.
Qed.

Theorem fix2_system_sound ls sy ren rho S :
  env_wf rho ->
  parse_raw_v Fix2 true ls = POk (sy, ren) ->
  sem_run (induced_sys rho sy) ls = B2Ok S -> sys_agrees rho sy S.
Proof. apply variant_system_sound. reflexivity. Qed.
