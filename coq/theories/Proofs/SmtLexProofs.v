(** * Proofs/SmtLexProofs.v — C14: the lexer returns the printed tokens ([lex_print]); every
    atom the writer produces is lexable; the round trip at the level of characters. *)
From Coq Require Import Lia.
From Patronus Require Import SmtParse BVLemmas ExprLemmas EvalProofs SmtCharLemmas SmtSerLemmas SmtSemLemmas SmtSerProofs SmtParseLemmas SmtParseProofs SmtRoundTrip.
Open Scope string_scope.
Open Scope list_scope.
Open Scope N_scope.

Section CV.
Variable cv : variant.
Local Notation is_simple_id := (SmtSer.is_simple_id cv) (only parsing).
Local Notation escape_id := (SmtSer.escape_id cv) (only parsing).
Local Notation ser := (SmtSer.ser cv) (only parsing).
Local Notation ser_cmd := (SmtSer.ser_cmd cv) (only parsing).
Local Notation name_ok := (SmtSer.name_ok cv) (only parsing).
Local Notation declared := (SmtSer.declared cv) (only parsing).
Local Notation symbols_declared := (SmtSer.symbols_declared cv) (only parsing).
Local Notation lx_go := (SmtLex.lx_go cv) (only parsing).
Local Notation lex_impl := (SmtLex.lex_impl cv) (only parsing).
Local Notation early_other := (SmtParse.early_other cv) (only parsing).
Local Notation early_parse := (SmtParse.early_parse cv) (only parsing).
Local Notation step := (SmtParse.step cv) (only parsing).
Local Notation run := (SmtParse.run cv) (only parsing).
Local Notation parse_eot := (SmtParse.parse_eot cv) (only parsing).
Local Notation parse_expr_internal := (SmtParse.parse_expr_internal cv) (only parsing).
Local Notation parse_type := (SmtParse.parse_type cv) (only parsing).
Local Notation parse_expr_toks := (SmtParse.parse_expr_toks cv) (only parsing).
Local Notation parse_expr_str := (SmtParse.parse_expr_str cv) (only parsing).
Local Notation skip_expr := (SmtParse.skip_expr cv) (only parsing).
Local Notation parse_get_value_response_toks := (SmtParse.parse_get_value_response_toks cv) (only parsing).
Local Notation parse_get_value_response_str := (SmtParse.parse_get_value_response_str cv) (only parsing).
Local Notation parse_expr_list_go := (SmtParse.parse_expr_list_go cv) (only parsing).
Local Notation parse_expr_list_rest := (SmtParse.parse_expr_list_rest cv) (only parsing).
Local Notation parse_unsat_assumptions_toks := (SmtParse.parse_unsat_assumptions_toks cv) (only parsing).
Local Notation parse_unsat_assumptions_str := (SmtParse.parse_unsat_assumptions_str cv) (only parsing).
Local Notation parse_command_body := (SmtParse.parse_command_body cv) (only parsing).
Local Notation parse_command_toks := (SmtParse.parse_command_toks cv) (only parsing).
Local Notation parse_command_str := (SmtParse.parse_command_str cv) (only parsing).
Local Notation count_parens := (SmtParse.count_parens cv) (only parsing).
Local Notation rc_balance := (SmtParse.rc_balance cv) (only parsing).
Local Notation read_command := (SmtParse.read_command cv) (only parsing).
Local Notation is_simple_id_loop := (SmtSerLemmas.is_simple_id_loop cv) (only parsing).
Local Notation is_simple_id_chars := (SmtSerLemmas.is_simple_id_chars cv) (only parsing).
Local Notation is_simple_id_first := (SmtSerLemmas.is_simple_id_first cv) (only parsing).
Local Notation escape_sound_gen := (SmtSerLemmas.escape_sound_gen cv) (only parsing).
Local Notation escape_sound_lemma := (SmtSerLemmas.escape_sound_lemma cv) (only parsing).
Local Notation good := (SmtSerProofs.good cv) (only parsing).
Local Notation symbols_declared_app := (SmtSerProofs.symbols_declared_app cv) (only parsing).
Local Notation name_ok_facts := (SmtSerProofs.name_ok_facts cv) (only parsing).
Local Notation symbol_good := (SmtSerProofs.symbol_good cv) (only parsing).
Local Notation ser_core := (SmtSerProofs.ser_core cv) (only parsing).
Local Notation ser_eq := (SmtSerProofs.ser_eq cv) (only parsing).
Local Notation core_good := (SmtSerProofs.core_good cv) (only parsing).
Local Notation wrap_good_e := (SmtSerProofs.wrap_good_e cv) (only parsing).
Local Notation ser_good := (SmtSerProofs.ser_good cv) (only parsing).
Local Notation ser_sorted_sound_lemma := (SmtSerProofs.ser_sorted_sound_lemma cv) (only parsing).
Local Notation name_ok_intro := (SmtSerProofs.name_ok_intro cv) (only parsing).
Local Notation noop_slice_latent := (SmtSerProofs.noop_slice_latent cv) (only parsing).
Local Notation cont := (SmtParseProofs.cont cv) (only parsing).
Local Notation runs_to := (SmtParseProofs.runs_to cv) (only parsing).
Local Notation run_cons := (SmtParseProofs.run_cons cv) (only parsing).
Local Notation cont_nonempty := (SmtParseProofs.cont_nonempty cv) (only parsing).
Local Notation run_items := (SmtParseProofs.run_items cv) (only parsing).
Local Notation run_group := (SmtParseProofs.run_group cv) (only parsing).
Local Notation runs_value := (SmtParseProofs.runs_value cv) (only parsing).
Local Notation runs_escaped := (SmtParseProofs.runs_escaped cv) (only parsing).
Local Notation atom_item := (SmtParseProofs.atom_item cv) (only parsing).
Local Notation sxi := (SmtParseProofs.sxi cv) (only parsing).
Local Notation sxi_list := (SmtParseProofs.sxi_list cv) (only parsing).
Local Notation sxi_list_eq := (SmtParseProofs.sxi_list_eq cv) (only parsing).
Local Notation machine_sx := (SmtParseProofs.machine_sx cv) (only parsing).
Local Notation early_plain := (SmtParseProofs.early_plain cv) (only parsing).
Local Notation early_other_lookup := (SmtParseProofs.early_other_lookup cv) (only parsing).
Local Notation early_other_kw := (SmtParseProofs.early_other_kw cv) (only parsing).
Local Notation simple_plain := (SmtParseProofs.simple_plain cv) (only parsing).
Local Notation table_for := (SmtParseProofs.table_for cv) (only parsing).
Local Notation keys_ok := (SmtParseProofs.keys_ok cv) (only parsing).
Local Notation theory_not_ok := (SmtParseProofs.theory_not_ok cv) (only parsing).
Local Notation atom_head := (SmtParseProofs.atom_head cv) (only parsing).
Local Notation simple_not_kw := (SmtParseProofs.simple_not_kw cv) (only parsing).
Local Notation atom_symbol := (SmtParseProofs.atom_symbol cv) (only parsing).
Local Notation head_item := (SmtRoundTrip.head_item cv) (only parsing).
Local Notation numeral_item := (SmtRoundTrip.numeral_item cv) (only parsing).
Local Notation bitvec_item := (SmtRoundTrip.bitvec_item cv) (only parsing).
Local Notation elem_item := (SmtRoundTrip.elem_item cv) (only parsing).
Local Notation ser_type_arr_item := (SmtRoundTrip.ser_type_arr_item cv) (only parsing).
Local Notation syms_in := (SmtRoundTrip.syms_in cv) (only parsing).
Local Notation lit_item := (SmtRoundTrip.lit_item cv) (only parsing).
Local Notation sxi_wrap := (SmtRoundTrip.sxi_wrap cv) (only parsing).
Local Notation early_bits := (SmtRoundTrip.early_bits cv) (only parsing).
Local Notation early_zeros := (SmtRoundTrip.early_zeros cv) (only parsing).
Local Notation sxi_ser := (SmtRoundTrip.sxi_ser cv) (only parsing).
Local Notation parse_ser_lemma := (SmtRoundTrip.parse_ser_lemma cv) (only parsing).
Local Notation run_state := (SmtRoundTrip.run_state cv) (only parsing).
Local Notation end_of_tokens := (SmtRoundTrip.end_of_tokens cv) (only parsing).
Local Notation run_app_state := (SmtRoundTrip.run_app_state cv) (only parsing).
Local Notation run_nil := (SmtRoundTrip.run_nil cv) (only parsing).
Local Notation truncated_lemma := (SmtRoundTrip.truncated_lemma cv) (only parsing).
Local Notation trailing_token_error_lemma := (SmtRoundTrip.trailing_token_error_lemma cv) (only parsing).


(** ** the lexer on printed tokens *)

Lemma srev_app_app s acc t : srev_app (srev_app s acc) t = srev_app acc (String.append s t).
Proof.
  revert acc. induction s as [|d r IH]; intros acc; [reflexivity|].
  cbn [srev_app String.append]. now rewrite IH.
Qed.

Lemma append_nil_r s : String.append s EmptyString = s.
Proof. induction s as [|c r IH]; [reflexivity|]. cbn. now rewrite IH. Qed.

Lemma srev_srev_app s acc : srev (srev_app s acc) = srev_app acc s.
Proof. unfold srev. now rewrite srev_app_app, append_nil_r. Qed.

Definition tok_char (c : ascii) : bool := negb (lx_token_end c).

(** atoms the lexer returns unchanged: plain tokens and well-formed quoted symbols *)
Definition lexable (a : string) : bool :=
  match a with
  | EmptyString => false
  | String c r =>
      if Ascii.eqb c c_bar then match quoted_body r with Some _ => true | None => false end
      else tok_char c && negb (Ascii.eqb c c_dquote) && negb (Ascii.eqb c c_semi) && str_forall tok_char r
  end.

Definition stok_lexable (t : stok) : bool := match t with StAtom a => lexable a | _ => true end.

Lemma lx_token_run s acc rest out :
  str_forall tok_char s = true ->
  lx_go (XToken acc) (String.append s (String " "%char rest)) out =
  lx_go XSearching rest (TkValue (srev_app acc s) :: out).
Proof.
  revert acc. induction s as [|d r IH]; intros acc Hs.
  - cbn [String.append SmtLex.lx_go]. change (lx_token_end " ") with true. cbv iota.
    unfold lx_search. change (Ascii.eqb " " c_bar) with false. change (Ascii.eqb " " c_open) with false.
    change (Ascii.eqb " " c_close) with false. change (lx_ws " ") with true. cbv iota.
    unfold srev. reflexivity.
  - cbn [str_forall] in Hs. apply andb_true_iff in Hs. destruct Hs as [Hd Hr].
    cbn [String.append SmtLex.lx_go]. unfold tok_char in Hd. apply negb_true_iff in Hd. rewrite Hd.
    rewrite (IH (String d acc) Hr). reflexivity.
Qed.

Lemma quoted_body_shape r b : quoted_body r = Some b ->
  r = String.append b "|" /\ str_forall (fun c => negb (Ascii.eqb c c_bar)) b = true.
Proof.
  revert b. induction r as [|c r IH]; intros b H; [discriminate|].
  cbn [quoted_body] in H. destruct r as [|c' r'].
  - destruct (Ascii.eqb_spec c c_bar) as [-> | _]; [|discriminate]. inversion H; subst. split; reflexivity.
  - destruct (quoted_char_ok c) eqn:Ec; [|discriminate].
    destruct (quoted_body (String c' r')) as [b'|] eqn:Eb; [|discriminate]. inversion H; subst.
    destruct (IH b' eq_refl) as [E F]. split.
    + cbn [String.append]. now rewrite <- E.
    + cbn [str_forall]. rewrite F. unfold quoted_char_ok in Ec.
      rewrite !andb_true_iff in Ec. destruct Ec as [[_ Hb] _]. now rewrite Hb.
Qed.

Lemma lx_escaped_run b acc rest out :
  str_forall (fun c => negb (Ascii.eqb c c_bar)) b = true ->
  lx_go (XEscaped acc) (String.append b (String c_bar rest)) out =
  lx_go XSearching rest (TkEscaped (srev_app acc b) :: out).
Proof.
  revert acc. induction b as [|d r IH]; intros acc Hs.
  - cbn [String.append SmtLex.lx_go]. change (Ascii.eqb c_bar c_bar) with true. cbv iota. unfold srev. reflexivity.
  - cbn [str_forall] in Hs. apply andb_true_iff in Hs. destruct Hs as [Hd Hr]. apply negb_true_iff in Hd.
    cbn [String.append SmtLex.lx_go]. rewrite Hd. rewrite (IH (String d acc) Hr). reflexivity.
Qed.

Lemma append_assoc a b c : String.append (String.append a b) c = String.append a (String.append b c).
Proof. induction a as [|x a IH]; [reflexivity|]. cbn. now rewrite IH. Qed.

Theorem lex_render ts :
  forallb stok_lexable ts = true ->
  forall out, lx_go XSearching (render ts) out = rev out ++ map ltok_of ts.
Proof.
  induction ts as [|t ts IH]; intros H out.
  - cbn [render SmtLex.lx_go map]. now rewrite app_nil_r.
  - cbn [forallb] in H. apply andb_true_iff in H. destruct H as [Ht Hts].
    destruct t as [| | a]; cbn [render map ltok_of].
    + cbn [SmtLex.lx_go]. unfold lx_search at 1. change (Ascii.eqb c_open c_bar) with false. change (Ascii.eqb c_open c_open) with true. cbv iota.
      cbn [SmtLex.lx_go]. unfold lx_search at 1. change (Ascii.eqb " " c_bar) with false. change (Ascii.eqb " " c_open) with false.
      change (Ascii.eqb " " c_close) with false. change (lx_ws " ") with true. cbv iota.
      rewrite (IH Hts). cbn [rev]. now rewrite <- app_assoc.
    + cbn [SmtLex.lx_go]. unfold lx_search at 1. change (Ascii.eqb c_close c_bar) with false. change (Ascii.eqb c_close c_open) with false.
      change (Ascii.eqb c_close c_close) with true. cbv iota.
      cbn [SmtLex.lx_go]. unfold lx_search at 1. change (Ascii.eqb " " c_bar) with false. change (Ascii.eqb " " c_open) with false.
      change (Ascii.eqb " " c_close) with false. change (lx_ws " ") with true. cbv iota.
      rewrite (IH Hts). cbn [rev]. now rewrite <- app_assoc.
    + cbn [stok_lexable] in Ht. unfold lexable in Ht. destruct a as [|c r]; [discriminate|].
      unfold ltok_of_atom. destruct (Ascii.eqb_spec c c_bar) as [-> | Hnb].
      * destruct (quoted_body r) as [b|] eqn:Eb; [|discriminate].
        destruct (quoted_body_shape r b Eb) as [-> Hb].
        cbn [String.append SmtLex.lx_go]. unfold lx_search at 1. change (Ascii.eqb c_bar c_bar) with true. cbv iota.
        rewrite append_assoc. cbn [String.append].
        rewrite (lx_escaped_run b "" _ _ Hb).
        cbn [SmtLex.lx_go]. unfold lx_search at 1. change (Ascii.eqb " " c_bar) with false. change (Ascii.eqb " " c_open) with false.
        change (Ascii.eqb " " c_close) with false. change (lx_ws " ") with true. cbv iota.
        rewrite (IH Hts). cbn [rev srev_app]. now rewrite <- app_assoc.
      * rewrite !andb_true_iff, !negb_true_iff in Ht. destruct Ht as [[[Hc Hq] Hs] Hr].
        unfold tok_char in Hc. apply negb_true_iff in Hc.
        assert (Hparts : Ascii.eqb c c_bar = false /\ Ascii.eqb c c_open = false /\ Ascii.eqb c c_close = false /\ lx_ws c = false).
        { unfold lx_token_end in Hc. rewrite !orb_false_iff in Hc. tauto. }
        destruct Hparts as (H1 & H2 & H3 & H4).
        cbn [String.append SmtLex.lx_go]. unfold lx_search at 1. rewrite H1, H2, H3, H4, Hq, Hs.
        rewrite (lx_token_run r (String c "") _ _ Hr).
        rewrite (IH Hts). cbn [rev srev_app]. now rewrite <- app_assoc.
Qed.

Theorem lex_print ts : forallb stok_lexable ts = true -> lex_impl (render ts) = map ltok_of ts.
Proof. intros H. unfold SmtLex.lex_impl. now rewrite (lex_render ts H []). Qed.

(** ** every atom the writer produces is lexable *)

Definition sx_lexable (t : sx) : bool := forallb stok_lexable (flatten t).

Lemma sx_lexable_list l : sx_lexable (SxList l) = forallb sx_lexable l.
Proof.
  unfold sx_lexable. cbn [flatten forallb stok_lexable andb]. rewrite forallb_app. cbn [forallb stok_lexable andb].
  rewrite andb_true_r. induction l as [|x l IH]; [reflexivity|]. cbn [flat_map forallb]. now rewrite forallb_app, IH.
Qed.

Lemma sx_lexable_atom a : sx_lexable (SxAtom a) = lexable a.
Proof. unfold sx_lexable. cbn. now rewrite andb_true_r. Qed.

Lemma id_char_tok c : id_char_ok c = true ->
  tok_char c = true /\ Ascii.eqb c c_dquote = false /\ Ascii.eqb c c_semi = false /\ Ascii.eqb c c_bar = false.
Proof. all_ascii c; vm_compute; intros H; first [repeat split; reflexivity | discriminate H]. Qed.

Lemma id_chars_tok s b : id_chars_ok s b = true -> str_forall tok_char s = true.
Proof.
  revert b. induction s as [|c r IH]; intros b H; [reflexivity|]. cbn [id_chars_ok] in H.
  destruct (id_char_ok c) eqn:Ec; cbn [negb] in H; [|discriminate].
  destruct (id_is_num c && b); [discriminate|]. cbn [str_forall].
  destruct (id_char_tok c Ec) as (-> & _). now rewrite (IH _ H).
Qed.

Lemma escape_lexable n : symbol_name (escape_id n) = Some n -> lexable (escape_id n) = true.
Proof.
  intros Hs. unfold SmtSer.escape_id in *. destruct (is_simple_id n) eqn:Es.
  - destruct (is_simple_id_loop n Es) as [Hne Hl].
    destruct n as [|c r]; [congruence|]. unfold lexable.
    pose proof (id_chars_tok _ _ Hl) as Ht. cbn [id_chars_ok] in Hl.
    destruct (id_char_ok c) eqn:Ec; cbn [negb] in Hl; [|discriminate].
    destruct (id_char_tok c Ec) as (H1 & H2 & H3 & H4). rewrite H4, H1, H2, H3. cbn [str_forall] in Ht.
    apply andb_true_iff in Ht. now rewrite (proj2 Ht).
  - change (String.append "|" (String.append n "|")) with (String c_bar (String.append n "|")) in *.
    unfold lexable. change (Ascii.eqb c_bar c_bar) with true. cbv iota.
    unfold symbol_name in Hs. change (Ascii.eqb c_bar c_bar) with true in Hs. cbv iota in Hs. now rewrite Hs.
Qed.

Lemma digit_tok c : is_dec_digit c = true ->
  tok_char c = true /\ Ascii.eqb c c_dquote = false /\ Ascii.eqb c c_semi = false /\ Ascii.eqb c c_bar = false.
Proof. all_ascii c; vm_compute; intros H; first [repeat split; reflexivity | discriminate H]. Qed.

Lemma dec_lexable k : lexable (dec_string k) = true.
Proof.
  destruct (all_digits_first _ (dec_string_digits k)) as (c & r & E & Hc & Hr). rewrite E. unfold lexable.
  destruct (digit_tok c Hc) as (H1 & H2 & H3 & H4). rewrite H4, H1, H2, H3. cbn [andb negb].
  clear -Hr. induction r as [|d r IH]; [reflexivity|]. cbn [str_forall] in *. apply andb_true_iff in Hr.
  destruct Hr as [Hd Hr]. destruct (digit_tok d Hd) as (-> & _). now rewrite IH.
Qed.

Lemma bits_tok k v : str_forall tok_char (bits_str_nat k v) = true.
Proof. induction k as [|k IH]; [reflexivity|]. cbn [bits_str_nat str_forall]. rewrite IH. destruct (N.testbit v (N.of_nat k)); reflexivity. Qed.

Lemma bits_lexable w v : lexable (String.append "#b" (bits_str w v)) = true.
Proof. unfold bits_str. cbn [String.append]. unfold lexable. cbn [str_forall]. now rewrite bits_tok. Qed.

Lemma zeros_lexable by_ (last : ascii) : tok_char last = true ->
  lexable (String.append "#b" (String.append (zeros by_) (String last EmptyString))) = true.
Proof.
  intros Hl. unfold zeros. cbn [String.append]. unfold lexable. cbn [str_forall].
  assert (F : str_forall tok_char (String.append (zeros_nat (N.to_nat by_)) (String last "")) = true).
  { induction (N.to_nat by_) as [|k IH]; cbn [zeros_nat String.append str_forall]; [now rewrite Hl | now rewrite IH]. }
  now rewrite F.
Qed.

Lemma ser_type_lexable t : sx_lexable (ser_type t) = true.
Proof.
  assert (B : forall w, sx_lexable (bitvec_sx w) = true).
  { intros w. unfold bitvec_sx. rewrite sx_lexable_list. cbn [forallb]. rewrite !sx_lexable_atom, dec_lexable. reflexivity. }
  destruct t as [w | i d]; cbn [ser_type].
  - destruct (w =? 1); [reflexivity | apply B].
  - destruct (i =? 1), (d =? 1); rewrite sx_lexable_list; cbn [forallb]; rewrite ?B; reflexivity.
Qed.

Definition names_ok (e : expr) : Prop := forall n t, In (n, t) (symbols e) -> name_ok n = true.

Ltac closed_atoms :=
  repeat match goal with
         | |- context [lexable ?s] =>
             let b := eval vm_compute in (lexable s) in
             lazymatch b with true => change (lexable s) with true end
         end.

Lemma wrap_lexable r1 p mb core : sx_lexable core = true -> sx_lexable (wrap r1 p mb core) = true.
Proof.
  intros H. unfold wrap. destruct (r1 && mb && negb p); [| destruct (r1 && negb mb && p)]; try assumption;
    rewrite sx_lexable_list; cbn [forallb]; rewrite H, ?sx_lexable_atom; closed_atoms; reflexivity.
Qed.

Ltac lex_finish :=
  rewrite ?sx_lexable_list; cbn [forallb map]; rewrite ?sx_lexable_list; cbn [forallb map];
  rewrite ?sx_lexable_atom, ?dec_lexable, ?ser_type_lexable; closed_atoms; cbn [andb]; reflexivity.


Ltac lex2 IHa IHb Hsy m :=
  pose proof (IHa (syms_app1 _ _ _ Hsy) m) as La; pose proof (IHb (syms_app2 _ _ _ Hsy) m) as Lb;
  try (cbn [is_1bit type_of]; match goal with |- context [if ?c then _ else _] => destruct c end);
  rewrite sx_lexable_list; cbn [forallb]; rewrite La, Lb; lex_finish.
Ltac lex3 IHa IHb IHc Hsy m :=
  pose proof (IHa (syms_app1 _ _ _ Hsy) m) as La;
  pose proof (IHb (syms_app1 _ _ _ (syms_app2 _ _ _ Hsy)) m) as Lb;
  pose proof (IHc (syms_app2 _ _ _ (syms_app2 _ _ _ Hsy)) m) as Lc;
  rewrite sx_lexable_list; cbn [forallb]; rewrite La, Lb, Lc; lex_finish.

Lemma ser_lexable e : names_ok e -> forall mb, sx_lexable (ser e mb) = true.
Proof.
  unfold names_ok.
  induction e as
      [ n w | w v | a IHa by_ w | a IHa by_ w | a IHa hi lo | a IHa w | a IHa w
      | a IHa b IHb | a IHa b IHb | a IHa b IHb | a IHa b IHb w | a IHa b IHb | a IHa b IHb w
      | a IHa b IHb w | a IHa b IHb w | a IHa b IHb w | a IHa b IHb w | a IHa b IHb w
      | a IHa b IHb w | a IHa b IHb w | a IHa b IHb w | a IHa b IHb w
      | a IHa b IHb w | a IHa b IHb w | a IHa b IHb w | a IHa b IHb w | a IHa b IHb w
      | a IHa b IHb w | a IHa b IHb w | a IHa b IHb c IHc
      | n iw dw | a IHa iw dw | a IHa b IHb | a IHa b IHb c IHc | a IHa b IHb c IHc ];
    intros Hsy mb; rewrite ser_eq; apply wrap_lexable; cbn [symbols] in Hsy; cbn [SmtSerProofs.ser_core consumes_bv].
  - rewrite sx_lexable_atom. apply escape_lexable. apply name_ok_facts. apply (Hsy n (TBV w)). now left.
  - destruct (1 <? w); [rewrite sx_lexable_atom; apply bits_lexable|]. destruct ((w =? 1) && (v =? 1)); reflexivity.
  - pose proof (IHa Hsy false) as La. destruct (is_1bit a).
    + rewrite sx_lexable_list. cbn [forallb]. rewrite La, !sx_lexable_atom, !zeros_lexable by reflexivity. reflexivity.
    + unfold indexed. rewrite sx_lexable_list. cbn [forallb]. rewrite La. lex_finish.
  - pose proof (IHa Hsy true) as La. unfold indexed. rewrite sx_lexable_list. cbn [forallb]. rewrite La. lex_finish.
  - pose proof (IHa Hsy false) as La. destruct ((lo =? 0) && (width a - 1 =? hi)); [exact La|].
    unfold indexed. rewrite sx_lexable_list. cbn [forallb]. rewrite La. lex_finish.
  - pose proof (IHa Hsy false) as La. destruct (is_1bit a); rewrite sx_lexable_list; cbn [forallb]; rewrite La; lex_finish.
  - pose proof (IHa Hsy true) as La. rewrite sx_lexable_list; cbn [forallb]; rewrite La; lex_finish.
  - lex2 IHa IHb Hsy false.
  - lex2 IHa IHb Hsy false.
  - lex2 IHa IHb Hsy true.
  - lex2 IHa IHb Hsy true.
  - lex2 IHa IHb Hsy true.
  - lex2 IHa IHb Hsy true.
  - lex2 IHa IHb Hsy true.
  - lex2 IHa IHb Hsy false.
  - lex2 IHa IHb Hsy false.
  - lex2 IHa IHb Hsy false.
  - lex2 IHa IHb Hsy true.
  - lex2 IHa IHb Hsy true.
  - lex2 IHa IHb Hsy true.
  - lex2 IHa IHb Hsy true.
  - lex2 IHa IHb Hsy true.
  - lex2 IHa IHb Hsy true.
  - lex2 IHa IHb Hsy true.
  - lex2 IHa IHb Hsy true.
  - lex2 IHa IHb Hsy true.
  - lex2 IHa IHb Hsy true.
  - lex2 IHa IHb Hsy true.
  - lex2 IHa IHb Hsy false.
  - lex3 IHa IHb IHc Hsy false.
  - rewrite sx_lexable_atom. apply escape_lexable. apply name_ok_facts. apply (Hsy n (TArr iw dw)). now left.
  - pose proof (IHa Hsy false) as La. rewrite sx_lexable_list. cbn [forallb]. rewrite La. lex_finish.
  - lex2 IHa IHb Hsy false.
  - lex3 IHa IHb IHc Hsy false.
  - lex3 IHa IHb IHc Hsy false.
Qed.

(** ** the round trip at the level of characters: the canonical text of the writer's tokens *)
Theorem parse_ser_text_lemma :
  forall (top : symtab) (e : expr) (mb : bool),
    wt e = true -> built e = true -> idx32 e = true -> table_for top e ->
    parse_expr_str top (render (flatten (ser e mb))) = POk (rt e mb) /\ equiv e (rt e mb).
Proof.
  intros top e mb Hwt Hbu Hix Ht. unfold SmtParse.parse_expr_str.
  rewrite lex_print.
  - apply (parse_ser_lemma top e mb Hwt Hbu Hix Ht).
  - apply (ser_lexable e). intros n t Hin. destruct Ht as [Hsy _]. apply (Hsy n t Hin).
Qed.

End CV.
