(** * Proofs/WitnessProofs.v — [check_witness] decides [witness_ok]. *)
From Coq Require Import List Bool Lia.
From Patronus Require Import EvalImpl Encoding SysExec ReachSpec Witness ExprLemmas BVLemmas EvalProofs McBasics ScriptProofs
     EncodingBasics EncodingFaithful EncodingNew ReachBasics ReachEnum ReachBmcProofs.
Import ListNotations.
Open Scope N_scope.

Lemma val_ok_all_vals t v : val_ok t v = true -> In v (all_vals t).
Proof.
  destruct t, v; cbn [val_ok all_vals]; try discriminate.
  - intros H. apply N.ltb_lt in H. apply in_map. now apply in_range.
  - intros H. apply andb_true_iff in H. destruct H as [Hl Ha]. apply N.eqb_eq in Hl.
    apply in_map. apply in_all_lists; [lia|]. rewrite forallb_forall in Ha.
    intros x Hx. apply in_range. apply N.ltb_lt. now apply Ha.
Qed.

(** a well-shaped list of values: the assignment it stands for *)
Lemma vals_ok_combine : forall syms vs, vals_ok syms vs = true ->
  map fst (combine syms (strip vs)) = syms /\
  forall s v, In (s, v) (combine syms (strip vs)) -> In v (all_vals (type_of s)).
Proof.
  induction syms as [|s r IH]; intros vs H; destruct vs as [|[v|] vs']; cbn [vals_ok] in H; try discriminate.
  - split; [reflexivity|intros s v []].
  - apply andb_true_iff in H. destruct H as [Hv Hr]. destruct (IH vs' Hr) as [Hf Hs].
    cbn [strip flat_map app combine map fst]. fold (strip vs'). split; [now rewrite Hf|].
    intros s' v' [Heq|Hin]; [inversion Heq; subst; now apply val_ok_all_vals|now apply Hs].
Qed.

Lemma vals_ok_in_all_asgs : forall syms vs, vals_ok syms vs = true -> In (combine syms (strip vs)) (all_asgs syms).
Proof.
  induction syms as [|s r IH]; intros vs H; destruct vs as [|[v|] vs']; cbn [vals_ok] in H; try discriminate.
  - now left.
  - apply andb_true_iff in H. destruct H as [Hv Hr].
    cbn [strip flat_map app combine all_asgs]. fold (strip vs'). apply in_flat_map.
    exists (combine r (strip vs')). split; [now apply IH|].
    apply (in_map (fun v => (s, v) :: combine r (strip vs'))). now apply val_ok_all_vals.
Qed.

(** reading back a value that was set *)
Lemma get_val_agree s v f : is_symbol s = true -> In v (all_vals (type_of s)) ->
  (get_val f s = v <->
   match s, v with
   | BVSymbol n w, VB x => rho_bv f n w = x
   | ArraySymbol n iw dw, VA l => forall i, i < 2 ^ iw -> rho_arr f n iw dw i = nth (N.to_nat i) l 0
   | _, _ => False
   end).
Proof.
  intros Hs Hv. destruct s; try discriminate; cbn [type_of all_vals get_val] in *;
    apply in_map_iff in Hv; destruct Hv as (x & <- & Hx).
  - split; [intros H; now inversion H|intros ->; reflexivity].
  - apply all_lists_spec in Hx. destruct Hx as [Hlen _]. split.
    + intros H i Hi. inversion H as [H']. now rewrite nth_map_range.
    + intros H. f_equal. apply (nth_ext _ _ 0 0).
      * rewrite map_length, range_length. lia.
      * intros k Hk. rewrite map_length, range_length in Hk.
        replace k with (N.to_nat (N.of_nat k)) by lia. rewrite nth_map_range by lia. apply H. lia.
Qed.

Section Wit.
  Variable sy : sys.
  Hypothesis Hwf : sys_wf sy = true.
  Hypothesis Hni : nodup_exprs (s_inputs sy) = true.

  Notation eqv := (eqv sy).

  (** what remains to be shown from a valuation: a run through the given inputs *)
  Definition Q (rest : list (list (option val))) (failed : list N) (rho : env) : Prop :=
    exists frees, Forall2 (free_matches sy) rest frees /\ Forall env_wf frees /\
      forallb (constraints_hold sy) (run_from sy rho frees) = true /\
      bads_exactly sy (last (run_from sy rho frees) env0) failed = true.

  Lemma bads_exactly_eqv a b failed : env_wf a -> env_wf b -> eqv a b ->
    bads_exactly sy a failed = bads_exactly sy b failed.
  Proof.
    intros Ha Hb Heq. unfold bads_exactly. f_equal.
    assert (H : forall l, (forall ib, In ib l -> In (snd ib) (s_bads sy)) ->
              forallb (fun ib => Bool.eqb (holds a (snd ib)) (existsb (N.eqb (fst ib)) failed)) l =
              forallb (fun ib => Bool.eqb (holds b (snd ib)) (existsb (N.eqb (fst ib)) failed)) l).
    { induction l as [|ib r IH]; intros Hl; [reflexivity|]. cbn [forallb].
      rewrite (holds_eqv sy Hwf a b (snd ib)) by (auto; right; apply Hl; now left).
      rewrite IH; [reflexivity|]. intros; apply Hl; now right. }
    apply H. intros [i e] Hin. apply in_combine_r in Hin. exact Hin.
  Qed.

  Lemma Q_eqv rest failed : forall a b, env_wf a -> env_wf b -> eqv a b -> Q rest failed a -> Q rest failed b.
  Proof.
    intros a b Ha Hb Heq (frees & Hm & Hw & Hc & Hbad). exists frees. split; [assumption|]. split; [assumption|].
    clear Hm. revert a b Ha Hb Heq Hc Hbad. induction frees as [|F r IH]; intros a b Ha Hb Heq Hc Hbad; cbn [run_from] in *.
    - cbn [forallb last] in *. rewrite andb_true_r in *.
      rewrite <- (constraints_eqv sy Hwf a b), <- (bads_exactly_eqv a b); auto.
    - inversion Hw as [|? ? HF Hr]; subst. cbn [forallb] in *. apply andb_true_iff in Hc. destruct Hc as [Hca Hcr].
      assert (Hn : eqv (next_env sy a F) (next_env sy b F)).
      { intros s Hs. apply (next_env_agree sy Hwf); try assumption. intros _. destruct s; cbn [agree_r]; auto. }
      assert (Hwa : env_wf (next_env sy a F)) by (now apply (next_env_wf sy Hwf)).
      assert (Hwb : env_wf (next_env sy b F)) by (now apply (next_env_wf sy Hwf)).
      destruct (IH Hr _ _ Hwa Hwb Hn) as [Hc' Hb'].
      + assumption.
      + destruct (run_from sy (next_env sy a F) r) eqn:E; [destruct r; discriminate|exact Hbad].
      + split.
        * rewrite <- (constraints_eqv sy Hwf a b) by assumption. now rewrite Hca, Hc'.
        * destruct (run_from sy (next_env sy b F) r) eqn:E; [destruct r; discriminate|exact Hb'].
  Qed.

  Lemma input_asg_props vs : vals_ok (s_inputs sy) vs = true ->
    In (input_asg sy vs) (all_asgs (s_inputs sy)) /\ map fst (input_asg sy vs) = s_inputs sy /\
    forall s v, In (s, v) (input_asg sy vs) -> In v (all_vals (type_of s)).
  Proof.
    intros H. unfold input_asg. destruct (vals_ok_combine _ _ H). split; [now apply vals_ok_in_all_asgs|auto].
  Qed.

  (** the free valuation gives an input the value listed in the step, on its range *)
  Lemma free_matches_agree vs f s base : vals_ok (s_inputs sy) vs = true -> free_matches sy vs f ->
    In s (s_inputs sy) -> agree_r s (env_of base (input_asg sy vs)) f.
  Proof.
    intros Hok Hm Hs. destruct (input_asg_props vs Hok) as (_ & Hfst & Hsort).
    assert (Hin : In s (map fst (input_asg sy vs))) by (now rewrite Hfst).
    apply in_map_iff in Hin. destruct Hin as ([s' v] & Hs' & Hin). cbn in Hs'. subst s'.
    pose proof (Hm s v Hin) as Hg.
    pose proof (proj1 (input_facts sy Hwf s Hs)) as Hsym.
    apply (get_val_agree s v f Hsym (Hsort s v Hin)) in Hg.
    pose proof (env_of_sym base (input_asg sy vs) s v) as He. rewrite Hfst in He.
    specialize (He (inputs_nodup sy Hni) Hin).
    destruct s; try discriminate; destruct v; try contradiction; cbn [agree_r].
    - congruence.
    - intros i Hi. rewrite He. symmetry. now apply Hg.
  Qed.

  Theorem replay_spec failed : forall rest front,
    (forall rho, In rho front -> env_wf rho) ->
    forallb (vals_ok (s_inputs sy)) rest = true ->
    (replay sy front rest failed = true <-> exists rho, In rho front /\ Q rest failed rho).
  Proof.
    induction rest as [|vs r IH]; intros front Hw Hok; cbn [replay].
    - rewrite existsb_exists. split.
      + intros (rho & Hin & Hb). apply filter_In in Hin. destruct Hin as [Hin Hc].
        exists rho. split; [assumption|]. exists []. cbn. rewrite Hc. auto.
      + intros (rho & Hin & frees & Hm & _ & Hc & Hb). inversion Hm; subst. cbn in *. rewrite andb_true_r in Hc.
        exists rho. split; [apply filter_In; auto|assumption].
    - cbn [forallb] in Hok. apply andb_true_iff in Hok. destruct Hok as [Hvs Hokr].
      destruct (input_asg_props vs Hvs) as (Hia & Hfst & Hsort).
      set (front' := map (fun sv => env_of (env_of env0 (combine (state_syms sy) sv)) (input_asg sy vs))
                         (dedup_vals (flat_map (succs sy) (filter (constraints_hold sy) front)))).
      assert (Hw' : forall rho, In rho front' -> env_wf rho).
      { intros rho Hin. unfold front' in Hin. apply in_map_iff in Hin. destruct Hin as (sv & <- & Hsv).
        apply (proj1 (in_dedup_vals _ _)) in Hsv. apply in_flat_map in Hsv. destruct Hsv as (rho1 & Hl & Hsv).
        apply filter_In in Hl. unfold succs in Hsv. apply in_map_iff in Hsv. destruct Hsv as (f & <- & Hf).
        apply (embed_wf sy Hwf); [|assumption].
        apply (next_env_wf sy Hwf); [now apply Hw|]. apply (env_of_wf _ (nextless_syms sy)); [apply env0_wf|assumption]. }
      rewrite (IH front' Hw' Hokr). split.
      + (* a successor in the new frontier gives a run from the old one *)
        intros (rho2 & Hin & HQ). unfold front' in Hin. apply in_map_iff in Hin. destruct Hin as (sv & <- & Hsv).
        apply (proj1 (in_dedup_vals _ _)) in Hsv. apply in_flat_map in Hsv. destruct Hsv as (rho1 & Hl & Hsv).
        apply filter_In in Hl. destruct Hl as [Hf1 Hc1]. unfold succs in Hsv. apply in_map_iff in Hsv.
        destruct Hsv as (f & <- & Hf).
        pose proof (Hw rho1 Hf1) as Hw1.
        assert (Hwf0 : env_wf (env_of env0 f)) by (apply (env_of_wf _ (nextless_syms sy)); [apply env0_wf|assumption]).
        set (F := env_of (env_of env0 f) (input_asg sy vs)).
        assert (HwF : env_wf F) by (apply (env_of_wf _ (s_inputs sy)); assumption).
        set (r1 := next_env sy rho1 (env_of env0 f)).
        assert (Hwr : env_wf r1) by (now apply (next_env_wf sy Hwf)).
        assert (Heq : eqv (embed sy (map (get_val r1) (state_syms sy)) (input_asg sy vs)) (next_env sy rho1 F)).
        { intros s Hs. unfold sys_symbols in Hs. apply in_app_or in Hs. destruct Hs as [Hs|Hs].
          - destruct (input_facts sy Hwf s Hs) as [Hsym Hns].
            eapply agree_r_trans; [apply agree_on_r; apply (embed_input sy Hwf _ _ (env_of env0 f) s Hia Hs)|].
            apply agree_r_sym. apply agree_on_r. apply (next_env_other sy Hwf); [assumption|].
            intros st Hst _ He. apply Hns. rewrite <- He. now apply in_map.
          - eapply agree_r_trans; [now apply (embed_state sy Hwf)|]. unfold r1.
            apply (next_env_agree sy Hwf); try assumption; [apply eqv_refl|now apply state_syms_in|].
            intros _. apply agree_r_sym. apply agree_on_r. unfold F.
            apply env_of_other; [now apply (state_syms_symbol sy Hwf)|]. rewrite Hfst.
            intros Hi. now apply (proj2 (input_facts sy Hwf s Hi)). }
        exists rho1. split; [assumption|].
        assert (HQ' : Q r failed (next_env sy rho1 F)).
        { apply (Q_eqv r failed _ _ (embed_wf sy Hwf r1 _ Hwr Hia) (next_env_wf sy Hwf _ _ Hw1 HwF) Heq). exact HQ. }
        destruct HQ' as (frees & Hm & Hwfr & Hc & Hb). exists (F :: frees). split; [|split; [|split]].
        * constructor; [|assumption]. intros s v Hin.
          assert (Hs : In s (s_inputs sy)) by (rewrite <- Hfst; change s with (fst (s, v)); now apply in_map).
          apply (get_val_agree s v F (proj1 (input_facts sy Hwf s Hs)) (Hsort s v Hin)).
          pose proof (env_of_sym (env_of env0 f) (input_asg sy vs) s v) as He. rewrite Hfst in He.
          specialize (He (inputs_nodup sy Hni) Hin).
          pose proof (proj1 (input_facts sy Hwf s Hs)) as Hsym'. pose proof (Hsort s v Hin) as Hsv.
          destruct s; try discriminate Hsym'; destruct v; cbn [type_of all_vals] in Hsv;
            try (apply in_map_iff in Hsv; destruct Hsv as (x & Hx & _); discriminate Hx).
          -- exact He.
          -- intros i _. apply He.
        * constructor; assumption.
        * cbn [run_from forallb]. now rewrite Hc1, Hc.
        * cbn [run_from]. destruct (run_from sy (next_env sy rho1 F) frees) eqn:E; [destruct frees; discriminate|exact Hb].
      + (* a run from the old frontier goes through the new one *)
        intros (rho1 & Hf1 & frees & Hm & Hwfr & Hc & Hb).
        inversion Hm as [|? F ? frees' HmF Hmr]; subst. inversion Hwfr as [|? ? HwF Hwr']; subst.
        cbn [run_from forallb] in Hc. apply andb_true_iff in Hc. destruct Hc as [Hc1 Hcr].
        pose proof (Hw rho1 Hf1) as Hw1.
        set (rho2' := next_env sy rho1 F).
        assert (Hw2' : env_wf rho2') by (now apply (next_env_wf sy Hwf)).
        set (f := asg_of rho2' (nextless_syms sy)).
        assert (Hf : In f (all_asgs (nextless_syms sy))) by (apply asg_of_in_all; [assumption|apply (nextless_symbol sy Hwf)]).
        assert (Hwf0 : env_wf (env_of env0 f)) by (apply (env_of_wf _ (nextless_syms sy)); [apply env0_wf|assumption]).
        set (r1 := next_env sy rho1 (env_of env0 f)).
        assert (Hwr : env_wf r1) by (now apply (next_env_wf sy Hwf)).
        exists (embed sy (map (get_val r1) (state_syms sy)) (input_asg sy vs)). split.
        * unfold front'. apply in_map_iff. exists (map (get_val r1) (state_syms sy)). split; [reflexivity|].
          apply in_dedup_vals. apply in_flat_map. exists rho1. split; [apply filter_In; auto|].
          unfold succs. apply in_map_iff. exists f. auto.
        * apply (Q_eqv r failed rho2' _ Hw2' (embed_wf sy Hwf r1 _ Hwr Hia)).
          -- apply eqv_sym. intros s Hs. unfold sys_symbols in Hs. apply in_app_or in Hs. destruct Hs as [Hs|Hs].
             ++ destruct (input_facts sy Hwf s Hs) as [Hsym Hns].
                eapply agree_r_trans; [apply agree_on_r; apply (embed_input sy Hwf _ _ env0 s Hia Hs)|].
                eapply agree_r_trans; [apply (free_matches_agree vs F s env0 Hvs HmF Hs)|].
                apply agree_r_sym. apply agree_on_r. apply (next_env_other sy Hwf); [assumption|].
                intros st Hst _ He. apply Hns. rewrite <- He. now apply in_map.
             ++ eapply agree_r_trans; [now apply (embed_state sy Hwf)|]. unfold r1, rho2'.
                apply (next_env_agree sy Hwf); try assumption; [apply eqv_refl|now apply state_syms_in|].
                intros Hno.
                assert (Hnl : In s (nextless_syms sy)).
                { apply in_map_iff in Hs. destruct Hs as (st & <- & Hst). apply nextless_spec. exists st.
                  split; [assumption|]. split; [|reflexivity].
                  destruct (st_next st) eqn:En; [|reflexivity]. exfalso. apply (Hno st Hst); [congruence|reflexivity]. }
                eapply agree_r_trans; [apply (env_of_asg_of env0 (next_env sy rho1 F) (nextless_syms sy) s (nextless_nodup sy Hwf) Hnl)|].
                apply agree_on_r. apply (next_env_other sy Hwf); [now apply (nextless_symbol sy Hwf)|assumption].
          -- exists frees'. split; [assumption|]. split; [assumption|]. split; [assumption|].
             cbn [run_from] in Hb. unfold rho2'. destruct (run_from sy (next_env sy rho1 F) frees') eqn:E; [destruct frees'; discriminate|exact Hb].
  Qed.

  (** the valuation of step 0 of a well-shaped witness is well-formed *)
  Lemma witness_env0_wf w : witness_shape_ok sy w = true -> env_wf (witness_env0 sy w).
  Proof.
    intros H. unfold witness_shape_ok in H. rewrite !andb_true_iff in H.
    destruct H as [[[[[_ _] Hinit] Hne] Hsteps] _].
    unfold witness_env0. destruct (w_inputs w) as [|vs rest]; [discriminate|]. cbn [hd].
    cbn [forallb] in Hsteps. apply andb_true_iff in Hsteps. destruct Hsteps as [Hvs _].
    apply (env_of_wf _ (s_inputs sy)); [|now apply input_asg_props].
    apply (env_of_wf _ (state_syms sy)); [apply env0_wf|now apply vals_ok_in_all_asgs].
  Qed.

  Theorem check_witness_correct w : check_witness sy w = true <-> witness_ok sy w.
  Proof.
    unfold check_witness, witness_ok. rewrite !andb_true_iff. split.
    - intros [[Hshape Hinit] Hrep]. split; [assumption|]. split; [now apply (is_initial_b_r sy)|].
      pose proof (witness_env0_wf w Hshape) as Hw0.
      assert (Hsteps : forallb (vals_ok (s_inputs sy)) (tl (w_inputs w)) = true).
      { unfold witness_shape_ok in Hshape. rewrite !andb_true_iff in Hshape. destruct Hshape as [[[[[_ _] _] _] Hs] _].
        destruct (w_inputs w); [reflexivity|]. cbn [tl forallb] in *. apply andb_true_iff in Hs. tauto. }
      apply (replay_spec (w_failed w) (tl (w_inputs w)) [witness_env0 sy w]) in Hrep; [|intros rho [<-|[]]; assumption|assumption].
      destruct Hrep as (rho & [<-|[]] & frees & Hm & Hwf' & Hc & Hb). exists frees. auto.
    - intros (Hshape & Hinit & frees & Hm & Hwf' & Hc & Hb). split; [split; [assumption|now apply (is_initial_b_r sy)]|].
      pose proof (witness_env0_wf w Hshape) as Hw0.
      assert (Hsteps : forallb (vals_ok (s_inputs sy)) (tl (w_inputs w)) = true).
      { unfold witness_shape_ok in Hshape. rewrite !andb_true_iff in Hshape. destruct Hshape as [[[[[_ _] _] _] Hs] _].
        destruct (w_inputs w); [reflexivity|]. cbn [tl forallb] in *. apply andb_true_iff in Hs. tauto. }
      apply (replay_spec (w_failed w) (tl (w_inputs w)) [witness_env0 sy w]); [intros rho [<-|[]]; assumption|assumption|].
      exists (witness_env0 sy w). split; [now left|]. exists frees. auto.
  Qed.
End Wit.

(** what an accepted witness exhibits *)
Lemma Forall2_len {A B} (R : A -> B -> Prop) l1 l2 : Forall2 R l1 l2 -> length l1 = length l2.
Proof. induction 1; cbn; congruence. Qed.

Lemma accepted_witness_execution sy :
  sys_wf sy = true -> nodup_exprs (s_inputs sy) = true ->
  forall (w : witness), check_witness sy w = true ->
    exists frees : list env,
      is_initial_r sy (witness_env0 sy w) /\
      length frees = length (tl (w_inputs w)) /\
      forallb (constraints_hold sy) (run_from sy (witness_env0 sy w) frees) = true /\
      some_bad sy (last (run_from sy (witness_env0 sy w) frees) env0) = true.
Proof.
  intros Hwf Hni w Hck. apply (check_witness_correct sy Hwf Hni) in Hck.
  destruct Hck as (Hshape & Hinit & frees & Hm & _ & Hc & Hb). exists frees.
  split; [assumption|]. split; [symmetry; eapply Forall2_len; eassumption|]. split; [assumption|].
  (* some listed index is in range and holds *)
  unfold bads_exactly in Hb. apply andb_true_iff in Hb. destruct Hb as [Hne Hall].
  unfold witness_shape_ok in Hshape. rewrite !andb_true_iff in Hshape. destruct Hshape as [_ Hrange].
  destruct (w_failed w) as [|i r] eqn:Ef; [discriminate|].
  rewrite forallb_forall in Hrange, Hall. specialize (Hrange i (or_introl eq_refl)). apply N.ltb_lt in Hrange.
  set (rho := last (run_from sy (witness_env0 sy w) frees) env0) in *.
  assert (Hnth : exists e, In (i, e) (combine (range (N.of_nat (length (s_bads sy)))) (s_bads sy))).
  { clear -Hrange. set (l := s_bads sy) in *.
    assert (Hlen : length (range (N.of_nat (length l))) = length l) by (rewrite range_length; lia).
    exists (nth (N.to_nat i) l (BVLiteral 1 0)).
    replace i with (nth (N.to_nat i) (range (N.of_nat (length l))) 0) at 1 by (apply nth_range; assumption).
    rewrite <- combine_nth by assumption. apply nth_In. rewrite combine_length, Hlen. lia. }
  destruct Hnth as (e & Hin). specialize (Hall (i, e) Hin). cbn [fst snd] in Hall.
  cbn [existsb] in Hall. rewrite N.eqb_refl in Hall. cbn [orb] in Hall.
  apply eqb_prop in Hall. unfold some_bad. apply existsb_exists. exists e. split; [|assumption].
  now apply in_combine_r in Hin.
Qed.
