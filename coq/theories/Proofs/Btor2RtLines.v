(** * Proofs/Btor2RtLines.v — the reader on the lines the writer prints, one line at a time.

    For every kind of line of [Btor2Ser.serialize] (sort, input, state, init, next, output / bad /
    constraint, literal and operator nodes): in a reader state in which the ids the line refers to
    are bound as the writer intends, [parse_line true] accepts the line and binds the new id to
    the expected object.  The token lists are exactly those of the writer model ([num] spellings). *)
From Coq Require Import List Lia Bool String Ascii NArith FMapPositive.
From Patronus Require Import Expr ExprLemmas ExprEqb Eval SysClosed Btor2Parse Btor2Ser Btor2ExprFacts Btor2ParseProofs
     Btor2Sound Btor2SerProofs Btor2RtExpr.
Import ListNotations.
Open Scope string_scope.
Open Scope N_scope.

(** ** numbers *)
Lemma line_id_num n : n <= U32MAX -> parse_line_id (num n) = Some (n, false).
Proof.
  intros H. unfold parse_line_id. pose proof (digits_num n) as Hd. pose proof (num_not_empty n) as Hne.
  destruct (num n) as [|c r]; [contradiction|].
  destruct (Ascii.eqb c "-") eqn:E1.
  { apply Ascii.eqb_eq in E1; subst. cbn [digits_val] in Hd. change (digit_in 10 "-") with (@None N) in Hd. discriminate. }
  destruct (Ascii.eqb c "+") eqn:E2.
  { apply Ascii.eqb_eq in E2; subst. cbn [digits_val] in Hd. change (digit_in 10 "+") with (@None N) in Hd. discriminate. }
  rewrite Hd. destruct (N.leb_spec n U32MAX); [|lia]. reflexivity.
Qed.

Lemma get_tpe_num ps id t : id <= U32MAX -> PM.find (key id) (p_types ps) = Some t -> get_tpe ps (num id) = POk t.
Proof. intros H Hf. unfold get_tpe. rewrite (line_id_num id H), Hf. reflexivity. Qed.

Lemma get_expr_num ps id e : id <= U32MAX -> PM.find (key id) (p_signals ps) = Some e -> get_expr ps (num id) = POk e.
Proof. intros H Hf. unfold get_expr. rewrite (line_id_num id H), Hf. reflexivity. Qed.

Lemma get_state_num ps id j : id <= U32MAX -> PM.find (key id) (p_statemap ps) = Some j -> get_state ps (num id) = POk j.
Proof. intros H Hf. unfold get_state. rewrite (line_id_num id H), Hf. reflexivity. Qed.

Local Opaque num.

(** ** sort lines *)
Lemma sort_bv_line ps id w : id <= U32MAX -> w <= U32MAX ->
  parse_line true ps [num id; "sort"; "bitvec"; num w] = POk (set_types ps (PM.add (key id) (TBV w) (p_types ps))).
Proof.
  intros Hi Hw. unfold parse_line. rewrite (line_id_num id Hi). cbn. rewrite (parse_width_num w Hw). reflexivity.
Qed.

Lemma sort_arr_line ps id ix dx iw dw : id <= U32MAX -> ix <= U32MAX -> dx <= U32MAX ->
  PM.find (key ix) (p_types ps) = Some (TBV iw) -> PM.find (key dx) (p_types ps) = Some (TBV dw) ->
  parse_line true ps [num id; "sort"; "array"; num ix; num dx] =
  POk (set_types ps (PM.add (key id) (TArr iw dw) (p_types ps))).
Proof.
  intros Hi Hx Hd Fx Fd. unfold parse_line. rewrite (line_id_num id Hi). cbn.
  rewrite (get_tpe_num ps ix _ Hx Fx), (get_tpe_num ps dx _ Hd Fd). reflexivity.
Qed.

(** ** declarations *)
Definition mk_sym (n : string) (t : ty) : expr :=
  match t with TBV w => BVSymbol n w | TArr iw dw => ArraySymbol n iw dw end.

Lemma mk_sym_props n t : ty_pos t -> is_symbol (mk_sym n t) = true /\ type_of (mk_sym n t) = t /\ wt (mk_sym n t) = true.
Proof.
  destruct t as [w|iw dw]; cbn [ty_pos mk_sym is_symbol type_of]; intros H; repeat split.
  - cbn. destruct (N.ltb_spec 0 w); [reflexivity|lia].
  - destruct H as [H1 H2]. cbn. destruct (N.ltb_spec 0 iw); [|lia]. destruct (N.ltb_spec 0 dw); [reflexivity|lia].
Qed.

Lemma b_symbol_mk n t : ty_pos t -> b_symbol n t = POk (mk_sym n t).
Proof.
  destruct t as [w|iw dw]; cbn [ty_pos b_symbol mk_sym]; intros H; [|reflexivity].
  destruct (N.eqb_spec w 0); [lia|reflexivity].
Qed.

Lemma input_line ps id sort t : id <= U32MAX -> sort <= U32MAX ->
  PM.find (key sort) (p_types ps) = Some t -> ty_pos t ->
  exists ps' n, parse_line true ps [num id; "input"; num sort] = POk ps' /\
                core_eq ps' (set_signal (add_input ps (mk_sym n t)) id (mk_sym n t)).
Proof.
  intros Hi Hs Ft Hp. unfold parse_line. rewrite (line_id_num id Hi). cbn.
  unfold parse_input. cbn [tokn nth]. rewrite (get_tpe_num ps sort _ Hs Ft). cbn [pbind].
  unfold label_name, add_unique. cbn [nth]. rewrite (b_symbol_mk _ t Hp). cbn [pbind].
  eexists. eexists. split; [reflexivity|].
  destruct (mk_sym_props (unique_name "_input" (p_used ps)) t Hp) as (Hsym & _ & _).
  unfold note_name. rewrite Hsym. repeat split.
Qed.

Lemma state_line ps id sort t : id <= U32MAX -> sort <= U32MAX ->
  PM.find (key sort) (p_types ps) = Some t -> ty_pos t ->
  exists ps' n, parse_line true ps [num id; "state"; num sort] = POk ps' /\
                core_eq ps' (set_signal (add_state ps id {| st_sym := mk_sym n t; st_init := None; st_next := None |}) id (mk_sym n t)).
Proof.
  intros Hi Hs Ft Hp. unfold parse_line. rewrite (line_id_num id Hi). cbn.
  unfold parse_state. cbn [tokn nth]. rewrite (get_tpe_num ps sort _ Hs Ft). cbn [pbind].
  unfold label_name, add_unique. cbn [nth]. rewrite (b_symbol_mk _ t Hp). cbn [pbind].
  eexists. eexists. split; [reflexivity|].
  destruct (mk_sym_props (unique_name "_state" (p_used ps)) t Hp) as (Hsym & _ & _).
  unfold note_name. rewrite Hsym. repeat split.
Qed.

(** ** init and next lines *)
(** the value an [init] line gives a state of sort [t]: a bit-vector is broadcast into an array *)
Definition init_value (t : ty) (v : expr) : expr :=
  match t, type_of v with
  | TArr iw _, TBV w => ArrayConstant v iw w
  | _, _ => v
  end.

Definition set_init (e : expr) (s : state) : state := {| st_sym := st_sym s; st_init := Some e; st_next := st_next s |}.
Definition set_next (e : expr) (s : state) : state := {| st_sym := st_sym s; st_init := st_init s; st_next := Some e |}.

Lemma init_line ps lid sort sid iid t j v :
  lid <= U32MAX -> sort <= U32MAX -> sid <= U32MAX -> iid <= U32MAX ->
  PM.find (key sort) (p_types ps) = Some t ->
  PM.find (key sid) (p_statemap ps) = Some j ->
  type_of (st_sym (nth j (p_states ps) dummy_state)) = t ->
  PM.find (key iid) (p_signals ps) = Some v ->
  type_of (init_value t v) = t ->
  parse_line true ps [num lid; "init"; num sort; num sid; num iid] =
  POk (set_states ps (update_nth j (set_init (init_value t v)) (p_states ps))).
Proof.
  intros Hl Hs Hsi Hi Ft Fj Hty Fv Hiv. unfold parse_line. rewrite (line_id_num lid Hl). cbn.
  unfold parse_init_next. cbn [tokn nth require List.length Nat.ltb Nat.leb pbind].
  rewrite (get_tpe_num ps sort _ Hs Ft). cbn [pbind]. rewrite (get_state_num ps sid _ Hsi Fj). cbn [pbind].
  rewrite Hty, ty_eqb_refl. cbn [negb]. rewrite (get_expr_num ps iid _ Hi Fv). cbn [pbind andb].
  unfold init_value in *. destruct t as [w|iw dw]; cbn [is_bv_ty negb andb].
  - rewrite andb_false_r. cbn [pbind]. destruct (type_of v) eqn:Ev; rewrite Hiv, ty_eqb_refl; reflexivity.
  - rewrite andb_true_r. destruct (type_of v) as [w|iw' dw'] eqn:Ev; cbn [is_bv_ty pbind].
    + unfold b_array_const, unwrap_bv. rewrite Ev. cbn [pbind]. rewrite Hiv, ty_eqb_refl. reflexivity.
    + rewrite Ev in Hiv. rewrite Ev, Hiv, ty_eqb_refl. reflexivity.
Qed.

Lemma next_line ps lid sort sid nid t j v :
  lid <= U32MAX -> sort <= U32MAX -> sid <= U32MAX -> nid <= U32MAX ->
  PM.find (key sort) (p_types ps) = Some t ->
  PM.find (key sid) (p_statemap ps) = Some j ->
  type_of (st_sym (nth j (p_states ps) dummy_state)) = t ->
  PM.find (key nid) (p_signals ps) = Some v ->
  type_of v = t ->
  parse_line true ps [num lid; "next"; num sort; num sid; num nid] =
  POk (set_states ps (update_nth j (set_next v) (p_states ps))).
Proof.
  intros Hl Hs Hsi Hi Ft Fj Hty Fv Hiv. unfold parse_line. rewrite (line_id_num lid Hl). cbn.
  unfold parse_init_next. cbn [tokn nth require List.length Nat.ltb Nat.leb pbind].
  rewrite (get_tpe_num ps sort _ Hs Ft). cbn [pbind]. rewrite (get_state_num ps sid _ Hsi Fj). cbn [pbind].
  rewrite Hty, ty_eqb_refl. cbn [negb]. rewrite (get_expr_num ps nid _ Hi Fv). cbn [pbind andb].
  rewrite Hiv, ty_eqb_refl. reflexivity.
Qed.

(** ** output / bad / constraint lines *)
Lemma output_line ps id body v : id <= U32MAX -> body <= U32MAX ->
  PM.find (key body) (p_signals ps) = Some v ->
  exists ps' n, parse_line true ps [num id; "output"; num body] = POk ps' /\ core_eq ps' (add_output ps n v).
Proof.
  intros Hi Hb Fv. unfold parse_line. rewrite (line_id_num id Hi). cbn.
  unfold parse_prop. cbn [tokn nth]. rewrite (get_expr_num ps body _ Hb Fv). cbn.
  eexists. eexists. split; [reflexivity|]. unfold note_name. destruct (is_symbol v); repeat split.
Qed.

Lemma bad_line ps id body v : id <= U32MAX -> body <= U32MAX ->
  PM.find (key body) (p_signals ps) = Some v ->
  exists ps', parse_line true ps [num id; "bad"; num body] = POk ps' /\ core_eq ps' (add_bad ps v).
Proof.
  intros Hi Hb Fv. unfold parse_line. rewrite (line_id_num id Hi). cbn.
  unfold parse_prop. cbn [tokn nth]. rewrite (get_expr_num ps body _ Hb Fv). cbn.
  eexists. split; [reflexivity|]. unfold note_name. destruct (is_symbol v); repeat split.
Qed.

Lemma constraint_line ps id body v : id <= U32MAX -> body <= U32MAX ->
  PM.find (key body) (p_signals ps) = Some v ->
  exists ps', parse_line true ps [num id; "constraint"; num body] = POk ps' /\ core_eq ps' (add_constraint ps v).
Proof.
  intros Hi Hb Fv. unfold parse_line. rewrite (line_id_num id Hi). cbn.
  unfold parse_prop. cbn [tokn nth]. rewrite (get_expr_num ps body _ Hb Fv). cbn.
  eexists. split; [reflexivity|]. unfold note_name. destruct (is_symbol v); repeat split.
Qed.

(** ** literal and operator nodes *)
Lemma tcheck_wt x : wt x = true -> node_fits x = true -> exists t, tcheck true x = POk t.
Proof.
  intros Hwt Hfit.
  assert (Hgen : is_some (check1 x) = true).
  { apply wt_node_ok in Hwt. unfold node_ok in Hwt. apply andb_true_iff in Hwt. tauto. }
  destruct x; cbn [tcheck]; try (apply is_some_true in Hgen; destruct Hgen as [t ->]; eexists; reflexivity).
  - apply wt_zext in Hwt. destruct Hwt as (_ & Ht & Hlt). unfold u32sub. destruct (N.leb_spec by_ w); [|lia]. cbn [pbind].
    rewrite Ht. unfold expect_bv_of. rewrite N.eqb_refl. eexists; reflexivity.
  - apply wt_sext in Hwt. destruct Hwt as (_ & Ht & Hlt). unfold u32sub. destruct (N.leb_spec by_ w); [|lia]. cbn [pbind].
    rewrite Ht. unfold expect_bv_of. rewrite N.eqb_refl. eexists; reflexivity.
  - apply wt_concat in Hwt. destruct Hwt as (_ & _ & wa & wb & Hta & Htb & ->). cbn [node_fits] in Hfit. apply N.leb_le in Hfit.
    rewrite Hta, Htb. unfold u32add. destruct (N.leb_spec (wa + wb) U32MAX); [|lia]. cbn [pbind]. rewrite N.eqb_refl. eexists; reflexivity.
Qed.

Lemma check_ok x t : wt x = true -> node_fits x = true -> type_of x = t -> check_expr_type true x t = POk x.
Proof.
  intros Hwt Hfit Ht. unfold check_expr_type. destruct (tcheck_wt x Hwt Hfit) as [t0 ->]. cbn [pbind]. rewrite Ht, ty_eqb_refl. reflexivity.
Qed.

Arguments lower_unary : simpl never.
Arguments lower_binary : simpl never.
Arguments lower_ternary : simpl never.
Arguments check_expr_type : simpl never.
Arguments get_tpe : simpl never.
Arguments get_expr : simpl never.

Ltac f2_inv :=
  repeat match goal with
         | H : Forall2 _ _ [] |- _ => inversion H; subst; clear H
         | H : Forall2 _ _ (_ :: _) |- _ => inversion H; subst; clear H
         | H : Forall _ (_ :: _) |- _ => apply Forall_cons_iff in H; destruct H
         | H : Forall _ [] |- _ => clear H
         end.

Ltac get_exprs ps :=
  repeat match goal with
         | F : PM.find (key ?c) (p_signals ps) = Some ?x, H : ?c <= U32MAX |- context[get_expr ps (num ?c)] =>
             rewrite (get_expr_num ps c x H F); cbn [pbind]
         end.

Lemma node_line_parse ps id sort e cs toks :
  wt e = true -> node_fits e = true -> node_fits (norm_node e) = true ->
  match e with BVSymbol _ _ | ArraySymbol _ _ _ | ArrayConstant _ _ _ => False | _ => True end ->
  node_line id sort e cs = POk toks ->
  id <= U32MAX -> sort <= U32MAX -> Forall (fun c => c <= U32MAX) cs ->
  PM.find (key sort) (p_types ps) = Some (type_of e) ->
  Forall2 (fun c x => PM.find (key c) (p_signals ps) = Some x) cs (children e) ->
  parse_line true ps toks = POk (set_signal ps id (norm_node e)).
Proof.
  intros Hwt Hfit Hfn Hk Hl Hi Hs Hcs Ft Fc.
  pose proof (norm_node_wt e Hwt) as Hwn. pose proof (norm_node_type e Hwt) as Htn.
  destruct e; try contradiction; cbn [children] in Fc; f2_inv.
  all: try (pose proof (reread_node_correct _ Hwt Hfit I) as R; unfold reread_node in R; cbn in R;
            cbn in Hl; inversion Hl; subst toks; clear Hl;
            unfold parse_line; rewrite (line_id_num id Hi); cbn;
            cbn [norm_node type_of] in *; rewrite (get_tpe_num ps sort _ Hs Ft); cbn [pbind]; get_exprs ps;
            rewrite R; cbn [pbind]; rewrite (check_ok _ _ Hwn Hfn Htn); cbn [pbind]; reflexivity).
  - (* literal *)
    apply wt_lit in Hwt. destruct Hwt as [Hw Hv]. cbn [norm_node type_of] in *.
    assert (Hlit : forall x, b_lit w x = POk (BVLiteral w x)).
    { intros x. unfold b_lit. destruct (N.eqb_spec w 0); [lia|reflexivity]. }
    assert (Hbw : forall t, get_bv_width ps (tokn (num id :: t :: num sort :: nil) 2) = POk w).
    { intros t. cbn [tokn nth]. unfold get_bv_width. rewrite (get_tpe_num ps sort _ Hs Ft). reflexivity. }
    cbn [node_line] in Hl.
    destruct (N.eqb_spec v 0) as [->|H0].
    { inversion Hl; subst toks. unfold parse_line; rewrite (line_id_num id Hi); cbn. unfold parse_format.
      rewrite Hbw. cbn. rewrite Hlit. reflexivity. }
    destruct (N.eqb_spec v 1) as [->|H1].
    { inversion Hl; subst toks. unfold parse_line; rewrite (line_id_num id Hi); cbn. unfold parse_format.
      rewrite Hbw. cbn. rewrite Hlit. reflexivity. }
    destruct (N.eqb_spec v (2 ^ w - 1)) as [->|H2].
    { inversion Hl; subst toks. unfold parse_line; rewrite (line_id_num id Hi); cbn. unfold parse_format.
      rewrite Hbw. cbn. rewrite Hlit. reflexivity. }
    inversion Hl; subst toks. unfold parse_line; rewrite (line_id_num id Hi); cbn. unfold parse_format.
    cbn [tokn nth]. unfold get_bv_width. rewrite (get_tpe_num ps sort _ Hs Ft). cbn.
    rewrite (bits_lit w v Hw Hv). reflexivity.
  - (* zext *)
    destruct (wt_zext _ _ _ Hwt) as (Ha & Hta & Hlt). cbn [node_fits] in Hfit. apply andb_true_iff in Hfit. destruct Hfit as [Hf1 Hf2].
    apply N.leb_le in Hf1, Hf2. cbn in Hl; inversion Hl; subst toks; clear Hl.
    unfold parse_line; rewrite (line_id_num id Hi); cbn. cbn [type_of] in Ft. rewrite (get_tpe_num ps sort _ Hs Ft); cbn [pbind]; get_exprs ps.
    unfold lower_unary, require. cbn [List.length Nat.ltb Nat.leb pbind tokn nth].
    rewrite (parse_width_num _ Hf1). cbn [of_opt pbind].
    assert (Hb : b_ext true BVZeroExt e by_ = POk (norm_node (BVZeroExt e by_ w))).
    { unfold b_ext. cbn [norm_node]. destruct (N.eqb_spec by_ 0) as [->|Hne]; [reflexivity|].
      unfold unwrap_bv. rewrite Hta. cbn [pbind]. unfold u32add. replace (w - by_ + by_) with w by lia.
      destruct (N.leb_spec w U32MAX); [reflexivity|lia]. }
    rewrite Hb. cbn [pbind]. rewrite (check_ok _ (TBV w) Hwn Hfn Htn); cbn [pbind]; reflexivity.
  - (* sext *)
    destruct (wt_sext _ _ _ Hwt) as (Ha & Hta & Hlt). cbn [node_fits] in Hfit. apply andb_true_iff in Hfit. destruct Hfit as [Hf1 Hf2].
    apply N.leb_le in Hf1, Hf2. cbn in Hl; inversion Hl; subst toks; clear Hl.
    unfold parse_line; rewrite (line_id_num id Hi); cbn. cbn [type_of] in Ft. rewrite (get_tpe_num ps sort _ Hs Ft); cbn [pbind]; get_exprs ps.
    unfold lower_unary, require. cbn [List.length Nat.ltb Nat.leb pbind tokn nth].
    rewrite (parse_width_num _ Hf1). cbn [of_opt pbind].
    assert (Hb : b_ext true BVSignExt e by_ = POk (norm_node (BVSignExt e by_ w))).
    { unfold b_ext. cbn [norm_node]. destruct (N.eqb_spec by_ 0) as [->|Hne]; [reflexivity|].
      unfold unwrap_bv. rewrite Hta. cbn [pbind]. unfold u32add. replace (w - by_ + by_) with w by lia.
      destruct (N.leb_spec w U32MAX); [reflexivity|lia]. }
    rewrite Hb. cbn [pbind]. rewrite (check_ok _ (TBV w) Hwn Hfn Htn); cbn [pbind]; reflexivity.
  - (* slice *)
    destruct (wt_slice _ _ _ Hwt) as (Ha & we & Hta & Hhi & Hlo). cbn [node_fits] in Hfit. apply andb_true_iff in Hfit. destruct Hfit as [Hf1 Hf2].
    apply N.ltb_lt in Hf1. apply N.leb_le in Hf2. cbn in Hl; inversion Hl; subst toks; clear Hl.
    unfold parse_line; rewrite (line_id_num id Hi); cbn. rewrite (get_tpe_num ps sort _ Hs Ft); cbn [pbind]; get_exprs ps.
    unfold lower_unary, require. cbn [List.length Nat.ltb Nat.leb pbind tokn nth].
    rewrite (parse_width_num hi) by lia. rewrite (parse_width_num lo) by lia. cbn [of_opt pbind].
    assert (Hb : b_slice true e hi lo = POk (norm_node (BVSlice e hi lo))).
    { unfold b_slice. cbn [norm_node]. unfold width. rewrite Hta. destruct (N.ltb_spec hi lo) as [?|?]; [lia|].
      destruct (N.eqb_spec lo 0) as [->|Hne]; cbn [andb pbind]; [|reflexivity].
      unfold u32add. destruct (N.leb_spec (hi + 1) U32MAX); [|lia]. cbn [pbind]. unfold unwrap_bv. rewrite Hta. cbn [pbind].
      destruct (hi + 1 =? we); reflexivity. }
    rewrite Hb. cbn [pbind]. rewrite (check_ok _ _ Hwn Hfn Htn); cbn [pbind]; reflexivity.
  - (* not *)
    destruct (wt_not _ _ Hwt) as (Ha & Hta). cbn in Hl; inversion Hl; subst toks; clear Hl.
    unfold parse_line; rewrite (line_id_num id Hi); cbn. cbn [type_of norm_node] in *. rewrite (get_tpe_num ps sort _ Hs Ft); cbn [pbind]; get_exprs ps.
    unfold lower_unary, b_not, unwrap_bv. rewrite Hta. cbn [pbind]. rewrite (check_ok _ _ Hwn Hfn Htn); cbn [pbind]; reflexivity.
  - (* neg *)
    destruct (wt_neg _ _ Hwt) as (Ha & Hta). cbn in Hl; inversion Hl; subst toks; clear Hl.
    unfold parse_line; rewrite (line_id_num id Hi); cbn. cbn [type_of norm_node] in *. rewrite (get_tpe_num ps sort _ Hs Ft); cbn [pbind]; get_exprs ps.
    unfold lower_unary, b_neg, unwrap_bv. rewrite Hta. cbn [pbind]. rewrite (check_ok _ _ Hwn Hfn Htn); cbn [pbind]; reflexivity.
Qed.

(** ** the checks of the repaired readers hold on the writer's lines *)
Definition all_pre (ps : pstate) (toks : list string) : bool := line_fix_pre ps toks && ext_bv ps toks.

Lemma vp v ps toks : (is_fix v = true -> all_pre ps toks = true) -> variant_pre v ps toks = true.
Proof.
  destruct v; cbn [is_fix variant_pre]; intros H; [reflexivity| |]; specialize (H eq_refl); unfold all_pre in H;
    apply andb_true_iff in H; destruct H as [H1 H2]; [exact H1|rewrite H1, H2; reflexivity].
Qed.

Lemma plv v ps toks ps' :
  (is_fix v = true -> all_pre ps toks = true) -> parse_line true ps toks = POk ps' -> parse_line_v v true ps toks = POk ps'.
Proof. intros H Hl. unfold parse_line_v. rewrite (vp v ps toks H). exact Hl. Qed.

Lemma opnd_num ps c x : c <= U32MAX -> PM.find (key c) (p_signals ps) = Some x -> opnd ps (num c) = Some x.
Proof. intros H F. unfold opnd. rewrite (line_id_num c H). exact F. Qed.

Lemma opnd_neg_num c : c <= U32MAX -> opnd_neg (num c) = false.
Proof. intros H. unfold opnd_neg. rewrite (line_id_num c H). reflexivity. Qed.

Lemma neg_ok_num ps c : c <= U32MAX -> neg_ok ps (num c) = true.
Proof. intros H. unfold neg_ok. rewrite (opnd_neg_num c H). destruct (opnd ps (num c)); reflexivity. Qed.

Lemma opnd_ty_num ps c x : c <= U32MAX -> PM.find (key c) (p_signals ps) = Some x -> opnd_ty ps (num c) = Some (type_of x).
Proof. intros H F. unfold opnd_ty. rewrite (opnd_num ps c x H F). reflexivity. Qed.

Lemma sort_of_num ps c t : c <= U32MAX -> PM.find (key c) (p_types ps) = Some t -> sort_of ps (num c) = Some t.
Proof. intros H F. unfold sort_of. rewrite (line_id_num c H). exact F. Qed.

Lemma sort_bv_pre ps id w : w <= U32MAX -> 0 < w -> all_pre ps [num id; "sort"; "bitvec"; num w] = true.
Proof.
  intros Hw Hp. unfold all_pre, line_fix_pre, line_pre, zero_sort_line, prop_bool, ext_bv. cbn.
  rewrite (parse_width_num w Hw). destruct w; [lia|reflexivity].
Qed.

Lemma sort_arr_pre ps id ix dx iw dw : ix <= U32MAX -> dx <= U32MAX ->
  PM.find (key ix) (p_types ps) = Some (TBV iw) -> PM.find (key dx) (p_types ps) = Some (TBV dw) ->
  all_pre ps [num id; "sort"; "array"; num ix; num dx] = true.
Proof.
  intros Hx Hd Fx Fd. unfold all_pre, line_fix_pre, line_pre, zero_sort_line, prop_bool, ext_bv. cbn.
  rewrite (sort_of_num ps ix _ Hx Fx), (sort_of_num ps dx _ Hd Fd). reflexivity.
Qed.

Lemma decl_pre ps id sort t kind : kind = "input" \/ kind = "state" -> sort <= U32MAX ->
  PM.find (key sort) (p_types ps) = Some t -> ty_pos t -> all_pre ps [num id; kind; num sort] = true.
Proof.
  intros Hk Hs Ft Hp. unfold all_pre, line_fix_pre, line_pre, zero_sort_line, prop_bool, ext_bv.
  destruct Hk as [-> | ->]; cbn; rewrite (sort_of_num ps sort _ Hs Ft); destruct t as [w|? ?]; try reflexivity;
    cbn [ty_pos] in Hp; destruct (N.eqb_spec w 0); try lia; reflexivity.
Qed.

Lemma init_next_pre ps lid sort sid x kind : kind = "init" \/ kind = "next" -> x <= U32MAX ->
  all_pre ps [num lid; kind; num sort; num sid; num x] = true.
Proof.
  intros Hk Hx. unfold all_pre, line_fix_pre, line_pre, zero_sort_line, prop_bool, ext_bv.
  destruct Hk as [-> | ->]; cbn; rewrite (neg_ok_num ps x Hx); reflexivity.
Qed.

Lemma prop_pre ps id body v kind : body <= U32MAX -> PM.find (key body) (p_signals ps) = Some v ->
  kind = "output" \/ ((kind = "bad" \/ kind = "constraint") /\ type_of v = TBV 1) ->
  all_pre ps [num id; kind; num body] = true.
Proof.
  intros Hb Fv Hk. unfold all_pre, line_fix_pre, line_pre, zero_sort_line, prop_bool, ext_bv.
  destruct Hk as [-> | [[-> | ->] Ht]]; cbn; rewrite (neg_ok_num ps body Hb); try reflexivity;
    rewrite (opnd_ty_num ps body v Hb Fv), Ht; reflexivity.
Qed.

Ltac pre_ops ps :=
  repeat match goal with
         | F : PM.find (key ?c) (p_signals ps) = Some ?x, H : ?c <= U32MAX |- context[neg_ok ps (num ?c)] =>
             rewrite (neg_ok_num ps c H)
         end;
  repeat match goal with
         | F : PM.find (key ?c) (p_signals ps) = Some ?x, H : ?c <= U32MAX |- context[opnd_ty ps (num ?c)] =>
             rewrite (opnd_ty_num ps c x H F)
         end.

Ltac pre_start ps Hl :=
  cbn in Hl; inversion Hl; subst; clear Hl;
  unfold all_pre, line_fix_pre, line_pre, zero_sort_line, prop_bool, ext_bv; cbn; pre_ops ps.

Ltac pre_same ps Hl Hwt L :=
  let Ha := fresh "Ha" in let Hb := fresh "Hb" in let Hta := fresh "Hta" in let Htb := fresh "Htb" in
  destruct (L _ _ _ Hwt) as (Ha & Hb & Hta & Htb); pre_start ps Hl; rewrite Hta, Htb; cbn; rewrite ?N.eqb_refl; reflexivity.

Lemma node_line_checks ps id sort e cs toks :
  wt e = true -> node_fits e = true ->
  match e with BVSymbol _ _ | ArraySymbol _ _ _ | ArrayConstant _ _ _ => False | _ => True end ->
  node_line id sort e cs = POk toks ->
  sort <= U32MAX -> Forall (fun c => c <= U32MAX) cs ->
  PM.find (key sort) (p_types ps) = Some (type_of e) ->
  Forall2 (fun c x => PM.find (key c) (p_signals ps) = Some x) cs (children e) ->
  all_pre ps toks = true.
Proof.
  intros Hwt Hfit Hk Hl Hs Hcs Ft Fc.
  destruct e; try contradiction; cbn [children] in Fc; f2_inv.
  - (* literal *)
    apply wt_lit in Hwt. destruct Hwt as [Hw Hv]. cbn [type_of] in Ft. cbn [node_line] in Hl.
    assert (Hnz : (w =? 0) = false) by (destruct (N.eqb_spec w 0); [lia|reflexivity]).
    destruct (v =? 0); [|destruct (v =? 1); [|destruct (v =? 2 ^ w - 1)]]; inversion Hl; subst; clear Hl;
      unfold all_pre, line_fix_pre, line_pre, zero_sort_line, prop_bool, ext_bv; cbn;
      rewrite (sort_of_num ps sort _ Hs Ft); cbn; unfold lit_safe; rewrite ?Hnz; cbn [negb andb N.eqb Pos.eqb]; rewrite ?orb_true_r; reflexivity.
  - (* zext *)
    destruct (wt_zext _ _ _ Hwt) as (Ha & Hta & Hlt). cbn [node_fits] in Hfit. apply andb_true_iff in Hfit. destruct Hfit as [Hf1 Hf2].
    apply N.leb_le in Hf1, Hf2. pre_start ps Hl. rewrite Hta. cbn. rewrite (parse_width_num _ Hf1).
    replace (w - by_ + by_) with w by lia. destruct (N.leb_spec w U32MAX); [reflexivity|lia].
  - (* sext *)
    destruct (wt_sext _ _ _ Hwt) as (Ha & Hta & Hlt). cbn [node_fits] in Hfit. apply andb_true_iff in Hfit. destruct Hfit as [Hf1 Hf2].
    apply N.leb_le in Hf1, Hf2. pre_start ps Hl. rewrite Hta. cbn. rewrite (parse_width_num _ Hf1).
    replace (w - by_ + by_) with w by lia. destruct (N.leb_spec w U32MAX); [reflexivity|lia].
  - (* slice *)
    destruct (wt_slice _ _ _ Hwt) as (Ha & we & Hta & Hhi & Hlo). cbn [node_fits] in Hfit. apply andb_true_iff in Hfit. destruct Hfit as [Hf1 Hf2].
    apply N.ltb_lt in Hf1. apply N.leb_le in Hf2. pre_start ps Hl. rewrite Hta. cbn.
    rewrite (parse_width_num hi) by lia. rewrite (parse_width_num lo) by lia.
    destruct (N.leb_spec lo hi); [|lia]. destruct (N.ltb_spec hi U32MAX); [reflexivity|lia].
  - (* not *) destruct (wt_not _ _ Hwt) as (Ha & Hta). pre_start ps Hl. rewrite Hta. reflexivity.
  - (* neg *) destruct (wt_neg _ _ Hwt) as (Ha & Hta). pre_start ps Hl. rewrite Hta. reflexivity.
  - (* eq *) destruct (wt_eq _ _ Hwt) as (Ha & Hb & w' & Hta & Htb). pre_start ps Hl. rewrite Hta, Htb. cbn. rewrite N.eqb_refl. reflexivity.
  - (* implies *) destruct (wt_implies _ _ Hwt) as (Ha & Hb & Hta & Htb). pre_start ps Hl. rewrite Hta, Htb. reflexivity.
  - (* ugt *) destruct (wt_ugt _ _ Hwt) as (Ha & Hb & w' & Hta & Htb). pre_start ps Hl. rewrite Hta, Htb. cbn. rewrite N.eqb_refl. reflexivity.
  - pre_same ps Hl Hwt wt_sgt.
  - (* uge *) destruct (wt_uge _ _ Hwt) as (Ha & Hb & w' & Hta & Htb). pre_start ps Hl. rewrite Hta, Htb. cbn. rewrite N.eqb_refl. reflexivity.
  - pre_same ps Hl Hwt wt_sge.
  - (* concat *)
    destruct (wt_concat _ _ _ Hwt) as (Ha & Hb & wa & wb & Hta & Htb & ->). cbn [node_fits] in Hfit. apply N.leb_le in Hfit.
    pre_start ps Hl. rewrite Hta, Htb. cbn. destruct (N.leb_spec (wa + wb) U32MAX); [reflexivity|lia].
  - pre_same ps Hl Hwt wt_and.
  - pre_same ps Hl Hwt wt_or.
  - pre_same ps Hl Hwt wt_xor.
  - pre_same ps Hl Hwt wt_shl.
  - pre_same ps Hl Hwt wt_ashr.
  - pre_same ps Hl Hwt wt_lshr.
  - pre_same ps Hl Hwt wt_add.
  - pre_same ps Hl Hwt wt_mul.
  - pre_same ps Hl Hwt wt_sdiv.
  - pre_same ps Hl Hwt wt_udiv.
  - pre_same ps Hl Hwt wt_smod.
  - pre_same ps Hl Hwt wt_srem.
  - pre_same ps Hl Hwt wt_urem.
  - pre_same ps Hl Hwt wt_sub.
  - (* read *) destruct (wt_read _ _ _ Hwt) as (Ha & Hb & iw & Hta & Htb). pre_start ps Hl. rewrite Hta. reflexivity.
  - (* ite *)
    destruct (wt_ite _ _ _ Hwt) as (Ha & Hb & Hc & Hta & w' & Htb & Htc). pre_start ps Hl. rewrite Hta, Htb, Htc. cbn. rewrite N.eqb_refl. reflexivity.
  - (* array eq *)
    destruct (wt_aeq _ _ Hwt) as (Ha & Hb & iw & dw & Hta & Htb). pre_start ps Hl. rewrite Hta, Htb. cbn. rewrite !N.eqb_refl. reflexivity.
  - (* store *) pre_start ps Hl. reflexivity.
  - (* array ite *)
    destruct (wt_aite _ _ _ Hwt) as (Ha & Hb & Hc & Hta & iw & dw & Htb & Htc). pre_start ps Hl. rewrite Hta, Htb, Htc. cbn. rewrite !N.eqb_refl. reflexivity.
Qed.
