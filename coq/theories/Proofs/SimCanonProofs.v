(** * Proofs/SimCanonProofs.v — every value read from the simulator is the
    canonical representative of its width ([v < 2^w]), provided the generated
    initial values and the values set are. *)
From Coq Require Import Lia.
From Patronus Require Import Sim SimBasics SimStoreProofs SimProofs BVLemmas EvalProofs.
Open Scope N_scope.

(** the initial-value generator produces values of the symbol's width *)
Definition kind_ok (sy : sys) (k : init_kind) : Prop :=
  forall pos s, nth_error (decls sy) pos = Some s ->
    match type_of s with
    | TBV w => gen_bv k pos < 2 ^ w
    | TArr _ dw => forall i, gen_arr k pos i < 2 ^ dw
    end.

Definition op_canon (sy : sys) (o : op) : Prop :=
  match o with
  | OInit k => kind_ok sy k
  | OSet _ w v => v < 2 ^ w
  | _ => True
  end.

Definition sobs_canon (c : sobs) : Prop :=
  match c with
  | SVal (VBV w v) => v < 2 ^ w
  | SVal (VArr _ dw f) => forall i, f i < 2 ^ dw
  | _ => True
  end.

Definition obs_canon (b : obs) : Prop :=
  match b with
  | OVal (SBV w v) => v < 2 ^ w
  | OVal (SArr _ dw f) => forall i, f i < 2 ^ dw
  | _ => True
  end.

Lemma index_of_nth q : forall l pos p, index_of q l pos = Some p ->
  exists j, p = (pos + j)%nat /\ nth_error l j = Some q.
Proof.
  induction l as [|x r IH]; intros pos p H; cbn [index_of] in H; [discriminate|].
  destruct (expr_eqb_spec x q) as [->|Hne].
  - inversion H; subst. exists 0%nat. split; [lia|reflexivity].
  - destruct (IH _ _ H) as (j & -> & Hj). exists (S j). split; [lia|exact Hj].
Qed.

Lemma zero_env_wf : env_wf zero_env.
Proof. split; intros; cbn [zero_env rho_bv rho_arr]; apply pow2_pos. Qed.

Lemma oracle_env_wf sy k : kind_ok sy k -> env_wf (oracle_env sy k).
Proof.
  intros Hk. split; cbn [oracle_env rho_bv rho_arr]; intros.
  - destruct (index_of (BVSymbol n w) (decls sy) 0) as [p|] eqn:E; [|apply pow2_pos].
    destruct (index_of_nth _ _ _ _ E) as (j & -> & Hj). exact (Hk _ _ Hj).
  - destruct (index_of (ArraySymbol n iw dw) (decls sy) 0) as [p|] eqn:E; [|apply pow2_pos].
    destruct (index_of_nth _ _ _ _ E) as (j & -> & Hj). exact (Hk _ _ Hj i).
Qed.

Lemma upd_bv_wf rho n w v : env_wf rho -> v < 2 ^ w -> env_wf (upd_bv rho n w v).
Proof.
  intros [A B] Hv. split; cbn [upd_bv rho_bv rho_arr]; intros; [|apply B].
  destruct (String.eqb n0 n && (w0 =? w)) eqn:E; [|apply A].
  apply andb_true_iff in E. destruct E as [_ E]. apply N.eqb_eq in E. now subst.
Qed.

Lemma assign_wf rho s src e : env_wf rho -> env_wf src -> wt e = true -> type_of e = type_of s ->
  env_wf (assign rho s src e).
Proof.
  intros Hr Hs Hwt Hty. destruct s; cbn [assign]; try assumption; cbn [type_of] in Hty.
  - apply upd_bv_wf; [assumption|]. now apply ebv_bound.
  - destruct Hr as [A B]. split; cbn [upd_arr rho_bv rho_arr]; intros; [apply A|].
    destruct (String.eqb n name && (iw0 =? iw) && (dw0 =? dw)) eqn:E; [|apply B].
    apply andb_true_iff in E. destruct E as [_ E]. apply N.eqb_eq in E. subst.
    now apply (earr_bound src Hs e iw dw).
Qed.

Lemma init_fold_wf d : forall sts rho, (forall s, In s sts -> state_good d s) -> env_wf rho ->
  env_wf (fold_left init_fun sts rho).
Proof.
  induction sts as [|s r IH]; intros rho Hg Hr; cbn [fold_left]; [assumption|].
  apply IH; [intros; apply Hg; now right|]. unfold init_fun.
  destruct (st_init s) as [e|] eqn:Hi; [|assumption].
  destruct (sg_init d s (Hg s (or_introl eq_refl)) e Hi) as (Hwt & Hty & _). now apply assign_wf.
Qed.

Lemma next_fold_wf d src : env_wf src -> forall sts rho, (forall s, In s sts -> state_good d s) -> env_wf rho ->
  env_wf (fold_left (next_fun src) sts rho).
Proof.
  intros Hs. induction sts as [|s r IH]; intros rho Hg Hr; cbn [fold_left]; [assumption|].
  apply IH; [intros; apply Hg; now right|]. unfold next_fun.
  destruct (st_next s) as [e|] eqn:Hn; [|assumption].
  destruct (sg_next d s (Hg s (or_introl eq_refl)) e Hn) as (Hwt & Hty & _). now apply assign_wf.
Qed.

Definition sstate_wf (ss : sstate) : Prop := env_wf (cur ss) /\ Forall env_wf (saved ss).

Lemma spec_exec_wf sy ss o n : sim_ok sy = true -> sstate_wf ss -> op_ok sy n o = true -> op_canon sy o ->
  sstate_wf (fst (spec_exec sy ss o)) /\ sobs_canon (snd (spec_exec sy ss o)).
Proof.
  intros Hok [Hc Hs] Hop Hcan. destruct (sim_ok_parts sy Hok) as (_ & _ & Hgood).
  destruct o as [k|sym w v| |e| | |i]; cbn [spec_exec fst snd sobs_canon op_canon] in *.
  - split; [|exact I]. split; cbn [cur saved]; [|assumption].
    unfold init_seq. apply (init_fold_wf (decls sy)); [assumption|now apply oracle_env_wf].
  - split; [|exact I]. split; cbn [cur saved]; [|assumption].
    cbn [op_ok] in Hop. destruct sym; try discriminate Hop.
    apply andb_true_iff in Hop. destruct Hop as [Hw _]. apply N.eqb_eq in Hw. subst. now apply upd_bv_wf.
  - split; [|exact I]. split; cbn [cur saved]; [|assumption].
    unfold next_env. now apply (next_fold_wf (decls sy)).
  - split; [now split|]. cbn [op_ok] in Hop. apply andb_true_iff in Hop. destruct Hop as [Hwt _].
    unfold eval. destruct (type_of e) eqn:T; cbn [sobs_canon].
    + now apply ebv_bound.
    + intros i. now apply (earr_bound (cur ss) Hc e iw dw).
  - split; [now split|exact I].
  - split; [|exact I]. split; cbn [cur saved]; [assumption|].
    apply Forall_app. split; [assumption|]. now constructor.
  - split; [|exact I]. split; cbn [cur saved]; [|assumption].
    destruct (nth_in_or_default (N.to_nat i) (saved ss) (cur ss)) as [Hin|Heq]; [|rewrite Heq; assumption].
    rewrite Forall_forall in Hs. now apply Hs.
Qed.

Lemma spec_run_wf sy : sim_ok sy = true -> forall h ss n, sstate_wf ss -> ops_ok sy n h = true ->
  Forall (op_canon sy) h -> Forall sobs_canon (snd (spec_run sy ss h)).
Proof.
  intros Hok. induction h as [|o r IH]; intros ss n Hwf Hops Hcan; cbn [spec_run]; [constructor|].
  cbn [ops_ok] in Hops. apply andb_true_iff in Hops. destruct Hops as [Ho Hr].
  inversion Hcan as [|? ? Hco Hcr]; subst.
  destruct (spec_exec_wf sy ss o n Hok Hwf Ho Hco) as [Hwf' Hb].
  destruct (spec_exec sy ss o) as [ss1 c]. cbn [fst snd] in *.
  specialize (IH ss1 _ Hwf' Hr Hcr). destruct (spec_run sy ss1 r) as [ss2 cs]. cbn [snd] in *.
  now constructor.
Qed.

Lemma obs_match_canon b c : obs_match b c -> sobs_canon c -> obs_canon b.
Proof.
  destruct b as [|[w v|iw dw f]|n], c as [|[w' v'|iw' dw' g]|m]; cbn [obs_match sobs_canon obs_canon]; try tauto.
  - intros [-> ->]. tauto.
  - intros (-> & -> & Hf) Hg i. rewrite Hf. apply Hg.
Qed.

Lemma Forall2_canon outs cs : Forall2 obs_match outs cs -> Forall sobs_canon cs -> Forall obs_canon outs.
Proof.
  induction 1 as [|b c bs cs' Hbc _ IH]; intros Hs; [constructor|].
  inversion Hs; subst. constructor; [now apply (obs_match_canon b c)|now apply IH].
Qed.

Theorem values_canonical_lemma sy h :
  sim_ok sy = true -> hist_ok sy h = true -> Forall (op_canon sy) h ->
  exists s outs, run sy sim0 h = Done (s, outs) /\ Forall obs_canon outs.
Proof.
  intros Hok Hh Hcan.
  destruct (sim_refines_semantics_lemma sy h Hok Hh) as (s & outs & Hrun & Hm & _).
  exists s, outs. split; [assumption|].
  assert (Hs : Forall sobs_canon (snd (spec_run sy sstate0 h))).
  { destruct h as [|[k| | | | | |] r]; try discriminate Hh. cbn [hist_ok] in Hh.
    apply (spec_run_wf sy Hok (OInit k :: r) sstate0 0%nat).
    - split; [apply zero_env_wf|constructor].
    - cbn [ops_ok op_ok andb]. exact Hh.
    - exact Hcan. }
  exact (Forall2_canon _ _ Hm Hs).
Qed.
