(** * Proofs/ReachBmcProofs.v — [bmc_spec] is exact: it returns the least depth
    [<= k] at which a constrained execution from an initial valuation is in a bad
    state, and [None] if there is none. *)
From Coq Require Import List Bool Lia.
From Patronus Require Import EvalImpl Encoding SysExec ReachSpec ExprLemmas BVLemmas EvalProofs McBasics ScriptProofs
     EncodingBasics EncodingFaithful EncodingNew ReachBasics ReachEnum.
Import ListNotations.
Open Scope N_scope.

Lemma forallb_N_true n p : forallb_N n p = true <-> forall i, i < n -> p i = true.
Proof.
  unfold forallb_N. induction n as [|n IH] using N.peano_ind.
  - rewrite N.recursion_0. split; [intros _ i Hi; lia|reflexivity].
  - rewrite N.recursion_succ; try reflexivity; try (intros ? ? -> ? ? ->; reflexivity).
    rewrite andb_true_iff, IH. split.
    + intros [Hn Hall] i Hi. destruct (N.eq_dec i n) as [->|Hne]; [assumption|apply Hall; lia].
    + intros H. split; [apply H; lia|intros i Hi; apply H; lia].
Qed.

Lemma arr_eqb_true iw f g : arr_eqb iw f g = true <-> forall i, i < 2 ^ iw -> f i = g i.
Proof.
  unfold arr_eqb. rewrite forallb_N_true. split; intros H i Hi; specialize (H i Hi); now apply N.eqb_eq.
Qed.

Lemma combine_map {A B} (f : A -> B) l : combine l (map f l) = map (fun x => (x, f x)) l.
Proof. induction l as [|x r IH]; [reflexivity|]. cbn. now rewrite IH. Qed.

Lemma run_from_snoc sy : forall frees rho F,
  run_from sy rho (frees ++ [F]) = run_from sy rho frees ++ [next_env sy (last (run_from sy rho frees) env0) F].
Proof.
  induction frees as [|f r IH]; intros rho F; [reflexivity|].
  cbn [app run_from]. rewrite IH. cbn [app]. f_equal. f_equal. f_equal.
  destruct (run_from sy (next_env sy rho f) r) eqn:E; [|reflexivity].
  destruct r; discriminate.
Qed.

Lemma run_from_nonempty sy rho frees : run_from sy rho frees <> [].
Proof. destruct frees; discriminate. Qed.

Section Reach.
  Variable sy : sys.
  Hypothesis Hwf : sys_wf sy = true.
  Hypothesis Hni : nodup_exprs (s_inputs sy) = true.

  Let en := enc_new sy (fun _ => EmptyString).
  Let Hb : enc_basic en := enc_new_basic sy _ Hwf.

  (** ** what [sys_wf] gives *)
  Lemma all_exprs_ok e : In e (all_exprs sy) -> wt e = true /\ forall y, In y (symbols_of e) -> In y (sys_symbols sy).
  Proof.
    intros He. split.
    - pose proof (Hok sy Hwf) as H. unfold sys_ok in H. rewrite !andb_true_iff, !forallb_forall in H.
      destruct H as [[[[Hi Hs] Ho] Hbd] Hc]. unfold all_exprs in He. rewrite !in_app_iff in He.
      destruct He as [He|[He|[He|[He|He]]]].
      + apply Hi in He. apply andb_true_iff in He. tauto.
      + apply in_map_iff in He. destruct He as (o & <- & Hin). now apply Ho.
      + apply Hbd in He. unfold bool_expr_ok in He. apply andb_true_iff in He. tauto.
      + apply Hc in He. unfold bool_expr_ok in He. apply andb_true_iff in He. tauto.
      + apply in_flat_map in He. destruct He as (st & Hst & He). apply Hs in Hst. unfold state_ok in Hst.
        rewrite !andb_true_iff in Hst. destruct Hst as [[[_ Hw] Hin'] Hnx].
        destruct He as [<-|He]; [assumption|]. apply in_app_or in He. destruct He as [He|He].
        * destruct (st_init st); [|destruct He]. destruct He as [<-|[]]. apply andb_true_iff in Hin'. tauto.
        * destruct (st_next st); [|destruct He]. destruct He as [<-|[]]. apply andb_true_iff in Hnx. tauto.
    - intros y Hy. pose proof (Hclosed sy Hwf) as Hc. unfold sys_closed in Hc. rewrite forallb_forall in Hc.
      specialize (Hc e He). rewrite forallb_forall in Hc. specialize (Hc y Hy).
      apply existsb_exists in Hc. destruct Hc as (z & Hz & Hyz). apply expr_eqb_true in Hyz. now subst.
  Qed.

  Lemma constraint_in_all e : In e (s_constraints sy) -> In e (all_exprs sy).
  Proof. intros H. unfold all_exprs. rewrite !in_app_iff. tauto. Qed.
  Lemma bad_in_all e : In e (s_bads sy) -> In e (all_exprs sy).
  Proof. intros H. unfold all_exprs. rewrite !in_app_iff. tauto. Qed.
  Lemma init_in_all st e : In st (s_states sy) -> st_init st = Some e -> In e (all_exprs sy).
  Proof.
    intros Hst He. unfold all_exprs. rewrite !in_app_iff. right; right; right; right.
    apply in_flat_map. exists st. split; [assumption|]. right. apply in_or_app. left. rewrite He. now left.
  Qed.
  Lemma next_in_all st e : In st (s_states sy) -> st_next st = Some e -> In e (all_exprs sy).
  Proof.
    intros Hst He. unfold all_exprs. rewrite !in_app_iff. right; right; right; right.
    apply in_flat_map. exists st. split; [assumption|]. right. apply in_or_app. right. rewrite He. now left.
  Qed.

  Lemma bool_ok e : In e (s_constraints sy) \/ In e (s_bads sy) -> type_of e = TBV 1.
  Proof.
    intros He. pose proof (Hok sy Hwf) as H. unfold sys_ok in H. rewrite !andb_true_iff, !forallb_forall in H.
    destruct H as [[[[_ _] _] Hbd] Hc].
    assert (Hx : bool_expr_ok e = true) by (destruct He; auto).
    unfold bool_expr_ok in Hx. apply andb_true_iff in Hx. destruct Hx as [_ Hx]. now apply ty_eqb_eq in Hx.
  Qed.

  Lemma state_facts st : In st (s_states sy) ->
    is_symbol (st_sym st) = true /\ wt (st_sym st) = true /\
    (forall e, st_init st = Some e -> wt e = true /\ type_of e = type_of (st_sym st)) /\
    (forall e, st_next st = Some e -> wt e = true /\ type_of e = type_of (st_sym st)).
  Proof.
    intros Hst. pose proof (eb_states_ok en Hb st Hst) as H. unfold state_ok in H. rewrite !andb_true_iff in H.
    destruct H as [[[Hs Hw] Hi] Hn]. repeat split; try assumption.
    - rewrite H in Hi. apply andb_true_iff in Hi. tauto.
    - rewrite H in Hi. apply andb_true_iff in Hi. destruct Hi as [_ Hi]. now apply ty_eqb_eq in Hi.
    - rewrite H in Hn. apply andb_true_iff in Hn. tauto.
    - rewrite H in Hn. apply andb_true_iff in Hn. destruct Hn as [_ Hn]. now apply ty_eqb_eq in Hn.
  Qed.

  Lemma input_facts i : In i (s_inputs sy) -> is_symbol i = true /\ ~ In i (state_syms sy).
  Proof.
    intros Hi. split; [now apply (input_symbol sy Hwf)|].
    intros H. pose proof (Hinputs_not_states sy Hwf i Hi) as Hn.
    assert (is_state_sym sy i = true) by (now apply is_state_sym_spec). congruence.
  Qed.

  Lemma sys_symbols_nodup : NoDup (sys_symbols sy).
  Proof.
    unfold sys_symbols. pose proof (nodup_exprs_NoDup _ Hni) as H1. pose proof (Hstates_nodup sy Hwf) as H2.
    clear Hni. induction (s_inputs sy) as [|i r IH]; [assumption|].
    cbn [app]. inversion H1 as [|? ? Hna Hr]; subst. constructor.
    - intros H. apply in_app_or in H. destruct H as [H|H]; [contradiction|].
      assert (In i (i :: r)) by now left. Abort.

  Lemma sys_symbols_nodup : NoDup (sys_symbols sy).
  Proof.
    unfold sys_symbols. pose proof (nodup_exprs_NoDup _ Hni) as H1. pose proof (Hstates_nodup sy Hwf) as H2.
    assert (Hd : forall i, In i (s_inputs sy) -> ~ In i (map st_sym (s_states sy))) by (intros i Hi; now apply input_facts).
    revert H1 Hd. generalize (s_inputs sy) as l. induction l as [|i r IH]; intros H1 Hd; [assumption|].
    cbn [app]. inversion H1 as [|? ? Hna Hr]; subst. constructor.
    - intros H. apply in_app_or in H. destruct H as [H|H]; [contradiction|]. apply (Hd i); [now left|assumption].
    - apply IH; [assumption|]. intros j Hj. apply Hd. now right.
  Qed.

  Lemma sys_symbols_symbol s : In s (sys_symbols sy) -> is_symbol s = true.
  Proof.
    unfold sys_symbols. intros H. apply in_app_or in H. destruct H as [H|H]; [now apply input_facts|].
    apply in_map_iff in H. destruct H as (st & <- & Hst). now apply state_facts.
  Qed.

  (** ** equivalence of valuations on the symbols of the system *)
  Definition eqv (a b : env) : Prop := forall s, In s (sys_symbols sy) -> agree_r s a b.

  Lemma eqv_refl a : eqv a a.
  Proof. intros s _. destruct s; cbn [agree_r]; auto. Qed.

  Lemma agree_r_sym s a b : agree_r s a b -> agree_r s b a.
  Proof. destruct s; cbn [agree_r]; auto. intros H i Hi. symmetry. now apply H. Qed.

  Lemma agree_r_trans s a b c : agree_r s a b -> agree_r s b c -> agree_r s a c.
  Proof. destruct s; cbn [agree_r]; auto; try congruence. intros H1 H2 i Hi. now rewrite H1, H2. Qed.

  Lemma eqv_sym a b : eqv a b -> eqv b a.
  Proof. intros H s Hs. apply agree_r_sym. now apply H. Qed.

  Lemma eqv_trans a b c : eqv a b -> eqv b c -> eqv a c.
  Proof. intros H1 H2 s Hs. eapply agree_r_trans; [now apply H1|now apply H2]. Qed.

  Lemma agree_on_r s a b : agree_on s a b -> agree_r s a b.
  Proof. destruct s; cbn [agree_on agree_r]; auto. Qed.

  Lemma eval_eqv a b e : In e (all_exprs sy) -> env_wf a -> env_wf b -> eqv a b -> coin a b e.
  Proof.
    intros He Ha Hbb Heq. destruct (all_exprs_ok e He) as [Hwt Hsyms].
    apply coincidence_r; try assumption. intros s Hs. apply Heq. now apply Hsyms.
  Qed.

  Lemma holds_eqv a b e : In e (s_constraints sy) \/ In e (s_bads sy) -> env_wf a -> env_wf b -> eqv a b ->
    holds a e = holds b e.
  Proof.
    intros He Ha Hbb Heq. unfold holds.
    assert (Hin : In e (all_exprs sy)) by (destruct He; [now apply constraint_in_all|now apply bad_in_all]).
    now rewrite (proj1 (eval_eqv a b e Hin Ha Hbb Heq) 1 (bool_ok e He)).
  Qed.

  Lemma constraints_eqv a b : env_wf a -> env_wf b -> eqv a b -> constraints_hold sy a = constraints_hold sy b.
  Proof.
    intros Ha Hbb Heq. unfold constraints_hold.
    assert (H : forall l, (forall e, In e l -> In e (s_constraints sy)) -> forallb (holds a) l = forallb (holds b) l).
    { induction l as [|e r IH]; intros Hl; [reflexivity|]. cbn [forallb].
      rewrite (holds_eqv a b e) by (auto; left; apply Hl; now left). rewrite IH; [reflexivity|]. intros; apply Hl; now right. }
    now apply H.
  Qed.

  Lemma some_bad_eqv a b : env_wf a -> env_wf b -> eqv a b -> some_bad sy a = some_bad sy b.
  Proof.
    intros Ha Hbb Heq. unfold some_bad.
    assert (H : forall l, (forall e, In e l -> In e (s_bads sy)) -> existsb (holds a) l = existsb (holds b) l).
    { induction l as [|e r IH]; intros Hl; [reflexivity|]. cbn [existsb].
      rewrite (holds_eqv a b e) by (auto; right; apply Hl; now left). rewrite IH; [reflexivity|]. intros; apply Hl; now right. }
    now apply H.
  Qed.

  (** ** initial valuations *)
  Lemma sym_agrees_b_r rho s src e : sym_agrees_b rho s src e = true <-> sym_agrees_r rho s src e.
  Proof.
    destruct s; cbn [sym_agrees_b sym_agrees_r]; try tauto.
    - apply N.eqb_eq.
    - apply arr_eqb_true.
  Qed.

  Lemma is_initial_b_r rho : is_initial_b sy rho = true <-> is_initial_r sy rho.
  Proof.
    unfold is_initial_b, is_initial_r. rewrite forallb_forall. split.
    - intros H st e Hst He. specialize (H st Hst). rewrite He in H. now apply sym_agrees_b_r.
    - intros H st Hst. destruct (st_init st) as [e|] eqn:He; [|reflexivity]. apply sym_agrees_b_r. now apply H.
  Qed.

  Lemma is_initial_eqv a b : env_wf a -> env_wf b -> eqv a b -> is_initial_r sy a -> is_initial_r sy b.
  Proof.
    intros Ha Hbb Heq Hi st e Hst He. specialize (Hi st e Hst He).
    destruct (state_facts st Hst) as (Hsym & _ & Hinit & _). destruct (Hinit e He) as [Hwt Hty].
    pose proof (eval_eqv a b e (init_in_all st e Hst He) Ha Hbb Heq) as [Hbv Har].
    assert (Hs : In (st_sym st) (sys_symbols sy)) by (unfold sys_symbols; apply in_or_app; right; now apply in_map).
    pose proof (Heq _ Hs) as Hag.
    destruct (st_sym st) eqn:Es; try discriminate Hsym; cbn [sym_agrees_r agree_r type_of] in *.
    - rewrite <- Hag, <- (Hbv _ Hty). exact Hi.
    - intros i Hi'. rewrite <- (Hag i Hi'), <- (Har _ _ Hty i Hi'). now apply Hi.
  Qed.

  (** ** steps *)
  Lemma next_env_state' rho f st e : In st (s_states sy) -> st_next st = Some e ->
    same_val (next_env sy rho f) (st_sym st) rho e.
  Proof. intros Hst He. exact (next_env_state en Hb rho f st e Hst He). Qed.

  Lemma next_env_other rho f x : is_symbol x = true ->
    (forall st, In st (s_states sy) -> st_next st <> None -> st_sym st <> x) ->
    agree_on x (next_env sy rho f) f.
  Proof.
    intros Hx. unfold next_env.
    assert (Hsym : forall st, In st (s_states sy) -> is_symbol (st_sym st) = true) by (intros; now apply state_facts).
    revert f Hsym. generalize (s_states sy) as l. induction l as [|st r IH]; intros f Hsym Hn; [apply agree_on_refl|].
    cbn [fold_left]. eapply agree_on_trans.
    - apply IH; [intros; apply Hsym; now right|]. intros st' Hst'. apply Hn. now right.
    - destruct (st_next st) as [e|] eqn:En; [|apply agree_on_refl].
      apply assign_other; [apply Hsym; now left|]. intros ->. apply (Hn st); [now left|congruence|reflexivity].
  Qed.

  Lemma assign_wf acc s src e :
    env_wf acc -> env_wf src -> is_symbol s = true -> wt e = true -> type_of e = type_of s -> env_wf (assign acc s src e).
  Proof.
    intros [Hbv Harr] Hsrc Hs Hwt Hty. destruct s; try discriminate; cbn [assign type_of] in *.
    - split; [|exact Harr]. intros n' w'. cbn [upd_bv rho_bv].
      destruct (String.eqb n' name && (w' =? w))%bool eqn:E; [|apply Hbv].
      apply andb_true_iff in E. destruct E as [_ E]. apply N.eqb_eq in E. subst. now apply ebv_bound.
    - split; [exact Hbv|]. intros n' iw' dw' i. cbn [upd_arr rho_arr].
      destruct (String.eqb n' name && (iw' =? iw) && (dw' =? dw))%bool eqn:E; [|apply Harr].
      repeat (apply andb_true_iff in E; destruct E as [E ?]). apply N.eqb_eq in H. subst.
      now apply (earr_bound src Hsrc e iw).
  Qed.

  Lemma next_env_wf rho f : env_wf rho -> env_wf f -> env_wf (next_env sy rho f).
  Proof.
    intros Hr Hf. unfold next_env.
    assert (Hst : forall st, In st (s_states sy) -> In st (s_states sy)) by auto.
    revert f Hf Hst. generalize (s_states sy) at 1 3 as l. induction l as [|st r IH]; intros f Hf Hst; [assumption|].
    cbn [fold_left]. apply IH; [|intros; apply Hst; now right].
    destruct (st_next st) as [e|] eqn:En; [|assumption].
    destruct (state_facts st (Hst st (or_introl eq_refl))) as (Hs & _ & _ & Hnx). destruct (Hnx e En).
    now apply assign_wf.
  Qed.

  (** the next valuation depends only on the system symbols *)
  Lemma next_env_eqv a b f g : env_wf a -> env_wf b -> eqv a b ->
    (forall s, In s (sys_symbols sy) -> agree_r s f g) ->
    eqv (next_env sy a f) (next_env sy b g).
  Proof.
    intros Ha Hbb Heq Hfg s Hs. pose proof (sys_symbols_symbol s Hs) as Hsym.
    destruct (existsb (fun st => expr_eqb (st_sym st) s && match st_next st with Some _ => true | None => false end) (s_states sy)) eqn:Ex.
    - apply existsb_exists in Ex. destruct Ex as (st & Hst & Hx). apply andb_true_iff in Hx. destruct Hx as [He Hn].
      apply expr_eqb_true in He. subst s. destruct (st_next st) as [e|] eqn:En; [|discriminate].
      destruct (state_facts st Hst) as (_ & _ & _ & Hnx). destruct (Hnx e En) as [Hwt Hty].
      pose proof (next_env_state' a f st e Hst En) as [H1 H1'].
      pose proof (next_env_state' b g st e Hst En) as [H2 H2'].
      pose proof (eval_eqv a b e (next_in_all st e Hst En) Ha Hbb Heq) as [Hbv Har].
      destruct (st_sym st) eqn:Es; try discriminate Hsym; cbn [agree_r type_of ebv earr] in *.
      + rewrite H1, H2. now apply (Hbv _ Hty).
      + intros i Hi. rewrite H1', H2'. now apply (Har _ _ Hty).
    - assert (Hno : forall st, In st (s_states sy) -> st_next st <> None -> st_sym st <> s).
      { intros st Hst Hn He. assert (existsb (fun st => expr_eqb (st_sym st) s && match st_next st with Some _ => true | None => false end) (s_states sy) = true); [|congruence].
        apply existsb_exists. exists st. split; [assumption|]. rewrite He, expr_eqb_refl. destruct (st_next st); [reflexivity|congruence]. }
      eapply agree_r_trans; [apply agree_on_r; now apply next_env_other|].
      eapply agree_r_trans; [now apply Hfg|]. apply agree_r_sym. apply agree_on_r. now apply next_env_other.
  Qed.

  (** ** reachability by induction *)
  Inductive Rd : nat -> env -> Prop :=
  | Rd0 rho : is_initial_r sy rho -> env_wf rho -> Rd 0 rho
  | RdS d rho F : Rd d rho -> constraints_hold sy rho = true -> env_wf (next_env sy rho F) ->
                  Rd (S d) (next_env sy rho F).

  Lemma Rd_wf d rho : Rd d rho -> env_wf rho.
  Proof. induction 1; assumption. Qed.

  Definition hits (d : nat) : Prop := exists rho, Rd d rho /\ constraints_hold sy rho = true /\ some_bad sy rho = true.

  Lemma Rd_run d rho : Rd d rho <->
    exists rho0 frees, length frees = d /\ is_initial_r sy rho0 /\
      (forall r0, In r0 (run_from sy rho0 frees) -> env_wf r0) /\
      forallb (constraints_hold sy) (removelast (run_from sy rho0 frees)) = true /\
      rho = last (run_from sy rho0 frees) env0.
  Proof.
    split.
    - induction 1 as [rho Hi Hw|d rho F HR IH Hc HF].
      + exists rho, []. cbn [length run_from removelast last forallb]. split; [reflexivity|]. split; [assumption|].
        split; [intros x [<-|[]]; assumption|]. split; reflexivity.
      + destruct IH as (rho0 & frees & Hlen & Hi & Hwf' & Hcs & Hlast).
        exists rho0, (frees ++ [F]). rewrite run_from_snoc, <- Hlast.
        split; [rewrite app_length; cbn; lia|]. split; [assumption|]. split; [|split].
        * intros x Hx. apply in_app_or in Hx. destruct Hx as [Hx|[<-|[]]]; [now apply Hwf'|assumption].
        * rewrite removelast_last.
          rewrite (app_removelast_last env0 (run_from_nonempty sy rho0 frees)), forallb_app, Hcs, <- Hlast.
          cbn. now rewrite Hc.
        * now rewrite last_last.
    - intros (rho0 & frees & Hlen & Hi & Hwf' & Hcs & ->). revert d Hlen Hwf' Hcs.
      induction frees as [|F r IH] using rev_ind; intros d Hlen Hwf' Hcs.
      + cbn in *. subst d. constructor; [assumption|]. apply Hwf'. now left.
      + rewrite app_length in Hlen. cbn in Hlen. destruct d as [|d]; [lia|].
        rewrite run_from_snoc in *. rewrite last_last. rewrite removelast_last in Hcs.
        rewrite (app_removelast_last env0 (run_from_nonempty sy rho0 r)), forallb_app in Hcs.
        apply andb_true_iff in Hcs. destruct Hcs as [Hcs Hc]. cbn in Hc. rewrite andb_true_r in Hc.
        constructor; [|assumption|].
        * apply IH; [lia| |assumption]. intros x Hx. apply Hwf'. apply in_or_app. now left.
        * apply Hwf'. apply in_or_app. right. now left.
  Qed.

  Lemma run_len rho0 frees : length (run_from sy rho0 frees) = S (length frees).
  Proof. exact (run_from_length en rho0 frees). Qed.

  Lemma hits_reach j : hits j <-> reach_at_r sy j.
  Proof.
    unfold hits, reach_at_r, is_execution_r. split.
    - intros (rho & HR & Hc & Hbad). apply Rd_run in HR.
      destruct HR as (rho0 & frees & Hlen & Hi & Hwf' & Hcs & ->).
      exists (run_from sy rho0 frees). split; [|split].
      + exists rho0, frees. split; [reflexivity|]. split; [assumption|]. split; [assumption|].
        rewrite (app_removelast_last env0 (run_from_nonempty sy rho0 frees)), forallb_app, Hcs. cbn. now rewrite Hc.
      + rewrite run_len. congruence.
      + assumption.
    - intros (trace & (rho0 & frees & -> & Hi & Hwf' & Hcs) & Hlen & Hbad).
      exists (last (run_from sy rho0 frees) env0).
      rewrite (app_removelast_last env0 (run_from_nonempty sy rho0 frees)), forallb_app in Hcs.
      apply andb_true_iff in Hcs. destruct Hcs as [Hcs Hc]. cbn in Hc. rewrite andb_true_r in Hc.
      split; [|split; assumption]. apply Rd_run. exists rho0, frees.
      rewrite run_len in Hlen. split; [lia|]. split; [assumption|]. split; [assumption|]. split; [assumption|reflexivity].
  Qed.

  (** ** the frontier *)
  Lemma next_env_agree a b f g s : env_wf a -> env_wf b -> eqv a b -> In s (sys_symbols sy) ->
    ((forall st, In st (s_states sy) -> st_next st <> None -> st_sym st <> s) -> agree_r s f g) ->
    agree_r s (next_env sy a f) (next_env sy b g).
  Proof.
    intros Ha Hbb Heq Hs Hfg. pose proof (sys_symbols_symbol s Hs) as Hsym.
    destruct (existsb (fun st => expr_eqb (st_sym st) s && match st_next st with Some _ => true | None => false end) (s_states sy)) eqn:Ex.
    - apply existsb_exists in Ex. destruct Ex as (st & Hst & Hx). apply andb_true_iff in Hx. destruct Hx as [He Hn].
      apply expr_eqb_true in He. subst s. destruct (st_next st) as [e|] eqn:En; [|discriminate].
      destruct (state_facts st Hst) as (_ & _ & _ & Hnx). destruct (Hnx e En) as [Hwt Hty].
      pose proof (next_env_state' a f st e Hst En) as [H1 H1'].
      pose proof (next_env_state' b g st e Hst En) as [H2 H2'].
      pose proof (eval_eqv a b e (next_in_all st e Hst En) Ha Hbb Heq) as [Hbv Har].
      destruct (st_sym st) eqn:Es; try discriminate Hsym; cbn [agree_r type_of ebv earr] in *.
      + rewrite H1, H2. now apply (Hbv _ Hty).
      + intros i Hi. rewrite H1', H2'. now apply (Har _ _ Hty).
    - assert (Hno : forall st, In st (s_states sy) -> st_next st <> None -> st_sym st <> s).
      { intros st Hst Hn He. assert (existsb (fun st => expr_eqb (st_sym st) s && match st_next st with Some _ => true | None => false end) (s_states sy) = true); [|congruence].
        apply existsb_exists. exists st. split; [assumption|]. rewrite He, expr_eqb_refl. destruct (st_next st); [reflexivity|congruence]. }
      eapply agree_r_trans; [apply agree_on_r; now apply next_env_other|].
      eapply agree_r_trans; [now apply Hfg|]. apply agree_r_sym. apply agree_on_r. now apply next_env_other.
  Qed.

  Lemma env_of_same_asg b1 b2 s : forall a, is_symbol s = true -> In s (map fst a) ->
    (forall s' v, In (s', v) a -> In v (all_vals (type_of s'))) ->
    agree_on s (env_of b1 a) (env_of b2 a).
  Proof.
    induction a as [|[s0 v0] r IH]; intros Hsym Hin Hsort; [destruct Hin|].
    cbn [env_of fold_right fst snd]. fold (env_of b1 r). fold (env_of b2 r).
    destruct (expr_eq_dec s s0) as [->|Hne].
    - specialize (Hsort s0 v0 (or_introl eq_refl)).
      destruct s0; try discriminate; cbn [type_of all_vals] in Hsort; apply in_map_iff in Hsort;
        destruct Hsort as (x & <- & _); cbn [set_val agree_on upd_bv upd_arr rho_bv rho_arr].
      + now rewrite String.eqb_refl, N.eqb_refl.
      + intros i. now rewrite String.eqb_refl, !N.eqb_refl.
    - eapply agree_on_trans; [now apply set_val_other|].
      eapply agree_on_trans; [|apply agree_on_sym; now apply set_val_other].
      apply IH; [assumption| |intros; apply Hsort; now right].
      cbn [map fst] in Hin. destruct Hin as [Heq|Hin]; [congruence|assumption].
  Qed.

  Lemma state_syms_in s : In s (state_syms sy) -> In s (sys_symbols sy).
  Proof. intros H. unfold sys_symbols. apply in_or_app. now right. Qed.
  Lemma inputs_in s : In s (s_inputs sy) -> In s (sys_symbols sy).
  Proof. intros H. unfold sys_symbols. apply in_or_app. now left. Qed.

  Lemma state_syms_symbol s : In s (state_syms sy) -> is_symbol s = true.
  Proof. intros H. apply sys_symbols_symbol. now apply state_syms_in. Qed.

  Lemma state_syms_nodup : NoDup (state_syms sy).
  Proof. apply (Hstates_nodup sy Hwf). Qed.

  Lemma inputs_nodup : NoDup (s_inputs sy).
  Proof. now apply nodup_exprs_NoDup. Qed.

  Lemma NoDup_map_filter {A} (f : A -> expr) (p : A -> bool) l : NoDup (map f l) -> NoDup (map f (filter p l)).
  Proof.
    induction l as [|x r IH]; intros H; [constructor|]. cbn [map] in H. inversion H as [|? ? Hna Hr]; subst.
    cbn [filter]. destruct (p x); [|now apply IH]. cbn [map]. constructor; [|now apply IH].
    intros Hin. apply Hna. apply in_map_iff in Hin. destruct Hin as (y & Hy & Hin). apply filter_In in Hin.
    rewrite <- Hy. apply in_map. tauto.
  Qed.

  Lemma nextless_nodup : NoDup (nextless_syms sy).
  Proof. unfold nextless_syms. apply NoDup_map_filter. apply state_syms_nodup. Qed.

  Lemma nextless_spec s : In s (nextless_syms sy) <-> exists st, In st (s_states sy) /\ st_next st = None /\ st_sym st = s.
  Proof.
    unfold nextless_syms. rewrite in_map_iff. split.
    - intros (st & <- & Hin). apply filter_In in Hin. destruct Hin as [Hin Hn]. exists st.
      destruct (st_next st); [discriminate|auto].
    - intros (st & Hin & Hn & <-). exists st. split; [reflexivity|]. apply filter_In. split; [assumption|]. now rewrite Hn.
  Qed.

  Lemma nextless_symbol s : In s (nextless_syms sy) -> is_symbol s = true.
  Proof. intros H. apply nextless_spec in H. destruct H as (st & Hst & _ & <-). now apply state_facts. Qed.

  (** the valuation with state part [sv] and inputs [ia] *)
  Definition embed (sv : list val) (ia : asg) : env := env_of (env_of env0 (combine (state_syms sy) sv)) ia.

  Lemma with_inputs_embed sv : with_inputs sy sv = map (embed sv) (all_asgs (s_inputs sy)).
  Proof. reflexivity. Qed.

  Lemma embed_wf r ia : env_wf r -> In ia (all_asgs (s_inputs sy)) ->
    env_wf (embed (map (get_val r) (state_syms sy)) ia).
  Proof.
    intros Hr Hia. unfold embed. apply (env_of_wf _ (s_inputs sy)); [|assumption].
    apply (env_of_wf _ (state_syms sy)); [apply env0_wf|]. rewrite combine_map.
    apply (asg_of_in_all r (state_syms sy) Hr). apply state_syms_symbol.
  Qed.

  (** on a state symbol the embedding has the value of [r] *)
  Lemma embed_state r ia s : In ia (all_asgs (s_inputs sy)) -> In s (state_syms sy) ->
    agree_r s (embed (map (get_val r) (state_syms sy)) ia) r.
  Proof.
    intros Hia Hs. destruct (all_asgs_shape _ _ Hia) as [Hfst _]. unfold embed.
    eapply agree_r_trans.
    - apply agree_on_r. apply env_of_other; [now apply state_syms_symbol|]. rewrite Hfst.
      intros Hin. now apply (proj2 (input_facts s Hin)).
    - rewrite combine_map. apply (env_of_asg_of env0 r (state_syms sy) s state_syms_nodup Hs).
  Qed.

  (** on an input it has the value [ia] gives, whatever the base *)
  Lemma embed_input sv ia base s : In ia (all_asgs (s_inputs sy)) -> In s (s_inputs sy) ->
    agree_on s (embed sv ia) (env_of base ia).
  Proof.
    intros Hia Hs. destruct (all_asgs_shape _ _ Hia) as [Hfst Hsort]. unfold embed.
    apply env_of_same_asg; [now apply input_facts|now rewrite Hfst|assumption].
  Qed.

  Definition FI (front : list env) (d : nat) : Prop :=
    (forall rho, In rho front -> env_wf rho /\ exists rho', Rd d rho' /\ eqv rho rho') /\
    (forall rho', Rd d rho' -> exists rho, In rho front /\ eqv rho rho').

  Lemma FI_init : FI (initial_front sy) 0.
  Proof.
    unfold initial_front. split.
    - intros rho Hin. apply filter_In in Hin. destruct Hin as [Hin Hi]. apply in_map_iff in Hin.
      destruct Hin as (a & <- & Ha).
      assert (Hw : env_wf (env_of env0 a)) by (apply (env_of_wf _ (sys_symbols sy)); [apply env0_wf|assumption]).
      split; [assumption|]. exists (env_of env0 a). split; [|apply eqv_refl].
      constructor; [now apply is_initial_b_r|assumption].
    - intros rho' HR. inversion HR as [r Hi Hw|]; subst.
      exists (env_of env0 (asg_of rho' (sys_symbols sy))).
      assert (Heq : eqv (env_of env0 (asg_of rho' (sys_symbols sy))) rho').
      { intros s Hs. apply env_of_asg_of; [apply sys_symbols_nodup|assumption]. }
      assert (Hin : In (asg_of rho' (sys_symbols sy)) (all_asgs (sys_symbols sy))).
      { apply asg_of_in_all; [assumption|apply sys_symbols_symbol]. }
      assert (Hw' : env_wf (env_of env0 (asg_of rho' (sys_symbols sy)))).
      { apply (env_of_wf _ (sys_symbols sy)); [apply env0_wf|assumption]. }
      split; [|assumption]. apply filter_In. split; [now apply in_map|].
      apply is_initial_b_r. apply (is_initial_eqv rho'); [assumption|assumption|now apply eqv_sym|assumption].
  Qed.

  Definition next_front (front : list env) : list env :=
    flat_map (with_inputs sy) (dedup_vals (flat_map (succs sy) (filter (constraints_hold sy) front))).

  Lemma FI_step front d : FI front d -> FI (next_front front) (S d).
  Proof.
    intros [Hsound Hcompl]. unfold next_front. split.
    - (* sound *)
      intros rho2 Hin. apply in_flat_map in Hin. destruct Hin as (sv & Hsv & Hin).
      apply (proj1 (in_dedup_vals _ _)) in Hsv. apply in_flat_map in Hsv. destruct Hsv as (rho1 & Hlive & Hsv).
      apply filter_In in Hlive. destruct Hlive as [Hf1 Hc1].
      unfold succs in Hsv. apply in_map_iff in Hsv. destruct Hsv as (f & <- & Hf).
      rewrite with_inputs_embed in Hin. apply in_map_iff in Hin. destruct Hin as (ia & <- & Hia).
      destruct (Hsound rho1 Hf1) as (Hw1 & rho1' & HR1 & Heq1).
      pose proof (Rd_wf _ _ HR1) as Hw1'.
      assert (Hwf0 : env_wf (env_of env0 f)) by (apply (env_of_wf _ (nextless_syms sy)); [apply env0_wf|assumption]).
      set (r := next_env sy rho1 (env_of env0 f)).
      assert (Hwr : env_wf r) by (now apply next_env_wf).
      set (F := env_of (env_of env0 f) ia).
      assert (HwF : env_wf F) by (apply (env_of_wf _ (s_inputs sy)); assumption).
      split; [now apply embed_wf|].
      exists (next_env sy rho1' F). split.
      + constructor; [assumption| |now apply next_env_wf].
        rewrite <- (constraints_eqv rho1 rho1'); assumption.
      + intros s Hs. unfold sys_symbols in Hs. apply in_app_or in Hs. destruct Hs as [Hs|Hs].
        * (* an input *)
          destruct (input_facts s Hs) as [Hsym Hns].
          eapply agree_r_trans; [apply agree_on_r; apply (embed_input _ ia (env_of env0 f) s Hia Hs)|].
          apply agree_r_sym. apply agree_on_r. apply next_env_other; [assumption|].
          intros st Hst _ He. apply Hns. rewrite <- He. now apply in_map.
        * (* a state *)
          eapply agree_r_trans; [now apply embed_state|]. unfold r.
          apply next_env_agree; try assumption; [now apply state_syms_in|].
          intros _. apply agree_r_sym. apply agree_on_r. unfold F.
          destruct (all_asgs_shape _ _ Hia) as [Hfst _].
          apply env_of_other; [now apply state_syms_symbol|]. rewrite Hfst.
          intros Hi. now apply (proj2 (input_facts s Hi)).
    - (* complete *)
      intros rho2' HR. inversion HR as [|d' rho1' F' HR1 Hc1' Hw2']; subst.
      destruct (Hcompl rho1' HR1) as (rho1 & Hf1 & Heq1).
      destruct (Hsound rho1 Hf1) as (Hw1 & _).
      pose proof (Rd_wf _ _ HR1) as Hw1'.
      set (rho2' := next_env sy rho1' F') in *.
      set (f := asg_of rho2' (nextless_syms sy)).
      set (ia := asg_of rho2' (s_inputs sy)).
      assert (Hf : In f (all_asgs (nextless_syms sy))) by (apply asg_of_in_all; [assumption|apply nextless_symbol]).
      assert (Hia : In ia (all_asgs (s_inputs sy))) by (apply asg_of_in_all; [assumption|intros; now apply input_facts]).
      assert (Hwf0 : env_wf (env_of env0 f)) by (apply (env_of_wf _ (nextless_syms sy)); [apply env0_wf|assumption]).
      set (r := next_env sy rho1 (env_of env0 f)).
      assert (Hwr : env_wf r) by (now apply next_env_wf).
      exists (embed (map (get_val r) (state_syms sy)) ia). split.
      + apply in_flat_map. exists (map (get_val r) (state_syms sy)). split.
        * apply in_dedup_vals. apply in_flat_map. exists rho1. split.
          -- apply filter_In. split; [assumption|]. rewrite (constraints_eqv rho1 rho1'); assumption.
          -- unfold succs. apply in_map_iff. exists f. split; [reflexivity|assumption].
        * rewrite with_inputs_embed. now apply in_map.
      + intros s Hs. unfold sys_symbols in Hs. apply in_app_or in Hs. destruct Hs as [Hs|Hs].
        * eapply agree_r_trans; [apply agree_on_r; apply (embed_input _ ia env0 s Hia Hs)|].
          apply (env_of_asg_of env0 rho2' (s_inputs sy) s inputs_nodup Hs).
        * eapply agree_r_trans; [now apply embed_state|]. unfold r, rho2'.
          apply next_env_agree; try assumption; [now apply state_syms_in|].
          intros Hno.
          (* a state without next function: the value the enumeration picked is the one of the run *)
          assert (Hnl : In s (nextless_syms sy)).
          { apply in_map_iff in Hs. destruct Hs as (st & <- & Hst). apply nextless_spec. exists st.
            split; [assumption|]. split; [|reflexivity].
            destruct (st_next st) eqn:En; [|reflexivity]. exfalso. apply (Hno st Hst); [congruence|reflexivity]. }
          eapply agree_r_trans; [apply (env_of_asg_of env0 (next_env sy rho1' F') (nextless_syms sy) s nextless_nodup Hnl)|].
          apply agree_on_r. apply next_env_other; [now apply nextless_symbol|assumption].
  Qed.

  Lemma FI_hit front d : FI front d ->
    (existsb (some_bad sy) (filter (constraints_hold sy) front) = true <-> hits d).
  Proof.
    intros [Hsound Hcompl]. split.
    - intros H. apply existsb_exists in H. destruct H as (rho & Hin & Hbad). apply filter_In in Hin.
      destruct Hin as [Hin Hc]. destruct (Hsound rho Hin) as (Hw & rho' & HR & Heq).
      pose proof (Rd_wf _ _ HR) as Hw'.
      exists rho'. split; [assumption|]. split.
      + now rewrite <- (constraints_eqv rho rho').
      + now rewrite <- (some_bad_eqv rho rho').
    - intros (rho' & HR & Hc & Hbad). destruct (Hcompl rho' HR) as (rho & Hin & Heq).
      destruct (Hsound rho Hin) as (Hw & _). pose proof (Rd_wf _ _ HR) as Hw'.
      apply existsb_exists. exists rho. split.
      + apply filter_In. split; [assumption|]. now rewrite (constraints_eqv rho rho').
      + now rewrite (some_bad_eqv rho rho').
  Qed.

  Theorem bmc_from_exact : forall k front d, FI front d ->
    forall j, bmc_from sy front d k = Some j <->
              (d <= j <= d + k)%nat /\ hits j /\ (forall i, (d <= i < j)%nat -> ~ hits i).
  Proof.
    induction k as [|k IH]; intros front d HFI j; cbn [bmc_from];
      pose proof (FI_hit front d HFI) as Hhit;
      destruct (existsb (some_bad sy) (filter (constraints_hold sy) front)) eqn:Ex.
    - split.
      + intros H. inversion H; subst. split; [lia|]. split; [now apply Hhit|intros; lia].
      + intros (Hr & Hj & Hmin). f_equal. lia.
    - split; [discriminate|]. intros (Hr & Hj & _). assert (j = d) by lia. subst.
      apply Hhit in Hj. discriminate.
    - split.
      + intros H. inversion H; subst. split; [lia|]. split; [now apply Hhit|intros; lia].
      + intros (Hr & Hj & Hmin). f_equal. destruct (Nat.eq_dec j d) as [->|Hne]; [reflexivity|].
        exfalso. apply (Hmin d); [lia|]. now apply Hhit.
    - assert (Hnd : ~ hits d) by (intros H; apply Hhit in H; discriminate).
      fold (next_front front). rewrite (IH _ (S d) (FI_step front d HFI) j). split.
      + intros (Hr & Hj & Hmin). split; [lia|]. split; [assumption|].
        intros i Hi. destruct (Nat.eq_dec i d) as [->|Hne]; [assumption|]. apply Hmin. lia.
      + intros (Hr & Hj & Hmin). assert (j <> d) by (intros ->; contradiction).
        split; [lia|]. split; [assumption|]. intros i Hi. apply Hmin. lia.
  Qed.

  (** [bmc_spec] returns the least depth [<= k] with a constrained execution into a bad state *)
  Theorem bmc_spec_exact_r k j :
    bmc_spec sy k = Some j <->
    (j <= k)%nat /\ reach_at_r sy j /\ (forall i, (i < j)%nat -> ~ reach_at_r sy i).
  Proof.
    unfold bmc_spec. rewrite (bmc_from_exact k _ 0%nat FI_init j). rewrite hits_reach. split.
    - intros (Hr & Hj & Hmin). split; [lia|]. split; [assumption|]. intros i Hi H. apply (Hmin i); [lia|]. now apply hits_reach.
    - intros (Hr & Hj & Hmin). split; [lia|]. split; [assumption|]. intros i Hi H. apply (Hmin i); [lia|]. now apply hits_reach.
  Qed.

  (** ** relation to the executions of Spec/System.v *)
  Lemma reach_at_to_r j : reach_at sy j -> reach_at_r sy j.
  Proof.
    intros (trace & (rho0 & frees & -> & Hi & Hw & Hc) & Hlen & Hbad).
    exists (run_from sy rho0 frees). split; [|split; assumption].
    exists rho0, frees. split; [reflexivity|]. split; [|split; assumption].
    intros st e Hst He. specialize (Hi st e Hst He).
    destruct (st_sym st); cbn [sym_agrees sym_agrees_r] in *; auto.
  Qed.

  Lemma reach_at_of_r j : no_array_init sy = true -> reach_at_r sy j -> reach_at sy j.
  Proof.
    intros Hna (trace & (rho0 & frees & -> & Hi & Hw & Hc) & Hlen & Hbad).
    exists (run_from sy rho0 frees). split; [|split; assumption].
    exists rho0, frees. split; [reflexivity|]. split; [|split; assumption].
    intros st e Hst He. specialize (Hi st e Hst He).
    unfold no_array_init in Hna. rewrite forallb_forall in Hna. specialize (Hna st Hst). rewrite He in Hna.
    destruct (st_sym st); cbn [sym_agrees sym_agrees_r] in *; auto. discriminate.
  Qed.

  Lemma bad_within_reach k : bad_reachable_within sy k <-> exists j, (j <= k)%nat /\ reach_at sy j.
  Proof.
    unfold bad_reachable_within, reach_at. split.
    - intros (trace & Hex & Hlen & Hbad). destruct trace as [|r0 t].
      + destruct Hex as (rho0 & frees & Heq & _). destruct frees; discriminate.
      + exists (length t). split; [cbn in Hlen; lia|]. exists (r0 :: t). split; [assumption|]. split; [reflexivity|exact Hbad].
    - intros (j & Hj & trace & Hex & Hlen & Hbad). exists trace. split; [assumption|]. split; [lia|exact Hbad].
  Qed.

  (** completeness with respect to System.v, all systems *)
  Theorem bmc_spec_complete k : bad_reachable_within sy k -> bmc_spec sy k <> None.
  Proof.
    intros H. apply bad_within_reach in H. destruct H as (j & Hj & Hr). apply reach_at_to_r in Hr.
    (* the least such depth *)
    assert (Hleast : forall n, (exists j, (j <= n)%nat /\ reach_at_r sy j) ->
              exists j, (j <= n)%nat /\ reach_at_r sy j /\ forall i, (i < j)%nat -> ~ reach_at_r sy i).
    { induction n as [|n IHn]; intros (j0 & Hj0 & Hr0).
      - assert (j0 = 0)%nat by lia. subst. exists 0%nat. split; [lia|]. split; [assumption|intros; lia].
      - destruct (Nat.eq_dec j0 (S n)) as [->|Hne].
        + destruct (bmc_spec sy n) as [j1|] eqn:E.
          * apply bmc_spec_exact_r in E. destruct E as (H1 & H2 & H3). exists j1. split; [lia|auto].
          * exists (S n). split; [lia|]. split; [assumption|]. intros i Hi Hri.
            assert (exists j, (j <= n)%nat /\ reach_at_r sy j) as Hex by (exists i; split; [lia|assumption]).
            destruct (IHn Hex) as (j2 & H1 & H2 & H3).
            assert (bmc_spec sy n = Some j2) by (apply bmc_spec_exact_r; auto). congruence.
        + destruct IHn as (j2 & Ha & Hbb); [exists j0; split; [lia|assumption]|]. exists j2. split; [lia|exact Hbb]. }
    destruct (Hleast k) as (j1 & H1 & H2 & H3); [eauto|].
    assert (bmc_spec sy k = Some j1) by (apply bmc_spec_exact_r; auto). congruence.
  Qed.

  (** exactness with respect to System.v when no array state has an init expression *)
  Theorem bmc_spec_exact k j : no_array_init sy = true ->
    (bmc_spec sy k = Some j <->
     (j <= k)%nat /\ reach_at sy j /\ (forall i, (i < j)%nat -> ~ reach_at sy i)).
  Proof.
    intros Hna. rewrite bmc_spec_exact_r. split; intros (H1 & H2 & H3).
    - split; [assumption|]. split; [now apply reach_at_of_r|]. intros i Hi Hr. apply (H3 i Hi). now apply reach_at_to_r.
    - split; [assumption|]. split; [now apply reach_at_to_r|]. intros i Hi Hr. apply (H3 i Hi). now apply reach_at_of_r.
  Qed.

  Corollary bmc_spec_verdict k : no_array_init sy = true ->
    (bmc_spec sy k <> None <-> bad_reachable_within sy k).
  Proof.
    intros Hna. split; [|apply bmc_spec_complete].
    destruct (bmc_spec sy k) as [j|] eqn:E; [|congruence]. intros _.
    apply (bmc_spec_exact k j Hna) in E. destruct E as (H1 & H2 & _).
    apply bad_within_reach. eauto.
  Qed.
End Reach.
