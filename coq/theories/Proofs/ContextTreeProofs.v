(** * Proofs/ContextTreeProofs.v — reference equality is structural equality of trees

    If two references of a reachable context unfold ([cx_tree]) to the same tree of
    Model/Expr.v — same operators, widths, symbol names, literal values all the way
    down — they are the same reference.  This is the link between the hash-consed
    DAG of the implementation and the trees every other property reasons about. *)
From Coq Require Import NArith PeanoNat String List Bool Lia.
From Patronus Require Import Expr Context ContextTree ContextProofs.
Import ListNotations.
Open Scope N_scope.

(* ------------------------------------------------------------------ machine words stay machine words *)
Definition bounded (ws : list N) : Prop := Forall (fun x => x < cx_word_base) ws.

Lemma cx_words_bounded_spec ws : cx_words_bounded ws = true <-> bounded ws.
Proof.
  unfold cx_words_bounded, bounded. rewrite forallb_forall, Forall_forall.
  split; intros H x Hx; specialize (H x Hx); now apply N.ltb_lt.
Qed.

Lemma bounded_app a b : bounded a -> bounded b -> bounded (a ++ b).
Proof. unfold bounded. rewrite Forall_app. tauto. Qed.

Lemma bounded_firstn n l : bounded l -> bounded (firstn n l).
Proof.
  unfold bounded. revert l. induction n as [|k IH]; intros [|x t] H; cbn [firstn]; try constructor.
  - now inversion H.
  - apply IH. now inversion H.
Qed.

Lemma bounded_skipn n l : bounded l -> bounded (skipn n l).
Proof.
  unfold bounded. revert l. induction n as [|k IH]; intros [|x t] H; cbn [skipn]; auto.
  apply IH. now inversion H.
Qed.

Lemma digits_bounded n v : bounded (cx_digits n v).
Proof.
  revert v. induction n as [|k IH]; intro v; cbn [cx_digits]; constructor; [|apply IH].
  apply N.mod_lt. discriminate.
Qed.

Definition wb (c : cx) : Prop := bounded (ci_words (cx_values c)).

Lemma get_index_bounded it ws w it' r :
  bounded (ci_words it) -> bounded ws -> cx_get_index it ws w = (it', r) -> bounded (ci_words it').
Proof.
  intros Hb Hw. unfold cx_get_index.
  destruct ws as [|x [|y t]].
  - destruct (w <=? 64); [now intros [= <- _]|].
    destruct (cx_assoc cx_words_eqb [] (ci_large it)); intros [= <- _]; cbn [ci_words]; auto using bounded_app.
  - destruct (64 <? w); [now intros [= <- _]|]. destruct (x <? 8); [now intros [= <- _]|].
    destruct (cx_assoc N.eqb x (ci_small it)); intros [= <- _]; cbn [ci_words]; auto using bounded_app.
  - destruct (w <=? 64); [now intros [= <- _]|].
    destruct (cx_assoc cx_words_eqb (x :: y :: t) (ci_large it)); intros [= <- _]; cbn [ci_words]; auto using bounded_app.
Qed.

Definition bpres {A} (m : cx_m A) : Prop := forall c c' r, wb c -> m c = (c', r) -> wb c'.

Lemma bpres_bind {A B} (m : cx_m A) (f : A -> cx_m B) : bpres m -> (forall a, bpres (f a)) -> bpres (cx_bind m f).
Proof.
  intros Pm Pf c c' r Inv. unfold cx_bind. destruct (m c) as [c1 [a| |]] eqn:E.
  - intro H. eapply Pf; [|exact H]. eapply Pm; eauto.
  - intros [= <- <-]. eapply Pm; eauto.
  - intros [= <- <-]. eapply Pm; eauto.
Qed.

Lemma bpres_pure {A} (f : cx -> cx_res A) : bpres (fun c => (c, f c)).
Proof. intros c c' r Inv [= <- <-]. exact Inv. Qed.
Lemma bpres_ret {A} (a : A) : bpres (cx_ret a).
Proof. exact (bpres_pure (fun _ => CxOk a)). Qed.
Lemma bpres_fail {A} : bpres (@cx_fail A).
Proof. exact (bpres_pure (fun _ => CxPanic)). Qed.
Lemma bpres_assert b : bpres (cx_assert b).
Proof. exact (bpres_pure (fun _ => if b then CxOk tt else CxPanic)). Qed.
Lemma bpres_lift {A} (r : cx_res A) : bpres (cx_lift r).
Proof. exact (bpres_pure (fun _ => r)). Qed.
Lemma bpres_get_type r : bpres (cx_get_type r).
Proof. exact (bpres_pure (fun c => cx_type_of (cx_exprs c) r)). Qed.
Lemma bpres_get_true : bpres cx_get_true.
Proof. exact (bpres_pure (fun c => CxOk (cx_true c))). Qed.
Lemma bpres_get_false : bpres cx_get_false.
Proof. exact (bpres_pure (fun c => CxOk (cx_false c))). Qed.

Lemma bpres_add_expr n : bpres (cx_add_expr n).
Proof.
  intros c c' r Inv. unfold cx_add_expr. destruct (cx_intern cx_node_eqb n (cx_exprs c)).
  intros [= <- _]. exact Inv.
Qed.

Lemma bpres_string s : bpres (cx_string s).
Proof.
  intros c c' r Inv. unfold cx_string. destruct (cx_intern String.eqb s (cx_strings c)).
  intros [= <- _]. exact Inv.
Qed.

Lemma bpres_value_index w ws : bounded ws -> bpres (cx_value_index w ws).
Proof.
  intros Hw c c' r Inv. unfold cx_value_index.
  destruct (cx_get_index (cx_values c) ws w) as [it r'] eqn:E. intros [= <- _].
  unfold wb. cbn [cx_values]. eapply get_index_bounded; [exact Inv|exact Hw|exact E].
Qed.

Lemma bpres_bv_lit w ws : bounded ws -> bpres (cx_bv_lit w ws).
Proof.
  intro Hw. unfold cx_bv_lit.
  apply bpres_bind; [apply bpres_assert|intro]. apply bpres_bind; [now apply bpres_value_index|intro].
  apply bpres_add_expr.
Qed.

Lemma bpres_lit_value w v : bpres (cx_lit_value w v).
Proof. apply bpres_bv_lit. apply digits_bounded. Qed.

Ltac bpres_step :=
  first
    [ apply bpres_lit_value
    | apply bpres_bind; [|intro]
    | apply bpres_ret | apply bpres_fail | apply bpres_assert | apply bpres_lift
    | apply bpres_get_type | apply bpres_string | apply bpres_add_expr
    | apply bpres_get_true | apply bpres_get_false
    | match goal with
      | |- bpres (match ?x with _ => _ end) => destruct x
      | |- bpres (if ?b then _ else _) => destruct b
      end ].

Lemma bpres_lit_arr_fold es :
  Forall (fun e => bounded (snd (fst e)) /\ bounded (snd (snd e))) es -> forall arr, bpres (cx_lit_arr_fold es arr).
Proof.
  induction es as [|[i d] t IH]; intros H arr; cbn [cx_lit_arr_fold].
  - apply bpres_ret.
  - inversion H as [|? ? [Hi Hd] Ht]; subst. cbn [fst snd] in *. unfold cx_array_store.
    apply bpres_bind; [now apply bpres_bv_lit|intro]. apply bpres_bind; [now apply bpres_bv_lit|intro].
    apply bpres_bind; [apply bpres_add_expr|intro]. now apply IH.
Qed.

Lemma bpres_run_op o : cx_op_words_ok o = true -> bpres (cx_run_op o).
Proof.
  intro Hok. destruct o; cbn [cx_run_op cx_op_words_ok] in *.
  5:{ unfold cx_as_expr. apply bpres_bind; [|intro; apply bpres_ret].
      apply bpres_bv_lit. now apply cx_words_bounded_spec. }
  10:{ unfold cx_as_expr, cx_lit_arr, cx_array_const, cx_bv_type.
       apply andb_true_iff in Hok as [Hd Hes].
       apply bpres_bind; [|intro; apply bpres_ret].
       apply bpres_bind; [apply bpres_bv_lit; now apply cx_words_bounded_spec|intro].
       apply bpres_bind; [repeat bpres_step|intro].
       apply bpres_lit_arr_fold. rewrite forallb_forall in Hes. apply Forall_forall. intros e He.
       specialize (Hes e He). apply andb_true_iff in Hes as [H1 H2].
       split; now apply cx_words_bounded_spec. }
  all: unfold cx_as_expr, cx_bv_symbol, cx_array_symbol, cx_symbol, cx_bit_vec_val,
    cx_zero, cx_one, cx_ones, cx_zero_array, cx_distinct, cx_ite, cx_implies, cx_greater,
    cx_greater_signed, cx_greater_or_equal, cx_greater_or_equal_signed, cx_negate, cx_not, cx_xor3, cx_majority,
    cx_concat, cx_slice, cx_extend, cx_array_read, cx_zero, cx_bin, cx_equal, cx_array_const,
    cx_array_store, cx_zero_extend, cx_sign_extend, cx_assert_same_width, cx_assert_bool, cx_bv_type;
    repeat bpres_step.
Qed.

Lemma wb_default : wb cx_default.
Proof.
  rewrite cx_default_eq. unfold wb, bounded. cbn [cx_values cx_interner_new ci_words].
  repeat constructor.
Qed.

Lemma wb_exec ops : forall c, forallb cx_op_words_ok ops = true -> wb c -> wb (cx_exec ops c).
Proof.
  induction ops as [|o t IH]; intros c Hh Inv; [exact Inv|].
  cbn [forallb] in Hh. apply andb_true_iff in Hh as [Ho Ht].
  rewrite cx_exec_cons. apply IH; [exact Ht|].
  destruct (cx_run_op o c) as [c' r] eqn:E. cbn [fst]. eapply bpres_run_op; eauto.
Qed.

(* ------------------------------------------------------------------ value <-> words *)
Lemma value_of_words_inj a : forall b,
  bounded a -> bounded b -> length a = length b -> cx_value_of_words a = cx_value_of_words b -> a = b.
Proof.
  induction a as [|x a IH]; intros [|y b] Ha Hb Hl Hv; cbn [length] in Hl; try discriminate; [reflexivity|].
  inversion Ha as [|? ? Hx Ha']; inversion Hb as [|? ? Hy Hb']; subst.
  cbn [cx_value_of_words] in Hv.
  assert (B : cx_word_base <> 0) by discriminate.
  assert (x = y).
  { apply (f_equal (fun z => z mod cx_word_base)) in Hv.
    rewrite !(N.mul_comm cx_word_base) in Hv.
    rewrite !N.mod_add in Hv by exact B. now rewrite !N.mod_small in Hv. }
  subst. f_equal. apply IH.
  - exact Ha'.
  - exact Hb'.
  - lia.
  - apply N.add_cancel_l in Hv. now apply N.mul_cancel_l in Hv.
Qed.

Lemma words_at_bounded c idx w : wb c -> bounded (cx_words_at (cx_values c) idx w).
Proof.
  intro H. unfold cx_words_at. rewrite cx_skipn_spec. apply bounded_firstn, bounded_skipn. exact H.
Qed.

Lemma shape_length w ws : cx_value_shape_ok w ws = true -> length ws = N.to_nat (cx_nwords w).
Proof.
  unfold cx_value_shape_ok. intro H. apply andb_true_iff in H as [_ H]. apply N.eqb_eq in H.
  rewrite cx_len0 in H. lia.
Qed.

(* ------------------------------------------------------------------ trees *)
Ltac tree_simp H :=
  unfold cx_o1, cx_o2, cx_o3 in H;
  repeat match type of H with
  | context [match cx_tree ?k ?c ?x with _ => _ end] =>
      let E := fresh "T" in destruct (cx_tree k c x) eqn:E; [|discriminate H]
  | context [match cx_nth (cx_strings ?c) ?s with _ => _ end] =>
      let E := fresh "S" in destruct (cx_nth (cx_strings c) s) eqn:E; [|discriminate H]
  end.

Lemma lit_node_inj c r1 r2 i1 w1 i2 w2 :
  cx_inv c -> wb c ->
  cx_nth (cx_exprs c) r1 = Some (CnBVLiteral i1 w1) -> cx_nth (cx_exprs c) r2 = Some (CnBVLiteral i2 w2) ->
  w1 = w2 ->
  cx_value_of_words (cx_words_at (cx_values c) i1 w1) = cx_value_of_words (cx_words_at (cx_values c) i2 w2) ->
  i1 = i2.
Proof.
  intros Inv Hb L1 L2 <- Hv.
  destruct (lit_words _ _ _ _ Inv L1) as (I1 & S1). destruct (lit_words _ _ _ _ Inv L2) as (I2 & S2).
  assert (E : cx_words_at (cx_values c) i1 w1 = cx_words_at (cx_values c) i2 w1).
  { apply value_of_words_inj; auto using words_at_bounded.
    rewrite (shape_length _ _ S1), (shape_length _ _ S2). reflexivity. }
  rewrite E in I1. eapply idx_of_fun; [exact (cv_values _ Inv)|exact I1|exact I2].
Qed.

(** two references that unfold to the same tree are the same reference *)
Lemma tree_inj c :
  cx_inv c -> wb c ->
  forall f1 r1 f2 r2 t, cx_tree f1 c r1 = Some t -> cx_tree f2 c r2 = Some t -> r1 = r2.
Proof.
  intros Inv Hb. induction f1 as [|k1 IH]; intros r1 f2 r2 t H1 H2; [discriminate H1|].
  destruct f2 as [|k2]; [discriminate H2|].
  cbn [cx_tree] in H1, H2.
  destruct (cx_lookup c r1) as [n1|] eqn:L1; [|discriminate H1].
  destruct (cx_lookup c r2) as [n2|] eqn:L2; [|discriminate H2].
  unfold cx_lookup in L1, L2.
  assert (n1 = n2); [|subst; eapply NoDup_cx_nth_inj; eauto using cv_exprs].
  destruct n1; tree_simp H1; injection H1 as <-;
    destruct n2; tree_simp H2; try discriminate H2;
    try (match type of H2 with context [cx_bin_expr ?o _ _ _] => destruct o; cbn [cx_bin_expr] in H2; discriminate H2 end);
    try (injection H2 as ?; subst; f_equal; eauto; fail).
  - (* symbols: equal name strings *)
    inversion H2; subst. f_equal.
    eapply (NoDup_cx_nth_inj (cx_strings c)); [exact (cv_strings _ Inv)|exact S|exact S0].
  - (* literals: equal width and value *)
    inversion H2 as [[Hw Hv]]. subst w0.
    rewrite (lit_node_inj _ _ _ _ _ _ _ Inv Hb L1 L2 eq_refl (eq_sym Hv)). reflexivity.
  - (* the 14 binary operators *)
    destruct o, o0; cbn [cx_bin_expr] in H2; try discriminate H2;
      inversion H2; subst; f_equal; eauto.
  - (* array symbols *)
    inversion H2; subst. f_equal.
    eapply (NoDup_cx_nth_inj (cx_strings c)); [exact (cv_strings _ Inv)|exact S|exact S0].
Qed.

Lemma tree_canonical_lemma :
  forall ops, forallb cx_op_words_ok ops = true ->
    let c := cx_exec ops cx_default in
    forall f1 r1 f2 r2 t, cx_tree f1 c r1 = Some t -> cx_tree f2 c r2 = Some t -> r1 = r2.
Proof.
  intros ops H c. apply tree_inj.
  - apply cx_exec_inv, cx_inv_default.
  - apply wb_exec; [exact H|apply wb_default].
Qed.

Lemma key_of_ext_lit c c' r idx w :
  cx_inv c -> cx_ext c c' -> cx_nth (cx_exprs c) r = Some (CnBVLiteral idx w) ->
  cx_words_at (cx_values c') idx w = cx_words_at (cx_values c) idx w.
Proof.
  intros Inv (_ & _ & (PW & _) & _) H.
  destruct (cv_lits _ Inv _ _ _ H) as (ws & Hi & Hs).
  rewrite !(words_at_ws_at _ _ _ _ Hs). destruct PW as [s ->].
  apply ws_at_app.
  destruct Hi as [(x & -> & Hx & ->)|[(x & -> & Hin)|Hin]].
  - pose proof (it_inv_words_len _ (cv_values _ Inv)). cbn [length]. lia.
  - apply (ii_small _ (cv_values _ Inv)) in Hin. cbn [length]. lia.
  - apply (ii_large _ (cv_values _ Inv)) in Hin. lia.
Qed.

(** the tree of a reference never changes *)
Lemma tree_ext c c' :
  cx_inv c -> cx_ext c c' -> forall f r t, cx_tree f c r = Some t -> cx_tree f c' r = Some t.
Proof.
  intros Inv Ext. pose proof Ext as (PS & PE & _).
  induction f as [|k IH]; intros r t H; [discriminate H|].
  cbn [cx_tree] in *. unfold cx_lookup in *.
  destruct (cx_nth (cx_exprs c) r) as [n|] eqn:L; [|discriminate H].
  rewrite (cx_nth_prefix _ _ _ _ PE L).
  destruct n; tree_simp H;
    repeat match goal with T : cx_tree k c ?x = Some ?e |- _ => rewrite (IH _ _ T); clear T end;
    try exact H.
  - now rewrite (cx_nth_prefix _ _ _ _ PS S).
  - pose proof (key_of_ext_lit c c' r idx w Inv Ext L) as E. now rewrite E.
  - now rewrite (cx_nth_prefix _ _ _ _ PS S).
Qed.

Lemma tree_stable_lemma :
  forall ops1 ops2 f r t,
    let c := cx_exec ops1 cx_default in
    cx_tree f c r = Some t -> cx_tree f (cx_exec ops2 c) r = Some t.
Proof.
  intros ops1 ops2 f r t c H. eapply tree_ext; [|apply cx_exec_ext|exact H].
  apply cx_exec_inv, cx_inv_default.
Qed.
