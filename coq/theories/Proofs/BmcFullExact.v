(** * Proofs/BmcFullExact.v — the verdict of the full model of [bmc] (Model/BmcWitFull.v) is exact.

    Solver: truthful on "sat" (model) and on "unsat", never "unknown", never an error, no failing command,
    every get-value answered ([solver_total]).  Then, for [check_constraints] on or off and both checking
    modes, the loop from step [i] ends in exactly one of three ways ([loop_f_spec]):
      - [FFail j w] with [j] the least depth >= [i] at which a bad state is reachable,
      - [FSuccess]: no bad state is reachable at any depth of the range (and, with [check_constraints],
        the constraints are satisfiable along some execution of each of these lengths),
      - [FPanic], only with [check_constraints]: the [assert_eq!] - at some depth [j] no execution of [j]
        steps satisfies the constraints ([~ exec_at sy j]) and no bad state is reachable before.
    [get_signal_at] never panicking on the constraints and bad states up to the bound is a hypothesis
    ([signals_at .. <> None], checkable by computation). *)
From Coq Require Import List Bool Lia.
From Patronus Require Import EvalImpl Encoding SysExec ReachSpec Witness Bmc BmcWit BmcWitFull ExprLemmas BVLemmas EvalProofs McBasics
     ScriptProofs EncodingBasics EncodingFaithful EncodingWf EncodingNew EncodingNames EncodingTheorems
     EncodingWf2 EncodingOrder EncodingTheorems2 ReachBasics ReachEnum ReachBmcProofs WitnessProofs BmcProofs BmcSound BmcWitProofs
     BmcWitFullProofs.
Import ListNotations.
Open Scope N_scope.

(** some execution of exactly [j] steps from an initial valuation satisfies all constraints at every step *)
Definition exec_at (sy : sys) (j : nat) : Prop := exists trace, is_execution sy trace /\ length trace = S j.

Definition solver_total {EM : Type} (sv : solver EM) : Prop :=
  (forall sc a b, sv_check sv sc a b <> SUnknown) /\
  (forall sc a b e, sv_check sv sc a b <> SErr e) /\
  (forall sc m s e, sv_value sv sc m s <> GErr e) /\
  (forall p, sv_fault sv p = None).

Lemma reach_exec sy j : reach_at sy j -> exec_at sy j.
Proof. intros (t & H & L & _). now exists t. Qed.

Lemma run_from_firstn sy : forall m frees rho, firstn (S m) (run_from sy rho frees) = run_from sy rho (firstn m frees).
Proof.
  induction m as [|m IH]; intros [|f r] rho; cbn; try reflexivity.
  f_equal. apply IH.
Qed.

Lemma in_firstn {A} (x : A) n l : In x (firstn n l) -> In x l.
Proof. intros H. rewrite <- (firstn_skipn n l). apply in_or_app. now left. Qed.

Lemma exec_prefix sy j m : exec_at sy j -> (m <= j)%nat -> exec_at sy m.
Proof.
  intros (trace & (rho0 & frees & -> & Hi & Hw & Hc) & L) Hm. rewrite (run_len sy) in L.
  exists (run_from sy rho0 (firstn m frees)). split.
  - exists rho0, (firstn m frees). split; [reflexivity|]. split; [assumption|]. split.
    + intros r Hr. rewrite <- run_from_firstn in Hr. apply Hw. now apply in_firstn in Hr.
    + apply forallb_forall. intros r Hr. rewrite <- run_from_firstn in Hr. apply in_firstn in Hr.
      rewrite forallb_forall in Hc. now apply Hc.
  - rewrite (run_len sy), firstn_length_le by lia. reflexivity.
Qed.

(** ** extensionality of [get_witness_f] in the get-value function *)
Section Ext.
  Variable EM : Type.
  Variable en : enc.
  Variables gv gv' : expr -> gvres EM.
  Hypothesis Hext : forall s, gv s = gv' s.

  Lemma failed_f_ext : forall bads k i, failed_f EM en gv bads k i = failed_f EM en gv' bads k i.
  Proof.
    induction bads as [|b r IH]; intros k i; cbn [failed_f]; [reflexivity|].
    destruct (get_signal_at en b k) as [s|]; [|reflexivity]. rewrite Hext. destruct (gv' s) as [[x|a]|e]; try reflexivity.
    now rewrite IH.
  Qed.

  Lemma values_f_ext : forall syms k, values_f EM en gv syms k = values_f EM en gv' syms k.
  Proof.
    induction syms as [|x r IH]; intros k; cbn [values_f]; [reflexivity|].
    destruct (get_signal_at en x k) as [s|]; [|reflexivity]. rewrite Hext. destruct (gv' s); try reflexivity. now rewrite IH.
  Qed.

  Lemma inputs_f_ext : forall ks, inputs_f EM en gv ks = inputs_f EM en gv' ks.
  Proof.
    induction ks as [|k r IH]; cbn [inputs_f]; [reflexivity|]. now rewrite values_f_ext, IH.
  Qed.

  Lemma get_witness_f_ext k : get_witness_f EM en gv k = get_witness_f EM en gv' k.
  Proof. unfold get_witness_f. now rewrite failed_f_ext, values_f_ext, inputs_f_ext. Qed.
End Ext.

Section ExactFull.
  Variable EM : Type.
  Variable sv : solver EM.
  Hypothesis Hsound : solver_sound sv.
  Hypothesis Hunsat : solver_unsat_right sv.
  Hypothesis Htotal : solver_total sv.
  Variables (sy : sys) (nm : expr -> string).
  Hypothesis Hwf : sys_wf sy = true.
  Hypothesis Hni : nodup_exprs (s_inputs sy) = true.
  Hypothesis Hn : names_ok (enc_new sy nm) = true.
  Let en := enc_new sy nm.
  Variable scr : nat -> list cmd.
  Hypothesis Hscr_S : forall i, scr (S i) = scr i ++ unroll Fixed en 0 (N.of_nat i).
  Hypothesis Hsub : forall n c, In c (script Fixed en 0 n) -> In c (scr n).
  Hypothesis Horig : forall n c, In c (scr n) -> cmd_origin en 0 n c.
  Hypothesis Hck : forall n, script_check [] (scr n) = true.
  Hypothesis Hfaithful : forall (rho0 : env) (frees : list env) (sigma0 : env), is_initial sy rho0 ->
    let n := length frees in
    let sc := scr n in
    let trace := run_from sy rho0 frees in
    script_check [] sc = true ->
    (forall nm' t e k, In (DeclareConst nm' t) sc -> k <= N.of_nat n ->
        sig_sym en e k = Some (mk_sym nm' t) -> same_val sigma0 (mk_sym nm' t) (nth (N.to_nat k) trace env0) e) ->
    forall e k s, observable sy e -> k <= N.of_nat n -> get_signal_at en e k = Some s ->
      same_val (script_eval sigma0 sc) s (nth (N.to_nat k) trace env0) e.
  Hypothesis Hbads : s_bads sy <> [].
  (** [get_signal_at] does not panic on constraints and bad states up to the bound [K] *)
  Variable K : nat.
  Hypothesis Hsig : forall k, (k <= K)%nat ->
    signals_at en (s_constraints sy) (N.of_nat k) <> None /\ signals_at en (s_bads sy) (N.of_nat k) <> None.

  (** *** the plain (check-sat) of [check_constraints]: satisfiable iff an execution of that length exists *)
  Lemma exec_has_model i rho0 frees asserts :
    length frees = i -> is_initial sy rho0 ->
    (forall r, In r (run_from sy rho0 frees) -> env_wf r) ->
    forallb (constraints_hold sy) (run_from sy rho0 frees) = true ->
    (forall a, In a asserts -> exists c m, In c (s_constraints sy) /\ (m <= i)%nat /\
                                           get_signal_at en c (N.of_nat m) = Some a) ->
    exists sigma0, is_model (scr i) asserts [] sigma0.
  Proof.
    intros Hlen Hinit Hwfr Hcons Hass.
    pose proof (enc_new_basic sy nm Hwf) as Hb. fold en in Hb.
    pose proof (names_ok_inj en Hn) as Hinj.
    set (trace := run_from sy rho0 frees) in *.
    set (sigma0 := tau en 0 i trace).
    assert (Hcoh := coherent sy nm Hwf Hinj 0 i rho0 frees Hlen (fun _ => Hinit)). fold en trace in Hcoh.
    assert (Hw0 : env_wf sigma0) by (apply (tau_of_wf en Hb); assumption).
    assert (Hfaith : forall e k s, observable sy e -> (k <= i)%nat -> get_signal_at en e (N.of_nat k) = Some s ->
               same_val (script_eval sigma0 (scr i)) s (nth k trace env0) e).
    { intros e k s Hobs Hk Hg.
      pose proof (Hfaithful rho0 frees sigma0 Hinit) as F.
      cbn zeta in F. rewrite Hlen in F. fold trace in F.
      specialize (F (Hck i)).
      assert (Hd : forall nm' t e0 k0, In (DeclareConst nm' t) (scr i) -> k0 <= N.of_nat i ->
                     sig_sym en e0 k0 = Some (mk_sym nm' t) ->
                     same_val sigma0 (mk_sym nm' t) (nth (N.to_nat k0) trace env0) e0).
      { intros nm' t e0 k0 _ Hk0 Hs. replace (N.to_nat k0) with (N.to_nat (k0 - 0)) by lia.
        apply (tau_spec en Hb 0 i trace Hcoh); [apply in_steps; lia|assumption]. }
      specialize (F Hd e (N.of_nat k) s Hobs ltac:(lia) Hg).
      replace (N.to_nat (N.of_nat k)) with k in F by lia. exact F. }
    exists sigma0. split; [assumption|]. split; [|reflexivity].
    apply forallb_forall. intros a Ha. destruct (Hass a Ha) as (c & m & Hc & Hm & Hg).
    destruct (Hfaith c m a ltac:(unfold observable; tauto) Hm Hg) as [Hv _]. unfold holds. rewrite Hv.
    assert (Hin : In (nth m trace env0) trace).
    { apply nth_In. unfold trace. rewrite (run_len sy). lia. }
    rewrite forallb_forall in Hcons. specialize (Hcons _ Hin). unfold constraints_hold in Hcons.
    rewrite forallb_forall in Hcons. apply (Hcons c Hc).
  Qed.

  Lemma model_is_exec i m asserts : env_wf m ->
    (forall c j, In c (s_constraints sy) -> (j <= i)%nat -> exists a, In a asserts /\ get_signal_at en c (N.of_nat j) = Some a) ->
    forallb (holds (script_eval m (scr i))) asserts = true -> exec_at sy i.
  Proof.
    intros Hw0 Hass Hholds.
    pose proof (read_run_eqv sy nm Hwf Hni Hn Fixed i m Hw0 (scr i) (Hsub i) (Horig i) (Hck i)) as Hrun.
    assert (Hlen : length (read_run sy nm i m (scr i)) = S i).
    { unfold read_run. rewrite (run_len sy). unfold read_frees. now rewrite map_length, seq_length. }
    exists (read_run sy nm i m (scr i)). split; [|exact Hlen].
    exists (read sy nm m (scr i) 0), (read_frees sy nm i m (scr i)). split; [reflexivity|].
    split; [apply (read_initial sy nm Hwf Hni Hn Fixed i m (scr i) (Hsub i) (Horig i) (Hck i))|]. split.
    - intros r Hr. apply In_nth with (d := env0) in Hr. destruct Hr as (j & Hj & <-). rewrite Hlen in Hj.
      apply Hrun. lia.
    - apply forallb_forall. intros r Hr. apply In_nth with (d := env0) in Hr. destruct Hr as (j & Hj & <-). rewrite Hlen in Hj.
      destruct (Hrun j ltac:(lia)) as [Hw He].
      rewrite (constraints_eqv sy Hwf _ (read sy nm m (scr i) (N.of_nat j)) Hw (read_wf sy nm Hwf m Hw0 (scr i) (Hck i) _) He).
      unfold constraints_hold. apply forallb_forall. intros c Hc.
      destruct (Hass c j Hc ltac:(lia)) as (a & Ha & Hg).
      rewrite forallb_forall in Hholds. specialize (Hholds a Ha).
      destruct (observable_value sy nm Hwf Hni Hn Fixed i m (scr i) (Hsub i) (Horig i) (Hck i) c j a
                  ltac:(unfold observable; tauto) ltac:(lia) Hg) as [Hv _].
      unfold holds in *. now rewrite <- Hv.
  Qed.

  (** *** the pieces of the loop under a total solver *)
  Lemma assert_cons_nofault : forall cs k i acc ss, signals_at en cs k = Some ss ->
    assert_cons EM sv en cs k i acc = WOk (acc ++ ss).
  Proof.
    destruct Htotal as (_ & _ & _ & Hnf).
    induction cs as [|c r IH]; intros k i acc ss H; cbn [assert_cons signals_at] in *.
    - inversion H; subst. now rewrite app_nil_r.
    - destruct (get_signal_at en c k) as [s|]; [|discriminate].
      destruct (signals_at en r k) as [l|] eqn:Er; [|discriminate]. inversion H; subst.
      rewrite Hnf. rewrite (IH k (S i) (acc ++ [s]) l Er). now rewrite <- app_assoc.
  Qed.

  Lemma first_hit_cases sc asserts : forall bads k i bs, signals_at en bads k = Some bs ->
    (exists m, first_hit EM sv en sc asserts bads k i = HSat EM m) \/ first_hit EM sv en sc asserts bads k i = HNone EM.
  Proof.
    destruct Htotal as (Hnu & Hne & _ & Hnf).
    induction bads as [|b r IH]; intros k i bs H; cbn [first_hit signals_at] in *; [now right|].
    destruct (get_signal_at en b k) as [s|]; [|discriminate].
    destruct (signals_at en r k) as [l|] eqn:Er; [|discriminate].
    destruct (sv_check sv sc asserts [s]) as [m| | |e] eqn:Ec.
    - left. now exists m.
    - unfold after_unsat. rewrite Hnf. apply (IH k (S i) l Er).
    - now apply Hnu in Ec.
    - now apply Hne in Ec.
  Qed.

  Lemma joint_hit_cases sc asserts bads k bs : signals_at en bads k = Some bs -> bs <> [] ->
    (exists m, joint_hit EM sv en sc asserts bads k = HSat EM m) \/ joint_hit EM sv en sc asserts bads k = HNone EM.
  Proof.
    destruct Htotal as (Hnu & Hne & _ & Hnf). intros H Hnil. unfold joint_hit. rewrite H.
    destruct bs as [|b0 r0]; [now contradiction Hnil|]. cbn [or_all].
    destruct (sv_check sv sc asserts [fold_left (fun a x => BVOr a x 1) r0 b0]) as [m| | |e] eqn:Ec.
    - left. now exists m.
    - unfold after_unsat. rewrite Hnf. now right.
    - now apply Hnu in Ec.
    - now apply Hne in Ec.
  Qed.

  Lemma signals_at_syms_total k : forall es, (forall x, In x es -> In x (sys_symbols sy)) ->
    exists l, signals_at en es k = Some l.
  Proof.
    induction es as [|x r IH]; intros Hes; cbn [signals_at]; [now exists []|].
    destruct (sys_symbol_sig sy nm Hwf x k (Hes x (or_introl eq_refl))) as (s & Hs). fold en in Hs.
    unfold get_signal_at. rewrite Hs. destruct IH as (l & ->); [intros; apply Hes; now right|]. now exists (s :: l).
  Qed.

  Lemma inputs_at_total : forall ks, exists ins, inputs_at en ks = Some ins.
  Proof.
    induction ks as [|k r (ins & IH)]; cbn [inputs_at]; [now exists []|].
    destruct (signals_at_syms_total k (s_inputs sy) (inputs_in sy)) as (a & Ha).
    change (s_inputs (e_sys en)) with (s_inputs sy). rewrite Ha, IH. now exists (a :: ins).
  Qed.

  Lemma failed_of_total sigma k : forall bads bs i, signals_at en bads k = Some bs -> (forall b, In b bads -> In b (s_bads sy)) ->
    exists l, failed_of (val_of sigma) bs i = Some l.
  Proof.
    induction bads as [|b r IH]; intros bs i H Hin; cbn [signals_at] in H.
    - inversion H; subst. now exists [].
    - destruct (get_signal_at en b k) as [s|] eqn:Eg; [|discriminate].
      destruct (signals_at en r k) as [l|] eqn:Er; [|discriminate]. inversion H; subst.
      cbn [failed_of]. unfold val_of at 1. rewrite (bad_signal_type sy nm Hwf b k s (Hin b (or_introl eq_refl)) Eg).
      destruct (IH l (i + 1) eq_refl) as (fl & ->); [intros; apply Hin; now right|]. eexists. reflexivity.
  Qed.

  Lemma get_witness_f_total sc m k bs : signals_at en (s_bads sy) k = Some bs ->
    exists w, get_witness_f EM en (sv_value sv sc m) k = WOk w.
  Proof.
    intros Hbs. destruct Hsound as [_ Hs2]. destruct Htotal as (_ & _ & Hnv & _).
    assert (Hext : forall s, sv_value sv sc m s = GVal (val_of (script_eval m sc) s)).
    { intros s. destruct (sv_value sv sc m s) as [x|e] eqn:E; [now rewrite (Hs2 _ _ _ _ E)|now apply Hnv in E]. }
    rewrite (get_witness_f_ext EM en _ _ Hext k), (get_witness_lift EM (val_of (script_eval m sc)) en k).
    unfold get_witness, witness_queries. change (e_sys en) with sy. rewrite Hbs.
    destruct (signals_at_syms_total 0 (state_syms sy) (state_syms_in sy)) as (ss & ->).
    destruct (inputs_at_total (range (k + 1))) as (ins & ->).
    destruct (failed_of_total (script_eval m sc) k (s_bads sy) bs 0 Hbs (fun b H => H)) as (fl & ->).
    eexists. reflexivity.
  Qed.

  (** *** the loop *)
  Definition loop_spec (cc : bool) (i fuel : nat) (res : bmc_result_f EM) : Prop :=
    (exists j w, res = FFail (N.of_nat j) w /\ (i <= j <= i + fuel)%nat /\ reach_at sy j /\
                 forall m, (i <= m < j)%nat -> ~ reach_at sy m) \/
    (res = FSuccess /\ forall m, (i <= m <= i + fuel)%nat -> ~ reach_at sy m /\ (cc = true -> exec_at sy m)) \/
    (cc = true /\ res = FPanic /\ exists j, (i <= j <= i + fuel)%nat /\ ~ exec_at sy j /\
                                  forall m, (i <= m < j)%nat -> ~ reach_at sy m).

  Lemma loop_f_spec cc individually : forall fuel i asserts, (i + fuel <= K)%nat -> asserts_upto sy nm asserts i ->
    loop_spec cc i fuel (bmc_loop_f EM Fixed sv en cc individually (scr i) asserts (N.of_nat i) fuel).
  Proof.
    induction fuel as [|fuel IH]; intros i asserts HK Hinv; cbn [bmc_loop_f]; change (e_sys en) with sy.
    all: destruct (Hsig i ltac:(lia)) as [Hc0 Hb0];
      destruct (signals_at en (s_constraints sy) (N.of_nat i)) as [cs|] eqn:Ec; [|now contradiction Hc0];
      destruct (signals_at en (s_bads sy) (N.of_nat i)) as [bs|] eqn:Eb; [|now contradiction Hb0];
      rewrite (assert_cons_nofault _ _ 0%nat asserts cs Ec);
      pose proof (asserts_step sy nm asserts i cs Hinv Ec) as Hinv';
      assert (Hbsne : bs <> [])
        by (destruct bs; [destruct (s_bads sy); [now contradiction Hbads|cbn [signals_at] in Eb;
              destruct (get_signal_at en e (N.of_nat i)); [destruct (signals_at en l (N.of_nat i))|]; discriminate]|discriminate]);
      assert (Hcov : forall c j, In c (s_constraints sy) -> (j <= i)%nat ->
                       exists a, In a (asserts ++ cs) /\ get_signal_at en c (N.of_nat j) = Some a)
        by (intros c j Hc Hj; apply (proj2 Hinv'); [assumption|lia]);
      assert (Hfrom : forall a, In a (asserts ++ cs) -> exists c m, In c (s_constraints sy) /\ (m <= i)%nat /\
                                                                 get_signal_at en c (N.of_nat m) = Some a)
        by (intros a Ha; destruct (proj1 Hinv' a Ha) as (c & m & Hc & Hm & Hg); exists c, m; split; [assumption|]; split; [lia|assumption]).
    all: assert (Hcc : (exists r, constraint_check EM sv cc (scr i) (asserts ++ cs) = Some r /\ cc = true /\ r = FPanic /\ ~ exec_at sy i) \/
                       (constraint_check EM sv cc (scr i) (asserts ++ cs) = None /\ (cc = true -> exec_at sy i))).
    1,3: (unfold constraint_check; destruct cc; [|right; split; [reflexivity|discriminate]];
          destruct (sv_check sv (scr i) (asserts ++ cs) []) as [m| | |e] eqn:Ecc;
          [right; split; [reflexivity|]; intros _; destruct (proj1 Hsound _ _ _ _ Ecc) as (Hw0 & Hass & _);
           now apply (model_is_exec i m (asserts ++ cs))
          |left; exists FPanic; repeat split; try reflexivity;
           intros (trace & (rho0 & frees & -> & Hinit & Hwfr & Hcons) & Hlen); rewrite (run_len sy) in Hlen;
           apply (Hunsat _ _ _ Ecc); apply (exec_has_model i rho0 frees (asserts ++ cs)); try assumption; lia
          |exfalso; now apply (proj1 Htotal) in Ecc
          |exfalso; now apply (proj1 (proj2 Htotal)) in Ecc]).
    all: destruct Hcc as [(r & -> & Hcct & -> & Hnex)|[-> Hex]];
      [right; right; split; [assumption|]; split; [reflexivity|]; exists i; split; [lia|]; split; [assumption|]; intros; lia|].
    all: assert (Hhit : (exists m, (if individually then first_hit EM sv en (scr i) (asserts ++ cs) (s_bads sy) (N.of_nat i) 0
                                    else joint_hit EM sv en (scr i) (asserts ++ cs) (s_bads sy) (N.of_nat i)) = HSat EM m) \/
                        (if individually then first_hit EM sv en (scr i) (asserts ++ cs) (s_bads sy) (N.of_nat i) 0
                         else joint_hit EM sv en (scr i) (asserts ++ cs) (s_bads sy) (N.of_nat i)) = HNone EM)
        by (destruct individually; [now apply (first_hit_cases _ _ _ _ _ bs)|now apply (joint_hit_cases _ _ _ _ bs)]).
    all: destruct Hhit as [(m & Hh)|Hh].
    all: try (pose proof (hit_reach_f EM sv Hsound sy nm Hwf Hni Hn scr Hsub Horig Hck individually i (asserts ++ cs) m Hinv' Hh) as Hreach;
              rewrite Hh; destruct (get_witness_f_total (scr i) m (N.of_nat i) bs Eb) as (w & ->);
              left; exists i, w; split; [reflexivity|]; split; [lia|]; split; [assumption|]; intros; lia).
    all: pose proof (none_no_reach EM sv Hunsat sy nm Hwf Hn scr Hck Hfaithful individually i (asserts ++ cs) Hinv' Hh) as Hnr;
      rewrite Hh; rewrite (proj2 (proj2 (proj2 Htotal))).
    - right; left. split; [reflexivity|]. intros m Hm. assert (m = i) by lia. subst m. split; assumption.
    - rewrite <- Hscr_S. replace (N.of_nat i + 1) with (N.of_nat (S i)) by lia.
      destruct (IH (S i) (asserts ++ cs) ltac:(lia) Hinv') as [(j & w & -> & Hj & Hr & Hmin)|[(-> & Hall)|(Hcct & -> & j & Hj & Hne & Hmin)]].
      + left. exists j, w. split; [reflexivity|]. split; [lia|]. split; [assumption|].
        intros m Hm. destruct (Nat.eq_dec m i) as [->|Hd]; [assumption|apply Hmin; lia].
      + right; left. split; [reflexivity|]. intros m Hm. destruct (Nat.eq_dec m i) as [->|Hd]; [split; assumption|apply Hall; lia].
      + right; right. split; [assumption|]. split; [reflexivity|]. exists j. split; [lia|]. split; [assumption|].
        intros m Hm. destruct (Nat.eq_dec m i) as [->|Hd]; [assumption|apply Hmin; lia].
  Qed.
End ExactFull.

(** ** [bmc_model_full] (the encoding of /repo: [init_at3], then [unroll Fixed]) *)
Section FullExactFinal.
  Variable EM : Type.
  Variable sv : solver EM.
  Hypothesis Hsound : solver_sound sv.
  Hypothesis Hunsat : solver_unsat_right sv.
  Hypothesis Htotal : solver_total sv.
  Variables (sy : sys) (nm : expr -> string).
  Hypothesis Hwf : sys_wf sy = true.
  Hypothesis Hni : nodup_exprs (s_inputs sy) = true.
  Hypothesis Hn : names_ok (enc_new sy nm) = true.
  Hypothesis Hac : init_deps_acyclic sy.
  Hypothesis Hbads : s_bads sy <> [].
  Variable k_max : nat.
  Hypothesis Hk : (k_max <= 2000)%nat.
  Hypothesis Hsig : forall k, (k <= k_max)%nat ->
    signals_at (enc_new sy nm) (s_constraints sy) (N.of_nat k) <> None /\
    signals_at (enc_new sy nm) (s_bads sy) (N.of_nat k) <> None.

  Lemma bmc_full_spec cc individually :
    loop_spec EM sy cc 0 k_max (bmc_model_full EM sv sy nm cc individually k_max).
  Proof.
    unfold bmc_model_full.
    assert (E : Nat.ltb 2000 k_max = false) by (apply PeanoNat.Nat.ltb_ge; exact Hk). rewrite E.
    destruct (s_bads sy) as [|b0 r0] eqn:Eb; [now contradiction Hbads|].
    rewrite !(proj2 (proj2 (proj2 Htotal))).
    set (en := enc_new sy nm) in *.
    pose proof (enc_new_basic sy nm Hwf) as Hb. pose proof (enc_new_order sy nm Hwf) as Ho. fold en in Hb, Ho.
    assert (Hperm : forall st, In st (init_order en) <-> In st (s_states (e_sys en))) by (apply (init_order_perm en Hb)).
    replace (init_at3 en) with (script3 en 0) by (unfold script3; cbn [unrolls]; apply app_nil_r).
    assert (Hb' : s_bads sy <> []) by (rewrite Eb; discriminate).
    rewrite <- Eb in Hsig.
    apply (loop_f_spec EM sv Hsound Hunsat Htotal sy nm Hwf Hni Hn (script3 en) (script3_S en)
              (fun n c Hc => fixed_in_script_ord en Ho n (init_order en) Hperm c Hc)
              (fun n c Hc => script_ord_origin en n (init_order en) Hperm c Hc)
              (fun n => script3_wf_sys sy nm n Hwf Hn Hac)
              (fun rho0 frees sigma0 Hinit => script3_faithful_sys sy nm rho0 frees sigma0 Hwf Hn Hinit)
              Hb' k_max Hsig cc individually k_max 0%nat [] (le_n _) (asserts_upto_nil sy nm)).
  Qed.

  Theorem bmc_full_exact cc individually :
    let res := bmc_model_full EM sv sy nm cc individually k_max in
    (forall j, (exists w, res = FFail (N.of_nat j) w) <->
               (j <= k_max)%nat /\ reach_at sy j /\ forall m, (m < j)%nat -> ~ reach_at sy m) /\
    (res = FSuccess <-> forall j, (j <= k_max)%nat -> ~ reach_at sy j /\ (cc = true -> exec_at sy j)) /\
    (res = FPanic <-> cc = true /\ exists j, (j <= k_max)%nat /\ ~ exec_at sy j /\ forall m, (m < j)%nat -> ~ reach_at sy m) /\
    (forall k w, res = FFail k w -> exists j, k = N.of_nat j) /\
    res <> FUnknown /\ (forall e, res <> FErr e).
  Proof.
    intros res. pose proof (bmc_full_spec cc individually) as S. fold res in S.
    destruct S as [(j0 & w0 & E & Hj0 & Hr0 & Hmin0)|[(E & Hall)|(Hcct & E & j0 & Hj0 & Hne0 & Hmin0)]]; rewrite E.
    - (* Fail at the least depth *)
      split; [|split; [|split; [|split; [|split]]]]; try discriminate.
      + intros j. split.
        * intros (w & H). inversion H as [[Hjj Hw]]. apply Nnat.Nat2N.inj in Hjj. subst j.
          split; [lia|]. split; [assumption|]. intros m Hm. apply Hmin0. lia.
        * intros (Hj & Hr & Hmin). destruct (Nat.lt_trichotomy j j0) as [Hlt|[->|Hgt]].
          -- exfalso. apply (Hmin0 j); [lia|assumption].
          -- now exists w0.
          -- exfalso. now apply (Hmin j0).
      + split; [discriminate|]. intros Hall. exfalso. apply (proj1 (Hall j0 ltac:(lia))). assumption.
      + split; [discriminate|]. intros (_ & j & Hj & Hne & Hmin). exfalso.
        destruct (Nat.lt_ge_cases j0 j) as [Hlt|Hge]; [now apply (Hmin j0)|].
        apply Hne. apply (exec_prefix sy j0 j); [now apply reach_exec|assumption].
      + intros k w H. inversion H; subst. now exists j0.
    - (* Success *)
      split; [|split; [|split; [|split; [|split]]]]; try discriminate.
      + intros j. split; [intros (w & H); discriminate|]. intros (Hj & Hr & _). exfalso. apply (proj1 (Hall j ltac:(lia))). assumption.
      + split; [|reflexivity]. intros _ j Hj. apply Hall. lia.
      + split; [discriminate|]. intros (Hc & j & Hj & Hne & _). exfalso. apply Hne. apply (proj2 (Hall j ltac:(lia))). assumption.
    - (* the assert_eq! of check_constraints *)
      split; [|split; [|split; [|split; [|split]]]]; try discriminate.
      + intros j. split; [intros (w & H); discriminate|]. intros (Hj & Hr & _). exfalso.
        destruct (Nat.lt_ge_cases j j0) as [Hlt|Hge]; [apply (Hmin0 j); [lia|assumption]|].
        apply Hne0. apply (exec_prefix sy j j0); [now apply reach_exec|assumption].
      + split; [discriminate|]. intros Hall. exfalso. apply Hne0. apply (proj2 (Hall j0 ltac:(lia))). assumption.
      + split; [|reflexivity]. intros _. split; [assumption|]. exists j0. split; [lia|]. split; [assumption|].
        intros m Hm. apply Hmin0. lia.
  Qed.

  (** Fail iff a bad state is reachable within the bound - for every parameter combination *)
  Corollary bmc_full_fail_iff_reachable cc individually :
    (exists k w, bmc_model_full EM sv sy nm cc individually k_max = FFail k w) <->
    (exists j, (j <= k_max)%nat /\ reach_at sy j).
  Proof.
    pose proof (bmc_full_spec cc individually) as S. split.
    - intros (k & w & H). destruct (bmc_full_exact cc individually) as (F & _ & _ & Hk' & _).
      destruct (Hk' k w H) as (j & ->). destruct (proj1 (F j) (ex_intro _ w H)) as (Hj & Hr & _). now exists j.
    - intros (j & Hj & Hr).
      destruct S as [(j0 & w0 & E & _)|[(E & Hall)|(Hcct & E & j0 & Hj0 & Hne0 & Hmin0)]].
      + now exists (N.of_nat j0), w0.
      + exfalso. apply (proj1 (Hall j ltac:(lia))). assumption.
      + exfalso. destruct (Nat.lt_ge_cases j j0) as [Hlt|Hge]; [apply (Hmin0 j); [lia|assumption]|].
        apply Hne0. apply (exec_prefix sy j j0); [now apply reach_exec|assumption].
  Qed.

  (** the verdict does not depend on the checking mode (the witnesses may differ) *)
  Theorem bmc_full_modes_agree cc :
    let r1 := bmc_model_full EM sv sy nm cc true k_max in
    let r2 := bmc_model_full EM sv sy nm cc false k_max in
    (forall j, (exists w, r1 = FFail (N.of_nat j) w) <-> (exists w, r2 = FFail (N.of_nat j) w)) /\
    (r1 = FSuccess <-> r2 = FSuccess) /\ (r1 = FPanic <-> r2 = FPanic).
  Proof.
    intros r1 r2. destruct (bmc_full_exact cc true) as (F1 & S1 & P1 & _). destruct (bmc_full_exact cc false) as (F2 & S2 & P2 & _).
    fold r1 in F1, S1, P1. fold r2 in F2, S2, P2.
    split; [intros j; destruct (F1 j), (F2 j); split; auto|]. destruct S1, S2, P1, P2. split; split; auto.
  Qed.

  (** a counterexample is reported at the same depth with and without [check_constraints] *)
  Theorem bmc_full_fail_independent_of_cc individually j :
    (exists w, bmc_model_full EM sv sy nm true individually k_max = FFail (N.of_nat j) w) <->
    (exists w, bmc_model_full EM sv sy nm false individually k_max = FFail (N.of_nat j) w).
  Proof.
    destruct (bmc_full_exact true individually) as (F1 & _). destruct (bmc_full_exact false individually) as (F2 & _).
    destruct (F1 j), (F2 j). split; auto.
  Qed.

  (** exactly when the panic occurs *)
  Theorem bmc_full_panic_iff cc individually :
    bmc_model_full EM sv sy nm cc individually k_max = FPanic <->
    cc = true /\ exists j, (j <= k_max)%nat /\ ~ exec_at sy j /\ forall m, (m < j)%nat -> ~ reach_at sy m.
  Proof. exact (proj1 (proj2 (proj2 (bmc_full_exact cc individually)))). Qed.
End FullExactFinal.
