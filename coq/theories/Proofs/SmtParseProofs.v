(** * Proofs/SmtParseProofs.v — C14: the reader's stack machine on token sequences that come
    from S-expressions ([machine_sx]), and what it builds for the writer's atoms. *)
From Coq Require Import Lia.
From Patronus Require Import SmtParse BVLemmas ExprLemmas EvalProofs SmtCharLemmas SmtSerLemmas SmtSemLemmas SmtSerProofs SmtParseLemmas.
Open Scope string_scope.
Open Scope list_scope.
Open Scope N_scope.

Section CV.
Variable cv : variant.
Local Notation is_simple_id := (SmtSer.is_simple_id cv) (only parsing).
Local Notation escape_id := (SmtSer.escape_id cv) (only parsing).
Local Notation ser := (SmtSer.ser cv) (only parsing).
Local Notation ser_cmd := (SmtSer.ser_cmd cv) (only parsing).
Local Notation name_ok := (SmtSer.name_ok cv) (only parsing).
Local Notation declared := (SmtSer.declared cv) (only parsing).
Local Notation symbols_declared := (SmtSer.symbols_declared cv) (only parsing).
Local Notation lx_go := (SmtLex.lx_go cv) (only parsing).
Local Notation lex_impl := (SmtLex.lex_impl cv) (only parsing).
Local Notation early_other := (SmtParse.early_other cv) (only parsing).
Local Notation early_parse := (SmtParse.early_parse cv) (only parsing).
Local Notation step := (SmtParse.step cv) (only parsing).
Local Notation run := (SmtParse.run cv) (only parsing).
Local Notation parse_eot := (SmtParse.parse_eot cv) (only parsing).
Local Notation parse_expr_internal := (SmtParse.parse_expr_internal cv) (only parsing).
Local Notation parse_type := (SmtParse.parse_type cv) (only parsing).
Local Notation parse_expr_toks := (SmtParse.parse_expr_toks cv) (only parsing).
Local Notation parse_expr_str := (SmtParse.parse_expr_str cv) (only parsing).
Local Notation skip_expr := (SmtParse.skip_expr cv) (only parsing).
Local Notation parse_get_value_response_toks := (SmtParse.parse_get_value_response_toks cv) (only parsing).
Local Notation parse_get_value_response_str := (SmtParse.parse_get_value_response_str cv) (only parsing).
Local Notation parse_expr_list_go := (SmtParse.parse_expr_list_go cv) (only parsing).
Local Notation parse_expr_list_rest := (SmtParse.parse_expr_list_rest cv) (only parsing).
Local Notation parse_unsat_assumptions_toks := (SmtParse.parse_unsat_assumptions_toks cv) (only parsing).
Local Notation parse_unsat_assumptions_str := (SmtParse.parse_unsat_assumptions_str cv) (only parsing).
Local Notation parse_command_body := (SmtParse.parse_command_body cv) (only parsing).
Local Notation parse_command_toks := (SmtParse.parse_command_toks cv) (only parsing).
Local Notation parse_command_str := (SmtParse.parse_command_str cv) (only parsing).
Local Notation count_parens := (SmtParse.count_parens cv) (only parsing).
Local Notation rc_balance := (SmtParse.rc_balance cv) (only parsing).
Local Notation read_command := (SmtParse.read_command cv) (only parsing).
Local Notation is_simple_id_loop := (SmtSerLemmas.is_simple_id_loop cv) (only parsing).
Local Notation is_simple_id_chars := (SmtSerLemmas.is_simple_id_chars cv) (only parsing).
Local Notation is_simple_id_first := (SmtSerLemmas.is_simple_id_first cv) (only parsing).
Local Notation escape_sound_gen := (SmtSerLemmas.escape_sound_gen cv) (only parsing).
Local Notation escape_sound_lemma := (SmtSerLemmas.escape_sound_lemma cv) (only parsing).
Local Notation good := (SmtSerProofs.good cv) (only parsing).
Local Notation symbols_declared_app := (SmtSerProofs.symbols_declared_app cv) (only parsing).
Local Notation name_ok_facts := (SmtSerProofs.name_ok_facts cv) (only parsing).
Local Notation symbol_good := (SmtSerProofs.symbol_good cv) (only parsing).
Local Notation ser_core := (SmtSerProofs.ser_core cv) (only parsing).
Local Notation ser_eq := (SmtSerProofs.ser_eq cv) (only parsing).
Local Notation core_good := (SmtSerProofs.core_good cv) (only parsing).
Local Notation wrap_good_e := (SmtSerProofs.wrap_good_e cv) (only parsing).
Local Notation ser_good := (SmtSerProofs.ser_good cv) (only parsing).
Local Notation ser_sorted_sound_lemma := (SmtSerProofs.ser_sorted_sound_lemma cv) (only parsing).
Local Notation name_ok_intro := (SmtSerProofs.name_ok_intro cv) (only parsing).
Local Notation noop_slice_latent := (SmtSerProofs.noop_slice_latent cv) (only parsing).
Local Notation checked_pattern := (SmtParse.checked_pattern cv) (only parsing).

(** the check of patches/0016 changes nothing where a pattern is accepted *)
Lemma checked_ok st p r : parse_pattern st p = POk r -> checked_pattern st p = POk r.
Proof. intros H. unfold SmtParse.checked_pattern. destruct cv; rewrite H; reflexivity. Qed.



(** ** the machine on token sequences that come from S-expressions *)

Definition toks_of_sx (t : sx) : list ltok := map ltok_of (flatten t).

Definition good_stack (stk : list pitem) : Prop :=
  match stk with
  | ILet _ :: _ | ILetScopeOpenMissingClose :: _ => False
  | _ => True
  end.

(** items that are values of sub-terms: never a parenthesis marker or a let marker *)
Definition plain_item (it : pitem) : bool :=
  match it with
  | IOpen _ | ILet _ | ILetScopeOpenMissingClose => false
  | _ => true
  end.

(** what the machine does after pushing [it] *)
Definition cont (stk : list pitem) (it : pitem) (st : nst) (rest : list ltok) : pres (eot * nst * list ltok) :=
  match machine_done (it :: stk) with
  | Some r => POk (r, st, rest)
  | None => run rest (it :: stk) st false
  end.

Definition runs_to (st : nst) (ts : list ltok) (it : pitem) : Prop :=
  forall stk rest, good_stack stk -> run (ts ++ rest) stk st false = cont stk it st rest.

Lemma run_cons tok rest stk st it :
  step tok stk st false = POk (it :: stk, st, false) ->
  run (tok :: rest) stk st false = cont stk it st rest.
Proof. intros H. cbn [SmtParse.run]. rewrite H. reflexivity. Qed.

Lemma cont_nonempty stk it st rest x : cont (x :: stk) it st rest = run rest (it :: x :: stk) st false.
Proof. unfold cont. cbn [machine_done]. destruct it; reflexivity. Qed.

Lemma plain_good it stk : plain_item it = true -> good_stack (it :: stk).
Proof. destruct it; cbn; intros H; try discriminate; exact I. Qed.

(** the items of a parenthesised group, pushed one after the other *)
Lemma run_items st (items : list (list ltok * pitem)) :
  Forall (fun p => runs_to st (fst p) (snd p) /\ plain_item (snd p) = true) items ->
  forall base rest, base <> [] -> good_stack base ->
    run (concat (map fst items) ++ rest) base st false =
    run rest (rev (map snd items) ++ base) st false.
Proof.
  induction 1 as [| [ts it] items [Hr Hp] _ IH]; intros base rest Hb Hg; [reflexivity|].
  cbn [fst snd] in Hr, Hp. cbn [map concat fst snd rev]. rewrite <- !app_assoc.
  rewrite (Hr base _ Hg).
  destruct base as [|x base]; [congruence|]. rewrite cont_nonempty.
  rewrite (IH (it :: x :: base) rest); [| discriminate | now apply plain_good].
  reflexivity.
Qed.

Lemma split_at_open_items items acc b below :
  forallb plain_item items = true ->
  split_at_open (rev items ++ IOpen b :: below) acc = Some (items ++ acc, b, below).
Proof.
  revert acc. induction items as [|it items IH] using rev_ind; intros acc Hp.
  - reflexivity.
  - rewrite forallb_app in Hp. apply andb_true_iff in Hp. destruct Hp as [Hi Hl].
    cbn [forallb] in Hl. rewrite andb_true_r in Hl.
    rewrite rev_app_distr. cbn [rev app split_at_open].
    destruct it; try discriminate Hl; rewrite (IH _ Hi), <- app_assoc; reflexivity.
Qed.

(** one parenthesised group *)
Lemma run_group st (items : list (list ltok * pitem)) r :
  items <> [] ->
  Forall (fun p => runs_to st (fst p) (snd p) /\ plain_item (snd p) = true) items ->
  parse_pattern st (map snd items) = POk (r, st) ->
  runs_to st (TkOpen :: concat (map fst items) ++ [TkClose]) r.
Proof.
  intros Hne Hall Hpat stk rest Hg.
  cbn [app SmtParse.run]. 
  assert (Hs : step TkOpen stk st false = POk (IOpen false :: stk, st, false)).
  { cbn [SmtParse.step]. destruct stk as [|[] ?]; try reflexivity; destruct Hg. }
  rewrite Hs. cbn [machine_done]. rewrite <- app_assoc.
  rewrite (run_items st items Hall (IOpen false :: stk) _); [| discriminate | exact I].
  cbn [app SmtParse.run].
  assert (Hp : forallb plain_item (map snd items) = true).
  { clear -Hall. induction Hall as [| p l [_ Hp] _ IH]; [reflexivity|]. cbn [map forallb]. now rewrite Hp, IH. }
  assert (Hstep : step TkClose (rev (map snd items) ++ IOpen false :: stk) st false = POk (r :: stk, st, false)).
  { cbn [SmtParse.step].
    destruct (rev (map snd items) ++ IOpen false :: stk) as [|top below] eqn:E.
    { destruct (rev (map snd items)); discriminate E. }
    assert (Htop : top <> ILetScopeOpenMissingClose).
    { intros ->. destruct (map snd items) as [|i0 l0] eqn:El using rev_ind.
      - destruct items; [congruence | discriminate El].
      - rewrite rev_app_distr in E. cbn in E. inversion E; subst.
        rewrite forallb_app in Hp. apply andb_true_iff in Hp. destruct Hp as [_ Hp]. discriminate Hp. }
    rewrite <- E. rewrite (split_at_open_items _ [] false stk Hp), app_nil_r, (checked_ok _ _ _ Hpat).
    destruct top; try congruence; reflexivity. }
  rewrite Hstep. reflexivity.
Qed.

Lemma pbind_ok {A B} (x : pres A) (f : A -> pres B) r : pbind x f = POk r -> exists a, x = POk a /\ f a = POk r.
Proof. destruct x; cbn; intros H; try discriminate; eauto. Qed.

Lemma bin_op_expr st args op k it : bin_op st args op k = POk it -> exists e, it = IExpr e.
Proof.
  unfold bin_op. destruct args as [|a [|b rest]]; try discriminate. destruct k.
  - destruct rest; try discriminate. intros H.
    apply pbind_ok in H. destruct H as (ea & _ & H). apply pbind_ok in H. destruct H as (eb & _ & H).
    apply pbind_ok in H. destruct H as (r & _ & H). inversion H. eauto.
  - intros H. apply pbind_ok in H. destruct H as (es & _ & H). destruct es; try discriminate.
    apply pbind_ok in H. destruct H as (r & _ & H). inversion H. eauto.
Qed.

Ltac ret_expr H :=
  apply pbind_ok in H; destruct H as (?i & ?Hi & H); inversion H; subst; clear H;
  repeat (match goal with
          | Hx : pbind _ _ = POk _ |- _ => apply pbind_ok in Hx; destruct Hx as (? & _ & Hx)
          end);
  match goal with Hx : POk _ = POk _ |- _ => inversion Hx; subst end; split; reflexivity.

Lemma parse_pattern_plain st p r st' :
  forallb plain_item p = true -> parse_pattern st p = POk (r, st') -> st' = st /\ plain_item r = true.
Proof.
  intros Hp H. unfold parse_pattern in H.
  destruct p as [|i1 p1]; [discriminate|].
  destruct i1; cbn [forallb plain_item andb] in Hp; try discriminate Hp.
  - (* IExpr *) destruct p1; [inversion H; subst; split; reflexivity | discriminate].
  - (* IType *) discriminate.
  - (* ISym *)
    destruct (String.eqb s "not" || String.eqb s "bvnot").
    { destruct p1 as [|e [|? ?]]; try discriminate. ret_expr H. }
    destruct (String.eqb s "bvneg").
    { destruct p1 as [|e [|? ?]]; try discriminate. ret_expr H. }
    destruct (assoc_str s binop_table) as [[op k]|].
    { apply pbind_ok in H. destruct H as (it & Hb & H). inversion H; subst.
      apply bin_op_expr in Hb. destruct Hb as [e ->]. split; reflexivity. }
    destruct (String.eqb s "select").
    { destruct p1 as [|[] [|[] [|? ?]]]; try discriminate. ret_expr H. }
    destruct (String.eqb s "ite").
    { destruct p1 as [|[] [|[] [|[] [|? ?]]]]; try discriminate. ret_expr H. }
    destruct (String.eqb s "store").
    { destruct p1 as [|[] [|[] [|[] [|? ?]]]]; try discriminate. ret_expr H. }
    destruct (String.eqb s "_").
    { destruct p1 as [|[] [|[] [|[] [|? ?]]]]; try discriminate.
      - destruct (String.eqb s0 "BitVec"); [ret_expr H|].
        destruct (String.eqb s0 "zero_extend"); [ret_expr H|].
        destruct (String.eqb s0 "sign_extend"); [ret_expr H|]. discriminate.
      - destruct (String.eqb s0 "extract"); [ret_expr H | discriminate]. }
    destruct (String.eqb s "Array").
    { destruct p1 as [|[] [|[] [|? ?]]]; try discriminate;
        repeat match goal with t : ty |- _ => destruct t; try discriminate end.
      inversion H; subst. split; reflexivity. }
    destruct (String.eqb s "as"); [|discriminate].
    destruct p1 as [|[] [|[] [|? ?]]]; try discriminate;
      repeat match goal with t : ty |- _ => destruct t; try discriminate end.
    match type of H with context [String.eqb ?c "const"] => destruct (String.eqb c "const") end; [|discriminate].
    inversion H; subst. split; reflexivity.
  - (* IAsConst *)
    destruct p1 as [|[] [|? ?]]; try discriminate.
    destruct (bvw e); [|discriminate]. destruct (n =? dw); [|discriminate]. ret_expr H.
  - destruct p1 as [|e [|? ?]]; try discriminate. ret_expr H.
  - destruct p1 as [|e [|? ?]]; try discriminate. ret_expr H.
  - destruct p1 as [|e [|? ?]]; try discriminate. ret_expr H.
Qed.

(** single tokens *)
Lemma runs_value st v it : early_parse (Some st) v = POk it -> runs_to st [TkValue v] it.
Proof.
  intros H stk rest Hg. cbn [app]. apply run_cons. cbn [SmtParse.step].
  assert (Hs : match stk with ILet 2 :: _ => None | _ => Some st end = Some st).
  { destruct stk as [|[] ?]; try reflexivity. destruct Hg. }
  rewrite Hs, H. reflexivity.
Qed.

Lemma runs_escaped st v e : lookup_sym st v = POk e -> runs_to st [TkEscaped v] (IExpr e).
Proof. intros H stk rest Hg. cbn [app]. apply run_cons. cbn [SmtParse.step]. rewrite H. reflexivity. Qed.

(** the item the machine computes for the tokens of an S-expression (no [let]) *)
Definition atom_item (st : nst) (a : string) : pres pitem :=
  match ltok_of_atom a with
  | TkValue v => early_parse (Some st) v
  | TkEscaped v => pbind (lookup_sym st v) (fun e => POk (IExpr e))
  | _ => PErr
  end.

Fixpoint sxi (st : nst) (t : sx) {struct t} : pres pitem :=
  match t with
  | SxAtom a => pbind (atom_item st a) (fun it => if plain_item it then POk it else PErr)
  | SxList l =>
      match l with
      | [] => PErr
      | _ =>
          pbind ((fix go (l : list sx) : pres (list pitem) :=
                    match l with
                    | [] => POk []
                    | x :: r => pbind (sxi st x) (fun i => pbind (go r) (fun items => POk (i :: items)))
                    end) l)
                (fun items => pbind (parse_pattern st items) (fun r => POk (fst r)))
      end
  end.

Fixpoint sxi_list (st : nst) (l : list sx) : pres (list pitem) :=
  match l with
  | [] => POk []
  | x :: r => pbind (sxi st x) (fun i => pbind (sxi_list st r) (fun items => POk (i :: items)))
  end.

Lemma sxi_list_eq st l :
  sxi st (SxList l) =
  match l with
  | [] => PErr
  | _ => pbind (sxi_list st l) (fun items => pbind (parse_pattern st items) (fun r => POk (fst r)))
  end.
Proof.
  destruct l as [|x r]; [reflexivity|]. cbn [sxi].
  assert (E : forall l, (fix go (l : list sx) : pres (list pitem) :=
                    match l with
                    | [] => POk []
                    | x :: r => pbind (sxi st x) (fun i => pbind (go r) (fun items => POk (i :: items)))
                    end) l = sxi_list st l).
  { induction l as [|y l IH]; [reflexivity|]. cbn [sxi_list]. now rewrite IH. }
  now rewrite E.
Qed.

Lemma toks_list l :
  toks_of_sx (SxList l) = TkOpen :: concat (map toks_of_sx l) ++ [TkClose].
Proof.
  unfold toks_of_sx. cbn [flatten map]. f_equal. rewrite map_app. cbn [map ltok_of]. f_equal.
  induction l as [|x l IH]; [reflexivity|]. cbn [flat_map map concat]. now rewrite map_app, IH.
Qed.

Theorem machine_sx st : forall t it, sxi st t = POk it -> runs_to st (toks_of_sx t) it /\ plain_item it = true.
Proof.
  fix IH 1. intros t it H. destruct t as [a | l].
  - cbn [sxi] in H. apply pbind_ok in H. destruct H as (i0 & Ha & H).
    destruct (plain_item i0) eqn:Ep; [|discriminate]. inversion H; subst. split; [|assumption].
    unfold toks_of_sx. cbn [flatten map ltok_of]. unfold atom_item in Ha.
    destruct (ltok_of_atom a); try discriminate.
    + now apply runs_value.
    + apply pbind_ok in Ha. destruct Ha as (e & He & Ha). inversion Ha; subst. now apply runs_escaped.
  - rewrite sxi_list_eq in H. destruct l as [|x0 l0] eqn:El; [discriminate|]. rewrite <- El in *.
    apply pbind_ok in H. destruct H as (items & Hl & H).
    apply pbind_ok in H. destruct H as ([r st'] & Hp & H). inversion H; subst it. clear H.
    (* every element runs to its item *)
    assert (Hall : forall l' items', sxi_list st l' = POk items' ->
              Forall (fun p => runs_to st (fst p) (snd p) /\ plain_item (snd p) = true) (combine (map toks_of_sx l') items')
              /\ map fst (combine (map toks_of_sx l') items') = map toks_of_sx l'
              /\ map snd (combine (map toks_of_sx l') items') = items').
    { induction l' as [|y l' IHl]; intros items' Hs.
      - inversion Hs; subst. repeat split; constructor.
      - cbn [sxi_list] in Hs. apply pbind_ok in Hs. destruct Hs as (i & Hi & Hs).
        apply pbind_ok in Hs. destruct Hs as (is' & His & Hs). inversion Hs; subst.
        destruct (IHl _ His) as (F & M1 & M2). cbn [map combine fst snd].
        repeat split; [constructor; [apply (IH y i Hi) | exact F] | now rewrite M1 | now rewrite M2]. }
    destruct (Hall l items Hl) as (F & M1 & M2).
    assert (Hplain : forallb plain_item items = true).
    { rewrite <- M2. clear -F. induction F as [| p q [_ Hp] _ IHF]; [reflexivity|]. cbn [map forallb]. now rewrite Hp, IHF. }
    destruct (parse_pattern_plain st items r st' Hplain Hp) as [-> Hr].
    split; [|exact Hr]. rewrite toks_list, <- M1.
    apply run_group; [| exact F | now rewrite M2].
    subst l. destruct items; [inversion Hl as [Hx]; apply pbind_ok in Hx; destruct Hx as (? & _ & Hx); apply pbind_ok in Hx; destruct Hx as (? & _ & Hx); discriminate Hx | discriminate].
Qed.

(** ** single tokens of the writer *)

Definition plain_value (v : string) : bool :=
  match v with
  | String h (String k r) =>
      negb (Ascii.eqb h "#"%char && Ascii.eqb k "b"%char && all_chars is_bin_digit r)
      && negb (Ascii.eqb h "#"%char && Ascii.eqb k "x"%char && all_chars is_hex_digit r)
      && negb (is_decimal v) && negb (String.eqb v "true") && negb (String.eqb v "false")
      && negb (String.eqb v "Bool") && negb (String.eqb v "let")
  | _ => true
  end.

Lemma early_plain st x : plain_value x = true -> early_parse (Some st) x = early_other (Some st) x.
Proof.
  unfold plain_value, SmtParse.early_parse. destruct x as [|h [|k r]]; intros H; try reflexivity.
  rewrite !andb_true_iff, !negb_true_iff in H. destruct H as ((((((H1 & H2) & H3) & H4) & H5) & H6) & H7).
  now rewrite H1, H2, H3, H4, H5, H6, H7.
Qed.

(** a token that is looked up: in the repaired reader every token that is not a numeral, [_] or [as] *)
Lemma early_other_lookup st x : (cv <> Cur -> kw_tok x = false) ->
  early_other (Some st) x = POk (match nst_get st x with Some e => IExpr e | None => ISym x end).
Proof.
  intros H. unfold SmtParse.early_other. destruct cv.
  - destruct (nst_get st x); reflexivity.
  - rewrite (H ltac:(discriminate)). cbn [negb]. destruct (nst_get st x); reflexivity.
  - rewrite (H ltac:(discriminate)). cbn [negb]. destruct (nst_get st x); reflexivity.
Qed.

Lemma early_other_kw st x : kw_tok x = true -> (cv = Cur -> nst_get st x = None) ->
  early_other (Some st) x = POk (ISym x).
Proof.
  intros Hd H. unfold SmtParse.early_other. destruct cv.
  - now rewrite (H eq_refl).
  - now rewrite Hd.
  - now rewrite Hd.
Qed.

Lemma is_decimal_go_digits s b : str_forall is_dec_digit s = true -> is_decimal_go s b false = false.
Proof.
  revert b. induction s as [|c r IH]; intros b H; cbn [is_decimal_go]; [reflexivity|].
  cbn [str_forall] in H. apply andb_true_iff in H. destruct H as [Hc Hr]. rewrite Hc. now apply IH.
Qed.

Lemma digit_not_hash c : is_dec_digit c = true -> Ascii.eqb c "#"%char = false.
Proof. all_ascii c; vm_compute; intros H; first [reflexivity | discriminate H]. Qed.

Lemma digit_first_neq s c r (lit : string) :
  s = String c r -> is_dec_digit c = true ->
  match lit with String l _ => is_dec_digit l = false | EmptyString => True end -> String.eqb s lit = false.
Proof.
  intros -> Hc Hl. destruct lit as [|l lr]; [reflexivity|]. cbn [String.eqb].
  destruct (Ascii.eqb_spec c l) as [-> | _]; [congruence | reflexivity].
Qed.

Lemma digits_plain s : all_digits s = true -> plain_value s = true.
Proof.
  intros H. destruct (all_digits_first s H) as (c & r & -> & Hc & Hr).
  unfold plain_value. destruct r as [|k r]; [reflexivity|].
  rewrite (digit_not_hash c Hc). cbn [andb negb].
  assert (Hd : is_decimal (String c (String k r)) = false).
  { unfold is_decimal. apply is_decimal_go_digits. cbn [str_forall]. cbn [str_forall] in Hr. now rewrite Hc, Hr. }
  rewrite Hd. cbn [negb andb].
  rewrite !(digit_first_neq _ c (String k r) _ eq_refl Hc); reflexivity.
Qed.

Lemma id_char_not_hash c : id_char_ok c = true -> Ascii.eqb c "#"%char = false.
Proof. all_ascii c; vm_compute; intros H; first [reflexivity | discriminate H]. Qed.
Lemma id_char_not_dot_digit c : id_char_ok c = true -> id_is_num c = false -> is_dec_digit c = false.
Proof. all_ascii c; vm_compute; intros H H'; first [reflexivity | discriminate H | discriminate H']. Qed.

Lemma simple_plain n : is_simple_id n = true -> name_ok n = true -> plain_value n = true.
Proof.
  intros Hs Hn. unfold plain_value. destruct n as [|h [|k r]]; try reflexivity.
  pose proof Hs as Hs0. destruct (is_simple_id_loop _ Hs) as [_ Hs']. clear Hs. rename Hs' into Hs. cbn [id_chars_ok] in Hs.
  destruct (id_char_ok h) eqn:Eh; cbn [negb] in Hs; [|discriminate].
  destruct (id_is_num h) eqn:En; cbn [andb] in Hs; [discriminate|].
  rewrite (id_char_not_hash h Eh). cbn [andb negb].
  assert (Hd : is_decimal (String h (String k r)) = false).
  { unfold is_decimal. cbn [is_decimal_go]. rewrite (id_char_not_dot_digit h Eh En).
    destruct (Ascii.eqb h "."); reflexivity. }
  rewrite Hd. cbn [negb andb].
  assert (X : forall lit, name_ok lit = false \/ is_simple_id lit = false -> String.eqb (String h (String k r)) lit = false).
  { intros lit Hl. destruct (String.eqb_spec (String h (String k r)) lit) as [<- | _]; [destruct Hl; congruence | reflexivity]. }
  rewrite !X; first [reflexivity | destruct cv; first [left; reflexivity | right; reflexivity]].
Qed.

(** the symbol tables under which the writer's output is read *)
Definition sym_of (n : string) (t : ty) : expr :=
  match t with TBV w => BVSymbol n w | TArr i d => ArraySymbol n i d end.

Definition table_for (top : symtab) (e : expr) : Prop :=
  (forall n t, In (n, t) (symbols e) -> name_ok n = true /\ assoc_str n top = Some (sym_of n t)) /\
  (forall n, name_ok n = false \/ (cv = Cur /\ kw_tok n = true) -> assoc_str n top = None).

Lemma nst_get_new top n : nst_get (nst_new top) n = assoc_str n top.
Proof. reflexivity. Qed.

(** the keys of a symbol table never hide the reader's keywords; in the current code they must not be numerals,
    [_] or [as] either *)
Definition keys_ok (st : nst) : Prop :=
  forall n, name_ok n = false \/ (cv = Cur /\ kw_tok n = true) -> nst_get st n = None.

Lemma theory_not_ok h : is_theory_name h = true -> name_ok h = false.
Proof.
  intros H. unfold SmtSer.name_ok. destruct (symbol_name (escape_id h)); [|reflexivity].
  rewrite H. cbn [orb negb]. now rewrite andb_false_r.
Qed.

(** tokens that the reader must see as keywords *)
Definition head_kw (h : string) : bool := is_theory_name h || kw_tok h.

Lemma atom_head st h : plain_value h = true -> head_kw h = true ->
  keys_ok st ->
  match h with String c _ => Ascii.eqb c c_bar = false | EmptyString => True end ->
  atom_item st h = POk (ISym h).
Proof.
  intros Hp Hk Ht Hb.
  assert (E : early_parse (Some st) h = POk (ISym h)).
  { rewrite early_plain by assumption. destruct (kw_tok h) eqn:Ed.
    - apply early_other_kw; [assumption|]. intros Hc. apply Ht. right. now split.
    - rewrite early_other_lookup by (intros _; exact Ed).
      unfold head_kw in Hk. rewrite Ed, orb_false_r in Hk. rewrite (Ht h (or_introl (theory_not_ok h Hk))). reflexivity. }
  unfold atom_item, ltok_of_atom. destruct h as [|c r]; [exact E|]. rewrite Hb. exact E.
Qed.

Lemma simple_not_kw n : is_simple_id n = true -> name_ok n = true -> (cv <> Cur -> kw_tok n = false).
Proof.
  intros Hs Hn Hcv. destruct (is_simple_id_loop n Hs) as [Hne H]. destruct n as [|c r]; [congruence|].
  unfold kw_tok.
  assert (Hd : all_chars is_dec_digit (String c r) = false).
  { cbn [id_chars_ok] in H. destruct (id_char_ok c); cbn [negb] in H; [|discriminate].
    destruct (id_is_num c) eqn:En; cbn [andb] in H; [discriminate|].
    unfold all_chars. cbn [str_forall]. rewrite id_num_digit in En. unfold is_dec_digit. unfold is_digit, cn in En. now rewrite En. }
  rewrite Hd. cbn [orb].
  (* in the repaired writer a simple identifier is not a reserved word *)
  pose proof (is_simple_id_fix_not_reserved cv _ Hcv Hs) as Hr.
  destruct (String.eqb_spec (String c r) "_") as [E | _]; [rewrite E in Hr; discriminate Hr|].
  destruct (String.eqb_spec (String c r) "as") as [E | _]; [rewrite E in Hr; discriminate Hr | reflexivity].
Qed.

Lemma atom_symbol st n e :
  name_ok n = true -> nst_get st n = Some e ->
  atom_item st (escape_id n) = POk (IExpr e).
Proof.
  intros Hn Ha. destruct (name_ok_facts n Hn) as (Hs & _). unfold SmtSer.escape_id in *.
  destruct (is_simple_id n) eqn:Es.
  - unfold atom_item, ltok_of_atom. destruct n as [|c r]; [discriminate|].
    rewrite (is_simple_id_first _ c r eq_refl Es).
    rewrite early_plain by (now apply simple_plain).
    rewrite early_other_lookup by (now apply simple_not_kw). now rewrite Ha.
  - unfold atom_item. change (String.append "|" (String.append n "|")) with (String c_bar (String.append n "|")) in *.
    unfold ltok_of_atom. change (Ascii.eqb c_bar c_bar) with true. cbv iota.
    unfold symbol_name in Hs. change (Ascii.eqb c_bar c_bar) with true in Hs. cbv iota in Hs. rewrite Hs.
    unfold lookup_sym. now rewrite Ha.
Qed.

End CV.
