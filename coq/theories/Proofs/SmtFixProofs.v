(** * Proofs/SmtFixProofs.v — C14, the repaired variant ([Fix] = the code with patches/0003..0013):
    where the reader can still panic.  The lexer never does; the token machine only inside a builder
    of [Context] (a debug assertion) when a closing parenthesis reduces a group, never at the end of
    the tokens, on a string literal, on a third parenthesis after [let]; [read_command] never waits
    at the end of the input and only panics if [parse_command] does. *)
From Coq Require Import Lia.
From Patronus Require Import SmtParse SmtParseLemmas SmtParseProofs SmtRoundTrip.
Open Scope string_scope.
Open Scope list_scope.
Open Scope N_scope.

(** ** the lexer *)

Lemma lx_search_clean c out : ~ In TkLexPanic out -> ~ In TkLexPanic (snd (lx_search c out)).
Proof.
  intros H. unfold lx_search.
  repeat match goal with |- context [if ?b then _ else _] => destruct b end; cbn [snd In]; intuition discriminate.
Qed.

Lemma lx_go_fix_clean : forall s st out, ~ In TkLexPanic out -> ~ In TkLexPanic (lx_go Fix st s out).
Proof.
  assert (R : forall tok out, tok <> TkLexPanic -> ~ In TkLexPanic out -> ~ In TkLexPanic (rev (tok :: out))).
  { intros tok out Ht Ho Hin. apply in_rev in Hin. destruct Hin as [E | Hin]; [now apply Ht | now apply Ho]. }
  assert (C : forall tok out, tok <> TkLexPanic -> ~ In TkLexPanic out -> ~ In TkLexPanic (tok :: out)).
  { intros tok out Ht Ho [E | Hin]; [now apply Ht | now apply Ho]. }
  induction s as [|c r IH]; intros st out Ho.
  - destruct st; cbn [lx_go]; try (apply R; [discriminate | exact Ho]).
    intros Hin. apply in_rev in Hin. now apply Ho.
  - destruct st; cbn [lx_go].
    + pose proof (lx_search_clean c out Ho) as H. destruct (lx_search c out) as [st' out']. now apply IH.
    + destruct (lx_token_end c); [|now apply IH].
      pose proof (lx_search_clean c _ (C (TkValue (srev acc)) out ltac:(discriminate) Ho)) as H.
      destruct (lx_search c (TkValue (srev acc) :: out)) as [st' out']. now apply IH.
    + destruct (Ascii.eqb c c_bar); apply IH; [apply C; [discriminate | exact Ho] | exact Ho].
    + destruct (Ascii.eqb c c_dquote); now apply IH.
    + destruct (Ascii.eqb c c_dquote); [now apply IH|].
      pose proof (lx_search_clean c _ (C (TkStringLit (srev acc)) out ltac:(discriminate) Ho)) as H.
      destruct (lx_search c (TkStringLit (srev acc) :: out)) as [st' out']. now apply IH.
    + destruct ((cn c =? 10) || (cn c =? 13)); [|now apply IH]. rewrite orb_true_r.
      pose proof (lx_search_clean c _ (C TkComment out ltac:(discriminate) Ho)) as H.
      destruct (lx_search c (TkComment :: out)) as [st' out']. now apply IH.
Qed.

(** the repaired lexer never panics (no input reaches the three panics of the current lexer) *)
Theorem lex_fix_no_panic s : ~ In TkLexPanic (lex_impl Fix s).
Proof. apply lx_go_fix_clean. intros []. Qed.

(** ** the token machine *)

(** a debug assertion of a builder of [Context] (or of the let-scope stack) fails while the group
    closed by a parenthesis is reduced *)
Definition builder_panic (stk : list pitem) (st : nst) : Prop :=
  exists pattern ls below,
    split_at_open stk [] = Some (pattern, ls, below) /\
    (parse_pattern st pattern = PPanic \/
     exists item st1, parse_pattern st pattern = POk (item, st1) /\ ls = true /\ nst_pop_let st1 = PPanic).

Lemma early_other_no_panic v st x : early_other v st x <> PPanic.
Proof.
  unfold early_other. destruct st as [st|]; [|discriminate].
  destruct (match v with Cur => true | Fix | Fix2 => negb (kw_tok x) end); [|discriminate].
  destruct (nst_get st x); discriminate.
Qed.

Lemma early_parse_no_panic v st x : early_parse v st x <> PPanic.
Proof.
  unfold early_parse. destruct x as [|h [|k r]]; try apply early_other_no_panic.
  repeat match goal with
         | |- (if ?b then _ else _) <> _ => destruct b
         | |- match ?o with Some _ => _ | None => _ end <> _ => destruct o as [[? ?]|]
         end; try discriminate; apply early_other_no_panic.
Qed.

(** one token: the repaired machine panics only on a closing parenthesis, inside a builder *)
Lemma step_fix_panic tok stk st o :
  step Fix tok stk st o = PPanic -> tok = TkLexPanic \/ (tok = TkClose /\ builder_panic stk st).
Proof.
  destruct tok as [ | | value | value | value | | | ]; cbn [step]; intros H; try discriminate H.
  - destruct o; [discriminate|]. destruct stk as [|[] ?]; try discriminate. match goal with H : (if ?b then _ else _) = _ |- _ => destruct b end; discriminate.
  - right. split; [reflexivity|].
    assert (G : match split_at_open stk [] with
                | Some (pattern, let_scope, below) =>
                    pbind (parse_pattern st pattern) (fun r => let (item, st1) := r in
                      pbind (if let_scope then nst_pop_let st1 else POk st1) (fun st2 => POk (item :: below, st2, o)))
                | None => POk (stk, st, true)
                end = PPanic).
    { destruct stk as [|[] ?]; try exact H. discriminate H. }
    clear H. unfold builder_panic.
    destruct (split_at_open stk []) as [[[pattern ls] below]|]; [|discriminate].
    exists pattern, ls, below. split; [reflexivity|].
    destruct (parse_pattern st pattern) as [[item st1] | |] eqn:Ep; [| discriminate | now left].
    right. exists item, st1. cbn [pbind] in G. destruct ls; [|discriminate].
    destruct (nst_pop_let st1); try discriminate. repeat split; reflexivity.
  - destruct o; [discriminate|]. destruct (early_parse Fix match stk with ILet 2 :: _ => None | _ => Some st end value) eqn:E; try discriminate.
    now apply early_parse_no_panic in E.
  - destruct o; [discriminate|]. unfold lookup_sym in H. destruct (nst_get st value); discriminate.
  - now left.
Qed.

(** the run: a panic is the panic of one step, in the state the machine has reached *)
Theorem run_panic_step v : forall toks stk st o,
  run v toks stk st o = PPanic ->
  (v = Cur /\ exists stk' st' o', run_state v toks stk st o = inr (stk', st', o')) \/
  exists pre tok post stk' st' o',
    toks = pre ++ tok :: post /\ run_state v pre stk st o = inr (stk', st', o') /\ step v tok stk' st' o' = PPanic.
Proof.
  induction toks as [|tok toks IH]; intros stk st o H.
  - left. cbn [run] in H. destruct v; [|discriminate|discriminate]. split; [reflexivity|]. now exists stk, st, o.
  - cbn [run] in H. destruct (step v tok stk st o) as [[[stk1 st1] o1] | |] eqn:Es; [| discriminate |].
    + destruct (machine_done stk1) eqn:Ed; [discriminate|].
      destruct (IH _ _ _ H) as [[Ev (stk' & st' & o' & Hr)] | (pre & t & post & stk' & st' & o' & Ht & Hr & Hs)].
      * left. split; [exact Ev|]. exists stk', st', o'. cbn [run_state]. now rewrite Es, Ed.
      * right. exists (tok :: pre), t, post, stk', st', o'. repeat split; [now rewrite Ht | | exact Hs].
        cbn [run_state]. now rewrite Es, Ed.
    + right. exists [], tok, toks, stk, st, o. repeat split. exact Es.
Qed.

(** the repaired machine on tokens of the repaired lexer: every panic is a builder assertion at a
    closing parenthesis *)
Theorem run_fix_panic toks stk st o :
  ~ In TkLexPanic toks -> run Fix toks stk st o = PPanic ->
  exists pre post stk' st' o',
    toks = pre ++ TkClose :: post /\ run_state Fix pre stk st o = inr (stk', st', o') /\ builder_panic stk' st'.
Proof.
  intros Hl H. destruct (run_panic_step Fix _ _ _ _ H) as [[E _] | (pre & t & post & stk' & st' & o' & Ht & Hr & Hs)]; [discriminate|].
  destruct (step_fix_panic _ _ _ _ Hs) as [-> | [-> Hb]].
  - exfalso. apply Hl. rewrite Ht. apply in_or_app. right. now left.
  - now exists pre, post, stk', st', o'.
Qed.

Lemma run_rest_suffix v : forall toks stk st o r st' rest,
  run v toks stk st o = POk (r, st', rest) -> exists pre, toks = pre ++ rest.
Proof.
  induction toks as [|tok toks IH]; intros stk st o r st' rest H; cbn [run] in H.
  - destruct v; discriminate.
  - destruct (step v tok stk st o) as [[[stk1 st1] o1] | |]; try discriminate.
    destruct (machine_done stk1).
    + inversion H; subst. now exists [tok].
    + destruct (IH _ _ _ _ _ _ H) as [pre Hp]. exists (tok :: pre). now rewrite Hp.
Qed.

Lemma next_no_comment_clean toks : ~ In TkLexPanic toks -> next_no_comment toks <> PPanic.
Proof.
  induction toks as [|t toks IH]; intros Hl; cbn [next_no_comment]; [discriminate|].
  destruct t; try discriminate.
  - apply IH. intros Hin. apply Hl. now right.
  - exfalso. apply Hl. now left.
Qed.

(** [parse_expr] of the repaired code on any text: the only panics left are builder assertions *)
Theorem parse_expr_fix_panic top s :
  parse_expr_str Fix top s = PPanic ->
  exists pre post stk st o,
    lex_impl Fix s = pre ++ TkClose :: post /\
    run_state Fix pre [] (nst_new top) false = inr (stk, st, o) /\ builder_panic stk st.
Proof.
  unfold parse_expr_str, parse_expr_toks, parse_expr_internal, parse_eot. intros H.
  pose proof (lex_fix_no_panic s) as Hl.
  destruct (run Fix (lex_impl Fix s) [] (nst_new top) false) as [[[r st'] rest] | |] eqn:Er.
  - exfalso. destruct (run_rest_suffix _ _ _ _ _ _ _ _ Er) as [pre Hp].
    assert (Hr : ~ In TkLexPanic rest). { intros Hin. apply Hl. rewrite Hp. apply in_or_app. now right. }
    cbn [pbind] in H. destruct r as [e | t]; cbn [pbind] in H; [|discriminate].
    pose proof (next_no_comment_clean rest Hr) as Hn. destruct (next_no_comment rest) as [[[t|] ?] | |]; try discriminate.
    now apply Hn.
  - discriminate.
  - exact (run_fix_panic _ _ _ _ Hl Er).
Qed.

(** ** [read_command] *)

Theorem read_command_fix_no_hang top lines : read_command Fix top lines <> RcHang.
Proof.
  unfold read_command. destruct (rc_skip lines) as [[l rest]|]; [|discriminate].
  destruct (rc_balance Fix l rest) as [[cmd rest']|]; [|discriminate].
  destruct (parse_command_str Fix top cmd); discriminate.
Qed.

Theorem read_command_fix_panic top lines :
  read_command Fix top lines = RcPanic -> exists cmd, parse_command_str Fix top cmd = PPanic.
Proof.
  unfold read_command. destruct (rc_skip lines) as [[l rest]|]; [|discriminate].
  destruct (rc_balance Fix l rest) as [[cmd rest']|]; [|discriminate].
  destruct (parse_command_str Fix top cmd) eqn:E; try discriminate. intros _. now exists cmd.
Qed.

(** the panic that is left, concretely: a misplaced parenthesis regroups the operands of the writer's
    own output and a width assertion of a builder fails (recorded finding, not patched) *)
Lemma builder_panic_witness :
  parse_expr_str Fix [] "(bvadd (concat #b01 #b1) #b01)" = PPanic /\
  parse_expr_str Cur [] "(bvadd (concat #b01 #b1) #b01)" = PPanic.
Proof. split; vm_compute; reflexivity. Qed.

(** ** the round trip of the repaired reader: numerals, [_] and [as] may be keys of the symbol table *)

Definition table_for_fix (v : variant) (top : symtab) (e : expr) : Prop :=
  (forall n t, In (n, t) (symbols e) -> name_ok v n = true /\ assoc_str n top = Some (sym_of n t)) /\
  (forall n, name_ok v n = false -> assoc_str n top = None).

Lemma table_for_fix_intro v top e : v <> Cur -> table_for_fix v top e -> table_for v top e.
Proof.
  intros Hv [H1 H2]. split; [exact H1|]. intros n [Hn | [E _]]; [now apply H2 | now elim Hv].
Qed.

Theorem parse_ser_fix :
  forall (v : variant) (top : symtab) (e : expr) (mb : bool),
    v <> Cur -> wt e = true -> built e = true -> idx32 e = true -> table_for_fix v top e ->
    parse_expr_toks v top (toks_of_sx (ser v e mb)) = POk (rt e mb) /\ equiv e (rt e mb).
Proof. intros v top e mb Hv Hwt Hbu Hix Ht. apply parse_ser_lemma; try assumption. now apply table_for_fix_intro. Qed.

(** every proper prefix of the writer's output is an error *)
Theorem truncated_is_error_repaired :
  forall (v : variant) (top : symtab) (e : expr) (mb : bool) (p q : list ltok),
    v <> Cur -> wt e = true -> built e = true -> idx32 e = true -> table_for v top e ->
    toks_of_sx (ser v e mb) = p ++ q -> q <> [] ->
    parse_expr_toks v top p = PErr.
Proof.
  intros v top e mb p q Hv Hwt Hbu Hix Ht Hpq Hq.
  rewrite (truncated_lemma v top e mb p q Hwt Hbu Hix Ht Hpq Hq). destruct v; [now elim Hv | reflexivity | reflexivity].
Qed.
