(** * Proofs/Btor2RtTail.v — the reader on a node line that carries extra trailing tokens.

    The writer with names ([Btor2SerNames]) prints an optional name token at the end of a node line.
    The reader looks at the first [count] tokens of a node line to build the node; a token after them
    only feeds the name bookkeeping ([finish_node]: [p_used], [p_symnames]).  Hence, for a line that is
    long enough for its operator ([tail_safe]):
      - every check of the repaired readers gives the same answer with and without the tail
        ([variant_pre_tail]);
      - the reader accepts the line with the tail iff it accepts it without, and the two new states
        agree on everything except the name bookkeeping ([parse_line_v_tail], [core_eq]). *)
From Coq Require Import List Lia Bool String Ascii NArith FMapPositive.
From Patronus Require Import Expr ExprLemmas ExprEqb SysClosed Btor2Parse Btor2Ser Btor2ExprFacts Btor2ParseProofs.
Import ListNotations.
Open Scope string_scope.
Open Scope list_scope.
Open Scope N_scope.

Lemma core_eq_sym a b : core_eq a b -> core_eq b a.
Proof. unfold core_eq. intuition congruence. Qed.

Lemma tokn_app toks tl j : (j < List.length toks)%nat -> tokn (toks ++ tl) j = tokn toks j.
Proof. intros H. unfold tokn. apply app_nth1. exact H. Qed.

Lemma require_len toks k : (k <= List.length toks)%nat -> require toks k = POk tt.
Proof. intros H. unfold require. destruct (Nat.ltb_spec (List.length toks) k); [lia|reflexivity]. Qed.

Lemma require_app toks tl k : (k <= List.length toks)%nat -> require (toks ++ tl) k = POk tt.
Proof. intros H. apply require_len. rewrite app_length. lia. Qed.

(** the number of tokens a unary operator line needs *)
Definition ucount (u : unop) : nat := match u with USlice => 6 | UUext | USext => 5 | _ => 4 end.

Lemma lower_unary_app dbg toks tl u e : (ucount u <= List.length toks)%nat ->
  lower_unary dbg (toks ++ tl) u e = lower_unary dbg toks u e.
Proof.
  intros H. destruct u; cbn [ucount] in H; unfold lower_unary; try reflexivity.
  - rewrite (require_app toks tl 6 H), (require_len toks 6 H), !tokn_app by lia. reflexivity.
  - rewrite (require_app toks tl 5 H), (require_len toks 5 H), !tokn_app by lia. reflexivity.
  - rewrite (require_app toks tl 5 H), (require_len toks 5 H), !tokn_app by lia. reflexivity.
Qed.

Lemma parse_unary_app dbg ps toks tl u : (ucount u <= List.length toks)%nat ->
  parse_unary dbg ps (toks ++ tl) u = parse_unary dbg ps toks u.
Proof.
  intros H. assert (H4 : (4 <= List.length toks)%nat) by (destruct u; cbn [ucount] in H; lia).
  unfold parse_unary. rewrite (require_app toks tl 4 H4), (require_len toks 4 H4), !tokn_app by lia.
  cbn [pbind]. destruct (get_tpe ps (tokn toks 2)); cbn [pbind]; try reflexivity.
  destruct (get_expr ps (tokn toks 3)); cbn [pbind]; try reflexivity.
  rewrite lower_unary_app by exact H. reflexivity.
Qed.

Lemma parse_binary_app dbg ps toks tl bo : (5 <= List.length toks)%nat ->
  parse_binary dbg ps (toks ++ tl) bo = parse_binary dbg ps toks bo.
Proof.
  intros H. unfold parse_binary. rewrite (require_app toks tl 5 H), (require_len toks 5 H), !tokn_app by lia. reflexivity.
Qed.

Lemma parse_ternary_app dbg ps toks tl b : (6 <= List.length toks)%nat ->
  parse_ternary dbg ps (toks ++ tl) b = parse_ternary dbg ps toks b.
Proof.
  intros H. unfold parse_ternary. rewrite (require_app toks tl 6 H), (require_len toks 6 H), !tokn_app by lia. reflexivity.
Qed.

Lemma parse_format_app4 ps toks tl op : (4 <= List.length toks)%nat ->
  parse_format ps (toks ++ tl) op = parse_format ps toks op.
Proof.
  intros H. unfold parse_format. rewrite !tokn_app by lia.
  assert (E1 : Nat.ltb (List.length (toks ++ tl)) 4 = false) by (apply Nat.ltb_ge; rewrite app_length; lia).
  assert (E2 : Nat.ltb (List.length toks) 4 = false) by (apply Nat.ltb_ge; lia).
  rewrite E1, E2. reflexivity.
Qed.

Lemma parse_format_app3 ps toks tl op : (3 <= List.length toks)%nat ->
  seq op "zero" || seq op "one" || seq op "ones" = true ->
  parse_format ps (toks ++ tl) op = parse_format ps toks op.
Proof.
  intros H Hop. unfold parse_format. rewrite !tokn_app by lia.
  destruct (get_bv_width ps (tokn toks 2)); cbn [pbind]; try reflexivity.
  destruct (seq op "zero"); [reflexivity|]. destruct (seq op "one"); [reflexivity|].
  destruct (seq op "ones"); [reflexivity|]. discriminate Hop.
Qed.

(** ** the name bookkeeping of a node line does not touch the core of the reader's state *)
Lemma finish_node_core1 ps toks id e c : core_eq (set_signal ps id e) (finish_node ps toks id (e, c)).
Proof.
  unfold finish_node. destruct (nth_error toks c) as [name|]; [|apply core_eq_refl].
  destruct (include_name name); [|apply core_eq_refl].
  unfold add_unique. eapply core_eq_trans; [|apply core_note_name]. apply core_set_used.
Qed.

Lemma finish_node_core ps toks toks' id r : core_eq (finish_node ps toks id r) (finish_node ps toks' id r).
Proof.
  destruct r as [e c]. eapply core_eq_trans; [apply core_eq_sym; apply finish_node_core1|apply finish_node_core1].
Qed.

(** ** lines that are long enough for their operator *)
Definition tail_safe (toks : list string) : bool :=
  match toks with
  | _ :: op :: _ =>
      match un_table op with
      | Some u => Nat.leb (ucount u) (List.length toks)
      | None =>
          match bin_table op with
          | Some _ => Nat.leb 5 (List.length toks)
          | None =>
              if seq op "ite" || seq op "write" then Nat.leb 6 (List.length toks)
              else if seq op "zero" || seq op "one" || seq op "ones" then Nat.leb 3 (List.length toks)
              else if seq op "const" || seq op "constd" || seq op "consth" then Nat.leb 4 (List.length toks)
              else false
          end
      end
  | _ => false
  end.

Lemma parse_line_unfold dbg st toks t0 op rest : toks = t0 :: op :: rest ->
  parse_line dbg st toks =
  match parse_line_id t0 with
  | None => PErr
  | Some (id, neg) =>
      if neg then PErr else
      match un_table op with
      | Some u => r <- parse_unary dbg st toks u ;; POk (finish_node st toks id r)
      | None =>
      match bin_table op with
      | Some bo => r <- parse_binary dbg st toks bo ;; POk (finish_node st toks id r)
      | None =>
          _ <- require toks 3 ;;
          if seq op "ite" then (r <- parse_ternary dbg st toks true ;; POk (finish_node st toks id r))
          else if seq op "write" then (r <- parse_ternary dbg st toks false ;; POk (finish_node st toks id r))
          else if seq op "sort" then parse_sort st toks id
          else if seq op "const" || seq op "constd" || seq op "consth" || seq op "zero" || seq op "one" || seq op "ones"
               then (r <- parse_format st toks op ;; POk (finish_node st toks id r))
          else if seq op "state" then parse_state st toks id
          else if seq op "input" then parse_input st toks id
          else if seq op "init" then parse_init_next st toks true
          else if seq op "next" then parse_init_next st toks false
          else if seq op "output" || seq op "bad" || seq op "constraint" || seq op "fair" then parse_prop st toks op
          else PErr
      end
      end
  end.
Proof. intros ->. reflexivity. Qed.

Lemma seq_true a b : seq a b = true -> a = b.
Proof. unfold seq. apply String.eqb_eq. Qed.

Ltac node_tail_fin Hr :=
  let r := fresh "r" in let Er := fresh "Er" in
  apply pbind_ok in Hr; destruct Hr as (r & Er & Hr); inversion Hr; subst; clear Hr;
  rewrite Er; cbn [pbind]; eexists; split; [reflexivity|apply finish_node_core].

Lemma parse_line_tail dbg ps toks tl ps1 :
  tail_safe toks = true -> parse_line dbg ps toks = POk ps1 ->
  exists ps2, parse_line dbg ps (toks ++ tl) = POk ps2 /\ core_eq ps1 ps2.
Proof.
  intros Hs H. destruct toks as [|t0 [|op rest]]; try discriminate.
  rewrite (parse_line_unfold dbg ps _ t0 op rest eq_refl) in H.
  rewrite (parse_line_unfold dbg ps ((t0 :: op :: rest) ++ tl) t0 op (rest ++ tl) eq_refl).
  cbn [tail_safe] in Hs.
  set (toks := t0 :: op :: rest) in *.
  destruct (parse_line_id t0) as [[id neg]|]; try discriminate. destruct neg; try discriminate.
  destruct (un_table op) as [u|] eqn:Eu.
  { apply Nat.leb_le in Hs. rewrite (parse_unary_app dbg ps toks tl u Hs). node_tail_fin H. }
  destruct (bin_table op) as [bo|] eqn:Eb.
  { apply Nat.leb_le in Hs. rewrite (parse_binary_app dbg ps toks tl bo Hs). node_tail_fin H. }
  destruct (seq op "ite" || seq op "write") eqn:E1.
  { apply Nat.leb_le in Hs. rewrite (require_app toks tl 3) by lia. rewrite (require_len toks 3) in H by lia. cbn [pbind] in *.
    rewrite !(parse_ternary_app dbg ps toks tl _ Hs).
    destruct (seq op "ite"); [node_tail_fin H|]. destruct (seq op "write"); [node_tail_fin H|discriminate E1]. }
  apply orb_false_iff in E1. destruct E1 as [E1 E1']. rewrite E1, E1' in *.
  destruct (seq op "zero" || seq op "one" || seq op "ones") eqn:E2.
  { apply Nat.leb_le in Hs. rewrite (require_app toks tl 3) by lia. rewrite (require_len toks 3) in H by lia. cbn [pbind] in *.
    assert (Es : seq op "sort" = false).
    { destruct (seq op "zero") eqn:Z; [apply seq_true in Z; subst op; reflexivity|].
      destruct (seq op "one") eqn:O; [apply seq_true in O; subst op; reflexivity|].
      destruct (seq op "ones") eqn:O2; [apply seq_true in O2; subst op; reflexivity|discriminate E2]. }
    rewrite Es in *.
    assert (Ec : seq op "const" || seq op "constd" || seq op "consth" || seq op "zero" || seq op "one" || seq op "ones" = true).
    { clear - E2. destruct (seq op "zero"), (seq op "one"), (seq op "ones"); try discriminate E2; rewrite ?orb_true_r; reflexivity. }
    rewrite Ec in *. rewrite (parse_format_app3 ps toks tl op Hs E2). node_tail_fin H. }
  destruct (seq op "const" || seq op "constd" || seq op "consth") eqn:E3; [|discriminate Hs].
  apply Nat.leb_le in Hs. rewrite (require_app toks tl 3) by lia. rewrite (require_len toks 3) in H by lia. cbn [pbind] in *.
  assert (Es : seq op "sort" = false).
  { destruct (seq op "const") eqn:Z; [apply seq_true in Z; subst op; reflexivity|].
    destruct (seq op "constd") eqn:O; [apply seq_true in O; subst op; reflexivity|].
    destruct (seq op "consth") eqn:O2; [apply seq_true in O2; subst op; reflexivity|discriminate E3]. }
  rewrite Es in *.
  cbn [orb] in H |- *. rewrite (parse_format_app4 ps toks tl op Hs). node_tail_fin H.
Qed.

(** ** the checks of the repaired readers *)
Lemma unary_pre_app u t toks tl : (ucount u <= List.length toks)%nat -> unary_pre u t (toks ++ tl) = unary_pre u t toks.
Proof.
  intros H. destruct t, u; cbn [ucount] in H; cbn [unary_pre]; rewrite ?tokn_app by lia; reflexivity.
Qed.

Lemma tail_safe_len toks : tail_safe toks = true -> (3 <= List.length toks)%nat.
Proof.
  destruct toks as [|t0 [|op rest]]; try discriminate. cbn [tail_safe].
  destruct (un_table op) as [u|]; [intros H; apply Nat.leb_le in H; destruct u; cbn [ucount] in H; lia|].
  destruct (bin_table op); [intros H; apply Nat.leb_le in H; lia|].
  destruct (seq op "ite" || seq op "write"); [intros H; apply Nat.leb_le in H; lia|].
  destruct (seq op "zero" || seq op "one" || seq op "ones"); [intros H; apply Nat.leb_le in H; lia|].
  destruct (seq op "const" || seq op "constd" || seq op "consth"); [intros H; apply Nat.leb_le in H; lia|discriminate].
Qed.

Lemma tail_safe_not op t0 rest s :
  tail_safe (t0 :: op :: rest) = true ->
  un_table s = None -> bin_table s = None ->
  (seq s "ite" || seq s "write") = false -> (seq s "zero" || seq s "one" || seq s "ones") = false ->
  (seq s "const" || seq s "constd" || seq s "consth") = false ->
  seq op s = false.
Proof.
  intros Hs H1 H2 H3 H4 H5. destruct (seq op s) eqn:E; [|reflexivity]. apply seq_true in E. subst op.
  cbn [tail_safe] in Hs. rewrite H1, H2, H3, H4, H5 in Hs. discriminate Hs.
Qed.

Lemma line_pre_tail ps toks tl : tail_safe toks = true -> line_pre ps (toks ++ tl) = line_pre ps toks.
Proof.
  intros Hs. pose proof (tail_safe_len toks Hs) as Hlen.
  destruct toks as [|t0 [|op rest]]; try discriminate.
  assert (Nsort : seq op "sort" = false) by (apply (tail_safe_not op t0 rest "sort" Hs); reflexivity).
  assert (Nstate : seq op "state" = false) by (apply (tail_safe_not op t0 rest "state" Hs); reflexivity).
  assert (Ninput : seq op "input" = false) by (apply (tail_safe_not op t0 rest "input" Hs); reflexivity).
  assert (Ninit : seq op "init" = false) by (apply (tail_safe_not op t0 rest "init" Hs); reflexivity).
  assert (Nnext : seq op "next" = false) by (apply (tail_safe_not op t0 rest "next" Hs); reflexivity).
  assert (Nout : seq op "output" = false) by (apply (tail_safe_not op t0 rest "output" Hs); reflexivity).
  assert (Nbad : seq op "bad" = false) by (apply (tail_safe_not op t0 rest "bad" Hs); reflexivity).
  assert (Ncon : seq op "constraint" = false) by (apply (tail_safe_not op t0 rest "constraint" Hs); reflexivity).
  cbn [tail_safe] in Hs.
  set (toks := t0 :: op :: rest) in *.
  unfold line_pre, opnd_ty. rewrite (tokn_app toks tl 1) by lia.
  assert (E1 : tokn toks 1 = op) by reflexivity. rewrite E1.
  destruct (un_table op) as [u|] eqn:Eu.
  { apply Nat.leb_le in Hs. assert (4 <= List.length toks)%nat by (destruct u; cbn [ucount] in Hs; lia).
    rewrite !(tokn_app toks tl 3) by lia.
    destruct (opnd ps (tokn toks 3)); cbn [option_map]; [rewrite (unary_pre_app u _ toks tl Hs)|]; reflexivity. }
  destruct (bin_table op) as [bo|] eqn:Eb.
  { apply Nat.leb_le in Hs. rewrite !(tokn_app toks tl 3), !(tokn_app toks tl 4) by lia. reflexivity. }
  destruct (seq op "ite" || seq op "write") eqn:E2.
  { apply Nat.leb_le in Hs. rewrite !(tokn_app toks tl 3), !(tokn_app toks tl 4), !(tokn_app toks tl 5) by lia.
    destruct (seq op "ite"); [reflexivity|]. destruct (seq op "write"); [reflexivity|discriminate E2]. }
  apply orb_false_iff in E2. destruct E2 as [E2 E2']. rewrite E2, E2', Nsort.
  destruct (seq op "zero" || seq op "one" || seq op "ones") eqn:E3.
  { apply Nat.leb_le in Hs. rewrite !(tokn_app toks tl 2) by lia.
    destruct (seq op "const" || seq op "constd" || seq op "consth") eqn:E4; [|reflexivity].
    exfalso. clear - E3 E4.
    destruct (seq op "zero") eqn:Z; [apply seq_true in Z; subst op; discriminate E4|].
    destruct (seq op "one") eqn:O; [apply seq_true in O; subst op; discriminate E4|].
    destruct (seq op "ones") eqn:O2; [apply seq_true in O2; subst op; discriminate E4|discriminate E3]. }
  destruct (seq op "const" || seq op "constd" || seq op "consth") eqn:E4; [|discriminate Hs].
  apply Nat.leb_le in Hs. rewrite !(tokn_app toks tl 2), !(tokn_app toks tl 3) by lia.
  assert (L1 : Nat.leb 4 (List.length (toks ++ tl)) = true) by (apply Nat.leb_le; rewrite app_length; lia).
  assert (L2 : Nat.leb 4 (List.length toks) = true) by (apply Nat.leb_le; lia).
  rewrite L1, L2. reflexivity.
Qed.

Lemma variant_pre_tail v ps toks tl : tail_safe toks = true -> variant_pre v ps (toks ++ tl) = variant_pre v ps toks.
Proof.
  intros Hs. pose proof (tail_safe_len toks Hs) as Hlen. pose proof (line_pre_tail ps toks tl Hs) as Hlp.
  destruct toks as [|t0 [|op rest]]; try discriminate.
  assert (Nsort : seq op "sort" = false) by (apply (tail_safe_not op t0 rest "sort" Hs); reflexivity).
  assert (Nbad : seq op "bad" = false) by (apply (tail_safe_not op t0 rest "bad" Hs); reflexivity).
  assert (Ncon : seq op "constraint" = false) by (apply (tail_safe_not op t0 rest "constraint" Hs); reflexivity).
  assert (H5 : seq op "uext" || seq op "sext" = true -> (5 <= List.length (t0 :: op :: rest))%nat).
  { intros E. cbn [tail_safe] in Hs.
    destruct (seq op "uext") eqn:U; [apply seq_true in U; subst op; cbn in Hs; destruct rest as [|? [|? [|? ?]]]; try discriminate Hs; cbn [List.length]; lia|].
    destruct (seq op "sext") eqn:S; [apply seq_true in S; subst op; cbn in Hs; destruct rest as [|? [|? [|? ?]]]; try discriminate Hs; cbn [List.length]; lia|discriminate E]. }
  set (toks := t0 :: op :: rest) in *.
  assert (E1 : tokn toks 1 = op) by reflexivity.
  assert (Hz : zero_sort_line (toks ++ tl) = zero_sort_line toks).
  { unfold zero_sort_line. rewrite (tokn_app toks tl 1) by lia. rewrite E1, Nsort. reflexivity. }
  assert (Hp : prop_bool ps (toks ++ tl) = prop_bool ps toks).
  { unfold prop_bool. rewrite (tokn_app toks tl 1) by lia. rewrite E1, Nbad, Ncon. reflexivity. }
  assert (He : ext_bv ps (toks ++ tl) = ext_bv ps toks).
  { unfold ext_bv. rewrite (tokn_app toks tl 1) by lia. rewrite E1.
    destruct (seq op "uext" || seq op "sext") eqn:E; [|reflexivity].
    specialize (H5 eq_refl).
    rewrite (tokn_app toks tl 3) by lia. reflexivity. }
  destruct v; cbn [variant_pre]; [reflexivity| |]; unfold line_fix_pre; rewrite Hlp, Hz, Hp, ?He; reflexivity.
Qed.

Lemma parse_line_v_tail v dbg ps toks tl ps1 :
  tail_safe toks = true -> parse_line_v v dbg ps toks = POk ps1 ->
  exists ps2, parse_line_v v dbg ps (toks ++ tl) = POk ps2 /\ core_eq ps1 ps2.
Proof.
  intros Hs H. unfold parse_line_v in *. rewrite (variant_pre_tail v ps toks tl Hs).
  destruct (variant_pre v ps toks); [|discriminate]. apply parse_line_tail; assumption.
Qed.
