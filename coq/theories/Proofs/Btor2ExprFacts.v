(** * Proofs/Btor2ExprFacts.v — facts about expressions used by the btor2 reader proofs:
    [wt] through [children], positivity of widths, introduction lemmas for the nodes the
    reader builds without a type check, preservation of typing under symbol renaming. *)
From Coq Require Import List Lia Bool.
From Patronus Require Import Expr ExprLemmas SysClosed Btor2Parse.
Import ListNotations.
Open Scope N_scope.

Lemma ty_eqb_eq a b : ty_eqb a b = true <-> a = b.
Proof.
  destruct a, b; cbn [ty_eqb]; try (split; [discriminate|intros H; inversion H]).
  - rewrite N.eqb_eq. split; [intros ->; auto | intros H; inversion H; auto].
  - rewrite andb_true_iff, !N.eqb_eq. split; [intros [-> ->]; auto | intros H; inversion H; auto].
Qed.

Lemma ty_eqb_refl a : ty_eqb a a = true.
Proof. apply ty_eqb_eq. reflexivity. Qed.

(** ** [wt] and [syms] through [children] *)
Lemma wt_children e : wt e = node_ok e && forallb wt (children e).
Proof. destruct e; cbn [wt children forallb]; rewrite ?andb_true_r; try reflexivity; rewrite ?andb_assoc; reflexivity. Qed.

Lemma syms_children e : is_symbol e = false -> syms e = flat_map syms (children e).
Proof. destruct e; cbn [is_symbol syms children flat_map]; intros H; try discriminate; rewrite ?app_nil_r; reflexivity. Qed.

Lemma wt_intro e :
  is_some (check1 e) = true -> leaf_ok e = true -> (forall c, In c (children e) -> wt c = true) -> wt e = true.
Proof.
  intros H1 H2 H3. rewrite wt_children. unfold node_ok. rewrite H1, H2. cbn [andb].
  apply forallb_forall. exact H3.
Qed.

Lemma wt_child e c : wt e = true -> In c (children e) -> wt c = true.
Proof.
  rewrite wt_children, andb_true_iff. intros [_ H] Hin. rewrite forallb_forall in H. auto.
Qed.

(** ** positivity of widths of well-typed expressions *)
Definition ty_pos (t : ty) : Prop :=
  match t with TBV w => 0 < w | TArr iw dw => 0 < iw /\ 0 < dw end.

Lemma wt_pos e : wt e = true -> ty_pos (type_of e).
Proof.
  induction e; intros H; cbn [type_of ty_pos].
  - eapply wt_sym; eauto.
  - eapply wt_lit; eauto.
  - apply wt_zext in H. lia.
  - apply wt_sext in H. lia.
  - apply wt_slice in H. destruct H as (_ & we & _ & ? & ?). lia.
  - apply wt_not in H. destruct H as [Ha Ht]. specialize (IHe Ha). rewrite Ht in IHe. exact IHe.
  - apply wt_neg in H. destruct H as [Ha Ht]. specialize (IHe Ha). rewrite Ht in IHe. exact IHe.
  - lia.
  - lia.
  - lia.
  - lia.
  - lia.
  - lia.
  - apply wt_concat in H. destruct H as (Ha & Hb & wa & wb & Hta & Htb & ->).
    specialize (IHe1 Ha). rewrite Hta in IHe1. cbn [ty_pos] in IHe1. lia.
  - apply wt_and in H. destruct H as (Ha & _ & Hta & _). specialize (IHe1 Ha). rewrite Hta in IHe1. exact IHe1.
  - apply wt_or in H. destruct H as (Ha & _ & Hta & _). specialize (IHe1 Ha). rewrite Hta in IHe1. exact IHe1.
  - apply wt_xor in H. destruct H as (Ha & _ & Hta & _). specialize (IHe1 Ha). rewrite Hta in IHe1. exact IHe1.
  - apply wt_shl in H. destruct H as (Ha & _ & Hta & _). specialize (IHe1 Ha). rewrite Hta in IHe1. exact IHe1.
  - apply wt_ashr in H. destruct H as (Ha & _ & Hta & _). specialize (IHe1 Ha). rewrite Hta in IHe1. exact IHe1.
  - apply wt_lshr in H. destruct H as (Ha & _ & Hta & _). specialize (IHe1 Ha). rewrite Hta in IHe1. exact IHe1.
  - apply wt_add in H. destruct H as (Ha & _ & Hta & _). specialize (IHe1 Ha). rewrite Hta in IHe1. exact IHe1.
  - apply wt_mul in H. destruct H as (Ha & _ & Hta & _). specialize (IHe1 Ha). rewrite Hta in IHe1. exact IHe1.
  - apply wt_sdiv in H. destruct H as (Ha & _ & Hta & _). specialize (IHe1 Ha). rewrite Hta in IHe1. exact IHe1.
  - apply wt_udiv in H. destruct H as (Ha & _ & Hta & _). specialize (IHe1 Ha). rewrite Hta in IHe1. exact IHe1.
  - apply wt_smod in H. destruct H as (Ha & _ & Hta & _). specialize (IHe1 Ha). rewrite Hta in IHe1. exact IHe1.
  - apply wt_srem in H. destruct H as (Ha & _ & Hta & _). specialize (IHe1 Ha). rewrite Hta in IHe1. exact IHe1.
  - apply wt_urem in H. destruct H as (Ha & _ & Hta & _). specialize (IHe1 Ha). rewrite Hta in IHe1. exact IHe1.
  - apply wt_sub in H. destruct H as (Ha & _ & Hta & _). specialize (IHe1 Ha). rewrite Hta in IHe1. exact IHe1.
  - apply wt_read in H. destruct H as (Ha & _ & iw & Hta & _). specialize (IHe1 Ha). rewrite Hta in IHe1.
    cbn [ty_pos] in IHe1. tauto.
  - apply wt_ite in H. destruct H as (_ & _ & Hc & _ & w' & _ & Ht). specialize (IHe3 Hc). exact IHe3.
  - cbn [wt] in H. unfold node_ok in H. cbn [check1 leaf_ok is_some] in H.
    rewrite !andb_true_iff, !N.ltb_lt in H. tauto.
  - pose proof (wt_aconst _ _ _ H) as (Ha & Hta & Hiw). specialize (IHe Ha). rewrite Hta in IHe.
    cbn [ty_pos] in IHe. tauto.
  - lia.
  - apply wt_store in H. destruct H as (Ha & _ & _ & iw & dw & Hta & _). specialize (IHe1 Ha). exact IHe1.
  - apply wt_aite in H. destruct H as (_ & _ & Hc & _ & iw & dw & _ & Ht). specialize (IHe3 Hc). exact IHe3.
Qed.

Lemma wt_bv_pos e w : wt e = true -> type_of e = TBV w -> 0 < w.
Proof. intros H Ht. apply wt_pos in H. rewrite Ht in H. exact H. Qed.

(** ** nodes the reader builds without calling the type checker *)
Lemma wt_not_intro e w : wt e = true -> type_of e = TBV w -> wt (BVNot e w) = true.
Proof.
  intros H Ht. apply wt_intro.
  - cbn [check1]. unfold expect_bv_of. rewrite Ht, N.eqb_refl. reflexivity.
  - reflexivity.
  - cbn [children]. intros c [<-|[]]. exact H.
Qed.

Lemma wt_lit_intro w v : 0 < w -> v < 2 ^ w -> wt (BVLiteral w v) = true.
Proof.
  intros Hw Hv. cbn [wt]. unfold node_ok. cbn [check1 is_some leaf_ok].
  apply N.ltb_lt in Hw, Hv. rewrite Hw, Hv. reflexivity.
Qed.

Lemma wt_eq_intro a b w :
  wt a = true -> wt b = true -> type_of a = TBV w -> type_of b = TBV w -> wt (BVEqual a b) = true.
Proof.
  intros Ha Hb Hta Htb. apply wt_intro.
  - cbn [check1]. unfold expect_same_width_bvs. rewrite Hta, Htb, N.eqb_refl. reflexivity.
  - reflexivity.
  - cbn [children]. intros c [<-|[<-|[]]]; assumption.
Qed.

Lemma wt_slice_intro e w i : wt e = true -> type_of e = TBV w -> i < w -> wt (BVSlice e i i) = true.
Proof.
  intros H Ht Hi. apply wt_intro.
  - cbn [check1]. rewrite Ht. destruct (N.leb_spec w i); [lia|]. rewrite N.ltb_irrefl. reflexivity.
  - reflexivity.
  - cbn [children]. intros c [<-|[]]. exact H.
Qed.

Lemma type_of_slice1 e i : type_of (BVSlice e i i) = TBV 1.
Proof. cbn [type_of]. f_equal. lia. Qed.

Lemma wt_xor1_intro a b :
  wt a = true -> wt b = true -> type_of a = TBV 1 -> type_of b = TBV 1 -> wt (BVXor a b 1) = true.
Proof.
  intros Ha Hb Hta Htb. apply wt_intro.
  - cbn [check1]. unfold expect_same_width_bvs_of, expect_same_width_bvs. rewrite Hta, Htb. reflexivity.
  - reflexivity.
  - cbn [children]. intros c [<-|[<-|[]]]; assumption.
Qed.

Lemma wt_aconst_intro e iw dw :
  wt e = true -> type_of e = TBV dw -> 0 < iw -> wt (ArrayConstant e iw dw) = true.
Proof.
  intros H Ht Hiw. apply wt_intro.
  - cbn [check1]. unfold expect_bv_of. rewrite Ht, N.eqb_refl. reflexivity.
  - cbn [leaf_ok]. apply N.ltb_lt. exact Hiw.
  - cbn [children]. intros c [<-|[]]. exact H.
Qed.

(** the xor chain of [redxor]: bits [i .. i+n-1] folded onto [acc] *)
Lemma xor_chain_wt n : forall e w i acc,
  wt e = true -> type_of e = TBV w -> i + N.of_nat n <= w ->
  wt acc = true -> type_of acc = TBV 1 ->
  wt (xor_chain n e i acc) = true /\ type_of (xor_chain n e i acc) = TBV 1.
Proof.
  induction n as [|n IH]; intros e w i acc He Ht Hi Hacc Htacc; cbn [xor_chain].
  - auto.
  - apply (IH e w); auto; try lia.
    apply wt_xor1_intro; auto.
    + apply (wt_slice_intro e w); auto. lia.
    + apply type_of_slice1.
Qed.

Lemma xor_chain_syms n : forall e i acc d,
  incl (syms e) d -> incl (syms acc) d -> incl (syms (xor_chain n e i acc)) d.
Proof.
  induction n as [|n IH]; intros e i acc d He Hacc; cbn [xor_chain]; auto.
  apply IH; auto. cbn [syms]. apply incl_app; auto.
Qed.

(** ** renaming symbols preserves typing *)
Lemma rename_sym_type ren e : type_of (rename_sym ren e) = type_of e.
Proof. unfold rename_sym. destruct (lookup_name e ren); destruct e; reflexivity. Qed.

Lemma rename_sym_is_symbol ren e : is_symbol e = true -> is_symbol (rename_sym ren e) = true.
Proof. unfold rename_sym. destruct (lookup_name e ren); destruct e; cbn; auto. Qed.

Lemma type_of_rename ren e : type_of (rename ren e) = type_of e.
Proof.
  induction e; cbn [rename type_of]; try reflexivity; try assumption.
  - apply rename_sym_type.
  - apply rename_sym_type.
Qed.

Lemma check1_rename ren e : check1 (rename ren e) = check1 e.
Proof.
  destruct e; cbn [rename check1];
    unfold expect_same_width_bvs_of, expect_same_width_bvs, expect_same_size_arrays;
    rewrite ?type_of_rename; try reflexivity.
  - unfold rename_sym. destruct (lookup_name _ ren); reflexivity.
  - unfold rename_sym. destruct (lookup_name _ ren); reflexivity.
Qed.

Lemma leaf_ok_rename ren e : leaf_ok (rename ren e) = leaf_ok e.
Proof.
  destruct e; cbn [rename leaf_ok]; rewrite ?type_of_rename; try reflexivity.
  - unfold rename_sym. destruct (lookup_name _ ren); reflexivity.
  - unfold rename_sym. destruct (lookup_name _ ren); reflexivity.
Qed.

Lemma wt_rename ren e : wt (rename ren e) = wt e.
Proof.
  induction e;
    try (cbn [wt rename]; unfold node_ok;
         change (check1 (rename ren ?x)) with (check1 (rename ren x));
         fail);
    rewrite (wt_children (rename ren _)), (wt_children _); unfold node_ok;
    rewrite check1_rename, leaf_ok_rename; f_equal; cbn [rename children forallb];
    rewrite ?IHe, ?IHe1, ?IHe2, ?IHe3; try reflexivity.
  - unfold rename_sym. destruct (lookup_name _ ren); reflexivity.
  - unfold rename_sym. destruct (lookup_name _ ren); reflexivity.
Qed.

Lemma is_symbol_rename ren e : is_symbol (rename ren e) = is_symbol e.
Proof.
  destruct e; cbn [rename is_symbol]; try reflexivity;
    unfold rename_sym; destruct (lookup_name _ ren); reflexivity.
Qed.

Lemma syms_rename ren e : syms (rename ren e) = map (rename ren) (syms e).
Proof.
  induction e; cbn [rename syms map]; rewrite ?map_app; try congruence; try reflexivity.
  - unfold rename_sym. destruct (lookup_name _ ren); reflexivity.
  - unfold rename_sym. destruct (lookup_name _ ren); reflexivity.
Qed.
