(** * Proofs/SimplifyTermMask.v — the two literal-mask arms of [simplify_bv_and] strictly decrease
    the termination measure.  The expansion arm produces a left-nested concat of at most
    [w + 2] pieces (slices of the operand and zero literals). *)
From Coq Require Import Lia.
From Patronus Require Import Simplify BVLemmas ExprLemmas EvalProofs BVRuleLemmas ExprEqb SimplifyBuilders
     SimplifyRules1 SimplifyRules2 SimplifyMask SimplifyTermMeasure SimplifyTermArith SimplifyTermRules1.
Open Scope N_scope.

(** ** number of intervals *)
Lemma intervals_aux_len n : forall pos v cur,
  (2 * length (Simplify.intervals_aux n pos v cur) <= n + 1 + (match cur with Some _ => 1 | None => 0 end))%nat.
Proof.
  induction n as [|n IH]; intros pos v cur; cbn [Simplify.intervals_aux].
  - destruct cur; cbn [length]; lia.
  - destruct (N.testbit v pos).
    + specialize (IH (pos + 1) v (Some (match cur with Some s => s | None => pos end))). cbn beta iota in IH.
      destruct cur; lia.
    + destruct cur as [s|].
      * specialize (IH (pos + 1) v None). cbn beta iota in IH. cbn [length]. lia.
      * specialize (IH (pos + 1) v None). cbn beta iota in IH. lia.
Qed.

Lemma bit_set_intervals_len w v : (2 * length (Simplify.bit_set_intervals w v) <= N.to_nat w + 1)%nat.
Proof. unfold Simplify.bit_set_intervals. pose proof (intervals_aux_len (N.to_nat w) 0 v None) as H. cbn beta iota in H. lia. Qed.

(** ** the pieces *)
Lemma mask_pieces_len x : forall ivs bit, (length (fst (mask_pieces x ivs bit)) <= 2 * length ivs)%nat.
Proof.
  induction ivs as [|[s e] rest IH]; intros bit; cbn [mask_pieces]; [cbn; lia|].
  specialize (IH e). destruct (mask_pieces x rest e) as [more last]. cbn [fst length] in *.
  destruct (bit <? s); cbn [app length]; lia.
Qed.

Lemma mask_pieces_mu x : forall ivs bit, Forall (fun p => mu p <= 2 * mu x) (fst (mask_pieces x ivs bit)).
Proof.
  induction ivs as [|[s e] rest IH]; intros bit; cbn [mask_pieces]; [constructor|].
  specialize (IH e). destruct (mask_pieces x rest e) as [more last]. cbn [fst] in *.
  pose proof (mu_pos x).
  assert (Forall (fun p => mu p <= 2 * mu x) (mk_slice x (e - 1) s :: more))
    by (constructor; [apply mu_mk_slice|exact IH]).
  destruct (bit <? s); cbn [app]; [constructor; [cbn [mu mk_zero]; lia|]|]; assumption.
Qed.

(** ** the left-nested concat of the pieces *)
Lemma fold_concat_mu M : forall tl hd K, Forall (fun p => mu p <= M) tl -> mu hd + M + 1 <= K ->
  mu (fold_left mk_concat tl hd) + M + 1 <= 2 ^ N.of_nat (length tl) * K.
Proof.
  induction tl as [|x tl IH]; intros hd K Hall Hhd; cbn [fold_left length].
  - change (N.of_nat 0) with 0. rewrite N.pow_0_r. lia.
  - inversion Hall as [|? ? Hx Htl]; subst.
    rewrite Nat2N.inj_succ, N.pow_succ_r'.
    specialize (IH (mk_concat hd x) (2 * K) Htl). cbn [mu mk_concat] in IH.
    assert (2 * mu hd + mu x + 1 + M + 1 <= 2 * K) by lia. specialize (IH H). lia.
Qed.

Lemma reduce_concat_mu vals r M : Forall (fun p => mu p <= M) vals -> reduce_concat vals = Some r ->
  mu r + M + 1 <= 2 ^ N.of_nat (length vals) * (M + 1).
Proof.
  intros Hall Hs. unfold reduce_concat in Hs.
  assert (Hall' : Forall (fun p => mu p <= M) (rev vals)).
  { apply Forall_forall. intros p Hp. rewrite Forall_forall in Hall. apply Hall. now apply in_rev. }
  rewrite <- (rev_length vals).
  destruct (rev vals) as [|hd tl]; [discriminate|]. inversion Hs; subst r; clear Hs.
  inversion Hall' as [|? ? Hhd Htl]; subst.
  pose proof (fold_concat_mu M tl hd (2 * (M + 1)) Htl ltac:(lia)) as H.
  cbn [length]. rewrite Nat2N.inj_succ, N.pow_succ_r'. lia.
Qed.

(** ** the arms *)
Lemma and_mask_arm_dec w v e r : wt e = true -> type_of e = TBV w ->
  and_mask_arm w v e = Some r -> mu r < cP w * (1 + mu e) + 1.
Proof.
  intros We Te Hs. pose proof (width_pos _ _ We Te) as Hpos.
  assert (Hwe : width e = w) by (unfold width; now rewrite Te).
  destruct (concat_dec e) as [[[[ca cb] cw] ->]|Ne]; cbn [fst snd] in *.
  - (* (ca # cb) & mask *)
    cbn [and_mask_arm] in Hs. inversion Hs; subst r; clear Hs.
    apply wt_concat in We. destruct We as (Wca & Wcb & aw & bw & Tca & Tcb & ->).
    cbn in Te. inversion Te; subst w.
    pose proof (width_pos _ _ Wca Tca) as Hpa. pose proof (width_pos _ _ Wcb Tcb) as Hpb.
    assert (Hwcb : width cb = bw) by (unfold width; now rewrite Tcb). rewrite !Hwcb.
    cbn [mu mk_concat mk_and]. unfold width. cbn [type_of].
    replace (aw + bw - 1 - bw + 1) with aw by lia. replace (bw - 1 - 0 + 1) with bw by lia.
    unfold mB.
    pose proof (cP_double aw (aw + bw) ltac:(lia)) as D1. pose proof (cP_double bw (aw + bw) ltac:(lia)) as D2.
    pose proof (cP_ge8 (aw + bw)) as G.
    assert (H1 : 2 * cP aw * (mu ca + 1) <= cP (aw + bw) * (mu ca + 1)) by (apply N.mul_le_mono_r; exact D1).
    assert (H2 : 2 * cP bw * (mu cb + 1) <= cP (aw + bw) * (mu cb + 1)) by (apply N.mul_le_mono_r; exact D2).
    pose proof (mu_pos ca). assert (H3 : 8 * mu ca <= cP (aw + bw) * mu ca) by (apply N.mul_le_mono_r; exact G).
    lia.
  - (* x & mask *)
    assert (Hs' : (let '(vals, bit) := mask_pieces e (Simplify.bit_set_intervals w v) 0 in
                   let vals := if bit <? width e then vals ++ [mk_zero (width e - bit)] else vals in
                   reduce_concat vals) = Some r)
      by (not_concat e Ne; exact Hs).
    clear Hs.
    pose proof (mask_pieces_len e (Simplify.bit_set_intervals w v) 0) as L.
    pose proof (mask_pieces_mu e (Simplify.bit_set_intervals w v) 0) as A.
    pose proof (bit_set_intervals_len w v) as I.
    destruct (mask_pieces e (Simplify.bit_set_intervals w v) 0) as [vals bit]. cbn [fst] in *.
    set (vals' := if bit <? width e then vals ++ [mk_zero (width e - bit)] else vals) in *.
    pose proof (mu_pos e) as Hp.
    assert (Hall : Forall (fun p => mu p <= 2 * mu e) vals').
    { unfold vals'. destruct (bit <? width e); [|exact A]. apply Forall_app. split; [exact A|].
      constructor; [cbn [mu mk_zero]; lia|constructor]. }
    assert (Hlen : (length vals' <= N.to_nat w + 2)%nat).
    { unfold vals'. destruct (bit <? width e); [rewrite app_length; cbn [length]|]; lia. }
    pose proof (reduce_concat_mu vals' r (2 * mu e) Hall Hs') as HR.
    assert (Hpow : 2 ^ N.of_nat (length vals') <= 2 ^ (w + 2)) by (apply N.pow_le_mono_r; lia).
    assert (HR' : 2 ^ N.of_nat (length vals') * (2 * mu e + 1) <= 2 ^ (w + 2) * (2 * mu e + 1))
      by (apply N.mul_le_mono_r; exact Hpow).
    rewrite cP_eq. lia.
Qed.
