(** * Proofs/Ic3Proofs.v — soundness of the abstract IC3/PDR logic of Model/Ic3.v.

    Over an arbitrary state type with boolean [init], [bad], [trans] (Section
    variables, nothing assumed about them):
    - [ic3_safe_sem] / [ic3_safe_trace]: frames that satisfy the IC3 invariants and
      contain a fixpoint F_i = F_{i+1} below the frontier prove safety;
    - [add_frame_preserves], [add_blocked_finite_preserves],
      [add_blocked_inf_preserves], [propagate_frame_preserves]: every operation
      keeps the invariants, under the explicit side conditions (the solver's
      answer is truthful; the blocked cube excludes every initial state);
    - [block_step_preserves], [ic3_chain_real]: the obligation queue only holds
      states from which a bad state is reachable in (frontier - frame) steps, so an
      obligation that reaches the initial frame is a real counterexample;
    - [obligation_never_initial]: under the invariants an obligation at a frame >= 1
      is never an initial state (the reason why pdr.rs can omit that test - as long
      as [init], [trans], [bad] really are predicates of the state alone);
    - [check_inv_sound]: the executable checker decides the invariants over a listed
      state space. *)
From Coq Require Import List Bool Arith Lia.
From Patronus Require Import Ic3.
Import ListNotations.

Section Ic3Proofs.
  Variable St : Type.
  Variable init bad : St -> bool.
  Variable trans : St -> St -> bool.

  Notation cube := (cube St).
  Notation trace := (trace St).
  Notation ch := (cube_holds St).
  Notation bl := (blocked_by St).
  Notation F := (frame_holds St init).
  Notation Finf := (inf_holds St).
  Notation frontier := (frontier St).

  (** ** reachability *)
  Inductive reach_in : nat -> St -> Prop :=
  | r_init s : init s = true -> reach_in 0 s
  | r_step k s s' : reach_in k s -> trans s s' = true -> reach_in (S k) s'.

  Definition reachable (s : St) : Prop := exists k, reach_in k s.

  (** ** safety from the frame invariants (any representation of the frames) *)
  Record frames_ok (Fr : nat -> St -> bool) (N : nat) : Prop := {
    fo_init : forall i s, i <= N -> init s = true -> Fr i s = true;
    fo_mono : forall i s, i < N -> Fr i s = true -> Fr (S i) s = true;
    fo_step : forall i s s', i < N -> Fr i s = true -> trans s s' = true -> Fr (S i) s' = true;
    fo_safe : forall i s, i < N -> Fr i s = true -> bad s = false
  }.

  Theorem ic3_safe_sem Fr N i :
    frames_ok Fr N -> i < N -> (forall s, Fr (S i) s = true -> Fr i s = true) ->
    forall s, reachable s -> bad s = false.
  Proof.
    intros Hok Hi Hfix s (k & Hr).
    assert (Hin : Fr i s = true).
    { induction Hr as [s Hs | k s s' Hr IH Ht].
      - apply (fo_init _ _ Hok); [lia | exact Hs].
      - apply Hfix. now apply (fo_step _ _ Hok i s s'). }
    now apply (fo_safe _ _ Hok i).
  Qed.

  (** ** the delta encoding *)
  Definition B (j : nat) (fs : list (list cube)) (s : St) : bool := bl (concat (skipn j fs)) s.

  Lemma frame_S tr j s : F tr (S j) s = negb (B j (frames St tr) s) && Finf tr s.
  Proof. reflexivity. Qed.

  Lemma bl_app a b s : bl (a ++ b) s = bl a s || bl b s.
  Proof. unfold blocked_by. apply existsb_app. Qed.

  Lemma B_0_cons f r s : B 0 (f :: r) s = bl f s || B 0 r s.
  Proof. unfold B. cbn [skipn concat]. apply bl_app. Qed.

  Lemma B_S_cons j f r s : B (S j) (f :: r) s = B j r s.
  Proof. reflexivity. Qed.

  Lemma B_nil j s : B j [] s = false.
  Proof. unfold B. now rewrite skipn_nil. Qed.

  Lemma B_suffix j : forall fs s, B (S j) fs s = true -> B j fs s = true.
  Proof.
    induction j as [| j IH]; intros fs s H; destruct fs as [| f r]; try (rewrite B_nil in H; discriminate).
    - rewrite B_S_cons in H. rewrite B_0_cons, H. apply orb_true_r.
    - rewrite B_S_cons in *. now apply IH.
  Qed.

  Lemma B_beyond j : forall fs s, length fs <= j -> B j fs s = false.
  Proof. intros fs s H. unfold B. now rewrite skipn_all2. Qed.

  Lemma B_add_empty j : forall fs s, B j (fs ++ [[]]) s = B j fs s.
  Proof.
    induction j as [| j IH]; intros fs s.
    - unfold B. cbn [skipn]. rewrite concat_app. cbn [concat]. now rewrite !app_nil_r.
    - destruct fs as [| f r].
      + cbn [app]. rewrite B_S_cons, !B_nil. reflexivity.
      + cbn [app]. rewrite !B_S_cons. apply IH.
  Qed.

  Lemma B_member j : forall fs c s, In c (nth j fs []) -> ch c s = true -> B j fs s = true.
  Proof.
    induction j as [| j IH]; intros fs c s Hin Hc; destruct fs as [| f r]; try (now destruct Hin).
    - cbn [nth] in Hin. rewrite B_0_cons. apply orb_true_iff. left.
      unfold blocked_by. apply existsb_exists. now exists c.
    - cbn [nth] in Hin. rewrite B_S_cons. now apply (IH r c).
  Qed.

  Lemma add_at_spec c k : forall fs fs',
      add_at St k c fs = Some fs' ->
      1 <= k <= length fs /\ length fs' = length fs /\
      forall j s, B j fs' s = B j fs s || ((j <? k) && ch c s).
  Proof.
    induction k as [| k IH]; intros fs fs' H; [destruct fs; discriminate H |].
    destruct fs as [| f r]; [destruct k; discriminate H |]. cbn [add_at] in H. destruct k as [| k'].
    - inversion H; subst. cbn [length]. split; [lia |]. split; [reflexivity |].
      intros j s. destruct j as [| j].
      + rewrite !B_0_cons. unfold blocked_by at 1. cbn [existsb]. fold (bl f s). cbn [Nat.ltb Nat.leb andb].
        destruct (ch c s), (bl f s), (B 0 r s); reflexivity.
      + rewrite !B_S_cons. cbn [Nat.ltb Nat.leb andb]. now rewrite orb_false_r.
    - destruct (add_at St (S k') c r) as [r' |] eqn:E; [| discriminate H]. inversion H; subst.
      destruct (IH r r' E) as (Hk & Hlen & HB). cbn [length]. split; [lia |]. split; [now rewrite Hlen |].
      intros j s. destruct j as [| j].
      + rewrite !B_0_cons, HB. cbn [Nat.ltb Nat.leb andb].
        destruct (bl f s), (B 0 r s), (ch c s); reflexivity.
      + rewrite !B_S_cons, HB. reflexivity.
  Qed.

  (** ** the invariants of a trace *)
  Record trace_inv (tr : trace) : Prop := {
    ti_init : forall i s, i <= frontier tr -> init s = true -> F tr i s = true;
    ti_step : forall i s s', i < frontier tr -> F tr i s = true -> trans s s' = true -> F tr (S i) s' = true;
    ti_safe : forall i s, i < frontier tr -> F tr i s = true -> bad s = false;
    ti_inf_init : forall s, init s = true -> Finf tr s = true;
    ti_inf_step : forall s s', Finf tr s = true -> trans s s' = true -> Finf tr s' = true
  }.

  Lemma init_in_all tr : trace_inv tr -> forall i s, init s = true -> F tr i s = true.
  Proof.
    intros Hinv i s Hs. destruct (le_lt_dec i (frontier tr)) as [Hle | Hgt].
    - now apply (ti_init _ Hinv).
    - destruct i as [| j]; [lia |]. rewrite frame_S. rewrite B_beyond by (unfold Ic3.frontier in Hgt; lia).
      cbn [negb andb]. now apply (ti_inf_init _ Hinv).
  Qed.

  (** F_i => F_{i+1}: built into the delta encoding *)
  Lemma frame_mono tr : trace_inv tr -> forall i s, F tr i s = true -> F tr (S i) s = true.
  Proof.
    intros Hinv i s H. destruct i as [| j].
    - apply init_in_all; [exact Hinv | exact H].
    - rewrite frame_S in *. apply andb_true_iff in H. destruct H as [Hb Hi]. rewrite Hi, andb_true_r.
      destruct (B (S j) (frames St tr) s) eqn:E; [| reflexivity].
      apply B_suffix in E. rewrite E in Hb. discriminate.
  Qed.

  Lemma frame_mono_le tr : trace_inv tr -> forall i j s, i <= j -> F tr i s = true -> F tr j s = true.
  Proof.
    intros Hinv i j s Hle H. induction Hle as [| j Hle IH]; [exact H |]. now apply frame_mono.
  Qed.

  Lemma frame_in_inf tr : trace_inv tr -> forall i s, F tr i s = true -> Finf tr s = true.
  Proof.
    intros Hinv i s H. destruct i as [| j].
    - now apply (ti_inf_init _ Hinv).
    - rewrite frame_S in H. apply andb_true_iff in H. apply H.
  Qed.

  Lemma trace_frames_ok tr : trace_inv tr -> frames_ok (F tr) (frontier tr).
  Proof.
    intros Hinv. constructor.
    - apply (ti_init _ Hinv).
    - intros i s _. now apply frame_mono.
    - apply (ti_step _ Hinv).
    - apply (ti_safe _ Hinv).
  Qed.

  Theorem ic3_safe_trace tr i :
    trace_inv tr -> i < frontier tr -> (forall s, F tr (S i) s = true -> F tr i s = true) ->
    forall s, reachable s -> bad s = false.
  Proof. intros Hinv. apply ic3_safe_sem. now apply trace_frames_ok. Qed.

  Lemma empty_trace_inv : trace_inv (empty_trace St).
  Proof.
    constructor; cbn.
    - intros i s Hi Hs. assert (i = 0) by lia. now subst.
    - intros i s s' Hi. lia.
    - intros i s Hi. lia.
    - reflexivity.
    - reflexivity.
  Qed.

  (** ** add_frame: needs the truthful UNSAT answer of [get_bad_cube] at the frontier *)
  Lemma add_frame_frames tr i s : F (add_frame St tr) i s = F tr i s.
  Proof. destruct i as [| j]; [reflexivity |]. rewrite !frame_S. cbn [add_frame frames]. now rewrite B_add_empty. Qed.

  Theorem add_frame_preserves tr :
    trace_inv tr -> (forall s, F tr (frontier tr) s = true -> bad s = false) -> trace_inv (add_frame St tr).
  Proof.
    intros Hinv Hbad.
    assert (HN : frontier (add_frame St tr) = S (frontier tr)).
    { unfold Ic3.frontier, add_frame. cbn [frames]. rewrite app_length. cbn. lia. }
    constructor.
    - intros i s _ Hs. rewrite add_frame_frames. now apply init_in_all.
    - intros i s s' Hi Hf Ht. rewrite HN in Hi. rewrite add_frame_frames in *.
      destruct (Nat.eq_dec i (frontier tr)) as [-> | Hne].
      + rewrite frame_S. rewrite B_beyond by (unfold Ic3.frontier; lia). cbn [negb andb].
        apply (ti_inf_step _ Hinv s s'); [| exact Ht]. now apply (frame_in_inf tr Hinv (frontier tr)).
      + apply (ti_step _ Hinv i s s'); [lia | exact Hf | exact Ht].
    - intros i s Hi Hf. rewrite HN in Hi. rewrite add_frame_frames in Hf.
      destruct (Nat.eq_dec i (frontier tr)) as [-> | Hne]; [now apply Hbad |].
      apply (ti_safe _ Hinv i s); [lia | exact Hf].
    - apply (ti_inf_init _ Hinv).
    - apply (ti_inf_step _ Hinv).
  Qed.

  (** ** add_blocked_cube at a finite frame.
      Side conditions: (1) the cube excludes every initial state; (2) the relative-induction
      answer is truthful: no state of F_{k-1} outside the cube has a successor in the cube
      ([RelIndType::Extended]; the [Standard] query without "outside the cube" is stronger). *)
  Definition excludes_init (g : cube) : Prop := forall s, init s = true -> ch g s = false.

  Definition rel_inductive (tr : trace) (k : nat) (g : cube) : Prop :=
    forall s s', F tr (pred k) s = true -> ch g s = false -> trans s s' = true -> ch g s' = false.

  Theorem add_blocked_finite_preserves tr k g tr' :
    trace_inv tr -> add_blocked_cube St tr (FFinite k) g = Some tr' ->
    excludes_init g -> rel_inductive tr k g ->
    trace_inv tr' /\ frontier tr' = frontier tr /\ (forall i s, F tr' i s = true -> F tr i s = true).
  Proof.
    intros Hinv Hadd Hex Hrel. cbn [add_blocked_cube] in Hadd.
    destruct (add_at St k g (frames St tr)) as [fs |] eqn:E; [| discriminate Hadd]. inversion Hadd; subst tr'.
    destruct (add_at_spec g k _ _ E) as (Hk & Hlen & HB).
    assert (HF : forall j s, F {| frames := fs; inf := inf St tr |} (S j) s = F tr (S j) s && negb ((j <? k) && ch g s)).
    { intros j s. rewrite !frame_S. cbn [frames]. unfold inf_holds. cbn [inf]. rewrite HB.
      destruct (B j (frames St tr) s), ((j <? k) && ch g s), (negb (bl (inf St tr) s)); reflexivity. }
    assert (Hweak : forall i s, F {| frames := fs; inf := inf St tr |} i s = true -> F tr i s = true).
    { intros i s H. destruct i as [| j]; [exact H |]. rewrite HF in H. apply andb_true_iff in H. apply H. }
    assert (HN : frontier {| frames := fs; inf := inf St tr |} = frontier tr) by (unfold Ic3.frontier; cbn [frames]; exact Hlen).
    split; [| split; [exact HN | exact Hweak]].
    constructor.
    - intros i s Hi Hs. rewrite HN in Hi. destruct i as [| j]; [exact Hs |].
      rewrite HF. rewrite (ti_init _ Hinv (S j) s Hi Hs). rewrite (Hex s Hs). now rewrite andb_false_r.
    - intros i s s' Hi Hf Ht. rewrite HN in Hi. rewrite HF.
      rewrite (ti_step _ Hinv i s s' Hi (Hweak i s Hf) Ht). cbn [andb].
      destruct (i <? k) eqn:Eik; [| reflexivity]. apply Nat.ltb_lt in Eik. cbn [andb].
      rewrite (Hrel s s'); [reflexivity | | | exact Ht].
      + apply (frame_mono_le tr Hinv i (pred k)); [lia | now apply Hweak].
      + destruct i as [| i0]; [now apply Hex |].
        rewrite HF in Hf. apply andb_true_iff in Hf. destruct Hf as [_ Hf].
        assert (Hlt : (i0 <? k) = true) by (apply Nat.ltb_lt; lia). rewrite Hlt in Hf. cbn [andb] in Hf.
        now apply negb_true_iff in Hf.
    - intros i s Hi Hf. rewrite HN in Hi. apply (ti_safe _ Hinv i s Hi). now apply Hweak.
    - apply (ti_inf_init _ Hinv).
    - apply (ti_inf_step _ Hinv).
  Qed.

  (** a relative-induction answer for a cube [c] carries over to any cube between the
      generalisation and [c] (unsat-core generalisation and the literals put back by
      [fix_gen_cube] keep the "outside c" part of the query, pdr.rs:764-768) *)
  Lemma rel_inductive_weaken tr k (c g : cube) :
    (forall s, ch c s = true -> ch g s = true) ->
    (forall s s', F tr (pred k) s = true -> ch c s = false -> trans s s' = true -> ch g s' = false) ->
    rel_inductive tr k g.
  Proof.
    intros Hsub H s s' Hf Hg Ht. apply (H s s' Hf); [| exact Ht].
    destruct (ch c s) eqn:E; [| reflexivity]. rewrite (Hsub s E) in Hg. discriminate.
  Qed.

  (** ** add_blocked_cube at the infinite frame *)
  Definition inf_rel_inductive (tr : trace) (g : cube) : Prop :=
    forall s s', Finf tr s = true -> ch g s = false -> trans s s' = true -> ch g s' = false.

  Theorem add_blocked_inf_preserves tr g tr' :
    trace_inv tr -> add_blocked_cube St tr FInf g = Some tr' ->
    excludes_init g -> inf_rel_inductive tr g ->
    trace_inv tr' /\ frontier tr' = frontier tr /\ (forall i s, F tr' i s = true -> F tr i s = true).
  Proof.
    intros Hinv Hadd Hex Hrel. cbn [add_blocked_cube] in Hadd. inversion Hadd; subst tr'.
    set (tr' := {| frames := frames St tr; inf := g :: inf St tr |}).
    assert (Hinf : forall s, Finf tr' s = Finf tr s && negb (ch g s)).
    { intros s. unfold inf_holds, tr'. cbn [inf blocked_by existsb]. fold (bl (inf St tr) s).
      destruct (ch g s), (bl (inf St tr) s); reflexivity. }
    assert (HF : forall j s, F tr' (S j) s = F tr (S j) s && negb (ch g s)).
    { intros j s. rewrite !frame_S, Hinf. unfold tr'. cbn [frames].
      destruct (B j (frames St tr) s), (Finf tr s), (ch g s); reflexivity. }
    assert (Hweak : forall i s, F tr' i s = true -> F tr i s = true).
    { intros i s H. destruct i as [| j]; [exact H |]. rewrite HF in H. apply andb_true_iff in H. apply H. }
    assert (Hout : forall i s, F tr' i s = true -> ch g s = false).
    { intros i s H. destruct i as [| j]; [now apply Hex |]. rewrite HF in H. apply andb_true_iff in H.
      destruct H as [_ H]. now apply negb_true_iff in H. }
    split; [| split; [reflexivity | exact Hweak]].
    constructor.
    - intros i s Hi Hs. destruct i as [| j]; [exact Hs |].
      rewrite HF, (ti_init _ Hinv (S j) s Hi Hs), (Hex s Hs). reflexivity.
    - intros i s s' Hi Hf Ht. rewrite HF, (ti_step _ Hinv i s s' Hi (Hweak i s Hf) Ht). cbn [andb].
      rewrite (Hrel s s'); [reflexivity | | | exact Ht].
      + apply (frame_in_inf tr Hinv i). now apply Hweak.
      + now apply (Hout i).
    - intros i s Hi Hf. apply (ti_safe _ Hinv i s Hi). now apply Hweak.
    - intros s Hs. rewrite Hinf, (ti_inf_init _ Hinv s Hs), (Hex s Hs). reflexivity.
    - intros s s' Hf Ht. rewrite Hinf in *. apply andb_true_iff in Hf. destruct Hf as [Hf Hg].
      apply negb_true_iff in Hg. rewrite (ti_inf_step _ Hinv s s' Hf Ht), (Hrel s s' Hf Hg Ht). reflexivity.
  Qed.

  (** every cube stored in a frame up to the frontier excludes the initial states (so the cubes
      that [propagate_blocked_cubes] offers to the next / the infinite frame need no extra test) *)
  Lemma stored_cube_excludes_init tr k c :
    trace_inv tr -> 1 <= k <= frontier tr -> In c (nth (pred k) (frames St tr) []) -> excludes_init c.
  Proof.
    intros Hinv Hk Hin s Hs. destruct (ch c s) eqn:E; [| reflexivity].
    pose proof (ti_init _ Hinv k s (proj2 Hk) Hs) as Hf.
    destruct k as [| j]; [lia |]. cbn [pred] in Hin. rewrite frame_S in Hf.
    rewrite (B_member j _ c s Hin E) in Hf. discriminate.
  Qed.

  (** ** propagate_frame: the cubes of frame k whose [Standard] query was UNSAT move to frame k+1 *)
  Lemma bl_cons c l s : bl (c :: l) s = ch c s || bl l s.
  Proof. reflexivity. Qed.

  Lemma bl_false l s : (forall c, In c l -> ch c s = false) -> bl l s = false.
  Proof.
    induction l as [| c l IH]; intros H; [reflexivity |]. rewrite bl_cons, (H c (or_introl eq_refl)). cbn [orb].
    apply IH. intros c' Hc'. apply H. now right.
  Qed.

  Lemma split_by_bl f : forall ans s,
      bl f s = bl (fst (split_by St f ans)) s || bl (snd (split_by St f ans)) s.
  Proof.
    induction f as [| c r IH]; intros ans s; [reflexivity |]. cbn [split_by].
    rewrite bl_cons, (IH (tl ans) s).
    destruct (match ans with a :: _ => a | [] => false end); cbn [fst snd]; rewrite bl_cons;
      destruct (ch c s), (bl (fst (split_by St r (tl ans))) s), (bl (snd (split_by St r (tl ans))) s); reflexivity.
  Qed.

  Lemma split_by_in f : forall ans c, In c (fst (split_by St f ans)) -> In c f.
  Proof.
    induction f as [| c0 r IH]; intros ans c H; [exact H |]. cbn [split_by] in H.
    destruct (match ans with a :: _ => a | [] => false end); cbn [fst snd] in H.
    - destruct H as [<- | H]; [now left | right; now apply (IH (tl ans))].
    - right. now apply (IH (tl ans)).
  Qed.

  Lemma move_at_spec k : forall ans fs fs' b,
      move_at St k ans fs = Some (fs', b) ->
      1 <= k < length fs /\ length fs' = length fs /\
      (forall j s, B j fs' s = B j fs s || ((j =? k) && bl (fst (split_by St (nth (pred k) fs []) ans)) s)) /\
      (b = true -> forall s, B (pred k) fs' s = B k fs' s).
  Proof.
    induction k as [| k IH]; intros ans fs fs' b H; [destruct fs as [| ? [| ? ?]]; cbn in H; discriminate H |].
    destruct fs as [| f r]; [destruct k; cbn in H; discriminate H |]. destruct k as [| k1].
    - (* k = 1 *)
      cbn [move_at] in H. destruct r as [| g r']; [discriminate H |]. inversion H; subst; clear H.
      set (moved := fst (split_by St f ans)). set (kept := snd (split_by St f ans)).
      cbn [length pred nth]. split; [lia |]. split; [reflexivity |]. split.
      + intros j s. destruct j as [| [| j]].
        * rewrite !B_0_cons, bl_app, (split_by_bl f ans s). fold moved kept. cbn [Nat.eqb andb].
          destruct (bl kept s), (bl moved s), (bl g s), (B 0 r' s); reflexivity.
        * rewrite !B_S_cons, !B_0_cons, bl_app. fold moved. cbn [Nat.eqb andb].
          destruct (bl moved s), (bl g s), (B 0 r' s); reflexivity.
        * rewrite !B_S_cons. cbn [Nat.eqb andb]. now rewrite orb_false_r.
      + intros Hb s. fold kept in Hb. destruct kept; [| discriminate Hb].
        rewrite B_0_cons, B_S_cons. reflexivity.
    - (* k = S (S k1) *)
      change (move_at St (S (S k1)) ans (f :: r)) with
        (match move_at St (S k1) ans r with Some (r', b) => Some (f :: r', b) | None => None end) in H.
      destruct (move_at St (S k1) ans r) as [[r' b'] |] eqn:E; [| discriminate H].
      inversion H; subst; clear H.
      destruct (IH ans r r' b E) as (Hk & Hlen & HB & Hfix).
      cbn [length]. split; [lia |]. split; [now rewrite Hlen |]. split.
      + intros j s. destruct j as [| j].
        * rewrite !B_0_cons, HB. cbn [Nat.eqb andb]. now rewrite !orb_false_r.
        * rewrite !B_S_cons, HB. reflexivity.
      + intros Hb s. cbn [pred]. rewrite !B_S_cons. now apply Hfix.
  Qed.

  Theorem propagate_frame_preserves tr k ans tr' b :
    trace_inv tr -> propagate_frame St tr k ans = Some (tr', b) ->
    (forall c, In c (moved_cubes St tr k ans) ->
               forall s s', F tr k s = true -> trans s s' = true -> ch c s' = false) ->
    trace_inv tr' /\ frontier tr' = frontier tr /\ 1 <= k < frontier tr /\
    (b = true -> forall s, F tr' (S k) s = true -> F tr' k s = true).
  Proof.
    intros Hinv Hp Htruth. unfold propagate_frame in Hp.
    destruct (move_at St k ans (frames St tr)) as [[fs b0] |] eqn:E; [| discriminate Hp].
    inversion Hp; subst; clear Hp.
    destruct (move_at_spec k ans _ _ _ E) as (Hk & Hlen & HB & Hfix).
    set (moved := moved_cubes St tr k ans) in *.
    set (tr' := {| frames := fs; inf := inf St tr |}).
    assert (HF : forall j s, F tr' (S j) s = F tr (S j) s && negb ((j =? k) && bl moved s)).
    { intros j s. rewrite !frame_S. unfold tr'. cbn [frames]. unfold inf_holds. cbn [inf]. rewrite HB.
      fold moved. unfold moved, moved_cubes.
      destruct (B j (frames St tr) s), ((j =? k) && bl (fst (split_by St (nth (pred k) (frames St tr) []) ans)) s),
        (negb (bl (inf St tr) s)); reflexivity. }
    assert (Hweak : forall i s, F tr' i s = true -> F tr i s = true).
    { intros i s H. destruct i as [| j]; [exact H |]. rewrite HF in H. apply andb_true_iff in H. apply H. }
    assert (HN : frontier tr' = frontier tr) by (unfold Ic3.frontier, tr'; cbn [frames]; exact Hlen).
    assert (Hkf : 1 <= k < frontier tr) by (unfold Ic3.frontier; exact Hk).
    assert (Hmoved_init : forall s, init s = true -> bl moved s = false).
    { intros s Hs. apply bl_false. intros c Hc. unfold moved, moved_cubes in Hc. apply split_by_in in Hc.
      apply (stored_cube_excludes_init tr k c Hinv); [lia | exact Hc | exact Hs]. }
    split; [| split; [exact HN | split; [exact Hkf |]]].
    - constructor.
      + intros i s Hi Hs. rewrite HN in Hi. destruct i as [| j]; [exact Hs |].
        rewrite HF, (ti_init _ Hinv (S j) s Hi Hs), (Hmoved_init s Hs). now rewrite andb_false_r.
      + intros i s s' Hi Hf Ht. rewrite HN in Hi. rewrite HF.
        rewrite (ti_step _ Hinv i s s' Hi (Hweak i s Hf) Ht). cbn [andb].
        destruct (i =? k) eqn:Eik; [| reflexivity]. apply Nat.eqb_eq in Eik. subst i. cbn [andb].
        rewrite bl_false; [reflexivity |]. intros c Hc. apply (Htruth c Hc s s'); [now apply Hweak | exact Ht].
      + intros i s Hi Hf. rewrite HN in Hi. apply (ti_safe _ Hinv i s Hi). now apply Hweak.
      + apply (ti_inf_init _ Hinv).
      + apply (ti_inf_step _ Hinv).
    - intros Hb s Hf. destruct k as [| k0]; [lia |]. rewrite frame_S in *. unfold tr' in *. cbn [frames] in *.
      cbn [pred] in Hfix. now rewrite (Hfix Hb s).
  Qed.

  (** ** proof obligations *)
  Inductive leads_to_bad : St -> nat -> Prop :=
  | lb_now s : bad s = true -> leads_to_bad s 0
  | lb_step s s' m : trans s s' = true -> leads_to_bad s' m -> leads_to_bad s (S m).

  (** an obligation at frame j, with the frontier at N: a bad state is N - j steps away; an
      obligation at the initial frame is an initial state (it was obtained from a model of the
      initial frame) *)
  Definition obl_ok (N : nat) (o : obligation St) : Prop :=
    snd o <= N /\ leads_to_bad (fst o) (N - snd o) /\ (snd o = 0 -> init (fst o) = true).

  Lemma pop_min_spec q : forall m r, pop_min St q = Some (m, r) -> In m q /\ forall o, In o r -> In o q.
  Proof.
    induction q as [| o q IH]; intros m r H; [discriminate H |]. cbn [pop_min] in H.
    destruct (pop_min St q) as [[m' r'] |] eqn:E.
    - destruct (IH m' r' eq_refl) as [Hm Hr]. destruct (snd o <=? snd m').
      + inversion H; subst. split; [now left | intros o' Ho'; now right].
      + inversion H; subst. split; [now right |]. intros o' [<- | Ho']; [now left | right; now apply Hr].
    - inversion H; subst. split; [now left | intros o' []].
  Qed.

  Lemma first_obligation tr s :
    F tr (frontier tr) s = true -> bad s = true -> obl_ok (frontier tr) (s, frontier tr).
  Proof.
    intros Hf Hb. unfold obl_ok. cbn [fst snd]. split; [lia |]. split.
    - rewrite Nat.sub_diag. now constructor.
    - intros H0. rewrite H0 in Hf. exact Hf.
  Qed.

  (** one step of the obligation loop keeps the queue invariant, provided a SAT answer is
      truthful: the predecessor really steps into the obligation's state, and at frame 0 it
      really is an initial state *)
  Theorem block_step_preserves N tr q ans tr' q' :
    Forall (obl_ok N) q -> block_step St tr q ans = Continue St tr' q' ->
    (forall s j rest p, pop_min St q = Some ((s, S j), rest) -> ans = Sat St p ->
                        trans p s = true /\ (j = 0 -> init p = true)) ->
    Forall (obl_ok N) q'.
  Proof.
    intros Hq Hstep Htruth. unfold block_step in Hstep.
    destruct (pop_min St q) as [[[s j] rest] |] eqn:E; [| discriminate Hstep].
    destruct j as [| j]; [discriminate Hstep |].
    destruct (pop_min_spec q _ _ E) as [Hm Hrest].
    rewrite Forall_forall in Hq.
    assert (Hrest_ok : Forall (obl_ok N) rest) by (apply Forall_forall; intros o Ho; apply Hq; now apply Hrest).
    destruct ans as [p | g t].
    - inversion Hstep; subst; clear Hstep.
      destruct (Htruth s j rest p eq_refl eq_refl) as [Ht Hi].
      pose proof (Hq _ Hm) as (Hle & Hlead & _). cbn [fst snd] in Hle, Hlead.
      constructor; [| constructor; [now apply Hq | exact Hrest_ok]].
      unfold obl_ok. cbn [fst snd]. split; [lia |]. split; [| exact Hi].
      replace (N - j) with (S (N - S j)) by lia. now apply (lb_step p s).
    - destruct (add_blocked_cube St tr (FFinite t) g); [| discriminate Hstep].
      inversion Hstep; subst. exact Hrest_ok.
  Qed.

  Lemma leads_reach a s m : reach_in a s -> leads_to_bad s m -> exists s', reach_in (a + m) s' /\ bad s' = true.
  Proof.
    intros Hr Hl. revert a Hr. induction Hl as [s Hb | s s' m Ht Hl IH]; intros a Hr.
    - exists s. rewrite Nat.add_0_r. now split.
    - replace (a + S m) with (S a + m) by lia. apply IH. now apply (r_step a s s').
  Qed.

  (** an obligation chain that reaches the initial frame is a real execution: the popped state is
      initial and a bad state is reachable from it in exactly [N] (= frontier) steps *)
  Theorem ic3_chain_real N tr q ans s :
    Forall (obl_ok N) q -> block_step St tr q ans = CounterExample St s ->
    init s = true /\ exists s', reach_in N s' /\ bad s' = true.
  Proof.
    intros Hq Hstep. unfold block_step in Hstep.
    destruct (pop_min St q) as [[[s0 j] rest] |] eqn:E; [| discriminate Hstep].
    destruct j as [| j].
    - inversion Hstep; subst. destruct (pop_min_spec q _ _ E) as [Hm _].
      rewrite Forall_forall in Hq. destruct (Hq _ Hm) as (_ & Hlead & Hi). cbn [fst snd] in *.
      specialize (Hi eq_refl). split; [exact Hi |].
      rewrite Nat.sub_0_r in Hlead. apply (leads_reach 0 s N); [now constructor | exact Hlead].
    - destruct ans; [discriminate Hstep |]. destruct (add_blocked_cube St tr (FFinite target) g); discriminate Hstep.
  Qed.

  (** under the frame invariants no state of F_i reaches a bad state in fewer than
      (frontier - i) steps ... *)
  Lemma frame_far_from_bad tr : trace_inv tr ->
    forall s m, leads_to_bad s m -> forall i, i + m < frontier tr -> F tr i s = true -> False.
  Proof.
    intros Hinv s m Hl. induction Hl as [s Hb | s s' m Ht Hl IH]; intros i Hi Hf.
    - rewrite (ti_safe _ Hinv i s) in Hb; [discriminate | lia | exact Hf].
    - apply (IH (S i)); [lia |]. apply (ti_step _ Hinv i s s'); [lia | exact Hf | exact Ht].
  Qed.

  (** ... hence an obligation at a frame >= 1 is never an initial state: the test that pdr.rs
      omits (obligations are only compared with [FrameId::Init], pdr.rs:931) is implied - for
      predicates of the state alone *)
  Theorem obligation_never_initial tr s j :
    trace_inv tr -> obl_ok (frontier tr) (s, j) -> 1 <= j -> init s = false.
  Proof.
    intros Hinv (Hle & Hlead & _) Hj. cbn [fst snd] in *.
    destruct (init s) eqn:Hs; [| reflexivity]. exfalso.
    apply (frame_far_from_bad tr Hinv s _ Hlead 0); [lia | exact Hs].
  Qed.

  (** ** the executable checker is sound (and complete) over a listed state space *)
  Variable states : list St.
  Hypothesis states_all : forall s, In s states.

  Lemma all_states_spec p : all_states St states p = true <-> forall s, p s = true.
  Proof.
    unfold all_states. rewrite forallb_forall. split; [intros H s; apply H, states_all | intros H s _; apply H].
  Qed.

  Lemma implb'_spec a b : implb' a b = true <-> (a = true -> b = true).
  Proof. destruct a, b; cbn; intuition congruence. Qed.

  Lemma implb'_elim a b : implb' a b = true -> a = true -> b = true.
  Proof. intros H Ha. subst a. exact H. Qed.

  Theorem check_inv_sound tr : check_inv St init bad trans states tr = true -> trace_inv tr.
  Proof.
    unfold check_inv. intros H. apply andb_true_iff in H. destruct H as [H Hinf].
    apply andb_true_iff in H. destruct H as [Hfr Hin].
    rewrite forallb_forall in Hfr, Hin. unfold check_inf in Hinf. apply andb_true_iff in Hinf.
    destruct Hinf as [Hi1 Hi2]. rewrite all_states_spec in Hi1, Hi2.
    assert (Hfr' : forall i, i < frontier tr -> check_frame St init bad trans states tr i = true).
    { intros i Hi. apply Hfr. apply in_seq. unfold Ic3.frontier in *. lia. }
    constructor.
    - intros i s Hi Hs. assert (Hc : check_init St init states tr i = true).
      { apply Hin. apply in_seq. unfold Ic3.frontier in *. lia. }
      unfold check_init in Hc. rewrite all_states_spec in Hc. exact (implb'_elim _ _ (Hc s) Hs).
    - intros i s s' Hi Hf Ht. specialize (Hfr' i Hi). unfold check_frame in Hfr'.
      apply andb_true_iff in Hfr'. destruct Hfr' as [Hst _]. rewrite all_states_spec in Hst.
      pose proof (implb'_elim _ _ (Hst s) Hf) as Hall. rewrite forallb_forall in Hall.
      exact (implb'_elim _ _ (Hall s' (states_all s')) Ht).
    - intros i s Hi Hf. specialize (Hfr' i Hi). unfold check_frame in Hfr'.
      apply andb_true_iff in Hfr'. destruct Hfr' as [_ Hsf]. rewrite all_states_spec in Hsf.
      pose proof (implb'_elim _ _ (Hsf s) Hf) as Hn. now apply negb_true_iff in Hn.
    - intros s Hs. exact (implb'_elim _ _ (Hi1 s) Hs).
    - intros s s' Hf Ht. pose proof (implb'_elim _ _ (Hi2 s) Hf) as Hall. rewrite forallb_forall in Hall.
      exact (implb'_elim _ _ (Hall s' (states_all s')) Ht).
  Qed.
End Ic3Proofs.

(** all operations at once (the form quoted by Props/C10.v) *)
Definition truthful_moves {St} (init : St -> bool) (trans : St -> St -> bool) (tr : trace St) (k : nat) (ans : list bool) : Prop :=
  forall c, In c (moved_cubes St tr k ans) ->
            forall s s', frame_holds St init tr k s = true -> trans s s' = true -> cube_holds St c s' = false.

Lemma ic3_steps_preserve_lemma (St : Type) (init bad : St -> bool) (trans : St -> St -> bool) (tr : trace St) :
  trace_inv St init bad trans tr ->
  (* add_frame, conditioned on the truthful UNSAT answer "no bad state in the frontier frame" *)
  ((forall s, frame_holds St init tr (frontier St tr) s = true -> bad s = false) ->
   trace_inv St init bad trans (add_frame St tr)) /\
  (* add_blocked_cube at a finite frame *)
  (forall k g tr', add_blocked_cube St tr (FFinite k) g = Some tr' ->
                   excludes_init St init g -> rel_inductive St init trans tr k g ->
                   trace_inv St init bad trans tr') /\
  (* add_blocked_cube at the infinite frame *)
  (forall g tr', add_blocked_cube St tr FInf g = Some tr' ->
                 excludes_init St init g -> inf_rel_inductive St trans tr g ->
                 trace_inv St init bad trans tr') /\
  (* propagation of one frame (the moved cubes exclude the initial states by the invariant) *)
  (forall k ans tr' b, propagate_frame St tr k ans = Some (tr', b) ->
                       truthful_moves init trans tr k ans ->
                       trace_inv St init bad trans tr' /\
                       (b = true -> forall s, reachable St init trans s -> bad s = false)).
Proof.
  intros Hinv. split; [| split; [| split]].
  - now apply add_frame_preserves.
  - intros k g tr' Ha He Hr. now apply (add_blocked_finite_preserves St init bad trans tr k g tr').
  - intros g tr' Ha He Hr. now apply (add_blocked_inf_preserves St init bad trans tr g tr').
  - intros k ans tr' b Hp Ht.
    destruct (propagate_frame_preserves St init bad trans tr k ans tr' b Hinv Hp Ht) as (Hinv' & HN & Hk & Hfix).
    split; [exact Hinv' |]. intros Hb. apply (ic3_safe_trace St init bad trans tr' k Hinv'); [lia | now apply Hfix].
Qed.

(** ** blocking a predicate, for ANY representation of the frames.

    [frames_ok] is kept when the frames 0 .. k are strengthened with [not g], provided
    (1) [g] excludes every "initial" state and (2) for k >= 1 no state of frame k-1 outside [g]
    steps into [g].  At k = 0 only (1) is needed.

    This is the form that covers the REPAIRED pdr.rs (patches/0001-fix-pdr-init-reads-input.diff),
    whose frames R_1, R_2, ... over-approximate the states reachable in at least one step: read
    [init] as "successor of an initial valuation" (decided by the query [R_0 /\ T /\ g'], in which the
    inputs of the initial step are shared between the init equations and the transition) and
    [Fr i] as R_{i+1}.  Blocking at R_1 then needs exactly [excludes_init], blocking at R_{k+1} the
    relative-induction query against R_k in addition; depth 0 is decided separately by the exact
    query [R_0 /\ bad].  [ic3_safe_sem] gives: no state reachable in >= 1 steps is bad. *)
Section BlockSem.
  Variable St : Type.
  Variable init bad : St -> bool.
  Variable trans : St -> St -> bool.

  Definition strengthen (Fr : nat -> St -> bool) (k : nat) (g : St -> bool) : nat -> St -> bool :=
    fun i s => Fr i s && (if i <=? k then negb (g s) else true).

  Lemma frames_mono_le Fr N : frames_ok St init bad trans Fr N ->
    forall i j s, i <= j -> j <= N -> Fr i s = true -> Fr j s = true.
  Proof.
    intros Hok i j s Hij HjN H. induction Hij as [| j Hij IH]; [exact H |].
    apply (fo_mono _ _ _ _ _ _ Hok j s); [lia |]. apply IH. lia.
  Qed.

  Theorem strengthen_frames_ok Fr N k g :
    frames_ok St init bad trans Fr N -> k <= N ->
    (forall s, init s = true -> g s = false) ->
    (forall s s', 1 <= k -> Fr (pred k) s = true -> g s = false -> trans s s' = true -> g s' = false) ->
    frames_ok St init bad trans (strengthen Fr k g) N.
  Proof.
    intros Hok Hk Hex Hrel. unfold strengthen. constructor.
    - intros i s Hi Hs. rewrite (fo_init _ _ _ _ _ _ Hok i s Hi Hs), (Hex s Hs).
      cbn. now destruct (i <=? k).
    - intros i s Hi H. apply andb_true_iff in H. destruct H as [Hf Hg].
      rewrite (fo_mono _ _ _ _ _ _ Hok i s Hi Hf). cbn [andb].
      destruct (S i <=? k) eqn:E; [| reflexivity]. apply Nat.leb_le in E.
      assert (E' : (i <=? k) = true) by (apply Nat.leb_le; lia). now rewrite E' in Hg.
    - intros i s s' Hi H Ht. apply andb_true_iff in H. destruct H as [Hf Hg].
      rewrite (fo_step _ _ _ _ _ _ Hok i s s' Hi Hf Ht). cbn [andb].
      destruct (S i <=? k) eqn:E; [| reflexivity]. apply Nat.leb_le in E.
      assert (E' : (i <=? k) = true) by (apply Nat.leb_le; lia). rewrite E' in Hg.
      apply negb_true_iff in Hg. rewrite (Hrel s s'); [reflexivity | lia | | exact Hg | exact Ht].
      apply (frames_mono_le Fr N Hok i (pred k)); [lia | lia | exact Hf].
    - intros i s Hi H. apply andb_true_iff in H. destruct H as [Hf _].
      now apply (fo_safe _ _ _ _ _ _ Hok i s).
  Qed.
End BlockSem.
