(** * Proofs/SmtParseLemmas.v — C14: numerals, single tokens, and the expression the reader
    builds for the writer's output ([rt]) with its equivalence to the original. *)
From Coq Require Import Lia DecimalString DecimalN DecimalPos.
From Patronus Require Import SmtParse BVLemmas ExprLemmas EvalProofs SmtCharLemmas SmtSerLemmas SmtSemLemmas SmtSerProofs.
Open Scope string_scope.
Open Scope list_scope.
Open Scope N_scope.

(** ** decimal numerals: the reader's [parse_uint] inverts the printer *)

Fixpoint acc_uint (d : Decimal.uint) (acc : N) : N :=
  match d with
  | Decimal.Nil => acc
  | Decimal.D0 l => acc_uint l (0 + 10 * acc)
  | Decimal.D1 l => acc_uint l (1 + 10 * acc)
  | Decimal.D2 l => acc_uint l (2 + 10 * acc)
  | Decimal.D3 l => acc_uint l (3 + 10 * acc)
  | Decimal.D4 l => acc_uint l (4 + 10 * acc)
  | Decimal.D5 l => acc_uint l (5 + 10 * acc)
  | Decimal.D6 l => acc_uint l (6 + 10 * acc)
  | Decimal.D7 l => acc_uint l (7 + 10 * acc)
  | Decimal.D8 l => acc_uint l (8 + 10 * acc)
  | Decimal.D9 l => acc_uint l (9 + 10 * acc)
  end.

Lemma dec_digits_string d acc :
  dec_digits (NilEmpty.string_of_uint d) acc = Some (acc_uint d acc).
Proof.
  revert acc. induction d; intros acc; cbn [NilEmpty.string_of_uint dec_digits acc_uint];
    try reflexivity;
    match goal with |- context [dec_digit ?c] => change (dec_digit c) with (Some (N_of_ascii c - 48)) end;
    cbv iota; rewrite IHd; f_equal; f_equal; vm_compute N_of_ascii; lia.
Qed.

Lemma acc_uint_pos d p : acc_uint d (N.pos p) = N.pos (Pos.of_uint_acc d p).
Proof.
  revert p. induction d; intros p; cbn [acc_uint Pos.of_uint_acc]; try reflexivity;
    match goal with |- acc_uint _ ?x = _ => let y := eval cbn in x in change x with y end; apply IHd.
Qed.

Lemma acc_uint_zero d : acc_uint d 0 = Pos.of_uint d.
Proof.
  induction d; cbn [acc_uint Pos.of_uint]; try reflexivity;
    match goal with |- acc_uint _ ?x = _ => let y := eval cbn in x in change x with y end;
    first [exact IHd | apply acc_uint_pos].
Qed.

Lemma dec_digits_dec_string n : dec_digits (dec_string n) 0 = Some n.
Proof.
  unfold dec_string, NilZero.string_of_uint.
  assert (H : N.to_uint n <> Decimal.Nil).
  { destruct n; [discriminate | apply DecimalPos.Unsigned.to_uint_nonnil]. }
  destruct (N.to_uint n) eqn:E; try contradiction;
    rewrite <- E, dec_digits_string, acc_uint_zero;
    change (Pos.of_uint (N.to_uint n)) with (N.of_uint (N.to_uint n));
    now rewrite DecimalN.Unsigned.of_to.
Qed.

Definition all_digits (s : string) : bool := all_chars is_dec_digit s.

Lemma string_of_uint_digits d : str_forall is_dec_digit (NilEmpty.string_of_uint d) = true.
Proof. induction d; cbn [NilEmpty.string_of_uint str_forall]; try reflexivity; rewrite IHd; reflexivity. Qed.

Lemma dec_string_digits n : all_digits (dec_string n) = true.
Proof.
  unfold all_digits, all_chars, dec_string, NilZero.string_of_uint.
  assert (H : N.to_uint n <> Decimal.Nil).
  { destruct n; [discriminate | apply DecimalPos.Unsigned.to_uint_nonnil]. }
  destruct (N.to_uint n) eqn:E; try contradiction; rewrite <- E;
    (destruct (NilEmpty.string_of_uint (N.to_uint n)) eqn:Es;
     [rewrite E in Es; discriminate Es | rewrite <- Es; apply string_of_uint_digits]).
Qed.

Lemma all_digits_first s : all_digits s = true ->
  exists c r, s = String c r /\ is_dec_digit c = true /\ str_forall is_dec_digit r = true.
Proof.
  unfold all_digits, all_chars. destruct s as [|c r]; [discriminate|].
  cbn [str_forall]. rewrite andb_true_iff. intros [Hc Hr]. eauto.
Qed.

Lemma digit_not_plus c : is_dec_digit c = true -> Ascii.eqb c "+"%char = false.
Proof. all_ascii c; vm_compute; intros H; first [reflexivity | discriminate H]. Qed.

Lemma parse_uint_dec bits n : n < 2 ^ bits -> parse_uint bits (dec_string n) = Some n.
Proof.
  intros Hn. unfold parse_uint.
  destruct (all_digits_first _ (dec_string_digits n)) as (c & r & E & Hc & _).
  rewrite E. rewrite (digit_not_plus c Hc). rewrite <- E, dec_digits_dec_string.
  apply N.ltb_lt in Hn. now rewrite Hn.
Qed.

Lemma parse_width_dec n : n < 2 ^ 32 -> parse_width (dec_string n) = POk n.
Proof. intros H. unfold parse_width. now rewrite parse_uint_dec. Qed.

(** ** the expression the reader builds from [ser e mb] *)

Definition rt_wrap (r1 produces mb : bool) (core : expr) : expr :=
  if r1 && mb && negb produces then BVIte core (BVLiteral 1 1) (BVLiteral 1 0)
  else if r1 && negb mb && produces then BVEqual core (BVLiteral 1 1)
  else core.

Fixpoint rt (e : expr) (mb : bool) {struct e} : expr :=
  let c := consumes_bv e in
  rt_wrap (is_1bit e) (produces_bv e) mb
    match e with
    | BVSymbol n w => BVSymbol n w
    | BVLiteral w v => BVLiteral w v
    | BVZeroExt a by_ w =>
        if is_1bit a then BVIte (rt a c) (BVLiteral (by_ + 1) 1) (BVLiteral (by_ + 1) 0)
        else BVZeroExt (rt a c) by_ w
    | BVSignExt a by_ w => BVSignExt (rt a c) by_ w
    | BVSlice a hi lo => BVSlice (rt a c) hi lo
    | BVNot a w => BVNot (rt a c) w
    | BVNegate a w => BVNegate (rt a c) w
    | BVEqual a b => BVEqual (rt a c) (rt b c)
    | BVImplies a b => BVImplies (rt a c) (rt b c)
    | BVGreater a b => BVGreater (rt a c) (rt b c)
    | BVGreaterSigned a b w => BVGreaterSigned (rt a c) (rt b c) w
    | BVGreaterEqual a b => BVGreaterEqual (rt a c) (rt b c)
    | BVGreaterEqualSigned a b w => BVGreaterEqualSigned (rt a c) (rt b c) w
    | BVConcat a b w => BVConcat (rt a c) (rt b c) w
    | BVAnd a b w => BVAnd (rt a c) (rt b c) w
    | BVOr a b w => BVOr (rt a c) (rt b c) w
    | BVXor a b w => BVXor (rt a c) (rt b c) w
    | BVShiftLeft a b w => BVShiftLeft (rt a c) (rt b c) w
    | BVArithmeticShiftRight a b w => BVArithmeticShiftRight (rt a c) (rt b c) w
    | BVShiftRight a b w => BVShiftRight (rt a c) (rt b c) w
    | BVAdd a b w => BVAdd (rt a c) (rt b c) w
    | BVMul a b w => BVMul (rt a c) (rt b c) w
    | BVSignedDiv a b w => BVSignedDiv (rt a c) (rt b c) w
    | BVUnsignedDiv a b w => BVUnsignedDiv (rt a c) (rt b c) w
    | BVSignedMod a b w => BVSignedMod (rt a c) (rt b c) w
    | BVSignedRem a b w => BVSignedRem (rt a c) (rt b c) w
    | BVUnsignedRem a b w => BVUnsignedRem (rt a c) (rt b c) w
    | BVSub a b w => BVSub (rt a c) (rt b c) w
    | BVArrayRead a i w => BVArrayRead (rt a c) (rt i c) w
    | BVIte a b d => BVIte (rt a c) (rt b c) (rt d c)
    | ArraySymbol n i d => ArraySymbol n i d
    | ArrayConstant a iw dw => ArrayConstant (rt a c) iw dw
    | ArrayEqual a b => ArrayEqual (rt a c) (rt b c)
    | ArrayStore a i d => ArrayStore (rt a c) (rt i c) (rt d c)
    | ArrayIte a b d => ArrayIte (rt a c) (rt b c) (rt d c)
    end.

(** the core of [rt] (the [match] above), to unfold one level *)
Definition rt_core (e : expr) : expr :=
  let c := consumes_bv e in
    match e with
    | BVSymbol n w => BVSymbol n w
    | BVLiteral w v => BVLiteral w v
    | BVZeroExt a by_ w =>
        if is_1bit a then BVIte (rt a c) (BVLiteral (by_ + 1) 1) (BVLiteral (by_ + 1) 0)
        else BVZeroExt (rt a c) by_ w
    | BVSignExt a by_ w => BVSignExt (rt a c) by_ w
    | BVSlice a hi lo => BVSlice (rt a c) hi lo
    | BVNot a w => BVNot (rt a c) w
    | BVNegate a w => BVNegate (rt a c) w
    | BVEqual a b => BVEqual (rt a c) (rt b c)
    | BVImplies a b => BVImplies (rt a c) (rt b c)
    | BVGreater a b => BVGreater (rt a c) (rt b c)
    | BVGreaterSigned a b w => BVGreaterSigned (rt a c) (rt b c) w
    | BVGreaterEqual a b => BVGreaterEqual (rt a c) (rt b c)
    | BVGreaterEqualSigned a b w => BVGreaterEqualSigned (rt a c) (rt b c) w
    | BVConcat a b w => BVConcat (rt a c) (rt b c) w
    | BVAnd a b w => BVAnd (rt a c) (rt b c) w
    | BVOr a b w => BVOr (rt a c) (rt b c) w
    | BVXor a b w => BVXor (rt a c) (rt b c) w
    | BVShiftLeft a b w => BVShiftLeft (rt a c) (rt b c) w
    | BVArithmeticShiftRight a b w => BVArithmeticShiftRight (rt a c) (rt b c) w
    | BVShiftRight a b w => BVShiftRight (rt a c) (rt b c) w
    | BVAdd a b w => BVAdd (rt a c) (rt b c) w
    | BVMul a b w => BVMul (rt a c) (rt b c) w
    | BVSignedDiv a b w => BVSignedDiv (rt a c) (rt b c) w
    | BVUnsignedDiv a b w => BVUnsignedDiv (rt a c) (rt b c) w
    | BVSignedMod a b w => BVSignedMod (rt a c) (rt b c) w
    | BVSignedRem a b w => BVSignedRem (rt a c) (rt b c) w
    | BVUnsignedRem a b w => BVUnsignedRem (rt a c) (rt b c) w
    | BVSub a b w => BVSub (rt a c) (rt b c) w
    | BVArrayRead a i w => BVArrayRead (rt a c) (rt i c) w
    | BVIte a b d => BVIte (rt a c) (rt b c) (rt d c)
    | ArraySymbol n i d => ArraySymbol n i d
    | ArrayConstant a iw dw => ArrayConstant (rt a c) iw dw
    | ArrayEqual a b => ArrayEqual (rt a c) (rt b c)
    | ArrayStore a i d => ArrayStore (rt a c) (rt i c) (rt d c)
    | ArrayIte a b d => ArrayIte (rt a c) (rt b c) (rt d c)
    end.

Lemma rt_eq e mb : rt e mb = rt_wrap (is_1bit e) (produces_bv e) mb (rt_core e).
Proof. destruct e; reflexivity. Qed.

(** what "read back as an equivalent expression" means *)
Definition equiv (e e' : expr) : Prop :=
  wt e' = true /\ type_of e' = type_of e /\
  forall rho, env_wf rho -> ebv rho e' = ebv rho e /\ earr rho e' = earr rho e.

Lemma earr_of_bv rho e w : wt e = true -> type_of e = TBV w -> earr rho e = fun _ => 0.
Proof.
  intros Hwt Ht. destruct e; try reflexivity; cbn [type_of] in Ht; try discriminate Ht.
  - apply wt_store in Hwt. destruct Hwt as (_ & _ & _ & iw & dw & Hx & _). congruence.
  - apply wt_aite in Hwt. destruct Hwt as (_ & _ & _ & _ & iw & dw & _ & Hx). congruence.
Qed.

Lemma equiv_wrap e core mb :
  wt e = true -> equiv e core ->
  equiv e (rt_wrap (is_1bit e) (produces_bv e) mb core).
Proof.
  intros Hwt (Hwc & Htc & Hv). unfold rt_wrap, is_1bit. unfold equiv in *.
  destruct (type_of e) as [w | i d] eqn:Et.
  2:{ cbn [andb]. repeat split; try assumption; now apply Hv. }
  destruct (N.eqb_spec w 1) as [-> | _].
  2:{ cbn [andb]. repeat split; try assumption; now apply Hv. }
  assert (Bv : forall rho, env_wf rho -> ebv rho core < 2 ^ 1).
  { intros rho Hr. apply (ebv_bound rho Hr core 1 Hwc Htc). }
  destruct mb, (produces_bv e); cbn [andb negb]; try (repeat split; try assumption; now apply Hv).
  - (* Bool -> bit-vector: (ite core #b1 #b0) *)
    repeat split.
    + cbn [wt]. unfold node_ok. cbn [check1 leaf_ok type_of expect_same_width_bvs].
      rewrite Htc. cbn [expect_bv_of]. change (1 =? 1) with true. cbn. now rewrite Hwc.
    + cbn [ebv]. rewrite (ite_bits_bool _ (Bv rho H)). now apply Hv.
    + cbn [earr]. symmetry. now apply (earr_of_bv rho e 1).
  - (* bit-vector -> Bool: (= core #b1) *)
    repeat split.
    + cbn [wt]. unfold node_ok. cbn [check1 leaf_ok]. unfold expect_same_width_bvs. cbn [type_of].
      rewrite Htc. change (1 =? 1) with true. cbn. now rewrite Hwc.
    + cbn [ebv]. unfold bv_eq. rewrite (b2n_of_eqb1 _ (Bv rho H)). now apply Hv.
    + cbn [earr]. symmetry. now apply (earr_of_bv rho e 1).
Qed.

Ltac node_same Hn :=
  unfold node_ok in Hn |- *; cbn [check1 leaf_ok] in Hn |- *;
  unfold expect_same_width_bvs_of, expect_same_width_bvs, expect_same_size_arrays in Hn |- *;
  cbn [type_of] in Hn |- *.

Ltac use_vals rho H V1 V2 V3 :=
  rewrite ?(proj1 (V1 rho H)), ?(proj2 (V1 rho H)), ?(proj1 (V2 rho H)), ?(proj2 (V2 rho H)),
          ?(proj1 (V3 rho H)), ?(proj2 (V3 rho H)).


Ltac rebuild1 Hwt Hbu IHa m :=
  cbn [wt] in Hwt; apply andb_true_iff in Hwt; destruct Hwt as [Hn Hwa];
  destruct (IHa Hwa Hbu m) as (Wa & Ta & Va);
  split; [ cbn [wt]; apply andb_true_iff; split; [node_same Hn; rewrite ?Ta; exact Hn | assumption ]
         | split; [ cbn [type_of]; rewrite ?Ta; reflexivity
                  | intros rho Hr; destruct (Va rho Hr) as [Ea Aa];
                    split; cbn [ebv earr]; unfold width; rewrite ?Ta, ?Ea, ?Aa; reflexivity ] ].

Ltac rebuild2 Hwt Hbu IHa IHb m :=
  cbn [wt] in Hwt; rewrite !andb_true_iff in Hwt; destruct Hwt as [Hn [Hwa Hwb]]; destruct Hbu as [Hba Hbb];
  destruct (IHa Hwa Hba m) as (Wa & Ta & Va); destruct (IHb Hwb Hbb m) as (Wb & Tb & Vb);
  split; [ cbn [wt]; rewrite !andb_true_iff; split; [node_same Hn; rewrite ?Ta, ?Tb; exact Hn | split; assumption ]
         | split; [ cbn [type_of]; rewrite ?Ta, ?Tb; reflexivity
                  | intros rho Hr; destruct (Va rho Hr) as [Ea Aa]; destruct (Vb rho Hr) as [Eb Ab];
                    split; cbn [ebv earr]; unfold width, index_width; rewrite ?Ta, ?Tb, ?Ea, ?Aa, ?Eb, ?Ab; reflexivity ] ].

Ltac rebuild3 Hwt Hbu IHa IHb IHc m :=
  cbn [wt] in Hwt; rewrite !andb_true_iff in Hwt; destruct Hwt as [Hn [[Hwa Hwb] Hwc]]; destruct Hbu as [[Hba Hbb] Hbc];
  destruct (IHa Hwa Hba m) as (Wa & Ta & Va); destruct (IHb Hwb Hbb m) as (Wb & Tb & Vb); destruct (IHc Hwc Hbc m) as (Wc & Tc & Vc);
  split; [ cbn [wt]; rewrite !andb_true_iff; split; [node_same Hn; rewrite ?Ta, ?Tb, ?Tc; exact Hn | repeat split; assumption ]
         | split; [ cbn [type_of]; rewrite ?Ta, ?Tb, ?Tc; reflexivity
                  | intros rho Hr; destruct (Va rho Hr) as [Ea Aa]; destruct (Vb rho Hr) as [Eb Ab]; destruct (Vc rho Hr) as [Ec Ac];
                    split; cbn [ebv earr]; unfold width, index_width; rewrite ?Ta, ?Tb, ?Tc, ?Ea, ?Aa, ?Eb, ?Ab, ?Ec, ?Ac; reflexivity ] ].

Lemma rt_equiv e : wt e = true -> built e = true -> forall mb, equiv e (rt e mb).
Proof.
  induction e as
      [ n w | w v | a IHa by_ w | a IHa by_ w | a IHa hi lo | a IHa w | a IHa w
      | a IHa b IHb | a IHa b IHb | a IHa b IHb | a IHa b IHb w | a IHa b IHb | a IHa b IHb w
      | a IHa b IHb w | a IHa b IHb w | a IHa b IHb w | a IHa b IHb w | a IHa b IHb w
      | a IHa b IHb w | a IHa b IHb w | a IHa b IHb w | a IHa b IHb w
      | a IHa b IHb w | a IHa b IHb w | a IHa b IHb w | a IHa b IHb w | a IHa b IHb w
      | a IHa b IHb w | a IHa b IHb w | a IHa b IHb c IHc
      | n iw dw | a IHa iw dw | a IHa b IHb | a IHa b IHb c IHc | a IHa b IHb c IHc ];
    intros Hwt Hbu mb; rewrite rt_eq; apply equiv_wrap; try assumption;
    cbn [rt_core consumes_bv]; cbn [built] in Hbu; rewrite ?andb_true_iff in Hbu; unfold equiv.
  - repeat split; try assumption.
  - repeat split; try assumption.
  - (* BVZeroExt *)
    destruct Hbu as [Hby Hba]. pose proof Hwt as Hwt0. apply wt_zext in Hwt0. destruct Hwt0 as (Hwa0 & Hta & Hlt).
    unfold is_1bit. rewrite Hta. destruct (N.eqb_spec (w - by_) 1) as [E1 | E1].
    + destruct (IHa Hwa0 Hba false) as (Wf & Tf & Vf). rewrite Hta, E1 in Tf.
      assert (w = by_ + 1) by lia. subst w.
      repeat split.
      * cbn [wt]. unfold node_ok. cbn [check1 leaf_ok]. unfold expect_same_width_bvs. cbn [type_of].
        rewrite Tf. cbn [expect_bv_of]. change (1 =? 1) with true. rewrite N.eqb_refl. cbn [is_some andb].
        rewrite Wf. cbn [andb].
        assert (X0 : 0 <? by_ + 1 = true) by (apply N.ltb_lt; lia).
        assert (X1 : 1 <? 2 ^ (by_ + 1) = true).
        { apply N.ltb_lt. change 1 with (2 ^ 0) at 1. apply N.pow_lt_mono_r; lia. }
        assert (X2 : 0 <? 2 ^ (by_ + 1) = true) by (apply N.ltb_lt; apply pow2_pos).
        now rewrite X0, X1, X2.
      * cbn [ebv]. unfold bv_zext. rewrite <- (proj1 (Vf _ H)).
        apply ite_bits_bool. apply (ebv_bound rho H _ 1 Wf Tf).
    + cbn [wt] in Hwt. apply andb_true_iff in Hwt. destruct Hwt as [Hn Hwa].
      destruct (IHa Hwa Hba false) as (Wf & Tf & Vf).
      repeat split.
      * cbn [wt]. apply andb_true_iff. split; [node_same Hn; rewrite Tf; exact Hn | assumption].
      * cbn [ebv]. now rewrite (proj1 (Vf _ H)).
  - destruct Hbu as [_ Hba]. rebuild1 Hwt Hba IHa true.
  - destruct Hbu as [_ Hba]. rebuild1 Hwt Hba IHa false.
  - rebuild1 Hwt Hbu IHa false.
  - rebuild1 Hwt Hbu IHa true.
  - rebuild2 Hwt Hbu IHa IHb false.
  - rebuild2 Hwt Hbu IHa IHb false.
  - rebuild2 Hwt Hbu IHa IHb true.
  - rebuild2 Hwt Hbu IHa IHb true.
  - rebuild2 Hwt Hbu IHa IHb true.
  - rebuild2 Hwt Hbu IHa IHb true.
  - rebuild2 Hwt Hbu IHa IHb true.
  - rebuild2 Hwt Hbu IHa IHb false.
  - rebuild2 Hwt Hbu IHa IHb false.
  - rebuild2 Hwt Hbu IHa IHb false.
  - rebuild2 Hwt Hbu IHa IHb true.
  - rebuild2 Hwt Hbu IHa IHb true.
  - rebuild2 Hwt Hbu IHa IHb true.
  - rebuild2 Hwt Hbu IHa IHb true.
  - rebuild2 Hwt Hbu IHa IHb true.
  - rebuild2 Hwt Hbu IHa IHb true.
  - rebuild2 Hwt Hbu IHa IHb true.
  - rebuild2 Hwt Hbu IHa IHb true.
  - rebuild2 Hwt Hbu IHa IHb true.
  - rebuild2 Hwt Hbu IHa IHb true.
  - rebuild2 Hwt Hbu IHa IHb true.
  - rebuild2 Hwt Hbu IHa IHb false.
  - rebuild3 Hwt Hbu IHa IHb IHc false.
  - repeat split; try assumption.
  - rebuild1 Hwt Hbu IHa false.
  - rebuild2 Hwt Hbu IHa IHb false.
  - rebuild3 Hwt Hbu IHa IHb IHc false.
  - rebuild3 Hwt Hbu IHa IHb IHc false.
Qed.
