(** * Proofs/BddProofs.v — the guard operations compute the Boolean operations pointwise. *)
From Coq Require Import Lia Arith.
From Patronus Require Import GuardSem.
Open Scope N_scope.

Lemma bdd_eqb_refl a : bdd_eqb a a = true.
Proof.
  induction a as [b | x lo IHlo hi IHhi]; cbn.
  - destruct b; reflexivity.
  - rewrite Nat.eqb_refl, IHlo, IHhi. reflexivity.
Qed.

Lemma bdd_eqb_eq a b : bdd_eqb a b = true -> a = b.
Proof.
  revert b. induction a as [x | x lo IHlo hi IHhi]; intros [y | y lo' hi'] H; cbn in H; try discriminate.
  - apply Bool.eqb_prop in H. now subst.
  - apply andb_prop in H as [H Hh]. apply andb_prop in H as [Hx Hl].
    apply Nat.eqb_eq in Hx. subst. f_equal; auto.
Qed.

Lemma bdd_eqb_spec a b : bdd_eqb a b = true <-> a = b.
Proof. split; [apply bdd_eqb_eq | intros ->; apply bdd_eqb_refl]. Qed.

Lemma bdd_eqb_neq a b : bdd_eqb a b = false <-> a <> b.
Proof.
  split.
  - intros H ->. rewrite bdd_eqb_refl in H. discriminate.
  - intros H. destruct (bdd_eqb a b) eqn:E; [apply bdd_eqb_eq in E; contradiction | reflexivity].
Qed.

Lemma bdd_eq_dec (a b : bdd) : {a = b} + {a <> b}.
Proof.
  destruct (bdd_eqb a b) eqn:E; [left; now apply bdd_eqb_eq | right; now apply bdd_eqb_neq].
Qed.

Section Eval.
  Variable v : nat -> bool.

  Lemma eval_mk_node x lo hi :
    bdd_eval v (mk_node x lo hi) = if v x then bdd_eval v hi else bdd_eval v lo.
  Proof.
    unfold mk_node. destruct (bdd_eqb lo hi) eqn:E.
    - apply bdd_eqb_eq in E. subst. destruct (v x); reflexivity.
    - reflexivity.
  Qed.

  Lemma eval_not a : bdd_eval v (bdd_not a) = negb (bdd_eval v a).
  Proof.
    induction a as [b | x lo IHlo hi IHhi]; cbn; [reflexivity |].
    destruct (v x); assumption.
  Qed.

  Lemma eval_apply op a b :
    bdd_eval v (bdd_apply op a b) = op (bdd_eval v a) (bdd_eval v b).
  Proof.
    revert b. induction a as [x | xa al IHl ah IHh].
    - induction b as [y | xb bl IHbl bh IHbh]; cbn; [reflexivity |].
      rewrite eval_mk_node. destruct (v xb); assumption.
    - induction b as [y | xb bl IHbl bh IHbh].
      + cbn. rewrite eval_mk_node. destruct (v xa); [apply IHh | apply IHl].
      + cbn [bdd_apply]. destruct (Nat.compare xa xb) eqn:C.
        * apply Nat.compare_eq in C. subst xb.
          rewrite eval_mk_node. cbn [bdd_eval]. destruct (v xa); [apply IHh | apply IHl].
        * rewrite eval_mk_node. cbn [bdd_eval].
          destruct (v xa); [rewrite IHh | rewrite IHl]; reflexivity.
        * rewrite eval_mk_node.
          change ((fix go (b : bdd) : bdd :=
                     match b with
                     | BLeaf _ => mk_node xa (bdd_apply op al b) (bdd_apply op ah b)
                     | BNode xb bl bh =>
                         match Nat.compare xa xb with
                         | Eq => mk_node xa (bdd_apply op al bl) (bdd_apply op ah bh)
                         | Lt => mk_node xa (bdd_apply op al b) (bdd_apply op ah b)
                         | Gt => mk_node xb (go bl) (go bh)
                         end
                     end) bl) with (bdd_apply op (BNode xa al ah) bl).
          change ((fix go (b : bdd) : bdd :=
                     match b with
                     | BLeaf _ => mk_node xa (bdd_apply op al b) (bdd_apply op ah b)
                     | BNode xb bl bh =>
                         match Nat.compare xa xb with
                         | Eq => mk_node xa (bdd_apply op al bl) (bdd_apply op ah bh)
                         | Lt => mk_node xa (bdd_apply op al b) (bdd_apply op ah b)
                         | Gt => mk_node xb (go bl) (go bh)
                         end
                     end) bh) with (bdd_apply op (BNode xa al ah) bh).
          rewrite IHbl, IHbh. cbn [bdd_eval]. destruct (v xb); reflexivity.
  Qed.

  Lemma eval_and a b : bdd_eval v (bdd_and a b) = bdd_eval v a && bdd_eval v b.
  Proof. apply eval_apply. Qed.
  Lemma eval_or a b : bdd_eval v (bdd_or a b) = bdd_eval v a || bdd_eval v b.
  Proof. apply eval_apply. Qed.
  Lemma eval_xor a b : bdd_eval v (bdd_xor a b) = xorb (bdd_eval v a) (bdd_eval v b).
  Proof. apply eval_apply. Qed.
  Lemma eval_implies a b : bdd_eval v (bdd_implies a b) = implb (bdd_eval v a) (bdd_eval v b).
  Proof.
    unfold bdd_implies. rewrite eval_or, eval_not.
    destruct (bdd_eval v a), (bdd_eval v b); reflexivity.
  Qed.
  Lemma eval_var x : bdd_eval v (bdd_var x) = v x.
  Proof. cbn. destruct (v x); reflexivity. Qed.

  Lemma is_false_sound g : is_false g = true -> bdd_eval v g = false.
  Proof. destruct g as [[|]|]; cbn; congruence. Qed.
  Lemma is_true_sound g : is_true g = true -> bdd_eval v g = true.
  Proof. destruct g as [[|]|]; cbn; congruence. Qed.
End Eval.

(** two guards that differ in value somewhere are different guards *)
Lemma eval_neq_guard v a b : bdd_eval v a <> bdd_eval v b -> a <> b.
Proof. intros H ->. now apply H. Qed.
