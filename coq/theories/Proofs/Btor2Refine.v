(** * Proofs/Btor2Refine.v — a release build (no debug assertions, no overflow checks) computes
    what the debug build computes whenever the debug build does not panic. *)
From Coq Require Import List Lia Bool String Ascii NArith FMapPositive.
From Patronus Require Import Expr Btor2Parse.
Import ListNotations.
Open Scope N_scope.

Definition no_panic {A} (r : pres A) : Prop := forall k, r <> PPanic k.

(** [x]: result with debug assertions, [y]: result without *)
Definition refines {A} (x y : pres A) : Prop := no_panic x -> y = x.

Lemma no_panic_ok {A} (a : A) : no_panic (POk a).
Proof. intros k; discriminate. Qed.
Lemma no_panic_err {A} : no_panic (@PErr A).
Proof. intros k; discriminate. Qed.

Lemma refines_refl {A} (x : pres A) : refines x x.
Proof. intros _; reflexivity. Qed.

Lemma refines_panic {A} k (y : pres A) : refines (PPanic k) y.
Proof. intros H. exfalso. apply (H k). reflexivity. Qed.

Lemma refines_bind {A B} (x y : pres A) (f g : A -> pres B) :
  refines x y -> (forall a, refines (f a) (g a)) -> refines (pbind x f) (pbind y g).
Proof.
  intros Hxy Hfg Hnp. destruct x as [a| |k]; cbn [pbind] in *.
  - rewrite (Hxy (no_panic_ok a)). cbn [pbind]. apply Hfg. exact Hnp.
  - rewrite (Hxy no_panic_err). reflexivity.
  - exfalso. apply (Hnp k). reflexivity.
Qed.

(** ** builders *)
Lemma u32add_ref a b : refines (u32add true a b) (u32add false a b).
Proof. unfold u32add. destruct (a + b <=? U32MAX); [apply refines_refl|apply refines_panic]. Qed.

Lemma u32sub_ref a b : refines (u32sub true a b) (u32sub false a b).
Proof. unfold u32sub. destruct (b <=? a); [apply refines_refl|apply refines_panic]. Qed.

Lemma b_same_ref mk a b : refines (b_same true mk a b) (b_same false mk a b).
Proof.
  unfold b_same, unwrap_bv. destruct (type_of a); cbn [pbind]; [|apply refines_panic].
  destruct (type_of b); cbn [pbind]; [|apply refines_panic].
  destruct (w =? w0); [apply refines_refl|apply refines_panic].
Qed.

Lemma b_cmp_ref mk a b : refines (b_cmp true mk a b) (b_cmp false mk a b).
Proof.
  unfold b_cmp, unwrap_bv. destruct (type_of a); cbn [pbind]; [|apply refines_panic].
  destruct (type_of b); cbn [pbind]; [|apply refines_panic].
  destruct (w =? w0); [apply refines_refl|apply refines_panic].
Qed.

Lemma b_equal_ref a b : refines (b_equal true a b) (b_equal false a b).
Proof.
  unfold b_equal. cbn [andb]. destruct (negb (ty_eqb (type_of a) (type_of b))); [apply refines_panic|apply refines_refl].
Qed.

Lemma b_implies_ref a b : refines (b_implies true a b) (b_implies false a b).
Proof.
  unfold b_implies, unwrap_bv. destruct (type_of a); cbn [pbind]; [|apply refines_panic].
  destruct (negb (w =? 1)); [apply refines_panic|].
  destruct (type_of b); cbn [pbind]; [|apply refines_panic].
  destruct (negb (w0 =? 1)); [apply refines_panic|apply refines_refl].
Qed.

Lemma b_ite_ref c t f : refines (b_ite true c t f) (b_ite false c t f).
Proof.
  unfold b_ite, unwrap_bv. destruct (type_of c); cbn [pbind]; [|apply refines_panic].
  destruct (negb (w =? 1)); [apply refines_panic|].
  destruct (negb (ty_eqb (type_of t) (type_of f))); [apply refines_panic|apply refines_refl].
Qed.

Lemma b_concat_ref a b : refines (b_concat true a b) (b_concat false a b).
Proof.
  unfold b_concat. apply refines_bind; [apply refines_refl|intros wa].
  apply refines_bind; [apply refines_refl|intros wb].
  apply refines_bind; [apply u32add_ref|intros w; apply refines_refl].
Qed.

Lemma b_slice_ref e hi lo : refines (b_slice true e hi lo) (b_slice false e hi lo).
Proof.
  unfold b_slice. destruct (lo =? 0); [|apply refines_refl].
  apply refines_bind; [apply u32add_ref|intros h1; apply refines_refl].
Qed.

Lemma b_ext_ref mk e by_ : refines (b_ext true mk e by_) (b_ext false mk e by_).
Proof.
  unfold b_ext. destruct (by_ =? 0); [apply refines_refl|].
  apply refines_bind; [apply refines_refl|intros w].
  apply refines_bind; [apply u32add_ref|intros w'; apply refines_refl].
Qed.

Lemma tcheck_ref e : refines (tcheck true e) (tcheck false e).
Proof.
  destruct e; cbn [tcheck]; try apply refines_refl.
  - apply refines_bind; [apply u32sub_ref|intros d; apply refines_refl].
  - apply refines_bind; [apply u32sub_ref|intros d; apply refines_refl].
  - destruct (type_of e1); [|apply refines_refl]. destruct (type_of e2); [|apply refines_refl].
    apply refines_bind; [apply u32add_ref|intros s; apply refines_refl].
Qed.

Lemma check_expr_type_ref e t : refines (check_expr_type true e t) (check_expr_type false e t).
Proof. unfold check_expr_type. apply refines_bind; [apply tcheck_ref|intros x; apply refines_refl]. Qed.

(** ** the line parsers *)
Ltac ref_auto :=
  repeat first
    [ apply refines_refl
    | apply refines_panic
    | apply check_expr_type_ref
    | apply b_same_ref | apply b_cmp_ref | apply b_equal_ref | apply b_implies_ref | apply b_ite_ref
    | apply b_concat_ref | apply b_slice_ref | apply b_ext_ref
    | (apply refines_bind; [|intros ?])
    | match goal with
      | |- refines (if ?c then _ else _) (if ?c then _ else _) => destruct c
      | |- refines (let '(_, _) := ?p in _) (let '(_, _) := ?p in _) => destruct p
      end ].

Lemma parse_unary_ref st toks u : refines (parse_unary true st toks u) (parse_unary false st toks u).
Proof. unfold parse_unary, lower_unary. destruct u; ref_auto. Qed.

Lemma parse_binary_ref st toks bo : refines (parse_binary true st toks bo) (parse_binary false st toks bo).
Proof. unfold parse_binary, lower_binary. destruct bo; ref_auto. Qed.

Lemma parse_ternary_ref st toks b : refines (parse_ternary true st toks b) (parse_ternary false st toks b).
Proof. unfold parse_ternary, lower_ternary. destruct b; ref_auto. Qed.

Lemma parse_line_ref st toks : refines (parse_line true st toks) (parse_line false st toks).
Proof.
  unfold parse_line. destruct toks as [|t0 rest]; [apply refines_refl|].
  destruct (parse_line_id t0) as [[id neg]|]; [|apply refines_refl].
  destruct neg; [apply refines_refl|]. destruct rest as [|op rest']; [apply refines_refl|].
  destruct (un_table op).
  { apply refines_bind; [apply parse_unary_ref|intros; apply refines_refl]. }
  destruct (bin_table op).
  { apply refines_bind; [apply parse_binary_ref|intros; apply refines_refl]. }
  apply refines_bind; [apply refines_refl|intros u0].
  destruct (seq op "ite").
  { apply refines_bind; [apply parse_ternary_ref|intros; apply refines_refl]. }
  destruct (seq op "write").
  { apply refines_bind; [apply parse_ternary_ref|intros; apply refines_refl]. }
  apply refines_refl.
Qed.

Lemma parse_fold_ref ls : forall st err, refines (parse_fold true ls st err) (parse_fold false ls st err).
Proof.
  induction ls as [|l ls IH]; intros st err; cbn [parse_fold]; [apply refines_refl|].
  pose proof (parse_line_ref st l) as Hl.
  destruct (parse_line true st l) as [st1| |k] eqn:E.
  - rewrite (Hl (no_panic_ok st1)). apply IH.
  - rewrite (Hl no_panic_err). apply IH.
  - apply refines_panic.
Qed.

Theorem parse_lines_ref ls : refines (parse_lines true ls) (parse_lines false ls).
Proof.
  unfold parse_lines, parse_raw.
  apply refines_bind; [|intros r; apply refines_refl].
  apply refines_bind; [apply parse_fold_ref|intros r; apply refines_refl].
Qed.

Theorem release_equals_debug ls :
  (forall k, parse_lines true ls <> PPanic k) -> parse_lines false ls = parse_lines true ls.
Proof. exact (parse_lines_ref ls). Qed.
