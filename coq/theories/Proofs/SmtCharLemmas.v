(** * Proofs/SmtCharLemmas.v — facts about single characters, by exhaustion over all 256. *)
From Patronus Require Import SmtSer.
Open Scope string_scope.
Open Scope list_scope.
Open Scope N_scope.

(** ** characters, by exhaustion over the 256 of them *)

Ltac all_ascii c :=
  destruct c as [b0 b1 b2 b3 b4 b5 b6 b7];
  destruct b0, b1, b2, b3, b4, b5, b6, b7.

Lemma id_char_sym c : id_char_ok c = true -> is_sym_char c = true.
Proof. all_ascii c; vm_compute; intros H; first [reflexivity | discriminate H]. Qed.

Lemma id_char_not_bar c : id_char_ok c = true -> Ascii.eqb c c_bar = false.
Proof. all_ascii c; vm_compute; intros H; first [reflexivity | discriminate H]. Qed.

Lemma id_num_digit c : id_is_num c = is_digit c.
Proof. all_ascii c; vm_compute; reflexivity. Qed.

Lemma sym_char_not_hash c : is_sym_char c = true -> Ascii.eqb c "#"%char = false.
Proof. all_ascii c; vm_compute; intros H; first [reflexivity | discriminate H]. Qed.

Lemma sym_char_quotable c : is_sym_char c = true -> quoted_char_ok c = true.
Proof. all_ascii c; vm_compute; intros H; first [reflexivity | discriminate H]. Qed.

