(** * Proofs/BVLemmas.v — range ("canonical representative") lemmas for the
    operators of [BV.v], and the bit-level toolkit used by the simplifier proofs. *)
From Coq Require Import Lia.
From Patronus Require Import BV.
Open Scope N_scope.

Lemma pow2_pos w : 0 < 2 ^ w.
Proof. apply N.neq_0_lt_0, N.pow_nonzero. discriminate. Qed.

Lemma pow2_nz w : 2 ^ w <> 0.
Proof. apply N.pow_nonzero. discriminate. Qed.

#[global] Hint Resolve pow2_pos pow2_nz : bv.

Lemma bits_bound a w i : a < 2 ^ w -> w <= i -> N.testbit a i = false.
Proof. intros H Hi. rewrite <- (N.mod_small a (2 ^ w)) by assumption. now apply N.mod_pow2_bits_high. Qed.

Lemma bound_bits a w : (forall i, w <= i -> N.testbit a i = false) -> a < 2 ^ w.
Proof.
  intros H. assert (E : a = a mod 2 ^ w).
  { apply N.bits_inj. intros i. destruct (N.lt_ge_cases i w) as [Hi|Hi].
    - now rewrite N.mod_pow2_bits_low.
    - now rewrite N.mod_pow2_bits_high, H. }
  rewrite E. apply N.mod_lt. auto with bv.
Qed.

Lemma mod_bound a w : a mod 2 ^ w < 2 ^ w.
Proof. apply N.mod_lt. auto with bv. Qed.
#[global] Hint Resolve mod_bound : bv.

Lemma land_bound a b w : a < 2 ^ w -> N.land a b < 2 ^ w.
Proof. intros Ha. apply bound_bits. intros i Hi. now rewrite N.land_spec, (bits_bound a w i). Qed.

Lemma lor_bound a b w : a < 2 ^ w -> b < 2 ^ w -> N.lor a b < 2 ^ w.
Proof. intros Ha Hb. apply bound_bits. intros i Hi. now rewrite N.lor_spec, (bits_bound a w i), (bits_bound b w i). Qed.

Lemma lxor_bound a b w : a < 2 ^ w -> b < 2 ^ w -> N.lxor a b < 2 ^ w.
Proof. intros Ha Hb. apply bound_bits. intros i Hi. now rewrite N.lxor_spec, (bits_bound a w i), (bits_bound b w i). Qed.

Lemma ones_bound w : N.ones w < 2 ^ w.
Proof. rewrite N.ones_equiv. pose proof (pow2_pos w). lia. Qed.

Lemma lnot_bound a w : a < 2 ^ w -> N.lnot a w < 2 ^ w.
Proof. intros Ha. unfold N.lnot. apply lxor_bound; [assumption|apply ones_bound]. Qed.

Lemma b2n_bound b : b2n b < 2 ^ 1.
Proof. destruct b; cbn; lia. Qed.

Lemma bv_not_bound w a : a < 2 ^ w -> bv_not w a < 2 ^ w.
Proof. apply lnot_bound. Qed.

Lemma bv_neg_bound w a : bv_neg w a < 2 ^ w.
Proof. unfold bv_neg. auto with bv. Qed.

Lemma bv_add_bound w a b : bv_add w a b < 2 ^ w. Proof. unfold bv_add. auto with bv. Qed.
Lemma bv_sub_bound w a b : bv_sub w a b < 2 ^ w. Proof. unfold bv_sub. auto with bv. Qed.
Lemma bv_mul_bound w a b : bv_mul w a b < 2 ^ w. Proof. unfold bv_mul. auto with bv. Qed.

Lemma bv_concat_bound wa wb a b : a < 2 ^ wa -> b < 2 ^ wb -> bv_concat wb a b < 2 ^ (wa + wb).
Proof.
  intros Ha Hb. unfold bv_concat. rewrite N.pow_add_r.
  assert (a * 2 ^ wb + b < (a + 1) * 2 ^ wb) by lia.
  assert ((a + 1) * 2 ^ wb <= 2 ^ wa * 2 ^ wb) by (apply N.mul_le_mono_r; lia). lia.
Qed.

Lemma bv_slice_bound hi lo a : bv_slice hi lo a < 2 ^ (hi - lo + 1).
Proof. unfold bv_slice. auto with bv. Qed.

Lemma pow2_le_mono a b : a <= b -> 2 ^ a <= 2 ^ b.
Proof. intros. apply N.pow_le_mono_r; lia. Qed.

Lemma bv_zext_bound w by_ a : a < 2 ^ w -> bv_zext a < 2 ^ (w + by_).
Proof. intros Ha. unfold bv_zext. pose proof (pow2_le_mono w (w + by_)). lia. Qed.

Lemma bv_sext_bound w by_ a : a < 2 ^ w -> bv_sext w by_ a < 2 ^ (w + by_).
Proof.
  intros Ha. unfold bv_sext. destruct (msb w a).
  - rewrite N.ones_equiv, N.pow_add_r. pose proof (pow2_pos by_). pose proof (pow2_pos w). nia.
  - pose proof (pow2_le_mono w (w + by_)). lia.
Qed.

Lemma bv_shl_bound w a b : bv_shl w a b < 2 ^ w.
Proof. unfold bv_shl. destruct (b <? w); auto with bv. Qed.

Lemma div_le a b : a / b <= a.
Proof.
  destruct (N.eq_dec b 0) as [->|Hb]; [destruct a; cbn; lia|].
  apply N.div_le_upper_bound; [assumption|]. nia.
Qed.

Lemma bv_lshr_bound w a b : a < 2 ^ w -> bv_lshr w a b < 2 ^ w.
Proof.
  intros Ha. unfold bv_lshr. destruct (b <? w); auto with bv.
  pose proof (div_le a (2 ^ b)). lia.
Qed.

Lemma bv_ashr_bound w a b : a < 2 ^ w -> bv_ashr w a b < 2 ^ w.
Proof.
  intros Ha. unfold bv_ashr. destruct (msb w a).
  - apply bv_not_bound, bv_lshr_bound, bv_not_bound, Ha.
  - apply bv_lshr_bound, Ha.
Qed.

Lemma bv_udiv_bound w a b : a < 2 ^ w -> bv_udiv w a b < 2 ^ w.
Proof.
  intros Ha. unfold bv_udiv. destruct (b =? 0); [apply ones_bound|].
  pose proof (div_le a b). lia.
Qed.

Lemma bv_urem_bound w a b : a < 2 ^ w -> bv_urem w a b < 2 ^ w.
Proof.
  intros Ha. unfold bv_urem. destruct (N.eqb_spec b 0); [assumption|].
  pose proof (N.mod_le a b n). lia.
Qed.

Lemma bv_sdiv_bound w a b : a < 2 ^ w -> bv_sdiv w a b < 2 ^ w.
Proof.
  intros Ha. unfold bv_sdiv.
  destruct (msb w a), (msb w b); auto using bv_neg_bound, bv_udiv_bound.
Qed.

Lemma bv_srem_bound w a b : a < 2 ^ w -> bv_srem w a b < 2 ^ w.
Proof.
  intros Ha. unfold bv_srem.
  destruct (msb w a), (msb w b); auto using bv_neg_bound, bv_urem_bound.
Qed.

Lemma bv_smod_bound w a b : a < 2 ^ w -> bv_smod w a b < 2 ^ w.
Proof.
  intros Ha. unfold bv_smod.
  set (abs_a := if msb w a then bv_neg w a else a).
  assert (Habs : abs_a < 2 ^ w) by (unfold abs_a; destruct (msb w a); auto using bv_neg_bound).
  pose proof (bv_urem_bound w abs_a (if msb w b then bv_neg w b else b) Habs) as Hu.
  destruct (_ =? 0); [assumption|].
  destruct (msb w a), (msb w b); auto using bv_neg_bound, bv_add_bound.
Qed.

Lemma bv_implies_bound a b : a < 2 ^ 1 -> b < 2 ^ 1 -> bv_implies a b < 2 ^ 1.
Proof. intros. unfold bv_implies. apply lor_bound; [apply lnot_bound|]; assumption. Qed.
