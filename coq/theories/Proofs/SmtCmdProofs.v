(** * Proofs/SmtCmdProofs.v — C05: the commands the writer produces are accepted by the
    reference front end; the two recorded defects as refutations. *)
From Coq Require Import Lia.
From Patronus Require Import SmtSer BVLemmas ExprLemmas EvalProofs SmtCharLemmas SmtSerLemmas SmtSemLemmas SmtSerProofs.
Open Scope string_scope.
Open Scope list_scope.
Open Scope N_scope.

Section CV.
Variable cv : variant.
Local Notation is_simple_id := (SmtSer.is_simple_id cv) (only parsing).
Local Notation escape_id := (SmtSer.escape_id cv) (only parsing).
Local Notation ser := (SmtSer.ser cv) (only parsing).
Local Notation ser_cmd := (SmtSer.ser_cmd cv) (only parsing).
Local Notation name_ok := (SmtSer.name_ok cv) (only parsing).
Local Notation declared := (SmtSer.declared cv) (only parsing).
Local Notation symbols_declared := (SmtSer.symbols_declared cv) (only parsing).
Local Notation is_simple_id_loop := (SmtSerLemmas.is_simple_id_loop cv) (only parsing).
Local Notation is_simple_id_chars := (SmtSerLemmas.is_simple_id_chars cv) (only parsing).
Local Notation is_simple_id_first := (SmtSerLemmas.is_simple_id_first cv) (only parsing).
Local Notation escape_sound_gen := (SmtSerLemmas.escape_sound_gen cv) (only parsing).
Local Notation escape_sound_lemma := (SmtSerLemmas.escape_sound_lemma cv) (only parsing).
Local Notation good := (SmtSerProofs.good cv) (only parsing).
Local Notation symbols_declared_app := (SmtSerProofs.symbols_declared_app cv) (only parsing).
Local Notation name_ok_facts := (SmtSerProofs.name_ok_facts cv) (only parsing).
Local Notation symbol_good := (SmtSerProofs.symbol_good cv) (only parsing).
Local Notation ser_core := (SmtSerProofs.ser_core cv) (only parsing).
Local Notation ser_eq := (SmtSerProofs.ser_eq cv) (only parsing).
Local Notation core_good := (SmtSerProofs.core_good cv) (only parsing).
Local Notation wrap_good_e := (SmtSerProofs.wrap_good_e cv) (only parsing).
Local Notation ser_good := (SmtSerProofs.ser_good cv) (only parsing).
Local Notation ser_sorted_sound_lemma := (SmtSerProofs.ser_sorted_sound_lemma cv) (only parsing).
Local Notation name_ok_intro := (SmtSerProofs.name_ok_intro cv) (only parsing).
Local Notation noop_slice_latent := (SmtSerProofs.noop_slice_latent cv) (only parsing).


Definition expr_ok (G : sctx) (e : expr) : Prop :=
  wt e = true /\ built e = true /\ symbols_declared G e = true.

(** a symbol that may be introduced in context [G] *)
Definition fresh_sym (G : sctx) (s : expr) : Prop :=
  match symbol_name_of s with
  | Some n => name_ok n = true /\ G n = None /\ wt s = true
  | None => False
  end.

Definition cmd_pre (G : sctx) (c : smt_cmd) : Prop :=
  match c with
  | CAssert e => expr_ok G e /\ type_of e = TBV 1
  | CDeclareConst s => fresh_sym G s
  | CDefineConst s v => fresh_sym G s /\ expr_ok G v /\ type_of v = type_of s
  | CCheckSatAssuming es => Forall (fun e => expr_ok G e /\ type_of e = TBV 1) es
  | CGetValue e => expr_ok G e
  | CSetOption k v | CSetInfo k v =>
      is_keyword (String.append ":" k) = true /\ name_chars_ok v = true /\ is_reserved v = false
  | _ => True
  end.

Definition cmd_post (G : sctx) (c : smt_cmd) : sctx :=
  match c with
  | CDeclareConst s | CDefineConst s _ =>
      match symbol_name_of s with Some n => upd G n (sort_of_ty (type_of s)) | None => G end
  | _ => G
  end.

Lemma name_ok_binder n : name_ok n = true -> binder_name (escape_id n) = Some n.
Proof.
  unfold SmtSer.name_ok, binder_name. destruct (symbol_name (escape_id n)) as [n'|]; [|discriminate].
  rewrite andb_true_iff, negb_true_iff. intros [He Ht]. apply String.eqb_eq in He. subst n'. now rewrite Ht.
Qed.

Lemma declare_fresh G n s : name_ok n = true -> G n = None -> declare G (escape_id n) s = Some (upd G n s).
Proof. intros Hn Hg. unfold declare. now rewrite (name_ok_binder n Hn), Hg. Qed.

Lemma symbol_ty_pos s n : symbol_name_of s = Some n -> wt s = true -> ty_pos (type_of s).
Proof. intros _ H. now apply wt_pos. Qed.

Lemma expr_sort G e : expr_ok G e -> scheck G (ser e false) = Some (sort_for (type_of e) false).
Proof. intros (Hwt & Hb & Hs). apply (ser_sorted_sound_lemma G e false Hwt Hb Hs). Qed.

Lemma sort_for_false t : sort_for t false = sort_of_ty t.
Proof. destruct t; reflexivity. Qed.

Lemma logic_known l : str_in (logic_str l) logic_names = true.
Proof. destruct l; reflexivity. Qed.

(** [cmd_check] on each command name, by computation on the name *)
Lemma cc_assert G t :
  cmd_check G (SxList [SxAtom "assert"; t]) = match scheck G t with Some SoBool => Some G | _ => None end.
Proof. reflexivity. Qed.
Lemma cc_declare G x so :
  cmd_check G (SxList [SxAtom "declare-const"; SxAtom x; so]) =
  match sort_of_sx so with Some s => declare G x s | None => None end.
Proof. reflexivity. Qed.
Lemma cc_define G x so t :
  cmd_check G (SxList [SxAtom "define-fun"; SxAtom x; SxList []; so; t]) =
  match sort_of_sx so, scheck G t with
  | Some s, Some s' => if ssort_eqb s s' then declare G x s else None
  | _, _ => None
  end.
Proof. reflexivity. Qed.
Lemma cc_csa G ts :
  cmd_check G (SxList [SxAtom "check-sat-assuming"; SxList ts]) =
  if forallb (fun t => match scheck G t with Some SoBool => true | _ => false end) ts then Some G else None.
Proof. reflexivity. Qed.
Lemma cc_getvalue G t :
  cmd_check G (SxList [SxAtom "get-value"; SxList [t]]) =
  if forallb (fun t => match scheck G t with Some _ => true | None => false end) [t] then Some G else None.
Proof. reflexivity. Qed.
Lemma cc_push G n :
  cmd_check G (SxList [SxAtom "push"; SxAtom n]) = match numeral n with Some _ => Some G | None => None end.
Proof. reflexivity. Qed.
Lemma cc_pop G n :
  cmd_check G (SxList [SxAtom "pop"; SxAtom n]) = match numeral n with Some _ => Some G | None => None end.
Proof. reflexivity. Qed.
Lemma cc_setoption G k v :
  cmd_check G (SxList [SxAtom "set-option"; SxAtom k; v]) = if is_keyword k && is_attr_value v then Some G else None.
Proof. reflexivity. Qed.

Lemma cc_setinfo G k v :
  cmd_check G (SxList [SxAtom "set-info"; SxAtom k; v]) = if is_keyword k && is_attr_value v then Some G else None.
Proof. reflexivity. Qed.

Theorem ser_cmd_wf_lemma :
  forall (G : sctx) (c : smt_cmd), cmd_pre G c ->
    exists t, ser_cmd c = Ok t /\ cmd_check G t = Some (cmd_post G c).
Proof.
  intros G c Hpre. destruct c as [ | | l | k v | k v | e | s | s v | es | n | n | e | ]; cbn [cmd_pre cmd_post] in Hpre |- *.
  - eexists; split; reflexivity.
  - eexists; split; reflexivity.
  - eexists; split; [reflexivity|]. destruct l; reflexivity.
  - destruct Hpre as (Hk & Hc & Hr). eexists; split; [reflexivity|].
    rewrite cc_setoption, Hk. unfold is_attr_value. rewrite (escape_sound_lemma v Hc Hr). now rewrite orb_true_r.
  - destruct Hpre as (Hk & Hc & Hr). eexists; split; [reflexivity|].
    destruct cv; [rewrite cc_setoption | rewrite cc_setinfo | rewrite cc_setinfo]; rewrite Hk; unfold is_attr_value;
      rewrite (SmtSerLemmas.escape_sound_lemma _ v Hc Hr); now rewrite orb_true_r.
  - destruct Hpre as (Hok & Ht). eexists; split; [reflexivity|].
    rewrite cc_assert, (expr_sort G e Hok), Ht. reflexivity.
  - unfold fresh_sym in Hpre. unfold ser_cmd. destruct (symbol_name_of s) as [n|] eqn:En; [|contradiction].
    destruct Hpre as (Hn & Hg & Hwt). eexists; split; [reflexivity|].
    rewrite cc_declare, (sort_of_sx_ser_type _ (wt_pos s Hwt)). now apply declare_fresh.
  - destruct Hpre as (Hf & Hok & Ht). unfold fresh_sym in Hf. unfold ser_cmd.
    destruct (symbol_name_of s) as [n|] eqn:En; [|contradiction].
    destruct Hf as (Hn & Hg & Hwt). eexists; split; [reflexivity|].
    rewrite cc_define, (sort_of_sx_ser_type _ (wt_pos s Hwt)), (expr_sort G v Hok), Ht, sort_for_false, ssort_eqb_refl.
    now apply declare_fresh.
  - eexists; split; [reflexivity|]. rewrite cc_csa.
    assert (H : forallb (fun t => match scheck G t with Some SoBool => true | _ => false end)
                        (map (fun e => ser e false) es) = true).
    { induction Hpre as [| e es' [Hok Ht] _ IH]; [reflexivity|].
      cbn [map forallb]. rewrite (expr_sort G e Hok), Ht, IH. reflexivity. }
    now rewrite H.
  - eexists; split; [reflexivity|]. now rewrite cc_push, numeral_dec.
  - eexists; split; [reflexivity|]. now rewrite cc_pop, numeral_dec.
  - eexists; split; [reflexivity|]. rewrite cc_getvalue. cbn [forallb]. now rewrite (expr_sort G e Hpre).
  - eexists; split; reflexivity.
Qed.

(** an assumption that is a one-bit symbol, or the negation of one, is a propositional
    literal in the sense of the standard *)
Lemma assumption_literal n :
  name_ok n = true ->
  is_prop_literal (ser (BVSymbol n 1) false) = true /\
  is_prop_literal (ser (BVNot (BVSymbol n 1) 1) false) = true.
Proof.
  intros Hn. destruct (name_ok_facts n Hn) as (Hs & _).
  cbn [SmtSer.ser wrap is_1bit type_of produces_bv consumes_bv]. change (1 =? 1) with true. cbn [andb negb wrap].
  unfold is_prop_literal. rewrite Hs. split; reflexivity.
Qed.

End CV.

(** ** recorded defect 1 (current code): SetInfo is written with the command name of SetOption *)

Theorem cmd_head_refuted :
  exists c t, ser_cmd Cur c = Ok t /\ sx_head t <> Some (cmd_std_head c).
Proof. exists (CSetInfo "status" "sat"). eexists. split; [reflexivity|]. vm_compute. discriminate. Qed.

Theorem cmd_head_outside_known :
  forall c t, (forall k v, c <> CSetInfo k v) -> ser_cmd Cur c = Ok t -> sx_head t = Some (cmd_std_head c).
Proof.
  intros c t Hk H. destruct c; cbn [ser_cmd] in H;
    try (inversion H; subst; reflexivity).
  - exfalso. eapply Hk. reflexivity.
  - destruct (symbol_name_of sym); inversion H; subst; reflexivity.
  - destruct (symbol_name_of sym); inversion H; subst; reflexivity.
Qed.

(** repaired code: every command carries the name SMT-LIB gives it *)
Theorem cmd_head_repaired :
  forall v c t, v <> Cur -> ser_cmd v c = Ok t -> sx_head t = Some (cmd_std_head c).
Proof.
  intros v c t Hv H. destruct v; [now elim Hv | |]; destruct c; cbn [ser_cmd] in H;
    try (inversion H; subst; reflexivity);
    destruct (symbol_name_of sym); inversion H; subst; reflexivity.
Qed.

Theorem cmd_head_fix :
  forall c t, ser_cmd Fix c = Ok t -> sx_head t = Some (cmd_std_head c).
Proof. intros c t. apply cmd_head_repaired. discriminate. Qed.

(** ** recorded defect 2 (current code): a reserved word is written without quotes, although
    the quoted form would be a symbol *)

Theorem escape_reserved_refuted :
  exists n, name_chars_ok n = true /\ symbol_name (escape_id Cur n) = None /\
            symbol_name (String.append "|" (String.append n "|")) = Some n.
Proof. exists "push". vm_compute. repeat split. Qed.

Theorem escape_sound_outside_known :
  forall n, name_chars_ok n = true -> is_reserved n = false -> symbol_name (escape_id Cur n) = Some n.
Proof. exact (escape_sound_lemma Cur). Qed.

(** repaired code: [escape_sound] without exception *)
Theorem escape_sound_repaired_lemma :
  forall v n, v <> Cur -> name_chars_ok n = true -> symbol_name (escape_id v n) = Some n.
Proof. exact escape_sound_repaired. Qed.

Theorem escape_sound_fix_lemma :
  forall n, name_chars_ok n = true -> symbol_name (escape_id Fix n) = Some n.
Proof. exact escape_sound_fix. Qed.
