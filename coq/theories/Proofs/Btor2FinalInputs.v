(** * Proofs/Btor2FinalInputs.v — the inputs of the final system of the btor2 reader have the sorts their
    input lines declare (C08): [input_sorts val ls] (Spec/Btor2FinalSpec.v) lists, in text order, the sort
    that the sort token of every input line denotes in the interpreter's sort table at that line. *)
From Coq Require Import List Lia Bool String NArith FMapPositive.
From Patronus Require Import Expr Eval SysClosed Btor2Parse Btor2Sem Btor2Agree Btor2ExprFacts Btor2ParseProofs Btor2NoCrash
     Btor2Sound Btor2Fix Btor2SoundFix Btor2RoundTripSpec Btor2RtExpr Btor2FinalSpec Btor2Final.
Import ListNotations.
Open Scope list_scope.
Open Scope N_scope.

Lemma b_symbol_type name t sym : b_symbol name t = POk sym -> type_of sym = t.
Proof.
  unfold b_symbol. destruct t as [w|iw dw]; [destruct (w =? 0); intros H; inversion H; reflexivity|intros H; inversion H; reflexivity].
Qed.

(** what one accepted line does to the list of inputs *)
Lemma parse_line_inputs dbg st toks st' :
  parse_line dbg st toks = POk st' ->
  if is_input_line toks
  then exists tpe sym, get_tpe st (tokn toks 2) = POk tpe /\ type_of sym = tpe /\ p_inputs st' = p_inputs st ++ [sym]
  else p_inputs st' = p_inputs st.
Proof.
  intros H. unfold parse_line in H.
  destruct toks as [|t0 rest]; [inversion H; reflexivity|].
  destruct (parse_line_id t0) as [[id neg]|]; [|discriminate].
  destruct neg; [discriminate|]. destruct rest as [|op rest']; [discriminate|].
  change (is_input_line (t0 :: op :: rest')) with (seq op "input").
  destruct (seq op "input") eqn:Ein.
  - apply String.eqb_eq in Ein. subst op.
    assert (E1 : un_table "input" = None) by (vm_compute; reflexivity).
    assert (E2 : bin_table "input" = None) by (vm_compute; reflexivity).
    rewrite E1, E2 in H. binv H u0 Hu0.
    repeat match type of H with
           | context[seq "input" ?s] =>
               let b := eval vm_compute in (seq "input" s) in change (seq "input" s) with b in H
           end.
    cbn [orb] in H. unfold parse_input in H. binv H tpe Ht. unfold label_name, add_unique in H. binv H sym Hs. inversion H.
    exists tpe, sym. split; [exact Ht|]. split; [eapply b_symbol_type; eauto|]. decl_simpl; reflexivity.
  - destruct (un_table op). { binv H r Hr. inversion H. destruct r as [e n]. decl_simpl; reflexivity. }
    destruct (bin_table op). { binv H r Hr. inversion H. destruct r as [e n]. decl_simpl; reflexivity. }
    binv H u0 Hu0.
    destruct (seq op "ite"). { binv H r Hr. inversion H. destruct r as [e n]. decl_simpl; reflexivity. }
    destruct (seq op "write"). { binv H r Hr. inversion H. destruct r as [e n]. decl_simpl; reflexivity. }
    destruct (seq op "sort").
    { unfold parse_sort in H. destruct (seq _ "bitvec").
      - binv H u Hu. binv H w Hw. inversion H. reflexivity.
      - destruct (seq _ "array"); [|discriminate]. binv H u Hu. binv H it Hit. binv H dt Hdt.
        destruct it; [|discriminate]. destruct dt; [|discriminate]. inversion H. reflexivity. }
    destruct (seq op "const" || seq op "constd" || seq op "consth" || seq op "zero" || seq op "one" || seq op "ones").
    { binv H r Hr. inversion H. destruct r as [e n]. decl_simpl; reflexivity. }
    destruct (seq op "state").
    { unfold parse_state in H. binv H tpe Ht. unfold label_name, add_unique in H. binv H sym Hs. inversion H. decl_simpl; reflexivity. }

    assert (Hin : forall b, parse_init_next st (t0 :: op :: rest') b = POk st' -> p_inputs st' = p_inputs st).
    { intros b Hb. unfold parse_init_next in Hb. binv Hb u Hu. binv Hb tpe Ht. binv Hb idx Hi.
      destruct (negb (ty_eqb _ tpe)); [discriminate|]. binv Hb maybe Hm. binv Hb e He.
      destruct (negb (ty_eqb _ _)); [discriminate|]. inversion Hb. reflexivity. }
    destruct (seq op "init"); [apply (Hin true H)|]. destruct (seq op "next"); [apply (Hin false H)|].
    destruct (seq op "output" || seq op "bad" || seq op "constraint" || seq op "fair"); [|discriminate].
    unfold parse_prop in H. binv H e He. unfold label_name, add_unique in H.
    destruct (seq op "output"). { inversion H. decl_simpl; reflexivity. }
    destruct (seq op "bad"). { inversion H. decl_simpl; reflexivity. }
    destruct (seq op "constraint"); [|discriminate]. inversion H. decl_simpl; reflexivity.
Qed.

Lemma parse_fold_v_grows v ls : is_fix v = true -> forall st stf,
  parse_fold_v v true ls st false = POk (stf, false) -> grows st stf.
Proof.
  intros Hv. induction ls as [|l ls IH]; intros st stf H; cbn [parse_fold_v] in H.
  - inversion H; apply grows_refl.
  - destruct (parse_line_v v true st l) as [s1| |k] eqn:E1; try discriminate.
    + apply (fix_line_ok v _ _ _ _ Hv) in E1. destruct E1 as [_ E1].
      eapply grows_trans; [eapply parse_line_grows; eauto|apply IH; auto].
    + exfalso. eapply fold_v_no_err; eauto.
Qed.

Section InputSorts.
  Variable v : code_variant.
  Hypothesis Hv : is_fix v = true.
  Variable rho : env.
  Hypothesis Hrho : env_wf rho.
  Variable val : b2val.

  Lemma fold_input_sorts ls : forall st S stf Sf,
    inv st -> R rho st S ->
    parse_fold_v v true ls st false = POk (stf, false) ->
    agree rho val (p_inputs stf) (map st_sym (p_states stf)) ->
    sem_fold val ls S = B2Ok Sf ->
    exists r, p_inputs stf = p_inputs st ++ r /\ Forall2 (fun e t => type_of e = t) r (input_sorts_from val ls S).
  Proof.
    induction ls as [|l ls IH]; intros st S stf Sf Hinv HR H Hag Hs; cbn [parse_fold_v sem_fold input_sorts_from] in *.
    - inversion H; subst. exists []. rewrite app_nil_r. split; [reflexivity|constructor].
    - destruct (parse_line_v v true st l) as [st1| |k] eqn:E; [| |discriminate].
      + apply (fix_line_ok v _ _ _ _ Hv) in E. destruct E as [Hpre E]. apply fix_pre_parts in Hpre. destruct Hpre as (_ & Hz & _).
        pose proof (parse_fold_v_grows v ls Hv _ _ H) as Hg.
        pose proof (line_sim rho Hrho val st S l st1 Hinv HR E (agree_grows _ _ _ _ Hg Hag)) as Hl.
        destruct (sem_line val S l) as [S1|e] eqn:Es; cbn [b2bind sconsistent] in *; [|discriminate].
        assert (Hinv1 : inv st1) by (eapply parse_line_inv; eauto).
        destruct (IH st1 S1 stf Sf Hinv1 Hl H Hag Hs) as (r1 & Hr1 & Hf1).
        pose proof (parse_line_inputs true st l st1 E) as Hli.
        destruct (is_input_line l).
        * destruct Hli as (tpe & sym & Ht & Hty & Hin). rewrite (sort_agree rho st S _ tpe HR Ht).
          exists (sym :: r1). split; [rewrite Hr1, Hin, <- app_assoc; reflexivity|]. cbn [app]. constructor; assumption.
        * exists r1. split; [rewrite Hr1, Hli; reflexivity|exact Hf1].
      + exfalso. eapply fold_v_no_err; eauto.
  Qed.
End InputSorts.

(** the k-th input of the final system has the sort the k-th input line declares *)
Theorem final_input_sorts v ls fin nin pat rho val S :
  is_fix v = true -> env_wf rho ->
  parse_lines_v v true ls = POk fin ->
  reader_shape v true ls = Some (nin, pat) ->
  final_env_agrees rho val fin nin pat ->
  sem_run val ls = B2Ok S ->
  Forall2 (fun e t => type_of e = t) (line_inputs fin nin) (input_sorts val ls).
Proof.
  intros Hv Hrho Hp Hsh Hag Hs.
  apply parse_lines_v_inv in Hp. destruct Hp as (st & Hf & Hraw & ->).
  destruct (reader_shape_inv _ _ _ _ _ _ Hraw Hsh) as [-> ->].
  set (ren := renames_of st) in *. set (rho0 := env_pull (rename_sym ren) rho).
  assert (Hrho0 : env_wf rho0) by (apply env_pull_wf; [apply rename_sym_keeping|exact Hrho]).
  pose proof (line_inputs_post ren (sys_of_pstate st)) as E1. pose proof (line_states_post ren (sys_of_pstate st)) as E2.
  cbn [sys_of_pstate s_inputs s_states] in E1, E2.
  assert (Hag0 : agree rho0 val (p_inputs st) (map st_sym (p_states st))).
  { apply agree_pull. unfold final_env_agrees in Hag. rewrite E1, E2 in Hag. exact Hag. }
  destruct (fold_input_sorts v Hv rho0 Hrho0 val ls p_empty b2sem_empty st S inv_empty (R_empty rho0) Hf Hag0 Hs) as (r & Hr & Hfa).
  cbn [p_empty p_inputs app] in Hr. subst r. rewrite E1. apply Forall2_map_l.
  eapply Forall2_impl; [|exact Hfa]. cbn beta. intros e t He. rewrite type_of_rename. exact He.
Qed.
