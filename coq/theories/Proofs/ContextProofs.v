(** * Proofs/ContextProofs.v — lemmas for C12 (Model/Context.v)

    Part 1: indexed sets ([cx_intern]): prefix, NoDup, idempotence.
    Part 2: equality tests decide equality.
    Part 3: the value interner: injective, append only.
    Part 4: contexts: extension order, invariant, every builder is monotone,
            idempotent once it has succeeded, and preserves the invariant.
    Part 5: the statements used by Props/C12.v. *)
From Coq Require Import NArith PeanoNat String List Bool Lia.
From Patronus Require Import Context.
Import ListNotations.
Open Scope N_scope.

(* ================================================================== Part 1 *)
Definition prefix {A : Type} (l l' : list A) : Prop := exists s, l' = l ++ s.

Lemma prefix_refl {A} (l : list A) : prefix l l.
Proof. exists []. now rewrite app_nil_r. Qed.

Lemma prefix_trans {A} (a b c : list A) : prefix a b -> prefix b c -> prefix a c.
Proof. intros [s ->] [t ->]. exists (s ++ t). now rewrite app_assoc. Qed.

Lemma prefix_app {A} (l s : list A) : prefix l (l ++ s).
Proof. now exists s. Qed.

Lemma cx_len_spec {A} (l : list A) (acc : N) : cx_len l acc = acc + N.of_nat (length l).
Proof.
  revert acc. induction l as [|x t IH]; intro acc; cbn [cx_len length].
  - cbn. lia.
  - rewrite IH. lia.
Qed.

Lemma cx_len0 {A} (l : list A) : cx_len l 0 = N.of_nat (length l).
Proof. rewrite cx_len_spec. lia. Qed.

Lemma cx_nth_spec {A} (l : list A) (i : N) : cx_nth l i = nth_error l (N.to_nat i).
Proof.
  revert i. induction l as [|x t IH]; intro i; cbn [cx_nth].
  - now destruct (N.to_nat i).
  - destruct (N.eqb_spec i 0) as [->|Hne]; [reflexivity|].
    rewrite IH. replace (N.to_nat i) with (S (N.to_nat (N.pred i))) by lia. reflexivity.
Qed.

Lemma cx_nth_lt {A} (l : list A) (i : N) (x : A) : cx_nth l i = Some x -> i < N.of_nat (length l).
Proof.
  rewrite cx_nth_spec. intro H.
  assert (N.to_nat i < length l)%nat by (apply nth_error_Some; congruence). lia.
Qed.

Lemma cx_nth_prefix {A} (l l' : list A) (i : N) (x : A) :
  prefix l l' -> cx_nth l i = Some x -> cx_nth l' i = Some x.
Proof.
  intros [s ->]. rewrite !cx_nth_spec. intro H.
  rewrite nth_error_app1; [exact H|]. apply nth_error_Some. congruence.
Qed.

Lemma cx_nth_prefix_lt {A} (l l' : list A) (i : N) :
  prefix l l' -> i < N.of_nat (length l) -> cx_nth l' i = cx_nth l i.
Proof.
  intros [s ->] H. rewrite !cx_nth_spec. apply nth_error_app1. lia.
Qed.

Lemma cx_nth_app_len {A} (l : list A) (x : A) (s : list A) :
  cx_nth (l ++ x :: s) (N.of_nat (length l)) = Some x.
Proof.
  rewrite cx_nth_spec, Nat2N.id, nth_error_app2 by lia. now rewrite Nat.sub_diag.
Qed.

Lemma cx_nth_In {A} (l : list A) (i : N) (x : A) : cx_nth l i = Some x -> In x l.
Proof. rewrite cx_nth_spec. apply nth_error_In. Qed.

Lemma In_cx_nth {A} (l : list A) (x : A) : In x l -> exists i, cx_nth l i = Some x.
Proof.
  intro H. apply In_nth_error in H as [n Hn]. exists (N.of_nat n).
  now rewrite cx_nth_spec, Nat2N.id.
Qed.

Lemma NoDup_cx_nth_inj {A} (l : list A) (i j : N) (x : A) :
  NoDup l -> cx_nth l i = Some x -> cx_nth l j = Some x -> i = j.
Proof.
  intros ND Hi Hj. rewrite cx_nth_spec in Hi, Hj.
  assert (N.to_nat i = N.to_nat j).
  { eapply NoDup_nth_error; eauto.
    - apply nth_error_Some. congruence.
    - congruence. }
  lia.
Qed.

Section Intern.
  Context {A : Type} (eqb : A -> A -> bool).
  Hypothesis eqb_eq : forall x y, eqb x y = true <-> x = y.

  Lemma eqb_refl_ x : eqb x x = true.
  Proof. now apply eqb_eq. Qed.

  Lemma eqb_neq x y : x <> y -> eqb x y = false.
  Proof. intro H. destruct (eqb x y) eqn:E; [|reflexivity]. apply eqb_eq in E. contradiction. Qed.

  Lemma cx_find_none x l i : cx_find eqb x l i = None <-> ~ In x l.
  Proof.
    revert i. induction l as [|y t IH]; intro i; cbn [cx_find In].
    - tauto.
    - destruct (eqb x y) eqn:E.
      + apply eqb_eq in E. subst. split; [discriminate|]. intro H. exfalso. apply H. now left.
      + rewrite IH. split.
        * intros H [->|H']; [rewrite eqb_refl_ in E; discriminate|contradiction].
        * intros H H'. apply H. now right.
  Qed.

  Lemma cx_find_some x l i j :
    cx_find eqb x l i = Some j ->
    i <= j /\ cx_nth l (j - i) = Some x /\ ~ In x (firstn (N.to_nat (j - i)) l).
  Proof.
    revert i. induction l as [|y t IH]; intro i; cbn [cx_find]; [discriminate|].
    destruct (eqb x y) eqn:E.
    - intros [= <-]. apply eqb_eq in E. subst y. rewrite N.sub_diag. cbn. repeat split; try lia; tauto.
    - intro H. apply IH in H as (Hle & Hn & Hf).
      assert (j - i <> 0) by lia.
      repeat split; [lia| |].
      + cbn [cx_nth]. destruct (N.eqb_spec (j - i) 0); [lia|].
        replace (N.pred (j - i)) with (j - N.succ i) by lia. exact Hn.
      + replace (N.to_nat (j - i)) with (S (N.to_nat (j - N.succ i))) by lia.
        cbn [firstn In]. intros [->|H']; [rewrite eqb_refl_ in E; discriminate|contradiction].
  Qed.

  Lemma cx_find_app x l s i j : cx_find eqb x l i = Some j -> cx_find eqb x (l ++ s) i = Some j.
  Proof.
    revert i. induction l as [|y t IH]; intro i; cbn [cx_find app]; [discriminate|].
    destruct (eqb x y); [auto|apply IH].
  Qed.

  Lemma cx_find_app_none x l s i :
    cx_find eqb x l i = None -> cx_find eqb x (l ++ s) i = cx_find eqb x s (i + N.of_nat (length l)).
  Proof.
    revert i. induction l as [|y t IH]; intro i; cbn [cx_find app length].
    - intros _. f_equal. lia.
    - destruct (eqb x y); [discriminate|]. intro H. rewrite IH by exact H. f_equal. lia.
  Qed.

  Lemma cx_intern_prefix x l : prefix l (fst (cx_intern eqb x l)).
  Proof.
    unfold cx_intern. destruct (cx_find eqb x l 0); cbn [fst]; [apply prefix_refl|apply prefix_app].
  Qed.

  Lemma cx_intern_nth x l : cx_nth (fst (cx_intern eqb x l)) (snd (cx_intern eqb x l)) = Some x.
  Proof.
    unfold cx_intern. destruct (cx_find eqb x l 0) as [j|] eqn:E; cbn [fst snd].
    - apply cx_find_some in E as (_ & H & _). now rewrite N.sub_0_r in H.
    - rewrite cx_len0. apply cx_nth_app_len.
  Qed.

  Lemma NoDup_snoc (l : list A) (x : A) : NoDup l -> ~ In x l -> NoDup (l ++ [x]).
  Proof.
    induction l as [|y t IH]; intros ND Hn; cbn [app].
    - constructor; [tauto|constructor].
    - inversion ND as [|? ? Hy ND']; subst. constructor.
      + rewrite in_app_iff. cbn [In]. intros [H|[H|[]]]; [contradiction|]. subst. apply Hn. now left.
      + apply IH; [exact ND'|]. intro H. apply Hn. now right.
  Qed.

  Lemma cx_intern_nodup x l : NoDup l -> NoDup (fst (cx_intern eqb x l)).
  Proof.
    intro ND. unfold cx_intern. destruct (cx_find eqb x l 0) eqn:E; cbn [fst]; [exact ND|].
    apply cx_find_none in E. now apply NoDup_snoc.
  Qed.

  (** once interned, interning again in any extension changes nothing and gives the same index *)
  Lemma cx_intern_stable x l l' :
    prefix (fst (cx_intern eqb x l)) l' -> cx_intern eqb x l' = (l', snd (cx_intern eqb x l)).
  Proof.
    unfold cx_intern. destruct (cx_find eqb x l 0) as [j|] eqn:E; cbn [fst snd]; intros [s ->].
    - now rewrite (cx_find_app _ _ s _ _ E).
    - rewrite <- app_assoc. rewrite cx_find_app_none by exact E.
      cbn [app cx_find]. rewrite eqb_refl_. now rewrite cx_len0, N.add_0_l.
  Qed.

  Lemma cx_intern_in x l i : cx_nth l i = Some x -> fst (cx_intern eqb x l) = l.
  Proof.
    intro H. unfold cx_intern. destruct (cx_find eqb x l 0) eqn:E; [reflexivity|].
    apply cx_find_none in E. exfalso. apply E. eapply cx_nth_In; eauto.
  Qed.

  (** the index returned for an element that is already there is the FIRST index holding it *)
  Lemma cx_intern_first x l i : NoDup l -> cx_nth l i = Some x -> cx_intern eqb x l = (l, i).
  Proof.
    intros ND H. unfold cx_intern. destruct (cx_find eqb x l 0) as [j|] eqn:E.
    - apply cx_find_some in E as (_ & Hj & _). rewrite N.sub_0_r in Hj.
      f_equal. eapply NoDup_cx_nth_inj; eauto.
    - apply cx_find_none in E. exfalso. apply E. eapply cx_nth_In; eauto.
  Qed.

  Lemma cx_intern_new x l : ~ In x l -> cx_intern eqb x l = (l ++ [x], N.of_nat (length l)).
  Proof.
    intro H. unfold cx_intern. apply cx_find_none with (i := 0) in H. rewrite H. now rewrite cx_len0.
  Qed.
End Intern.

(* ================================================================== Part 2 *)
Lemma cx_eq2_spec a b a' b' : cx_eq2 a b a' b' = true <-> a = a' /\ b = b'.
Proof. unfold cx_eq2. rewrite andb_true_iff, !N.eqb_eq. tauto. Qed.

Lemma cx_eq3_spec a b c a' b' c' : cx_eq3 a b c a' b' c' = true <-> a = a' /\ b = b' /\ c = c'.
Proof. unfold cx_eq3. rewrite !andb_true_iff, !N.eqb_eq. tauto. Qed.

Lemma cx_binop_eqb_eq a b : cx_binop_eqb a b = true <-> a = b.
Proof.
  unfold cx_binop_eqb. rewrite N.eqb_eq. split; [|now intros ->].
  destruct a, b; cbn; intro H; try reflexivity; discriminate H.
Qed.

Lemma cx_node_eqb_eq x y : cx_node_eqb x y = true <-> x = y.
Proof.
  split.
  - destruct x, y; cbn [cx_node_eqb]; intro H; try discriminate H;
      try (apply cx_eq2_spec in H as [-> ->]; reflexivity);
      try (apply cx_eq3_spec in H as (-> & -> & ->); reflexivity).
    apply andb_true_iff in H as [Ho H]. apply cx_binop_eqb_eq in Ho. apply cx_eq3_spec in H as (-> & -> & ->).
    now subst.
  - intros <-. destruct x; cbn [cx_node_eqb];
      try (apply cx_eq2_spec; tauto); try (apply cx_eq3_spec; tauto).
    apply andb_true_iff. split; [now apply cx_binop_eqb_eq|apply cx_eq3_spec; tauto].
Qed.

Lemma cx_words_eqb_eq a b : cx_words_eqb a b = true <-> a = b.
Proof.
  revert b. induction a as [|x a IH]; destruct b as [|y b]; cbn [cx_words_eqb]; try (split; [discriminate|discriminate]).
  - tauto.
  - rewrite andb_true_iff, N.eqb_eq, IH. split; [intros [-> ->]; reflexivity|intros [= -> ->]; tauto].
Qed.

Lemma cx_ty_eqb_eq a b : cx_ty_eqb a b = true <-> a = b.
Proof.
  destruct a, b; cbn [cx_ty_eqb]; try (split; discriminate).
  - rewrite N.eqb_eq. split; [now intros ->|now intros [= ->]].
  - rewrite andb_true_iff, !N.eqb_eq. split; [now intros [-> ->]|now intros [= -> ->]].
Qed.

(* association lists *)
Section Assoc.
  Context {K : Type} (eqb : K -> K -> bool).
  Hypothesis eqb_eq : forall x y, eqb x y = true <-> x = y.

  Lemma cx_assoc_in k l i : cx_assoc eqb k l = Some i -> In (k, i) l.
  Proof.
    induction l as [|[k' v] t IH]; cbn [cx_assoc]; [discriminate|].
    destruct (eqb k k') eqn:E.
    - intros [= ->]. apply eqb_eq in E. subst. now left.
    - intro H. right. auto.
  Qed.

  Lemma cx_assoc_none k l : cx_assoc eqb k l = None <-> ~ In k (map fst l).
  Proof.
    induction l as [|[k' v] t IH]; cbn [cx_assoc map fst In]; [tauto|].
    destruct (eqb k k') eqn:E.
    - apply eqb_eq in E. subst. split; [discriminate|]. intro H. exfalso. apply H. now left.
    - rewrite IH. split.
      + intros H [->|H']; [|contradiction]. rewrite (proj2 (eqb_eq k k) eq_refl) in E. discriminate.
      + intros H H'. apply H. now right.
  Qed.

  Lemma cx_assoc_cons_other k k' v l i :
    cx_assoc eqb k' l = None -> cx_assoc eqb k l = Some i -> cx_assoc eqb k ((k', v) :: l) = Some i.
  Proof.
    intros Hn H. cbn [cx_assoc]. destruct (eqb k k') eqn:E; [|exact H].
    apply eqb_eq in E. subst. congruence.
  Qed.

  Lemma cx_assoc_cons_same k v l : cx_assoc eqb k ((k, v) :: l) = Some v.
  Proof. cbn [cx_assoc]. now rewrite (proj2 (eqb_eq k k) eq_refl). Qed.
End Assoc.

Lemma NoDup_snd_inj {A B} (l : list (A * B)) a b i :
  NoDup (map snd l) -> In (a, i) l -> In (b, i) l -> a = b.
Proof.
  induction l as [|[x j] t IH]; cbn [map snd In]; [tauto|].
  intros ND Ha Hb. inversion ND as [|? ? Hj ND']; subst.
  destruct Ha as [Ha|Ha], Hb as [Hb|Hb].
  - congruence.
  - inversion Ha; subst. exfalso. apply Hj. change i with (snd (b, i)). now apply in_map.
  - inversion Hb; subst. exfalso. apply Hj. change i with (snd (a, i)). now apply in_map.
  - auto.
Qed.

Lemma NoDup_fst_inj {A B} (l : list (A * B)) k i j :
  NoDup (map fst l) -> In (k, i) l -> In (k, j) l -> i = j.
Proof.
  induction l as [|[x v] t IH]; cbn [map fst In]; [tauto|].
  intros ND Ha Hb. inversion ND as [|? ? Hk ND']; subst.
  destruct Ha as [Ha|Ha], Hb as [Hb|Hb].
  - congruence.
  - inversion Ha; subst. exfalso. apply Hk. change k with (fst (k, j)). now apply in_map.
  - inversion Hb; subst. exfalso. apply Hk. change k with (fst (k, i)). now apply in_map.
  - auto.
Qed.

(* ================================================================== Part 3: the value interner *)
Lemma cx_skipn_spec {A} (l : list A) (i : N) : cx_skipn l i = skipn (N.to_nat i) l.
Proof.
  revert i. induction l as [|x t IH]; intro i; cbn [cx_skipn].
  - now destruct (N.to_nat i).
  - destruct (N.eqb_spec i 0) as [->|Hne]; [reflexivity|].
    rewrite IH. replace (N.to_nat i) with (S (N.to_nat (N.pred i))) by lia. reflexivity.
Qed.

Definition ws_at (words : list N) (i : N) (n : nat) : list N := firstn n (cx_skipn words i).

Lemma ws_at_app words s i n :
  i + N.of_nat n <= N.of_nat (length words) -> ws_at (words ++ s) i n = ws_at words i n.
Proof.
  intro H. unfold ws_at. rewrite !cx_skipn_spec, skipn_app, firstn_app.
  replace (N.to_nat i - length words)%nat with 0%nat by lia. cbn [skipn].
  rewrite skipn_length. replace (n - (length words - N.to_nat i))%nat with 0%nat by lia.
  cbn [firstn]. now rewrite app_nil_r.
Qed.

Lemma ws_at_end words ks : ws_at (words ++ ks) (N.of_nat (length words)) (length ks) = ks.
Proof.
  unfold ws_at. rewrite cx_skipn_spec, Nat2N.id, skipn_app, skipn_all, Nat.sub_diag. cbn [skipn app].
  apply firstn_all.
Qed.

Lemma ws_at_length words i n : i + N.of_nat n <= N.of_nat (length words) -> length (ws_at words i n) = n.
Proof.
  intro H. unfold ws_at. rewrite cx_skipn_spec, firstn_length, skipn_length. lia.
Qed.

Lemma ws_at_one words i x : cx_nth words i = Some x -> ws_at words i 1 = [x].
Proof.
  unfold ws_at. rewrite cx_skipn_spec, cx_nth_spec. revert words.
  induction (N.to_nat i) as [|k IH]; intros [|y t]; cbn; try discriminate.
  - now intros [= ->].
  - apply IH.
Qed.

(** how a word list is related to the index the interner gives it *)
Definition idx_of (it : cx_interner) (ws : list N) (i : N) : Prop :=
  (exists w, ws = [w] /\ w < 8 /\ i = w) \/
  (exists w, ws = [w] /\ In (w, i) (ci_small it)) \/
  In (ws, i) (ci_large it).

Definition it_idxs (it : cx_interner) : list N := map snd (ci_small it) ++ map snd (ci_large it).

Record it_inv (it : cx_interner) : Prop := {
  ii_prefix : exists t, ci_words it = [0; 1; 2; 3; 4; 5; 6; 7] ++ t;
  ii_idxs : NoDup (it_idxs it);
  ii_small_keys : NoDup (map fst (ci_small it));
  ii_large_keys : NoDup (map fst (ci_large it));
  ii_small : forall w i, In (w, i) (ci_small it) ->
      8 <= w /\ 8 <= i /\ i + 1 <= N.of_nat (length (ci_words it)) /\ ws_at (ci_words it) i 1 = [w];
  ii_large : forall ks i, In (ks, i) (ci_large it) ->
      length ks <> 1%nat /\ ks <> [] /\ 8 <= i /\ i + N.of_nat (length ks) <= N.of_nat (length (ci_words it)) /\
      ws_at (ci_words it) i (length ks) = ks
}.

Definition it_ext (it it' : cx_interner) : Prop :=
  prefix (ci_words it) (ci_words it') /\
  (forall k i, cx_assoc N.eqb k (ci_small it) = Some i -> cx_assoc N.eqb k (ci_small it') = Some i) /\
  (forall k i, cx_assoc cx_words_eqb k (ci_large it) = Some i -> cx_assoc cx_words_eqb k (ci_large it') = Some i) /\
  incl (ci_small it) (ci_small it') /\ incl (ci_large it) (ci_large it').

Lemma it_ext_refl it : it_ext it it.
Proof. repeat split; auto using prefix_refl, incl_refl. Qed.

Lemma it_ext_trans a b c : it_ext a b -> it_ext b c -> it_ext a c.
Proof.
  intros (P1 & S1 & L1 & I1 & J1) (P2 & S2 & L2 & I2 & J2).
  repeat split; eauto using prefix_trans, incl_tran.
Qed.

Lemma idx_of_ext it it' ws i : it_ext it it' -> idx_of it ws i -> idx_of it' ws i.
Proof.
  intros (_ & _ & _ & I & J) [H|[(w & -> & H)|H]].
  - now left.
  - right; left. exists w. split; [reflexivity|]. now apply I.
  - right; right. now apply J.
Qed.

Lemma it_inv_new : it_inv cx_interner_new.
Proof.
  constructor; cbn.
  - now exists [].
  - constructor.
  - constructor.
  - constructor.
  - tauto.
  - tauto.
Qed.

Lemma In_idxs_small it w i : In (w, i) (ci_small it) -> In i (it_idxs it).
Proof. intro H. unfold it_idxs. apply in_or_app. left. change i with (snd (w, i)). now apply in_map. Qed.

Lemma In_idxs_large it ks i : In (ks, i) (ci_large it) -> In i (it_idxs it).
Proof. intro H. unfold it_idxs. apply in_or_app. right. change i with (snd (ks, i)). now apply in_map. Qed.

Lemma it_idx_lt it i : it_inv it -> In i (it_idxs it) -> i < N.of_nat (length (ci_words it)).
Proof.
  intros Inv H. unfold it_idxs in H. apply in_app_or in H as [H|H]; apply in_map_iff in H as ([k j] & Hj & Hin); cbn in Hj; subst j.
  - apply (ii_small _ Inv) in Hin. lia.
  - apply (ii_large _ Inv) in Hin as (_ & Hne & _ & Hb & _). destruct k; [contradiction|]. cbn [length] in Hb. lia.
Qed.

(** the same word list never gets two indices, the same index never two word lists *)
Lemma idx_of_fun it ws i j : it_inv it -> idx_of it ws i -> idx_of it ws j -> i = j.
Proof.
  intros Inv [(w & -> & Hw & ->)|[(w & -> & Hi)|Hi]] [(w' & E & Hw' & ->)|[(w' & E & Hj)|Hj]].
  - now inversion E.
  - inversion E; subst. apply (ii_small _ Inv) in Hj. lia.
  - apply (ii_large _ Inv) in Hj. cbn in Hj. tauto.
  - inversion E; subst. apply (ii_small _ Inv) in Hi. lia.
  - inversion E; subst. eapply NoDup_fst_inj; eauto using ii_small_keys.
  - apply (ii_large _ Inv) in Hj. cbn in Hj. tauto.
  - apply (ii_large _ Inv) in Hi. subst. cbn in Hi. tauto.
  - apply (ii_large _ Inv) in Hi. subst. cbn in Hi. tauto.
  - eapply NoDup_fst_inj; eauto using ii_large_keys.
Qed.

Lemma NoDup_app_disj {A} (l1 l2 : list A) x : NoDup (l1 ++ l2) -> In x l1 -> In x l2 -> False.
Proof.
  induction l1 as [|y t IH]; cbn [app In]; [tauto|].
  intros ND [->|H1] H2; inversion ND as [|? ? Hy ND']; subst.
  - apply Hy. apply in_or_app. now right.
  - eauto.
Qed.

Lemma NoDup_app_l {A} (l1 l2 : list A) : NoDup (l1 ++ l2) -> NoDup l1.
Proof.
  induction l1 as [|y t IH]; cbn [app]; [constructor|].
  intro ND. inversion ND as [|? ? Hy ND']; subst. constructor; [|auto].
  intro H. apply Hy. apply in_or_app. now left.
Qed.

Lemma NoDup_app_r {A} (l1 l2 : list A) : NoDup (l1 ++ l2) -> NoDup l2.
Proof.
  induction l1 as [|y t IH]; cbn [app]; [auto|].
  intro ND. inversion ND; subst. auto.
Qed.

Lemma idx_of_inj it ws ws' i : it_inv it -> idx_of it ws i -> idx_of it ws' i -> ws = ws'.
Proof.
  intros Inv [(w & -> & Hw & ->)|[(w & -> & Hi)|Hi]] [(w' & -> & Hw' & E)|[(w' & -> & Hj)|Hj]].
  - now subst.
  - apply (ii_small _ Inv) in Hj. lia.
  - apply (ii_large _ Inv) in Hj. lia.
  - subst. apply (ii_small _ Inv) in Hi. lia.
  - f_equal. eapply (NoDup_snd_inj (ci_small it)); eauto.
    eapply NoDup_app_l. exact (ii_idxs _ Inv).
  - exfalso. eapply (NoDup_app_disj _ _ i (ii_idxs _ Inv)).
    + change i with (snd (w, i)). now apply in_map.
    + change i with (snd (ws', i)). now apply in_map.
  - subst. apply (ii_large _ Inv) in Hi. lia.
  - exfalso. eapply (NoDup_app_disj _ _ i (ii_idxs _ Inv)).
    + change i with (snd (w', i)). now apply in_map.
    + change i with (snd (ws, i)). now apply in_map.
  - eapply (NoDup_snd_inj (ci_large it)); eauto.
    eapply NoDup_app_r. exact (ii_idxs _ Inv).
Qed.

(** reading back: the words stored at the index are the words that were interned *)
Lemma idx_of_words it ws i : it_inv it -> idx_of it ws i -> ws_at (ci_words it) i (length ws) = ws.
Proof.
  intros Inv [(w & -> & Hw & ->)|[(w & -> & Hi)|Hi]].
  - destruct (ii_prefix _ Inv) as [t ->]. cbn [length].
    apply ws_at_one.
    assert (H : w = 0 \/ w = 1 \/ w = 2 \/ w = 3 \/ w = 4 \/ w = 5 \/ w = 6 \/ w = 7) by lia.
    destruct H as [->|[->|[->|[->|[->|[->|[->| ->]]]]]]]; reflexivity.
  - apply (ii_small _ Inv) in Hi. tauto.
  - apply (ii_large _ Inv) in Hi. tauto.
Qed.

Lemma it_inv_words_len it : it_inv it -> 8 <= N.of_nat (length (ci_words it)).
Proof. intros Inv. destruct (ii_prefix _ Inv) as [t ->]. rewrite app_length. cbn [length]. lia. Qed.

(** appending words and registering the new entry keeps the invariant *)
Lemma it_inv_add_small it x :
  it_inv it -> (x <? 8) = false -> cx_assoc N.eqb x (ci_small it) = None ->
  it_inv {| ci_words := ci_words it ++ [x];
            ci_small := (x, cx_len (ci_words it) 0) :: ci_small it;
            ci_large := ci_large it |}.
Proof.
  intros Inv Hx Hn. rewrite cx_len0. apply N.ltb_ge in Hx.
  pose proof (it_inv_words_len _ Inv) as Hlen.
  constructor; cbn [ci_words ci_small ci_large].
  - destruct (ii_prefix _ Inv) as [t ->]. exists (t ++ [x]). now rewrite app_assoc.
  - unfold it_idxs. cbn [ci_small ci_large map snd app]. constructor; [|exact (ii_idxs _ Inv)].
    intro H. apply (it_idx_lt _ _ Inv) in H. lia.
  - cbn [map fst]. constructor; [|exact (ii_small_keys _ Inv)].
    now apply (cx_assoc_none N.eqb N.eqb_eq).
  - exact (ii_large_keys _ Inv).
  - intros w i [[= <- <-]|H].
    + rewrite app_length. cbn [length]. repeat split; try lia.
      exact (ws_at_end (ci_words it) [x]).
    + apply (ii_small _ Inv) in H as (H1 & H2 & H3 & H4). rewrite app_length.
      repeat split; try lia. rewrite ws_at_app by (cbn; lia). exact H4.
  - intros ks i H. apply (ii_large _ Inv) in H as (H1 & H2 & H3 & H4 & H5). rewrite app_length.
    repeat split; try assumption; try lia. rewrite ws_at_app by lia. exact H5.
Qed.

Lemma it_inv_add_large it ws :
  it_inv it -> length ws <> 1%nat -> ws <> [] -> cx_assoc cx_words_eqb ws (ci_large it) = None ->
  it_inv {| ci_words := ci_words it ++ ws;
            ci_small := ci_small it;
            ci_large := (ws, cx_len (ci_words it) 0) :: ci_large it |}.
Proof.
  intros Inv Hl Hne Hn. rewrite cx_len0.
  pose proof (it_inv_words_len _ Inv) as Hlen.
  constructor; cbn [ci_words ci_small ci_large].
  - destruct (ii_prefix _ Inv) as [t ->]. exists (t ++ ws). now rewrite app_assoc.
  - unfold it_idxs. cbn [ci_small ci_large map snd].
    apply (NoDup_Add (Add_app (N.of_nat (length (ci_words it))) (map snd (ci_small it)) (map snd (ci_large it)))).
    split; [exact (ii_idxs _ Inv)|].
    intro H. apply (it_idx_lt _ _ Inv) in H. lia.
  - exact (ii_small_keys _ Inv).
  - cbn [map fst]. constructor; [|exact (ii_large_keys _ Inv)].
    now apply (cx_assoc_none cx_words_eqb cx_words_eqb_eq).
  - intros w i H. apply (ii_small _ Inv) in H as (H1 & H2 & H3 & H4). rewrite app_length.
    repeat split; try lia. rewrite ws_at_app by (cbn; lia). exact H4.
  - intros ks i [[= <- <-]|H].
    + rewrite app_length. repeat split; try assumption; try lia. apply ws_at_end.
    + apply (ii_large _ Inv) in H as (H1 & H2 & H3 & H4 & H5). rewrite app_length.
      repeat split; try assumption; try lia. rewrite ws_at_app by lia. exact H5.
Qed.

Lemma cx_get_index_spec it ws w it' r :
  it_inv it -> ws <> [] -> cx_get_index it ws w = (it', r) ->
  it_inv it' /\ it_ext it it' /\ (forall idx w', r = CxOk (idx, w') -> w' = w /\ idx_of it' ws idx).
Proof.
  intros Inv Hne. unfold cx_get_index.
  destruct ws as [|x [|y t]]; [contradiction| |].
  - destruct (64 <? w).
    { intros [= <- <-]. split; [assumption|]. split; [apply it_ext_refl|]. intros idx w' Hr. discriminate Hr. }
    destruct (x <? 8) eqn:Hx.
    { intros [= <- <-]. split; [assumption|]. split; [apply it_ext_refl|]. intros idx w' [= <- <-].
      split; [reflexivity|]. left. exists x. apply N.ltb_lt in Hx. auto. }
    destruct (cx_assoc N.eqb x (ci_small it)) as [i|] eqn:Ha.
    { intros [= <- <-]. split; [assumption|]. split; [apply it_ext_refl|]. intros idx w' [= <- <-].
      split; [reflexivity|]. right; left. exists x. split; [reflexivity|].
      eapply cx_assoc_in; eauto using N.eqb_eq. }
    intros [= <- <-]. split; [now apply it_inv_add_small|]. split.
    + repeat split; cbn [ci_words ci_small ci_large]; auto using prefix_app, incl_refl, incl_tl.
      intros k i H. apply (cx_assoc_cons_other N.eqb N.eqb_eq); assumption.
    + intros idx w' [= <- <-]. split; [reflexivity|]. right; left. exists x. split; [reflexivity|]. now left.
  - destruct (w <=? 64).
    { intros [= <- <-]. split; [assumption|]. split; [apply it_ext_refl|]. intros idx w' Hr. discriminate Hr. }
    destruct (cx_assoc cx_words_eqb (x :: y :: t) (ci_large it)) as [i|] eqn:Ha.
    { intros [= <- <-]. split; [assumption|]. split; [apply it_ext_refl|]. intros idx w' [= <- <-].
      split; [reflexivity|]. right; right. eapply cx_assoc_in; eauto using cx_words_eqb_eq. }
    intros [= <- <-]. split; [apply it_inv_add_large; auto; cbn [length]; lia|]. split.
    + repeat split; cbn [ci_words ci_small ci_large]; auto using prefix_app, incl_refl, incl_tl.
      intros k i H. apply (cx_assoc_cons_other cx_words_eqb cx_words_eqb_eq); assumption.
    + intros idx w' [= <- <-]. split; [reflexivity|]. right; right. now left.
Qed.

(** once a word list has been interned, interning it again in any extension of the
    interner changes nothing and gives the same index *)
Lemma cx_get_index_stable it ws w it1 p it' :
  cx_get_index it ws w = (it1, CxOk p) -> it_ext it1 it' -> cx_get_index it' ws w = (it', CxOk p).
Proof.
  unfold cx_get_index. intros H (_ & S & L & _ & _).
  destruct ws as [|x [|y t]].
  - destruct (w <=? 64); [discriminate|].
    destruct (cx_assoc cx_words_eqb [] (ci_large it)) as [i|] eqn:Ha; inversion H; subst.
    + now rewrite (L _ _ Ha).
    + cbn [ci_large] in L. rewrite (L [] (cx_len (ci_words it) 0)); [reflexivity|].
      apply (cx_assoc_cons_same cx_words_eqb cx_words_eqb_eq).
  - destruct (64 <? w); [discriminate|].
    destruct (x <? 8); [now inversion H; subst|].
    destruct (cx_assoc N.eqb x (ci_small it)) as [i|] eqn:Ha; inversion H; subst.
    + now rewrite (S _ _ Ha).
    + cbn [ci_small] in S. rewrite (S x (cx_len (ci_words it) 0)); [reflexivity|].
      apply (cx_assoc_cons_same N.eqb N.eqb_eq).
  - destruct (w <=? 64); [discriminate|].
    destruct (cx_assoc cx_words_eqb (x :: y :: t) (ci_large it)) as [i|] eqn:Ha; inversion H; subst.
    + now rewrite (L _ _ Ha).
    + cbn [ci_large] in L. rewrite (L (x :: y :: t) (cx_len (ci_words it) 0)); [reflexivity|].
      apply (cx_assoc_cons_same cx_words_eqb cx_words_eqb_eq).
Qed.

Lemma cx_get_index_ext it ws w it' r : cx_get_index it ws w = (it', r) -> it_ext it it'.
Proof.
  unfold cx_get_index.
  destruct ws as [|x [|y t]].
  - destruct (w <=? 64); [intros [= <- <-]; apply it_ext_refl|].
    destruct (cx_assoc cx_words_eqb [] (ci_large it)) eqn:Ha; intros [= <- <-]; [apply it_ext_refl|].
    repeat split; cbn [ci_words ci_small ci_large]; auto using prefix_app, incl_refl, incl_tl.
    intros k i H. apply (cx_assoc_cons_other cx_words_eqb cx_words_eqb_eq); assumption.
  - destruct (64 <? w); [intros [= <- <-]; apply it_ext_refl|].
    destruct (x <? 8); [intros [= <- <-]; apply it_ext_refl|].
    destruct (cx_assoc N.eqb x (ci_small it)) eqn:Ha; intros [= <- <-]; [apply it_ext_refl|].
    repeat split; cbn [ci_words ci_small ci_large]; auto using prefix_app, incl_refl, incl_tl.
    intros k i H. apply (cx_assoc_cons_other N.eqb N.eqb_eq); assumption.
  - destruct (w <=? 64); [intros [= <- <-]; apply it_ext_refl|].
    destruct (cx_assoc cx_words_eqb (x :: y :: t) (ci_large it)) eqn:Ha; intros [= <- <-]; [apply it_ext_refl|].
    repeat split; cbn [ci_words ci_small ci_large]; auto using prefix_app, incl_refl, incl_tl.
    intros k i H. apply (cx_assoc_cons_other cx_words_eqb cx_words_eqb_eq); assumption.
Qed.

(* ================================================================== Part 4: contexts *)
Definition cx_ext (c c' : cx) : Prop :=
  prefix (cx_strings c) (cx_strings c') /\ prefix (cx_exprs c) (cx_exprs c') /\
  it_ext (cx_values c) (cx_values c') /\ cx_true c' = cx_true c /\ cx_false c' = cx_false c.

Lemma cx_ext_refl c : cx_ext c c.
Proof.
  split; [apply prefix_refl|]. split; [apply prefix_refl|]. split; [apply it_ext_refl|]. split; reflexivity.
Qed.

Lemma cx_ext_trans a b c : cx_ext a b -> cx_ext b c -> cx_ext a c.
Proof.
  intros (S1 & E1 & V1 & T1 & F1) (S2 & E2 & V2 & T2 & F2).
  split; [eapply prefix_trans; eauto|]. split; [eapply prefix_trans; eauto|].
  split; [eapply it_ext_trans; eauto|]. split; congruence.
Qed.

Ltac ext_tac :=
  unfold cx_ext; cbn [cx_strings cx_exprs cx_values cx_true cx_false];
  (split; [|split; [|split; [|split]]]); auto using prefix_refl, it_ext_refl.

(** every call only extends the context ... *)
Definition mono {A} (m : cx_m A) : Prop := forall c c' r, m c = (c', r) -> cx_ext c c'.
(** ... and once it has succeeded, repeating it in any later context changes nothing
    and returns the same result *)
Definition idem {A} (m : cx_m A) : Prop :=
  forall c c1 a c', m c = (c1, CxOk a) -> cx_ext c1 c' -> m c' = (c', CxOk a).
Definition good {A} (m : cx_m A) : Prop := mono m /\ idem m.

Lemma good_bind {A B} (m : cx_m A) (f : A -> cx_m B) : good m -> (forall a, good (f a)) -> good (cx_bind m f).
Proof.
  intros [Mm Im] Hf. split.
  - intros c c' r. unfold cx_bind. destruct (m c) as [c1 [a| |]] eqn:E.
    + intro H. apply (proj1 (Hf a)) in H. eapply cx_ext_trans; eauto.
    + intros [= <- <-]. eauto.
    + intros [= <- <-]. eauto.
  - intros c c2 b c'. unfold cx_bind. destruct (m c) as [c1 [a| |]] eqn:E; try discriminate.
    intros H Hext.
    assert (H1 : cx_ext c1 c') by (eapply cx_ext_trans; [eapply (proj1 (Hf a)); eauto|exact Hext]).
    rewrite (Im _ _ _ _ E H1). eapply (proj2 (Hf a)); eauto.
Qed.

Lemma good_pure {A} (r : cx_res A) : good (fun c => (c, r)).
Proof.
  split.
  - intros c c' r' [= <- <-]. apply cx_ext_refl.
  - intros c c1 a c' [= <- ->] _. reflexivity.
Qed.

Lemma good_ret {A} (a : A) : good (cx_ret a).
Proof. apply good_pure. Qed.
Lemma good_fail {A} : good (@cx_fail A).
Proof. apply good_pure. Qed.
Lemma good_assert b : good (cx_assert b).
Proof. apply good_pure. Qed.
Lemma good_lift {A} (r : cx_res A) : good (cx_lift r).
Proof. apply good_pure. Qed.

Lemma cx_chase_prefix {F F'} (fuel : list F) (fuel' : list F') es es' r t :
  prefix es es' -> (length fuel <= length fuel')%nat ->
  cx_chase fuel es r = CxOk t -> cx_chase fuel' es' r = CxOk t.
Proof.
  intro P. revert fuel' r. induction fuel as [|x k IH]; intros fuel' r Hl H.
  - destruct fuel'; cbn [cx_chase] in *;
      (destruct (cx_nth es r) as [n|] eqn:E; [|discriminate]);
      rewrite (cx_nth_prefix _ _ _ _ P E);
      (destruct (cx_step n); [exact H|discriminate]).
  - destruct fuel' as [|x' k']; [cbn in Hl; lia|].
    cbn [cx_chase] in *. destruct (cx_nth es r) as [n|] eqn:E; [|discriminate].
    rewrite (cx_nth_prefix _ _ _ _ P E). destruct (cx_step n); [exact H|].
    apply IH; [cbn [length] in Hl; lia|exact H].
Qed.

Lemma cx_type_of_prefix es es' r t : prefix es es' -> cx_type_of es r = CxOk t -> cx_type_of es' r = CxOk t.
Proof.
  intros P H. unfold cx_type_of in *.
  apply (cx_chase_prefix es es' es es' r t P); [|exact H].
  destruct P as [s ->]. rewrite app_length. lia.
Qed.

Lemma good_get_type r : good (cx_get_type r).
Proof.
  split.
  - intros c c' r' [= <- <-]. apply cx_ext_refl.
  - intros c c1 a c'. unfold cx_get_type. intros [= <- H] (_ & P & _). f_equal.
    eapply cx_type_of_prefix; eauto.
Qed.

Lemma good_add_expr n : good (cx_add_expr n).
Proof.
  split.
  - intros c c' r. unfold cx_add_expr.
    pose proof (cx_intern_prefix cx_node_eqb n (cx_exprs c)) as P.
    destruct (cx_intern cx_node_eqb n (cx_exprs c)) as [es i]. intros [= <- <-].
    ext_tac.
  - intros c c1 a c'. unfold cx_add_expr.
    pose proof (cx_intern_stable cx_node_eqb cx_node_eqb_eq n (cx_exprs c) (cx_exprs c')) as S.
    destruct (cx_intern cx_node_eqb n (cx_exprs c)) as [es i]. cbn [fst snd] in S.
    intros [= <- <-] (_ & P & _). cbn [cx_exprs] in P. rewrite (S P). now destruct c'.
Qed.

Lemma good_string s : good (cx_string s).
Proof.
  split.
  - intros c c' r. unfold cx_string.
    pose proof (cx_intern_prefix String.eqb s (cx_strings c)) as P.
    destruct (cx_intern String.eqb s (cx_strings c)) as [es i]. intros [= <- <-].
    ext_tac.
  - intros c c1 a c'. unfold cx_string.
    pose proof (cx_intern_stable String.eqb String.eqb_eq s (cx_strings c) (cx_strings c')) as S.
    destruct (cx_intern String.eqb s (cx_strings c)) as [es i]. cbn [fst snd] in S.
    intros [= <- <-] (P & _). cbn [cx_strings] in P. rewrite (S P). now destruct c'.
Qed.

Lemma good_value_index w ws : good (cx_value_index w ws).
Proof.
  split.
  - intros c c' r. unfold cx_value_index.
    destruct (cx_get_index (cx_values c) ws w) as [it r'] eqn:E. intros [= <- <-].
    apply cx_get_index_ext in E. ext_tac.
  - intros c c1 a c'. unfold cx_value_index.
    destruct (cx_get_index (cx_values c) ws w) as [it r'] eqn:E. intros [= <- ->] (_ & _ & V & _).
    cbn [cx_values] in V. rewrite (cx_get_index_stable _ _ _ _ _ _ E V). now destruct c'.
Qed.

Lemma good_get_true : good cx_get_true.
Proof.
  split.
  - intros c c' r [= <- <-]. apply cx_ext_refl.
  - intros c c1 a c'. unfold cx_get_true. intros [= <- <-] (_ & _ & _ & T & _). now rewrite T.
Qed.

Lemma good_get_false : good cx_get_false.
Proof.
  split.
  - intros c c' r [= <- <-]. apply cx_ext_refl.
  - intros c c1 a c'. unfold cx_get_false. intros [= <- <-] (_ & _ & _ & _ & F). now rewrite F.
Qed.

Ltac good_step :=
  first
    [ apply good_bind; [|intro]
    | apply good_ret | apply good_fail | apply good_assert | apply good_lift
    | apply good_get_type | apply good_add_expr | apply good_string | apply good_value_index
    | apply good_get_true | apply good_get_false
    | match goal with
      | |- good (match ?x with _ => _ end) => destruct x
      | |- good (if ?b then _ else _) => destruct b
      end ].
Ltac good_tac := repeat good_step.

Lemma good_bv_type r : good (cx_bv_type r).
Proof. unfold cx_bv_type. good_tac. Qed.
Lemma good_bv_lit w ws : good (cx_bv_lit w ws).
Proof. unfold cx_bv_lit. good_tac. Qed.
Lemma good_lit_value w v : good (cx_lit_value w v).
Proof. apply good_bv_lit. Qed.
Lemma good_assert_same_width a b : good (cx_assert_same_width a b).
Proof. unfold cx_assert_same_width. repeat (good_step || apply good_bv_type). Qed.
Lemma good_assert_bool a : good (cx_assert_bool a).
Proof. unfold cx_assert_bool. repeat (good_step || apply good_bv_type). Qed.

Ltac good_tac2 :=
  repeat first [ good_step | apply good_bv_type | apply good_bv_lit | apply good_lit_value
               | apply good_assert_same_width | apply good_assert_bool ].

Lemma good_bin o a b : good (cx_bin o a b).
Proof. unfold cx_bin. good_tac2. Qed.
Lemma good_equal a b : good (cx_equal a b).
Proof. unfold cx_equal. good_tac2. Qed.
Lemma good_not e : good (cx_not e).
Proof. unfold cx_not. good_tac2. Qed.
Lemma good_array_const e iw : good (cx_array_const e iw).
Proof. unfold cx_array_const. good_tac2. Qed.
Lemma good_array_store a i d : good (cx_array_store a i d).
Proof. unfold cx_array_store. good_tac2. Qed.
Lemma good_zero_extend e b : good (cx_zero_extend e b).
Proof. unfold cx_zero_extend. good_tac2. Qed.
Lemma good_sign_extend e b : good (cx_sign_extend e b).
Proof. unfold cx_sign_extend. good_tac2. Qed.

Lemma good_lit_arr_fold es : forall arr, good (cx_lit_arr_fold es arr).
Proof.
  induction es as [|[i d] t IH]; intro arr; cbn [cx_lit_arr_fold].
  - apply good_ret.
  - repeat first [ apply IH | good_step | apply good_bv_lit | apply good_array_store ].
Qed.

Lemma good_run_op o : good (cx_run_op o).
Proof.
  destruct o; cbn [cx_run_op]; unfold cx_as_expr, cx_bv_symbol, cx_array_symbol, cx_symbol, cx_bit_vec_val,
    cx_zero, cx_one, cx_ones, cx_zero_array, cx_lit_arr, cx_distinct, cx_ite, cx_implies, cx_greater,
    cx_greater_signed, cx_greater_or_equal, cx_greater_or_equal_signed, cx_negate, cx_xor3, cx_majority,
    cx_concat, cx_slice, cx_extend, cx_array_read, cx_zero;
    repeat first [ good_step | apply good_bv_type | apply good_bv_lit | apply good_lit_value
                 | apply good_assert_same_width | apply good_assert_bool | apply good_bin | apply good_equal
                 | apply good_not | apply good_array_const | apply good_array_store | apply good_zero_extend
                 | apply good_sign_extend | apply good_lit_arr_fold ].
Qed.

(* ------------------------------------------------------------------ the invariant *)
Definition lits_ok (c : cx) : Prop :=
  forall r idx w, cx_nth (cx_exprs c) r = Some (CnBVLiteral idx w) ->
    exists ws, idx_of (cx_values c) ws idx /\ cx_value_shape_ok w ws = true.

Definition tf_ok (c : cx) : Prop :=
  cx_false c = 0 /\ cx_true c = 1 /\
  cx_nth (cx_exprs c) 0 = Some (CnBVLiteral 0 1) /\ cx_nth (cx_exprs c) 1 = Some (CnBVLiteral 1 1).

Record cx_inv (c : cx) : Prop := {
  cv_exprs : NoDup (cx_exprs c);
  cv_strings : NoDup (cx_strings c);
  cv_values : it_inv (cx_values c);
  cv_lits : lits_ok c;
  cv_tf : tf_ok c
}.

Lemma cx_default_eq :
  cx_default = {| cx_strings := []; cx_exprs := [CnBVLiteral 0 1; CnBVLiteral 1 1];
                  cx_values := cx_interner_new; cx_true := 1; cx_false := 0 |}.
Proof. vm_compute. reflexivity. Qed.

Lemma cx_inv_default : cx_inv cx_default.
Proof.
  rewrite cx_default_eq. constructor; cbn [cx_exprs cx_strings cx_values].
  - constructor; [cbn; intros [H|[]]; discriminate H|]. constructor; [tauto|constructor].
  - constructor.
  - apply it_inv_new.
  - intros r idx w. cbn [cx_exprs cx_values]. rewrite cx_nth_spec.
    destruct (N.to_nat r) as [|[|k]]; cbn; try discriminate.
    + intros [= <- <-]. exists [0]. split; [|reflexivity]. left. exists 0. repeat split; lia.
    + intros [= <- <-]. exists [1]. split; [|reflexivity]. left. exists 1. repeat split; lia.
    + now destruct k.
  - repeat split.
Qed.

Definition pres {A} (m : cx_m A) : Prop := forall c c' r, cx_inv c -> m c = (c', r) -> cx_inv c'.

Lemma pres_bind {A B} (m : cx_m A) (f : A -> cx_m B) : pres m -> (forall a, pres (f a)) -> pres (cx_bind m f).
Proof.
  intros Pm Pf c c' r Inv. unfold cx_bind. destruct (m c) as [c1 [a| |]] eqn:E.
  - intro H. eapply Pf; [|exact H]. eapply Pm; eauto.
  - intros [= <- <-]. eapply Pm; eauto.
  - intros [= <- <-]. eapply Pm; eauto.
Qed.

Lemma pres_pure {A} (f : cx -> cx_res A) : pres (fun c => (c, f c)).
Proof. intros c c' r Inv [= <- <-]. exact Inv. Qed.

Lemma pres_ret {A} (a : A) : pres (cx_ret a).
Proof. exact (pres_pure (fun _ => CxOk a)). Qed.
Lemma pres_fail {A} : pres (@cx_fail A).
Proof. exact (pres_pure (fun _ => CxPanic)). Qed.
Lemma pres_assert b : pres (cx_assert b).
Proof. exact (pres_pure (fun _ => if b then CxOk tt else CxPanic)). Qed.
Lemma pres_lift {A} (r : cx_res A) : pres (cx_lift r).
Proof. exact (pres_pure (fun _ => r)). Qed.
Lemma pres_get_type r : pres (cx_get_type r).
Proof. exact (pres_pure (fun c => cx_type_of (cx_exprs c) r)). Qed.
Lemma pres_get_true : pres cx_get_true.
Proof. exact (pres_pure (fun c => CxOk (cx_true c))). Qed.
Lemma pres_get_false : pres cx_get_false.
Proof. exact (pres_pure (fun c => CxOk (cx_false c))). Qed.

Lemma tf_ok_ext c c' : cx_ext c c' -> tf_ok c -> tf_ok c'.
Proof.
  intros (_ & P & _ & T & F) (H1 & H2 & H3 & H4).
  repeat split; try congruence; eapply cx_nth_prefix; eauto.
Qed.

Lemma cx_nth_snoc {A} (l : list A) (x y : A) (r : N) :
  cx_nth (l ++ [x]) r = Some y -> cx_nth l r = Some y \/ (y = x /\ r = N.of_nat (length l)).
Proof.
  rewrite !cx_nth_spec. intro H.
  destruct (Nat.lt_ge_cases (N.to_nat r) (length l)) as [Hlt|Hge].
  - left. now rewrite nth_error_app1 in H.
  - right. rewrite nth_error_app2 in H by exact Hge.
    destruct (N.to_nat r - length l)%nat as [|k] eqn:E; cbn in H.
    + split; [congruence|lia].
    + now destruct k.
Qed.

Definition node_ok (c : cx) (n : cx_node) : Prop :=
  match n with
  | CnBVLiteral idx w => exists ws, idx_of (cx_values c) ws idx /\ cx_value_shape_ok w ws = true
  | _ => True
  end.

Lemma inv_add_expr n c c' r : cx_inv c -> node_ok c n -> cx_add_expr n c = (c', r) -> cx_inv c'.
Proof.
  intros Inv Hn H.
  pose proof (proj1 (good_add_expr n) _ _ _ H) as Ext.
  unfold cx_add_expr in H.
  pose proof (cx_intern_nodup cx_node_eqb cx_node_eqb_eq n (cx_exprs c) (cv_exprs _ Inv)) as ND.
  unfold cx_intern in *. destruct (cx_find cx_node_eqb n (cx_exprs c) 0) as [j|] eqn:E; cbn [fst] in ND;
    inversion H; subst; clear H; constructor; cbn [cx_exprs cx_strings cx_values];
    try exact ND; try exact (cv_strings _ Inv); try exact (cv_values _ Inv);
    try (eapply tf_ok_ext; [exact Ext|exact (cv_tf _ Inv)]).
  - exact (cv_lits _ Inv).
  - intros r idx w Hr. cbn [cx_exprs cx_values] in *.
    apply cx_nth_snoc in Hr as [Hr|[Hr _]].
    + exact (cv_lits _ Inv _ _ _ Hr).
    + subst n. exact Hn.
Qed.

Lemma pres_add_expr n : (match n with CnBVLiteral _ _ => False | _ => True end) -> pres (cx_add_expr n).
Proof.
  intros Hn c c' r Inv H. eapply inv_add_expr; eauto. destruct n; cbn; auto; contradiction.
Qed.

Lemma pres_string s : pres (cx_string s).
Proof.
  intros c c' r Inv H.
  pose proof (proj1 (good_string s) _ _ _ H) as Ext.
  unfold cx_string in H.
  pose proof (cx_intern_nodup String.eqb String.eqb_eq s (cx_strings c) (cv_strings _ Inv)) as ND.
  destruct (cx_intern String.eqb s (cx_strings c)) as [ss i]. cbn [fst] in ND.
  inversion H; subst; clear H. constructor; cbn [cx_exprs cx_strings cx_values];
    try exact ND; try exact (cv_exprs _ Inv); try exact (cv_values _ Inv).
  - exact (cv_lits _ Inv).
  - eapply tf_ok_ext; [exact Ext|exact (cv_tf _ Inv)].
Qed.

Lemma shape_ok_nonempty w ws : cx_value_shape_ok w ws = true -> ws <> [].
Proof.
  unfold cx_value_shape_ok. intros H ->. apply andb_true_iff in H as [Hw Hl].
  apply negb_true_iff in Hw. apply N.eqb_neq in Hw. apply N.eqb_eq in Hl. cbn [cx_len] in Hl.
  unfold cx_nwords in Hl. assert (0 < (w + 63) / 64) by (apply N.div_str_pos; lia). lia.
Qed.

Lemma inv_value_index w ws c c' r :
  cx_inv c -> ws <> [] -> cx_value_index w ws c = (c', r) ->
  cx_inv c' /\ (forall idx w', r = CxOk (idx, w') -> w' = w /\ idx_of (cx_values c') ws idx).
Proof.
  intros Inv Hne H.
  pose proof (proj1 (good_value_index w ws) _ _ _ H) as Ext.
  unfold cx_value_index in H. destruct (cx_get_index (cx_values c) ws w) as [it r'] eqn:E.
  inversion H; subst; clear H.
  destruct (cx_get_index_spec _ _ _ _ _ (cv_values _ Inv) Hne E) as (Inv' & Ext' & Hr).
  split; [|exact Hr].
  constructor; cbn [cx_exprs cx_strings cx_values];
    try exact (cv_exprs _ Inv); try exact (cv_strings _ Inv); try exact Inv'.
  - intros r0 idx w0 H0. cbn [cx_exprs cx_values] in *.
    destruct (cv_lits _ Inv _ _ _ H0) as (ws0 & Hi & Hs). exists ws0. split; [|exact Hs].
    eapply idx_of_ext; eauto.
  - eapply tf_ok_ext; [exact Ext|exact (cv_tf _ Inv)].
Qed.

Lemma cx_bv_lit_spec w ws c c' r :
  cx_inv c -> cx_bv_lit w ws c = (c', r) ->
  cx_inv c' /\
  (forall i, r = CxOk i ->
     cx_value_shape_ok w ws = true /\
     exists idx, cx_nth (cx_exprs c') i = Some (CnBVLiteral idx w) /\ idx_of (cx_values c') ws idx).
Proof.
  intros Inv. unfold cx_bv_lit, cx_bind, cx_assert.
  destruct (cx_value_shape_ok w ws) eqn:Hs.
  2:{ intros [= <- <-]. split; [exact Inv|]. intros i Hi. discriminate Hi. }
  destruct (cx_value_index w ws c) as [c1 r1] eqn:E.
  destruct (inv_value_index _ _ _ _ _ Inv (shape_ok_nonempty _ _ Hs) E) as (Inv1 & Hr1).
  destruct r1 as [[idx w']| |].
  - destruct (Hr1 idx w' eq_refl) as (-> & Hidx). cbn [fst snd].
    intro H. split.
    + eapply inv_add_expr; [exact Inv1| |exact H]. cbn. exists ws. auto.
    + intros i ->. split; [reflexivity|]. exists idx.
      pose proof (proj1 (good_add_expr (CnBVLiteral idx w)) _ _ _ H) as (_ & _ & V & _).
      split.
      * unfold cx_add_expr in H.
        pose proof (cx_intern_nth cx_node_eqb cx_node_eqb_eq (CnBVLiteral idx w) (cx_exprs c1)) as Hn.
        destruct (cx_intern cx_node_eqb (CnBVLiteral idx w) (cx_exprs c1)) as [es j].
        inversion H; subst. exact Hn.
      * eapply idx_of_ext; eauto.
  - intros [= <- <-]. split; [exact Inv1|]. intros i Hi. discriminate Hi.
  - intros [= <- <-]. split; [exact Inv1|]. intros i Hi. discriminate Hi.
Qed.

Lemma pres_bv_lit w ws : pres (cx_bv_lit w ws).
Proof. intros c c' r Inv H. exact (proj1 (cx_bv_lit_spec _ _ _ _ _ Inv H)). Qed.

Ltac pres_step :=
  first
    [ apply pres_bv_lit
    | apply pres_bind; [|intro]
    | apply pres_ret | apply pres_fail | apply pres_assert | apply pres_lift
    | apply pres_get_type | apply pres_string | apply pres_bv_lit
    | apply pres_get_true | apply pres_get_false
    | apply pres_add_expr; exact I
    | match goal with
      | |- pres (match ?x with _ => _ end) => destruct x
      | |- pres (if ?b then _ else _) => destruct b
      end ].

Lemma pres_lit_arr_fold es : forall arr, pres (cx_lit_arr_fold es arr).
Proof.
  induction es as [|[i d] t IH]; intro arr; cbn [cx_lit_arr_fold].
  - apply pres_ret.
  - unfold cx_array_store.
    apply pres_bind; [apply pres_bv_lit|intro i'].
    apply pres_bind; [apply pres_bv_lit|intro d'].
    apply pres_bind; [apply pres_add_expr; exact I|intro a']. apply IH.
Qed.

Lemma pres_run_op o : pres (cx_run_op o).
Proof.
  destruct o; cbn [cx_run_op]; unfold cx_as_expr, cx_bv_symbol, cx_array_symbol, cx_symbol, cx_bit_vec_val,
    cx_zero, cx_one, cx_ones, cx_zero_array, cx_lit_arr, cx_distinct, cx_ite, cx_implies, cx_greater,
    cx_greater_signed, cx_greater_or_equal, cx_greater_or_equal_signed, cx_negate, cx_not, cx_xor3, cx_majority,
    cx_concat, cx_slice, cx_extend, cx_array_read, cx_zero, cx_lit_value, cx_bin, cx_equal, cx_array_const,
    cx_array_store, cx_zero_extend, cx_sign_extend, cx_assert_same_width, cx_assert_bool, cx_bv_type;
    repeat first [ pres_step | apply pres_lit_arr_fold ].
Qed.

(* ================================================================== Part 5: histories *)
Lemma cx_exec_cons o ops c : cx_exec (o :: ops) c = cx_exec ops (fst (cx_run_op o c)).
Proof. reflexivity. Qed.

Lemma cx_exec_app ops1 ops2 c : cx_exec (ops1 ++ ops2) c = cx_exec ops2 (cx_exec ops1 c).
Proof. unfold cx_exec. apply fold_left_app. Qed.

Lemma cx_exec_inv ops : forall c, cx_inv c -> cx_inv (cx_exec ops c).
Proof.
  induction ops as [|o t IH]; intros c Inv; [exact Inv|].
  rewrite cx_exec_cons. apply IH. destruct (cx_run_op o c) as [c' r] eqn:E. cbn [fst].
  eapply pres_run_op; eauto.
Qed.

Lemma cx_exec_ext ops : forall c, cx_ext c (cx_exec ops c).
Proof.
  induction ops as [|o t IH]; intro c; [apply cx_ext_refl|].
  rewrite cx_exec_cons. destruct (cx_run_op o c) as [c' r] eqn:E. cbn [fst].
  eapply cx_ext_trans; [eapply (proj1 (good_run_op o)); eauto|apply IH].
Qed.

Definition reachable (c : cx) : Prop := exists ops, c = cx_exec ops cx_default.

Lemma reachable_inv c : reachable c -> cx_inv c.
Proof. intros [ops ->]. apply cx_exec_inv, cx_inv_default. Qed.

Lemma reachable_exec ops c : reachable c -> reachable (cx_exec ops c).
Proof. intros [ops0 ->]. exists (ops0 ++ ops). now rewrite cx_exec_app. Qed.

(* ---- canonical *)
Lemma canonical_node_lemma :
  forall ops r1 r2 n1 n2,
    let c := cx_exec ops cx_default in
    cx_lookup c r1 = Some n1 -> cx_lookup c r2 = Some n2 -> (r1 = r2 <-> n1 = n2).
Proof.
  intros ops r1 r2 n1 n2 c H1 H2.
  assert (Inv : cx_inv c) by (apply cx_exec_inv, cx_inv_default).
  unfold cx_lookup in *. split.
  - intros ->. congruence.
  - intros ->. eapply NoDup_cx_nth_inj; eauto using cv_exprs.
Qed.

Lemma cx_add_expr_lookup n c c' r : cx_add_expr n c = (c', CxOk r) -> cx_lookup c' r = Some n.
Proof.
  unfold cx_add_expr, cx_lookup.
  pose proof (cx_intern_nth cx_node_eqb cx_node_eqb_eq n (cx_exprs c)) as H.
  destruct (cx_intern cx_node_eqb n (cx_exprs c)) as [es i]. intros [= <- <-]. exact H.
Qed.

(** the same call, issued again after any further history, returns the same
    reference and leaves the context as it is *)
Lemma same_call_lemma :
  forall ops1 o ops2 r,
    let c := cx_exec ops1 cx_default in
    forall c1, cx_run_op o c = (c1, CxOk r) ->
    let c2 := cx_exec ops2 c1 in
    cx_run_op o c2 = (c2, CxOk r).
Proof.
  intros ops1 o ops2 r c c1 H c2.
  eapply (proj2 (good_run_op o)); [exact H|apply cx_exec_ext].
Qed.

Lemma words_at_ws_at it idx w ws :
  cx_value_shape_ok w ws = true -> cx_words_at it idx w = ws_at (ci_words it) idx (length ws).
Proof.
  unfold cx_value_shape_ok, cx_words_at, ws_at. intro H. apply andb_true_iff in H as [_ H].
  apply N.eqb_eq in H. rewrite cx_len0 in H. rewrite <- H. now rewrite Nat2N.id.
Qed.

Lemma lit_words c r idx w :
  cx_inv c -> cx_nth (cx_exprs c) r = Some (CnBVLiteral idx w) ->
  idx_of (cx_values c) (cx_words_at (cx_values c) idx w) idx /\
  cx_value_shape_ok w (cx_words_at (cx_values c) idx w) = true.
Proof.
  intros Inv H. destruct (cv_lits _ Inv _ _ _ H) as (ws & Hi & Hs).
  rewrite (words_at_ws_at _ _ _ _ Hs), (idx_of_words _ _ _ (cv_values _ Inv) Hi). auto.
Qed.

Definition key_resolved (k : cx_key) : Prop :=
  match k with
  | CkSym None _ => False
  | CkArrSym None _ _ => False
  | _ => True
  end.

(** two references that denote the same expression — same operator, operand
    references and widths, same symbol NAME, same literal VALUE — are the same reference *)
Lemma canonical_key_lemma :
  forall ops r1 r2 n1 n2,
    let c := cx_exec ops cx_default in
    cx_lookup c r1 = Some n1 -> cx_lookup c r2 = Some n2 ->
    key_resolved (cx_key_of c n1) ->
    cx_key_of c n1 = cx_key_of c n2 -> r1 = r2.
Proof.
  intros ops r1 r2 n1 n2 c H1 H2 Hres Hk.
  assert (Inv : cx_inv c) by (apply cx_exec_inv, cx_inv_default).
  unfold cx_lookup in *.
  assert (n1 = n2); [|subst; eapply NoDup_cx_nth_inj; eauto using cv_exprs].
  destruct n1, n2; cbn [cx_key_of] in Hk; try discriminate Hk; try (inversion Hk; subst; reflexivity).
  - (* bit-vector symbols: equal names *)
    injection Hk as Hn Hw. cbn [cx_key_of key_resolved] in Hres.
    destruct (cx_nth (cx_strings c) name) as [s|] eqn:Es; [|contradiction].
    rewrite Hw. f_equal.
    eapply (NoDup_cx_nth_inj (cx_strings c)); [exact (cv_strings _ Inv)|exact Es|symmetry; exact Hn].
  - (* literals: equal width and words *)
    injection Hk as Hw Hws. rewrite Hw in *.
    destruct (lit_words _ _ _ _ Inv H1) as (I1 & _), (lit_words _ _ _ _ Inv H2) as (I2 & _).
    rewrite Hws in I1. f_equal.
    eapply idx_of_fun; [exact (cv_values _ Inv)|exact I1|exact I2].
  - (* array symbols *)
    injection Hk as Hn Hi Hd. cbn [cx_key_of key_resolved] in Hres.
    destruct (cx_nth (cx_strings c) name) as [s|] eqn:Es; [|contradiction].
    rewrite Hi, Hd. f_equal.
    eapply (NoDup_cx_nth_inj (cx_strings c)); [exact (cv_strings _ Inv)|exact Es|symmetry; exact Hn].
Qed.

(* ---- stable *)
Lemma stable_lemma :
  forall ops1 ops2 r n,
    let c := cx_exec ops1 cx_default in
    let c' := cx_exec ops2 c in
    cx_lookup c r = Some n ->
    cx_lookup c' r = Some n /\
    (forall t, cx_type_of (cx_exprs c) r = CxOk t -> cx_type_of (cx_exprs c') r = CxOk t) /\
    (forall s, cx_symbol_name c r = Some s -> cx_symbol_name c' r = Some s) /\
    (key_resolved (cx_key_of c n) -> cx_key_of c' n = cx_key_of c n).
Proof.
  intros ops1 ops2 r n c c' H.
  assert (Inv : cx_inv c) by (apply cx_exec_inv, cx_inv_default).
  pose proof (cx_exec_ext ops2 c) as (PS & PE & (PW & _) & _). fold c' in PS, PE, PW.
  unfold cx_lookup in *.
  assert (H' : cx_nth (cx_exprs c') r = Some n) by (eapply cx_nth_prefix; eauto).
  split; [exact H'|]. split; [|split].
  - intros t Ht. eapply cx_type_of_prefix; eauto.
  - unfold cx_symbol_name, cx_lookup. rewrite H, H'.
    destruct n; try discriminate; intros s Hs; eapply cx_nth_prefix; eauto.
  - destruct n; cbn [cx_key_of key_resolved]; try reflexivity.
    + destruct (cx_nth (cx_strings c) name) eqn:E; [|contradiction].
      intros _. now rewrite (cx_nth_prefix _ _ _ _ PS E).
    + intros _. f_equal.
      destruct (cv_lits _ Inv _ _ _ H) as (ws & Hi & Hs).
      rewrite !(words_at_ws_at _ _ _ _ Hs). destruct PW as [s ->].
      apply ws_at_app.
      destruct Hi as [(x & -> & Hx & ->)|[(x & -> & Hin)|Hin]].
      * pose proof (it_inv_words_len _ (cv_values _ Inv)). cbn [length]. lia.
      * apply (ii_small _ (cv_values _ Inv)) in Hin. cbn [length]. lia.
      * apply (ii_large _ (cv_values _ Inv)) in Hin. lia.
    + destruct (cx_nth (cx_strings c) name) eqn:E; [|contradiction].
      intros _. now rewrite (cx_nth_prefix _ _ _ _ PS E).
Qed.

(* ---- true / false *)
Lemma true_false_lemma :
  forall ops, let c := cx_exec ops cx_default in
    cx_true c = 1 /\ cx_false c = 0 /\
    cx_lookup c 1 = Some (CnBVLiteral 1 1) /\ cx_lookup c 0 = Some (CnBVLiteral 0 1) /\
    (forall r idx w, cx_lookup c r = Some (CnBVLiteral idx w) ->
       (cx_is_true (CnBVLiteral idx w) = true <-> w = 1 /\ cx_words_at (cx_values c) idx w = [1]) /\
       (cx_is_false (CnBVLiteral idx w) = true <-> w = 1 /\ cx_words_at (cx_values c) idx w = [0])).
Proof.
  intros ops c.
  assert (Inv : cx_inv c) by (apply cx_exec_inv, cx_inv_default).
  destruct (cv_tf _ Inv) as (F & T & L0 & L1). unfold cx_lookup.
  repeat (split; [assumption|]).
  intros r idx w H. destruct (lit_words _ _ _ _ Inv H) as (Hi & Hs).
  set (ws := cx_words_at (cx_values c) idx w) in *.
  assert (Hone : w = 1 -> exists x, ws = [x]).
  { intros ->. unfold cx_value_shape_ok in Hs. apply andb_true_iff in Hs as [_ Hs].
    apply N.eqb_eq in Hs. rewrite cx_len0 in Hs. change (cx_nwords 1) with 1 in Hs.
    destruct ws as [|x [|y t]]; cbn [length] in Hs; try lia. now exists x. }
  cbn [cx_is_true cx_is_false]. rewrite !andb_true_iff, !N.eqb_eq.
  split; split.
  - intros [-> ->]. split; [reflexivity|]. destruct (Hone eq_refl) as [x Hx]. rewrite Hx in *.
    destruct Hi as [(y & [= <-] & _ & <-)|[(y & [= <-] & Hin)|Hin]]; [reflexivity| |].
    + apply (ii_small _ (cv_values _ Inv)) in Hin. lia.
    + apply (ii_large _ (cv_values _ Inv)) in Hin. cbn in Hin. tauto.
  - intros [-> Hw]. split; [reflexivity|]. rewrite Hw in Hi.
    destruct Hi as [(y & [= <-] & _ & ->)|[(y & [= <-] & Hin)|Hin]]; [reflexivity| |].
    + apply (ii_small _ (cv_values _ Inv)) in Hin. lia.
    + apply (ii_large _ (cv_values _ Inv)) in Hin. cbn in Hin. tauto.
  - intros [-> ->]. split; [reflexivity|]. destruct (Hone eq_refl) as [x Hx]. rewrite Hx in *.
    destruct Hi as [(y & [= <-] & _ & <-)|[(y & [= <-] & Hin)|Hin]]; [reflexivity| |].
    + apply (ii_small _ (cv_values _ Inv)) in Hin. lia.
    + apply (ii_large _ (cv_values _ Inv)) in Hin. cbn in Hin. tauto.
  - intros [-> Hw]. split; [reflexivity|]. rewrite Hw in Hi.
    destruct Hi as [(y & [= <-] & _ & ->)|[(y & [= <-] & Hin)|Hin]]; [reflexivity| |].
    + apply (ii_small _ (cv_values _ Inv)) in Hin. lia.
    + apply (ii_large _ (cv_values _ Inv)) in Hin. cbn in Hin. tauto.
Qed.

(* ---- literals *)
Lemma cx_digits_value n v : cx_value_of_words (cx_digits n v) = v mod (cx_word_base ^ N.of_nat n).
Proof.
  revert v. induction n as [|k IH]; intro v.
  - cbn [cx_digits cx_value_of_words]. change (N.of_nat 0) with 0. rewrite N.pow_0_r, N.mod_1_r. reflexivity.
  - cbn [cx_digits cx_value_of_words]. rewrite IH, Nat2N.inj_succ, N.pow_succ_r'.
    symmetry. apply N.mod_mul_r; [discriminate|].
    apply N.pow_nonzero. discriminate.
Qed.

Lemma cx_nwords_bound w : w <= 64 * cx_nwords w.
Proof.
  unfold cx_nwords. pose proof (N.div_mod (w + 63) 64 ltac:(discriminate)) as H.
  pose proof (N.mod_lt (w + 63) 64 ltac:(discriminate)). lia.
Qed.

(** the canonical words determine the value: [cx_words_of w] is injective below [2^w] *)
Lemma cx_value_of_words_of w v : v < 2 ^ w -> cx_value_of_words (cx_words_of w v) = v.
Proof.
  intro H. unfold cx_words_of. rewrite cx_digits_value, N2Nat.id.
  apply N.mod_small. change cx_word_base with (2 ^ 64). rewrite <- N.pow_mul_r.
  eapply N.lt_le_trans; [exact H|]. apply N.pow_le_mono_r; [discriminate|apply cx_nwords_bound].
Qed.

Lemma cx_words_of_inj w v1 v2 : v1 < 2 ^ w -> v2 < 2 ^ w -> cx_words_of w v1 = cx_words_of w v2 -> v1 = v2.
Proof.
  intros H1 H2 E. rewrite <- (cx_value_of_words_of w v1 H1), <- (cx_value_of_words_of w v2 H2). now rewrite E.
Qed.

Lemma cx_digits_length n v : length (cx_digits n v) = n.
Proof. revert v. induction n as [|k IH]; intro v; cbn [cx_digits length]; [reflexivity|now rewrite IH]. Qed.

Lemma cx_words_of_shape w v : w <> 0 -> cx_value_shape_ok w (cx_words_of w v) = true.
Proof.
  intro H. unfold cx_value_shape_ok, cx_words_of. apply andb_true_iff. split.
  - apply negb_true_iff. now apply N.eqb_neq.
  - apply N.eqb_eq. rewrite cx_len0, cx_digits_length. apply N2Nat.id.
Qed.

(** interning two values in one history: same reference iff same width and same words;
    the reference denotes a literal whose stored words are the words handed in *)
Lemma lit_canonical_lemma :
  forall ops1 ops2 w ws w' ws' r1 r2 c1 c3,
    let c := cx_exec ops1 cx_default in
    cx_bv_lit w ws c = (c1, CxOk r1) ->
    let c2 := cx_exec ops2 c1 in
    cx_bv_lit w' ws' c2 = (c3, CxOk r2) ->
    (r1 = r2 <-> (w = w' /\ ws = ws')) /\
    (exists idx, cx_lookup c3 r2 = Some (CnBVLiteral idx w') /\ cx_words_at (cx_values c3) idx w' = ws').
Proof.
  intros ops1 ops2 w ws w' ws' r1 r2 c1 c3 c H1 c2 H2.
  assert (Inv : cx_inv c) by (apply cx_exec_inv, cx_inv_default).
  destruct (cx_bv_lit_spec _ _ _ _ _ Inv H1) as (Inv1 & S1).
  destruct (S1 r1 eq_refl) as (Sh1 & idx1 & L1 & I1).
  assert (Inv2 : cx_inv c2) by (apply cx_exec_inv; exact Inv1).
  destruct (cx_bv_lit_spec _ _ _ _ _ Inv2 H2) as (Inv3 & S2).
  destruct (S2 r2 eq_refl) as (Sh2 & idx2 & L2 & I2).
  pose proof (cx_exec_ext ops2 c1) as E12. fold c2 in E12.
  pose proof (proj1 (good_bv_lit w' ws') _ _ _ H2) as E23.
  pose proof (cx_ext_trans _ _ _ E12 E23) as E13.
  split.
  - split.
    + intros <-.
      assert (L1' : cx_nth (cx_exprs c3) r1 = Some (CnBVLiteral idx1 w)).
      { destruct E13 as (_ & P & _). eapply cx_nth_prefix; eauto. }
      rewrite L1' in L2. injection L2 as Hi Hw. split; [exact Hw|]. subst idx2.
      eapply idx_of_inj; [exact (cv_values _ Inv3)| |exact I2].
      destruct E13 as (_ & _ & V & _). eapply idx_of_ext; eauto.
    + intros [<- <-].
      pose proof (proj2 (good_bv_lit w ws) _ _ _ _ H1 E12) as H2'. rewrite H2' in H2. congruence.
  - exists idx2. split; [exact L2|].
    rewrite (words_at_ws_at _ _ _ _ Sh2). apply idx_of_words; [exact (cv_values _ Inv3)|exact I2].
Qed.

(** ... hence equal canonical (width, value) pairs intern to the same reference, different
    pairs to different references, whichever way the values were computed *)
Lemma lit_value_canonical_lemma :
  forall ops1 ops2 w v w' v' r1 r2 c1 c3,
    v < 2 ^ w -> v' < 2 ^ w' ->
    let c := cx_exec ops1 cx_default in
    cx_lit_value w v c = (c1, CxOk r1) ->
    let c2 := cx_exec ops2 c1 in
    cx_lit_value w' v' c2 = (c3, CxOk r2) ->
    (r1 = r2 <-> (w = w' /\ v = v')).
Proof.
  intros ops1 ops2 w v w' v' r1 r2 c1 c3 Hv Hv' c H1 c2 H2.
  destruct (lit_canonical_lemma ops1 ops2 _ _ _ _ _ _ _ _ H1 H2) as (Hiff & _).
  rewrite Hiff. split.
  - intros [<- E]. split; [reflexivity|]. eapply cx_words_of_inj; eauto.
  - intros [<- <-]. auto.
Qed.
